(** C16 (.include, source level), nested position, part 1 — the parser.
    The include line stands at a statement position inside open constructs: the text before it,
    [a], is a prefix that leaves [k] constructs open ([opens]): top-level statements, then the
    header of a construct with a body ("{", ".scope n {", ".macro m(..) {", ".if c {",
    ".if c { .. } else {", ".for v := lo, hi {"), statements of that body, the header of the next
    construct, ..., statements of the innermost body up to the include line.
    Results are stated for every sufficient fuel ([stab]). *)
From Coq Require Import Arith Lia List Bool ZArith.
From A816 Require Import Model.Parser Proofs.ParserProofs Proofs.ParseFail Proofs.IncludeMove1 Proofs.IncludeMove2.
From A816 Require Proofs.ParserFuelProofs Proofs.LocationTextParse.
Open Scope nat_scope.

Module PF := ParserFuelProofs.

(** the result of a fuelled computation, for every sufficient fuel *)
Definition stab {A} (run : nat -> pres A) (r : A) : Prop := exists f0, forall g, f0 <= g -> run g = POk r.
Definition mono {A} (run : nat -> pres A) : Prop := forall f f', f <= f' -> PF.le (run f) (run f').

Lemma stab_of {A} (run : nat -> pres A) f r : mono run -> run f = POk r -> stab run r.
Proof.
  intros M E. exists f. intros g Hg. destruct (M f g Hg) as [X|X]; rewrite E in X; [discriminate|]. symmetry. exact X.
Qed.
Lemma stab_fun {A} (run : nat -> pres A) r r' : stab run r -> stab run r' -> r = r'.
Proof.
  intros (f1 & H1) (f2 & H2). specialize (H1 (Nat.max f1 f2) ltac:(lia)). specialize (H2 (Nat.max f1 f2) ltac:(lia)).
  congruence.
Qed.

Lemma stab_bind {A B} (runA : nat -> pres A) (k : nat -> A -> pres B) r :
  mono runA -> stab (fun g => pbind (runA g) (k g)) r -> exists a, stab runA a /\ stab (fun g => k g a) r.
Proof.
  intros M (f0 & H). destruct (runA f0) as [a| | |] eqn:E; try (specialize (H f0 (le_n _)); rewrite E in H; discriminate).
  pose proof (stab_of runA f0 a M E) as (f1 & H1).
  exists a. split; [exists f1; exact H1|]. exists (Nat.max f0 f1). intros g Hg.
  specialize (H g ltac:(lia)). rewrite (H1 g) in H by lia. exact H.
Qed.
Lemma stab_bind_intro {A B} (runA : nat -> pres A) (k : nat -> A -> pres B) a r :
  stab runA a -> stab (fun g => k g a) r -> stab (fun g => pbind (runA g) (k g)) r.
Proof.
  intros (f1 & H1) (f2 & H2). exists (Nat.max f1 f2). intros g Hg. rewrite H1 by lia. cbn [pbind]. apply H2. lia.
Qed.
Lemma stab_shift {A} (run : nat -> pres A) k r : stab (fun g => run (k + g)) r <-> stab run r.
Proof.
  split; intros (f0 & H).
  - exists (k + f0). intros g Hg. replace g with (k + (g - k)) by lia. apply H. lia.
  - exists f0. intros g Hg. apply H. lia.
Qed.
Lemma stab_ext {A} (run run' : nat -> pres A) f0 r : (forall g, f0 <= g -> run g = run' g) -> stab run r -> stab run' r.
Proof. intros E (f1 & H). exists (Nat.max f0 f1). intros g Hg. rewrite <- E by lia. apply H. lia. Qed.

(** ** programs equal up to one included block flattened in place, at any depth of
    block / scope / macro body / if / else / for; [X1] is the include statement's block, [X2] the
    statements in place *)
Definition lookrelE (prog prog' : list ast) : Prop := exists h, lookrel h prog prog'.

Inductive fast (X1 X2 : list ast) : ast -> ast -> Prop :=
| fa_refl a : fast X1 X2 a a
| fa_compound b b' fi : flist X1 X2 b b' -> fast X1 X2 (ACompound b fi) (ACompound b' fi)
| fa_scope n b b' bf fi : flist X1 X2 b b' -> fast X1 X2 (AScope n b bf fi) (AScope n b' bf fi)
| fa_macro n ps b b' bf fi : flist X1 X2 b b' -> fast X1 X2 (AMacro n ps b bf fi) (AMacro n ps b' bf fi)
| fa_if_then c th th' tf el fi : flist X1 X2 th th' -> fast X1 X2 (AIf c th tf el fi) (AIf c th' tf el fi)
| fa_if_else c th tf eb eb' ef fi : flist X1 X2 eb eb' ->
    fast X1 X2 (AIf c th tf (Some (eb, ef)) fi) (AIf c th tf (Some (eb', ef)) fi)
| fa_for v lo hi b b' bf fi : flist X1 X2 b b' -> fast X1 X2 (AFor v lo hi b bf fi) (AFor v lo hi b' bf fi)
with flist (X1 X2 : list ast) : list ast -> list ast -> Prop :=
| fl_here pre pre' post : lookrelE pre pre' -> flist X1 X2 (pre ++ X1 ++ post) (pre' ++ X2 ++ post)
| fl_in pre a a' post : fast X1 X2 a a' -> flist X1 X2 (pre ++ a :: post) (pre ++ a' :: post).

Section Nest.
  Variable inc : str -> res (list token).
  Variable j : nat.
  Notation sub := (inc_sub j inc).

  Definition sdecl (l : list token) (pos : nat) : option ast * nat -> Prop := stab (fun g => pdecl l sub g pos).
  Definition sblock (l : list token) (pos : nat) (acc : list ast) : list ast * nat -> Prop :=
    stab (fun g => pblock l sub g pos acc).
  Definition sinit (l : list token) (pos : nat) (acc : list ast) : list ast -> Prop :=
    stab (fun g => pinitial l sub g pos acc).

  Lemma mono_pdecl l pos : mono (fun g => pdecl l sub g pos).
  Proof. intros f f' H. apply (PF.knot_mono l sub f f' H). Qed.
  Lemma mono_pblock l pos acc : mono (fun g => pblock l sub g pos acc).
  Proof. intros f f' H. apply (PF.knot_mono l sub f f' H). Qed.
  Lemma mono_pinitial l pos acc : mono (fun g => pinitial l sub g pos acc).
  Proof. intros f f' H. apply PF.pinitial_mono. exact H. Qed.

  Lemma sdecl_stable l pos d p : sdecl l pos (d, p) <-> stable sub l pos d p.
  Proof. reflexivity. Qed.

  (** one statement of a block *)
  Definition bcont (l : list token) (pos : nat) : bool := is_ty (cur l pos) T_EOF || is_ty (cur l pos) T_RBRACE.

  Lemma sblock_step l pos acc d p r : bcont l pos = false -> sdecl l pos (d, p) ->
    (sblock l pos acc r <-> sblock l p (opt_app acc d) r).
  Proof.
    intros Hc Hd. unfold sblock. rewrite <- (stab_shift (fun g => pblock l sub g pos acc) 1).
    split; intros H.
    - assert (H' : stab (fun g => pbind (pdecl l sub g pos) (fun x => pblock l sub g (snd x) (opt_app acc (fst x)))) r).
      { eapply stab_ext with (f0 := 0); [|exact H]. intros g _. cbn [Nat.add]. rewrite pblock_S. cbv zeta. unfold bcont in Hc. rewrite Hc. reflexivity. }
      destruct (stab_bind _ _ _ (mono_pdecl l pos) H') as (a & Ha & Hk).
      rewrite (stab_fun _ _ _ Ha Hd) in Hk. exact Hk.
    - eapply stab_ext with (f0 := 0); [|apply (stab_bind_intro (fun g => pdecl l sub g pos)
                                             (fun g x => pblock l sub g (snd x) (opt_app acc (fst x))) _ _ Hd H)].
      intros g _. cbn [Nat.add]. rewrite pblock_S. cbv zeta. unfold bcont in Hc. rewrite Hc. reflexivity.
  Qed.

  Lemma sinit_step l pos acc d p r : is_ty (cur l pos) T_EOF = false -> sdecl l pos (d, p) ->
    (sinit l pos acc r <-> sinit l p (opt_app acc d) r).
  Proof.
    intros Hc Hd. unfold sinit. rewrite <- (stab_shift (fun g => pinitial l sub g pos acc) 1).
    split; intros H.
    - assert (H' : stab (fun g => pbind (pdecl l sub g pos) (fun x => pinitial l sub g (snd x) (opt_app acc (fst x)))) r).
      { eapply stab_ext with (f0 := 0); [|exact H]. intros g _. cbn [Nat.add pinitial]. rewrite Hc. reflexivity. }
      destruct (stab_bind _ _ _ (mono_pdecl l pos) H') as (a & Ha & Hk).
      rewrite (stab_fun _ _ _ Ha Hd) in Hk. exact Hk.
    - eapply stab_ext with (f0 := 0); [|apply (stab_bind_intro (fun g => pdecl l sub g pos)
                                             (fun g x => pinitial l sub g (snd x) (opt_app acc (fst x))) _ _ Hd H)].
      intros g _. cbn [Nat.add pinitial]. rewrite Hc. reflexivity.
  Qed.

  (** statements of a block, from [pos] with [acc] to [pos'] with [acc'] *)
  Inductive breach (l : list token) : nat -> list ast -> nat -> list ast -> Prop :=
  | breach_refl pos acc : breach l pos acc pos acc
  | breach_step pos acc d p pos' acc' :
      bcont l pos = false -> stable sub l pos d p -> breach l p (opt_app acc d) pos' acc' ->
      breach l pos acc pos' acc'.

  Lemma breach_sblock l pos acc pos' acc' r : breach l pos acc pos' acc' ->
    (sblock l pos acc r <-> sblock l pos' acc' r).
  Proof. induction 1 as [|pos acc d p pos' acc' Hc Hd _ IH]; [reflexivity|]. rewrite (sblock_step l pos acc d p r Hc Hd). exact IH. Qed.
  Lemma reach_sinit l pos acc pos' acc' r : reach sub l pos acc pos' acc' ->
    (sinit l pos acc r <-> sinit l pos' acc' r).
  Proof. induction 1 as [|pos acc d p pos' acc' Hc Hd _ IH]; [reflexivity|]. rewrite (sinit_step l pos acc d p r Hc Hd). exact IH. Qed.

  (** a statement does not start with "}" *)
  Lemma stable_start l pos d p : stable sub l pos d p -> bcont l pos = false.
  Proof.
    intros (f0 & H). specialize (H (S f0) ltac:(lia)). rewrite pdecl_S in H. unfold pdecl_body, bcont, is_ty in *.
    destruct (t_type (cur l pos)); try discriminate H; reflexivity.
  Qed.
  Lemma reach_breach l pos acc pos' acc' : reach sub l pos acc pos' acc' -> breach l pos acc pos' acc'.
  Proof. induction 1; [constructor|]. eapply breach_step; eauto using stable_start. Qed.
  Lemma breach_trans l p1 a1 p2 a2 p3 a3 : breach l p1 a1 p2 a2 -> breach l p2 a2 p3 a3 -> breach l p1 a1 p3 a3.
  Proof. induction 1; intros H2; [exact H2|]. eapply breach_step; eauto. Qed.
  Lemma breach_acc l pos acc pos' acc' : breach l pos acc pos' acc' -> forall x, breach l pos (x ++ acc) pos' (x ++ acc').
  Proof.
    induction 1 as [pos acc|pos acc dd p pos' acc' He Hst _ IH]; intros x; [constructor|].
    eapply breach_step; [exact He|exact Hst|]. rewrite opt_app_app. apply IH.
  Qed.

  (** ** shift and accumulator *)
  Lemma pblock_shift0 C d f pos : pblock C sub f (d + pos) [] = shiftR d (pblock (skipn d C) sub f pos []).
  Proof.
    destruct (LocationTextParse.knot_rel eq ltac:(congruence) ltac:(congruence) (skipn d C) C d (cur_skipn C d) sub sub
                (sub_self inc j) f) as (_ & H & _).
    specialize (H pos [] [] (Forall2_nil _)).
    destruct (pblock (skipn d C) sub f pos []) as [[a p]|k t|t|], (pblock C sub f (d + pos) []) as [[a' p']|k' t'|t'|];
      cbn [LocationTextParse.prel] in H; try contradiction; cbn [shiftR].
    - destruct H as [Ha Hp]. cbn [fst snd] in *. subst p'. rewrite (asrel_eq _ _ Ha). reflexivity.
    - destruct H as [-> Ht]. destruct t, t'; cbn [LocationTextParse.oT] in Ht; try contradiction; subst; reflexivity.
    - destruct t, t'; cbn [LocationTextParse.oT] in H; try contradiction; subst; reflexivity.
    - reflexivity.
  Qed.

  Lemma pblock_acc l : forall f pos acc,
    pblock l sub f pos acc = (dop r <- pblock l sub f pos []; POk (acc ++ fst r, snd r)).
  Proof.
    induction f as [|f IH]; intros pos acc; [reflexivity|]. rewrite !pblock_S. cbv zeta.
    destruct (_ || _).
    - unfold expect. destruct (is_ty _ _); [cbn [pbind fst snd]; rewrite app_nil_r; reflexivity|reflexivity].
    - destruct (pdecl l sub f pos) as [[d p]| | |]; cbn [pbind fst snd]; try reflexivity.
      rewrite (IH p (opt_app acc d)), (IH p (opt_app [] d)).
      destruct (pblock l sub f p []) as [[y e]| | |]; cbn [pbind fst snd]; try reflexivity.
      rewrite <- (app_nil_r acc) at 1. rewrite opt_app_app, <- app_assoc. reflexivity.
  Qed.

  Lemma sblock_acc l pos acc r : sblock l pos acc r <-> exists y p, r = (acc ++ y, p) /\ sblock l pos [] (y, p).
  Proof.
    unfold sblock. split.
    - intros H. assert (H' : stab (fun g => pbind (pblock l sub g pos []) (fun x => POk (acc ++ fst x, snd x))) r).
      { eapply stab_ext with (f0 := 0); [|exact H]. intros g _. apply pblock_acc. }
      destruct (stab_bind _ (fun _ x => POk (acc ++ fst x, snd x)) _ (mono_pblock l pos []) H') as ([y p] & Ha & (f1 & Hk)).
      specialize (Hk f1 (le_n _)). cbn [fst snd] in Hk. injection Hk as <-. exists y, p. auto.
    - intros (y & p & -> & H). eapply stab_ext with (f0 := 0); [intros g _; symmetry; apply pblock_acc|].
      apply (stab_bind_intro (fun g => pblock l sub g pos []) (fun _ x => POk (acc ++ fst x, snd x)) (y, p)); [exact H|].
      exists 0. reflexivity.
  Qed.

  Lemma sinit_acc l pos acc r : sinit l pos acc r <-> exists y, r = acc ++ y /\ sinit l pos [] y.
  Proof.
    unfold sinit. split.
    - intros H. assert (H' : stab (fun g => pbind (pinitial l sub g pos []) (fun x => POk (acc ++ x))) r).
      { eapply stab_ext with (f0 := 0); [|exact H]. intros g _. apply pinitial_acc. }
      destruct (stab_bind _ (fun _ x => POk (acc ++ x)) _ (mono_pinitial l pos []) H') as (y & Ha & (f1 & Hk)).
      specialize (Hk f1 (le_n _)). injection Hk as <-. exists y. auto.
    - intros (y & -> & H). eapply stab_ext with (f0 := 0); [intros g _; symmetry; apply pinitial_acc|].
      apply (stab_bind_intro (fun g => pinitial l sub g pos []) (fun _ x => POk (acc ++ x)) y); [exact H|].
      exists 0. reflexivity.
  Qed.

  Lemma sblock_shift C d pos b p : sblock C (d + pos) [] (b, d + p) <-> sblock (skipn d C) pos [] (b, p).
  Proof.
    unfold sblock. split; intros (f0 & H); exists f0; intros g Hg; specialize (H g Hg); rewrite pblock_shift0 in *.
    - destruct (pblock (skipn d C) sub g pos []) as [[a q]| | |]; cbn [shiftR] in H; try discriminate.
      injection H as -> Hq. f_equal. f_equal. lia.
    - rewrite H. reflexivity.
  Qed.
  Lemma sdecl_shift C d pos a p : sdecl C (d + pos) (a, d + p) <-> sdecl (skipn d C) pos (a, p).
  Proof.
    unfold sdecl. split; intros (f0 & H); exists f0; intros g Hg; specialize (H g Hg); rewrite (pdecl_shift inc j) in *.
    - destruct (pdecl (skipn d C) sub g pos) as [[x q]| | |]; cbn [shiftR] in H; try discriminate.
      injection H as -> Hq. f_equal. f_equal. lia.
    - rewrite H. reflexivity.
  Qed.
  Lemma sinit_shift C d pos acc r : sinit C (d + pos) acc r <-> sinit (skipn d C) pos acc r.
  Proof. unfold sinit. split; intros (f0 & H); exists f0; intros g Hg; specialize (H g Hg); rewrite (pinitial_shift inc j) in *; exact H. Qed.
  (** a shifted block ends further on *)
  Lemma sblock_shift_pos C d pos b P : sblock C (d + pos) [] (b, P) -> exists p, P = d + p.
  Proof.
    intros (f0 & H). specialize (H f0 (le_n _)). rewrite pblock_shift0 in H.
    destruct (pblock (skipn d C) sub f0 pos []) as [[a q]| | |]; cbn [shiftR] in H; try discriminate.
    injection H as _ <-. eauto.
  Qed.

  (* ---------------------------------------------------------------------------------------- *)
  (** ** open constructs *)
  Inductive frame :=
  | FCompound (d : nat)
  | FScope (d : nat)
  | FMacro (d : nat) (args : list str) (p2 : nat)
  | FIf (d : nat) (c : expr) (p1 : nat)
  | FElse (d : nat) (c : expr) (p1 : nat) (th : list ast) (p2 : nat)
  | FFor (d : nat) (lo hi : expr) (p2 p3 : nat).

  (** where the statement that opens the construct starts, where the statements of its body start *)
  Definition fdecl (fr : frame) : nat :=
    match fr with FCompound d | FScope d | FMacro d _ _ | FIf d _ _ | FElse d _ _ _ _ | FFor d _ _ _ _ => d end.
  Definition fstart (fr : frame) : nat :=
    match fr with
    | FCompound d => S d | FScope d => S (S (S d)) | FMacro _ _ p2 => S (S p2) | FIf _ _ p1 => S p1
    | FElse _ _ _ _ p2 => S (S p2) | FFor _ _ _ _ p3 => S p3
    end.

  Definition kwat (l : list token) (d : nat) (k : str) : Prop := t_type (cur l d) = T_KEYWORD /\ t_value (cur l d) = k.
  Definition sexpr (l : list token) (pos : nat) : expr * nat -> Prop := stab (fun g => pexpression l g pos).

  (** the header of the construct, on the token list [l] *)
  Definition fvalid (l : list token) (fr : frame) : Prop :=
    match fr with
    | FCompound d => t_type (cur l d) = T_LBRACE
    | FScope d => kwat l d k_scope /\ is_ty (cur l (S d)) T_IDENTIFIER = true /\ is_ty (cur l (S (S d))) T_LBRACE = true
    | FMacro d args p2 =>
        kwat l d k_macro /\ is_ty (cur l (S d)) T_IDENTIFIER = true /\ is_ty (cur l (S (S d))) T_LPAREN = true /\
        stab (fun g => pmacro_args l g (S (S (S d)))) (args, p2) /\
        is_ty (cur l p2) T_RPAREN = true /\ is_ty (cur l (S p2)) T_LBRACE = true
    | FIf d c p1 => kwat l d k_if /\ sexpr l (S d) (c, p1) /\ is_ty (cur l p1) T_LBRACE = true
    | FElse d c p1 th p2 =>
        kwat l d k_if /\ sexpr l (S d) (c, p1) /\ is_ty (cur l p1) T_LBRACE = true /\
        sblock l (S p1) [] (th, p2) /\ str_eqb (t_value (cur l p2)) k_else = true /\
        is_ty (cur l (S p2)) T_LBRACE = true
    | FFor d lo hi p2 p3 =>
        kwat l d k_for /\ is_ty (cur l (S d)) T_IDENTIFIER = true /\ is_ty (cur l (S (S d))) T_ASSIGN = true /\
        sexpr l (S (S (S d))) (lo, p2) /\ is_ty (cur l p2) T_COMMA = true /\
        sexpr l (S p2) (hi, p3) /\ is_ty (cur l p3) T_LBRACE = true
    end.

  (** the statement, once the body [body] has been parsed up to [p] *)
  Definition fwrap (l : list token) (fr : frame) (body : list ast) (p : nat) (g : nat) : R (option ast) :=
    match fr with
    | FCompound d => POk (Some (ACompound body (cur l d)), p)
    | FScope d => POk (Some (AScope (t_value (cur l (S d))) body (cur l (S (S d))) (cur l (S d))), p)
    | FMacro d args p2 => POk (Some (AMacro (t_value (cur l (S d))) args body (cur l (S p2)) (cur l (S d))), p)
    | FIf d c p1 =>
        if str_eqb (t_value (cur l p)) k_else then
          expect (cur l (S p)) T_LBRACE
            (dop re <- pblock l sub g (S (S p)) [];
             POk (Some (AIf c body (cur l p) (Some (fst re, cur l (snd re))) (cur l (S d))), snd re))
        else POk (Some (AIf c body (cur l p) None (cur l (S d))), p)
    | FElse d c p1 th p2 => POk (Some (AIf c th (cur l p2) (Some (body, cur l p)) (cur l (S d))), p)
    | FFor d lo hi p2 p3 => POk (Some (AFor (t_value (cur l (S d))) lo hi body (cur l p) (cur l (S d))), p)
    end.

  Ltac kwc :=
    repeat match goal with
           | |- context [str_eqb ?a ?b] =>
               let v := eval vm_compute in (str_eqb a b) in
               lazymatch v with true => idtac | false => idtac end;
               change (str_eqb a b) with v
           | |- context [dkind_of ?a] =>
               let v := eval vm_compute in (dkind_of a) in
               lazymatch v with None => idtac | Some _ => idtac end;
               change (dkind_of a) with v
           end; cbv iota.

  Lemma is_ty_true t ty : t_type t = ty -> is_ty t ty = true.
  Proof. intros <-. unfold is_ty, ttype_eqb. apply Z.eqb_refl. Qed.

  (** the frame equation *)
  Lemma frame_eq l fr : fvalid l fr ->
    exists f0, forall g, f0 <= g ->
      pdecl l sub (S g) (fdecl fr) = (dop r <- pblock l sub g (fstart fr) []; fwrap l fr (fst r) (snd r) g).
  Proof.
    destruct fr as [d|d|d args p2|d c p1|d c p1 th p2|d lo hi p2 p3]; cbn [fvalid fdecl fstart fwrap].
    - intros Ht. exists 0. intros g _. rewrite pdecl_S. unfold pdecl_body. rewrite Ht. reflexivity.
    - intros ([Kt Kv] & I1 & I2). exists 0. intros g _. rewrite pdecl_S. unfold pdecl_body. rewrite Kt. cbn [backup].
      unfold pkeyword. cbv zeta. rewrite Kv. kwc. unfold pscope, expect. rewrite I1, I2.
      destruct (pblock l sub g (S (S (S d))) []) as [[b p]| | |]; reflexivity.
    - intros ([Kt Kv] & I1 & I2 & (f0 & HA) & I3 & I4). exists f0. intros g Hg. rewrite pdecl_S. unfold pdecl_body. rewrite Kt. cbn [backup].
      unfold pkeyword. cbv zeta. rewrite Kv. kwc. unfold pmacro, expect. rewrite I1, I2, (HA g Hg). cbn [pbind]. rewrite I3, I4.
      destruct (pblock l sub g (S (S p2)) []) as [[b p]| | |]; reflexivity.
    - intros ([Kt Kv] & (f0 & HC) & I1). exists f0. intros g Hg. rewrite pdecl_S. unfold pdecl_body. rewrite Kt. cbn [backup].
      unfold pkeyword. cbv zeta. rewrite Kv. kwc. unfold pif. rewrite (HC g Hg). cbn [pbind]. unfold expect at 1. rewrite I1.
      destruct (pblock l sub g (S p1) []) as [[b p]| | |]; cbn [pbind fst snd]; try reflexivity.
      destruct (str_eqb (t_value (cur l p)) k_else); [|reflexivity].
      unfold expect. destruct (is_ty (cur l (S p)) T_LBRACE); [|reflexivity].
      destruct (pblock l sub g (S (S p)) []) as [[eb p4]| | |]; reflexivity.
    - intros ([Kt Kv] & (f0 & HC) & I1 & (f1 & HT) & I2 & I3). exists (Nat.max f0 f1). intros g Hg.
      rewrite pdecl_S. unfold pdecl_body. rewrite Kt. cbn [backup].
      unfold pkeyword. cbv zeta. rewrite Kv. kwc. unfold pif. rewrite (HC g) by lia. cbn [pbind]. unfold expect at 1. rewrite I1.
      rewrite (HT g) by lia. cbn [pbind fst snd]. rewrite I2. unfold expect. rewrite I3.
      destruct (pblock l sub g (S (S p2)) []) as [[eb p4]| | |]; reflexivity.
    - intros ([Kt Kv] & I1 & I2 & (f0 & HL) & I3 & (f1 & HH) & I4). exists (Nat.max f0 f1). intros g Hg.
      rewrite pdecl_S. unfold pdecl_body. rewrite Kt. cbn [backup].
      unfold pkeyword. cbv zeta. rewrite Kv. kwc. unfold pfor, expect. rewrite I1, I2, (HL g) by lia. cbn [pbind]. rewrite I3.
      rewrite (HH g) by lia. cbn [pbind]. rewrite I4.
      destruct (pblock l sub g (S p3) []) as [[b p]| | |]; reflexivity.
  Qed.

  (** ** statements of a block, in a context with the same first [n] tokens *)
  Lemma stable_le' l pos d p : stable sub l pos d p -> pos <= p.
  Proof. apply stable_le. Qed.
  Lemma breach_le l pos acc pos' acc' : breach l pos acc pos' acc' -> pos <= pos'.
  Proof. induction 1; [lia|]. match goal with H : stable _ _ _ _ _ |- _ => pose proof (stable_le' _ _ _ _ H) end. lia. Qed.

  Lemma btransport S C n : agree n S C -> bcont S n = true -> inert (cur S n) -> inert (cur C n) ->
    forall pos acc m prog, breach S pos acc m prog -> m <= n ->
    (m = n -> last_is_map prog = true -> is_ty (cur C n) T_IDENTIFIER = false) ->
    exists prog', breach C pos acc m prog' /\ (m < n -> prog' = prog) /\ lookrelE prog prog'.
  Proof.
    intros Hag He Hi Hi'. intros pos acc m prog R.
    induction R as [pos acc|pos acc d p pos' acc' Hne Hst R IH]; intros Hle Hm.
    - exists acc. split; [constructor|]. split; [reflexivity|]. exists (cur C n); left; reflexivity.
    - pose proof (stable_le' _ _ _ _ Hst) as Hp. pose proof (breach_le _ _ _ _ _ R) as Hpn.
      assert (Hlt : pos < n).
      { destruct (Nat.eq_dec pos n) as [->|]; [rewrite He in Hne; discriminate|lia]. }
      assert (HneC : bcont C pos = false) by (unfold bcont in *; rewrite (Hag pos Hlt); exact Hne).
      destruct (Nat.eq_dec p n) as [->|Hpn'].
      + assert (pos' = n) by lia. subst pos'.
        assert (R' : acc' = opt_app acc d).
        { inversion R; subst; [reflexivity|]. match goal with H : bcont S n = false |- _ => rewrite He in H; discriminate end. }
        subst acc'.
        assert (HstC : stable sub C pos (option_map (relook (cur C n)) d) n).
        { destruct Hst as (f0 & Hf). exists f0. intros g Hg.
          destruct (knot_SL S sub g) as (L1 & _).
          apply (L1 pos _ _ (Hf g Hg) C Hag Hi Hi').
          intros Hd. apply (Hm eq_refl). destruct d as [a|]; [|discriminate]. cbn [opt_app]. unfold last_is_map.
          rewrite rev_app_distr. cbn. exact Hd. }
        exists (opt_app acc (option_map (relook (cur C n)) d)). split.
        * eapply breach_step; [exact HneC|exact HstC|constructor].
        * split; [lia|]. exists (cur C n). destruct d as [a|]; cbn [opt_app option_map]; [|left; reflexivity].
          right. exists acc, a. auto.
      + assert (Hlt' : p < n) by lia.
        assert (HstC : stable sub C pos d p).
        { destruct Hst as (f0 & Hf). exists f0. intros g Hg.
          destruct (knot_SP S sub g) as (K & _). destruct (K pos) as [Kok _]. cbv beta in Kok.
          destruct (Kok _ _ (Hf g Hg)) as [_ D]. rewrite (D C); [apply Hf; exact Hg|].
          eapply agree_mono; [exact Hag|lia]. }
        destruct (IH Hle Hm) as (prog' & R' & HL & HE).
        exists prog'. split; [eapply breach_step; eauto|]. split; [exact HL|exact HE].
  Qed.

  Lemma rtransport_lt S C n : agree n S C ->
    forall pos acc m prog, reach sub S pos acc m prog -> m < n -> reach sub C pos acc m prog.
  Proof.
    intros Hag pos acc m prog R. induction R as [pos acc|pos acc d p pos' acc' Hne Hst R IH]; intros Hlt; [constructor|].
    pose proof (stable_le' _ _ _ _ Hst) as Hp. pose proof (reach_le _ _ _ _ _ _ R) as Hpn.
    eapply reach_step; [rewrite (Hag pos) by lia; exact Hne| |apply IH; exact Hlt].
    destruct Hst as (f0 & Hf). exists f0. intros g Hg.
    destruct (knot_SP S sub g) as (K & _). destruct (K pos) as [Kok _]. cbv beta in Kok.
    destruct (Kok _ _ (Hf g Hg)) as [_ D]. rewrite (D C); [apply Hf; exact Hg|].
    eapply agree_mono; [exact Hag|lia].
  Qed.

  (** ** the open constructs down to the include line: for each, the statements before it in the
      enclosing body and its header; then the statements of the innermost body *)
  Fixpoint chain (l : list token) (q : nat) (fs : list (list ast * frame)) (n : nat) (accn : list ast) : Prop :=
    match fs with
    | [] => breach l q [] n accn
    | (acc, fr) :: rest => breach l q [] (fdecl fr) acc /\ fvalid l fr /\ chain l (fstart fr) rest n accn
    end.

  Lemma sdecl_frame l fr x : fvalid l fr ->
    (sdecl l (fdecl fr) x <-> exists body p, sblock l (fstart fr) [] (body, p) /\ stab (fwrap l fr body p) x).
  Proof.
    intros Hv. destruct (frame_eq l fr Hv) as (f0 & Heq). unfold sdecl.
    rewrite <- (stab_shift (fun g => pdecl l sub g (fdecl fr)) 1). cbn [Nat.add].
    split.
    - intros H.
      assert (H' : stab (fun g => pbind (pblock l sub g (fstart fr) []) (fun r => fwrap l fr (fst r) (snd r) g)) x)
        by (eapply stab_ext with (f0 := f0); [|exact H]; intros g Hg; apply Heq; exact Hg).
      destruct (stab_bind _ (fun g r => fwrap l fr (fst r) (snd r) g) _ (mono_pblock l _ []) H') as ([body p] & Hb & Hw).
      exists body, p. auto.
    - intros (body & p & Hb & Hw). eapply stab_ext with (f0 := f0); [intros g Hg; symmetry; apply Heq; exact Hg|].
      apply (stab_bind_intro (fun g => pblock l sub g (fstart fr) []) (fun g r => fwrap l fr (fst r) (snd r) g) (body, p)); assumption.
  Qed.

  Lemma fvalid_bcont l fr : fvalid l fr -> bcont l (fdecl fr) = false.
  Proof.
    unfold bcont, is_ty.
    destruct fr; cbn [fvalid fdecl]; intros H;
      repeat match goal with H : _ /\ _ |- _ => destruct H as [H ?] end;
      try match goal with H : kwat _ _ _ |- _ => destruct H as [H _] end; rewrite H; reflexivity.
  Qed.

  (** the header lies before [n]: it is the same on every list with the same first [n] tokens *)
  Lemma stab_det {A} (run : list token -> nat -> pres A) l l' n (r : A) h :
    (forall g, run l g = POk r -> Det l h (fun x => run x g)) -> agree n l l' -> h <= n ->
    stab (run l) r -> stab (run l') r.
  Proof.
    intros HD Hag Hh (f0 & H). exists f0. intros g Hg. specialize (H g Hg).
    rewrite (HD g H l' (agree_mono _ _ _ _ Hag Hh)). exact H.
  Qed.

  Lemma fvalid_agree l l' n fr : fvalid l fr -> fstart fr <= n -> agree n l l' -> fvalid l' fr.
  Proof.
    intros Hv Hq Hag.
    assert (C : forall i, i < n -> cur l' i = cur l i) by exact Hag.
    assert (HE : forall pos c p, S p <= n -> sexpr l pos (c, p) -> sexpr l' pos (c, p)).
    { intros pos c p Hp. apply (stab_det (fun x g => pexpression x g pos) l l' n (c, p) (S p)); auto.
      intros g E. destruct (pexpression_SP l sub g pos) as [Ok_ _]. apply (Ok_ _ _ E). }
    destruct fr as [d|d|d args p2|d c p1|d c p1 th p2|d lo hi p2 p3]; cbn [fvalid fstart] in *; unfold kwat in *.
    - rewrite C by lia. exact Hv.
    - rewrite !C by lia. exact Hv.
    - destruct Hv as (K & I1 & I2 & HA & I3 & I4).
      assert (S (S (S d)) <= p2).
      { destruct HA as (f0 & HA). specialize (HA f0 (le_n _)).
        destruct (pmacro_args_SP l sub f0 (S (S (S d)))) as [Ok_ _]. destruct (Ok_ _ _ HA). assumption. }
      rewrite !C by lia. repeat split; try apply K; auto.
      apply (stab_det (fun x g => pmacro_args x g (S (S (S d)))) l l' n (args, p2) (S p2)); auto; [|lia].
      intros g E. destruct (pmacro_args_SP l sub g (S (S (S d)))) as [Ok_ _]. apply (Ok_ _ _ E).
    - destruct Hv as (K & HC & I1).
      assert (d < p1). { destruct HC as (f0 & HC). specialize (HC f0 (le_n _)). apply pexpression_strict in HC. lia. }
      rewrite !C by lia. repeat split; try apply K; auto.
    - destruct Hv as (K & HC & I1 & HT & I2 & I3).
      assert (d < p1). { destruct HC as (f0 & HC). specialize (HC f0 (le_n _)). apply pexpression_strict in HC. lia. }
      assert (p1 < p2). { destruct HT as (f0 & HT). specialize (HT f0 (le_n _)). apply (pblock_strict l sub) in HT. lia. }
      rewrite !C by lia. repeat split; try apply K; auto; [apply HE; [lia|exact HC]|].
      apply (stab_det (fun x g => pblock x sub g (S p1) []) l l' n (th, p2) (S p2)); auto; [|lia].
      intros g E. destruct (knot_SP l sub g) as (_ & K2 & _). destruct (K2 (S p1) []) as [Ok_ _]. apply (Ok_ _ _ E).
    - destruct Hv as (K & I1 & I2 & HL & I3 & HH & I4).
      assert (d < p2). { destruct HL as (f0 & HL). specialize (HL f0 (le_n _)). apply pexpression_strict in HL. lia. }
      assert (p2 < p3). { destruct HH as (f0 & HH). specialize (HH f0 (le_n _)). apply pexpression_strict in HH. lia. }
      rewrite !C by lia. repeat split; try apply K; auto; apply HE; auto; lia.
  Qed.

  Lemma fdecl_lt l fr : fvalid l fr -> fdecl fr < fstart fr.
  Proof.
    destruct fr as [d|d|d args p2|d c p1|d c p1 th p2|d lo hi p2 p3]; cbn [fvalid fdecl fstart]; intros Hv; try lia.
    - destruct Hv as (_ & _ & _ & (f0 & HA) & _). specialize (HA f0 (le_n _)).
      destruct (pmacro_args_SP l sub f0 (S (S (S d)))) as [Ok_ _]. destruct (Ok_ _ _ HA). lia.
    - destruct Hv as (_ & (f0 & HC) & _). specialize (HC f0 (le_n _)). apply pexpression_strict in HC. lia.
    - destruct Hv as (_ & (f0 & HC) & _ & (f1 & HT) & _). specialize (HC f0 (le_n _)). apply pexpression_strict in HC.
      specialize (HT f1 (le_n _)). apply (pblock_strict l sub) in HT. lia.
    - destruct Hv as (_ & _ & _ & (f0 & HL) & _ & (f1 & HH) & _). specialize (HL f0 (le_n _)). apply pexpression_strict in HL.
      specialize (HH f1 (le_n _)). apply pexpression_strict in HH. lia.
  Qed.

  Lemma fdecl_lt2 l fr : fvalid l fr -> match fr with FCompound _ => True | _ => S (fdecl fr) < fstart fr end.
  Proof.
    destruct fr as [d|d|d args p2|d c p1|d c p1 th p2|d lo hi p2 p3]; cbn [fvalid fdecl fstart]; intros Hv; try lia; auto.
    - destruct Hv as (_ & _ & _ & (f0 & HA) & _). specialize (HA f0 (le_n _)).
      destruct (pmacro_args_SP l sub f0 (S (S (S d)))) as [Ok_ _]. destruct (Ok_ _ _ HA). lia.
    - destruct Hv as (_ & (f0 & HC) & _). specialize (HC f0 (le_n _)). apply pexpression_strict in HC. lia.
    - destruct Hv as (_ & (f0 & HC) & _ & (f1 & HT) & _). specialize (HC f0 (le_n _)). apply pexpression_strict in HC.
      specialize (HT f1 (le_n _)). apply (pblock_strict l sub) in HT. lia.
    - destruct Hv as (_ & _ & _ & (f0 & HL) & _ & (f1 & HH) & _). specialize (HL f0 (le_n _)). apply pexpression_strict in HL.
      specialize (HH f1 (le_n _)). apply pexpression_strict in HH. lia.
  Qed.

  Lemma chain_le l : forall fs q n acc, chain l q fs n acc -> q <= n.
  Proof.
    induction fs as [|[a fr] rest IH]; intros q n acc; cbn [chain].
    - apply breach_le.
    - intros (B & V & C). pose proof (breach_le _ _ _ _ _ B). pose proof (fdecl_lt _ _ V). specialize (IH _ _ _ C). lia.
  Qed.

  Lemma chain_transport S C n : agree n S C -> bcont S n = true -> inert (cur S n) -> inert (cur C n) ->
    forall fs q accn, chain S q fs n accn ->
    (last_is_map accn = true -> is_ty (cur C n) T_IDENTIFIER = false) ->
    exists accn', chain C q fs n accn' /\ lookrelE accn accn'.
  Proof.
    intros Hag He Hi Hi'. induction fs as [|[a fr] rest IH]; intros q accn; cbn [chain].
    - intros B Hm. destruct (btransport S C n Hag He Hi Hi' q [] n accn B (le_n _) (fun _ => Hm)) as (p' & B' & _ & HL).
      exists p'. auto.
    - intros (B & V & Ch) Hm. pose proof (chain_le _ _ _ _ _ Ch) as Hq. pose proof (fdecl_lt _ _ V) as Hd.
      destruct (btransport S C n Hag He Hi Hi' q [] (fdecl fr) a B ltac:(lia) ltac:(intros; lia)) as (p' & B' & Heq & _).
      rewrite (Heq ltac:(lia)) in B'.
      destruct (IH _ _ Ch Hm) as (accn' & Ch' & HL).
      exists accn'. split; [|exact HL]. split; [exact B'|]. split; [|exact Ch'].
      eapply fvalid_agree; eauto.
  Qed.
End Nest.

(* ------------------------------------------------------------------------------------------ *)
(** * Two lists that differ in a window: [Ta ++ W1 ++ Sb] and [Ta ++ W2 ++ Sb] *)
Section Window.
  Variable inc : str -> res (list token).
  Variable j : nat.
  Notation sub := (inc_sub j inc).
  Variables Ta W1 W2 Sb : list token.
  Variables X1 X2 : list ast.
  Notation n := (length Ta).
  Notation m1 := (length W1).
  Notation m2 := (length W2).
  Notation L1 := (Ta ++ W1 ++ Sb).
  Notation L2 := (Ta ++ W2 ++ Sb).
  Notation sblock := (sblock inc j).
  Notation sdecl := (sdecl inc j).
  Notation sinit := (sinit inc j).
  Notation breach := (breach inc j).
  Notation chain := (chain inc j).
  Notation fvalid := (fvalid inc j).
  Notation fwrap := (fwrap inc j).
  Notation fast := (fast X1 X2).
  Notation flist := (flist X1 X2).

  (** what the windows are: one statement list step each *)
  Hypothesis BW1 : forall acc, breach L1 n acc (n + m1) (acc ++ X1).
  Hypothesis BW2 : forall acc, breach L2 n acc (n + m2) (acc ++ X2).

  Lemma skip1 : skipn (n + m1) L1 = Sb.
  Proof. rewrite app_assoc, <- app_length. apply skipn_app_len. Qed.
  Lemma skip2 : skipn (n + m2) L2 = Sb.
  Proof. rewrite app_assoc, <- app_length. apply skipn_app_len. Qed.
  Lemma cur_suffix x : cur L2 (n + m2 + x) = cur L1 (n + m1 + x).
  Proof. rewrite <- !cur_skipn, skip1, skip2. reflexivity. Qed.
  Lemma cur_prefix i : i < n -> cur L2 i = cur L1 i.
  Proof. intros Hi. unfold cur. rewrite !app_nth1 by assumption. reflexivity. Qed.

  Lemma sblock_suffix e accA accB r1 : sblock L1 (n + m1 + e) accA r1 ->
    exists Y e', r1 = (accA ++ Y, n + m1 + e') /\ sblock L2 (n + m2 + e) accB (accB ++ Y, n + m2 + e').
  Proof.
    intros H. apply sblock_acc in H as (Y & P & -> & H).
    destruct (sblock_shift_pos inc j L1 (n + m1) e Y P H) as (e' & ->).
    apply sblock_shift in H. rewrite skip1 in H.
    exists Y, e'. split; [reflexivity|]. apply sblock_acc. exists Y, (n + m2 + e'). split; [reflexivity|].
    apply sblock_shift. rewrite skip2. exact H.
  Qed.

  Lemma sinit_suffix e accA accB r1 : sinit L1 (n + m1 + e) accA r1 ->
    exists Y, r1 = accA ++ Y /\ sinit L2 (n + m2 + e) accB (accB ++ Y).
  Proof.
    intros H. apply sinit_acc in H as (Y & -> & H). apply sinit_shift in H. rewrite skip1 in H.
    exists Y. split; [reflexivity|]. apply sinit_acc. exists Y. split; [reflexivity|].
    apply sinit_shift. rewrite skip2. exact H.
  Qed.

  Definition ofast (o o' : option ast) : Prop :=
    match o, o' with Some a, Some a' => fast a a' | _, _ => False end.

  Lemma stab_const {A} (x r : A) : stab (fun _ => POk x) r -> x = r.
  Proof. intros (f0 & H). specialize (H f0 (le_n _)). congruence. Qed.
  Lemma stab_const_intro {A} (x : A) : stab (fun _ => POk x) x.
  Proof. exists 0. reflexivity. Qed.

  (** the statement around the body *)
  Lemma fwrap_transfer fr body1 body2 e oa P1 :
    fvalid L1 fr -> fstart fr <= n -> flist body1 body2 ->
    stab (fwrap L1 fr body1 (n + m1 + e)) (oa, P1) ->
    exists oa' e', P1 = n + m1 + e' /\ stab (fwrap L2 fr body2 (n + m2 + e)) (oa', n + m2 + e') /\ ofast oa oa'.
  Proof.
    intros Hv Hq Hb Hw. pose proof (fdecl_lt inc j _ _ Hv) as Hd. pose proof (fdecl_lt2 inc j _ _ Hv) as Hd2.
    destruct fr as [d|d|d args p2|d c p1|d c p1 th p2|d lo hi p2 p3]; cbn [fvalid fdecl fstart fwrap] in *.
    - apply stab_const in Hw. injection Hw as <- <-. eexists _, e. split; [reflexivity|]. split; [apply stab_const_intro|].
      rewrite cur_prefix by lia. cbn [ofast]. apply fa_compound. exact Hb.
    - apply stab_const in Hw. injection Hw as <- <-. eexists _, e. split; [reflexivity|]. split; [apply stab_const_intro|].
      rewrite !cur_prefix by lia. cbn [ofast]. apply fa_scope. exact Hb.
    - apply stab_const in Hw. injection Hw as <- <-. eexists _, e. split; [reflexivity|]. split; [apply stab_const_intro|].
      rewrite !cur_prefix by lia. cbn [ofast]. apply fa_macro. exact Hb.
    - unfold IncludeNest2.fwrap in *. rewrite cur_suffix. rewrite (cur_prefix (S d)) by lia.
      replace (S (n + m2 + e)) with (n + m2 + S e) by lia. replace (S (n + m1 + e)) with (n + m1 + S e) in Hw by lia.
      rewrite cur_suffix.
      destruct (str_eqb (t_value (cur L1 (n + m1 + e))) k_else).
      + unfold expect in *. destruct (is_ty (cur L1 (n + m1 + S e)) T_LBRACE).
        2:{ destruct Hw as (f0 & Hw). specialize (Hw f0 (le_n _)). discriminate Hw. }
        replace (S (n + m1 + S e)) with (n + m1 + S (S e)) in Hw by lia.
        replace (S (n + m2 + S e)) with (n + m2 + S (S e)) by lia.
        destruct (stab_bind (fun g => pblock L1 sub g (n + m1 + S (S e)) [])
                    (fun _ re => POk (Some (AIf c body1 (cur L1 (n + m1 + e)) (Some (fst re, cur L1 (snd re))) (cur L1 (S d))), snd re))
                    _ (mono_pblock inc j _ _ _) Hw) as ([eb p4] & Hbk & Hk).
        apply stab_const in Hk. cbn [fst snd] in Hk. injection Hk as <- <-.
        destruct (sblock_suffix (S (S e)) [] [] _ Hbk) as (Y & e4 & EY & Hb2). cbn [app] in EY, Hb2. injection EY as -> ->.
        eexists _, e4. split; [reflexivity|]. split.
        * apply (stab_bind_intro (fun g => pblock L2 sub g (n + m2 + S (S e)) [])
                   (fun _ re => POk (Some (AIf c body2 (cur L1 (n + m1 + e)) (Some (fst re, cur L2 (snd re))) (cur L1 (S d))), snd re))
                   (Y, n + m2 + e4)); [exact Hb2|].
          cbn [fst snd]. apply stab_const_intro.
        * rewrite cur_suffix. cbn [ofast]. apply fa_if_then. exact Hb.
      + apply stab_const in Hw. injection Hw as <- <-. eexists _, e. split; [reflexivity|]. split; [apply stab_const_intro|].
        cbn [ofast]. apply fa_if_then. exact Hb.
    - apply stab_const in Hw. injection Hw as <- <-. eexists _, e. split; [reflexivity|]. split; [apply stab_const_intro|].
      rewrite cur_suffix, !cur_prefix by lia. cbn [ofast]. apply fa_if_else. exact Hb.
    - apply stab_const in Hw. injection Hw as <- <-. eexists _, e. split; [reflexivity|]. split; [apply stab_const_intro|].
      rewrite cur_suffix, !cur_prefix by lia. cbn [ofast]. apply fa_for. exact Hb.
  Qed.

  Lemma flist_wrap pre a a' post : ofast (Some a) (Some a') -> flist (pre ++ [a] ++ post) (pre ++ [a'] ++ post).
  Proof. intros H. apply fl_in. exact H. Qed.

  (** the body of the innermost open construct, then outwards *)
  Lemma chain_block : forall fs q acc1 acc2 body1 P1,
    chain L1 q fs n acc1 -> chain L2 q fs n acc2 -> lookrelE acc1 acc2 ->
    sblock L1 q [] (body1, P1) ->
    exists body2 e, P1 = n + m1 + e /\ sblock L2 q [] (body2, n + m2 + e) /\ flist body1 body2.
  Proof.
    induction fs as [|[a fr] rest IH]; intros q acc1 acc2 body1 P1; cbn [chain].
    - intros B1 B2 HL H.
      apply (breach_sblock inc j _ _ _ _ _ _ B1) in H. apply (breach_sblock inc j _ _ _ _ _ _ (BW1 acc1)) in H.
      replace (n + m1) with (n + m1 + 0) in H by lia.
      destruct (sblock_suffix 0 _ (acc2 ++ X2) _ H) as (Y & e & E & H2). injection E as -> ->.
      exists ((acc2 ++ X2) ++ Y), e. split; [reflexivity|]. split.
      + apply (breach_sblock inc j _ _ _ _ _ _ B2). apply (breach_sblock inc j _ _ _ _ _ _ (BW2 acc2)).
        rewrite Nat.add_0_r in H2. exact H2.
      + rewrite <- !app_assoc. apply fl_here. exact HL.
    - intros (B1 & V1 & C1) (B2 & V2 & C2) HL H.
      pose proof (chain_le inc j _ _ _ _ _ C1) as Hq.
      apply (breach_sblock inc j _ _ _ _ _ _ B1) in H.
      (* the statement that opens the construct *)
      assert (Hc : bcont L1 (fdecl fr) = false) by (apply (fvalid_bcont inc j); exact V1).
      assert (HD : exists x, sdecl L1 (fdecl fr) x /\ sblock L1 (snd x) (opt_app a (fst x)) (body1, P1)).
      { unfold IncludeNest2.sblock in H. rewrite <- (stab_shift (fun g => pblock L1 sub g (fdecl fr) a) 1) in H.
        assert (H' : stab (fun g => pbind (pdecl L1 sub g (fdecl fr)) (fun x => pblock L1 sub g (snd x) (opt_app a (fst x)))) (body1, P1)).
        { eapply stab_ext with (f0 := 0); [|exact H]. intros g _. cbn [Nat.add]. rewrite pblock_S. cbv zeta.
          unfold bcont in Hc. rewrite Hc. reflexivity. }
        destruct (stab_bind _ _ _ (mono_pdecl inc j L1 _) H') as (x & Hx & Hk). exists x. auto. }
      destruct HD as ([oa Pd] & Hdecl & Hrest). cbn [fst snd] in Hrest.
      apply (sdecl_frame inc j _ _ _ V1) in Hdecl as (bd & p & Hbd & Hw).
      destruct (IH _ _ _ _ _ C1 C2 HL Hbd) as (bd2 & e & -> & Hbd2 & Hfl).
      destruct (fwrap_transfer fr bd bd2 e oa Pd V1 Hq Hfl Hw) as (oa' & e' & -> & Hw2 & Hof).
      assert (Hdecl2 : sdecl L2 (fdecl fr) (oa', n + m2 + e')).
      { apply (sdecl_frame inc j _ _ _ V2). exists bd2, (n + m2 + e). auto. }
      destruct oa as [A1|], oa' as [A2|]; cbn [ofast] in Hof; try contradiction. cbn [opt_app] in *.
      destruct (sblock_suffix e' _ (a ++ [A2]) _ Hrest) as (Y & e'' & E & H2). injection E as -> ->.
      exists ((a ++ [A2]) ++ Y), e''. split; [reflexivity|]. split.
      + apply (breach_sblock inc j _ _ _ _ _ _ B2).
        apply (sblock_step inc j L2 (fdecl fr) a (Some A2) (n + m2 + e') _ (fvalid_bcont inc j _ _ V2) Hdecl2).
        exact H2.
      + rewrite <- !app_assoc. apply fl_in. exact Hof.
  Qed.

  (** the whole program: top-level statements, the outermost open construct, the rest *)
  Theorem nested_sinit acc0 fr rest acc1 acc2 prog1 :
    reach sub L1 0 [] (fdecl fr) acc0 -> reach sub L2 0 [] (fdecl fr) acc0 ->
    fvalid L1 fr -> fvalid L2 fr ->
    chain L1 (fstart fr) rest n acc1 -> chain L2 (fstart fr) rest n acc2 -> lookrelE acc1 acc2 ->
    sinit L1 0 [] prog1 -> exists prog2, sinit L2 0 [] prog2 /\ flist prog1 prog2.
  Proof.
    intros R1 R2 V1 V2 C1 C2 HL H.
    pose proof (chain_le inc j _ _ _ _ _ C1) as Hq.
    apply (reach_sinit inc j _ _ _ _ _ _ R1) in H.
    assert (Hc : is_ty (cur L1 (fdecl fr)) T_EOF = false).
    { pose proof (fvalid_bcont inc j _ _ V1) as X. unfold bcont in X. apply orb_false_iff in X. apply X. }
    assert (Hc2 : is_ty (cur L2 (fdecl fr)) T_EOF = false).
    { pose proof (fvalid_bcont inc j _ _ V2) as X. unfold bcont in X. apply orb_false_iff in X. apply X. }
    assert (HD : exists x, sdecl L1 (fdecl fr) x /\ sinit L1 (snd x) (opt_app acc0 (fst x)) prog1).
    { unfold IncludeNest2.sinit in H. rewrite <- (stab_shift (fun g => pinitial L1 sub g (fdecl fr) acc0) 1) in H.
      assert (H' : stab (fun g => pbind (pdecl L1 sub g (fdecl fr)) (fun x => pinitial L1 sub g (snd x) (opt_app acc0 (fst x)))) prog1).
      { eapply stab_ext with (f0 := 0); [|exact H]. intros g _. cbn [Nat.add pinitial]. rewrite Hc. reflexivity. }
      destruct (stab_bind _ _ _ (mono_pdecl inc j L1 _) H') as (x & Hx & Hk). exists x. auto. }
    destruct HD as ([oa Pd] & Hdecl & Hrest). cbn [fst snd] in Hrest.
    apply (sdecl_frame inc j _ _ _ V1) in Hdecl as (bd & p & Hbd & Hw).
    destruct (chain_block _ _ _ _ _ _ C1 C2 HL Hbd) as (bd2 & e & -> & Hbd2 & Hfl).
    destruct (fwrap_transfer fr bd bd2 e oa Pd V1 Hq Hfl Hw) as (oa' & e' & -> & Hw2 & Hof).
    assert (Hdecl2 : sdecl L2 (fdecl fr) (oa', n + m2 + e')).
    { apply (sdecl_frame inc j _ _ _ V2). exists bd2, (n + m2 + e). auto. }
    destruct oa as [A1|], oa' as [A2|]; cbn [ofast] in Hof; try contradiction. cbn [opt_app] in *.
    destruct (sinit_suffix e' _ (acc0 ++ [A2]) _ Hrest) as (Y & -> & H2).
    exists ((acc0 ++ [A2]) ++ Y). split.
    - apply (reach_sinit inc j _ _ _ _ _ _ R2).
      apply (sinit_step inc j L2 (fdecl fr) acc0 (Some A2) (n + m2 + e') _ Hc2 Hdecl2). exact H2.
    - rewrite <- !app_assoc. apply fl_in. exact Hof.
  Qed.
End Window.

(* ------------------------------------------------------------------------------------------ *)
(** * The include line inside open constructs *)
Lemma relook_relook h1 h2 d : relook h2 (relook h1 d) = relook h2 d.
Proof. destruct d; try reflexivity. destruct el as [[eb ef]|]; reflexivity. Qed.
Lemma relook_back h1 d : exists h, relook h (relook h1 d) = d.
Proof.
  destruct d; try (exists h1; reflexivity).
  - destruct el as [[eb ef]|]; [exists ef|exists th_fi]; reflexivity.
  - exists fi; reflexivity.
  - exists fi; reflexivity.
  - exists body_fi; reflexivity.
Qed.

Lemma lookrelE_join a b c : lookrelE a b -> lookrelE a c -> lookrelE b c.
Proof.
  intros (h1 & [->|(pre & d & -> & ->)]) (h2 & [->|(pre' & d' & E & ->)]).
  - exists h2. left. reflexivity.
  - exists h2. right. eauto.
  - destruct (relook_back h1 d) as (h & Hh). exists h. right. exists pre, (relook h1 d). rewrite Hh. auto.
  - apply app_inj_tail in E as [<- <-]. exists h2. right. exists pre, (relook h1 d). rewrite relook_relook. auto.
Qed.

Section IncludeNested.
  Variable inc : str -> res (list token).
  Hypothesis Hnf : forall name, inc name <> OutOfFuel.
  Variable j : nat.
  Notation sub := (inc_sub (S j) inc).
  Notation subj := (inc_sub j inc).
  Variables Ta Tr Sb : list token.
  Variables ea ep kw q : token.
  Variable p : str.
  Variable pr : list ast.
  Notation n := (length Ta).
  Notation A := (Ta ++ [ea]).
  Notation L1 := (Ta ++ [kw; q] ++ Sb).
  Notation L2 := (Ta ++ Tr ++ Sb).
  Notation r0 := (cur (Tr ++ Sb) 0).
  Notation h := (cur Sb 0).

  (** the prefix leaves the constructs [(acc0, fr) :: rest] open *)
  Variables (acc0 : list ast) (fr : frame) (rest : list (list ast * frame)) (acc1 : list ast).
  Hypothesis HTop : reach sub A 0 [] (fdecl fr) acc0.
  Hypothesis HFr : fvalid inc (S j) A fr.
  Hypothesis HCh : chain inc (S j) A (fstart fr) rest n acc1.
  Hypothesis Eea : is_ty ea T_EOF = true.
  Hypothesis Iea : inert ea.

  Hypothesis HR : exists F, pinit_pos (Tr ++ [ep]) subj F 0 [] = POk (pr, length Tr).
  Hypothesis Iep : inert ep.
  Hypothesis Kt : t_type kw = T_KEYWORD.
  Hypothesis Kv : t_value kw = k_include.
  Hypothesis Qt : is_ty q T_QUOTED_STRING = true.
  Hypothesis Qv : strip_quotes (t_value q) = p.
  Hypothesis Hinc : inc p = Ok (Tr ++ [ep]).
  Hypothesis Ir0 : inert r0.
  Hypothesis Ih : inert h.
  Hypothesis Mr0 : last_is_map acc1 = true -> is_ty r0 T_IDENTIFIER = false.
  Hypothesis Mh : last_is_map pr = true -> is_ty h T_IDENTIFIER = false.

  Theorem nested_include_parses :
    exists pr2, lookrelE pr pr2 /\
      forall prog1, sinit inc (S j) L1 0 [] prog1 ->
      exists prog2, sinit inc (S j) L2 0 [] prog2 /\ flist [ABlock pr kw] pr2 prog1 prog2.
  Proof.
    destruct HR as (FR & HFR).
    destruct (pinit_pos_reach subj _ _ _ _ _ _ HFR) as [RR ER]. rewrite cur_app_len in ER. cbn [cur nth] in ER.
    apply (reach_sle _ subj sub (inc_sub_sle inc j)) in RR.
    assert (Ikw : inert kw) by (apply inert_keyword; assumption).
    assert (CA : cur A n = ea) by (rewrite cur_app_len; reflexivity).
    assert (C1 : cur L1 n = kw) by (rewrite cur_app_len; reflexivity).
    assert (C1' : cur L1 (S n) = q).
    { replace (S n) with (n + 1) by lia. rewrite cur_app_r. reflexivity. }
    assert (C2 : cur L2 n = r0) by (rewrite cur_app_len; reflexivity).
    assert (BA : bcont A n = true) by (unfold bcont; rewrite CA, Eea; reflexivity).
    pose proof (chain_le inc (S j) _ _ _ _ _ HCh) as Hq. pose proof (fdecl_lt inc (S j) _ _ HFr) as Hd.
    (* the prefix in both programs *)
    destruct (chain_transport inc (S j) A L1 n (agree_app Ta _ _) BA) with (fs := rest) (q := fstart fr) (accn := acc1)
      as (a1 & Ch1 & HL1); try (rewrite ?CA, ?C1; assumption).
    { intros _. rewrite C1. unfold is_ty. rewrite Kt. reflexivity. }
    destruct (chain_transport inc (S j) A L2 n (agree_app Ta _ _) BA) with (fs := rest) (q := fstart fr) (accn := acc1)
      as (a2 & Ch2 & HL2); try (rewrite ?CA, ?C2; assumption).
    pose proof (rtransport_lt inc (S j) A L1 n (agree_app Ta _ _) _ _ _ _ HTop ltac:(lia)) as T1.
    pose proof (rtransport_lt inc (S j) A L2 n (agree_app Ta _ _) _ _ _ _ HTop ltac:(lia)) as T2.
    pose proof (fvalid_agree inc (S j) A L1 n fr HFr Hq (agree_app Ta _ _)) as V1.
    pose proof (fvalid_agree inc (S j) A L2 n fr HFr Hq (agree_app Ta _ _)) as V2.
    (* the run in place *)
    assert (C3 : cur (Tr ++ Sb) (length Tr) = h) by (rewrite cur_app_len; reflexivity).
    destruct (transport sub (Tr ++ [ep]) (Tr ++ Sb) (length Tr) (agree_app Tr _ _)) with (pos := 0) (acc := @nil ast) (prog := pr)
      as (pr2 & R3 & L3r & Z3); try (rewrite ?cur_app_len; cbn [cur nth]; assumption); try (rewrite C3; assumption); [lia|].
    assert (LK3 : lookrelE pr pr2).
    { exists h. destruct L3r as [E0|X]; [left; apply Z3; exact E0|rewrite C3 in X; exact X]. }
    exists pr2. split; [exact LK3|].
    (* the windows *)
    assert (BW1 : forall acc, breach inc (S j) L1 n acc (n + 2) (acc ++ [ABlock pr kw])).
    { intros acc. replace (n + 2) with (S (S n)) by lia.
      apply (breach_step inc (S j) L1 n acc (Some (ABlock pr kw)) (S (S n))); [| |constructor].
      - unfold bcont, is_ty. rewrite C1, Kt. reflexivity.
      - pose proof (include_decl L1 sub n p pr) as X. rewrite C1, C1' in X.
        apply X; auto. eapply sub_p; eauto. }
    assert (BW2 : forall acc, breach inc (S j) L2 n acc (n + length Tr) (acc ++ pr2)).
    { intros acc. apply reach_breach.
      pose proof (reach_acc sub _ _ _ _ _ R3 acc) as X. rewrite app_nil_r in X.
      pose proof (reach_shift inc (S j) L2 n 0 acc (length Tr) (acc ++ pr2)) as Y.
      rewrite skipn_app_len, Nat.add_0_r in Y. apply Y. exact X. }
    intros prog1 H1.
    apply (nested_sinit inc (S j) Ta [kw; q] Tr Sb [ABlock pr kw] pr2 BW1 BW2 acc0 fr rest a1 a2 prog1 T1 T2 V1 V2 Ch1 Ch2);
      [|exact H1].
    eapply lookrelE_join; eauto.
  Qed.
End IncludeNested.
