(** C16 (.include, source level), nested position, part 2 — code generation.
    Programs equal up to one included block flattened in place, at any depth of bodies
    (IncludeNest2.v [flist]), generate the same nodes; the resolver states are equal and the
    macro tables are equal up to the same relation on the stored bodies.  Direction: from the
    program with the block (one nesting level more) to the program with the statements in place. *)
From Coq Require Import ZArith List Lia Bool Arith.
From A816 Require Import Model.Assemble Proofs.CodegenProofs Proofs.IncludeProofs
     Proofs.IncludeMove1 Proofs.IncludeMove2 Proofs.IncludeMove4 Proofs.IncludeNest2.
Open Scope nat_scope.

Section Sim.
  Variable w : world.
  Variables (pr : list ast) (kw : token) (pr2 : list ast).
  Hypothesis HLK : lookrelE pr pr2.
  Notation X1 := [ABlock pr kw].
  Notation X2 := pr2.
  Notation fast := (fast X1 X2).
  Notation flist := (flist X1 X2).

  Definition glist (b b' : list ast) : Prop := b = b' \/ flist b b'.
  Definition mdrel (m m' : macrodef) : Prop := md_params m' = md_params m /\ glist (md_body m) (md_body m').
  Definition mrel (d d' : dict macrodef) : Prop :=
    Forall2 (fun e e' => fst e' = fst e /\ mdrel (snd e) (snd e')) d d'.
  Definition cgrel (s s' : cgstate) : Prop := cg_r s' = cg_r s /\ mrel (cg_macros s) (cg_macros s').
  Definition resrel (r r' : cgstate * list node) : Prop := cgrel (fst r) (fst r') /\ snd r' = snd r.
  Definition GenSim (gen : cgstate -> list ast -> res (cgstate * list node)) : Prop :=
    forall s s' b b' r, cgrel s s' -> glist b b' -> gen s b = Ok r -> exists r', gen s' b' = Ok r' /\ resrel r r'.

  Lemma mrel_get d d' k : mrel d d' ->
    match dict_get d k, dict_get d' k with
    | Some m, Some m' => mdrel m m'
    | None, None => True
    | _, _ => False
    end.
  Proof.
    induction 1 as [|[k1 m1] [k2 m2] l l' [Hk Hm] _ IH]; cbn [dict_get]; [exact I|]. cbn [fst snd] in *. subst k2.
    destruct (str_eqb k k1); [exact Hm|exact IH].
  Qed.
  Lemma mrel_set d d' k m m' : mrel d d' -> mdrel m m' -> mrel (dict_set d k m) (dict_set d' k m').
  Proof.
    induction 1 as [|[k1 m1] [k2 m2] l l' [Hk Hm] Hl IH]; intros Hmm; cbn [dict_set].
    - constructor; [split; [reflexivity|exact Hmm]|constructor].
    - cbn [fst snd] in *. subst k2. destruct (str_eqb k k1).
      + constructor; [split; [reflexivity|exact Hmm]|exact Hl].
      + constructor; [split; [reflexivity|exact Hm]|apply IH; exact Hmm].
  Qed.
  Lemma cgrel_set_r s s' r : cgrel s s' -> cgrel (cg_set_r s r) (cg_set_r s' r).
  Proof. intros [_ H]. split; [reflexivity|exact H]. Qed.

  Section Level.
    Variable gen : cgstate -> list ast -> res (cgstate * list node).
    Hypothesis HG : GenSim gen.
    (** the included block against its statements in place *)
    Hypothesis HX : forall s s' r, cgrel s s' -> gen s pr = Ok r -> exists r', gen_list w gen s' pr = Ok r' /\ resrel r r'.

    Lemma scoped_sim k s s' pre b b' r : cgrel s s' -> glist b b' ->
      scoped gen k s pre b = Ok r -> exists r', scoped gen k s' pre b' = Ok r' /\ resrel r r'.
    Proof.
      intros [Hr Hm] Hb H. unfold scoped in *. rewrite Hr.
      destruct (enter_scope (cg_r s) k) as [r1| |]; cbn [bind] in *; try discriminate.
      destruct (pre r1) as [r2 prens].
      destruct (gen (cg_set_r s r2) b) as [x| |] eqn:E; cbn [bind] in H; try discriminate.
      destruct (HG _ (cg_set_r s' r2) _ _ _ (cgrel_set_r s s' r2 (conj Hr Hm)) Hb E) as (x' & E' & [[Hr' Hm'] Hn]).
      rewrite E'. cbn [bind]. rewrite Hr', Hn.
      destruct (restore_scope (cg_r (fst x)) false) as [r3| |]; cbn [bind] in *; try discriminate.
      injection H as <-. eexists. split; [reflexivity|]. split; [|reflexivity]. cbn [fst]. split; [reflexivity|exact Hm'].
    Qed.

    Lemma for_loop_sim v b b' : glist b b' -> forall n k s s' r, cgrel s s' ->
      for_loop gen n k v b s = Ok r -> exists r', for_loop gen n k v b' s' = Ok r' /\ resrel r r'.
    Proof.
      intros Hb. induction n as [|n IH]; intros k s s' r Hs H; cbn [for_loop] in *.
      - injection H as <-. eexists. split; [reflexivity|]. split; [exact Hs|reflexivity].
      - destruct (scoped gen SInternal s _ b) as [x| |] eqn:E; cbn [bind] in H; try discriminate.
        destruct (scoped_sim _ _ _ _ _ _ _ Hs Hb E) as (x' & E' & [Hx Hn]). rewrite E'. cbn [bind].
        destruct (for_loop gen n (k + 1)%Z v b (fst x)) as [y| |] eqn:E2; cbn [bind] in H; try discriminate.
        destruct (IH _ _ _ _ Hx E2) as (y' & E2' & [Hy Hn2]). rewrite E2'. cbn [bind].
        injection H as <-. eexists. split; [reflexivity|]. split; [exact Hy|]. cbn [snd]. congruence.
    Qed.

    (** a statement whose generation only reads and writes the resolver *)
    Ltac ronly Hr Hm H :=
      rewrite ?Hr;
      repeat match type of H with
             | context [bind ?x _] => destruct x eqn:?; cbn [bind] in H |- *; try discriminate H
             | context [match ?x with _ => _ end] => destruct x eqn:?; try discriminate H
             end;
      try discriminate H;
      injection H as <-; eexists; (split; [reflexivity|]); (split; [|reflexivity]); cbn [fst cg_set_r cg_r cg_macros];
      (split; [auto|exact Hm]).

    Lemma gen_one_refl s s' a r : cgrel s s' -> gen_one w gen s a = Ok r ->
      exists r', gen_one w gen s' a = Ok r' /\ resrel r r'.
    Proof.
      intros Hs H. pose proof Hs as [Hr Hm].
      destruct a; cbn [gen_one] in *.
      - (* ABlock *) apply (HG _ _ _ _ _ Hs (or_introl eq_refl) H).
      - apply (scoped_sim _ _ _ _ _ _ _ Hs (or_introl eq_refl) H).
      - ronly Hr Hm H.
      - ronly Hr Hm H.
      - ronly Hr Hm H.
      - apply (scoped_sim _ _ _ _ _ _ _ Hs (or_introl eq_refl) H).
      - ronly Hr Hm H.
      - ronly Hr Hm H.
      - ronly Hr Hm H.
      - (* AIf *) rewrite Hr. destruct (if_condition w (cg_r s) c) as [cond| |]; cbn [bind] in *; try discriminate.
        destruct cond; [apply (HG _ _ _ _ _ Hs (or_introl eq_refl) H)|].
        destruct el as [[eb ef]|]; [apply (HG _ _ _ _ _ Hs (or_introl eq_refl) H)|].
        injection H as <-. eexists. split; [reflexivity|]. split; [exact Hs|reflexivity].
      - (* AMacro *) injection H as <-. eexists. split; [reflexivity|]. split; [|reflexivity]. cbn [fst]. split; [cbn; auto|].
        cbn [cg_macros]. apply mrel_set; [exact Hm|]. split; [reflexivity|left; reflexivity].
      - (* AMacroApply *) pose proof (mrel_get _ _ name Hm) as G.
        destruct (dict_get (cg_macros s) name) as [md|], (dict_get (cg_macros s') name) as [md'|]; try contradiction; try discriminate.
        destruct G as [Gp Gb]. rewrite Hr, Gp.
        destruct (eval_macro_args w (cg_r s) (md_params md) args) as [bound| |]; cbn [bind] in *; try discriminate.
        apply (scoped_sim _ _ _ _ _ _ _ Hs Gb H).
      - ronly Hr Hm H.
      - ronly Hr Hm H.
      - ronly Hr Hm H.
      - ronly Hr Hm H.
      - ronly Hr Hm H.
      - ronly Hr Hm H.
      - (* ACodeLookup *) rewrite Hr. destruct (value_for (cg_r s) name) as [v| |]; try discriminate. destruct v; try discriminate.
        apply (HG _ _ _ _ _ Hs (or_introl eq_refl) H).
      - ronly Hr Hm H.
      - (* AFor *) rewrite Hr. destruct (eval_raw w (cg_r s) lo) as [from| |]; cbn [bind] in *; try discriminate.
        destruct (eval_raw w (cg_r s) hi) as [to| |]; cbn [bind] in *; try discriminate.
        apply (for_loop_sim _ _ _ (or_introl eq_refl) _ _ _ _ _ Hs H).
      - ronly Hr Hm H.
    Qed.

    Lemma gen_one_fast s s' a a' r : cgrel s s' -> fast a a' -> gen_one w gen s a = Ok r ->
      exists r', gen_one w gen s' a' = Ok r' /\ resrel r r'.
    Proof.
      intros Hs Hf H. pose proof Hs as [Hr Hm].
      destruct Hf as [a|b b' fi Hb|nm b b' bf fi Hb|nm ps b b' bf fi Hb|c th th' tf el fi Hb|c th tf eb eb' ef fi Hb|v lo hi b b' bf fi Hb];
        cbn [gen_one] in *.
      - eapply gen_one_refl; eassumption.
      - apply (scoped_sim _ _ _ _ _ _ _ Hs (or_intror Hb) H).
      - apply (scoped_sim _ _ _ _ _ _ _ Hs (or_intror Hb) H).
      - injection H as <-. eexists. split; [reflexivity|]. split; [|reflexivity]. cbn [fst]. split; [cbn; auto|].
        cbn [cg_macros]. apply mrel_set; [exact Hm|]. split; [reflexivity|right; exact Hb].
      - rewrite Hr. destruct (if_condition w (cg_r s) c) as [cond| |]; cbn [bind] in *; try discriminate.
        destruct cond; [apply (HG _ _ _ _ _ Hs (or_intror Hb) H)|].
        destruct el as [[eb ef]|]; [apply (HG _ _ _ _ _ Hs (or_introl eq_refl) H)|].
        injection H as <-. eexists. split; [reflexivity|]. split; [exact Hs|reflexivity].
      - rewrite Hr. destruct (if_condition w (cg_r s) c) as [cond| |]; cbn [bind] in *; try discriminate.
        destruct cond; [apply (HG _ _ _ _ _ Hs (or_introl eq_refl) H)|apply (HG _ _ _ _ _ Hs (or_intror Hb) H)].
      - rewrite Hr. destruct (eval_raw w (cg_r s) lo) as [from| |]; cbn [bind] in *; try discriminate.
        destruct (eval_raw w (cg_r s) hi) as [to| |]; cbn [bind] in *; try discriminate.
        apply (for_loop_sim _ _ _ (or_intror Hb) _ _ _ _ _ Hs H).
    Qed.

    Lemma gen_list_refl : forall b s s' r, cgrel s s' -> gen_list w gen s b = Ok r ->
      exists r', gen_list w gen s' b = Ok r' /\ resrel r r'.
    Proof.
      induction b as [|a rest IH]; intros s s' r Hs H; cbn [gen_list] in *.
      - injection H as <-. eexists. split; [reflexivity|]. split; [exact Hs|reflexivity].
      - destruct (gen_one w gen s a) as [x| |] eqn:E; cbn [bind] in H; try discriminate.
        destruct (gen_one_refl _ _ _ _ Hs E) as (x' & E' & [Hx Hn]). rewrite E'. cbn [bind].
        destruct (gen_list w gen (fst x) rest) as [y| |] eqn:E2; cbn [bind] in H; try discriminate.
        destruct (IH _ _ _ Hx E2) as (y' & E2' & [Hy Hn2]). rewrite E2'. cbn [bind].
        injection H as <-. eexists. split; [reflexivity|]. split; [exact Hy|]. cbn [snd]. congruence.
    Qed.

    Lemma gen_list_sim b b' s s' r : cgrel s s' -> glist b b' -> gen_list w gen s b = Ok r ->
      exists r', gen_list w gen s' b' = Ok r' /\ resrel r r'.
    Proof.
      intros Hs [<-|Hf] H; [eapply gen_list_refl; eassumption|].
      destruct Hf as [pre pre' post (h & Hpre)|pre a a' post Ha].
      - rewrite gen_list_app in H. rewrite gen_list_app, (gen_list_lookrel _ _ _ _ _ _ Hpre).
        destruct (gen_list w gen s pre) as [x| |] eqn:E; cbn [bind] in H; try discriminate.
        destruct (gen_list_refl _ _ _ _ Hs E) as (x' & E' & [Hx Hn]). rewrite E'. cbn [bind].
        change (X1 ++ post) with (ABlock pr kw :: post) in H. cbn [gen_list gen_one] in H.
        destruct (gen (fst x) pr) as [z| |] eqn:E3; cbn [bind] in H; try discriminate.
        destruct (HX _ _ _ Hx E3) as (z' & E3' & [Hz Hn3]).
        destruct HLK as (h2 & Hpr). rewrite gen_list_app, (gen_list_lookrel _ _ _ _ _ _ Hpr), E3'. cbn [bind].
        destruct (gen_list w gen (fst z) post) as [u| |] eqn:E4; cbn [bind] in H; try discriminate.
        destruct (gen_list_refl _ _ _ _ Hz E4) as (u' & E4' & [Hu Hn4]). rewrite E4'. cbn [bind].
        injection H as <-. eexists. split; [reflexivity|]. split; [exact Hu|]. cbn [fst snd]. congruence.
      - rewrite gen_list_app in H. rewrite gen_list_app.
        destruct (gen_list w gen s pre) as [x| |] eqn:E; cbn [bind] in H; try discriminate.
        destruct (gen_list_refl _ _ _ _ Hs E) as (x' & E' & [Hx Hn]). rewrite E'. cbn [bind].
        cbn [gen_list] in *.
        destruct (gen_one w gen (fst x) a) as [y| |] eqn:E2; cbn [bind] in H; try discriminate.
        destruct (gen_one_fast _ _ _ _ _ Hx Ha E2) as (y' & E2' & [Hy Hn2]). rewrite E2'. cbn [bind].
        destruct (gen_list w gen (fst y) post) as [u| |] eqn:E4; cbn [bind] in H; try discriminate.
        destruct (gen_list_refl _ _ _ _ Hy E4) as (u' & E4' & [Hu Hn4]). rewrite E4'. cbn [bind].
        injection H as <-. eexists. split; [reflexivity|]. split; [exact Hu|]. cbn [fst snd]. congruence.
    Qed.
  End Level.

  Theorem code_gen_sim : forall f, GenSim (code_gen_fuel w f).
  Proof.
    induction f as [|f IH]; intros s s' b b' r Hs Hb H; [discriminate H|].
    rewrite cgf_S in *. apply (gen_list_sim (code_gen_fuel w f) IH) with (s := s) (b := b); auto.
    intros t t' x Ht Hx. destruct f as [|f']; [discriminate Hx|].
    destruct (IH t t' pr pr x Ht (or_introl eq_refl) Hx) as (x' & Ex & Hrel).
    exists x'. split; [|exact Hrel]. rewrite cgf_S in Ex.
    apply (gen_list_mono w _ _ (code_gen_fuel_mono w f') _ _ _ Ex).
  Qed.

  (** whole programs *)
  Theorem assemble_nested c prog1 prog2 o fin : flist prog1 prog2 ->
    assemble_program w c prog1 = AOk o fin -> assemble_program w c prog2 = AOk o fin.
  Proof.
    intros Hf. unfold assemble_program.
    destruct (initial_resolver w c) as [r| |]; try discriminate.
    destruct (code_gen_fuel w cg_depth {| cg_r := r; cg_macros := [] |} prog1) as [[s ns]| |] eqn:E; try discriminate.
    destruct (code_gen_sim cg_depth _ {| cg_r := r; cg_macros := [] |} _ _ _ (conj eq_refl (Forall2_nil _)) (or_intror Hf) E)
      as ([s' ns'] & E' & [[Hr _] Hn]). cbn [fst snd] in *. subst ns'. rewrite E', Hr. auto.
  Qed.
End Sim.

(* ------------------------------------------------------------------------------------------ *)
(** * Token lists and source text *)
From A816 Require Import Proofs.ScannerSpec Proofs.ScannerProofs Proofs.ScannerShift Proofs.ParserProofs Proofs.ScannerLayout Proofs.LayoutLink Proofs.IncludeLoc Proofs.IncludeMove3 Proofs.ParseFail.
From A816 Require Proofs.EofToken Proofs.ParserFuelProofs.

Section Tokens.
  Variables (t : live) (fs : srcfiles) (c : config).
  Notation inc := (include_tokens t fs).
  Variables Ta Tr Tb : list token.
  Variables ea ep eb kw q : token.
  Variable p : str.
  Variable pr : list ast.
  Notation Sb := (Tb ++ [eb]).
  Notation A := (Ta ++ [ea]).
  Variables (acc0 : list ast) (fr : frame) (rest : list (list ast * frame)) (acc1 : list ast).

  Hypothesis HTop : reach (inc_sub include_depth inc) A 0 [] (fdecl fr) acc0.
  Hypothesis HFr : fvalid inc include_depth A fr.
  Hypothesis HCh : chain inc include_depth A (fstart fr) rest (length Ta) acc1.
  Hypothesis Eea : is_ty ea T_EOF = true.
  Hypothesis Iea : inert ea.
  Hypothesis HR : exists F, pinit_pos (Tr ++ [ep]) (inc_sub (pred include_depth) inc) F 0 [] = POk (pr, length Tr).
  Hypothesis Iep : inert ep.
  Hypothesis Kt : t_type kw = T_KEYWORD.
  Hypothesis Kv : t_value kw = k_include.
  Hypothesis Qt : is_ty q T_QUOTED_STRING = true.
  Hypothesis Qv : strip_quotes (t_value q) = p.
  Hypothesis Hinc : inc p = Ok (Tr ++ [ep]).
  Hypothesis Ir0 : inert (cur (Tr ++ Sb) 0).
  Hypothesis Ih : inert (cur Sb 0).
  Hypothesis Mr0 : last_is_map acc1 = true -> is_ty (cur (Tr ++ Sb) 0) T_IDENTIFIER = false.
  Hypothesis Mh : last_is_map pr = true -> is_ty (cur Sb 0) T_IDENTIFIER = false.

  Theorem include_nested_tokens o fin :
    after_scan t fs c (Ta ++ [kw; q] ++ Sb) = AOk o fin ->
    after_scan t fs c (Ta ++ Tr ++ Sb) = AOk o fin.
  Proof.
    intros H.
    destruct (nested_include_parses inc (inc_no_fuel t fs) (pred include_depth) Ta Tr Sb ea ep kw q p pr
                acc0 fr rest acc1 HTop HFr HCh Eea Iea HR Iep Kt Kv Qt Qv Hinc Ir0 Ih Mr0 Mh) as (pr2 & LK & HP).
    change (S (pred include_depth)) with include_depth in HP.
    rewrite (after_scan_pinitial t fs c _ _ (le_n _)) in H.
    destruct (pinitial (Ta ++ [kw; q] ++ Sb) (inc_sub include_depth inc) (parse_fuel (length (Ta ++ [kw; q] ++ Sb))) 0 [])
      as [prog1|k tok|tok|] eqn:E1.
    2:{ destruct k; try discriminate H. destruct (first_include_scan_error _ _) as [[? ?]|]; discriminate H. }
    2:{ discriminate H. }
    2:{ discriminate H. }
    assert (S1 : sinit inc include_depth (Ta ++ [kw; q] ++ Sb) 0 [] prog1).
    { apply (stab_of _ _ _ (mono_pinitial inc include_depth _ 0 []) E1). }
    destruct (HP prog1 S1) as (prog2 & (f0 & S2) & Hfl).
    set (G := Nat.max f0 (parse_fuel (length (Ta ++ Tr ++ Sb)))).
    rewrite (after_scan_pinitial t fs c _ G) by (unfold G; lia).
    rewrite (S2 G) by (unfold G; lia).
    apply (assemble_nested (world_of t fs) pr kw pr2 LK c prog1 prog2 o fin Hfl H).
  Qed.
End Tokens.

(** the text [a] is a prefix that leaves constructs open: top-level statements, then for each open
    construct the statements before it in the enclosing body and its header, then the statements
    of the innermost body *)
Definition opens_constructs (t : live) (fs : srcfiles) (toks : list token)
  (acc0 : list ast) (fr : frame) (rest : list (list ast * frame)) (accn : list ast) : Prop :=
  reach (inc_sub include_depth (include_tokens t fs)) toks 0 [] (fdecl fr) acc0 /\
  fvalid (include_tokens t fs) include_depth toks fr /\
  chain (include_tokens t fs) include_depth toks (fstart fr) rest (length toks - 1) accn.

Theorem include_nested_source : forall t fs c fname a run b L p Ta ea la Tr ep lr Tb eb lb acc0 fr rest acc1 pr o fin,
  lexicon_ok (lv_lex t) = true ->
  ends_nl a -> ends_nl run ->
  scan (lv_lex t) fname a = ScanOk (Ta ++ [ea]) la ->
  scan (lv_lex t) p run = ScanOk (Tr ++ [ep]) lr ->
  scan (lv_lex t) fname b = ScanOk (Tb ++ [eb]) lb ->
  include_line (lv_lex t) fname L p ->
  assoc_str (sf_text fs) p = Some run ->
  opens_constructs t fs (Ta ++ [ea]) acc0 fr rest acc1 ->
  parses_alone t fs (pred include_depth) (Tr ++ [ep]) pr ->
  inert (cur (Tr ++ Tb ++ [eb]) 0) -> inert (cur (Tb ++ [eb]) 0) ->
  (last_is_map acc1 = true -> is_ty (cur (Tr ++ Tb ++ [eb]) 0) T_IDENTIFIER = false) ->
  (last_is_map pr = true -> is_ty (cur (Tb ++ [eb]) 0) T_IDENTIFIER = false) ->
  assemble_source t fs c fname (a ++ L ++ b) = AOk o fin ->
  exists o' fin',
    assemble_source t fs c fname (a ++ run ++ b) = AOk o' fin' /\
    o_blocks o' = o_blocks o /\ o_labels o' = o_labels o /\ same_symbols fin fin'.
Proof.
  intros t fs c fname a run b L p Ta ea la Tr ep lr Tb eb lb acc0 fr rest acc1 pr o fin
         Hlx Ha Hrun Sa Sr Sb (HLe & kw & q & eL & lL & SL_ & Kt & Kv & Qt & Qv) Hp (OT & OF & OC) PR Ir0 Ih Mr0 Mh H.
  set (lx := lv_lex t) in *.
  pose proof (scan_line_compositional lx fname L b [kw; q] eL lL Hlx HLe SL_) as S1. rewrite Sb in S1.
  cbn [shift_result] in S1.
  pose proof (scan_line_compositional lx fname a (L ++ b) Ta ea la Hlx Ha Sa) as S1'. rewrite S1 in S1'.
  cbn [shift_result] in S1'.
  pose proof (scan_refile lx p fname run) as Sf. rewrite Sr in Sf. cbn [refile_result] in Sf. rewrite map_app in Sf.
  cbn [map] in Sf.
  pose proof (scan_line_compositional lx fname run b _ _ lr Hlx Hrun Sf) as S2. rewrite Sb in S2.
  cbn [shift_result] in S2.
  pose proof (scan_line_compositional lx fname a (run ++ b) Ta ea la Hlx Ha Sa) as S2'. rewrite S2 in S2'.
  cbn [shift_result] in S2'.
  rewrite (assemble_source_ok _ _ _ _ _ _ _ S1') in H. rewrite (assemble_source_ok _ _ _ _ _ _ _ S2').
  set (A1 := Ta ++ map (shift_tok (count_nl a)) ([kw; q] ++ map (shift_tok (count_nl L)) (Tb ++ [eb]))) in *.
  set (A2 := Ta ++ map (shift_tok (count_nl a)) (map (refile fname) Tr ++ map (shift_tok (count_nl run)) (Tb ++ [eb]))) in *.
  assert (R1 : Forall2 sameTV A1 (Ta ++ [kw; q] ++ Tb ++ [eb])).
  { subst A1. apply Forall2_app; [apply sameTV_refl_list|]. apply Forall2_sameTV_sym.
    eapply Forall2_sameTV_trans; [|apply sameTV_map_shift].
    apply Forall2_app; [apply sameTV_refl_list|apply sameTV_map_shift]. }
  assert (R2 : Forall2 sameTV (Ta ++ Tr ++ Tb ++ [eb]) A2).
  { subst A2. apply Forall2_app; [apply sameTV_refl_list|].
    eapply Forall2_sameTV_trans; [|apply sameTV_map_shift].
    apply Forall2_app; [apply sameTV_refile|apply sameTV_map_shift]. }
  pose proof (layout_link_tokens t fs c [] _ _ (Forall_nil _) R1) as LK1. cbn [app] in LK1.
  pose proof (layout_link_tokens t fs c [] _ _ (Forall_nil _) R2) as LK2. cbn [app] in LK2.
  rewrite H in LK1.
  destruct (after_scan t fs c (Ta ++ kw :: q :: Tb ++ [eb])) as [o1 fin1| | | |] eqn:E1;
    cbn [result_same_up_to_positions] in LK1; try contradiction.
  destruct LK1 as (B1 & Lb1 & Sr1).
  assert (Hinc : include_tokens t fs p = Ok (Tr ++ [ep])).
  { unfold include_tokens. rewrite Hp. unfold scan_res. fold lx. rewrite Sr. reflexivity. }
  destruct PR as (FR & PR).
  rewrite app_length in PR, OC. cbn [length] in PR, OC. rewrite Nat.add_sub in PR, OC.
  assert (Eea : is_ty ea T_EOF = true).
  { destruct (EofToken.scan_eof_token lx fname a _ _ Hlx Sa) as (body' & eof & p0 & E & Ht & _).
    apply app_inj_tail in E as [_ ->]. unfold is_ty. rewrite Ht. reflexivity. }
  pose proof (include_nested_tokens t fs c Ta Tr Tb ea ep eb kw q p pr acc0 fr rest acc1
                OT OF OC Eea (scan_eof_inert _ _ _ _ _ _ Hlx Sa) (ex_intro _ FR PR) (scan_eof_inert _ _ _ _ _ _ Hlx Sr)
                Kt Kv Qt Qv Hinc Ir0 Ih Mr0 Mh o1 fin1 E1) as E2.
  rewrite E2 in LK2.
  destruct (after_scan t fs c A2) as [o2 fin2| | | |]; cbn [result_same_up_to_positions] in LK2; try contradiction.
  destruct LK2 as (B2 & Lb2 & Sr2).
  exists o2, fin2. split; [reflexivity|]. split; [congruence|]. split; [congruence|].
  destruct (srel_symbols _ _ Sr1) as (X1 & X2 & X3 & X4 & X5).
  destruct (srel_symbols _ _ Sr2) as (Y1 & Y2 & Y3 & Y4 & Y5).
  unfold same_symbols. repeat split; congruence.
Qed.

Print Assumptions include_nested_tokens.
Print Assumptions include_nested_source.

(* ------------------------------------------------------------------------------------------ *)
(** * Examples *)
Module NestExamples.
  Import MoveExamples.
  Definition t1 : live :=
    {| lv_low := lv_low t0; lv_high := lv_high t0; lv_busmap := lv_busmap t0; lv_optable := lv_optable t0;
       lv_prec := lv_prec t0;
       lv_lex := mk_lexicon [[108;100;97]; [110;111;112]]%Z [[110;111;112]]%Z
                            [[100;98]; [105;110;99;108;117;100;101]; [109;97;99;114;111]; [105;102]; [115;99;111;112;101]]%Z |}.

  (** the include line inside a scope *)
  Definition a3 : str := [115;116;97;114;116;58;10;46;115;99;111;112;101;32;115;32;123;10;110;111;112;10]%Z.        (* "start:\n.scope s {\nnop\n" *)
  Definition run3' : str := [108;50;58;32;108;100;97;46;98;32;35;48;120;49;50;10]%Z.    (* "l2: lda.b #0x12\n" *)
  Definition b3' : str := [110;111;112;10;125;10;110;111;112;10]%Z.        (* "nop\n}\nnop\n" *)
  Definition fs3' : srcfiles := {| sf_text := [(pr_, run3')]; sf_bin := []; sf_tbl := [] |}.
  Example in_scope_included : view (assemble_source t1 fs3' cfg0 fname (a3 ++ incl ++ b3')) =
                              Some ([([234; 169; 18; 234; 234], 0)], [([115;116;97;114;116], 0); ([108; 50], 32769)])%Z.
  Proof. vm_compute. reflexivity. Qed.
  Example in_scope_inplace : view (assemble_source t1 fs3' cfg0 fname (a3 ++ run3' ++ b3')) =
                             view (assemble_source t1 fs3' cfg0 fname (a3 ++ incl ++ b3')).
  Proof. vm_compute. reflexivity. Qed.

  (** the include line inside a macro body; the macro is expanded twice *)
  Definition a4 : str := [46;109;97;99;114;111;32;109;40;120;41;32;123;10;46;100;98;32;120;10]%Z.        (* ".macro m(x) {\n.db x\n" *)
  Definition run4 : str := [46;100;98;32;55;10]%Z.    (* ".db 7\n" *)
  Definition b4 : str := [125;10;109;40;49;41;10;109;40;50;41;10]%Z.        (* "}\nm(1)\nm(2)\n" *)
  Definition fs4 : srcfiles := {| sf_text := [(pr_, run4)]; sf_bin := []; sf_tbl := [] |}.
  Example in_macro_included : view (assemble_source t1 fs4 cfg0 fname (a4 ++ incl ++ b4)) =
                              Some ([([1; 7; 2; 7], 0)], [])%Z.
  Proof. vm_compute. reflexivity. Qed.
  Example in_macro_inplace : view (assemble_source t1 fs4 cfg0 fname (a4 ++ run4 ++ b4)) =
                             view (assemble_source t1 fs4 cfg0 fname (a4 ++ incl ++ b4)).
  Proof. vm_compute. reflexivity. Qed.

  (** the theorem applies to the scope example: [a3] leaves one construct open *)
  Definition sub1 := inc_sub include_depth (include_tokens t1 fs3').
  Definition ta3 := Eval vm_compute in toks_of (scan (lv_lex t1) fname a3).
  Definition la3 := Eval vm_compute in lines_of (scan (lv_lex t1) fname a3).
  Definition tr3 := Eval vm_compute in toks_of (scan (lv_lex t1) pr_ run3').
  Definition lr3 := Eval vm_compute in lines_of (scan (lv_lex t1) pr_ run3').
  Definition tb3 := Eval vm_compute in toks_of (scan (lv_lex t1) fname b3').
  Definition lb3 := Eval vm_compute in lines_of (scan (lv_lex t1) fname b3').
  Definition tl3 := Eval vm_compute in toks_of (scan (lv_lex t1) fname incl).
  Definition ll3 := Eval vm_compute in lines_of (scan (lv_lex t1) fname incl).
  Definition dec (pos : nat) : option ast := match pdecl ta3 sub1 50 pos with POk (d, _) => d | _ => None end.
  Definition d_label := Eval vm_compute in dec 0.
  Definition d_nop := Eval vm_compute in dec 4.
  Definition pr3 := Eval vm_compute in
    prog_of (pinit_pos tr3 (inc_sub (pred include_depth) (include_tokens t1 fs3')) 50 0 []).

  Example a3_opens : opens_constructs t1 fs3' ta3 (opt_app [] d_label) (FScope 1) [] (opt_app [] d_nop).
  Proof.
    split; [|split].
    - eapply (reach_step sub1 ta3 0 [] d_label 1); [vm_compute; reflexivity| |apply reach_refl].
      apply (pdecl_stable sub1 ta3 50). vm_compute. reflexivity.
    - repeat split; vm_compute; reflexivity.
    - cbn [chain]. change (length ta3 - 1) with 5. change (fstart (FScope 1)) with 4.
      eapply (breach_step (include_tokens t1 fs3') include_depth ta3 4 [] d_nop 5); [vm_compute; reflexivity| |apply breach_refl].
      apply (pdecl_stable sub1 ta3 50). vm_compute. reflexivity.
  Qed.

  Example nested_by_theorem :
    exists o fin o' fin',
      assemble_source t1 fs3' cfg0 fname (a3 ++ incl ++ b3') = AOk o fin /\
      assemble_source t1 fs3' cfg0 fname (a3 ++ run3' ++ b3') = AOk o' fin' /\
      o_blocks o' = o_blocks o /\ o_labels o' = o_labels o /\ same_symbols fin fin'.
  Proof.
    destruct (assemble_source t1 fs3' cfg0 fname (a3 ++ incl ++ b3')) as [o fin| | | |] eqn:E;
      try (vm_compute in E; discriminate E).
    exists o, fin.
    destruct (include_nested_source t1 fs3' cfg0 fname a3 run3' b3' incl pr_
                (body ta3) (eof_of ta3) la3 (body tr3) (eof_of tr3) lr3 (body tb3) (eof_of tb3) lb3
                (opt_app [] d_label) (FScope 1) [] (opt_app [] d_nop) pr3 o fin)
      as (o' & fin' & H); try exact E.
    - reflexivity.
    - exists (removelast a3). reflexivity.
    - exists (removelast run3'). reflexivity.
    - vm_compute. reflexivity.
    - vm_compute. reflexivity.
    - vm_compute. reflexivity.
    - split; [exists (removelast incl); reflexivity|].
      exists (nth 0 tl3 eof_token), (nth 1 tl3 eof_token), (nth 2 tl3 eof_token), ll3.
      repeat split; vm_compute; reflexivity.
    - reflexivity.
    - exact a3_opens.
    - exists 50. vm_compute. reflexivity.
    - repeat split; vm_compute; reflexivity.
    - repeat split; vm_compute; reflexivity.
    - intros X. vm_compute in X. discriminate X.
    - intros X. vm_compute in X. discriminate X.
    - exists o', fin'. split; [reflexivity|exact H].
  Qed.
End NestExamples.
