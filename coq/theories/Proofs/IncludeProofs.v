(** C16 — an included file is flattened into the statement list: moving a run of statements into
    a file brought in with .include changes neither the generated nodes nor the resolver state.
    Needs fuel monotonicity of code generation (the include adds one nesting level). *)
From Coq Require Import ZArith List Lia Bool Arith.
From A816 Require Import Model.Codegen Proofs.CodegenProofs.
Open Scope Z_scope.

Definition gen_le (g1 g2 : cgstate -> list ast -> res (cgstate * list node)) : Prop :=
  forall s b r, g1 s b = Ok r -> g2 s b = Ok r.

Section Mono.
  Variable w : world.
  Variables g1 g2 : cgstate -> list ast -> res (cgstate * list node).
  Hypothesis Hle : gen_le g1 g2.

  Lemma scoped_mono k s pre b r : scoped g1 k s pre b = Ok r -> scoped g2 k s pre b = Ok r.
  Proof.
    unfold scoped. destruct (enter_scope (cg_r s) k) as [r1| |]; cbn [bind]; try discriminate.
    destruct (pre r1) as [r2 prens].
    destruct (g1 (cg_set_r s r2) b) as [x| |] eqn:E; cbn [bind]; try discriminate.
    rewrite (Hle _ _ _ E). cbn [bind]. auto.
  Qed.

  Lemma for_loop_mono n : forall k v b s r, for_loop g1 n k v b s = Ok r -> for_loop g2 n k v b s = Ok r.
  Proof.
    induction n as [|n IH]; intros k v b s r; cbn [for_loop]; [auto|].
    destruct (scoped g1 SInternal s _ b) as [x| |] eqn:E; cbn [bind]; try discriminate.
    rewrite (scoped_mono _ _ _ _ _ E). cbn [bind].
    destruct (for_loop g1 n (k + 1) v b (fst x)) as [y| |] eqn:E2; cbn [bind]; try discriminate.
    rewrite (IH _ _ _ _ _ E2). cbn [bind]. auto.
  Qed.

  Lemma gen_one_mono s a r : gen_one w g1 s a = Ok r -> gen_one w g2 s a = Ok r.
  Proof.
    destruct a; cbn [gen_one]; auto;
      repeat match goal with
             | |- context [bind ?x _] => destruct x; cbn [bind]; auto
             | |- context [match ?x with _ => _ end] => destruct x; cbn [bind]; auto
             end;
      try apply scoped_mono; try apply for_loop_mono; try apply Hle.
  Qed.

  Lemma gen_list_mono body : forall s r, gen_list w g1 s body = Ok r -> gen_list w g2 s body = Ok r.
  Proof.
    induction body as [|a rest IH]; intros s r; cbn [gen_list]; [auto|].
    destruct (gen_one w g1 s a) as [x| |] eqn:E; cbn [bind]; try discriminate.
    rewrite (gen_one_mono _ _ _ E). cbn [bind].
    destruct (gen_list w g1 (fst x) rest) as [y| |] eqn:E2; cbn [bind]; try discriminate.
    rewrite (IH _ _ E2). cbn [bind]. auto.
  Qed.
End Mono.

(** More nesting fuel never changes a successful expansion. *)
Theorem code_gen_fuel_mono w f : gen_le (code_gen_fuel w f) (code_gen_fuel w (S f)).
Proof.
  induction f as [|f IH]; intros s b r; cbn [code_gen_fuel]; [discriminate|].
  apply gen_list_mono. exact IH.
Qed.

Lemma cgf_S w f s b : code_gen_fuel w (S f) s b = gen_list w (code_gen_fuel w f) s b.
Proof. reflexivity. Qed.

(** An included file (a BlockAstNode) is generated as its statements, in the current scope. *)
Theorem include_flattens w gen s run fi : gen_one w gen s (ABlock run fi) = gen s run.
Proof. reflexivity. Qed.

(** Moving the run [run] of statements, found between [before] and [after], into an included file. *)
Theorem include_moved w f s before run after fi r :
  code_gen_fuel w (S f) s (before ++ run ++ after) = Ok r ->
  code_gen_fuel w (S (S f)) s (before ++ [ABlock run fi] ++ after) = Ok r.
Proof.
  rewrite (cgf_S w f), (cgf_S w (S f)). rewrite !gen_list_app.
  destruct (gen_list w (code_gen_fuel w f) s before) as [x| |] eqn:E1; cbn [bind]; try discriminate.
  rewrite (gen_list_mono w _ _ (code_gen_fuel_mono w f) _ _ _ E1). cbn [bind].
  rewrite gen_list_app.
  destruct (gen_list w (code_gen_fuel w f) (fst x) run) as [y| |] eqn:E2; cbn [bind]; try discriminate.
  destruct (gen_list w (code_gen_fuel w f) (fst y) after) as [z| |] eqn:E3; cbn [bind]; try discriminate.
  intros H. rewrite gen_list_app. cbn [gen_list gen_one]. rewrite (cgf_S w f). rewrite E2. cbn [bind fst snd].
  rewrite (gen_list_mono w _ _ (code_gen_fuel_mono w f) _ _ _ E3). cbn [bind fst snd].
  rewrite app_nil_r. exact H.
Qed.

(** The mnemonic reaches the opcode table lower-cased, whatever its letter case in the source. *)
Theorem opcode_case_folded w gen s mode o1 o2 size operand index fi :
  lower_ascii o1 = lower_ascii o2 ->
  gen_one w gen s (AOpcode mode o1 size operand index fi) = gen_one w gen s (AOpcode mode o2 size operand index fi).
Proof. intros H. cbn [gen_one]. rewrite H. reflexivity. Qed.
