(** C01 at the level of source TEXT, part 4: the whole pipeline for ONE instruction line.

        *=<origin>
        <mnemonic>[.<b|w|l>] <operand>

    ([insn_src], Proofs/InsnTextParse.v) for every operand syntax the parser knows:
      (none)   #e   e   e,i   (e)   (e),i   [e]   [e],i   (e,i)   (e,s),y
    with arbitrary spacing at the places where the lexer skips blanks, mnemonic / suffix / index in any
    letter case.  [assemble_source] succeeds with ONE block = the bytes of the table's emitter for
    (lower-case mnemonic, addressing mode of the syntax, index) at the file offset of the origin, or
    fails with the exception of OpcodeNode._get_emitter when the table has no such emitter.

    Left out: relative branches (bcc bcs beq bmi bne bpl bra bvc bvs brl per: RelativeJumpOpcode,
    operand = a destination, encoding depends on the position); mvn / mvp (not in the table at all);
    operand expressions with identifiers (closed expressions only). *)
From Coq Require Import ZArith NArith List Bool Lia ZifyBool Arith.
From A816 Require Import Spec.ExprSem Spec.BusLaws Model.Assemble Proofs.BusProofs Proofs.NodeProofs
  Proofs.PackLemmas Proofs.OpcodeProofs Proofs.ExprProofs Proofs.ExprLex Proofs.ExprLexParse
  Proofs.ParserShapeTokens Proofs.DataTextScan Proofs.DataTextGen Proofs.DataText
  Proofs.InsnTextScan Proofs.InsnTextParse Proofs.InsnTextGen.
Import ListNotations.
Open Scope Z_scope.
Ltac Zify.zify_post_hook ::= Z.to_euclidean_division_equations.

(** closed expressions *)
Fixpoint closed (e : sexpr) : Prop :=
  match e with
  | Num _ _ => True
  | Id _ => False
  | Un _ a => closed a
  | Bin _ a b => closed a /\ closed b
  | Par a => closed a
  end.

Lemma closed_eval ev1 ev2 e : closed e -> eval ev1 e = eval ev2 e.
Proof.
  induction e as [f n|s|o a IH|o a IHa b IHb|a IH]; cbn [closed eval]; try reflexivity.
  - contradiction.
  - intros H. rewrite (IH H). reflexivity.
  - intros (A & B). rewrite (IHa A), (IHb B). reflexivity.
  - exact IH.
Qed.

Lemma closed_lexable e : closed e -> lexable e.
Proof.
  induction e as [f n|s|o a IH|o a IHa b IHb|a IH]; cbn [closed lexable]; auto.
  - contradiction.
  - intros (A & B). auto.
Qed.

Lemma eval_raw_closed t fs r x e v :
  prec_compatible (lv_prec t) = true -> map en_strip x = flat e -> wf e -> closed e ->
  eval noenv e = Ok v -> eval_raw (world_of t fs) r x = Ok v.
Proof.
  intros Hc S W D E. unfold eval_raw. cbn [world_of w_prec].
  rewrite <- eval_expression_strip, S, (eval_expression_correct _ _ _ Hc W).
  rewrite (closed_eval _ noenv e D). exact E.
Qed.

(** the fields of the AST node / OpcodeNode of a syntax *)
Definition sh_size (sh : shape) (sz : option Z) : option vsize :=
  match sh with ShImplied => None | _ => sfx_vsize sz end.
Definition sh_vopt (sh : shape) (v : Z) : option Z := match sh with ShImplied => None | _ => Some v end.

Lemma nd_index_shape sh i1 : nd_index (mode_of sh) (sh_index sh i1) = sh_index sh i1.
Proof. destruct sh; reflexivity. Qed.

(** all side conditions on the instruction text and the lexicon *)
Definition insn_ok (lx : lexicon) (mn : str) (sz : option Z) (os : ospacing) (sh : shape)
           (e : sexpr) (i1 i2 : Z) : Prop :=
  mn3_ok lx mn /\ suffix_ok lx mn sz os sh /\ shape_ix_ok sh i1 i2 /\ shape_head_ok sh e /\
  (sh = ShInnerOuter -> Parser.lower [i1] = k_s /\ Parser.lower [i2] = k_y) /\
  closed e /\ wf e.

(** the front half: text -> AST, and the start of the back half *)
Lemma insn_front t fs c fname low p sp0 eorg org mn sz os sh e i1 i2 v :
  live_builtin t LowRom = Ok low -> addr_physical low 0 = Ok p ->
  match cf_rom c with Some rt => live_builtin t rt = Ok low | None => True end ->
  prec_compatible (lv_prec t) = true ->
  dlex eorg -> wf eorg -> eval noenv eorg = Ok org ->
  insn_ok (lv_lex t) mn sz os sh e i1 i2 -> (sh <> ShImplied -> eval noenv e = Ok v) ->
  exists rorg fi o re ri,
    assemble_source t fs c fname (insn_src sp0 eorg mn sz os sh e i1 i2)
    = assemble_program (world_of t fs) c
        [AStarEq rorg fi; AOpcode (mode_of sh) mn (sh_size sh sz)
                                  (match sh with ShImplied => None | _ => Some re end) (sh_index sh i1) o] /\
    initial_resolver (world_of t fs) c = Ok ri /\ start_ok (world_of t fs) low ri /\
    eval_raw (world_of t fs) ri rorg = Ok org /\
    operand_val (world_of t fs) ri
      (nd_operand (mode_of sh) (match sh with ShImplied => None | _ => Some re end)) (sh_vopt sh v).
Proof.
  intros Hlow Hphys Hrt Hc Do Wo Eo (Hmn & Hsz & Hix & Hhd & Hio & Cl & We) Ev.
  destruct (scan_insn (lv_lex t) fname sp0 eorg mn sz os sh e i1 i2 Do (closed_lexable e Cl) Hmn Hsz Hix Hhd)
    as (toks & eof & lines & Escan & Etv & Eeof).
  destruct (operand_syntax_mode eorg mn sz sh e i1 i2 toks eof include_depth (include_tokens t fs) Etv
              (tv_type _ _ _ Eeof) Hhd Hio) as (rorg & fi & o & re & Eparse & Sorg & Se & Vo).
  destruct (initial_resolver_ok (world_of t fs) c low p Hlow Hphys Hrt) as (ri & Einit & Hstart).
  exists rorg, fi, o, re, ri. split; [|split; [exact Einit|split; [exact Hstart|split]]].
  - unfold assemble_source. rewrite Escan, Eparse. reflexivity.
  - apply (eval_raw_tree t fs ri rorg eorg org Hc Sorg Wo Do Eo).
  - destruct sh; cbn [mode_of nd_operand sh_vopt operand_val]; try exact I;
      (eapply eval_raw_closed; [exact Hc|apply Se; discriminate|exact We|exact Cl|apply Ev; discriminate]).
Qed.

(** I4, accepted (generic ROM range) *)
Theorem insn_text t fs c fname low m p sp0 eorg org mn sz os sh e i1 i2 v em bs rc0 :
  live_builtin t LowRom = Ok low -> addr_physical low 0 = Ok p ->
  match cf_rom c with Some rt => live_builtin t rt = Ok low | None => True end ->
  prec_compatible (lv_prec t) = true ->
  covers low m -> mask_ok m -> m_writable m = false ->
  in_window m org -> m_first m <= bank_of org <= m_last m ->
  dlex eorg -> wf eorg -> eval noenv eorg = Ok org ->
  insn_ok (lv_lex t) mn sz os sh e i1 i2 -> (sh <> ShImplied -> eval noenv e = Ok v) ->
  get_emitter (lv_optable t) (lower_ascii mn) (mode_of sh) (sh_index sh i1) = Ok em ->
  is_rel em = false ->
  emitter_emit em (evv (sh_vopt sh v)) (sh_size sh sz) rc0 = Ok bs ->
  spec_offset m org + Z.of_nat (length bs) < rsize m ->
  exists o fin,
    assemble_source t fs c fname (insn_src sp0 eorg mn sz os sh e i1 i2) = AOk o fin /\
    o_blocks o = [(bs, spec_offset m org)] /\ o_labels o = [].
Proof.
  intros Hlow Hphys Hrt Hc Hcov Hmask Hrom Hw Hb Do Wo Eo Hok Ev Hem Hnr Hemit Hfit.
  destruct (insn_front t fs c fname low p sp0 eorg org mn sz os sh e i1 i2 v Hlow Hphys Hrt Hc Do Wo Eo Hok Ev)
    as (rorg & fi & o & re & ri & Esrc & Einit & Hstart & Exo & Hval).
  destruct (assemble_program_insn (world_of t fs) c low m ri rorg fi org (mode_of sh) mn (sh_size sh sz)
              (match sh with ShImplied => None | _ => Some re end) (sh_index sh i1) o (sh_vopt sh v) em bs rc0
              Hcov Hmask Hrom Hw Hb Einit Hstart Exo) as (out & Easm & B & L); try assumption.
  - destruct sh; cbn [mode_of]; try discriminate; intros X; congruence.
  - rewrite nd_index_shape. exact Hem.
  - destruct sh; exact Hemit.
  - exists out, (o_final out). split; [rewrite Esrc; exact Easm|split; assumption].
Qed.

(** I4, rejected: the table has no emitter for (mnemonic, mode, index) *)
Theorem insn_text_rejected t fs c fname low m p sp0 eorg org mn sz os sh e i1 i2 v k :
  live_builtin t LowRom = Ok low -> addr_physical low 0 = Ok p ->
  match cf_rom c with Some rt => live_builtin t rt = Ok low | None => True end ->
  prec_compatible (lv_prec t) = true ->
  covers low m -> mask_ok m -> m_writable m = false ->
  in_window m org -> m_first m <= bank_of org <= m_last m -> spec_offset m org < rsize m ->
  dlex eorg -> wf eorg -> eval noenv eorg = Ok org ->
  insn_ok (lv_lex t) mn sz os sh e i1 i2 -> (sh <> ShImplied -> eval noenv e = Ok v) ->
  get_emitter (lv_optable t) (lower_ascii mn) (mode_of sh) (sh_index sh i1) = Err k ->
  exists site, assemble_source t fs c fname (insn_src sp0 eorg mn sz os sh e i1 i2) = AExc k site.
Proof.
  intros Hlow Hphys Hrt Hc Hcov Hmask Hrom Hw Hb Hfit Do Wo Eo Hok Ev Hem.
  destruct (insn_front t fs c fname low p sp0 eorg org mn sz os sh e i1 i2 v Hlow Hphys Hrt Hc Do Wo Eo Hok Ev)
    as (rorg & fi & o & re & ri & Esrc & Einit & Hstart & Exo & Hval).
  destruct (assemble_program_insn_rejected (world_of t fs) c low m ri rorg fi org (mode_of sh) mn (sh_size sh sz)
              (match sh with ShImplied => None | _ => Some re end) (sh_index sh i1) o k
              Hcov Hmask Hrom Hw Hb Einit Hstart Exo) as (site & E); try assumption.
  - destruct sh; cbn [mode_of]; try discriminate; intros X; congruence.
  - rewrite nd_index_shape. exact Hem.
  - exists site. rewrite Esrc. exact E.
Qed.

Print Assumptions insn_text.
Print Assumptions insn_text_rejected.

(* ------------------------------------------------------------------------------------------ *)
(** * The built-in LoROM bus *)

Lemma lorom_range t c org :
  bus_agree_b (lv_low t) lorom = true -> low_rom_config t c ->
  (0 <= bank_of org <= 111 \/ 128 <= bank_of org <= 207) -> 32768 <= org mod 65536 ->
  exists m,
    live_builtin t LowRom = Ok (lv_low t) /\ addr_physical (lv_low t) 0 = Ok (Some 0) /\
    match cf_rom c with Some rt => live_builtin t rt = Ok (lv_low t) | None => True end /\
    covers (lv_low t) m /\ mask_ok m /\ m_writable m = false /\
    in_window m org /\ m_first m <= bank_of org <= m_last m /\
    spec_offset m org = lorom_offset org /\
    rsize m = (if bank_of org <? 128 then 112 else 80) * 32768 /\
    spec_offset m org < rsize m.
Proof.
  intros Hag (Hm0 & Hmc) Hbank Hwin.
  assert (Hlow : live_builtin t LowRom = Ok (lv_low t)).
  { unfold live_builtin. cbn [romtype_code]. rewrite Hm0. reflexivity. }
  assert (Hphys : addr_physical (lv_low t) 0 = Ok (Some 0)).
  { rewrite (bus_agree_physical _ _ Hag). reflexivity. }
  assert (Hrt : match cf_rom c with Some rt => live_builtin t rt = Ok (lv_low t) | None => True end).
  { destruct (cf_rom c) as [rt|]; [|exact I]. unfold live_builtin. rewrite Hmc. reflexivity. }
  assert (Hlo15 : org mod 32768 = org mod 65536 - 32768).
  { rewrite (Znumtheory.Zmod_div_mod 32768 65536 org) by (try lia; exists 2; reflexivity).
    pose proof (Z.mod_pos_bound org 65536 ltac:(lia)) as Hr.
    generalize dependent (org mod 65536). intros r. intros. lia. }
  destruct Hbank as [Hb|Hb].
  - exists m_lo. split; [exact Hlow|]. split; [exact Hphys|]. split; [exact Hrt|].
    split; [apply (agree_covers _ _ Hag lorom_covers_lo)|]. split; [left; reflexivity|].
    split; [reflexivity|]. split; [exact Hwin|]. split; [exact Hb|]. split.
    + unfold spec_offset, lorom_offset, window_start. cbn [m_first m_mask m_lo]. rewrite Hlo15.
      rewrite (Z.mod_small (bank_of org) 128) by lia. lia.
    + split; [replace (bank_of org <? 128) with true by lia; reflexivity|].
      pose proof (Z.mod_pos_bound org 65536 ltac:(lia)) as Hr.
      unfold spec_offset, rsize, window_start. cbn [m_first m_last m_mask m_lo]. lia.
  - exists m_lo_mirror. split; [exact Hlow|]. split; [exact Hphys|]. split; [exact Hrt|].
    split; [apply (agree_covers _ _ Hag lorom_covers_mirror)|]. split; [left; reflexivity|].
    split; [reflexivity|]. split; [exact Hwin|]. split; [exact Hb|]. split.
    + unfold spec_offset, lorom_offset, window_start. cbn [m_first m_mask m_lo_mirror]. rewrite Hlo15.
      replace (bank_of org mod 128) with (bank_of org - 128) by (apply (Z.mod_unique _ _ 1); lia). lia.
    + split; [replace (bank_of org <? 128) with false by lia; reflexivity|].
      pose proof (Z.mod_pos_bound org 65536 ltac:(lia)) as Hr.
      unfold spec_offset, rsize, window_start. cbn [m_first m_last m_mask m_lo_mirror]. lia.
Qed.

Theorem insn_text_lorom t fs c fname sp0 eorg org mn sz os sh e i1 i2 v em bs rc0 :
  bus_agree_b (lv_low t) lorom = true -> low_rom_config t c ->
  prec_compatible (lv_prec t) = true ->
  (0 <= bank_of org <= 111 \/ 128 <= bank_of org <= 207) -> 32768 <= org mod 65536 ->
  dlex eorg -> wf eorg -> eval noenv eorg = Ok org ->
  insn_ok (lv_lex t) mn sz os sh e i1 i2 -> (sh <> ShImplied -> eval noenv e = Ok v) ->
  get_emitter (lv_optable t) (lower_ascii mn) (mode_of sh) (sh_index sh i1) = Ok em ->
  is_rel em = false ->
  emitter_emit em (evv (sh_vopt sh v)) (sh_size sh sz) rc0 = Ok bs ->
  lorom_offset org + Z.of_nat (length bs) < (if bank_of org <? 128 then 112 else 80) * 32768 ->
  exists o fin,
    assemble_source t fs c fname (insn_src sp0 eorg mn sz os sh e i1 i2) = AOk o fin /\
    o_blocks o = [(bs, lorom_offset org)] /\ o_labels o = [].
Proof.
  intros Hag Hcfg Hc Hbank Hwin Do Wo Eo Hok Ev Hem Hnr Hemit Hfit.
  destruct (lorom_range t c org Hag Hcfg Hbank Hwin)
    as (m & Hlow & Hphys & Hrt & Hcov & Hmask & Hrom & Hw & Hb & Eoff & Ers & _).
  rewrite <- Eoff in *. rewrite <- Ers in Hfit.
  exact (insn_text t fs c fname (lv_low t) m (Some 0) sp0 eorg org mn sz os sh e i1 i2 v em bs rc0
           Hlow Hphys Hrt Hc Hcov Hmask Hrom Hw Hb Do Wo Eo Hok Ev Hem Hnr Hemit Hfit).
Qed.

Theorem insn_text_lorom_rejected t fs c fname sp0 eorg org mn sz os sh e i1 i2 v k :
  bus_agree_b (lv_low t) lorom = true -> low_rom_config t c ->
  prec_compatible (lv_prec t) = true ->
  (0 <= bank_of org <= 111 \/ 128 <= bank_of org <= 207) -> 32768 <= org mod 65536 ->
  dlex eorg -> wf eorg -> eval noenv eorg = Ok org ->
  insn_ok (lv_lex t) mn sz os sh e i1 i2 -> (sh <> ShImplied -> eval noenv e = Ok v) ->
  get_emitter (lv_optable t) (lower_ascii mn) (mode_of sh) (sh_index sh i1) = Err k ->
  exists site, assemble_source t fs c fname (insn_src sp0 eorg mn sz os sh e i1 i2) = AExc k site.
Proof.
  intros Hag Hcfg Hc Hbank Hwin Do Wo Eo Hok Ev Hem.
  destruct (lorom_range t c org Hag Hcfg Hbank Hwin)
    as (m & Hlow & Hphys & Hrt & Hcov & Hmask & Hrom & Hw & Hb & Eoff & Ers & Hfit).
  exact (insn_text_rejected t fs c fname (lv_low t) m (Some 0) sp0 eorg org mn sz os sh e i1 i2 v k
           Hlow Hphys Hrt Hc Hcov Hmask Hrom Hw Hb Hfit Do Wo Eo Hok Ev Hem).
Qed.

(* ------------------------------------------------------------------------------------------ *)
(** * Explicit encodings (composition with C01_emit / C01_emit_noperand) *)

Definition rc_any : relctx := {| rc_bus := empty_bus; rc_pc := 0; rc_reloc := 0 |}.

(** an operand form under a plain table entry: opcode byte of the resolved width (the suffix, else the
    smallest width holding the value), then the little-endian truncated operand *)
Theorem insn_text_lorom_plain t fs c fname sp0 eorg org mn sz os sh e i1 i2 v defs b :
  bus_agree_b (lv_low t) lorom = true -> low_rom_config t c ->
  prec_compatible (lv_prec t) = true ->
  (0 <= bank_of org <= 111 \/ 128 <= bank_of org <= 207) -> 32768 <= org mod 65536 ->
  dlex eorg -> wf eorg -> eval noenv eorg = Ok org ->
  sh <> ShImplied -> insn_ok (lv_lex t) mn sz os sh e i1 i2 -> eval noenv e = Ok v ->
  get_emitter (lv_optable t) (lower_ascii mn) (mode_of sh) (sh_index sh i1) = Ok (EmPlain defs) ->
  let w := resolved_width (sfx_vsize sz) v in
  opcode_byte defs w = Some b -> byte_ok b = true -> fits w v = true ->
  lorom_offset org + 1 + Z.of_nat (vsize_n w) < (if bank_of org <? 128 then 112 else 80) * 32768 ->
  exists o fin,
    assemble_source t fs c fname (insn_src sp0 eorg mn sz os sh e i1 i2) = AOk o fin /\
    o_blocks o = [(b :: le_bytes (vsize_n w) (v mod 256 ^ Z.of_nat (vsize_n w)), lorom_offset org)] /\
    o_labels o = [].
Proof.
  intros Hag Hcfg Hc Hbank Hwin Do Wo Eo NI Hok Ev Hem w Hob Hby Hfits Hfit.
  apply (insn_text_lorom t fs c fname sp0 eorg org mn sz os sh e i1 i2 v (EmPlain defs) _ rc_any);
    try assumption.
  - intros _. exact Ev.
  - reflexivity.
  - replace (sh_vopt sh v) with (Some v) by (destruct sh; try congruence; reflexivity).
    replace (sh_size sh sz) with (sfx_vsize sz) by (destruct sh; try congruence; reflexivity).
    cbn [evv option_map]. rewrite emitter_emit_plain. cbv zeta. fold w. rewrite Hob, Hfits, Hby. reflexivity.
  - cbn [length]. rewrite le_bytes_length. lia.
Qed.

(** the operand-less form *)
Theorem insn_text_lorom_implied t fs c fname sp0 eorg org mn sz os e i1 i2 b :
  bus_agree_b (lv_low t) lorom = true -> low_rom_config t c ->
  prec_compatible (lv_prec t) = true ->
  (0 <= bank_of org <= 111 \/ 128 <= bank_of org <= 207) -> 32768 <= org mod 65536 ->
  dlex eorg -> wf eorg -> eval noenv eorg = Ok org ->
  insn_ok (lv_lex t) mn sz os ShImplied e i1 i2 ->
  get_emitter (lv_optable t) (lower_ascii mn) M_none None = Ok (EmNoOperand b) -> byte_ok b = true ->
  lorom_offset org + 1 < (if bank_of org <? 128 then 112 else 80) * 32768 ->
  exists o fin,
    assemble_source t fs c fname (insn_src sp0 eorg mn sz os ShImplied e i1 i2) = AOk o fin /\
    o_blocks o = [([b], lorom_offset org)] /\ o_labels o = [].
Proof.
  intros Hag Hcfg Hc Hbank Hwin Do Wo Eo Hok Hem Hby Hfit.
  apply (insn_text_lorom t fs c fname sp0 eorg org mn sz os ShImplied e i1 i2 0 (EmNoOperand b) [b] rc_any);
    try assumption.
  - intros X. congruence.
  - reflexivity.
  - apply emitter_emit_noperand. exact Hby.
Qed.

(* ------------------------------------------------------------------------------------------ *)
(** * Non-vacuity *)

Definition s_lda : str := [108; 100; 97].  Definition s_nop : str := [110; 111; 112].
Definition demo_optable : optable :=
  [ (s_lda, [ (M_immediate, Single (EmPlain [Some 169; Some 169]));
              (M_direct, Single (EmPlain [Some 165; Some 173; Some 175]));
              (M_direct_indexed, ByIndex [([120], EmPlain [Some 181; Some 189; Some 191]);
                                          ([121], EmPlain [None; Some 185; None])]);
              (M_indirect, Single (EmPlain [Some 178]));
              (M_indirect_indexed, ByIndex [([121], EmPlain [Some 177])]);
              (M_indirect_long, Single (EmPlain [Some 167]));
              (M_dp_or_sr_indirect_indexed, ByIndex [([120], EmPlain [Some 161])]);
              (M_stack_indexed_indirect_indexed, ByIndex [([121], EmPlain [Some 179])]) ]);
    (s_nop, [ (M_none, Single (EmNoOperand 234)) ]) ].
Definition demo_live2 : live :=
  {| lv_low := lorom; lv_high := hirom; lv_busmap := [(0, true); (1, true); (2, false)];
     lv_optable := demo_optable; lv_prec := reference_prec;
     lv_lex := mk_lexicon [s_lda; s_nop] [s_nop] [] |}.

Definition os0 : ospacing :=
  {| os_m := 1; os_o := 0; os_e := fun _ => 0%nat; os_1 := 0; os_c := 0; os_2 := 0; os_end := 0 |}.
Definition os1 : ospacing :=
  {| os_m := 2; os_o := 1; os_e := fun i => match i with 1 => 1 | _ => 0 end%nat;
     os_1 := 1; os_c := 1; os_2 := 2; os_end := 1 |}.
Definition org8000 : sexpr := Num (FHex 0 []) 32768.
Definition n16 : sexpr := Num (FHex 0 []) 16.
Definition sp00 : spacing := fun _ => 0%nat.
Definition run (src : str) : option (list wblock * list (str * Z)) + errk :=
  match assemble_source demo_live2 no_srcfiles demo_cfg [109] src with
  | AOk o _ => inl (Some (o_blocks o, o_labels o))
  | AExc k _ => inr k
  | _ => inl None
  end.

(** "LdA.W #0x10" / "lda  ( 0x10 ,X) " / "lda (0x10,S),y" / "lda  [ 0x10 ] ,  y " *)
Example demo_insn_texts :
  insn_src sp00 org8000 [76; 100; 65] (Some 87) os0 ShImm n16 0 0
    = [42;61;48;120;56;48;48;48;10; 76;100;65;46;87;32;35;48;120;49;48;10] /\
  insn_src sp00 org8000 s_lda None os1 ShInner n16 88 0
    = [42;61;48;120;56;48;48;48;10; 108;100;97;32;32;40;32;48;120;49;48;32;44;32;88;41;32;10] /\
  insn_src sp00 org8000 s_lda None os0 ShInnerOuter n16 83 121
    = [42;61;48;120;56;48;48;48;10; 108;100;97;32;40;48;120;49;48;44;83;41;44;121;10] /\
  insn_src sp00 org8000 s_lda None os1 ShLongIdx n16 121 0
    = [42;61;48;120;56;48;48;48;10; 108;100;97;32;32;91;32;48;120;49;48;32;93;32;44;32;32;121;32;10].
Proof. vm_compute. repeat split. Qed.

(** the model pipeline, computed, on every operand syntax (rows missing from the demo table: ENode) *)
Example demo_insn_computed :
  map run
    [ insn_src sp00 org8000 [76; 100; 65] (Some 87) os0 ShImm n16 0 0;      (* LdA.W #0x10 *)
      insn_src sp00 org8000 s_lda None os0 ShImm n16 0 0;                   (* lda #0x10 *)
      insn_src sp00 org8000 s_lda None os1 ShDirect (Num FDec 70000) 0 0;   (* lda  70000 *)
      insn_src sp00 org8000 s_lda None os1 ShDirectIdx n16 89 0;            (* lda  0x10, Y : no 1-byte form *)
      insn_src sp00 org8000 s_lda (Some 119) os1 ShDirectIdx n16 89 0;      (* lda.w  0x10, Y *)
      insn_src sp00 org8000 s_lda None os1 ShInd n16 0 0;                   (* lda  ( 0x10 ) *)
      insn_src sp00 org8000 s_lda None os1 ShIndIdx n16 121 0;              (* lda  ( 0x10 ), y *)
      insn_src sp00 org8000 s_lda None os1 ShLong n16 0 0;                  (* lda  [ 0x10 ] *)
      insn_src sp00 org8000 s_lda None os1 ShLongIdx n16 121 0;             (* lda  [ 0x10 ] ,  y : no row *)
      insn_src sp00 org8000 s_lda None os1 ShInner n16 88 0;                (* lda  ( 0x10 , X) *)
      insn_src sp00 org8000 s_lda None os0 ShInnerOuter n16 83 121;         (* lda (0x10,S),y *)
      insn_src sp00 org8000 s_nop None os1 ShImplied n16 0 0;               (* nop *)
      insn_src sp00 org8000 s_lda None os1 ShImm (Bin OOr (Un ONot (Num FDec 1)) (Num FDec 256)) 0 0 ]
                                                                            (* lda  # ~1 |256 *)
  = [ inl (Some ([([169; 16; 0], 0)], [])); inl (Some ([([169; 16], 0)], []));
      inl (Some ([([175; 112; 17; 1], 0)], [])); inr ENode; inl (Some ([([185; 16; 0], 0)], []));
      inl (Some ([([178; 16], 0)], [])); inl (Some ([([177; 16], 0)], []));
      inl (Some ([([167; 16], 0)], [])); inr ENode;
      inl (Some ([([161; 16], 0)], [])); inl (Some ([([179; 16], 0)], []));
      inl (Some ([([234], 0)], [])); inl (Some ([([169; 254; 1], 0)], [])) ].
Proof. vm_compute. reflexivity. Qed.

Lemma demo_agree : bus_agree_b (lv_low demo_live2) lorom = true. Proof. vm_compute. reflexivity. Qed.

(** obtained from the theorems: "lda  ( 0x10 , X) " assembles to A1 10; "lda  [ 0x10 ] ,  y " is rejected *)
Example demo_insn_proved : exists o fin,
  assemble_source demo_live2 no_srcfiles demo_cfg [109] (insn_src sp00 org8000 s_lda None os1 ShInner n16 88 0)
    = AOk o fin /\ o_blocks o = [([161; 16], 0)] /\ o_labels o = [].
Proof.
  destruct (insn_text_lorom_plain demo_live2 no_srcfiles demo_cfg [109] sp00 org8000 32768 s_lda None os1 ShInner
              n16 88 0 16 [Some 161] 161) as (o & fin & E & B & L).
  - exact demo_agree.
  - split; [reflexivity|exact I].
  - reflexivity.
  - left. vm_compute. split; discriminate.
  - vm_compute. discriminate.
  - exact I.
  - exact I.
  - reflexivity.
  - discriminate.
  - unfold insn_ok. split; [exists 108, 100, 97; repeat split|].
    split; [split; [cbn; lia|reflexivity]|]. split; [reflexivity|]. split; [exact I|].
    split; [discriminate|]. split; exact I.
  - reflexivity.
  - reflexivity.
  - reflexivity.
  - reflexivity.
  - reflexivity.
  - vm_compute. reflexivity.
  - exists o, fin. split; [exact E|]. split; [rewrite B; reflexivity|exact L].
Qed.

Example demo_insn_rejected : exists site,
  assemble_source demo_live2 no_srcfiles demo_cfg [109] (insn_src sp00 org8000 s_lda None os1 ShLongIdx n16 121 0)
    = AExc ENode site.
Proof.
  apply (insn_text_lorom_rejected demo_live2 no_srcfiles demo_cfg [109] sp00 org8000 32768 s_lda None os1
           ShLongIdx n16 121 0 16 ENode).
  - exact demo_agree.
  - split; [reflexivity|exact I].
  - reflexivity.
  - left. vm_compute. split; discriminate.
  - vm_compute. discriminate.
  - exact I.
  - exact I.
  - reflexivity.
  - unfold insn_ok. split; [exists 108, 100, 97; repeat split|].
    split; [split; [cbn; lia|reflexivity]|]. split; [reflexivity|]. split; [exact I|].
    split; [discriminate|]. split; exact I.
  - reflexivity.
  - reflexivity.
Qed.

Print Assumptions insn_text_lorom.
Print Assumptions insn_text_lorom_rejected.
Print Assumptions insn_text_lorom_plain.
Print Assumptions insn_text_lorom_implied.
Print Assumptions demo_insn_proved.
Print Assumptions demo_insn_rejected.
