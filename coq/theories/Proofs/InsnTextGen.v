(** C01 at the level of source TEXT, part 3 (code generation and the passes): the program
    [AStarEq origin; AOpcode mode mnemonic size operand index] is generated into CodePositionNode +
    OpcodeNode; when the opcode table has an (non-relative) emitter for (lower-case mnemonic, mode,
    index) and that emitter encodes the operand value, the writer receives ONE block -- the
    emitter's bytes at the file offset of the origin -- and there are no labels; when the table has
    no emitter the assembly stops with the exception of OpcodeNode._get_emitter.

    Relative branches (RelativeJumpOpcode: bcc bcs beq bmi bne bpl bra ...) are left out: their
    operand is a destination address and the encoding depends on the position. *)
From Coq Require Import ZArith List Bool Lia ZifyBool.
From A816 Require Import Spec.BusLaws Model.Assemble Proofs.BusProofs Proofs.NodeProofs
  Proofs.OpcodeProofs Proofs.DataTextGen.
Import ListNotations.
Open Scope Z_scope.

Definition is_rel (e : emitter) : bool := match e with EmRel _ => true | _ => false end.

(** a non-relative emitter ignores the branch context *)
Lemma emitter_emit_rc e ev size rc rc' : is_rel e = false ->
  emitter_emit e ev size rc = emitter_emit e ev size rc'.
Proof. destruct e; [reflexivity|discriminate|reflexivity]. Qed.

(** the operand as the emitters see it: absent, or an integer *)
Definition evv (vopt : option Z) : option (res Z) := option_map Ok vopt.

Lemma emit_len e vopt size rc bs : is_rel e = false -> emitter_emit e (evv vopt) size rc = Ok bs ->
  emitter_length e (evv vopt) size = Ok (Z.of_nat (length bs)) /\ 1 <= Z.of_nat (length bs).
Proof.
  intros Hr H. destruct vopt as [v|]; cbn [evv option_map] in *.
  - pose proof (emit_length_agree e v size rc bs H) as L. split; [exact L|].
    destruct e as [b|b|defs]; [|discriminate|].
    + unfold emitter_length in L. injection L as L. lia.
    + rewrite emitter_length_plain in L. injection L as L. lia.
  - destruct e as [b|b|defs]; [|discriminate|discriminate H].
    cbn [emitter_emit emitter_length] in *. unfold pack_B in H. destruct (byte_ok b); [|discriminate].
    injection H as <-. split; [reflexivity|cbn; lia].
Qed.

Section Insn.
  Variable w : world.
  Variable low : bus.
  Variable m : mapping.
  Hypothesis Hcov : covers low m.
  Hypothesis Hmask : mask_ok m.
  Hypothesis Hrom : m_writable m = false.
  Variable ri : rstate.
  Hypothesis Hri_bus : r_bus ri = empty_bus.
  Hypothesis Hri_cur : r_cur ri = 0%nat.
  Hypothesis Hget : w_builtin w (r_rom ri) = Ok low.
  Hypothesis Hri_reloc : r_reloc ri = at_ low 0.
  Variable xo : expr.
  Variable fi : token.
  Variable org : Z.
  Hypothesis Horg_w : in_window m org.
  Hypothesis Horg_b : m_first m <= bank_of org <= m_last m.
  Hypothesis Hxo : eval_raw w ri xo = Ok org.
  Local Notation p0 := (spec_offset m org).

  (** the OpcodeNode *)
  Variable mnl : str.
  Variable mode : amode.
  Variable idx : option str.
  Variable operand : option expr.
  Variable size : option vsize.
  Variable fi' : token.
  Variable vopt : option Z.
  Hypothesis Hop : match operand, vopt with
                   | Some x, Some v => eval_raw w ri x = Ok v
                   | None, None => True
                   | _, _ => False
                   end.
  Local Notation n := (NOpcode mnl mode idx operand size fi').

  Lemma operand_value_inv r : Inv ri r -> operand_value w r operand = evv vopt.
  Proof.
    intros I. unfold operand_value. destruct operand as [x|], vopt as [v|]; try contradiction; [|reflexivity].
    cbn [evv option_map]. rewrite (get_value_inv w ri Hri_cur r x v I Hop). reflexivity.
  Qed.

  Lemma codepos_pc_after r a : Inv ri r -> 0 <= p0 < rsize m ->
    pc_after w r (NCodePos xo fi) a = Ok (r, at_ low org).
  Proof.
    intros I Hp. cbn [pc_after]. rewrite (get_value_inv w ri Hri_cur r xo org I Hxo).
    rewrite (get_bus_inv w low ri Hget r I). cbn [bind].
    rewrite (mk_org low m Hcov Hmask org Horg_w Hp). reflexivity.
  Qed.

  (** ** the table has no emitter: rejected in the label pass *)
  Lemma assemble_nodes_no_emitter k : 0 <= p0 < rsize m ->
    get_emitter (w_optable w) mnl mode idx = Err k ->
    assemble_nodes w ri [NCodePos xo fi; n] = Err k.
  Proof.
    intros Hp He. unfold assemble_nodes, resolve_labels.
    set (r0 := set_cur_last ri (r_cur ri) 0).
    assert (I0 : Inv ri r0) by (apply Inv_cur_last, Inv_ri; assumption).
    cbn [label_pass is_symbol_node]. rewrite (codepos_pc_after r0 _ I0 Hp). cbn [bind fst snd].
    cbn [pc_after]. unfold opcode_length, opnode_length. rewrite He. reflexivity.
  Qed.

  (** ** the table has an emitter and it encodes the operand *)
  Variable em : emitter.
  Variable bs : bytes.
  Variable rc0 : relctx.
  Hypothesis Hem : get_emitter (w_optable w) mnl mode idx = Ok em.
  Hypothesis Hnr : is_rel em = false.
  Hypothesis Hemit : emitter_emit em (evv vopt) size rc0 = Ok bs.
  Local Notation len := (Z.of_nat (length bs)).

  Lemma opcode_pc_after r p : Inv ri r -> 0 <= p < rsize m -> 0 <= p + len < rsize m ->
    pc_after w r n (at_ low (A m p)) = Ok (r, at_ low (A m (p + len))).
  Proof.
    intros I Hp Hn. cbn [pc_after]. unfold opcode_length, opnode_length.
    rewrite Hem, (operand_value_inv r I). cbn [bind].
    destruct (emit_len em vopt size rc0 bs Hnr Hemit) as [L _]. rewrite L. cbn [bind].
    rewrite (adv low m Hcov Hmask Hrom p len Hp Hn). reflexivity.
  Qed.

  Lemma opcode_node_emit r : Inv ri r -> node_emit w r n = Ok (r, bs).
  Proof.
    intros I. cbn [node_emit]. unfold opcode_emit. rewrite Hem, (operand_value_inv r I). cbn [bind].
    destruct em as [b|b|defs]; [|discriminate Hnr|].
    - rewrite (emitter_emit_rc (EmNoOperand b) _ _ _ rc0 eq_refl), Hemit. reflexivity.
    - rewrite (emitter_emit_rc (EmPlain defs) _ _ _ rc0 eq_refl), Hemit. reflexivity.
  Qed.

  Lemma assemble_nodes_insn : p0 + len < rsize m ->
    exists o, assemble_nodes w ri [NCodePos xo fi; n] = Ok o /\
              o_blocks o = [(bs, p0)] /\
              o_labels o = get_all_labels (o_final o) /\
              r_scopes (o_final o) = r_scopes ri.
  Proof.
    intros Hfit. pose proof (p0_nonneg m Hmask ri Hri_cur org Horg_w Horg_b) as Hp0.
    destruct (emit_len em vopt size rc0 bs Hnr Hemit) as [_ Hlen].
    assert (Hp0r : 0 <= p0 < rsize m) by lia.
    assert (Hp1r : 0 <= p0 + len < rsize m) by lia.
    pose proof (at_org low m Hmask org Horg_w) as Eorg.
    unfold assemble_nodes, resolve_labels.
    set (r0 := set_cur_last ri (r_cur ri) 0).
    assert (I0 : Inv ri r0) by (apply Inv_cur_last, Inv_ri; assumption).
    (* label pass *)
    assert (Hre0 : r_reloc r0 = at_ low 0) by exact Hri_reloc. rewrite Hre0.
    cbn [label_pass is_symbol_node]. rewrite (codepos_pc_after r0 _ I0 Hp0r). cbn [bind fst snd].
    rewrite Eorg. rewrite (opcode_pc_after r0 p0 I0 Hp0r Hp1r). cbn [bind fst snd app].
    (* symbol pass *)
    set (r2 := resolver_reset r0).
    assert (I2 : Inv ri r2) by (apply Inv_reset, I0).
    cbn [symbol_pass is_label_or_binary]. rewrite (codepos_pc_after r2 _ I2 Hp0r). cbn [bind fst snd].
    rewrite Eorg. rewrite (opcode_pc_after r2 p0 I2 Hp0r Hp1r). cbn [bind fst snd].
    (* emission *)
    set (r3 := resolver_reset r2).
    assert (I3 : Inv ri r3) by (apply Inv_reset, I2).
    assert (Hre3 : r_reloc r3 = at_ low 0) by exact Hri_reloc.
    unfold emit. cbn [emit_loop].
    unfold emit_step at 1. cbn [e_r e_block e_baddr e_out]. rewrite Hre3. cbn [at_ a_val].
    change (0 =? 0) with true. cbn [negb node_emit at_ a_val]. change (0 =? 0) with true. cbn [negb].
    rewrite (get_value_inv w ri Hri_cur r3 xo org I3 Hxo). cbn [bind]. unfold set_position.
    rewrite (get_bus_inv w low ri Hget r3 I3). cbn [bind].
    rewrite (mk_org low m Hcov Hmask org Horg_w Hp0r). cbn [bind].
    rewrite (phys_org low m Hcov Hmask Hrom org Horg_w Hp0r). cbn [bind app is_codepos].
    set (r4 := set_reloc (set_pc r3 p0) (at_ low org)).
    assert (I4 : Inv ri r4) by exact I3.
    unfold emit_step at 1. cbn [e_r e_block e_baddr e_out].
    change (r_reloc r4) with (at_ low org). cbn [at_ a_val].
    replace (org =? A m p0) with true
      by (symmetry; rewrite (A_p0 m Hmask org Horg_w); apply Z.eqb_refl).
    cbn [negb].
    rewrite (opcode_node_emit r4 I4). cbn [bind].
    assert (Enz : forall (T : Type) (X Y : T), match bs with [] => X | _ :: _ => Y end = Y).
    { intros T X Y. revert Hlen. generalize bs. intros [|? ?] Hl; [cbn [length] in Hl; lia|reflexivity]. }
    rewrite Enz. change (r_reloc r4) with (at_ low org). rewrite Eorg.
    rewrite (adv low m Hcov Hmask Hrom p0 len Hp0r Hp1r). cbn [bind is_codepos app].
    cbn [emit_loop e_r r_reloc set_reloc at_ a_val]. rewrite Z.eqb_refl. cbn [negb bind e_r e_block e_baddr e_out].
    eexists. split; [reflexivity|]. cbn [o_blocks o_labels o_final fst snd].
    split.
    { assert (X : forall (l : bytes) (q : Z), 1 <= Z.of_nat (length l) ->
                match l with [] => [] | z :: t => [] ++ [(z :: t, q)] end = [(l, q)])
        by (intros [|? ?] q Hl; [cbn [length] in Hl; lia|reflexivity]).
      apply X. exact Hlen. }
    split; [reflexivity|]. destruct I4 as (_ & _ & H & _). exact H.
  Qed.
End Insn.

(* ------------------------------------------------------------------------------------------ *)
(** * Code generation, assemble_program *)

(** the OpcodeNode generate_opcode builds (the operand-less mode drops size and index; an index on a
    non-indexed mode is dropped) *)
Definition nd_index (mode : amode) (index : option str) : option str :=
  match mode with M_none => None | _ => if indexed_mode mode then index else None end.
Definition nd_operand (mode : amode) (operand : option expr) : option expr :=
  match mode with M_none => None | _ => operand end.
Definition nd_size (mode : amode) (size : option vsize) : option vsize :=
  match mode with M_none => None | _ => size end.

Lemma code_gen_insn w s xo fi mode opcode size operand index fi' :
  (mode <> M_none -> operand <> None) ->
  code_gen_fuel w cg_depth s [AStarEq xo fi; AOpcode mode opcode size operand index fi']
  = Ok (s, [NCodePos xo fi;
            NOpcode (lower_ascii opcode) mode (nd_index mode index) (nd_operand mode operand)
                    (nd_size mode size) fi']).
Proof.
  intros Hop. rewrite cg_depth_S, code_gen_S. generalize (code_gen_fuel w 299). intros gen.
  cbn [gen_list gen_one bind fst snd app cg_r].
  destruct mode; cbn [nd_index nd_operand nd_size bind fst snd app]; try reflexivity;
    (destruct operand as [x|]; [reflexivity|exfalso; apply Hop; [discriminate|reflexivity]]).
Qed.

(** operand and value agree: no operand and no value, or an expression that evaluates to the value *)
Definition operand_val (w : world) (ri : rstate) (operand : option expr) (vopt : option Z) : Prop :=
  match operand, vopt with
  | Some x, Some v => eval_raw w ri x = Ok v
  | None, None => True
  | _, _ => False
  end.

(** I3, accepted *)
Theorem assemble_program_insn w c low m ri xo fi org mode opcode size operand index fi' vopt em bs rc0 :
  covers low m -> mask_ok m -> m_writable m = false ->
  in_window m org -> m_first m <= bank_of org <= m_last m ->
  initial_resolver w c = Ok ri -> start_ok w low ri ->
  eval_raw w ri xo = Ok org ->
  (mode <> M_none -> operand <> None) ->
  operand_val w ri (nd_operand mode operand) vopt ->
  get_emitter (w_optable w) (lower_ascii opcode) mode (nd_index mode index) = Ok em ->
  is_rel em = false ->
  emitter_emit em (evv vopt) (nd_size mode size) rc0 = Ok bs ->
  spec_offset m org + Z.of_nat (length bs) < rsize m ->
  exists o, assemble_program w c [AStarEq xo fi; AOpcode mode opcode size operand index fi'] = AOk o (o_final o) /\
            o_blocks o = [(bs, spec_offset m org)] /\ o_labels o = [].
Proof.
  intros Hcov Hmask Hrom Hw Hb Hinit (S1 & S2 & S3 & S4 & S5) Hxo Hop Hval Hem Hnr Hemit Hfit.
  destruct (assemble_nodes_insn w low m Hcov Hmask Hrom ri S1 S2 S4 S3 xo fi org Hw Hb Hxo
              (lower_ascii opcode) mode (nd_index mode index) (nd_operand mode operand) (nd_size mode size) fi'
              vopt Hval em bs rc0 Hem Hnr Hemit Hfit) as (o & E & B & L & Sc).
  exists o. split; [|split; [exact B|]].
  - unfold assemble_program. rewrite Hinit, (code_gen_insn _ _ _ _ _ _ _ _ _ _ Hop). cbn [cg_r].
    rewrite E. reflexivity.
  - rewrite L. unfold get_all_labels in *. rewrite Sc. exact S5.
Qed.

(** I3, rejected: no emitter for (mnemonic, mode, index) *)
Theorem assemble_program_insn_rejected w c low m ri xo fi org mode opcode size operand index fi' k :
  covers low m -> mask_ok m -> m_writable m = false ->
  in_window m org -> m_first m <= bank_of org <= m_last m ->
  initial_resolver w c = Ok ri -> start_ok w low ri ->
  eval_raw w ri xo = Ok org ->
  (mode <> M_none -> operand <> None) ->
  spec_offset m org < rsize m ->
  get_emitter (w_optable w) (lower_ascii opcode) mode (nd_index mode index) = Err k ->
  exists site, assemble_program w c [AStarEq xo fi; AOpcode mode opcode size operand index fi'] = AExc k site.
Proof.
  intros Hcov Hmask Hrom Hw Hb Hinit (S1 & S2 & S3 & S4 & S5) Hxo Hop Hfit Hem.
  pose proof (p0_nonneg m Hmask ri S2 org Hw Hb) as Hp0.
  pose proof (assemble_nodes_no_emitter w low m Hcov Hmask ri S1 S2 S4 xo fi org Hw Hxo
                (lower_ascii opcode) mode (nd_index mode index) (nd_operand mode operand) (nd_size mode size) fi'
                k ltac:(lia) Hem) as E.
  unfold assemble_program. rewrite Hinit, (code_gen_insn _ _ _ _ _ _ _ _ _ _ Hop). cbn [cg_r].
  rewrite E. eexists. reflexivity.
Qed.

Print Assumptions assemble_program_insn.
Print Assumptions assemble_program_insn_rejected.
