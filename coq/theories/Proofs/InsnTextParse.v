(** C01 at the level of source TEXT, part 2: the instruction line for each operand syntax
    ([shape] of Proofs/ParserShapeTokens.v), its tokens (I1, from the generic scanner theorem of
    Proofs/InsnTextScan.v), and the parser: operand syntax -> (addressing mode, index) (I2,
    [operand_syntax_mode], from C01_shape_tokens + the expression lemma of Proofs/ExprLexParse.v). *)
From Coq Require Import ZArith NArith List Bool Lia Arith.
From A816 Require Import Spec.ExprSem Model.Scanner Model.Parser Proofs.ParserProofs
  Proofs.ParserShapeProofs Proofs.ParserShapeTokens
  Proofs.ExprLex Proofs.ExprLexParse Proofs.DataTextScan Proofs.DataTextParse Proofs.InsnTextScan.
Import ListNotations.
Open Scope Z_scope.

(* ------------------------------------------------------------------------------------------ *)
(** * The instruction line, per operand syntax *)

(** numbers of spaces: after the mnemonic (or the size suffix), after the opening '#' '(' '[',
    inside / around the expression ([os_e]: before token i; [os_e (size e)] = after the expression,
    [os_e (S (size e))] = after a ')' that directly follows the expression), after the first comma,
    between ')' / ']' and the second comma, after the second comma, at the end of the line *)
Record ospacing := { os_m : nat; os_o : nat; os_e : spacing; os_1 : nat; os_c : nat; os_2 : nat; os_end : nat }.

Definition operand_text (sh : shape) (os : ospacing) (e : sexpr) (i1 i2 : Z) : str :=
  let sp := os_e os in
  match sh with
  | ShImplied => spaces (os_end os)
  | ShImm => 35 :: spaces (os_o os) ++ text_of sp e
  | ShDirect => text_of sp e
  | ShDirectIdx => text_of sp e ++ 44 :: spaces (os_1 os) ++ i1 :: spaces (os_end os)
  | ShInd => 40 :: spaces (os_o os) ++ text_of sp e ++ 41 :: spaces (sp (S (size e)))
  | ShIndIdx => 40 :: spaces (os_o os) ++ text_of sp e ++ 41 :: spaces (sp (S (size e))) ++
                44 :: spaces (os_1 os) ++ i1 :: spaces (os_end os)
  | ShLong => 91 :: spaces (os_o os) ++ text_of sp e ++ 93 :: spaces (os_end os)
  | ShLongIdx => 91 :: spaces (os_o os) ++ text_of sp e ++ 93 :: spaces (os_c os) ++
                 44 :: spaces (os_2 os) ++ i1 :: spaces (os_end os)
  | ShInner => 40 :: spaces (os_o os) ++ text_of sp e ++ 44 :: spaces (os_1 os) ++ i1 :: 41 :: spaces (os_end os)
  | ShInnerOuter => 40 :: spaces (os_o os) ++ text_of sp e ++ 44 :: spaces (os_1 os) ++ i1 :: 41 ::
                    spaces (os_c os) ++ 44 :: spaces (os_2 os) ++ i2 :: spaces (os_end os)
  end.

(** mnemonic [. suffix] blanks operand newline   (the operand-less form has no suffix) *)
Definition insn_line (mn : str) (sz : option Z) (os : ospacing) (sh : shape) (e : sexpr) (i1 i2 : Z) : str :=
  mn ++ match sh with ShImplied => [] | _ => sfx_text sz ++ spaces (os_m os) end ++
  operand_text sh os e i1 i2 ++ [10].
Definition insn_src (sp0 : spacing) (eorg : sexpr) (mn : str) (sz : option Z) (os : ospacing) (sh : shape)
           (e : sexpr) (i1 i2 : Z) : str :=
  org_src sp0 eorg (insn_line mn sz os sh e i1 i2).

Definition ix_tk (c : Z) : tk := (T_ADDRESSING_MODE_INDEX, [c]).
Definition opening_tk (sh : shape) : list tk :=
  match sh with
  | ShImm => [(T_SHARP, [35])]
  | ShInd | ShIndIdx | ShInner | ShInnerOuter => [(T_LPAREN, [40])]
  | ShLong | ShLongIdx => [(T_LBRAKET, [91])]
  | _ => []
  end.
Definition closing_tk (sh : shape) (i1 i2 : Z) : list tk :=
  match sh with
  | ShDirectIdx => [ix_tk i1]
  | ShInd => [(T_RPAREN, [41])]
  | ShIndIdx => [(T_RPAREN, [41]); ix_tk i1]
  | ShLong => [(T_RBRAKET, [93])]
  | ShLongIdx => [(T_RBRAKET, [93]); ix_tk i1]
  | ShInner => [ix_tk i1; (T_RPAREN, [41])]
  | ShInnerOuter => [ix_tk i1; (T_RPAREN, [41]); ix_tk i2]
  | _ => []
  end.
Definition stmt_tk (mn : str) (sz : option Z) (sh : shape) (e : sexpr) (i1 i2 : Z) : list tk :=
  match sh with
  | ShImplied => [(T_OPCODE_NAKED, mn)]
  | _ => (T_OPCODE, mn) :: sfx_tok sz ++ opening_tk sh ++ toks_of e ++ closing_tk sh i1 i2
  end.
Definition insn_toks (eorg : sexpr) (mn : str) (sz : option Z) (sh : shape) (e : sexpr) (i1 i2 : Z) : list tk :=
  (T_STAR_EQ, [42; 61]) :: toks_of eorg ++ stmt_tk mn sz sh e i1 i2.

(** the parameters of the generic scanner theorem *)
Definition sh_open (sh : shape) : opening :=
  match sh with
  | ShImm => OSharp | ShInd | ShIndIdx | ShInner | ShInnerOuter => OParen | ShLong | ShLongIdx => OBracket
  | _ => ONo
  end.
Definition sh_ko (sh : shape) (os : ospacing) : nat :=
  match sh with ShDirect | ShDirectIdx | ShImplied => O | _ => os_o os end.
Definition sh_L (sh : shape) (e : sexpr) : list tk :=
  match sh with ShInd | ShIndIdx => toks_of e ++ [(T_RPAREN, [41])] | _ => toks_of e end.
Definition sh_c1 (sh : shape) (os : ospacing) (i1 : Z) : option (nat * Z) :=
  match sh with ShDirectIdx | ShIndIdx | ShInner | ShInnerOuter => Some (os_1 os, i1) | _ => None end.
Definition sh_cl (sh : shape) : closing :=
  match sh with ShLong | ShLongIdx => CBracket | ShInner | ShInnerOuter => CParen | _ => CNo end.
Definition sh_c2 (sh : shape) (os : ospacing) (i1 i2 : Z) : option (nat * Z) :=
  match sh with ShLongIdx => Some (os_2 os, i1) | ShInnerOuter => Some (os_2 os, i2) | _ => None end.
Definition sh_ke (sh : shape) (os : ospacing) : nat :=
  match sh with ShImm | ShDirect | ShInd => O | _ => os_end os end.

Lemma join_snoc sp t : forall l i,
  join sp i (l ++ [t]) = join sp i l ++ snd t ++ spaces (sp (S (i + length l))).
Proof.
  induction l as [|x l IH]; intros i; cbn [app join length].
  - rewrite Nat.add_0_r. reflexivity.
  - rewrite IH, <- !app_assoc. replace (S i + length l)%nat with (i + S (length l))%nat by lia. reflexivity.
Qed.

Lemma insn_line_gen mn sz os sh e i1 i2 : sh <> ShImplied ->
  insn_line mn sz os sh e i1 i2
  = insn_gen_line mn sz (os_m os) (sh_open sh) (sh_ko sh os) (os_e os) (sh_L sh e) (sh_c1 sh os i1)
                  (sh_cl sh) (os_c os) (sh_c2 sh os i1 i2) (sh_ke sh os).
Proof.
  intros NI. unfold insn_line, insn_gen_line, gen_text, operand_text.
  destruct sh; try congruence;
    cbn [sh_open sh_ko sh_L sh_c1 sh_cl sh_c2 sh_ke open_text ixpart after_close close_text];
    rewrite ?text_of_join, ?join_snoc, ?toks_of_length; cbn [snd Nat.add spaces repeat_z app];
    repeat (rewrite <- ?app_assoc; cbn [app]); reflexivity.
Qed.

Lemma stmt_tk_gen mn sz os sh e i1 i2 : sh <> ShImplied ->
  stmt_tk mn sz sh e i1 i2
  = (T_OPCODE, mn) :: sfx_tok sz ++ gen_toks (sh_open sh) (sh_L sh e) (sh_c1 sh os i1) (sh_cl sh) (sh_c2 sh os i1 i2).
Proof.
  intros NI. unfold stmt_tk, gen_toks.
  destruct sh; try congruence;
    cbn [sh_open sh_L sh_c1 sh_cl sh_c2 open_tok ixtok close_tok opening_tk closing_tk ix_tk app];
    repeat (rewrite <- ?app_assoc; cbn [app]); rewrite ?app_nil_r; reflexivity.
Qed.

(** side conditions per syntax *)
Definition mn3_ok (lx : lexicon) (mn : str) : Prop :=
  exists c0 c1 c2, mn = [c0; c1; c2] /\ mem_z c0 ident_start = true /\
                   mem_str (map Scanner.lower mn) (lx_mnemonics lx) = true.
Definition is_ix (c : Z) : Prop := mem_z c index_chars = true.
Definition shape_ix_ok (sh : shape) (i1 i2 : Z) : Prop :=
  match sh with
  | ShDirectIdx | ShIndIdx | ShLongIdx | ShInner => is_ix i1
  | ShInnerOuter => is_ix i1 /\ is_ix i2
  | _ => True
  end.
Definition shape_head_ok (sh : shape) (e : sexpr) : Prop :=
  match sh with ShDirect | ShDirectIdx => head_not_lparen (toks_of e) | _ => True end.
Definition suffix_ok (lx : lexicon) (mn : str) (sz : option Z) (os : ospacing) (sh : shape) : Prop :=
  match sh with
  | ShImplied => mem_str (map Scanner.lower mn) (lx_naked lx) = true
  | _ => match sz with
         | Some c => mem_z c size_chars = true
         | None => (1 <= os_m os)%nat /\ mem_str (map Scanner.lower mn) (lx_naked lx) = false
         end
  end.

Lemma shape_eq_dec (a b : shape) : {a = b} + {a <> b}.
Proof. decide equality. Qed.

(** I1 *)
Theorem scan_insn lx file sp0 eorg mn sz os sh e i1 i2 :
  dlex eorg -> lexable e -> mn3_ok lx mn -> suffix_ok lx mn sz os sh ->
  shape_ix_ok sh i1 i2 -> shape_head_ok sh e ->
  exists toks eof lines,
    scan lx file (insn_src sp0 eorg mn sz os sh e i1 i2) = ScanOk (toks ++ [eof]) lines /\
    map tv toks = insn_toks eorg mn sz sh e i1 i2 /\ tv eof = (T_EOF, []).
Proof.
  intros Do Le (c0 & c1 & c2 & Em & M0 & Mm) Hsz Hix Hhd. unfold insn_src, insn_toks.
  destruct (shape_eq_dec sh ShImplied) as [->|NI].
  - unfold insn_line, stmt_tk, operand_text. cbn [app].
    apply scan_insn_naked; [exact Do| |exact Hsz].
    exists c0, c1, c2. split; [exact Em|]. split; [exact M0|]. split; [exact Mm|].
    destruct (os_end os); reflexivity.
  - rewrite (insn_line_gen mn sz os sh e i1 i2 NI), (stmt_tk_gen mn sz os sh e i1 i2 NI).
    apply scan_insn_gen; try assumption.
    + exists c0, c1, c2. split; [exact Em|]. split; [exact M0|]. split; [exact Mm|].
      destruct sz as [c|]; cbn [sfx_text app hd]; [reflexivity|].
      destruct sh; try congruence; cbn [suffix_ok] in Hsz; destruct Hsz as [Hk _];
        (destruct (os_m os); [lia|reflexivity]).
    + destruct sh; try congruence; exact Hsz.
    + pose proof (seq_toks e Le) as Sq.
      destruct sh; cbn [sh_L]; try (specialize (Sq [] I); rewrite app_nil_r in Sq; exact Sq);
        apply Sq; cbn [seq_ok]; exact (conj ok_rp (conj (fun _ => eq_refl) I)).
    + assert (toks_of e <> []) by (destruct e; cbn [toks_of]; try discriminate;
                                     destruct (toks_of e1); discriminate).
      destruct sh; cbn [sh_L]; try assumption; destruct (toks_of e); discriminate.
    + intros Ho. destruct sh; try discriminate Ho; cbn [sh_ko sh_L]; (split; [reflexivity|exact Hhd]) || congruence.
    + destruct sh; cbn [sh_c1 ix_ok shape_ix_ok] in *; try exact I; try exact Hix; destruct Hix; assumption.
    + destruct sh; cbn [sh_c2 ix_ok shape_ix_ok] in *; try exact I; try exact Hix; destruct Hix; assumption.
    + destruct sh; try congruence; cbn [sh_cl sh_c1]; discriminate.
    + destruct sh; try congruence; cbn [sh_cl sh_c1 sh_ke]; try discriminate; reflexivity.
Qed.

(* ------------------------------------------------------------------------------------------ *)
(** * I2: operand syntax -> addressing mode and index *)

(** the type of the token after the operand expression is never OPERATOR *)
Lemma after_E_not_operator pu sh eof : punct_ok pu -> t_type eof = T_EOF ->
  is_ty (hd eof_token (ParserShapeTokens.closing pu sh ++ [eof])) T_OPERATOR = false.
Proof.
  intros (P1 & P2 & P3 & P4 & P5 & P6 & _ & P8 & _) He. unfold is_ty.
  destruct sh; cbn [ParserShapeTokens.closing app hd]; rewrite ?He, ?P3, ?P5, ?P6; reflexivity.
Qed.

Lemma shape_parse sub f pre o szt pu sh l eof :
  punct_ok pu ->
  match szt with Some s => t_type s = T_OPCODE_SIZE | None => True end ->
  t_type o = match sh with ShImplied => T_OPCODE_NAKED | _ => T_OPCODE end ->
  t_type eof = T_EOF -> PE l ->
  match sh with ShDirect | ShDirectIdx => t_type (hd eof_token (map en_tok l)) <> T_LPAREN | _ => True end ->
  match sh with
  | ShInnerOuter => lower (t_value (pu_i1 pu)) = k_s /\ lower (t_value (pu_i2 pu)) = k_y
  | _ => True
  end ->
  (length l < f)%nat ->
  pdecl (ts_of pre [eof] (map en_tok l) o szt pu sh) sub (S f) (length pre) =
  POk (Some (AOpcode (mode_of sh) (t_value o) (vsize_of szt)
               (match sh with ShImplied => None | _ => Some l end) (index_of pu sh) o),
       (length pre + length (stmt_tokens o szt pu sh (map en_tok l)))%nat).
Proof.
  intros Hpu Hsz Ho He P Hdir Hio HF.
  set (ts := ts_of pre [eof] (map en_tok l) o szt pu sh).
  set (qE := qE_of pre szt pu sh).
  assert (HE : sh <> ShImplied -> pexpression ts f qE = POk (l, (qE + length (map en_tok l))%nat)).
  { intros NI. rewrite map_length. apply pexpression_PE; [exact P| | |exact HF].
    - assert (Ets : ts = (pre ++ o :: size_tokens szt ++ ParserShapeTokens.opening pu sh) ++ map en_tok l ++ (ParserShapeTokens.closing pu sh ++ [eof])).
      { unfold ts, ts_of, stmt_tokens, shape_tokens. destruct sh; try congruence;
          cbn [app]; repeat (rewrite <- ?app_assoc; cbn [app]); reflexivity. }
      rewrite Ets. replace qE with (length (pre ++ o :: size_tokens szt ++ ParserShapeTokens.opening pu sh)).
      + apply seg_mid.
      + unfold qE, qE_of. rewrite !app_length. cbn [length]. rewrite app_length. lia.
    - assert (Ets : ts = (pre ++ o :: size_tokens szt ++ ParserShapeTokens.opening pu sh ++ map en_tok l) ++ (ParserShapeTokens.closing pu sh ++ [eof])).
      { unfold ts, ts_of, stmt_tokens, shape_tokens. destruct sh; try congruence;
          cbn [app]; repeat (rewrite <- ?app_assoc; cbn [app]); reflexivity. }
      rewrite Ets.
      replace (qE + length l)%nat with (length (pre ++ o :: size_tokens szt ++ ParserShapeTokens.opening pu sh ++ map en_tok l) + 0)%nat.
      + unfold cur. rewrite app_nth2_plus.
        pose proof (after_E_not_operator pu sh eof Hpu He) as X.
        destruct (ParserShapeTokens.closing pu sh ++ [eof]); exact X.
      + unfold qE, qE_of. rewrite !app_length. cbn [length]. rewrite !app_length, map_length. lia. }
  unfold ts. rewrite (C01_shape_tokens sub f pre [eof] (map en_tok l) o szt pu sh).
  - destruct sh; try reflexivity; fold ts qE; rewrite HE by discriminate; reflexivity.
  - unfold shape_hyps. cbv zeta. fold ts qE.
    split; [exact Hpu|]. split; [exact Hsz|]. split; [exact Ho|]. split.
    { cbn [nth]. unfold terminator_ok. destruct sh; rewrite ?He; repeat split; try discriminate. }
    split.
    { destruct sh; try exact I; eexists; apply HE; discriminate. }
    split.
    { destruct sh; try exact I; destruct (map en_tok l); exact Hdir. }
    exact Hio.
Qed.

Definition sfx_vsize (sz : option Z) : option vsize :=
  match sz with Some c => to_vsize (lower [c]) | None => None end.
Definition sh_index (sh : shape) (i1 : Z) : option str :=
  match sh with
  | ShDirectIdx | ShIndIdx | ShLongIdx | ShInner => Some (lower [i1])
  | ShInnerOuter => Some k_y
  | _ => None
  end.

(** dummy punctuation for the fields a syntax does not use *)
Definition d_sharp := mk_token T_SHARP [35].
Definition d_lp := mk_token T_LPAREN [40].
Definition d_rp := mk_token T_RPAREN [41].
Definition d_lb := mk_token T_LBRAKET [91].
Definition d_rb := mk_token T_RBRAKET [93].
Definition d_ix := mk_token T_ADDRESSING_MODE_INDEX [120].
Definition mk_pu (a b c d e f g : token) : punct :=
  {| pu_sharp := a; pu_lp := b; pu_rp := c; pu_lb := d; pu_rb := e; pu_i1 := f; pu_i2 := g |}.

Ltac tvs :=
  repeat match goal with
    | H : tv ?t = (_, _) |- _ =>
        let H1 := fresh "Ty" in let H2 := fresh "Va" in
        pose proof (tv_type _ _ _ H) as H1; pose proof (tv_value _ _ _ H) as H2; clear H
    end.

(** [map tv l = [x1; ...; xn]] gives the n tokens *)
Ltac explode H :=
  repeat match type of H with
    | map tv ?l = _ :: _ =>
        let t := fresh "t" in let r := fresh "r" in let E := fresh "E" in
        apply map_eq_cons in H as (t & r & -> & E & H)
    | map tv ?l = [] => apply map_eq_nil in H; subst
    end.

Ltac lens2 := repeat progress (rewrite ?app_length, ?map_length, ?spaces_length in *; cbn [length] in *).

Ltac fin_stmt :=
  repeat (split; [first [reflexivity | assumption | exact I | (intros _; assumption)
                        | (cbn [index_of sh_index mk_pu pu_i1 pu_i2]; congruence)
                        | (unfold punct_ok, mk_pu; cbn [pu_sharp pu_lp pu_rp pu_lb pu_rb pu_i1 pu_i2];
                           unfold d_sharp, d_lp, d_rp, d_lb, d_rb, d_ix, mk_token; cbn [t_type t_value];
                           intuition (try discriminate; try congruence))]|]);
  try exact I; try (cbn [mk_pu pu_i1 pu_i2]; congruence); try (cbn [mk_pu pu_i1 pu_i2]; split; congruence).

(** I2 *)
Theorem operand_syntax_mode eorg mn sz sh e i1 i2 toks eof incd inc :
  map tv toks = insn_toks eorg mn sz sh e i1 i2 -> t_type eof = T_EOF ->
  shape_head_ok sh e ->
  (sh = ShInnerOuter -> lower [i1] = k_s /\ lower [i2] = k_y) ->
  exists rorg fi o re,
    parse_program (parse_fuel (length (toks ++ [eof]))) incd inc (toks ++ [eof])
      = POk [AStarEq rorg fi;
             AOpcode (mode_of sh) mn (match sh with ShImplied => None | _ => sfx_vsize sz end)
                     (match sh with ShImplied => None | _ => Some re end) (sh_index sh i1) o] /\
    map en_strip rorg = flat eorg /\ (sh <> ShImplied -> map en_strip re = flat e) /\
    t_value o = mn.
Proof.
  intros E Heof Hhd Hio. unfold insn_toks in E.
  apply map_eq_cons in E as (st & toks1 & -> & Est & E).
  apply map_eq_app in E as (torg & stmt & -> & Eorg & Estmt).
  destruct (build_PE eorg torg Eorg) as (lorg & Porg & Torg & Sorg). subst torg.
  (* the statement: opcode token, size token, punctuation, expression *)
  assert (Stmt : exists o szt pu l,
            stmt = stmt_tokens o szt pu sh (map en_tok l) /\ PE l /\
            (sh <> ShImplied -> map en_strip l = flat e) /\
            t_value o = mn /\ vsize_of szt = (match sh with ShImplied => None | _ => sfx_vsize sz end) /\
            index_of pu sh = sh_index sh i1 /\
            punct_ok pu /\ match szt with Some s => t_type s = T_OPCODE_SIZE | None => True end /\
            t_type o = match sh with ShImplied => T_OPCODE_NAKED | _ => T_OPCODE end /\
            match sh with ShDirect | ShDirectIdx => t_type (hd eof_token (map en_tok l)) <> T_LPAREN | _ => True end /\
            match sh with
            | ShInnerOuter => lower (t_value (pu_i1 pu)) = k_s /\ lower (t_value (pu_i2 pu)) = k_y
            | _ => True
            end).
  { destruct (shape_eq_dec sh ShImplied) as [->|NI].
    - cbn [stmt_tk] in Estmt. explode Estmt. tvs.
      exists t, None, (mk_pu d_sharp d_lp d_rp d_lb d_rb d_ix d_ix), lorg.
      split; [reflexivity|]. split; [exact Porg|]. split; [congruence|]. split; [assumption|].
      split; [reflexivity|]. split; [reflexivity|].
      split; [cbv; intuition discriminate|]. split; [exact I|]. split; [assumption|]. split; exact I.
    - assert (Estmt' : map tv stmt = (T_OPCODE, mn) :: sfx_tok sz ++ opening_tk sh ++ toks_of e ++ closing_tk sh i1 i2)
        by (destruct sh; try congruence; exact Estmt).
      clear Estmt.
      apply map_eq_cons in Estmt' as (o & r1 & -> & Eo & E1).
      apply map_eq_app in E1 as (tsz & r2 & -> & Esz & E2).
      apply map_eq_app in E2 as (topen & r3 & -> & Eopen & E3).
      apply map_eq_app in E3 as (te & tclose & -> & Ee & Eclose).
      destruct (build_PE e te Ee) as (l & P & T & S). subst te.
      assert (Hd : match sh with ShDirect | ShDirectIdx => t_type (hd eof_token (map en_tok l)) <> T_LPAREN | _ => True end).
      { destruct sh; try exact I; cbn [shape_head_ok] in Hhd;
          (destruct (map en_tok l) as [|x xs]; [cbn [hd eof_token mk_token t_type]; discriminate|]);
          cbn [map hd] in *; destruct (toks_of e) as [|[ty v] r]; try discriminate Ee;
          injection Ee as Ex _ _; intros Hx; rewrite Hx in Ex; subst ty; exact Hhd. }
      assert (SZ : exists szt, tsz = size_tokens szt /\ vsize_of szt = sfx_vsize sz /\
                               match szt with Some s => t_type s = T_OPCODE_SIZE | None => True end).
      { destruct sz as [c|]; cbn [sfx_tok] in Esz; explode Esz; tvs.
        - exists (Some t). split; [reflexivity|]. split; [|assumption].
          unfold vsize_of, sfx_vsize. congruence.
        - exists None. split; [reflexivity|]. split; [reflexivity|exact I]. }
      destruct SZ as (szt & -> & Vsz & Tsz).
      apply tv_type in Eo as To. apply tv_value in Eo as Vo.
      assert (Vs : vsize_of szt = match sh with ShImplied => None | _ => sfx_vsize sz end)
        by (destruct sh; try congruence; exact Vsz).
      destruct sh; try congruence; cbn [opening_tk closing_tk ix_tk] in Eopen, Eclose;
        explode Eopen; explode Eclose; unfold ix_tk in *; tvs.
      + (* # e *) exists o, szt, (mk_pu t d_lp d_rp d_lb d_rb d_ix d_ix), l. fin_stmt.
      + (* e *) exists o, szt, (mk_pu d_sharp d_lp d_rp d_lb d_rb d_ix d_ix), l. fin_stmt.
      + (* e,i *) exists o, szt, (mk_pu d_sharp d_lp d_rp d_lb d_rb t d_ix), l. fin_stmt.
      + (* (e) *) exists o, szt, (mk_pu d_sharp t t0 d_lb d_rb d_ix d_ix), l. fin_stmt.
      + (* (e),i *) exists o, szt, (mk_pu d_sharp t t0 d_lb d_rb t1 d_ix), l. fin_stmt.
      + (* [e] *) exists o, szt, (mk_pu d_sharp d_lp d_rp t t0 d_ix d_ix), l. fin_stmt.
      + (* [e],i *) exists o, szt, (mk_pu d_sharp d_lp d_rp t t0 t1 d_ix), l. fin_stmt.
      + (* (e,i) *) exists o, szt, (mk_pu d_sharp t t1 d_lb d_rb t0 d_ix), l. fin_stmt.
      + (* (e,s),y *) destruct (Hio eq_refl) as [Hs Hy].
        exists o, szt, (mk_pu d_sharp t t1 d_lb d_rb t0 t2), l. fin_stmt. }
  destruct Stmt as (o & szt & pu & l & -> & P & Sl & Vo & Vs & Ix & Hpu & Hsz & To & Hd & Hio').
  exists lorg, (hd eof_token (map en_tok lorg ++ [o])), o, l.
  split; [|split; [exact Sorg|split; [exact Sl|exact Vo]]].
  set (ts := (st :: map en_tok lorg ++ stmt_tokens o szt pu sh (map en_tok l)) ++ [eof]).
  unfold parse_program. rewrite parse_file_unfold.
  set (sub := fun name : str => _).
  set (stmt := stmt_tokens o szt pu sh (map en_tok l)) in *.
  assert (Ets1 : ts = [st] ++ map en_tok lorg ++ (stmt ++ [eof])).
  { unfold ts. cbn [app]. rewrite <- !app_assoc. reflexivity. }
  assert (Ets2 : ts = ts_of (st :: map en_tok lorg) [eof] (map en_tok l) o szt pu sh).
  { unfold ts, ts_of. fold stmt. cbn [app]. rewrite <- !app_assoc. reflexivity. }
  assert (Ho : stmt = o :: tl stmt) by reflexivity.
  assert (C0 : cur ts 0 = st) by reflexivity.
  assert (G1 : seg ts 1 (map en_tok lorg)) by (rewrite Ets1; apply (seg_mid [st])).
  assert (C1 : cur ts (1 + length lorg) = o).
  { rewrite Ets1, Ho. replace (1 + length lorg)%nat with (length ([st] ++ map en_tok lorg)) by (lens2; lia).
    rewrite app_assoc. apply cur_mid. }
  assert (C2 : cur ts (1 + length lorg + length stmt) = eof).
  { rewrite Ets1. rewrite !app_assoc.
    replace (1 + length lorg + length stmt)%nat with (length (([st] ++ map en_tok lorg) ++ stmt)) by (lens2; lia).
    apply cur_mid. }
  assert (N : (length lorg + length stmt + 2 = length ts)%nat) by (rewrite Ets1; lens2; lia).
  assert (Nl : (length l <= length stmt \/ sh = ShImplied)%nat).
  { destruct (shape_eq_dec sh ShImplied) as [->|NI]; [right; reflexivity|left].
    unfold stmt, stmt_tokens, shape_tokens. destruct sh; try congruence; lens2; lia. }
  replace (parse_fuel (length ts)) with (S (S (S (S (2 * length ts)%nat)))) by (unfold parse_fuel; lia).
  (* statement 1 *)
  rewrite pinitial_S, C0. unfold is_ty at 1. rewrite (tv_type _ _ _ Est).
  cbn [ttype_eqb ttype_code Z.eqb Pos.eqb].
  rewrite (pdecl_star_eq ts sub _ 0 lorg).
  2:{ rewrite C0. eapply tv_type; exact Est. }
  2:{ exact Porg. }
  2:{ exact G1. }
  2:{ rewrite C1. unfold is_ty. rewrite To. destruct sh; reflexivity. }
  2:{ lia. }
  cbn [pbind fst snd opt_app app].
  (* statement 2 *)
  rewrite pinitial_S, C1. unfold is_ty at 1. rewrite To.
  replace (ttype_eqb match sh with ShImplied => T_OPCODE_NAKED | _ => T_OPCODE end T_EOF) with false
    by (destruct sh; reflexivity).
  assert (E2 : pdecl ts sub (S (S (2 * length ts)%nat)) (1 + length lorg)
               = POk (Some (AOpcode (mode_of sh) (t_value o) (vsize_of szt)
                              (match sh with ShImplied => None | _ => Some l end) (index_of pu sh) o),
                      (1 + length lorg + length stmt)%nat)).
  { assert (Hf1 : (length lorg < S (2 * length ts))%nat) by lia.
    assert (Hf2 : sh <> ShImplied -> (length l < S (2 * length ts))%nat)
      by (intros NI; destruct Nl as [Nl|Nl]; [lia|congruence]).
    set (fu := S (2 * length ts)%nat) in *. clearbody fu.
    replace (1 + length lorg + length stmt)%nat with (length (st :: map en_tok lorg) + length stmt)%nat
      by (lens2; lia).
    replace (1 + length lorg)%nat with (length (st :: map en_tok lorg)) by (lens2; lia).
    rewrite Ets2.
    destruct (shape_eq_dec sh ShImplied) as [->|NI].
    - (* the expression argument is unused: take any fuel-respecting node list *)
      exact (shape_parse sub fu (st :: map en_tok lorg) o szt pu ShImplied lorg eof
               Hpu Hsz To Heof Porg I I Hf1).
    - rewrite (shape_parse sub fu (st :: map en_tok lorg) o szt pu sh l eof
                 Hpu Hsz To Heof P Hd Hio' (Hf2 NI)).
      reflexivity. }
  rewrite E2. cbn [pbind fst snd opt_app app].
  (* end *)
  rewrite pinitial_S, C2. unfold is_ty at 1. rewrite Heof. cbn [ttype_eqb ttype_code Z.eqb Pos.eqb].
  rewrite Vo, Vs, Ix. f_equal. f_equal. f_equal.
  specialize (G1 0%nat). destruct lorg as [|x lorg']; [inversion Porg|].
  cbn [map app hd]. exact (G1 ltac:(cbn [map length]; lia)).
Qed.

Print Assumptions scan_insn.
Print Assumptions operand_syntax_mode.
