(** C01 at the level of source TEXT, part 1 (scanner): one instruction line after a "*=" line.

    After a mnemonic, lex_initial -> accept_opcode -> lex_opcode -> [lex_opcode_size] -> lex_operand
    lexes the WHOLE operand in the same call: an optional '#', '(' or '[', then the expression with
    lex_expression (so here '|' and '~' and identifiers are lexed, unlike in a directive line), then
    ", index", then ')' or ']', then ", index" again.  This file gives the closed form of that call
    for every operand syntax, whatever the spacing at the places where the lexer skips blanks. *)
From Coq Require Import ZArith NArith List Bool Lia Arith.
From A816 Require Import Spec.ExprSem Model.Scanner Proofs.ScannerFuel Proofs.ScannerMono
  Proofs.ExprProofs Proofs.ExprLex Proofs.DataTextScan.
Import ListNotations.
Open Scope Z_scope.

(* ------------------------------------------------------------------------------------------ *)
(** * lex_expression inside a line: it stops at ',' ']' or a newline *)

Ltac lens := repeat progress (rewrite ?app_length, ?spaces_length in *; cbn [length] in *).

Definition stopper (c : Z) : Prop := c = 44 \/ c = 93 \/ c = 10.

Lemma stopper_delim c : stopper c -> delim c = true.
Proof. intros [->|[->| ->]]; reflexivity. Qed.

Ltac nope H cands := rewrite (accept_Zv_false _ _ _ _ _ cands H eq_refl); cbv beta iota.
Ltac nopre H p := rewrite (accept_prefix_Zv_false _ _ _ _ _ p H eq_refl); cbn [accept_or fst snd].

Lemma lex_stop f F s a k c r out : Zv s a [] (spaces k ++ c :: r) out -> stopper c -> (k < F)%nat ->
  exists s', lex_expression_loop (S f) F s = LOk s' /\ Zv s' (a ++ spaces k) [] (c :: r) out.
Proof.
  intros H St HF. pose proof (Zv_len _ _ _ _ _ H) as L. rewrite app_length, spaces_length in L.
  cbn [length] in L. cbn [lex_expression_loop].
  assert (P : (pos s <? length (inp s))%nat = true).
  { destruct H as (_ & _ & H3 & _). apply Nat.ltb_lt. rewrite H3, L. cbn [length]. lia. }
  rewrite P. unfold ignore_run.
  destruct (accept_run_Zv [32] (spaces k) F s a [] (c :: r) out H (spaces_all _)) as (s1 & R & H1).
  { destruct St as [->|[->| ->]]; reflexivity. }
  { rewrite spaces_length; lia. }
  rewrite R. cbn [lbind]. apply ignore_Zv in H1. cbn [app] in H1.
  set (s0 := ignore s1) in *. clearbody s0.
  destruct St as [->|[->| ->]];
    nope H1 digits; nope H1 ident_start; nope H1 expr_ops; cbn [accept_or fst snd];
    nopre H1 [60; 60]; nopre H1 [62; 62]; cbv beta iota; nope H1 [40]; nope H1 [41];
    exists s0; (split; [reflexivity|exact H1]).
Qed.

Lemma follow_delim_tk sp j l r : seq_ok true l -> delim (hd 0 r) = true ->
  delim (hd 0 (join sp j l ++ r)) = true.
Proof.
  destruct l as [|[ty v] l']; cbn [seq_ok join snd].
  - intros _ Dr. destruct (sp j); [exact Dr|reflexivity].
  - intros (K & NT & _) _. destruct (sp j) as [|k]; [|reflexivity]. cbn [spaces repeat_z app].
    specialize (NT eq_refl). unfold is_termtk in NT. cbn [fst] in NT.
    inversion K as [f n| s I |o|o| | ]; subst; try discriminate NT.
    + destruct o; reflexivity.
    + destruct o; reflexivity.
    + reflexivity.
    + reflexivity.
Qed.

Lemma lex_loop_stop sp F c r : stopper c -> forall l b i fuel s a out,
  Zv s a [] (join sp i l ++ c :: r) out -> seq_ok b l -> (length l < fuel)%nat ->
  (length (inp s) + 1 < F)%nat ->
  exists s', lex_expression_loop fuel F s = LOk s' /\ Zv s' (a ++ join sp i l) [] (c :: r) (rev l ++ out).
Proof.
  intros St. induction l as [|[ty v] l' IH]; intros b i fuel s a out H S HL HF;
    (destruct fuel as [|f]; [cbn [length] in HL; lia|]); cbn [join snd] in *.
  - apply lex_stop; [exact H|exact St|]. pose proof (Zv_len _ _ _ _ _ H) as L.
    rewrite app_length, spaces_length in L. lia.
  - cbn [seq_ok] in S. destruct S as (K & _ & S'). rewrite <- !app_assoc in H.
    destruct (lex_step f F s a (sp i) ty v (join sp (Datatypes.S i) l' ++ c :: r) out H K) as (s1 & E & H1).
    { intros T. apply follow_delim_tk; [rewrite <- T; exact S'|apply stopper_delim; exact St]. }
    { exact HF. }
    rewrite E.
    destruct (IH _ (Datatypes.S i) f s1 _ _ H1 S' ltac:(cbn [length] in HL; lia)) as (s' & E' & H').
    { pose proof (Zv_len _ _ _ _ _ H) as L. pose proof (Zv_len _ _ _ _ _ H1) as L1.
      rewrite !app_length in *. cbn [length] in *. lia. }
    exists s'. split; [exact E'|]. cbn [rev]. rewrite <- !app_assoc in *. cbn [app]. exact H'.
Qed.

(* ------------------------------------------------------------------------------------------ *)
(** * ", index" *)

Lemma lex_opcode_index_Zv F s a v k ch r out :
  Zv s a v (spaces k ++ ch :: r) out -> mem_z ch index_chars = true -> (k < F)%nat ->
  exists s', lex_opcode_index F s = LOk s' /\
             Zv s' (a ++ v ++ spaces k ++ [ch]) [] r ((T_ADDRESSING_MODE_INDEX, [ch]) :: out).
Proof.
  intros H M HF. unfold lex_opcode_index, ignore_run. apply ignore_Zv in H.
  destruct (accept_run_Zv [32] (spaces k) F (ignore s) _ [] (ch :: r) out H (spaces_all _)) as (s1 & R & H1).
  { cbn [hd]. exact (mem_z_disj index_chars [32] eq_refl _ M). }
  { rewrite spaces_length; lia. }
  rewrite R. cbn [lbind]. apply ignore_Zv in H1. cbn [app] in H1.
  destruct (accept_Zv_true _ _ _ _ _ _ index_chars H1 M) as (s2 & A & H2). rewrite A. cbv beta iota.
  eexists. split; [reflexivity|]. pose proof (emit_Zv _ _ _ _ _ T_ADDRESSING_MODE_INDEX H2) as H3.
  cbn [app] in H3. rewrite <- !app_assoc in H3. exact H3.
Qed.

Definition ixpart (c : option (nat * Z)) : str :=
  match c with Some (k, ch) => 44 :: spaces k ++ [ch] | None => [] end.
Definition ixtok (c : option (nat * Z)) : list tk :=
  match c with Some (_, ch) => [(T_ADDRESSING_MODE_INDEX, [ch])] | None => [] end.
Definition ix_ok (c : option (nat * Z)) : Prop :=
  match c with Some (_, ch) => mem_z ch index_chars = true | None => True end.

(** [s.ignore_run(" "); if s.accept(","): lex_opcode_index(s)] *)
Lemma stage_ix F s a k c X out :
  Zv s a [] (spaces k ++ ixpart c ++ X) out -> ix_ok c ->
  (c = None -> hd 0 X <> 44 /\ hd 0 X <> 32) -> (length (inp s) + 1 < F)%nat ->
  exists s4 b s5 s6 a',
    ignore_run F s [32] = LOk s4 /\ accept s4 [44] false = (b, s5) /\
    (if b then lex_opcode_index F s5 else LOk s5) = LOk s6 /\
    Zv s6 a' [] X (ixtok c ++ out) /\ (length a + k <= length a')%nat /\ length (inp s6) = length (inp s).
Proof.
  intros H Ok Hn HF. pose proof (Zv_len _ _ _ _ _ H) as L. rewrite !app_length, spaces_length in L.
  cbn [length] in L. unfold ignore_run.
  destruct c as [[kc ch]|]; cbn [ixpart ixtok ix_ok app] in *.
  - destruct (accept_run_Zv [32] (spaces k) F s a [] _ out H (spaces_all _) eq_refl
                ltac:(rewrite spaces_length; lia)) as (s1 & R & H1).
    rewrite R. cbn [lbind]. apply ignore_Zv in H1. cbn [app] in H1.
    destruct (accept_Zv_true _ _ _ _ _ _ [44] H1 eq_refl) as (s2 & A & H2).
    rewrite <- app_assoc in H2. cbn [app] in H2.
    destruct (lex_opcode_index_Zv F s2 _ _ kc ch X out H2 Ok) as (s3 & E3 & H3).
    { lens. lia. }
    exists (ignore s1), true, s2, s3. eexists. split; [reflexivity|]. split; [exact A|]. split; [exact E3|].
    split; [exact H3|]. split.
    + lens. lia.
    + pose proof (Zv_len _ _ _ _ _ H3) as L3. lens. lia.
  - destruct (Hn eq_refl) as [N44 N32].
    assert (M32 : mem_z (hd 0 X) [32] = false).
    { unfold mem_z. cbn [existsb]. destruct (hd 0 X =? 32) eqn:E; [apply Z.eqb_eq in E; contradiction|reflexivity]. }
    assert (M44 : mem_z (hd 0 X) [44] = false).
    { unfold mem_z. cbn [existsb]. destruct (hd 0 X =? 44) eqn:E; [apply Z.eqb_eq in E; contradiction|reflexivity]. }
    destruct (accept_run_Zv [32] (spaces k) F s a [] X out H (spaces_all _) M32
                ltac:(rewrite spaces_length; lia)) as (s1 & R & H1).
    rewrite R. cbn [lbind]. apply ignore_Zv in H1. cbn [app] in H1.
    exists (ignore s1), false, (ignore s1), (ignore s1). eexists.
    split; [reflexivity|]. split; [apply (accept_Zv_false _ _ _ _ _ [44] H1 M44)|]. split; [reflexivity|].
    split; [exact H1|]. split.
    + lens. lia.
    + pose proof (Zv_len _ _ _ _ _ H1) as L1. lens. lia.
Qed.

(* ------------------------------------------------------------------------------------------ *)
(** * lex_operand, generic form *)

Inductive opening := ONo | OSharp | OParen | OBracket.
Definition open_text (o : opening) : str :=
  match o with ONo => [] | OSharp => [35] | OParen => [40] | OBracket => [91] end.
Definition open_tok (o : opening) : list tk :=
  match o with ONo => [] | OSharp => [(T_SHARP, [35])] | OParen => [(T_LPAREN, [40])] | OBracket => [(T_LBRAKET, [91])] end.
(** a ')' or ']' that lex_operand itself emits (a ')' directly after the expression is lexed by
    lex_expression and belongs to the token list [L] below) *)
Inductive closing := CNo | CParen | CBracket.
Definition close_text (c : closing) : str := match c with CNo => [] | CParen => [41] | CBracket => [93] end.
Definition close_tok (c : closing) : list tk :=
  match c with CNo => [] | CParen => [(T_RPAREN, [41])] | CBracket => [(T_RBRAKET, [93])] end.

Definition after_close (cl : closing) (kc : nat) (c2 : option (nat * Z)) (ke : nat) (r : str) : str :=
  match cl with
  | CNo => spaces ke ++ 10 :: r
  | _ => close_text cl ++ match c2 with Some _ => spaces kc ++ ixpart c2 | None => [] end ++ spaces ke ++ 10 :: r
  end.
Definition gen_text (o : opening) (ko : nat) (sp : spacing) (L : list tk) (c1 : option (nat * Z))
           (cl : closing) (kc : nat) (c2 : option (nat * Z)) (ke : nat) (r : str) : str :=
  open_text o ++ spaces ko ++ join sp 0 L ++ ixpart c1 ++ after_close cl kc c2 ke r.
Definition gen_toks (o : opening) (L : list tk) (c1 : option (nat * Z)) (cl : closing)
           (c2 : option (nat * Z)) : list tk :=
  open_tok o ++ L ++ ixtok c1 ++ close_tok cl ++ match cl with CNo => [] | _ => ixtok c2 end.

Lemma join_ext sp sp' : forall l i, (forall j, (i <= j)%nat -> sp j = sp' j) -> join sp i l = join sp' i l.
Proof.
  induction l as [|t l IH]; intros i H; cbn [join].
  - rewrite (H i) by lia. reflexivity.
  - rewrite (H i) by lia. rewrite (IH (S i)) by (intros j Hj; apply H; lia). reflexivity.
Qed.

Lemma spaces_app a b : spaces a ++ spaces b = spaces (a + b).
Proof. induction a; [reflexivity|]. cbn [Nat.add]. rewrite !spaces_S. cbn [app]. rewrite IHa. reflexivity. Qed.

(** first character of a well-formed token *)
Lemma tk_first ty v : tk_ok (ty, v) -> ty <> T_LPAREN -> exists c v', v = c :: v' /\
  mem_z c [32] = false /\ (c =? 35) = false /\ (c =? 40) = false /\ (c =? 91) = false.
Proof.
  inversion 1 as [f n| s I |o|o| | ]; subst; intros NL.
  - destruct (render_num_ok f n) as (d & tl & -> & N). exists d, tl. split; [reflexivity|].
    pose proof (num_ok_digit _ _ N) as M.
    pose proof (mem_z_disj digits [32; 35; 40; 91] eq_refl _ M) as X. unfold mem_z in *. cbn [existsb] in *.
    destruct (d =? 32), (d =? 35), (d =? 40), (d =? 91); try discriminate X; auto.
  - assert (exists c v', v = c :: v' /\ mem_z c ident_start = true) as (c & v' & -> & M)
      by (inversion I; subst; eauto).
    exists c, v'. split; [reflexivity|].
    pose proof (mem_z_disj ident_start [32; 35; 40; 91] eq_refl _ M) as X. unfold mem_z in *. cbn [existsb] in *.
    destruct (c =? 32), (c =? 35), (c =? 40), (c =? 91); try discriminate X; auto.
  - destruct o; eexists _, _; repeat split; reflexivity.
  - destruct o; eexists _, _; repeat split; reflexivity.
  - congruence.
  - eexists _, _; repeat split; reflexivity.
Qed.

Lemma rev_ixtok c : rev (ixtok c) = ixtok c.
Proof. destruct c as [[k ch]|]; reflexivity. Qed.

Ltac fin_toks H :=
  unfold gen_toks; cbn [close_tok app] in *; rewrite ?app_nil_r;
  repeat (rewrite ?rev_app_distr, ?rev_ixtok; cbn [rev app]);
  rewrite <- ?app_assoc; cbn [app spaces repeat_z]; rewrite <- ?app_assoc; cbn [app];
  cbn [ixtok app rev] in H; rewrite <- ?app_assoc in H; cbn [app] in H; exact H.

Definition head_not_lparen (L : list tk) : Prop :=
  match L with (T_LPAREN, _) :: _ => False | _ => True end.

Lemma lex_operand_gen F s a o ko sp L c1 cl kc c2 ke r out :
  Zv s a [] (gen_text o ko sp L c1 cl kc c2 ke r) out ->
  seq_ok false L -> L <> [] ->
  (o = ONo -> (0 < ko + sp 0%nat)%nat \/ head_not_lparen L) ->
  ix_ok c1 -> ix_ok c2 -> (cl = CParen -> c1 <> None) -> (c1 = None -> cl = CNo -> ke = 0%nat) ->
  (length (inp s) + 1 < F)%nat ->
  exists s' a' k',
    lex_operand F s = LOk s' /\
    Zv s' a' [] (spaces k' ++ 10 :: r) (rev (gen_toks o L c1 cl c2) ++ out) /\
    (length a < length a')%nat /\ length (inp s') = length (inp s).
Proof.
  intros H SL NE Hno Ok1 Ok2 Hcp Hke HF. unfold gen_text in H.
  destruct L as [|[ty v] L']; [congruence|]. clear NE.
  pose proof SL as SL0. cbn [seq_ok] in SL. destruct SL as (K & _ & SL').
  destruct (tk_ok_nonempty _ _ K) as (cv & v' & Ev & Hcv).
  set (T := ixpart c1 ++ after_close cl kc c2 ke r) in *.
  cbn [join snd] in H.
  (* the opening character *)
  assert (Open : exists s1 a1, 
            (if peek s =? 35 then emit (snd (next s)) T_SHARP
             else if peek s =? 40 then emit (snd (next s)) T_LPAREN
             else if peek s =? 91 then emit (snd (next s)) T_LBRAKET else s) = s1 /\
            Zv s1 a1 [] (spaces ko ++ spaces (sp 0%nat) ++ v ++ join sp 1 L' ++ T) (rev (open_tok o) ++ out) /\
            (length a <= length a1)%nat /\ length (inp s1) = length (inp s)).
  { rewrite (Zv_peek _ _ _ _ _ H).
    destruct o; cbn [open_text open_tok app rev] in *.
    - exists s, a. split; [|split; [rewrite <- !app_assoc in H; exact H|split; [lia|reflexivity]]].
      assert (P : (hd 0 (spaces ko ++ (spaces (sp 0%nat) ++ v ++ join sp 1 L') ++ T) =? 35) = false /\
                  (hd 0 (spaces ko ++ (spaces (sp 0%nat) ++ v ++ join sp 1 L') ++ T) =? 40) = false /\
                  (hd 0 (spaces ko ++ (spaces (sp 0%nat) ++ v ++ join sp 1 L') ++ T) =? 91) = false).
      { destruct ko as [|ko']; [|repeat split; reflexivity]. cbn [spaces repeat_z app].
        destruct (sp 0%nat) as [|k0] eqn:E0; [|repeat split; reflexivity]. cbn [spaces repeat_z app].
        destruct (Hno eq_refl) as [Hpos|Hnl]; [try rewrite E0 in Hpos; lia|].
        assert (NLp : ty <> T_LPAREN) by (intros ->; exact Hnl).
        destruct (tk_first _ _ K NLp) as (c & w & -> & _ & A & B & C). cbn [app hd]. auto. }
      destruct P as (P1 & P2 & P3). rewrite P1, P2, P3. reflexivity.
    - cbn [hd]. change (35 =? 35) with true. cbv iota.
      destruct (next_Zv _ _ _ _ _ _ H) as (s1 & N & H1). rewrite N. cbn [snd].
      eexists _, _. split; [reflexivity|]. pose proof (emit_Zv _ _ _ _ _ T_SHARP H1) as H2.
      split; [rewrite <- !app_assoc in H2; exact H2|].
      split; [lens; lia|]. pose proof (Zv_len _ _ _ _ _ H2) as L2. pose proof (Zv_len _ _ _ _ _ H) as L0.
      lens. lia.
    - cbn [hd]. change (40 =? 35) with false. change (40 =? 40) with true. cbv iota.
      destruct (next_Zv _ _ _ _ _ _ H) as (s1 & N & H1). rewrite N. cbn [snd].
      eexists _, _. split; [reflexivity|]. pose proof (emit_Zv _ _ _ _ _ T_LPAREN H1) as H2.
      split; [rewrite <- !app_assoc in H2; exact H2|].
      split; [lens; lia|]. pose proof (Zv_len _ _ _ _ _ H2) as L2. pose proof (Zv_len _ _ _ _ _ H) as L0.
      lens. lia.
    - cbn [hd]. change (91 =? 35) with false. change (91 =? 40) with false. change (91 =? 91) with true. cbv iota.
      destruct (next_Zv _ _ _ _ _ _ H) as (s1 & N & H1). rewrite N. cbn [snd].
      eexists _, _. split; [reflexivity|]. pose proof (emit_Zv _ _ _ _ _ T_LBRAKET H1) as H2.
      split; [rewrite <- !app_assoc in H2; exact H2|].
      split; [lens; lia|]. pose proof (Zv_len _ _ _ _ _ H2) as L2. pose proof (Zv_len _ _ _ _ _ H) as L0.
      lens. lia. }
  destruct Open as (s1 & a1 & E1 & H1 & La1 & Li1).
  unfold lex_operand. cbv zeta. rewrite E1. clear E1.
  (* blanks, then the expression *)
  rewrite app_assoc, spaces_app in H1.
  assert (HF1 : (length (inp s1) + 1 < F)%nat) by lia.
  unfold ignore_run at 1.
  destruct (accept_run_Zv [32] (spaces (ko + sp 0%nat)) F s1 a1 [] _ _ H1 (spaces_all _)
              ltac:(rewrite Ev; exact Hcv)
              ltac:(pose proof (Zv_len _ _ _ _ _ H1) as X; lens; lia)) as (s2' & R2 & H2).
  rewrite R2. cbn [lbind]. apply ignore_Zv in H2. cbn [app] in H2.
  set (s2 := ignore s2') in *. clearbody s2. clear R2 s2'.
  set (spZ := fun i : nat => match i with O => O | _ => sp i end).
  assert (EZ : v ++ join sp 1 L' ++ T = join spZ 0 ((ty, v) :: L') ++ T).
  { cbn [join snd]. unfold spZ at 1. cbn [spaces repeat_z app]. rewrite <- app_assoc. f_equal. f_equal.
    apply join_ext. intros j Hj. unfold spZ. destruct j; [lia|reflexivity]. }
  rewrite EZ in H2.
  assert (LZ : (length (join spZ 0 ((ty, v) :: L')) = length v + length (join sp 1 L'))%nat).
  { apply (f_equal (@length Z)) in EZ. rewrite !app_length in EZ. lia. }
  clear EZ.
  assert (StT : exists c rT, T = c :: rT /\ stopper c).
  { unfold T. destruct c1 as [[k1 ch1]|]; cbn [ixpart app].
    - eexists _, _. split; [reflexivity|]. left; reflexivity.
    - destruct cl; cbn [after_close close_text app].
      + rewrite (Hke eq_refl eq_refl). cbn [spaces repeat_z app]. eexists _, _. split; [reflexivity|].
        right; right; reflexivity.
      + exfalso. apply (Hcp eq_refl). reflexivity.
      + eexists _, _. split; [reflexivity|]. right; left; reflexivity. }
  destruct StT as (cT & rT & ET & StT).
  pose proof (Zv_len _ _ _ _ _ H2) as Len2.
  assert (Li2 : length (inp s2) = length (inp s)).
  { pose proof (Zv_len _ _ _ _ _ H1) as X. lens. lia. }
  rewrite ET in H2.
  assert (LL : (length ((ty, v) :: L') < F)%nat).
  { eapply Nat.le_lt_trans; [apply (join_length spZ _ false 0%nat SL0)|].
    rewrite ET in Len2. clear - Len2 Li2 HF. unfold tk, str in *. lens. lia. }
  unfold lex_expression.
  destruct (lex_loop_stop spZ F cT rT StT ((ty, v) :: L') false 0%nat F s2 _ _ H2 SL0 LL ltac:(lia))
    as (s3 & E3 & H3).
  rewrite E3. cbn [lbind]. rewrite <- ET in H3.
  assert (Li3 : length (inp s3) = length (inp s)).
  { pose proof (Zv_len _ _ _ _ _ H3) as X. rewrite ET in Len2. rewrite ET in X. lens. lia. }
  (* ", index" *)
  unfold T in H3.
  destruct (stage_ix F s3 _ 0%nat c1 (after_close cl kc c2 ke r) _ H3 Ok1) as
    (s4 & b5 & s5 & s6 & a6 & E4 & E5 & E6 & H6 & La6 & Li6).
  { intros ->. destruct cl; cbn [after_close close_text app hd].
    - rewrite (Hke eq_refl eq_refl). cbn [spaces repeat_z app hd]. split; discriminate.
    - exfalso. apply (Hcp eq_refl). reflexivity.
    - split; discriminate. }
  { lia. }
  rewrite E4. cbn [lbind]. rewrite E5. cbv beta iota. rewrite E6. cbn [lbind].
  (* the closing character, ", index" again *)
  cbv zeta. rewrite (Zv_peek _ _ _ _ _ H6).
  assert (Pos : (length a < length a6)%nat).
  { pose proof (tk_ok_nonempty _ _ K) as (c' & w' & Ew & _).
    assert (1 <= length (join spZ 0 ((ty, v) :: L')))%nat.
    { cbn [join snd]. rewrite Ew. lens. lia. }
    lens. lia. }
  destruct cl; cbn [after_close close_text app hd] in *.
  - (* no closing character *)
    assert (P : (hd 0 (spaces ke ++ 10 :: r) =? 41) = false /\ (hd 0 (spaces ke ++ 10 :: r) =? 93) = false)
      by (destruct ke; split; reflexivity).
    destruct P as [P1 P2]. rewrite P1, P2.
    destruct (stage_ix F s6 a6 ke None (10 :: r) _ H6 I) as
      (s7 & b8 & s8 & s9 & a9 & E7 & E8 & E9 & H9 & La9 & Li9).
    { intros _. split; discriminate. }
    { lia. }
    rewrite E7. cbn [lbind]. rewrite E8. cbv beta iota. rewrite E9.
    exists s9, a9, 0%nat. split; [reflexivity|]. split; [|split; [lia|lia]].
    fin_toks H9.
  - (* ")" *)
    change (41 =? 41) with true. cbv iota.
    destruct (next_Zv _ _ _ _ _ _ H6) as (s7 & N7 & H7). rewrite N7. cbn [snd].
    pose proof (emit_Zv _ _ _ _ _ T_RPAREN H7) as H7'. cbn [app] in H7'.
    assert (Li7 : length (inp (emit s7 T_RPAREN)) = length (inp s)).
    { pose proof (Zv_len _ _ _ _ _ H7') as X. pose proof (Zv_len _ _ _ _ _ H6) as Y. lens. lia. }
    destruct c2 as [[k2 ch2]|].
    + rewrite <- app_assoc in H7'.
      destruct (stage_ix F (emit s7 T_RPAREN) _ kc (Some (k2, ch2)) (spaces ke ++ 10 :: r) _ H7' Ok2) as
        (s8 & b8 & s8' & s9 & a9 & E7 & E8 & E9 & H9 & La9 & Li9).
      { discriminate. }
      { lia. }
      rewrite E7. cbn [lbind]. rewrite E8. cbv beta iota. rewrite E9.
      exists s9, a9, ke. split; [reflexivity|]. split; [|split; [lens; lia|lia]].
      fin_toks H9.
    + cbn [app] in H7'.
      destruct (stage_ix F (emit s7 T_RPAREN) _ ke None (10 :: r) _ H7' I) as
        (s8 & b8 & s8' & s9 & a9 & E7 & E8 & E9 & H9 & La9 & Li9).
      { intros _. split; discriminate. }
      { lia. }
      rewrite E7. cbn [lbind]. rewrite E8. cbv beta iota. rewrite E9.
      exists s9, a9, 0%nat. split; [reflexivity|]. split; [|split; [lens; lia|lia]].
      fin_toks H9.
  - (* "]" *)
    change (93 =? 41) with false. change (93 =? 93) with true. cbv iota.
    destruct (next_Zv _ _ _ _ _ _ H6) as (s7 & N7 & H7). rewrite N7. cbn [snd].
    pose proof (emit_Zv _ _ _ _ _ T_RBRAKET H7) as H7'. cbn [app] in H7'.
    assert (Li7 : length (inp (emit s7 T_RBRAKET)) = length (inp s)).
    { pose proof (Zv_len _ _ _ _ _ H7') as X. pose proof (Zv_len _ _ _ _ _ H6) as Y. lens. lia. }
    destruct c2 as [[k2 ch2]|].
    + rewrite <- app_assoc in H7'.
      destruct (stage_ix F (emit s7 T_RBRAKET) _ kc (Some (k2, ch2)) (spaces ke ++ 10 :: r) _ H7' Ok2) as
        (s8 & b8 & s8' & s9 & a9 & E7 & E8 & E9 & H9 & La9 & Li9).
      { discriminate. }
      { lia. }
      rewrite E7. cbn [lbind]. rewrite E8. cbv beta iota. rewrite E9.
      exists s9, a9, ke. split; [reflexivity|]. split; [|split; [lens; lia|lia]].
      fin_toks H9.
    + cbn [app] in H7'.
      destruct (stage_ix F (emit s7 T_RBRAKET) _ ke None (10 :: r) _ H7' I) as
        (s8 & b8 & s8' & s9 & a9 & E7 & E8 & E9 & H9 & La9 & Li9).
      { intros _. split; discriminate. }
      { lia. }
      rewrite E7. cbn [lbind]. rewrite E8. cbv beta iota. rewrite E9.
      exists s9, a9, 0%nat. split; [reflexivity|]. split; [|split; [lens; lia|lia]].
      fin_toks H9.
Qed.

(** lex_operand on an operand-less rest of line (the second call after a size suffix) *)
Lemma lex_operand_nothing F s a k r out :
  Zv s a [] (spaces k ++ 10 :: r) out -> (length (inp s) + 1 < F)%nat ->
  exists s' a', lex_operand F s = LOk s' /\ Zv s' a' [] (10 :: r) out /\
                length (inp s') = length (inp s).
Proof.
  intros H HF. pose proof (Zv_len _ _ _ _ _ H) as L. unfold lex_operand. cbv zeta.
  rewrite (Zv_peek _ _ _ _ _ H).
  assert (P : (hd 0 (spaces k ++ 10 :: r) =? 35) = false /\ (hd 0 (spaces k ++ 10 :: r) =? 40) = false /\
              (hd 0 (spaces k ++ 10 :: r) =? 91) = false) by (destruct k; repeat split; reflexivity).
  destruct P as (P1 & P2 & P3). rewrite P1, P2, P3.
  unfold ignore_run at 1.
  destruct (accept_run_Zv [32] (spaces k) F s a [] (10 :: r) out H (spaces_all _) eq_refl
              ltac:(lens; lia)) as (s1 & R & H1).
  rewrite R. cbn [lbind]. apply ignore_Zv in H1. cbn [app] in H1.
  assert (L1 : length (inp (ignore s1)) = length (inp s)).
  { pose proof (Zv_len _ _ _ _ _ H1) as X. lens. lia. }
  unfold lex_expression. destruct F as [|F']; [lia|].
  change (10 :: r) with (spaces 0 ++ 10 :: r) in H1.
  destruct (lex_stop F' (S F') (ignore s1) _ 0%nat 10 r out H1 (or_intror (or_intror eq_refl)) ltac:(lia))
    as (s2 & E2 & H2).
  rewrite E2. cbn [lbind].
  assert (L2 : length (inp s2) = length (inp s)).
  { pose proof (Zv_len _ _ _ _ _ H2) as X. lens. lia. }
  change (10 :: r) with (spaces 0 ++ ixpart None ++ 10 :: r) in H2.
  destruct (stage_ix (S F') s2 _ 0%nat None (10 :: r) out H2 I) as
    (s4 & b5 & s5 & s6 & a6 & E4 & E5 & E6 & H6 & La6 & Li6).
  { intros _. split; discriminate. }
  { lia. }
  rewrite E4. cbn [lbind]. rewrite E5. cbv beta iota. rewrite E6. cbn [lbind].
  rewrite (Zv_peek _ _ _ _ _ H6). cbn [hd]. change (10 =? 41) with false. change (10 =? 93) with false.
  cbv iota. cbn [ixtok app] in H6.
  change (10 :: r) with (spaces 0 ++ ixpart None ++ 10 :: r) in H6.
  destruct (stage_ix (S F') s6 _ 0%nat None (10 :: r) _ H6 I) as
    (s7 & b8 & s8 & s9 & a9 & E7 & E8 & E9 & H9 & La9 & Li9).
  { intros _. split; discriminate. }
  { lia. }
  rewrite E7. cbn [lbind]. rewrite E8. cbv beta iota. rewrite E9.
  exists s9, a9. split; [reflexivity|]. split; [exact H9|lia].
Qed.

(* ------------------------------------------------------------------------------------------ *)
(** * From lex_initial to lex_opcode: the mnemonic *)

Lemma pfx_false c0 rest p0 p : (c0 =? p0) = false ->
  str_eqb (firstn (length (p0 :: p)) (c0 :: rest)) (p0 :: p) = false.
Proof. intros H. cbn [length firstn]. unfold str_eqb. cbn [list_eqb]. rewrite H. reflexivity. Qed.

Lemma start_ne c x : mem_z c ident_start = true -> mem_z x ident_start = false -> (c =? x) = false.
Proof. intros A B. destruct (c =? x) eqn:E; [|reflexivity]. apply Z.eqb_eq in E. subst. congruence. Qed.

Lemma slice_start_Zv s a v r out n : Zv s a v r out ->
  slice (inp s) (start s) (pos s + n) = v ++ firstn n r.
Proof.
  intros (H1 & H2 & H3 & _). unfold slice. rewrite H1, H2, H3.
  replace (length a + length v + n - length a)%nat with (length v + n)%nat by lia.
  rewrite skipn_app, skipn_all, Nat.sub_diag. cbn [skipn app].
  rewrite firstn_app. rewrite firstn_all2 by lia. f_equal. f_equal. lia.
Qed.

Lemma set_pos_fwd s a v w r out : Zv s a v (w ++ r) out ->
  Zv (set_pos s (pos s + length w)) a (v ++ w) r out.
Proof.
  intros (H1 & H2 & H3 & H4). unfold Zv, set_pos; cbn [inp start pos toks_rev].
  rewrite H1, H3, app_length, <- app_assoc. split; [reflexivity|]. split; [exact H2|]. split; [lia|exact H4].
Qed.

Lemma set_pos_back s a v w r out : Zv s a (v ++ w) r out ->
  Zv (set_pos s (length a + length v)) a v (w ++ r) out.
Proof.
  intros (H1 & H2 & H3 & H4). unfold Zv, set_pos; cbn [inp start pos toks_rev].
  rewrite H1, <- app_assoc. split; [reflexivity|]. split; [exact H2|]. split; [reflexivity|exact H4].
Qed.

(** a mnemonic: three characters, the first a letter or '_', its lower-case form in the table, and
    a blank, newline, '.' or the end of input after it *)
Definition mnemonic_ok (lx : lexicon) (mn : str) (nextc : Z) : Prop :=
  exists c0 c1 c2, mn = [c0; c1; c2] /\ mem_z c0 ident_start = true /\
    mem_str (map lower mn) (lx_mnemonics lx) = true /\ mem_z nextc [32; 10; 9; 46; 0] = true.

Lemma init_opcode lx F s a ws mn r out :
  Zv s a [] (ws ++ mn ++ r) out -> all_in blanks ws -> mnemonic_ok lx mn (hd 0 r) ->
  (length (inp s) + 1 < F)%nat ->
  exists s3, lex_initial lx F s = lex_opcode F lx s3 /\ Zv s3 (a ++ ws) mn r out.
Proof.
  intros H B (c0 & c1 & c2 & -> & M0 & Mm & Mn) HF.
  pose proof (Zv_len _ _ _ _ _ H) as L. lens.
  unfold lex_initial, ignore_run.
  destruct (accept_run_Zv blanks ws F s a [] _ out H B
              (mem_z_disj ident_start blanks eq_refl _ M0) ltac:(lia)) as (s1 & R & H1).
  rewrite R. cbn [lbind]. apply ignore_Zv in H1. cbn [app] in H1.
  set (s0 := ignore s1) in *. clearbody s0. clear R s1.
  rewrite (accept_Zv_false _ _ _ _ _ [59] H1 (mem_z_disj ident_start [59] eq_refl _ M0)). cbv beta iota.
  rewrite (accept_Zv_false _ _ _ _ _ digits H1 (start_not_digit _ M0)). cbv beta iota.
  rewrite (accept_Zv_false _ _ _ _ _ [43; 45; 38] H1 (mem_z_disj ident_start [43; 45; 38] eq_refl _ M0)).
  cbv beta iota.
  pose proof (start_ne c0 61 M0 eq_refl) as N61. pose proof (start_ne c0 33 M0 eq_refl) as N33.
  pose proof (start_ne c0 62 M0 eq_refl) as N62. pose proof (start_ne c0 60 M0 eq_refl) as N60.
  rewrite (accept_prefix_Zv_false _ _ _ _ _ [61; 61] H1 (pfx_false _ _ _ _ N61)). cbv beta iota.
  rewrite (accept_prefix_Zv_false _ _ _ _ _ [33; 61] H1 (pfx_false _ _ _ _ N33)). cbv beta iota.
  rewrite (accept_prefix_Zv_false _ _ _ _ _ [62; 62] H1 (pfx_false _ _ _ _ N62)). cbv beta iota.
  rewrite (accept_prefix_Zv_false _ _ _ _ _ [60; 60] H1 (pfx_false _ _ _ _ N60)). cbv beta iota.
  rewrite (accept_prefix_Zv_false _ _ _ _ _ [62] H1 (pfx_false _ _ _ _ N62)). cbn [accept_or fst snd].
  rewrite (accept_prefix_Zv_false _ _ _ _ _ [60] H1 (pfx_false _ _ _ _ N60)). cbn [accept_or fst snd].
  rewrite (accept_prefix_Zv_false _ _ _ _ _ [62; 61] H1 (pfx_false _ _ _ _ N62)). cbn [accept_or fst snd].
  rewrite (accept_prefix_Zv_false _ _ _ _ _ [60; 61] H1 (pfx_false _ _ _ _ N60)). cbn [accept_or fst snd].
  cbv beta iota.
  destruct (accept_Zv_true s0 _ [] c0 _ out ident_start H1 M0) as (s2 & A2 & H2).
  rewrite A2. cbv beta iota. cbn [app] in H2.
  destruct (backup_Zv s2 _ [] c0 _ out H2) as (s3 & B3 & H3). rewrite B3. cbn [lbind].
  unfold accept_opcode. rewrite (slice_start_Zv _ _ _ _ _ 3 H3).
  rewrite (Zv_peek_k _ _ _ _ _ 3%nat H3). cbn [app firstn nth].
  replace (nth 0 r 0) with (hd 0 r) by (destruct r; reflexivity).
  rewrite Mm, Mn. cbn [andb].
  exists (set_pos s3 (pos s3 + 3)). split; [reflexivity|].
  apply (set_pos_fwd s3 _ [] [c0; c1; c2] r out H3).
Qed.

(* ------------------------------------------------------------------------------------------ *)
(** * lex_opcode *)

(** the size suffix *)
Definition sfx_text (sz : option Z) : str := match sz with Some c => [46; c] | None => [] end.
Definition sfx_tok (sz : option Z) : list tk := match sz with Some c => [(T_OPCODE_SIZE, [c])] | None => [] end.

(** [s.ignore_run(" "); lex_operand(s)] on an operand *)
Lemma ignore_then_operand F s a km o ko sp L c1 cl kc c2 ke r out :
  Zv s a [] (spaces km ++ gen_text o ko sp L c1 cl kc c2 ke r) out ->
  seq_ok false L -> L <> [] ->
  (o = ONo -> ko = 0%nat /\ head_not_lparen L) ->
  ix_ok c1 -> ix_ok c2 -> (cl = CParen -> c1 <> None) -> (c1 = None -> cl = CNo -> ke = 0%nat) ->
  (length (inp s) + 1 < F)%nat ->
  exists s3 s' a' k',
    ignore_run F s [32] = LOk s3 /\ lex_operand F s3 = LOk s' /\
    Zv s' a' [] (spaces k' ++ 10 :: r) (rev (gen_toks o L c1 cl c2) ++ out) /\
    (length a < length a')%nat /\ length (inp s') = length (inp s).
Proof.
  intros H SL NE Hno Ok1 Ok2 Hcp Hke HF. pose proof (Zv_len _ _ _ _ _ H) as Len.
  destruct o.
  - (* no opening character: the blanks after the mnemonic merge with those before the first token *)
    destruct (Hno eq_refl) as [-> Hnl]. destruct L as [|[ty v] L']; [congruence|].
    unfold gen_text in H. cbn [open_text app spaces repeat_z join snd] in H.
    rewrite <- !app_assoc in H. rewrite app_assoc, spaces_app in H.
    pose proof SL as SL0. cbn [seq_ok] in SL. destruct SL as (K & _ & _).
    destruct (tk_ok_nonempty _ _ K) as (cv & v' & Ev & Hcv).
    unfold ignore_run.
    destruct (accept_run_Zv [32] (spaces (km + sp 0%nat)) F s a [] _ out H (spaces_all _)
                ltac:(rewrite Ev; exact Hcv)
                ltac:(pose proof (Zv_len _ _ _ _ _ H) as X; lens; lia)) as (s1 & R & H1).
    rewrite R. cbn [lbind]. apply ignore_Zv in H1. cbn [app] in H1.
    pose proof (Zv_len _ _ _ _ _ H) as Len0.
    set (spZ := fun i : nat => match i with O => O | _ => sp i end).
    assert (EZ : v ++ join sp 1 L' ++ ixpart c1 ++ after_close cl kc c2 ke r
                 = gen_text ONo 0 spZ ((ty, v) :: L') c1 cl kc c2 ke r).
    { unfold gen_text. cbn [open_text spaces repeat_z app join snd]. unfold spZ at 1.
      cbn [spaces repeat_z app]. rewrite <- app_assoc. f_equal. f_equal.
      apply join_ext. intros j Hj. unfold spZ. destruct j; [lia|reflexivity]. }
    rewrite EZ in H1.
    assert (L1 : length (inp (ignore s1)) = length (inp s)).
    { pose proof (Zv_len _ _ _ _ _ H1) as X. apply (f_equal (@length Z)) in EZ.
      rewrite <- EZ in X. clear - X Len0. unfold tk, str in *. lens. lia. }
    destruct (lex_operand_gen F (ignore s1) _ ONo 0%nat spZ ((ty, v) :: L') c1 cl kc c2 ke r out H1 SL0
                ltac:(discriminate) ltac:(intros _; right; exact Hnl) Ok1 Ok2 Hcp Hke ltac:(lia))
      as (s' & a' & k' & E & H' & La & Li).
    exists (ignore s1), s', a', k'. split; [reflexivity|]. split; [exact E|]. split; [exact H'|].
    split; [lens; lia|lia].
  - unfold ignore_run.
    destruct (accept_run_Zv [32] (spaces km) F s a [] _ out H (spaces_all _) eq_refl
                ltac:(unfold tk, str in *; lens; lia)) as (s1 & R & H1).
    rewrite R. cbn [lbind]. apply ignore_Zv in H1. cbn [app] in H1.
    assert (L1 : length (inp (ignore s1)) = length (inp s)).
    { pose proof (Zv_len _ _ _ _ _ H1) as X. unfold tk, str in *. lens. lia. }
    destruct (lex_operand_gen F (ignore s1) _ OSharp ko sp L c1 cl kc c2 ke r out H1 SL NE
                ltac:(discriminate) Ok1 Ok2 Hcp Hke ltac:(lia)) as (s' & a' & k' & E & H' & La & Li).
    exists (ignore s1), s', a', k'. split; [reflexivity|]. split; [exact E|]. split; [exact H'|].
    split; [lens; lia|lia].
  - unfold ignore_run.
    destruct (accept_run_Zv [32] (spaces km) F s a [] _ out H (spaces_all _) eq_refl
                ltac:(unfold tk, str in *; lens; lia)) as (s1 & R & H1).
    rewrite R. cbn [lbind]. apply ignore_Zv in H1. cbn [app] in H1.
    assert (L1 : length (inp (ignore s1)) = length (inp s)).
    { pose proof (Zv_len _ _ _ _ _ H1) as X. unfold tk, str in *. lens. lia. }
    destruct (lex_operand_gen F (ignore s1) _ OParen ko sp L c1 cl kc c2 ke r out H1 SL NE
                ltac:(discriminate) Ok1 Ok2 Hcp Hke ltac:(lia)) as (s' & a' & k' & E & H' & La & Li).
    exists (ignore s1), s', a', k'. split; [reflexivity|]. split; [exact E|]. split; [exact H'|].
    split; [lens; lia|lia].
  - unfold ignore_run.
    destruct (accept_run_Zv [32] (spaces km) F s a [] _ out H (spaces_all _) eq_refl
                ltac:(unfold tk, str in *; lens; lia)) as (s1 & R & H1).
    rewrite R. cbn [lbind]. apply ignore_Zv in H1. cbn [app] in H1.
    assert (L1 : length (inp (ignore s1)) = length (inp s)).
    { pose proof (Zv_len _ _ _ _ _ H1) as X. unfold tk, str in *. lens. lia. }
    destruct (lex_operand_gen F (ignore s1) _ OBracket ko sp L c1 cl kc c2 ke r out H1 SL NE
                ltac:(discriminate) Ok1 Ok2 Hcp Hke ltac:(lia)) as (s' & a' & k' & E & H' & La & Li).
    exists (ignore s1), s', a', k'. split; [reflexivity|]. split; [exact E|]. split; [exact H'|].
    split; [lens; lia|lia].
Qed.

Lemma lex_opcode_operand lx F s a mn sz km o ko sp L c1 cl kc c2 ke r out :
  Zv s a mn (sfx_text sz ++ spaces km ++ gen_text o ko sp L c1 cl kc c2 ke r) out ->
  match sz with
  | Some c => mem_z c size_chars = true
  | None => (1 <= km)%nat /\ mem_str (map lower mn) (lx_naked lx) = false
  end ->
  seq_ok false L -> L <> [] ->
  (o = ONo -> ko = 0%nat /\ head_not_lparen L) ->
  ix_ok c1 -> ix_ok c2 -> (cl = CParen -> c1 <> None) -> (c1 = None -> cl = CNo -> ke = 0%nat) ->
  (length (inp s) + 1 < F)%nat ->
  exists s' a' k',
    lex_opcode F lx s = LOk s' /\
    Zv s' a' [] (spaces k' ++ 10 :: r)
       (rev ((T_OPCODE, mn) :: sfx_tok sz ++ gen_toks o L c1 cl c2) ++ out) /\
    (length a < length a')%nat /\ length (inp s') = length (inp s).
Proof.
  intros H Hsz SL NE Hno Ok1 Ok2 Hcp Hke HF.
  unfold lex_opcode. change (slice (inp s) (start s) (pos s)) with (current_token_text s).
  rewrite (token_text_Zv _ _ _ _ _ H), (Zv_peek _ _ _ _ _ H).
  pose proof (emit_Zv _ _ _ _ _ T_OPCODE H) as He.
  assert (Le : length (inp (emit s T_OPCODE)) = length (inp s)) by reflexivity.
  destruct sz as [c|]; cbn [sfx_text sfx_tok app hd] in *.
  - (* with a size suffix *)
    change (46 =? 46) with true. cbn [negb]. rewrite andb_false_r.
    unfold lex_opcode_tail.
    destruct (accept_Zv_true _ _ _ _ _ _ [46] He eq_refl) as (s1 & A1 & H1). rewrite A1. cbv beta iota.
    unfold lex_opcode_size. apply ignore_Zv in H1. cbn [app] in H1.
    destruct (accept_Zv_true _ _ _ _ _ _ size_chars H1 Hsz) as (s2 & A2 & H2). rewrite A2. cbv beta iota.
    pose proof (emit_Zv _ _ _ _ _ T_OPCODE_SIZE H2) as H3. cbn [app] in H3.
    assert (L3 : length (inp (emit s2 T_OPCODE_SIZE)) = length (inp s)).
    { pose proof (Zv_len _ _ _ _ _ H3) as X. pose proof (Zv_len _ _ _ _ _ H) as Y.
      unfold tk, str in *. lens. lia. }
    destruct (ignore_then_operand F (emit s2 T_OPCODE_SIZE) _ km o ko sp L c1 cl kc c2 ke r _ H3 SL NE Hno
                Ok1 Ok2 Hcp Hke ltac:(lia)) as (s4 & s5 & a5 & k5 & E4 & E5 & H5 & La5 & Li5).
    rewrite E4. cbn [lbind]. rewrite E5. cbn [lbind].
    (* back in lex_opcode: blanks and lex_operand once more *)
    unfold ignore_run at 1.
    destruct (accept_run_Zv [32] (spaces k5) F s5 a5 [] (10 :: r) _ H5 (spaces_all _) eq_refl
                ltac:(pose proof (Zv_len _ _ _ _ _ H5) as X; lens; lia)) as (s6 & R6 & H6).
    rewrite R6. cbn [lbind]. apply ignore_Zv in H6. cbn [app] in H6.
    assert (L6 : length (inp (ignore s6)) = length (inp s)).
    { pose proof (Zv_len _ _ _ _ _ H6) as X. pose proof (Zv_len _ _ _ _ _ H5) as Y. lens. lia. }
    change (10 :: r) with (spaces 0 ++ 10 :: r) in H6.
    destruct (lex_operand_nothing F (ignore s6) _ 0%nat r _ H6 ltac:(lia)) as (s7 & a7 & E7 & H7 & L7).
    rewrite E7. exists s7, a7, 0%nat. split; [reflexivity|]. split; [|split; [|lia]].
    + cbn [rev app]. rewrite <- !app_assoc. cbn [app spaces repeat_z]. exact H7.
    + destruct H7 as (I1 & _ & I3 & _). destruct H6 as (J1 & _ & J3 & _).
      pose proof (f_equal (@length Z) I1) as X. pose proof (f_equal (@length Z) J1) as Y.
      cbn [length] in *. rewrite !app_length in X, Y. cbn [length] in X, Y. lens. lia.
  - (* without suffix *)
    destruct Hsz as [Hkm Hnk]. rewrite Hnk. cbn [andb].
    unfold lex_opcode_tail.
    assert (M : mem_z (hd 0 (spaces km ++ gen_text o ko sp L c1 cl kc c2 ke r)) [46] = false).
    { destruct km; [lia|reflexivity]. }
    rewrite (accept_Zv_false _ _ _ _ _ [46] He M). cbv beta iota. cbn [lbind].
    destruct (ignore_then_operand F (emit s T_OPCODE) _ km o ko sp L c1 cl kc c2 ke r _ He SL NE Hno
                Ok1 Ok2 Hcp Hke ltac:(lia)) as (s4 & s5 & a5 & k5 & E4 & E5 & H5 & La5 & Li5).
    rewrite E4. cbn [lbind]. rewrite E5.
    exists s5, a5, k5. split; [reflexivity|]. split; [|split; [lens; lia|lia]].
    cbn [rev app]. rewrite <- !app_assoc. cbn [app]. exact H5.
Qed.

Lemma spaces_tabs k : all_in [32; 9] (spaces k).
Proof. induction k; [constructor|]. rewrite spaces_S. constructor; [reflexivity|assumption]. Qed.

Lemma lex_opcode_naked lx F s a mn k r out :
  Zv s a mn (spaces k ++ 10 :: r) out -> mem_str (map lower mn) (lx_naked lx) = true ->
  (length (inp s) + 1 < F)%nat ->
  exists s', lex_opcode F lx s = LOk s' /\
             Zv s' (a ++ mn) [] (spaces k ++ 10 :: r) ((T_OPCODE_NAKED, mn) :: out).
Proof.
  intros H Hn HF. pose proof (Zv_len _ _ _ _ _ H) as Len.
  unfold lex_opcode. change (slice (inp s) (start s) (pos s)) with (current_token_text s).
  rewrite (token_text_Zv _ _ _ _ _ H), (Zv_peek _ _ _ _ _ H), Hn.
  assert (P : negb (hd 0 (spaces k ++ 10 :: r) =? 46) = true) by (destruct k; reflexivity).
  rewrite P. cbn [andb].
  pose proof (spaces_tabs k) as A.
  destruct (accept_run_Zv [32; 9] (spaces k) F s a mn (10 :: r) out H A eq_refl ltac:(lens; lia))
    as (s1 & R & H1).
  rewrite R. cbn [lbind]. nope H1 [59]. cbn [lbind].
  rewrite (Zv_peek _ _ _ _ _ H1). cbn [hd]. change (10 =? 10) with true. cbn [orb].
  destruct H as (_ & _ & P3 & _). rewrite P3.
  eexists. split; [reflexivity|].
  apply (emit_Zv _ _ _ _ _ T_OPCODE_NAKED). apply set_pos_back. exact H1.
Qed.

(* ------------------------------------------------------------------------------------------ *)
(** * The driver: "*=" line, then the instruction line *)

(** one iteration of Scanner.scan's loop on a state function that made progress *)
Lemma scan_progress lx n F s s' :
  lex_initial lx F s = LOk s' -> (pos s < length (inp s))%nat -> (pos s < pos s')%nat ->
  scan_loop (S n) F (lex_initial lx) s = scan_loop n F (lex_initial lx) s'.
Proof.
  intros E P1 P2. cbn [scan_loop].
  replace (pos s <? length (inp s))%nat with true by (symmetry; apply Nat.ltb_lt; lia).
  rewrite E. replace (pos s' =? pos s)%nat with false by (symmetry; apply Nat.eqb_neq; lia).
  reflexivity.
Qed.

Definition insn_gen_line (mn : str) (sz : option Z) (km : nat) (o : opening) (ko : nat) (sp : spacing)
           (L : list tk) (c1 : option (nat * Z)) (cl : closing) (kc : nat) (c2 : option (nat * Z)) (ke : nat) : str :=
  mn ++ sfx_text sz ++ spaces km ++ gen_text o ko sp L c1 cl kc c2 ke [].
Definition insn_gen_toks (eorg : sexpr) (mn : str) (sz : option Z) (o : opening) (L : list tk)
           (c1 : option (nat * Z)) (cl : closing) (c2 : option (nat * Z)) : list tk :=
  (T_STAR_EQ, [42; 61]) :: toks_of eorg ++ (T_OPCODE, mn) :: sfx_tok sz ++ gen_toks o L c1 cl c2.

(** the common beginning: "*=" and the origin expression *)
Definition org_src (sp0 : spacing) (eorg : sexpr) (line : str) : str :=
  [42; 61] ++ text_of sp0 eorg ++ 10 :: line.

Lemma scan_origin lx file sp0 eorg line n F :
  dlex eorg -> (length (org_src sp0 eorg line) + 1 < F)%nat ->
  exists s2 a2 k2,
    scan_loop (S (length (toks_of eorg) + n)) F (lex_initial lx) (init_sc file (org_src sp0 eorg line))
    = scan_loop n F (lex_initial lx) s2 /\
    Zv s2 a2 [] (spaces k2 ++ 10 :: line) (rev (toks_of eorg) ++ [(T_STAR_EQ, [42; 61])]) /\
    length (inp s2) = length (org_src sp0 eorg line).
Proof.
  intros Do HF. set (src := org_src sp0 eorg line) in *.
  assert (H0 : Zv (init_sc file src) [] [] src []) by (unfold Zv, init_sc; cbn; auto).
  unfold src at 2 in H0. unfold org_src in H0.
  destruct (scan_tok lx (length (toks_of eorg) + n) F (init_sc file src) [] [] T_STAR_EQ [42; 61] [42; 61] _ []
              H0 (Forall_nil _) (i_stareq lx) I HF) as (s1 & E1 & H1 & L1).
  rewrite E1. clear E1. cbn [app] in H1. rewrite text_of_join in H1.
  pose proof (seq_toks eorg (dlex_lexable _ Do) [] I) as Sq0. rewrite app_nil_r in Sq0.
  destruct (scan_segment lx sp0 F (10 :: line) eq_refl ltac:(discriminate)
              (toks_of eorg) false 0%nat n s1 _ _ H1 Sq0 (dlex_toks _ Do) ltac:(rewrite L1; exact HF))
    as (s2 & a2 & E2 & H2 & L2).
  rewrite E2. exists s2, a2, (sp0 (0 + length (toks_of eorg))%nat). split; [reflexivity|].
  split; [exact H2|]. rewrite L2, L1. reflexivity.
Qed.

(** I1, generic form: an instruction with an operand *)
Theorem scan_insn_gen lx file sp0 eorg mn sz km o ko sp L c1 cl kc c2 ke :
  dlex eorg ->
  mnemonic_ok lx mn (hd 0 (sfx_text sz ++ spaces km)) ->
  match sz with
  | Some c => mem_z c size_chars = true
  | None => (1 <= km)%nat /\ mem_str (map lower mn) (lx_naked lx) = false
  end ->
  seq_ok false L -> L <> [] ->
  (o = ONo -> ko = 0%nat /\ head_not_lparen L) ->
  ix_ok c1 -> ix_ok c2 -> (cl = CParen -> c1 <> None) -> (c1 = None -> cl = CNo -> ke = 0%nat) ->
  exists toks eof lines,
    scan lx file (org_src sp0 eorg (insn_gen_line mn sz km o ko sp L c1 cl kc c2 ke))
      = ScanOk (toks ++ [eof]) lines /\
    map tv toks = insn_gen_toks eorg mn sz o L c1 cl c2 /\ tv eof = (T_EOF, []).
Proof.
  intros Do Hmn Hsz SL NE Hno Ok1 Ok2 Hcp Hke.
  set (line := insn_gen_line mn sz km o ko sp L c1 cl kc c2 ke).
  set (src := org_src sp0 eorg line).
  set (n3 := (length src + 2)%nat).
  set (F := S (length (toks_of eorg) + S n3)).
  rewrite <- (scan_fuel_irrelevant lx file src F) by (unfold scan_fuel, F, n3; lia).
  unfold scan_with_fuel, scan_gen.
  assert (HF : (length src + 1 < F)%nat) by (unfold F, n3; lia).
  unfold F at 1.
  destruct (scan_origin lx file sp0 eorg line (S n3) F Do HF) as (s2 & a2 & k2 & E2 & H2 & L2).
  fold src in E2, L2. rewrite E2. clear E2.
  (* the instruction *)
  assert (B2 : all_in blanks (spaces k2 ++ [10])).
  { apply Forall_app. split; [apply blanks_spaces|repeat constructor]. }
  assert (H2' : Zv s2 a2 [] ((spaces k2 ++ [10]) ++ mn ++
                 (sfx_text sz ++ spaces km ++ gen_text o ko sp L c1 cl kc c2 ke []))
                 (rev (toks_of eorg) ++ [(T_STAR_EQ, [42; 61])])).
  { rewrite <- app_assoc. exact H2. }
  destruct (init_opcode lx F s2 a2 _ mn _ _ H2' B2) as (s3 & E3 & H3).
  { destruct Hmn as (c0 & c1' & c2' & Em & M0 & Mm & Mn). exists c0, c1', c2'.
    split; [exact Em|]. split; [exact M0|]. split; [exact Mm|].
    destruct sz as [c|]; cbn [sfx_text app hd] in *; [exact Mn|].
    destruct Hsz as [Hkm _]. destruct km; [lia|]. exact Mn. }
  { rewrite L2. exact HF. }
  assert (L3 : length (inp s3) = length src).
  { pose proof (Zv_len _ _ _ _ _ H3) as X. pose proof (Zv_len _ _ _ _ _ H2') as Y.
    unfold tk, str in *. lens. lia. }
  destruct (lex_opcode_operand lx F s3 _ mn sz km o ko sp L c1 cl kc c2 ke [] _ H3 Hsz SL NE Hno Ok1 Ok2 Hcp Hke
              ltac:(rewrite L3; exact HF)) as (s4 & a4 & k4 & E4 & H4 & La4 & L4).
  rewrite (scan_progress lx n3 F s2 s4).
  2:{ rewrite E3. exact E4. }
  2:{ destruct H2' as (_ & _ & P & _). pose proof (Zv_len _ _ _ _ _ H2) as X. rewrite P.
      destruct Hmn as (c0 & c1' & c2' & -> & _). lens. lia. }
  2:{ destruct H2' as (_ & _ & P & _). destruct H4 as (_ & _ & P4 & _). rewrite P, P4. lens. lia. }
  (* the end *)
  assert (B4 : all_in blanks (spaces k4 ++ [10])).
  { apply Forall_app. split; [apply blanks_spaces|repeat constructor]. }
  unfold n3. replace (length src + 2)%nat with (S (S (length src))) by lia.
  destruct (scan_finish lx (length src) F s4 a4 _ _ H4 B4 ltac:(rewrite L4, L3; exact HF))
    as (toks & eof & lines & E & T & Eo).
  exists toks, eof, lines. split; [exact E|]. split; [|exact Eo].
  rewrite T. unfold insn_gen_toks. rewrite !rev_app_distr, !rev_involutive. cbn [rev app].
  rewrite <- ?app_assoc. reflexivity.
Qed.

(** I1, the operand-less form: mnemonic, blanks, end of line *)
Theorem scan_insn_naked lx file sp0 eorg mn ke :
  dlex eorg -> mnemonic_ok lx mn (hd 0 (spaces ke ++ [10])) ->
  mem_str (map lower mn) (lx_naked lx) = true ->
  exists toks eof lines,
    scan lx file (org_src sp0 eorg (mn ++ spaces ke ++ [10])) = ScanOk (toks ++ [eof]) lines /\
    map tv toks = (T_STAR_EQ, [42; 61]) :: toks_of eorg ++ [(T_OPCODE_NAKED, mn)] /\ tv eof = (T_EOF, []).
Proof.
  intros Do Hmn Hnk.
  set (line := mn ++ spaces ke ++ [10]).
  set (src := org_src sp0 eorg line).
  set (n3 := (length src + 2)%nat).
  set (F := S (length (toks_of eorg) + S n3)).
  rewrite <- (scan_fuel_irrelevant lx file src F) by (unfold scan_fuel, F, n3; lia).
  unfold scan_with_fuel, scan_gen.
  assert (HF : (length src + 1 < F)%nat) by (unfold F, n3; lia).
  unfold F at 1.
  destruct (scan_origin lx file sp0 eorg line (S n3) F Do HF) as (s2 & a2 & k2 & E2 & H2 & L2).
  fold src in E2, L2. rewrite E2. clear E2.
  assert (B2 : all_in blanks (spaces k2 ++ [10])).
  { apply Forall_app. split; [apply blanks_spaces|repeat constructor]. }
  assert (H2' : Zv s2 a2 [] ((spaces k2 ++ [10]) ++ mn ++ (spaces ke ++ [10]))
                 (rev (toks_of eorg) ++ [(T_STAR_EQ, [42; 61])])).
  { rewrite <- app_assoc. exact H2. }
  destruct (init_opcode lx F s2 a2 _ mn _ _ H2' B2 Hmn ltac:(rewrite L2; exact HF)) as (s3 & E3 & H3).
  assert (L3 : length (inp s3) = length src).
  { pose proof (Zv_len _ _ _ _ _ H3) as X. pose proof (Zv_len _ _ _ _ _ H2') as Y. lens. lia. }
  destruct (lex_opcode_naked lx F s3 _ mn ke [] _ H3 Hnk ltac:(rewrite L3; exact HF)) as (s4 & E4 & H4).
  assert (L4 : length (inp s4) = length src).
  { pose proof (Zv_len _ _ _ _ _ H4) as X. pose proof (Zv_len _ _ _ _ _ H3) as Y. lens. lia. }
  rewrite (scan_progress lx n3 F s2 s4).
  2:{ rewrite E3. exact E4. }
  2:{ destruct H2' as (_ & _ & P & _). pose proof (Zv_len _ _ _ _ _ H2) as X. rewrite P.
      destruct Hmn as (c0 & c1' & c2' & -> & _). lens. lia. }
  2:{ destruct H2' as (_ & _ & P & _). destruct H4 as (_ & _ & P4 & _). rewrite P, P4.
      destruct Hmn as (c0 & c1' & c2' & -> & _). lens. lia. }
  assert (B4 : all_in blanks (spaces ke ++ [10])).
  { apply Forall_app. split; [apply blanks_spaces|repeat constructor]. }
  unfold n3. replace (length src + 2)%nat with (S (S (length src))) by lia.
  destruct (scan_finish lx (length src) F s4 _ _ _ H4 B4 ltac:(rewrite L4; exact HF))
    as (toks & eof & lines & E & T & Eo).
  exists toks, eof, lines. split; [exact E|]. split; [|exact Eo].
  rewrite T. cbn [rev]. rewrite !rev_app_distr, !rev_involutive. cbn [rev app].
  rewrite <- ?app_assoc. reflexivity.
Qed.

Print Assumptions scan_insn_gen.
Print Assumptions scan_insn_naked.
