(** Lemmas about the IPS format specification itself (Spec/IpsFormat.v): field coding, the record
    parser inverts the encoder, adjacent writes compose, a tiling applies like one write. *)
From Coq Require Import ZArith Lia Bool ZifyBool List Arith.
From A816 Require Import Spec.IpsFormat.
Open Scope Z_scope.
Ltac Zify.zify_post_hook ::= Z.to_euclidean_division_equations.

(** ** Fields *)
Lemma be3_decode o : 0 <= o < 16777216 ->
  (o / 65536) * 65536 + ((o / 256) mod 256) * 256 + o mod 256 = o.
Proof. lia. Qed.

Lemma be2_decode n : 0 <= n <= 65535 -> (n / 256) * 256 + n mod 256 = n.
Proof. lia. Qed.

Lemma be3_eof_test o : off_ok o ->
  (o / 65536 =? 69) && ((o / 256) mod 256 =? 79) && (o mod 256 =? 70) = false.
Proof. unfold off_ok, sentinel. intros [H1 H2]. lia. Qed.

Lemma wf_record_b_sound r : wf_record_b r = true <-> wf_record r.
Proof.
  destruct r; cbn [wf_record_b wf_record]; unfold off_ok_b, off_ok, sentinel; lia.
Qed.

(** ** List helpers *)
Lemma firstn_app_exact {A} (l1 l2 : list A) n : n = length l1 -> firstn n (l1 ++ l2) = l1.
Proof.
  intros ->. rewrite firstn_app, Nat.sub_diag, firstn_all. cbn. apply app_nil_r.
Qed.
Lemma skipn_app_exact {A} (l1 l2 : list A) n : n = length l1 -> skipn n (l1 ++ l2) = l2.
Proof.
  intros ->. rewrite skipn_app, Nat.sub_diag, skipn_all. reflexivity.
Qed.

Lemma skipn_skipn' {A} (l : list A) : forall m n, skipn n (skipn m l) = skipn (m + n) l.
Proof.
  induction l as [|x l IH]; intros m n.
  - now rewrite !skipn_nil.
  - destruct m; [reflexivity|]. cbn [skipn Nat.add]. apply IH.
Qed.

(** ** The record parser inverts the encoder *)
Lemma encode_cons r rs : encode (r :: rs) = enc_record r ++ encode rs.
Proof. reflexivity. Qed.
Lemma encode_app r1 r2 : encode (r1 ++ r2) = encode r1 ++ encode r2.
Proof. unfold encode. now rewrite flat_map_app. Qed.

Lemma parse_records_encode rs : forall tl fuel,
  Forall wf_record rs -> (length rs < fuel)%nat ->
  parse_records fuel (encode rs ++ eof_marker ++ tl) = Ok (rs, tl).
Proof.
  induction rs as [|r rs IH]; intros tl fuel Hwf Hfuel.
  - destruct fuel; [inversion Hfuel|]. reflexivity.
  - destruct fuel; [inversion Hfuel|].
    inversion Hwf as [|? ? Hr Hrs]; subst.
    cbn [length] in Hfuel. assert (Hf : (length rs < fuel)%nat) by lia.
    rewrite encode_cons, <- app_assoc.
    destruct r as [o d | o n v]; cbn [wf_record] in Hr.
    + destruct Hr as [Ho Hd].
      cbn [enc_record be3 be2 app parse_records].
      rewrite (be3_eof_test _ Ho).
      assert (Hsz : Z.of_nat (length d) / 256 * 256 + Z.of_nat (length d) mod 256 = Z.of_nat (length d)) by lia.
      rewrite Hsz.
      destruct (Z.of_nat (length d) =? 0) eqn:E0; [lia|].
      rewrite app_length.
      destruct (Z.of_nat (length d + length (encode rs ++ eof_marker ++ tl)) <? Z.of_nat (length d)) eqn:E1; [lia|].
      rewrite Nat2Z.id.
      rewrite skipn_app_exact, firstn_app_exact by reflexivity.
      rewrite (IH tl fuel Hrs Hf). cbn [bind].
      destruct Ho as [Ho _]. rewrite (be3_decode o Ho). reflexivity.
    + destruct Hr as [Ho [Hn Hv]].
      cbn [enc_record be3 be2 app parse_records].
      rewrite (be3_eof_test _ Ho).
      replace (0 * 256 + 0) with 0 by reflexivity. cbn [Z.eqb].
      rewrite (IH tl fuel Hrs Hf). cbn [bind].
      destruct Ho as [Ho _]. rewrite (be3_decode o Ho), (be2_decode n) by lia. reflexivity.
Qed.

Lemma encode_length rs : Forall wf_record rs -> (length rs <= length (encode rs))%nat.
Proof.
  induction 1 as [|r rs Hr _ IH]; [cbn; lia|].
  rewrite encode_cons, app_length. cbn [length].
  enough (1 <= length (enc_record r))%nat by lia.
  destruct r; cbn [enc_record be3 app length]; lia.
Qed.

Lemma parse_ips_file rs : Forall wf_record rs -> parse_ips (ips_file rs) = Ok (rs, []).
Proof.
  intros Hwf. unfold ips_file, magic. cbn [app parse_ips].
  rewrite <- (app_nil_r eof_marker) at 2.
  apply parse_records_encode; [assumption|].
  rewrite app_length. pose proof (encode_length rs Hwf). lia.
Qed.

(** Bytes after the marker are ignored. *)
Lemma parse_ips_file_trailing rs tl : Forall wf_record rs ->
  parse_ips (ips_file rs ++ tl) = Ok (rs, tl).
Proof.
  intros Hwf. unfold ips_file, magic. cbn [app parse_ips].
  rewrite <- !app_assoc.
  apply parse_records_encode; [assumption|].
  rewrite app_length. pose proof (encode_length rs Hwf). lia.
Qed.

Lemma apply_ips_file rs img : Forall wf_record rs ->
  apply_ips (ips_file rs) img = Ok (apply_records rs img).
Proof. intros H. unfold apply_ips. rewrite (parse_ips_file rs H). reflexivity. Qed.

(** The parser never runs out of fuel. *)
Lemma parse_records_fuel : forall fuel bs, (length bs < fuel)%nat -> parse_records fuel bs <> OutOfFuel.
Proof.
  induction fuel as [|fuel IH]; intros bs Hlen; [inversion Hlen|].
  cbn [parse_records].
  destruct bs as [|o2 [|o1 [|o0 after]]]; try discriminate.
  destruct ((o2 =? 69) && (o1 =? 79) && (o0 =? 70)); [discriminate|].
  destruct after as [|s1 [|s0 body]]; try discriminate.
  destruct (s1 * 256 + s0 =? 0).
  - destruct body as [|n1 [|n0 [|v rest]]]; try discriminate.
    specialize (IH rest). cbn [length] in Hlen.
    destruct (parse_records fuel rest) as [[rs tl]| |]; cbn [bind]; try discriminate.
    exfalso. apply IH; [lia|reflexivity].
  - destruct (Z.of_nat (length body) <? s1 * 256 + s0); [discriminate|].
    specialize (IH (skipn (Z.to_nat (s1 * 256 + s0)) body)).
    cbn [length] in Hlen. pose proof (skipn_length (Z.to_nat (s1 * 256 + s0)) body).
    destruct (parse_records fuel (skipn (Z.to_nat (s1 * 256 + s0)) body)) as [[rs tl]| |]; cbn [bind]; try discriminate.
    exfalso. apply IH; [lia|reflexivity].
Qed.

Lemma parse_ips_fuel f : parse_ips f <> OutOfFuel.
Proof.
  unfold parse_ips.
  repeat (match goal with |- context [match ?x with _ => _ end] => destruct x; try discriminate end).
  apply parse_records_fuel. lia.
Qed.

(** ** Writes *)
Lemma write_at_nil img a : write_at img a [] = img.
Proof. reflexivity. Qed.

Lemma write_at_length img a d : d <> [] ->
  length (write_at img a d) = Nat.max (Z.to_nat a + length d) (length img).
Proof.
  intros Hd. unfold write_at. destruct d as [|x d']; [congruence|].
  set (dd := x :: d'). set (o := Z.to_nat a).
  rewrite !app_length, firstn_length, repeat_length, skipn_length. lia.
Qed.

(** Two writes, the second starting where the first ends, are one write of the concatenation. *)
Lemma write_at_app img a d1 d2 : 0 <= a -> d1 <> [] ->
  write_at (write_at img a d1) (a + Z.of_nat (length d1)) d2 = write_at img a (d1 ++ d2).
Proof.
  intros Ha Hd1.
  destruct d2 as [|y d2']; [rewrite app_nil_r; reflexivity|].
  set (d2 := y :: d2').
  unfold write_at at 1. fold d2. cbv beta iota. unfold d2 at 1.
  replace (Z.to_nat (a + Z.of_nat (length d1))) with (Z.to_nat a + length d1)%nat by lia.
  set (o := Z.to_nat a).
  assert (HW : write_at img a d1 = (firstn o img ++ repeat 0 (o - length img)) ++ d1 ++ skipn (o + length d1) img).
  { unfold write_at. destruct d1; [congruence|]. fold o. now rewrite <- app_assoc. }
  assert (Hpre : length (firstn o img ++ repeat 0 (o - length img)) = o).
  { rewrite app_length, firstn_length, repeat_length. lia. }
  rewrite HW.
  set (pre := firstn o img ++ repeat 0 (o - length img)) in *.
  (* firstn (o + |d1|) of pre ++ d1 ++ tail *)
  assert (F : firstn (o + length d1) (pre ++ d1 ++ skipn (o + length d1) img) = pre ++ d1).
  { rewrite app_assoc. apply firstn_app_exact. rewrite app_length. lia. }
  assert (L : length (pre ++ d1 ++ skipn (o + length d1) img) = (o + length d1 + length (skipn (o + length d1) img))%nat).
  { rewrite !app_length. lia. }
  rewrite F, L.
  replace (o + length d1 - (o + length d1 + length (skipn (o + length d1) img)))%nat with 0%nat by lia.
  cbn [repeat app].
  assert (S : skipn (o + length d1 + length d2) (pre ++ d1 ++ skipn (o + length d1) img)
              = skipn (o + length (d1 ++ d2)) img).
  { rewrite app_assoc.
    rewrite skipn_app.
    replace (o + length d1 + length d2 - length (pre ++ d1))%nat with (length d2) by (rewrite app_length; lia).
    rewrite (skipn_all2 (pre ++ d1)) by (rewrite app_length; lia).
    cbn [app]. rewrite skipn_skipn', app_length. f_equal. lia. }
  rewrite S.
  unfold write_at. destruct (d1 ++ d2) eqn:E.
  - apply app_eq_nil in E. destruct E; congruence.
  - rewrite <- E. fold o. unfold pre. rewrite <- !app_assoc. reflexivity.
Qed.

Lemma apply_records_app r1 r2 img : apply_records (r1 ++ r2) img = apply_records r2 (apply_records r1 img).
Proof. unfold apply_records. apply fold_left_app. Qed.

(** The records of a tiling, applied in order, are one write of the tiled bytes. *)
Lemma tiles_apply a d rs : tiles a d rs -> forall img, 0 <= a -> apply_records rs img = write_at img a d.
Proof.
  induction 1 as [a | a d1 d2 rs Hd1 Ht IH]; intros img Ha.
  - reflexivity.
  - cbn [apply_records fold_left]. fold (apply_records rs (apply_record img (Plain a d1))).
    unfold apply_record at 1. cbn [rec_off rec_data].
    rewrite IH by lia. apply write_at_app; assumption.
Qed.

Lemma tiles_plain a d rs : tiles a d rs -> Forall is_plain rs.
Proof. induction 1; constructor; cbn; auto. Qed.

Lemma tiles_data a d rs : tiles a d rs -> concat (map rec_data rs) = d.
Proof. induction 1; cbn; [reflexivity|]. now rewrite IHtiles. Qed.

Lemma tiles_nil_inv a d rs : tiles a d rs -> d = [] -> rs = [].
Proof.
  destruct 1 as [|a d1 d2 rs Hd1 Ht]; intros E; [reflexivity|].
  apply app_eq_nil in E. destruct E; congruence.
Qed.
