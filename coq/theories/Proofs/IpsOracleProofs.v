(** Soundness of the C11 spec oracle (Oracle/C11o.v): when it answers [true] on a session that
    ended normally, the independent patcher applied to the observed file gives exactly the
    requested blocks written in order at their (shifted) addresses. *)
From Coq Require Import ZArith Lia Bool ZifyBool List Arith.
From A816 Require Import Spec.IpsFormat Oracle.C11o Proofs.IpsFormatProofs.
Open Scope Z_scope.

Lemma zlist_eqb_true (a b : list Z) : list_eqb Z.eqb a b = true -> a = b.
Proof.
  revert b. induction a as [|x a IH]; intros [|y b]; cbn [list_eqb]; try congruence.
  rewrite andb_true_iff, Z.eqb_eq. intros [-> H]. f_equal. auto.
Qed.

Lemma writes_eqb_true (a b : list (Z * bytes)) : list_eqb write_eqb a b = true -> a = b.
Proof.
  revert b. induction a as [|[x dx] a IH]; intros [|[y dy] b]; cbn [list_eqb]; try congruence.
  unfold write_eqb at 1. cbn [fst snd]. rewrite !andb_true_iff, Z.eqb_eq.
  intros [[-> Hd] H]. apply zlist_eqb_true in Hd. subst. f_equal. auto.
Qed.

Lemma apply_writes_cons a d ws img :
  apply_writes ((a, d) :: ws) img = apply_writes ws (write_at img a d).
Proof. reflexivity. Qed.

(** Dropping empty writes and merging adjacent ones does not change the effect. *)
Lemma merge_writes_sound : forall ws img,
  nonneg_writes ws = true -> apply_writes (merge_writes ws) img = apply_writes ws img.
Proof.
  induction ws as [|[a d] ws IH]; intros img Hnn; [reflexivity|].
  cbn [nonneg_writes forallb fst snd] in Hnn. apply andb_true_iff in Hnn. destruct Hnn as [Ha Hnn].
  fold (nonneg_writes ws) in Hnn.
  cbn [merge_writes]. destruct d as [|x d'].
  - rewrite apply_writes_cons, write_at_nil. apply IH. assumption.
  - set (d := x :: d') in *.
    assert (Hd : d <> []) by (unfold d; congruence).
    assert (Ha0 : 0 <= a) by (unfold d in Ha; lia).
    rewrite apply_writes_cons, <- (IH (write_at img a d) Hnn).
    destruct (merge_writes ws) as [|[a' d2] r']; [reflexivity|].
    destruct (a' =? a + Z.of_nat (length d)) eqn:E.
    + apply Z.eqb_eq in E. subst a'. rewrite !apply_writes_cons.
      now rewrite write_at_app.
    + reflexivity.
Qed.

Lemma writes_equiv_sound w1 w2 :
  writes_equiv w1 w2 = true -> apply_writes w1 empty_image = apply_writes w2 empty_image.
Proof.
  unfold writes_equiv.
  destruct (nonneg_writes w1 && nonneg_writes w2) eqn:Hnn; [|discriminate].
  apply andb_true_iff in Hnn. destruct Hnn as [H1 H2].
  destruct (list_eqb write_eqb (merge_writes w1) (merge_writes w2)) eqn:E.
  - intros _. apply writes_eqb_true in E.
    rewrite <- (merge_writes_sound w1 empty_image H1), <- (merge_writes_sound w2 empty_image H2).
    now rewrite E.
  - destruct ((extent w1 <=? 2000000) && (extent w2 <=? 2000000)); [|discriminate].
    apply zlist_eqb_true.
Qed.

Lemma apply_records_as_writes rs img :
  apply_records rs img = apply_writes (map (fun r => (rec_off r, rec_data r)) rs) img.
Proof.
  revert img. induction rs as [|r rs IH]; intros img; [reflexivity|].
  cbn [map]. rewrite apply_writes_cons. cbn [apply_records fold_left]. apply IH.
Qed.

(** The oracle's verdict on a normally ended session. *)
Theorem spec_ok_sound copier blocks file sfc :
  spec_ok copier blocks file (OOk tt) sfc = true ->
  exists rs, parse_ips file = Ok (rs, []) /\ Forall wf_record rs /\
             apply_ips file empty_image
             = Ok (apply_writes (map (fun b => (fst b + shift_of copier, snd b)) blocks) empty_image).
Proof.
  unfold spec_ok.
  destruct (parse_ips file) as [[rs tl]|e|] eqn:Hp; try discriminate.
  rewrite !andb_true_iff. intros [[[Htl Hwf] Heq] _].
  destruct tl; [|discriminate].
  exists rs. split; [reflexivity|]. split.
  - apply Forall_forall. intros r Hr. apply wf_record_b_sound.
    rewrite forallb_forall in Hwf. auto.
  - unfold apply_ips. rewrite Hp. cbn [bind]. f_equal.
    rewrite apply_records_as_writes. now apply writes_equiv_sound.
Qed.
