(** Proofs about the IPS writer model (C11), the two writer-agreement lemmas of C12
    ([sfc_is_ips], [copier_shift]) and the IPS reader model (C13). *)
From Coq Require Import ZArith Lia Bool ZifyBool List Arith.
From A816 Require Import Spec.IpsFormat Model.Ips Model.Sfc Proofs.BitLemmas Proofs.IpsFormatProofs.
Open Scope Z_scope.
Ltac Zify.zify_post_hook ::= Z.to_euclidean_division_equations.

(** ** Vocabulary of the statements *)

(** Offset added to every record when the copier-header option is on. *)
Definition shift (copier : bool) : Z := if copier then 512 else 0.
Definition shift_blocks (copier : bool) (blocks : list (Z * bytes)) : list (Z * bytes) :=
  map (fun b => (fst b + shift copier, snd b)) blocks.

(** The record starts of a block of [len] bytes whose first record starts at [a']:
    [a' + k * 65535] for every [k] with [k * 65535 < len]. *)
Definition all_starts_ok (a' len : Z) : Prop :=
  forall k, 0 <= k -> k * 65535 < len -> off_ok (a' + k * 65535).
Definition bad_start (a' len : Z) : Prop :=
  exists k, 0 <= k /\ k * 65535 < len /\ ~ off_ok (a' + k * 65535).

Definition blen (d : bytes) : Z := Z.of_nat (length d).

Lemma off_ok_dec s : {off_ok s} + {~ off_ok s}.
Proof.
  destruct (off_ok_b s) eqn:E; [left|right]; unfold off_ok_b, off_ok, sentinel in *; lia.
Qed.

Lemma zlist_eqb_eq (a b : list Z) : list_eqb Z.eqb a b = true <-> a = b.
Proof.
  revert b. induction a as [|x a IH]; intros [|y b]; cbn [list_eqb]; try (split; congruence).
  rewrite andb_true_iff, IH, Z.eqb_eq. split; [intros [-> ->]; reflexivity|intros E; inversion E; auto].
Qed.

(** ** wr_bind *)
Lemma wr_bind_ok (b : bytes) (k : unit -> wr) : wr_bind (b, Ok tt) k = (b ++ fst (k tt), snd (k tt)).
Proof. cbn [wr_bind]. destruct (k tt). reflexivity. Qed.
Lemma wr_bind_err (b : bytes) (e : errk) (k : unit -> wr) : wr_bind (b, Err e) k = (b, Err e).
Proof. reflexivity. Qed.

(** ** write_block_header *)
Lemma header_addr (c : bool) (a : Z) : (if c then a + 512 else a) = a + shift c.
Proof. destruct c; cbn [shift]; lia. Qed.

Lemma header_ok c sl a :
  off_ok (a + shift c) -> blen sl <= 65535 ->
  ips_write_block_header c sl a = (be3 (a + shift c) ++ be2 (blen sl), Ok tt).
Proof.
  intros [Hr Hs] Hl. unfold ips_write_block_header, blen in *. rewrite header_addr.
  remember (a + shift c) as a' eqn:Ea. clear Ea. unfold sentinel in Hs.
  destruct (a' =? 4542278) eqn:E; [exfalso; lia|].
  rewrite shiftr16, land_65535. unfold pack_BH, pack_H.
  destruct ((0 <=? a' / 65536) && (a' / 65536 <=? 255) && (0 <=? a' mod 65536) && (a' mod 65536 <=? 65535)) eqn:E1; [|exfalso; lia].
  destruct ((0 <=? Z.of_nat (length sl)) && (Z.of_nat (length sl) <=? 65535)) eqn:E2; [|exfalso; lia].
  unfold be3, be2. cbn [app].
  replace (a' mod 65536 / 256) with (a' / 256 mod 256) by lia.
  replace (a' mod 65536 mod 256) with (a' mod 256) by lia. reflexivity.
Qed.

Lemma header_bad c sl a :
  ~ off_ok (a + shift c) -> exists e, ips_write_block_header c sl a = ([], Err e).
Proof.
  intros Hn. unfold ips_write_block_header. rewrite header_addr.
  remember (a + shift c) as a' eqn:Ea. clear Ea.
  destruct (a' =? 4542278) eqn:E; [eexists; reflexivity|].
  rewrite shiftr16, land_65535. unfold pack_BH.
  destruct ((0 <=? a' / 65536) && (a' / 65536 <=? 255) && (0 <=? a' mod 65536) && (a' mod 65536 <=? 65535)) eqn:E1.
  - exfalso. apply Hn. unfold off_ok, sentinel. lia.
  - eexists; reflexivity.
Qed.

(** ** write_block *)
Lemma write_block_unfold f c d a : d <> [] ->
  ips_write_block (S f) c d a =
  let slice_size := Z.min 65535 (blen d) in
  let n := Z.to_nat slice_size in
  wr_bind (ips_write_block_header c (firstn n d) a) (fun _ =>
  wr_bind (firstn n d, Ok tt) (fun _ => ips_write_block f c (skipn n d) (a + slice_size))).
Proof. destruct d; [congruence|reflexivity]. Qed.

(** The whole behaviour of one write_block call, by induction on the fuel:
    - either it returns normally: what it appended is the encoding of valid records that tile
      the block, and every record start is representable;
    - or it raises: some record start is not representable; what it appended is the encoding
      of valid records tiling the part of the block before that start.
    Running out of fuel is not among the cases. *)
Lemma write_block_spec c : forall fuel d a,
  (length d < fuel)%nat ->
  (exists rs, ips_write_block fuel c d a = (encode rs, Ok tt) /\
              tiles (a + shift c) d rs /\ Forall wf_record rs /\
              all_starts_ok (a + shift c) (blen d))
  \/
  (exists rs e d1 d2 k,
      ips_write_block fuel c d a = (encode rs, Err e) /\
      d = d1 ++ d2 /\ d2 <> [] /\ tiles (a + shift c) d1 rs /\ Forall wf_record rs /\
      0 <= k /\ blen d1 = k * 65535 /\ ~ off_ok (a + shift c + k * 65535)).
Proof.
  induction fuel as [|fuel IH]; intros d a Hlen; [inversion Hlen|].
  destruct d as [|x d'].
  { left. exists []. cbn [ips_write_block encode flat_map].
    split; [reflexivity|]. split; [constructor|]. split; [constructor|].
    intros k Hk Hk'. unfold blen in Hk'. cbn [length] in Hk'. lia. }
  set (d := x :: d') in *.
  assert (Hne : d <> []) by (unfold d; congruence).
  assert (Hpos : 1 <= blen d) by (unfold blen, d; cbn [length]; lia).
  rewrite (write_block_unfold fuel c d a Hne). cbv zeta.
  set (ss := Z.min 65535 (blen d)).
  set (n := Z.to_nat ss).
  assert (Hn : (1 <= n <= length d)%nat) by (unfold n, ss, blen in *; lia).
  set (sl := firstn n d). set (rest := skipn n d).
  assert (Hsplit : d = sl ++ rest) by (unfold sl, rest; now rewrite firstn_skipn).
  assert (Hsl : length sl = n) by (unfold sl; apply firstn_length_le; lia).
  assert (Hslz : blen sl = ss) by (unfold blen; rewrite Hsl; unfold n, ss, blen in *; lia).
  assert (Hrest : blen rest = blen d - ss).
  { unfold blen, rest. rewrite skipn_length. unfold n, ss, blen in *. lia. }
  assert (Hslne : sl <> []) by (intros E; rewrite E in Hsl; cbn in Hsl; lia).
  destruct (off_ok_dec (a + shift c)) as [Hok|Hbad].
  - (* first record start representable *)
    rewrite (header_ok c sl a Hok) by (rewrite Hslz; unfold ss; lia).
    rewrite wr_bind_ok, wr_bind_ok. cbn [fst snd].
    assert (Hlen' : (length rest < fuel)%nat).
    { unfold rest. rewrite skipn_length. cbn [length] in Hlen. fold d in Hlen. lia. }
    assert (Haddr : a + ss + shift c = a + shift c + blen sl) by lia.
    destruct (IH rest (a + ss) Hlen') as
      [[rs [Hrun [Ht [Hwf Hall]]]] | [rs [e [d1 [d2 [k [Hrun [Hd [Hd2 [Ht [Hwf [Hk [Hd1 Hno]]]]]]]]]]]]].
    + left. exists (Plain (a + shift c) sl :: rs). rewrite Hrun. cbn [fst snd].
      split; [|split; [|split]].
      * rewrite encode_cons. cbn [enc_record]. fold (blen sl). rewrite <- !app_assoc. reflexivity.
      * rewrite Hsplit. apply tiles_cons; [assumption|]. fold (blen sl). rewrite <- Haddr. exact Ht.
      * constructor; [|assumption]. cbn [wf_record]. fold (blen sl). split; [assumption|]. unfold ss in *; lia.
      * intros j Hj Hj'.
        destruct (Z.eq_dec j 0) as [->|Hj0]; [rewrite Z.mul_0_l, Z.add_0_r; assumption|].
        assert (Hss : ss = 65535) by (unfold ss; lia).
        specialize (Hall (j - 1)).
        replace (a + ss + shift c + (j - 1) * 65535) with (a + shift c + j * 65535) in Hall by lia.
        apply Hall; lia.
    + right. exists (Plain (a + shift c) sl :: rs), e, (sl ++ d1), d2, (k + 1).
      rewrite Hrun. cbn [fst snd].
      assert (Hss : ss = 65535).
      { assert (1 <= blen rest).
        { rewrite Hd. unfold blen. rewrite app_length. destruct d2; [congruence|]. cbn [length]. lia. }
        unfold ss in *. lia. }
      split; [|split; [|split; [|split; [|split; [|split; [|split]]]]]].
      * rewrite encode_cons. cbn [enc_record]. fold (blen sl). rewrite <- !app_assoc. reflexivity.
      * rewrite Hsplit, Hd. now rewrite app_assoc.
      * assumption.
      * apply tiles_cons; [assumption|]. fold (blen sl). rewrite <- Haddr. exact Ht.
      * constructor; [|assumption]. cbn [wf_record]. fold (blen sl). split; [assumption|]. lia.
      * lia.
      * unfold blen in *. rewrite app_length. lia.
      * replace (a + shift c + (k + 1) * 65535) with (a + ss + shift c + k * 65535) by lia. exact Hno.
  - (* refused before anything of this block is written *)
    destruct (header_bad c sl a Hbad) as [e He]. rewrite He, wr_bind_err.
    right. exists [], e, [], d, 0.
    repeat split; try constructor; try assumption; try lia.
    rewrite Z.mul_0_l, Z.add_0_r. exact Hbad.
Qed.

Lemma all_starts_not_bad a' len : all_starts_ok a' len -> bad_start a' len -> False.
Proof. intros H [k [Hk [Hk' Hn]]]. exact (Hn (H k Hk Hk')). Qed.

Lemma write_block_accept c d a :
  all_starts_ok (a + shift c) (blen d) ->
  exists rs, ips_write_block_call c d a = (encode rs, Ok tt) /\
             tiles (a + shift c) d rs /\ Forall wf_record rs.
Proof.
  intros Hall. unfold ips_write_block_call.
  destruct (write_block_spec c (S (length d)) d a (Nat.lt_succ_diag_r _)) as
    [[rs [Hrun [Ht [Hwf _]]]] | [rs [e [d1 [d2 [k [_ [Hd [Hd2 [_ [_ [Hk [Hd1 Hno]]]]]]]]]]]]].
  - exists rs. auto.
  - exfalso. apply Hno, Hall; [assumption|].
    rewrite <- Hd1, Hd. unfold blen. rewrite app_length. destruct d2; [congruence|]. cbn [length]. lia.
Qed.

Lemma write_block_refuse c d a :
  bad_start (a + shift c) (blen d) -> exists out e, ips_write_block_call c d a = (out, Err e).
Proof.
  intros Hbad. unfold ips_write_block_call.
  destruct (write_block_spec c (S (length d)) d a (Nat.lt_succ_diag_r _)) as
    [[rs [_ [_ [_ Hall]]]] | [rs [e [d1 [d2 [k [Hrun _]]]]]]].
  - exfalso. exact (all_starts_not_bad _ _ Hall Hbad).
  - eauto.
Qed.

Lemma write_block_fuel c d a : snd (ips_write_block_call c d a) <> OutOfFuel.
Proof.
  unfold ips_write_block_call.
  destruct (write_block_spec c (S (length d)) d a (Nat.lt_succ_diag_r _)) as
    [[rs [Hrun _]] | [rs [e [d1 [d2 [k [Hrun _]]]]]]]; rewrite Hrun; discriminate.
Qed.

Lemma write_block_empty c a : ips_write_block_call c [] a = ([], Ok tt).
Proof. reflexivity. Qed.

(** ** A sequence of write_block calls *)
Lemma tiles_seq_app w1 w2 r1 r2 : tiles_seq w1 r1 -> tiles_seq w2 r2 -> tiles_seq (w1 ++ w2) (r1 ++ r2).
Proof.
  induction 1 as [|a d ws ra rb Ht Hs IH]; intros H2; [exact H2|].
  rewrite <- app_assoc. cbn [app]. constructor; auto.
Qed.

Definition block_ok (c : bool) (b : Z * bytes) : Prop := all_starts_ok (fst b + shift c) (blen (snd b)).
Definition block_bad (c : bool) (b : Z * bytes) : Prop := bad_start (fst b + shift c) (blen (snd b)).

Lemma write_blocks_spec c : forall blocks,
  (exists rs, ips_write_blocks c blocks = (encode rs, Ok tt) /\
              tiles_seq (shift_blocks c blocks) rs /\ Forall wf_record rs /\ Forall (block_ok c) blocks)
  \/
  (exists rs e pre a d1 d2 post,
      ips_write_blocks c blocks = (encode rs, Err e) /\
      blocks = pre ++ (a, d1 ++ d2) :: post /\ d2 <> [] /\
      tiles_seq (shift_blocks c (pre ++ [(a, d1)])) rs /\ Forall wf_record rs /\
      Forall (block_ok c) pre /\ block_bad c (a, d1 ++ d2) /\ ~ off_ok (a + shift c + blen d1)).
Proof.
  induction blocks as [|[a d] blocks IH].
  - left. exists []. repeat split; constructor.
  - cbn [ips_write_blocks]. unfold ips_write_block_call.
    destruct (write_block_spec c (S (length d)) d a (Nat.lt_succ_diag_r _)) as
      [[r1 [Hrun [Ht [Hwf Hall]]]] | [r1 [e [d1 [d2 [k [Hrun [Hd [Hd2 [Ht [Hwf [Hk [Hd1 Hno]]]]]]]]]]]]].
    + rewrite Hrun, wr_bind_ok.
      destruct IH as [[r2 [Hrun2 [Hts [Hwf2 Hall2]]]] | [r2 [e [pre [a' [d1 [d2 [post [Hrun2 [Hb [Hd2 [Hts [Hwf2 [Hpre [Hbad Hst]]]]]]]]]]]]]]].
      * left. exists (r1 ++ r2). rewrite Hrun2. cbn [fst snd]. rewrite encode_app.
        repeat split.
        -- cbn [shift_blocks map fst snd]. constructor; assumption.
        -- apply Forall_app; auto.
        -- constructor; assumption.
      * right. exists (r1 ++ r2), e, ((a, d) :: pre), a', d1, d2, post.
        rewrite Hrun2. cbn [fst snd]. rewrite encode_app. repeat split.
        -- rewrite Hb. reflexivity.
        -- assumption.
        -- cbn [app shift_blocks map fst snd]. constructor; assumption.
        -- apply Forall_app; auto.
        -- constructor; assumption.
        -- assumption.
        -- assumption.
    + rewrite Hrun, wr_bind_err.
      right. exists r1, e, [], a, d1, d2, blocks. repeat split.
      * rewrite Hd. reflexivity.
      * assumption.
      * cbn [app shift_blocks map fst snd]. rewrite <- (app_nil_r r1). constructor; [assumption|constructor].
      * assumption.
      * constructor.
      * exists k. cbn [fst snd]. repeat split; try assumption.
        rewrite <- Hd1. unfold blen. rewrite app_length. destruct d2; [congruence|]. cbn [length]. lia.
      * rewrite Hd1. exact Hno.
Qed.

(** ** The session: begin, blocks, end *)
Lemma session_spec c blocks :
  (exists rs, ips_session c blocks = (ips_file rs, Ok tt) /\
              tiles_seq (shift_blocks c blocks) rs /\ Forall wf_record rs /\ Forall (block_ok c) blocks)
  \/
  (exists rs e pre a d1 d2 post,
      ips_session c blocks = (magic ++ encode rs, Err e) /\
      blocks = pre ++ (a, d1 ++ d2) :: post /\ d2 <> [] /\
      tiles_seq (shift_blocks c (pre ++ [(a, d1)])) rs /\ Forall wf_record rs /\
      Forall (block_ok c) pre /\ block_bad c (a, d1 ++ d2) /\ ~ off_ok (a + shift c + blen d1)).
Proof.
  unfold ips_session, ips_begin, ips_end.
  destruct (write_blocks_spec c blocks) as
    [[rs [Hrun H]] | [rs [e [pre [a [d1 [d2 [post [Hrun H]]]]]]]]].
  - left. exists rs. rewrite Hrun, wr_bind_ok. cbn [fst snd]. rewrite wr_bind_ok. cbn [fst snd].
    split; [reflexivity|exact H].
  - right. exists rs, e, pre, a, d1, d2, post. rewrite Hrun, wr_bind_ok. cbn [wr_bind fst snd].
    split; [reflexivity|exact H].
Qed.

Lemma ips_write_ok_inv c blocks f :
  ips_write c blocks = Ok f ->
  exists rs, f = ips_file rs /\ tiles_seq (shift_blocks c blocks) rs /\ Forall wf_record rs /\
             Forall (block_ok c) blocks.
Proof.
  unfold ips_write.
  destruct (session_spec c blocks) as
    [[rs [Hrun H]] | [rs [e [pre [a [d1 [d2 [post [Hrun H]]]]]]]]]; rewrite Hrun; intros E; inversion E.
  exists rs. auto.
Qed.

Lemma tiles_seq_plain ws rs : tiles_seq ws rs -> Forall is_plain rs.
Proof.
  induction 1; [constructor|]. apply Forall_app. split; [eapply tiles_plain; eassumption|assumption].
Qed.

(** C11_wellformed *)
Lemma ips_write_wellformed c blocks f :
  ips_write c blocks = Ok f ->
  exists rs, f = ips_file rs /\ Forall wf_record rs /\ Forall is_plain rs /\
             tiles_seq (shift_blocks c blocks) rs.
Proof.
  intros H. destruct (ips_write_ok_inv c blocks f H) as [rs [Hf [Hts [Hwf _]]]].
  exists rs. repeat split; auto. eapply tiles_seq_plain; eassumption.
Qed.

Lemma ips_write_fuel c blocks : ips_write c blocks <> OutOfFuel.
Proof.
  unfold ips_write.
  destruct (session_spec c blocks) as
    [[rs [Hrun H]] | [rs [e [pre [a [d1 [d2 [post [Hrun H]]]]]]]]]; rewrite Hrun; discriminate.
Qed.

(** Applying a tiling whose records are valid = one write (an empty block has no record). *)
Lemma tiles_wf_apply a d rs img :
  tiles a d rs -> Forall wf_record rs -> apply_records rs img = write_at img a d.
Proof.
  intros Ht Hwf. destruct Ht as [a | a d1 d2 rs Hd1 Ht]; [reflexivity|].
  assert (0 <= a).
  { inversion Hwf as [|? ? Hr _]; subst. cbn [wf_record] in Hr. unfold off_ok in Hr. lia. }
  apply tiles_apply; [|assumption]. constructor; assumption.
Qed.

Lemma tiles_seq_apply ws rs : tiles_seq ws rs -> Forall wf_record rs ->
  forall img, apply_records rs img = apply_writes ws img.
Proof.
  induction 1 as [|a d ws r1 r2 Ht Hs IH]; intros Hwf img; [reflexivity|].
  apply Forall_app in Hwf. destruct Hwf as [Hw1 Hw2].
  rewrite apply_records_app, (tiles_wf_apply a d r1 img Ht Hw1).
  cbn [apply_writes fold_left fst snd]. apply IH. assumption.
Qed.

(** C11_apply *)
Lemma ips_write_apply c blocks f img :
  ips_write c blocks = Ok f ->
  apply_ips f img = Ok (apply_writes (shift_blocks c blocks) img).
Proof.
  intros H. destruct (ips_write_ok_inv c blocks f H) as [rs [-> [Hts [Hwf _]]]].
  rewrite (apply_ips_file rs img Hwf). f_equal. apply tiles_seq_apply; assumption.
Qed.

(** C11_refuse / C11_accept *)
Lemma Forall_Exists_absurd {A} (P Q : A -> Prop) l :
  (forall x, P x -> Q x -> False) -> Forall P l -> Exists Q l -> False.
Proof.
  intros HPQ HF HE. induction HE as [x l Hx | x l _ IH]; inversion HF; subst; eauto.
Qed.

Lemma ips_write_refuse c blocks :
  Exists (block_bad c) blocks -> exists e, ips_write c blocks = Err e.
Proof.
  intros HE. unfold ips_write.
  destruct (session_spec c blocks) as
    [[rs [Hrun [_ [_ Hall]]]] | [rs [e [pre [a [d1 [d2 [post [Hrun H]]]]]]]]]; rewrite Hrun.
  - exfalso. eapply (Forall_Exists_absurd (block_ok c) (block_bad c)); try eassumption.
    intros b. apply all_starts_not_bad.
  - eauto.
Qed.

Lemma ips_write_accept c blocks :
  Forall (block_ok c) blocks -> exists rs, ips_write c blocks = Ok (ips_file rs).
Proof.
  intros HF. unfold ips_write.
  destruct (session_spec c blocks) as
    [[rs [Hrun _]] | [rs [e [pre [a [d1 [d2 [post [Hrun [Hb [_ [_ [_ [_ [Hbad _]]]]]]]]]]]]]]]; rewrite Hrun.
  - eauto.
  - exfalso. rewrite Hb in HF. apply Forall_app in HF. destruct HF as [_ HF].
    inversion HF as [|? ? Hok _]; subst. exact (all_starts_not_bad _ _ Hok Hbad).
Qed.


(** What is in the file after a refusal: the header and the whole records written before the
    refused record start - nothing of that record, no marker. *)
Lemma ips_session_refused c blocks f e :
  ips_session c blocks = (f, Err e) ->
  exists rs pre a d1 d2 post,
    f = magic ++ encode rs /\ blocks = pre ++ (a, d1 ++ d2) :: post /\ d2 <> [] /\
    tiles_seq (shift_blocks c (pre ++ [(a, d1)])) rs /\ Forall wf_record rs /\
    ~ off_ok (a + shift c + blen d1).
Proof.
  intros H.
  destruct (session_spec c blocks) as
    [[rs [Hrun _]] | [rs [e' [pre [a [d1 [d2 [post [Hrun [Hb [Hd2 [Hts [Hwf [_ [_ Hst]]]]]]]]]]]]]]];
    rewrite Hrun in H; inversion H; subst.
  exists rs, pre, a, d1, d2, post. auto 10.
Qed.

(** ** C12: the copier header shifts every record by exactly 0x200 *)
Lemma header_copier sl a :
  ips_write_block_header true sl a = ips_write_block_header false sl (a + 512).
Proof. reflexivity. Qed.

Lemma write_block_copier : forall fuel d a,
  ips_write_block fuel true d a = ips_write_block fuel false d (a + 512).
Proof.
  induction fuel as [|fuel IH]; intros d a; [reflexivity|].
  destruct d as [|x d']; [reflexivity|].
  set (d := x :: d'). assert (Hne : d <> []) by (unfold d; congruence).
  rewrite !(write_block_unfold _ _ d _ Hne). cbv zeta.
  rewrite header_copier.
  replace (a + 512 + Z.min 65535 (blen d)) with (a + Z.min 65535 (blen d) + 512) by lia.
  unfold wr_bind.
  destruct (ips_write_block_header false (firstn (Z.to_nat (Z.min 65535 (blen d))) d) (a + 512)) as [b [u|e|]];
    try reflexivity.
  rewrite IH. reflexivity.
Qed.

Lemma write_blocks_copier blocks :
  ips_write_blocks true blocks = ips_write_blocks false (shift_blocks true blocks).
Proof.
  induction blocks as [|[a d] blocks IH]; [reflexivity|].
  change (shift_blocks true ((a, d) :: blocks)) with ((a + 512, d) :: shift_blocks true blocks).
  cbn [ips_write_blocks]. unfold ips_write_block_call.
  rewrite write_block_copier, IH. reflexivity.
Qed.

Lemma session_copier blocks :
  ips_session true blocks = ips_session false (shift_blocks true blocks).
Proof. unfold ips_session. now rewrite write_blocks_copier. Qed.

Lemma copier_shift blocks :
  ips_write true blocks = ips_write false (shift_blocks true blocks).
Proof. unfold ips_write. now rewrite session_copier. Qed.

(** ** C12: the flat image is the patch applied to an empty image *)
Lemma seek_write_write_at img a d : seek_write img (Z.to_nat a) d = write_at img a d.
Proof.
  unfold seek_write, write_at. destruct d as [|x d']; [reflexivity|].
  set (d := x :: d'). set (o := Z.to_nat a).
  destruct (Nat.leb o (length img)) eqn:E.
  - apply Nat.leb_le in E. replace (o - length img)%nat with 0%nat by lia. reflexivity.
  - apply Nat.leb_gt in E.
    rewrite firstn_all2 by lia. rewrite (skipn_all2 img) by lia. now rewrite app_nil_r.
Qed.

Lemma sfc_write_blocks_ok : forall blocks img im,
  sfc_write_blocks blocks img = Ok im -> im = apply_writes blocks img.
Proof.
  induction blocks as [|[a d] blocks IH]; intros img im H.
  - cbn in H. now inversion H.
  - cbn [sfc_write_blocks] in H. unfold sfc_write_block in H.
    destruct (a <? 0); cbn [bind] in H; [discriminate|].
    rewrite seek_write_write_at in H. apply IH in H. exact H.
Qed.

Lemma sfc_write_blocks_defined : forall blocks img,
  Forall (fun b => 0 <= fst b) blocks ->
  sfc_write_blocks blocks img = Ok (apply_writes blocks img).
Proof.
  induction blocks as [|[a d] blocks IH]; intros img H; [reflexivity|].
  inversion H as [|? ? Ha Hr]; subst. cbn [fst] in Ha.
  cbn [sfc_write_blocks]. unfold sfc_write_block.
  destruct (a <? 0) eqn:E; [exfalso; lia|]. cbn [bind]. rewrite seek_write_write_at. apply IH. assumption.
Qed.

Lemma shift_blocks_false blocks : shift_blocks false blocks = blocks.
Proof.
  unfold shift_blocks. rewrite <- (map_id blocks) at 2. apply map_ext.
  intros [a d]. cbn [fst snd shift]. now rewrite Z.add_0_r.
Qed.

(** The two files are compared as byte lists: same length, same bytes - both writers zero-fill
    a gap below a later write and neither appends anything after the last byte written. *)
Lemma sfc_is_ips blocks f im :
  ips_write false blocks = Ok f -> sfc_image blocks = Ok im ->
  apply_ips f empty_image = Ok im.
Proof.
  intros Hi Hs. rewrite (ips_write_apply false blocks f empty_image Hi), shift_blocks_false.
  unfold sfc_image in Hs. apply sfc_write_blocks_ok in Hs. now subst.
Qed.

(** SFCWriter only refuses a negative seek position (which IPSWriter accepts for an empty block). *)
Lemma sfc_image_defined blocks :
  Forall (fun b => 0 <= fst b) blocks -> sfc_image blocks = Ok (apply_writes blocks empty_image).
Proof. apply sfc_write_blocks_defined. Qed.

(** ** Reader *)
Lemma read_exactly_app n d tl : length d = n -> read_exactly n (d ++ tl) = Ok (d, tl).
Proof.
  intros H. unfold read_exactly, file_read.
  rewrite firstn_app_exact, skipn_app_exact by auto. rewrite H, Nat.eqb_refl. reflexivity.
Qed.

Lemma read_exactly_short n l : (length l < n)%nat -> read_exactly n l = Err ERuntime.
Proof.
  intros H. unfold read_exactly, file_read. rewrite firstn_all2 by lia.
  destruct (Nat.eqb (length l) n) eqn:E; [apply Nat.eqb_eq in E; lia|reflexivity].
Qed.

Lemma read_exactly_inv n l d tl : read_exactly n l = Ok (d, tl) -> l = d ++ tl /\ length d = n.
Proof.
  unfold read_exactly, file_read. destruct (Nat.eqb (length (firstn n l)) n) eqn:E; [|discriminate].
  intros H. inversion H; subst. apply Nat.eqb_eq in E. split; [now rewrite firstn_skipn|assumption].
Qed.

Lemma read_exactly_cases n l :
  (exists d tl, read_exactly n l = Ok (d, tl)) \/ read_exactly n l = Err ERuntime.
Proof.
  unfold read_exactly, file_read. destruct (Nat.eqb (length (firstn n l)) n); eauto.
Qed.

Lemma be3_not_eof o : off_ok o -> list_eqb Z.eqb (be3 o) ips_eof = false.
Proof.
  intros Ho. pose proof (be3_eof_test o Ho) as H. unfold be3, ips_eof. cbn [list_eqb].
  rewrite andb_true_r. rewrite <- andb_assoc in H. exact H.
Qed.

Definition rec_body (r : record) : bytes :=
  match r with
  | Plain _ d => be2 (blen d) ++ d
  | Rle _ n v => [0; 0] ++ be2 n ++ [v]
  end.
Lemma enc_record_split r : enc_record r = be3 (rec_off r) ++ rec_body r.
Proof. destruct r; reflexivity. Qed.

Lemma be3_addr o : 0 <= o < 16777216 ->
  Z.lor (Z.shiftl (o / 65536) 16) (unpack_H (o / 256 mod 256) (o mod 256)) = o.
Proof.
  intros H. unfold unpack_H. rewrite lor_shift16 by lia. lia.
Qed.

Lemma read_exactly_3 a b c tl : read_exactly 3 (a :: b :: c :: tl) = Ok ([a; b; c], tl).
Proof. reflexivity. Qed.

Lemma read_exactly_2 a b tl : read_exactly 2 (a :: b :: tl) = Ok ([a; b], tl).
Proof. reflexivity. Qed.

Lemma unpack_be2 n : 0 <= n <= 65535 -> unpack_H (n / 256) (n mod 256) = n.
Proof. unfold unpack_H. lia. Qed.

(** One record, after its three offset bytes have been read. *)
Lemma read_record_ok delta r tl : wf_record r ->
  read_record_after delta (be3 (rec_off r)) (rec_body r ++ tl) = Ok ((rec_off r + delta, rec_data r), tl).
Proof.
  intros Hwf. destruct r as [o d | o n v]; cbn [wf_record] in Hwf; cbn [rec_off rec_body rec_data].
  - destruct Hwf as [[Ho _] Hd]. unfold read_record_after, be3.
    rewrite <- app_assoc. rewrite (read_exactly_app 2 (be2 (blen d)) (d ++ tl)) by reflexivity.
    cbn [bind be2]. unfold blen in *.
    rewrite !(unpack_be2 (Z.of_nat (length d))) by lia.
    destruct (Z.of_nat (length d) =? 0) eqn:E; [exfalso; lia|].
    rewrite read_exactly_app by lia. cbn [bind]. rewrite be3_addr by assumption. reflexivity.
  - destruct Hwf as [[Ho _] [Hn Hv]]. unfold read_record_after, be3.
    rewrite <- app_assoc. rewrite (read_exactly_app 2 [0; 0]) by reflexivity.
    cbn [bind]. replace (unpack_H 0 0) with 0 by reflexivity. cbn [Z.eqb].
    rewrite <- app_assoc. cbn [be2 app].
    rewrite read_exactly_3.
    cbn [bind]. rewrite (unpack_be2 n) by lia.
    rewrite be3_addr by assumption. reflexivity.
Qed.

Lemma read_loop_ok delta : forall rs acc fuel tl,
  Forall wf_record rs -> (length rs < fuel)%nat ->
  read_ips_loop fuel delta (encode rs ++ eof_marker ++ tl) acc = Ok (rev acc ++ records_blocks delta rs).
Proof.
  induction rs as [|r rs IH]; intros acc fuel tl Hwf Hfuel; (destruct fuel; [inversion Hfuel|]).
  - cbn [encode flat_map app read_ips_loop].
    rewrite (read_exactly_app 3 eof_marker tl) by reflexivity. cbn [bind].
    replace (list_eqb Z.eqb eof_marker ips_eof) with true by reflexivity.
    cbn [records_blocks map]. now rewrite app_nil_r.
  - inversion Hwf as [|? ? Hr Hrs]; subst. cbn [length] in Hfuel.
    rewrite encode_cons, enc_record_split, <- !app_assoc. cbn [read_ips_loop].
    rewrite (read_exactly_app 3 (be3 (rec_off r))) by reflexivity. cbn [bind].
    rewrite be3_not_eof by (destruct r; cbn in Hr; tauto).
    rewrite (read_record_ok delta r _ Hr). cbn [bind].
    rewrite IH by (auto; lia). cbn [rev records_blocks map]. now rewrite <- app_assoc.
Qed.

(** C13_roundtrip (bytes after the marker are ignored: [tl]) *)
Lemma read_ips_roundtrip_trailing delta rs tl : Forall wf_record rs ->
  read_ips delta (ips_file rs ++ tl) = Ok (records_blocks delta rs).
Proof.
  intros Hwf. unfold read_ips, ips_file, file_read.
  rewrite <- !app_assoc.
  rewrite (firstn_app_exact magic) by reflexivity. rewrite (skipn_app_exact magic) by reflexivity.
  replace (list_eqb Z.eqb magic ips_magic) with true by reflexivity.
  rewrite read_loop_ok; [reflexivity|assumption|].
  pose proof (encode_length rs Hwf). rewrite !app_length. lia.
Qed.

Lemma read_ips_roundtrip delta rs : Forall wf_record rs ->
  read_ips delta (ips_file rs) = Ok (records_blocks delta rs).
Proof.
  intros Hwf. rewrite <- (app_nil_r (ips_file rs)). now apply read_ips_roundtrip_trailing.
Qed.

(** Reading what the writer wrote. *)
Lemma read_ips_of_write c blocks f delta :
  ips_write c blocks = Ok f ->
  exists rs, tiles_seq (shift_blocks c blocks) rs /\ read_ips delta f = Ok (records_blocks delta rs).
Proof.
  intros H. destruct (ips_write_wellformed c blocks f H) as [rs [-> [Hwf [_ Hts]]]].
  exists rs. split; [assumption|]. now apply read_ips_roundtrip.
Qed.

(** *** Rejection *)
Lemma read_ips_reject_header delta file :
  firstn 5 file <> ips_magic -> read_ips delta file = Err ERuntime.
Proof.
  intros H. unfold read_ips, file_read.
  destruct (list_eqb Z.eqb (firstn 5 file) ips_magic) eqn:E; [|reflexivity].
  apply zlist_eqb_eq in E. contradiction.
Qed.

(** A strict prefix of a record body makes the record reader raise. *)
Lemma read_record_truncated delta r q t : wf_record r ->
  q ++ t = rec_body r -> t <> [] ->
  read_record_after delta (be3 (rec_off r)) q = Err ERuntime.
Proof.
  intros Hwf Hq Ht. unfold read_record_after, be3.
  destruct r as [o d | o n v]; cbn [wf_record rec_body rec_off] in *.
  - destruct Hwf as [_ Hd]. unfold be2 in Hq. cbn [app] in Hq.
    destruct q as [|q0 [|q1 q']]; try (rewrite read_exactly_short by (cbn; lia); reflexivity).
    cbn [app] in Hq. injection Hq as -> -> Hq.
    rewrite read_exactly_2. cbn [bind].
    unfold blen in *. rewrite !(unpack_be2 (Z.of_nat (length d))) by lia.
    destruct (Z.of_nat (length d) =? 0) eqn:E; [exfalso; lia|].
    rewrite read_exactly_short; [reflexivity|].
    apply (f_equal (@length Z)) in Hq. rewrite app_length in Hq.
    destruct t; [congruence|]. cbn [length] in Hq. lia.
  - unfold be2 in Hq. cbn [app] in Hq.
    destruct q as [|q0 [|q1 q']]; try (rewrite read_exactly_short by (cbn; lia); reflexivity).
    cbn [app] in Hq. injection Hq as -> -> Hq.
    rewrite read_exactly_2. cbn [bind].
    replace (unpack_H 0 0) with 0 by reflexivity. cbn [Z.eqb].
    rewrite read_exactly_short; [reflexivity|].
    apply (f_equal (@length Z)) in Hq. rewrite app_length in Hq.
    destruct t; [congruence|]. cbn [length] in Hq. lia.
Qed.

Lemma read_loop_truncated delta : forall rs q t acc fuel,
  Forall wf_record rs -> q ++ t = encode rs ++ eof_marker -> t <> [] ->
  (length q < fuel)%nat ->
  read_ips_loop fuel delta q acc = Err ERuntime.
Proof.
  induction rs as [|r rs IH]; intros q t acc fuel Hwf Hq Ht Hfuel; (destruct fuel; [inversion Hfuel|]).
  - cbn [encode flat_map app] in Hq. cbn [read_ips_loop].
    rewrite read_exactly_short; [reflexivity|].
    apply (f_equal (@length Z)) in Hq. rewrite app_length in Hq. cbn [length eof_marker] in Hq.
    destruct t; [congruence|]. cbn [length] in Hq. lia.
  - inversion Hwf as [|? ? Hr Hrs]; subst. cbn [length] in Hfuel.
    rewrite encode_cons, enc_record_split, <- !app_assoc in Hq. cbn [read_ips_loop].
    assert (Hoff : off_ok (rec_off r)) by (destruct r; cbn in Hr; tauto).
    (* the three offset bytes *)
    destruct (Nat.lt_ge_cases (length q) 3) as [Hshort|Hlong];
      [rewrite read_exactly_short by assumption; reflexivity|].
    assert (Hex : exists l, q = be3 (rec_off r) ++ l /\ rec_body r ++ encode rs ++ eof_marker = l ++ t).
    { apply app_eq_app in Hq. destruct Hq as [l [[Hq1 Hq2] | [Hq1 Hq2]]].
      - exists l; auto.
      - pose proof (f_equal (@length Z) Hq1) as HL. rewrite app_length in HL. cbn [be3 length] in HL.
        assert (l = []) by (destruct l; [reflexivity|cbn [length] in HL; lia]). subst l.
        rewrite app_nil_r in Hq1. exists []. rewrite app_nil_r. split; [auto|].
        cbn [app] in *. auto. }
    destruct Hex as [l [Hq1 Hq2]].
    subst q. rewrite app_length in Hfuel. cbn [be3 length] in Hfuel.
    rewrite (read_exactly_app 3 (be3 (rec_off r)) l) by reflexivity. cbn [bind].
    rewrite be3_not_eof by assumption.
    (* l ++ t = body ++ rest *)
    symmetry in Hq2. apply app_eq_app in Hq2. destruct Hq2 as [m [[Hl Hrest] | [Hb Ht']]].
    + (* the whole record is there *)
      subst l. rewrite (read_record_ok delta r m Hr). cbn [bind].
      eapply IH; eauto. rewrite app_length in Hfuel. lia.
    + (* cut inside the record *)
      destruct m as [|m0 m'].
      * rewrite app_nil_r in Hb. subst l. rewrite <- (app_nil_r (rec_body r)).
        rewrite (read_record_ok delta r [] Hr). cbn [bind].
        cbn [app] in Ht'. eapply (IH [] t); eauto. cbn [length]. lia.
      * rewrite (read_record_truncated delta r l (m0 :: m') Hr); [reflexivity|auto|congruence].
Qed.

(** C13_reject: every strict prefix of a well-formed file is rejected. *)
Lemma read_ips_reject_truncated delta rs q t : Forall wf_record rs ->
  q ++ t = ips_file rs -> t <> [] -> read_ips delta q = Err ERuntime.
Proof.
  intros Hwf Hq Ht.
  destruct (Nat.lt_ge_cases (length q) 5) as [Hshort|Hlong].
  - apply read_ips_reject_header. rewrite firstn_all2 by lia.
    intros E. rewrite E in Hshort. cbn in Hshort. lia.
  - unfold ips_file in Hq.
    assert (Hex : exists l, q = magic ++ l /\ encode rs ++ eof_marker = l ++ t).
    { apply app_eq_app in Hq. destruct Hq as [l [[Hq1 Hq2] | [Hq1 Hq2]]].
      - exists l; auto.
      - pose proof (f_equal (@length Z) Hq1) as HL. rewrite app_length in HL. cbn [magic length] in HL.
        assert (l = []) by (destruct l; [reflexivity|cbn [length] in HL; lia]). subst l.
        rewrite app_nil_r in Hq1. exists []. rewrite app_nil_r. split; [auto|]. cbn [app] in *. auto. }
    destruct Hex as [l [-> Hl]].
    unfold read_ips, file_read.
    rewrite (firstn_app_exact magic) by reflexivity. rewrite (skipn_app_exact magic) by reflexivity.
    replace (list_eqb Z.eqb magic ips_magic) with true by reflexivity.
    apply (read_loop_truncated delta rs l t); auto.
    rewrite app_length. cbn [magic length]. lia.
Qed.

(** *** The reader loop never runs out of fuel *)
Lemma read_record_after_cases delta start rest :
  (exists blk rest2, read_record_after delta start rest = Ok (blk, rest2) /\ (length rest2 <= length rest)%nat)
  \/ (exists e, read_record_after delta start rest = Err e).
Proof.
  unfold read_record_after.
  destruct start as [|a2 [|a1 [|a0 [|? ?]]]]; try (right; eexists; reflexivity).
  destruct (read_exactly 2 rest) as [[sz rest1]|e|] eqn:E1; cbn [bind];
    [|right; eexists; reflexivity|destruct (read_exactly_cases 2 rest) as [[? [? H]]|H]; congruence].
  apply read_exactly_inv in E1. destruct E1 as [-> Hsz].
  destruct sz as [|s1 [|s0 [|? ?]]]; try (cbn in Hsz; lia).
  destruct (unpack_H s1 s0 =? 0).
  - destruct (read_exactly 3 rest1) as [[rl rest2]|e|] eqn:E2; cbn [bind];
      [|right; eexists; reflexivity|destruct (read_exactly_cases 3 rest1) as [[? [? H]]|H]; congruence].
    apply read_exactly_inv in E2. destruct E2 as [-> Hrl].
    destruct rl as [|n1 [|n0 [|v [|? ?]]]]; try (cbn in Hrl; lia).
    left. eexists _, _. split; [reflexivity|]. rewrite !app_length. lia.
  - destruct (read_exactly (Z.to_nat (unpack_H s1 s0)) rest1) as [[bl rest2]|e|] eqn:E2; cbn [bind];
      [|right; eexists; reflexivity|
       destruct (read_exactly_cases (Z.to_nat (unpack_H s1 s0)) rest1) as [[? [? H]]|H]; congruence].
    apply read_exactly_inv in E2. destruct E2 as [-> Hbl].
    left. eexists _, _. split; [reflexivity|]. rewrite !app_length. lia.
Qed.

Lemma read_loop_fuel delta : forall fuel rest acc,
  (length rest < fuel)%nat -> read_ips_loop fuel delta rest acc <> OutOfFuel.
Proof.
  induction fuel as [|fuel IH]; intros rest acc Hlen; [inversion Hlen|].
  cbn [read_ips_loop].
  destruct (read_exactly_cases 3 rest) as [[st [rest1 H]]|H]; rewrite H; cbn [bind]; [|discriminate].
  apply read_exactly_inv in H. destruct H as [-> Hst].
  destruct (list_eqb Z.eqb st ips_eof); [discriminate|].
  destruct (read_record_after_cases delta st rest1) as [[blk [rest2 [H Hl]]]|[e H]]; rewrite H; cbn [bind];
    [|discriminate].
  apply IH. rewrite app_length in Hlen. lia.
Qed.

Lemma read_ips_fuel delta file : read_ips delta file <> OutOfFuel.
Proof.
  unfold read_ips, file_read. destruct (list_eqb Z.eqb (firstn 5 file) ips_magic); [|discriminate].
  apply read_loop_fuel. rewrite skipn_length. lia.
Qed.

(** ** Corollaries in the words of the property *)

(** An empty block, wherever it is written (any address), leaves the file as it would be without it. *)
Lemma ips_write_blocks_empty_block c pre a post :
  ips_write_blocks c (pre ++ (a, []) :: post) = ips_write_blocks c (pre ++ post).
Proof.
  induction pre as [|[a' d'] pre IH]; cbn [app ips_write_blocks].
  - rewrite write_block_empty, wr_bind_ok. cbn [app]. now destruct (ips_write_blocks c post).
  - unfold wr_bind. destruct (ips_write_block_call c d' a') as [b [u|e|]]; try reflexivity.
    now rewrite IH.
Qed.

Lemma ips_write_empty_block c pre a post :
  ips_write c (pre ++ (a, []) :: post) = ips_write c (pre ++ post).
Proof. unfold ips_write, ips_session. now rewrite ips_write_blocks_empty_block. Qed.

(** A non-empty block whose own address (after the copier shift) is not representable. *)
Lemma ips_write_refuse_first c blocks a d :
  In (a, d) blocks -> d <> [] ->
  (a + shift c < 0 \/ 16777216 <= a + shift c \/ a + shift c = sentinel) ->
  exists e, ips_write c blocks = Err e.
Proof.
  intros Hin Hd Hbad. apply ips_write_refuse. apply Exists_exists. exists (a, d). split; [assumption|].
  exists 0. cbn [fst snd]. split; [lia|]. split.
  - unfold blen. destruct d; [congruence|]. cbn [length]. lia.
  - rewrite Z.mul_0_l, Z.add_0_r. unfold off_ok. lia.
Qed.
