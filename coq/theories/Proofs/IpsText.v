(** C13 at the level of source TEXT: [.include_ips 'file', delta] through the whole pipeline
    [assemble_source] (scanner, parser, code generation, label pass, symbol pass, emission).

    Programs are lists of extended statements ([xstmt]): the statements of Proofs/LabelText.v
    ("*= e", "name:", ".dl name", instruction lines) and the directive line
        .include_ips <k1 blanks>'<path>'<k2 blanks>,<expression, any spacing>
    each on its own line.

    - [xscan], [xparse], [xprog_front]: such a program — the directive ANYWHERE in it, any number of
      times — scans and parses to one AST node per statement; the directive's node is
      [AIncludeIps path <expression> <the quoted-string token>].
    - [ips_text]: "*=org / .kw1 name / .include_ips 'p', delta / name: / .kw2 name": the label and the
      bytes around the directive are exactly those of the program without the line, and the writer
      receives the patch's blocks (each record's bytes at its offset + delta) FIRST: the run that
      is open at the directive is written when it ends (here: at the end of the program).
    - [ips_text_records]: the same with the file written as records ([ips_file rs]).
    - [ips_text_rejected]: a missing file, or a file the reader rejects, makes the assembly fail
      with that error class at the directive, whatever follows. *)
From Coq Require Import ZArith NArith List Bool Lia ZifyBool Arith.
From A816 Require Import Spec.ExprSem Spec.BusLaws Spec.IpsFormat Model.Ips Model.Assemble Proofs.ParserProofs
  Proofs.ParserShapeProofs Proofs.ParserShapeTokens
  Proofs.BusProofs Proofs.NodeProofs Proofs.ExprProofs Proofs.IpsProofs
  Proofs.ExprLex Proofs.ExprLexParse Proofs.DataTextScan Proofs.DataTextParse Proofs.DataTextGen Proofs.DataText
  Proofs.InsnTextScan Proofs.InsnTextParse Proofs.InsnTextGen Proofs.InsnText
  Proofs.LabelTextScan Proofs.LabelTextParse Proofs.LabelTextGen Proofs.LabelText
  Proofs.IpsTextScan Proofs.IpsTextParse Proofs.IpsTextGen.
Import ListNotations.
Open Scope Z_scope.
Ltac Zify.zify_post_hook ::= Z.to_euclidean_division_equations.

(* ------------------------------------------------------------------------------------------ *)
(** * Extended statements *)

Inductive xstmt :=
| XS (s : stmt)
| XIps (k1 : nat) (path : str) (k2 : nat) (sp : spacing) (e : sexpr).

Definition xline (x : xstmt) : line :=
  match x with
  | XS s => stmt_line s
  | XIps k1 path k2 sp e =>
      {| l_body := ips_body k1 path k2 sp e; l_toks := ips_toks path e; l_calls := 3 + length (toks_of e) |}
  end.
Definition xsrc (xs : list xstmt) : str := prog_text (map xline xs).
Definition xtoks (xs : list xstmt) : list tk := prog_toks (map xline xs).

Definition xstmt_ok (lx : lexicon) (x : xstmt) : Prop :=
  match x with
  | XS s => stmt_ok lx s
  | XIps _ path _ _ e => mem_str Parser.k_include_ips (lx_keywords lx) = true /\ path_ok path /\ dlex e
  end.

Definition xast_ok (x : xstmt) (a : ast) : Prop :=
  match x with
  | XS s => ast_ok s a
  | XIps _ path _ _ e => exists r fi, a = AIncludeIps path r fi /\ map en_strip r = flat e
  end.

Lemma xsrc_plain ss : xsrc (map XS ss) = src_of ss.
Proof. unfold xsrc, src_of. rewrite map_map. reflexivity. Qed.

(** S1: scanner *)
Theorem xscan lx file xs : Forall (xstmt_ok lx) xs ->
  exists toks eof lines,
    scan lx file (xsrc xs) = ScanOk (toks ++ [eof]) lines /\ map tv toks = xtoks xs /\ tv eof = (T_EOF, []).
Proof.
  intros H. apply scan_prog. apply Forall_map. eapply Forall_impl; [|exact H].
  intros [s|k1 path k2 sp e]; cbn [xstmt_ok xline].
  - apply stmt_line_ok.
  - intros (K & P & D). unfold line_ok. cbn [l_body l_toks l_calls]. apply lscan_ips; assumption.
Qed.

Lemma xstmt_sparse lx x toks : xstmt_ok lx x -> map tv toks = l_toks (xline x) ->
  exists a, sparse toks a /\ xast_ok x a.
Proof.
  destruct x as [s|k1 path k2 sp e]; cbn [xstmt_ok xline xast_ok l_toks]; intros Hok E.
  - apply (stmt_sparse lx s toks Hok E).
  - unfold ips_toks in E.
    apply map_eq_cons in E as (kwt & r1 & -> & Ek & E).
    apply map_eq_cons in E as (qt & r2 & -> & Eq & E).
    apply map_eq_cons in E as (ct & r3 & -> & Ec & E).
    destruct (build_PE e r3 E) as (l & P & T & S). subst r3.
    eexists. split.
    + apply (sparse_ips kwt qt ct l); [eapply tv_type; exact Ek|eapply tv_value; exact Ek|eapply tv_type; exact Eq
                                       |eapply tv_type; exact Ec|exact P].
    + exists l, qt. split; [|exact S]. rewrite (tv_value _ _ _ Eq), strip_quotes_quoted. reflexivity.
Qed.

(** S2: parser *)
Theorem xparse lx xs toks eof incd inc :
  Forall (xstmt_ok lx) xs -> map tv toks = xtoks xs -> t_type eof = T_EOF ->
  exists asts,
    parse_program (parse_fuel (length (toks ++ [eof]))) incd inc (toks ++ [eof]) = POk asts /\
    Forall2 xast_ok xs asts.
Proof.
  intros Hok E Heof.
  assert (X : exists stmts : list (list token * ast),
            toks = concat (map fst stmts) /\ Forall (fun sa => sparse (fst sa) (snd sa)) stmts /\
            Forall2 xast_ok xs (map snd stmts)).
  { revert toks E. induction Hok as [|x xs' Hx _ IH]; intros toks E.
    - destruct toks; [|discriminate E]. exists []. repeat split; constructor.
    - unfold xtoks, prog_toks in E. cbn [map flat_map] in E.
      apply map_eq_app in E as (t1 & t2 & -> & E1 & E2).
      destruct (xstmt_sparse lx x t1 Hx E1) as (a & Sp & Ao).
      destruct (IH t2 E2) as (stmts & -> & Hall & F2).
      exists ((t1, a) :: stmts). split; [reflexivity|]. split; constructor; assumption. }
  destruct X as (stmts & -> & Hall & F2).
  exists (map snd stmts). split; [|exact F2].
  unfold parse_program. rewrite parse_file_unfold. set (sub := fun name : str => _).
  pose proof (pinitial_stmts sub eof Heof stmts Hall [] []) as P. cbn [app length] in P.
  apply P. unfold parse_fuel. rewrite app_length. cbn [length]. lia.
Qed.

(** from the text to [assemble_program] *)
Theorem xprog_front t fs c fname xs :
  Forall (xstmt_ok (lv_lex t)) xs ->
  exists asts, assemble_source t fs c fname (xsrc xs) = assemble_program (world_of t fs) c asts /\
               Forall2 xast_ok xs asts.
Proof.
  intros Hok.
  destruct (xscan (lv_lex t) fname xs Hok) as (toks & eof & lines & Escan & Etv & Eeof).
  destruct (xparse (lv_lex t) xs toks eof include_depth (include_tokens t fs) Hok Etv (tv_type _ _ _ Eeof))
    as (asts & Eparse & F2).
  exists asts. split; [|exact F2]. unfold assemble_source. rewrite Escan, Eparse. reflexivity.
Qed.

(* ------------------------------------------------------------------------------------------ *)
(** * The program around the directive *)

(** "*=org / .kw1 name / [the directive] / name: / .kw2 name" *)
Definition around (sp0 : spacing) (eorg : sexpr) (kw1 : str) (j1 : nat) (name : str) (j2 : nat)
                  (mid : list xstmt) (k : nat) (kw2 : str) (j3 j4 : nat) : list xstmt :=
  [XS (SOrg sp0 eorg); XS (SDataId kw1 j1 name j2)] ++ mid ++ [XS (SLabel name k); XS (SDataId kw2 j3 name j4)].

(** the four nodes of the program without the directive, with whatever tokens the parser produced *)
Lemma around_nodes t fs org name dk1 dk2 m ri s0 xo fi it1 kwt1 it2 kwt2 :
  covers (lv_low t) m -> mask_ok m -> m_writable m = false ->
  in_window m org -> m_first m <= bank_of org <= m_last m ->
  Good (world_of t fs) (lv_low t) ri -> r_reloc ri = at_ (lv_low t) 0 -> r_scopes ri = [s0] ->
  s_parent s0 = None /\ s_code s0 = [] /\ s_labels s0 = [] /\ s_kind s0 = SPlain ->
  (forall r, eval_raw (world_of t fs) r xo = Ok org) ->
  tv it1 = (T_IDENTIFIER, name) -> tv it2 = (T_IDENTIFIER, name) ->
  org mod 65536 + dkind_len dk1 < 65536 ->
  spec_offset m org + dkind_len dk1 + dkind_len dk2 < rsize m ->
  let L := org + dkind_len dk1 in
  exists o,
    assemble_nodes (world_of t fs) ri
      (concat [[NCodePos xo fi]; [NData dk1 [Parser.en EK_term it1] kwt1]] ++
       concat [[NLabel name]; [NData dk2 [Parser.en EK_term it2] kwt2]]) = Ok o /\
    o_blocks o = [(data_bytes dk1 L ++ data_bytes dk2 L, spec_offset m org)] /\ o_labels o = [(name, L)].
Proof.
  intros Hcov Hmask Hrom Hw Hb Gri Hre Hsc Hs0 Hxo E1 E2 Hsame Hfit L.
  assert (Hlen : 1 <= dkind_len dk1) by (destruct dk1; cbn; lia).
  assert (Hlen2 : 1 <= dkind_len dk2) by (destruct dk2; cbn; lia).
  assert (EL : L = A m (spec_offset m org + total [data_item L dk1 it1 kwt1])).
  { cbn [total fold_right data_item it_len]. rewrite Z.add_0_r. symmetry. apply A_same_bank; try assumption; lia. }
  destruct (engine_run (world_of t fs) (lv_low t) m Hcov Hmask Hrom name L ri s0 Gri Hre Hsc Hs0 xo fi org Hw Hb Hxo
              [data_item L dk1 it1 kwt1] [data_item L dk2 it2 kwt2] EL) as (o & E & B & Lb).
  { cbn [items_ok]. split; [|exact I]. apply item_data; [eapply tv_type; exact E1|eapply tv_value; exact E1]. }
  { cbn [items_ok]. split; [|exact I]. apply item_data; [eapply tv_type; exact E2|eapply tv_value; exact E2]. }
  { cbn [total fold_right data_item it_len]. lia. }
  { cbn [bytes_of flat_map data_item it_bs app]. destruct (data_bytes_cons dk1 L) as (b & bs & -> & _). discriminate. }
  exists o. split; [exact E|]. rewrite B, Lb. cbn [bytes_of flat_map data_item it_bs app]. rewrite !app_nil_r.
  split; reflexivity.
Qed.

(** the statements before the directive, as ASTs, for any tokens *)
Lemma around_asts sp0 eorg kw1 j1 name j2 mid k kw2 j3 j4 asts :
  Forall2 xast_ok (around sp0 eorg kw1 j1 name j2 mid k kw2 j3 j4) asts ->
  exists xo fi dk1 it1 kwt1 amid lt dk2 it2 kwt2,
    asts = [AStarEq xo fi; AData dk1 [[Parser.en EK_term it1]] kwt1] ++ amid ++
           [ALabel name lt; AData dk2 [[Parser.en EK_term it2]] kwt2] /\
    map en_strip xo = flat eorg /\ Parser.dkind_of kw1 = Some dk1 /\ tv it1 = (T_IDENTIFIER, name) /\
    Parser.dkind_of kw2 = Some dk2 /\ tv it2 = (T_IDENTIFIER, name) /\ Forall2 xast_ok mid amid.
Proof.
  unfold around. intros F. cbn [app] in F.
  inversion F as [|? a1 ? l1 A1 F1]; subst. inversion F1 as [|? a2 ? l2 A2 F2]; subst.
  apply Forall2_app_inv_l in F2 as (amid & tail & Fm & Ft & ->).
  inversion Ft as [|? a3 ? l3 A3 F3]; subst. inversion F3 as [|? a4 ? l4 A4 F4]; subst. inversion F4; subst.
  cbn [xast_ok ast_ok] in A1, A2, A3, A4.
  destruct A1 as (xo & fi & -> & Sorg). destruct A2 as (dk1 & it1 & kwt1 & Hd1 & -> & Ei1).
  destruct A3 as (lt & ->). destruct A4 as (dk2 & it2 & kwt2 & Hd2 & -> & Ei2).
  exists xo, fi, dk1, it1, kwt1, amid, lt, dk2, it2, kwt2. repeat split; assumption.
Qed.

Definition lorom_room (org : Z) : Z := (if bank_of org <? 128 then 112 else 80) * 32768.

(** C13 on source text *)
Theorem ips_text t fs c fname sp0 eorg org kw1 dk1 j1 name j2 k1 path k2 sp e delta k kw2 dk2 j3 j4 file bl :
  tables_ok t c -> org_ok eorg org ->
  Forall (xstmt_ok (lv_lex t)) (around sp0 eorg kw1 j1 name j2 [XIps k1 path k2 sp e] k kw2 j3 j4) ->
  Parser.dkind_of kw1 = Some dk1 -> Parser.dkind_of kw2 = Some dk2 ->
  wf e -> eval noenv e = Ok delta ->
  assoc_str (sf_bin fs) path = Some file -> read_ips delta file = Ok bl ->
  org mod 65536 + dkind_len dk1 < 65536 ->
  lorom_offset org + dkind_len dk1 + dkind_len dk2 < lorom_room org ->
  let L := org + dkind_len dk1 in
  exists o' fin' o fin,
    assemble_source t fs c fname (xsrc (around sp0 eorg kw1 j1 name j2 [XIps k1 path k2 sp e] k kw2 j3 j4)) = AOk o' fin' /\
    assemble_source t fs c fname (xsrc (around sp0 eorg kw1 j1 name j2 [] k kw2 j3 j4)) = AOk o fin /\
    o_blocks o = [(data_bytes dk1 L ++ data_bytes dk2 L, lorom_offset org)] /\ o_labels o = [(name, L)] /\
    o_blocks o' = ips_calls bl ++ o_blocks o /\ o_labels o' = o_labels o.
Proof.
  intros (Hag & Hcfg & Hc) (Wo & Eo & Hbank & Hwin) Hok Hd1 Hd2 We Ee Hfile Hread Hsame Hfit L.
  assert (Hok0 : Forall (xstmt_ok (lv_lex t)) (around sp0 eorg kw1 j1 name j2 [] k kw2 j3 j4)).
  { unfold around in *. cbn [app] in *. inversion Hok as [|? ? H1 Hr1]; subst. inversion Hr1 as [|? ? H2 Hr2]; subst.
    inversion Hr2 as [|? ? H3 Hr3]; subst. constructor; [exact H1|]. constructor; [exact H2|exact Hr3]. }
  assert (Do : dlex eorg).
  { unfold around in Hok. cbn [app] in Hok. inversion Hok as [|? ? H1 _]; subst. exact H1. }
  assert (De : dlex e).
  { unfold around in Hok. cbn [app] in Hok. inversion Hok as [|? ? _ Hr1]; subst. inversion Hr1 as [|? ? _ Hr2]; subst.
    inversion Hr2 as [|? ? H3 _]; subst. destruct H3 as (_ & _ & D). exact D. }
  destruct (lorom_range t c org Hag Hcfg Hbank Hwin)
    as (m & Hlow & Hphys & Hrt & Hcov & Hmask & Hrom & Hw & Hb & Eoff & Ers & _).
  destruct (initial_resolver_root (world_of t fs) c (lv_low t) (Some 0) Hlow Hphys Hrt)
    as (ri & s0 & Einit & Gri & Hre & Hsc & Hs0).
  (* the program with the directive *)
  destruct (xprog_front t fs c fname _ Hok) as (asts & Esrc & F2).
  destruct (around_asts _ _ _ _ _ _ _ _ _ _ _ _ F2)
    as (xo & fi & dk1' & it1 & kwt1 & amid & lt & dk2' & it2 & kwt2 & -> & Sorg & Hd1' & Ei1 & Hd2' & Ei2 & Fm).
  assert (dk1' = dk1) by congruence. assert (dk2' = dk2) by congruence. subst dk1' dk2'.
  inversion Fm as [|? am ? ? Am Fm']; subst. inversion Fm'; subst.
  destruct Am as (re & qt & -> & Se).
  assert (Hxo : forall r, eval_raw (world_of t fs) r xo = Ok org)
    by (intros r; apply (eval_raw_tree t fs r xo eorg org Hc Sorg Wo Do Eo)).
  assert (Hde : forall r, eval_raw (world_of t fs) r re = Ok delta)
    by (intros r; apply (eval_raw_tree t fs r re e delta Hc Se We De Ee)).
  assert (Hips : w_ips (world_of t fs) path delta = Ok bl).
  { cbn [world_of w_ips]. rewrite Hfile. exact Hread. }
  destruct (around_nodes t fs org name dk1 dk2 m ri s0 xo fi it1 kwt1 it2 kwt2
              Hcov Hmask Hrom Hw Hb Gri Hre Hsc Hs0 Hxo Ei1 Ei2 Hsame)
    as (on & En & Bn & Ln).
  { rewrite Eoff, Ers. exact Hfit. }
  destruct (ips_program_insert (world_of t fs) c ri
              [AStarEq xo fi; AData dk1 [[Parser.en EK_term it1]] kwt1]
              [[NCodePos xo fi]; [NData dk1 [Parser.en EK_term it1] kwt1]]
              [ALabel name lt; AData dk2 [[Parser.en EK_term it2]] kwt2]
              [[NLabel name]; [NData dk2 [Parser.en EK_term it2] kwt2]]
              path re qt delta bl on Einit) as (o' & A & B & E' & _ & HL & _ & HB & HB' & HC);
    try assumption.
  { repeat constructor. }
  { repeat constructor. }
  assert (A = []).
  { cbn [concat app] in HC.
    apply (calls_before_quiet (world_of t fs) ri xo fi [NData dk1 [Parser.en EK_term it1] kwt1] _ A eq_refl HC). }
  subst A. cbn [app] in HB, HB'.
  (* the program without it (its own tokens) *)
  destruct (xprog_front t fs c fname _ Hok0) as (asts0 & Esrc0 & F0).
  destruct (around_asts _ _ _ _ _ _ _ _ _ _ _ _ F0)
    as (xo0 & fi0 & dk1' & it10 & kwt10 & amid0 & lt0 & dk2' & it20 & kwt20 & -> & Sorg0 & Hd10 & Ei10 & Hd20 & Ei20 & Fm0).
  assert (dk1' = dk1) by congruence. assert (dk2' = dk2) by congruence. subst dk1' dk2'.
  inversion Fm0; subst.
  assert (Hxo0 : forall r, eval_raw (world_of t fs) r xo0 = Ok org)
    by (intros r; apply (eval_raw_tree t fs r xo0 eorg org Hc Sorg0 Wo Do Eo)).
  destruct (around_nodes t fs org name dk1 dk2 m ri s0 xo0 fi0 it10 kwt10 it20 kwt20
              Hcov Hmask Hrom Hw Hb Gri Hre Hsc Hs0 Hxo0 Ei10 Ei20 Hsame)
    as (o0 & En0 & Bn0 & Ln0).
  { rewrite Eoff, Ers. exact Hfit. }
  pose proof (assemble_program_simple (world_of t fs) c ri
                ([AStarEq xo0 fi0; AData dk1 [[Parser.en EK_term it10]] kwt10] ++ [] ++
                 [ALabel name lt0; AData dk2 [[Parser.en EK_term it20]] kwt20])
                [[NCodePos xo0 fi0]; [NData dk1 [Parser.en EK_term it10] kwt10]; [NLabel name];
                 [NData dk2 [Parser.en EK_term it20] kwt20]] o0 Einit ltac:(repeat constructor) En0) as P0.
  exists o', (o_final o'), o0, (o_final o0).
  split; [rewrite Esrc; exact E'|]. split; [rewrite Esrc0; exact P0|].
  rewrite Bn0, Ln0, Eoff. split; [reflexivity|]. split; [reflexivity|].
  split; [rewrite HB', Bn, Eoff; reflexivity|rewrite HL, Ln; reflexivity].
Qed.

(** the file given as its records: each record's bytes (run-length records expanded) at its
    offset + delta, in record order *)
Definition record_calls (delta : Z) (rs : list record) : list wblock :=
  map (fun r => (rec_data r, rec_off r + delta)) rs.

Lemma ips_calls_records delta rs : ips_calls (records_blocks delta rs) = record_calls delta rs.
Proof. unfold ips_calls, records_blocks, record_calls. rewrite map_map. reflexivity. Qed.

Theorem ips_text_records t fs c fname sp0 eorg org kw1 dk1 j1 name j2 k1 path k2 sp e delta k kw2 dk2 j3 j4 rs tl :
  tables_ok t c -> org_ok eorg org ->
  Forall (xstmt_ok (lv_lex t)) (around sp0 eorg kw1 j1 name j2 [XIps k1 path k2 sp e] k kw2 j3 j4) ->
  Parser.dkind_of kw1 = Some dk1 -> Parser.dkind_of kw2 = Some dk2 ->
  wf e -> eval noenv e = Ok delta ->
  Forall wf_record rs -> assoc_str (sf_bin fs) path = Some (ips_file rs ++ tl) ->
  org mod 65536 + dkind_len dk1 < 65536 ->
  lorom_offset org + dkind_len dk1 + dkind_len dk2 < lorom_room org ->
  let L := org + dkind_len dk1 in
  exists o' fin',
    assemble_source t fs c fname (xsrc (around sp0 eorg kw1 j1 name j2 [XIps k1 path k2 sp e] k kw2 j3 j4)) = AOk o' fin' /\
    o_blocks o' = record_calls delta rs ++ [(data_bytes dk1 L ++ data_bytes dk2 L, lorom_offset org)] /\
    o_labels o' = [(name, L)].
Proof.
  intros Ht Ho Hok Hd1 Hd2 We Ee Hrs Hfile Hsame Hfit L.
  destruct (ips_text t fs c fname sp0 eorg org kw1 dk1 j1 name j2 k1 path k2 sp e delta k kw2 dk2 j3 j4
              (ips_file rs ++ tl) (records_blocks delta rs) Ht Ho Hok Hd1 Hd2 We Ee Hfile
              (read_ips_roundtrip_trailing delta rs tl Hrs) Hsame Hfit)
    as (o' & fin' & o & fin & E' & _ & B & Lb & B' & Lb').
  exists o', fin'. split; [exact E'|]. rewrite B', B, Lb', Lb, ips_calls_records. split; reflexivity.
Qed.

(* ------------------------------------------------------------------------------------------ *)
(** * Rejection *)

(** statements whose code generation is state independent *)
Definition flat_stmt (x : xstmt) : Prop :=
  match x with XS (SOrg _ _) | XS (SLabel _ _) | XS (SDataId _ _ _ _) => True | _ => False end.

Lemma flat_simple w : forall xs asts, Forall flat_stmt xs -> Forall2 xast_ok xs asts ->
  exists nss, Forall2 (simple w) asts nss.
Proof.
  induction xs as [|x xs IH]; intros asts Hf F; inversion F as [|? a ? asts' Ha Fr]; subst.
  - exists []. constructor.
  - inversion Hf as [|? ? Hx Hr]; subst. destruct (IH asts' Hr Fr) as (nss & Hn).
    destruct x as [[sp0 eorg|name k|kw k1 name k2|? ? ? ? ? ? ?]|? ? ? ? ?]; cbn [flat_stmt] in Hx; try contradiction;
      cbn [xast_ok ast_ok] in Ha.
    + destruct Ha as (r & fi & -> & _). eexists (_ :: nss). constructor; [apply simple_star_eq|exact Hn].
    + destruct Ha as (lt & ->). eexists (_ :: nss). constructor; [apply simple_label|exact Hn].
    + destruct Ha as (dk & it & kwt & _ & -> & _). eexists (_ :: nss). constructor; [apply simple_data|exact Hn].
Qed.

(** a missing file: FileNotFoundError; a file without "PATCH", a truncated record ...: the reader's
    RuntimeError — at the directive, whatever follows it *)
Theorem ips_text_rejected t fs c fname pre k1 path k2 sp e delta post kerr :
  tables_ok t c -> Forall (xstmt_ok (lv_lex t)) (pre ++ XIps k1 path k2 sp e :: post) ->
  Forall flat_stmt pre -> wf e -> eval noenv e = Ok delta ->
  match assoc_str (sf_bin fs) path with Some file => read_ips delta file | None => Err EFile end = Err kerr ->
  assemble_source t fs c fname (xsrc (pre ++ XIps k1 path k2 sp e :: post)) = AExc kerr None.
Proof.
  intros (Hag & Hcfg & Hc) Hok Hflat We Ee Hrej.
  destruct (xprog_front t fs c fname _ Hok) as (asts & Esrc & F2).
  apply Forall2_app_inv_l in F2 as (apre & arest & Fpre & Frest & ->).
  inversion Frest as [|? a ? apost Ha Fpost]; subst. cbn [xast_ok] in Ha. destruct Ha as (re & qt & -> & Se).
  assert (De : dlex e).
  { apply Forall_app in Hok as [_ Hr]. inversion Hr as [|? ? Hx _]; subst. cbn [xstmt_ok] in Hx.
    destruct Hx as (_ & _ & D). exact D. }
  destruct (flat_simple (world_of t fs) pre apre Hflat Fpre) as (nss & Hn).
  assert (Hlow : exists ri, initial_resolver (world_of t fs) c = Ok ri).
  { destruct Hcfg as (Hm0 & Hmc).
    assert (Hl : live_builtin t LowRom = Ok (lv_low t)) by (unfold live_builtin; cbn [romtype_code]; rewrite Hm0; reflexivity).
    assert (Hp : addr_physical (lv_low t) 0 = Ok (Some 0)) by (rewrite (bus_agree_physical _ _ Hag); reflexivity).
    destruct (initial_resolver_root (world_of t fs) c (lv_low t) (Some 0) Hl Hp) as (ri & _ & Ei & _); [|eauto].
    destruct (cf_rom c) as [rt|]; [|exact I]. cbn [world_of w_builtin]. unfold live_builtin. rewrite Hmc. reflexivity. }
  destruct Hlow as (ri & Einit).
  rewrite Esrc. apply (ips_program_rejected (world_of t fs) c ri apre nss apost path re qt delta kerr Einit Hn).
  - intros r. apply (eval_raw_tree t fs r re e delta Hc Se We De Ee).
  - cbn [world_of w_ips]. exact Hrej.
Qed.

(* ------------------------------------------------------------------------------------------ *)
(** * Non-vacuity *)

Definition demo_live_ips : live :=
  {| lv_low := lorom; lv_high := hirom; lv_busmap := [(0, true); (1, true); (2, false)];
     lv_optable := demo_optable; lv_prec := reference_prec;
     lv_lex := mk_lexicon [s_lda; s_nop] [s_nop]
                 [Parser.k_db; Parser.k_dw; Parser.k_dl; Parser.k_pointer; Parser.k_include_ips] |}.
Definition p_ips : str := [112; 46; 105; 112; 115].          (* "p.ips" *)
(** a plain record (3 bytes at 0x100) and a run-length record (4 x 9 at 0x200) *)
Definition demo_records : list record := [Plain 256 [1; 2; 3]; Rle 512 4 9].
Definition demo_fs : srcfiles := {| sf_text := []; sf_bin := [(p_ips, ips_file demo_records)]; sf_tbl := [] |}.
(** "*=0x8000 / .dw e / .include_ips 'p.ips' , 0x10 / e: / .dl e" *)
Definition demo_with : list xstmt := around sp00 org8000 Parser.k_dw 1 n_e 0 [XIps 1 p_ips 1 sp00 n16] 0 Parser.k_dl 1 0.
Definition demo_without : list xstmt := around sp00 org8000 Parser.k_dw 1 n_e 0 [] 0 Parser.k_dl 1 0.

Example demo_ips_text :
  xsrc demo_with = [42;61;48;120;56;48;48;48;10; 46;100;119;32;101;10;
                    46;105;110;99;108;117;100;101;95;105;112;115;32;39;112;46;105;112;115;39;32;44;48;120;49;48;10;
                    101;58;10; 46;100;108;32;101;10].
Proof. vm_compute. reflexivity. Qed.

Definition run_ips (fs : srcfiles) (xs : list xstmt) : option (list wblock * list (str * Z)) + errk :=
  match assemble_source demo_live_ips fs demo_cfg [109] (xsrc xs) with
  | AOk o _ => inl (Some (o_blocks o, o_labels o))
  | AExc k _ => inr k
  | _ => inl None
  end.

(** computed by the model: the patch's two blocks at offset + 0x10 come first, then the run
    "02 80" ++ "02 80 00" at file offset 0; the label after the directive is 0x8002 with and
    without the line; a file without header / a truncated file / a missing file are rejected *)
Example demo_ips_computed :
  run_ips demo_fs demo_with = inl (Some ([([1; 2; 3], 272); ([9; 9; 9; 9], 528); ([2; 128; 2; 128; 0], 0)], [(n_e, 32770)])) /\
  run_ips demo_fs demo_without = inl (Some ([([2; 128; 2; 128; 0], 0)], [(n_e, 32770)])) /\
  run_ips {| sf_text := []; sf_bin := [(p_ips, skipn 1 (ips_file demo_records))]; sf_tbl := [] |} demo_with = inr ERuntime /\
  run_ips {| sf_text := []; sf_bin := [(p_ips, firstn 12 (ips_file demo_records))]; sf_tbl := [] |} demo_with = inr ERuntime /\
  run_ips no_srcfiles demo_with = inr EFile.
Proof. vm_compute. repeat split; reflexivity. Qed.

Lemma demo_ips_tables : tables_ok demo_live_ips demo_cfg.
Proof. split; [vm_compute; reflexivity|]. split; [split; [reflexivity|exact I]|reflexivity]. Qed.

Lemma demo_ips_ok : Forall (xstmt_ok (lv_lex demo_live_ips)) demo_with.
Proof.
  assert (N : label_name_ok (lv_lex demo_live_ips) n_e).
  { split; [exists 101, []; repeat split; constructor|]. split; reflexivity. }
  unfold demo_with, around. cbn [app].
  constructor; [exact I|].
  constructor; [cbn [xstmt_ok stmt_ok]; split; [repeat constructor|]; split; [reflexivity|]; split; [lia|];
                split; [exact N|]; exists D_dw; reflexivity|].
  constructor; [cbn [xstmt_ok]; split; [reflexivity|]; split; [|exact I];
                repeat (constructor; [repeat split; discriminate|]); constructor|].
  constructor; [exact N|].
  constructor; [|constructor].
  cbn [xstmt_ok stmt_ok]. split; [repeat constructor|]. split; [reflexivity|]. split; [lia|]. split; [exact N|].
  exists D_dl. reflexivity.
Qed.

(** the same from the theorem, all side conditions discharged *)
Example demo_ips_proved : exists o' fin',
  assemble_source demo_live_ips demo_fs demo_cfg [109] (xsrc demo_with) = AOk o' fin' /\
  o_blocks o' = [([1; 2; 3], 272); ([9; 9; 9; 9], 528); ([2; 128; 2; 128; 0], 0)] /\ o_labels o' = [(n_e, 32770)].
Proof.
  destruct (ips_text_records demo_live_ips demo_fs demo_cfg [109] sp00 org8000 32768 Parser.k_dw D_dw 1 n_e 0
              1 p_ips 1 sp00 n16 16 0 Parser.k_dl D_dl 1 0 demo_records [] demo_ips_tables demo_org_ok demo_ips_ok)
    as (o' & fin' & E & B & L); try reflexivity; try exact I.
  - repeat constructor; cbn; unfold sentinel; try discriminate; intros H; discriminate H.
  - exists o', fin'. split; [exact E|]. split; [rewrite B; reflexivity|exact L].
Qed.

Print Assumptions xscan.
Print Assumptions xparse.
Print Assumptions xprog_front.
Print Assumptions ips_text.
Print Assumptions ips_text_records.
Print Assumptions ips_text_rejected.
Print Assumptions demo_ips_computed.
Print Assumptions demo_ips_proved.
