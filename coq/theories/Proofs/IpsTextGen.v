(** C13 at the level of source TEXT, part 3 (code generation and the passes).

    Node level, for ARBITRARY node lists [ns1], [ns2]:  putting an [NIps blocks] node between them
    changes nothing in the label pass, the symbol pass and the emission except that the writer
    receives the patch's blocks, in order, exactly between the calls made for [ns1] and the calls
    made for [ns2] ([nips_insert]).  The run that is open at the directive (the block being
    assembled) is NOT flushed: it goes on growing and is written later, at the next [*=] or at the
    end — so the patch's blocks come out BEFORE the bytes that precede the directive in the source
    when no [*=] stands in between (DESIGN S.6).

    AST level: the same for flat programs ([simple] statements), the directive's delta being a closed
    expression ([ips_program_insert]); a file the reader rejects makes code generation fail with
    the reader's error class ([ips_program_rejected]). *)
From Coq Require Import ZArith List Lia Bool Arith.
From A816 Require Import Model.Program Model.Codegen Model.Assemble Proofs.ProgramProofs Proofs.LabelTextGen.
Import ListNotations.
Open Scope Z_scope.

(** the writer calls of a patch: (bytes, address) in record order *)
Definition ips_calls (blocks : list (Z * bytes)) : list wblock := map (fun ab => (snd ab, fst ab)) blocks.

(* ------------------------------------------------------------------------------------------ *)
(** * The two resolving passes ignore the node *)

Lemma label_run_app_fwd w pre : forall post r a r1 a1 l1 r' a' l2,
  label_run w r pre a = Ok (r1, a1, l1) -> label_run w r1 post a1 = Ok (r', a', l2) ->
  label_run w r (pre ++ post) a = Ok (r', a', l1 ++ l2).
Proof.
  induction pre as [|n pre IH]; intros post r a r1 a1 l1 r' a' l2 H1 H2; cbn [app label_run] in *.
  - inversion H1; subst. exact H2.
  - destruct (if is_symbol_node n then Ok (r, a) else pc_after w r n a) as [[r0 a0]| |]; cbn [bind fst snd] in *; try discriminate.
    destruct (label_run w r0 pre a0) as [[[r3 a3] l3]| |] eqn:E; cbn [bind fst snd] in H1; try discriminate.
    inversion H1; subst. rewrite (IH post r0 a0 r1 a1 l3 r' a' l2 E H2). reflexivity.
Qed.

Lemma label_run_ips w r bl ns a : label_run w r (NIps bl :: ns) a =
  match label_run w r ns a with
  | Ok x => Ok (fst (fst x), snd (fst x), a_val a :: snd x)
  | Err k => Err k
  | OutOfFuel => OutOfFuel
  end.
Proof. cbn [label_run is_symbol_node pc_after bind fst snd]. destruct (label_run w r ns a); reflexivity. Qed.

Lemma symbol_pass_app w pre : forall post r a,
  symbol_pass w r (pre ++ post) a = (do x <- symbol_pass w r pre a; symbol_pass w (fst x) post (snd x)).
Proof.
  induction pre as [|n pre IH]; intros post r a; cbn [app symbol_pass]; [reflexivity|].
  destruct (is_label_or_binary n); [apply IH|].
  destruct (pc_after w r n a) as [[r1 a1]| |]; cbn [bind fst snd]; [apply IH|reflexivity|reflexivity].
Qed.

Lemma symbol_pass_ips w r bl ns a : symbol_pass w r (NIps bl :: ns) a = symbol_pass w r ns a.
Proof. reflexivity. Qed.

(* ------------------------------------------------------------------------------------------ *)
(** * Emission: the writer calls made so far are a frame *)

Definition with_out (st : estate) (o : list wblock) : estate :=
  {| e_r := e_r st; e_block := e_block st; e_baddr := e_baddr st; e_out := o |}.

Lemma with_out_self st : with_out st (e_out st) = st.
Proof. destruct st; reflexivity. Qed.

(** one step appends to [e_out] something that does not depend on [e_out] *)
Lemma emit_step_frame w st n x st' : emit_step w st n x = Ok st' ->
  exists d, e_out st' = e_out st ++ d /\
            forall o, emit_step w (with_out st o) n x = Ok (with_out st' (o ++ d)).
Proof.
  unfold emit_step. cbn [with_out e_r e_block e_baddr e_out].
  destruct (negb (a_val (r_reloc (e_r st)) =? x)); [discriminate|].
  destruct (node_emit w (e_r st) n) as [[r1 bs]| |]; cbn [bind]; try discriminate.
  destruct (match bs with
            | [] => Ok r1
            | _ :: _ => do a' <- addr_plus (r_reloc r1) (Z.of_nat (length bs));
                        Ok (set_reloc (set_pc r1 (r_pc r1 + Z.of_nat (length bs))) a')
            end) as [r2| |]; cbn [bind]; try discriminate.
  destruct (is_codepos n); destruct (e_block st ++ bs) as [|b0 blk];
    destruct n; intros H; inversion H; subst; clear H; cbn [e_out with_out e_r e_block e_baddr];
    try (exists []; split; [rewrite app_nil_r; reflexivity|intros o; rewrite app_nil_r; reflexivity]);
    try (eexists; split; [reflexivity|intros o; reflexivity]);
    try (eexists; split; [rewrite <- app_assoc; reflexivity|intros o; rewrite <- app_assoc; reflexivity]).
Qed.

Lemma emit_loop_frame w ns : forall st addrs st', emit_loop w st ns addrs = Ok st' ->
  exists d, e_out st' = e_out st ++ d /\
            forall o, emit_loop w (with_out st o) ns addrs = Ok (with_out st' (o ++ d)).
Proof.
  induction ns as [|n ns IH]; intros st addrs st' H; cbn [emit_loop] in *.
  - destruct addrs as [|e [|? ?]]; try discriminate.
    destruct (negb (a_val (r_reloc (e_r st)) =? e)) eqn:E; [discriminate|]. inversion H; subst.
    exists []. split; [rewrite app_nil_r; reflexivity|]. intros o. cbn [with_out e_r]. rewrite E, app_nil_r. reflexivity.
  - destruct addrs as [|x addrs]; [discriminate|].
    destruct (emit_step w st n x) as [st1| |] eqn:ES; cbn [bind] in H; try discriminate.
    destruct (emit_step_frame _ _ _ _ _ ES) as (d1 & O1 & F1).
    destruct (IH _ _ _ H) as (d2 & O2 & F2).
    exists (d1 ++ d2). split; [rewrite O2, O1, app_assoc; reflexivity|].
    intros o. rewrite F1. cbn [bind]. specialize (F2 (o ++ d1)).
    replace (with_out (with_out st1 (o ++ d1)) (o ++ d1)) with (with_out st1 (o ++ d1)) in F2 by reflexivity.
    assert (X : with_out st1 (o ++ d1) = with_out (with_out st1 (o ++ d1)) (o ++ d1)) by reflexivity.
    rewrite <- app_assoc in F2. exact F2.
Qed.

(** the directive itself: its blocks go to the writer, nothing else changes *)
Lemma emit_step_ips w st bl x : a_val (r_reloc (e_r st)) = x ->
  emit_step w st (NIps bl) x = Ok (with_out st (e_out st ++ ips_calls bl)).
Proof.
  intros H. unfold emit_step. rewrite H, Z.eqb_refl. cbn. rewrite app_nil_r. reflexivity.
Qed.

(** the run address at which the rest of the program starts, from the original run's success *)
Lemma rest_phase w r1 a1 ns2 r' a' l2 st1 stF :
  label_run w r1 ns2 a1 = Ok (r', a', l2) -> emit_loop w st1 ns2 (l2 ++ [a_val a']) = Ok stF ->
  a_val (r_reloc (e_r st1)) = a_val a1.
Proof.
  destruct ns2 as [|n rest]; cbn [label_run emit_loop].
  - intros H1 H2. inversion H1; subst. cbn [app] in H2.
    destruct (negb (a_val (r_reloc (e_r st1)) =? a_val a')) eqn:E; [discriminate|].
    apply negb_false_iff, Z.eqb_eq in E. exact E.
  - destruct (if is_symbol_node n then Ok (r1, a1) else pc_after w r1 n a1) as [[r2 a2]| |]; cbn [bind fst snd]; try discriminate.
    destruct (label_run w r2 rest a2) as [[[r3 a3] l3]| |]; cbn [bind fst snd]; try discriminate.
    intros H1 H2. inversion H1; subst. cbn [app] in H2.
    destruct (emit_step w st1 n (a_val a1)) as [st2| |] eqn:ES; cbn [bind] in H2; try discriminate.
    apply (emit_step_phase _ _ _ _ _ ES).
Qed.

(* ------------------------------------------------------------------------------------------ *)
(** * Node level: inserting the directive *)

Lemma symbol_pass_insert w bl post : forall pre r a,
  symbol_pass w r (pre ++ NIps bl :: post) a = symbol_pass w r (pre ++ post) a.
Proof.
  induction pre as [|n pre IH]; intros r a; cbn [app symbol_pass]; [reflexivity|].
  destruct (is_label_or_binary n); [apply IH|].
  destruct (pc_after w r n a) as [[r1 a1]| |]; cbn [bind fst snd]; [apply IH|reflexivity|reflexivity].
Qed.

(** what [resolve_labels] returns for the program with the directive *)
Lemma resolve_labels_insert w r ns1 ns2 bl rr addrs :
  resolve_labels w r (ns1 ++ ns2) = Ok (rr, addrs) ->
  exists l1 l2 r1 a1 rl al,
    addrs = l1 ++ l2 ++ [a_val al] /\ length l1 = length ns1 /\
    label_run w r1 ns2 a1 = Ok (rl, al, l2) /\
    resolve_labels w r (ns1 ++ NIps bl :: ns2) = Ok (rr, l1 ++ a_val a1 :: l2 ++ [a_val al]).
Proof.
  unfold resolve_labels. set (r0 := set_cur_last r (r_cur r) 0). rewrite !label_pass_run.
  destruct (label_run w r0 (ns1 ++ ns2) (r_reloc r0)) as [[[rl al] l]| |] eqn:LR; cbn [bind fst snd]; try discriminate.
  destruct (label_run_app _ _ _ _ _ _ _ _ LR) as (r1 & a1 & l1 & l2 & LR1 & LR2 & ->).
  pose proof (label_run_length _ _ _ _ _ _ _ LR1) as Len1.
  assert (LR' : label_run w r0 (ns1 ++ NIps bl :: ns2) (r_reloc r0) = Ok (rl, al, l1 ++ a_val a1 :: l2)).
  { apply (label_run_app_fwd w ns1 _ _ _ _ _ _ _ _ _ LR1). rewrite label_run_ips, LR2. reflexivity. }
  rewrite LR'. cbn [bind fst snd app]. rewrite symbol_pass_insert.
  destruct (symbol_pass w (resolver_reset rl) (ns1 ++ ns2) (r_reloc (resolver_reset rl))) as [y| |]; cbn [bind]; try discriminate.
  intros H. inversion H; subst; clear H.
  exists l1, l2, r1, a1, rl, al. split; [rewrite <- app_assoc; reflexivity|]. split; [exact Len1|].
  split; [exact LR2|]. rewrite <- app_assoc. reflexivity.
Qed.

Definition emit_state0 (r : rstate) : estate := {| e_r := r; e_block := []; e_baddr := r_pc r; e_out := [] |}.

(** [calls_before w r ns1 ns2 A]: [A] = the writer calls made while the nodes [ns1] are emitted, in
    the run of [ns1 ++ ns2] *)
Definition calls_before (w : world) (r : rstate) (ns1 ns2 : list node) (A : list wblock) : Prop :=
  exists rr addrs st1,
    resolve_labels w r (ns1 ++ ns2) = Ok (rr, addrs) /\
    emit_prefix w (emit_state0 rr) ns1 (firstn (length ns1) addrs) = Ok st1 /\ A = e_out st1.

Theorem nips_insert w r ns1 ns2 bl o :
  assemble_nodes w r (ns1 ++ ns2) = Ok o ->
  exists o' A B,
    assemble_nodes w r (ns1 ++ NIps bl :: ns2) = Ok o' /\
    o_labels o' = o_labels o /\ o_final o' = o_final o /\
    o_blocks o = A ++ B /\ o_blocks o' = A ++ ips_calls bl ++ B /\
    calls_before w r ns1 ns2 A.
Proof.
  unfold assemble_nodes.
  destruct (resolve_labels w r (ns1 ++ ns2)) as [[rr addrs]| |] eqn:RL; cbn [bind fst snd]; try discriminate.
  destruct (resolve_labels_insert w r ns1 ns2 bl rr addrs RL) as (l1 & l2 & r1 & a1 & rl & al & -> & Len1 & LR2 & RL').
  rewrite RL'. cbn [bind fst snd]. unfold emit. fold (emit_state0 rr).
  rewrite (emit_loop_app w ns1 ns2 (emit_state0 rr) l1 (l2 ++ [a_val al]) Len1).
  rewrite (emit_loop_app w ns1 (NIps bl :: ns2) (emit_state0 rr) l1 (a_val a1 :: l2 ++ [a_val al]) Len1).
  destruct (emit_prefix w (emit_state0 rr) ns1 l1) as [st1| |] eqn:EP; cbn [bind]; try discriminate.
  destruct (emit_loop w st1 ns2 (l2 ++ [a_val al])) as [stF| |] eqn:EL; cbn [bind]; try discriminate.
  intros H. inversion H; subst o; clear H. cbn [o_blocks o_labels o_final fst snd].
  pose proof (rest_phase _ _ _ _ _ _ _ _ _ LR2 EL) as Ph.
  cbn [emit_loop]. rewrite (emit_step_ips w st1 bl (a_val a1) Ph). cbn [bind].
  destruct (emit_loop_frame _ _ _ _ _ EL) as (d & Od & Fd).
  rewrite (Fd (e_out st1 ++ ips_calls bl)). cbn [bind with_out e_r e_block e_baddr e_out fst snd].
  eexists _, (e_out st1), (d ++ match e_block stF with [] => [] | b :: bs => [(b :: bs, e_baddr stF)] end).
  split; [reflexivity|]. cbn [o_blocks o_labels o_final].
  split; [reflexivity|]. split; [reflexivity|]. split; [|split].
  - rewrite Od. destruct (e_block stF); [rewrite app_nil_r; reflexivity|rewrite <- app_assoc; reflexivity].
  - destruct (e_block stF); [rewrite app_nil_r, <- app_assoc; reflexivity|rewrite <- !app_assoc; reflexivity].
  - exists rr, (l1 ++ l2 ++ [a_val al]), st1. split; [exact RL|]. split; [|reflexivity].
    rewrite <- Len1, firstn_app, firstn_all, Nat.sub_diag. cbn [firstn]. rewrite app_nil_r. exact EP.
Qed.

(** in a run that starts with [*=] and has neither another position move nor another patch before
    the directive, nothing has been handed to the writer when the directive is reached *)
Definition quiet (n : node) : bool :=
  match n with NCodePos _ _ | NIps _ => false | _ => true end.

Lemma emit_step_quiet w st n x st' : quiet n = true -> emit_step w st n x = Ok st' -> e_out st' = e_out st.
Proof.
  intros Q. unfold emit_step. destruct (negb _); [discriminate|].
  destruct (node_emit w (e_r st) n) as [[r1 bs]| |]; cbn [bind]; try discriminate.
  destruct (match bs with [] => Ok r1 | _ :: _ => _ end) as [r2| |]; cbn [bind]; try discriminate.
  destruct n; try discriminate Q; intros H; inversion H; reflexivity.
Qed.

Lemma emit_prefix_quiet w ns : forallb quiet ns = true -> forall st addrs st',
  emit_prefix w st ns addrs = Ok st' -> e_out st' = e_out st.
Proof.
  induction ns as [|n ns IH]; intros Q st addrs st' H; cbn [emit_prefix] in H.
  - inversion H; reflexivity.
  - cbn [forallb] in Q. apply andb_prop in Q as [Qn Qr]. destruct addrs as [|x addrs]; [discriminate|].
    destruct (emit_step w st n x) as [st1| |] eqn:ES; cbn [bind] in H; try discriminate.
    rewrite (IH Qr _ _ _ H). apply (emit_step_quiet _ _ _ _ _ Qn ES).
Qed.

Lemma emit_step_first_codepos w r e fi x st' :
  emit_step w (emit_state0 r) (NCodePos e fi) x = Ok st' -> e_out st' = [].
Proof.
  unfold emit_step, emit_state0. cbn [e_r e_block e_baddr e_out]. destruct (negb _); [discriminate|].
  cbn [node_emit]. destruct (get_value w r e); cbn [bind]; try discriminate.
  destruct (set_position w r a); cbn [bind is_codepos app]; try discriminate.
  intros H; inversion H; reflexivity.
Qed.

Lemma calls_before_quiet w r e fi ns1 ns2 A : forallb quiet ns1 = true ->
  calls_before w r (NCodePos e fi :: ns1) ns2 A -> A = [].
Proof.
  intros Q (rr & addrs & st1 & _ & EP & ->). cbn [length firstn emit_prefix] in EP.
  destruct addrs as [|x addrs]; [discriminate|]. cbn [firstn] in EP.
  destruct (emit_step w (emit_state0 rr) (NCodePos e fi) x) as [st0| |] eqn:ES; cbn [bind] in EP; try discriminate.
  rewrite (emit_prefix_quiet _ _ Q _ _ _ EP). apply (emit_step_first_codepos _ _ _ _ _ _ ES).
Qed.

(* ------------------------------------------------------------------------------------------ *)
(** * AST level *)

(** the directive with a closed delta and a readable file generates one node, in any state *)
Lemma simple_ips w path e fi delta bl :
  (forall r, eval_raw w r e = Ok delta) -> w_ips w path delta = Ok bl ->
  simple w (AIncludeIps path e fi) [NIps bl].
Proof. intros He Hw gen s. cbn [gen_one]. rewrite He. cbn [bind]. rewrite Hw. reflexivity. Qed.

Lemma assemble_program_simple w c ri asts nss o :
  initial_resolver w c = Ok ri -> Forall2 (simple w) asts nss ->
  assemble_nodes w ri (concat nss) = Ok o -> assemble_program w c asts = AOk o (o_final o).
Proof.
  intros Hi Hs E. unfold assemble_program. rewrite Hi, (code_gen_simple w _ asts nss Hs). cbn [cg_r].
  rewrite E. reflexivity.
Qed.

(** "Without disturbing": for every flat program [asts1 ++ asts2] that assembles, the program with
    the directive in between assembles to the same labels and the same final resolver, and the
    writer receives the same calls plus the patch's blocks, after the calls made for [asts1]. *)
Theorem ips_program_insert w c ri asts1 nss1 asts2 nss2 path e fi delta bl o :
  initial_resolver w c = Ok ri ->
  Forall2 (simple w) asts1 nss1 -> Forall2 (simple w) asts2 nss2 ->
  (forall r, eval_raw w r e = Ok delta) -> w_ips w path delta = Ok bl ->
  assemble_nodes w ri (concat nss1 ++ concat nss2) = Ok o ->
  exists o' A B,
    assemble_program w c (asts1 ++ AIncludeIps path e fi :: asts2) = AOk o' (o_final o') /\
    assemble_program w c (asts1 ++ asts2) = AOk o (o_final o) /\
    o_labels o' = o_labels o /\ o_final o' = o_final o /\
    o_blocks o = A ++ B /\ o_blocks o' = A ++ ips_calls bl ++ B /\
    calls_before w ri (concat nss1) (concat nss2) A.
Proof.
  intros Hi H1 H2 He Hw E.
  destruct (nips_insert w ri (concat nss1) (concat nss2) bl o E) as (o' & A & B & E' & HL & HF & HB & HB' & HC).
  exists o', A, B. split; [|split; [|auto]].
  - apply (assemble_program_simple w c ri _ (nss1 ++ [NIps bl] :: nss2) o' Hi).
    + apply Forall2_app; [exact H1|]. constructor; [exact (simple_ips w path e fi delta bl He Hw)|exact H2].
    + rewrite concat_app. cbn [concat app]. exact E'.
  - apply (assemble_program_simple w c ri _ (nss1 ++ nss2) o Hi); [apply Forall2_app; assumption|].
    rewrite concat_app. exact E.
Qed.

(** a file that the reader rejects (or that is missing): code generation stops at the directive
    with that error class, whatever follows *)
Theorem ips_program_rejected w c ri asts1 nss1 asts2 path e fi delta k :
  initial_resolver w c = Ok ri -> Forall2 (simple w) asts1 nss1 ->
  (forall r, eval_raw w r e = Ok delta) -> w_ips w path delta = Err k ->
  assemble_program w c (asts1 ++ AIncludeIps path e fi :: asts2) = AExc k None.
Proof.
  intros Hi H1 He Hw. unfold assemble_program. rewrite Hi.
  change (code_gen_fuel w cg_depth) with (gen_list w (code_gen_fuel w 299)).
  set (gen := code_gen_fuel w 299). set (s := {| cg_r := ri; cg_macros := [] |}).
  assert (X : gen_list w gen s (asts1 ++ AIncludeIps path e fi :: asts2) = Err k).
  { clear Hi. revert nss1 H1. generalize s. induction asts1 as [|a asts1 IH]; intros s0 nss1 H1.
    - cbn [app gen_list gen_one]. rewrite He. cbn [bind]. rewrite Hw. reflexivity.
    - inversion H1 as [|? ns ? nss' Ha Hr]; subst. cbn [app gen_list]. rewrite (Ha gen s0). cbn [bind fst snd].
      rewrite (IH s0 nss' Hr). reflexivity. }
  assert (Y : gen_list_site w gen (code_gen_site w 299) s (asts1 ++ AIncludeIps path e fi :: asts2) = None).
  { clear Hi X. revert nss1 H1. generalize s. induction asts1 as [|a asts1 IH]; intros s0 nss1 H1.
    - cbn [app gen_list_site gen_one]. rewrite He. cbn [bind]. rewrite Hw. cbn [bind]. reflexivity.
    - inversion H1 as [|? ns ? nss' Ha Hr]; subst. cbn [app gen_list_site]. rewrite (Ha gen s0). cbn [fst].
      apply (IH s0 nss' Hr). }
  change (code_gen_site w cg_depth) with (gen_list_site w (code_gen_fuel w 299) (code_gen_site w 299)).
  fold gen. rewrite X, Y. reflexivity.
Qed.

Print Assumptions nips_insert.
Print Assumptions ips_program_insert.
Print Assumptions ips_program_rejected.
Print Assumptions calls_before_quiet.
