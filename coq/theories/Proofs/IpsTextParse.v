(** C13 at the level of source TEXT, part 2 (parser): the tokens
        KEYWORD include_ips, QUOTED_STRING, COMMA, <tokens of an expression>
    are one statement ([sparse], Proofs/LabelTextParse.v) that parse_decl turns into
        AIncludeIps <the string without its quotes> <the expression> <the QUOTED_STRING token>
    wherever they stand in a token list, provided a statement (or EOF) follows. *)
From Coq Require Import ZArith NArith List Bool Lia Arith.
From A816 Require Import Spec.ExprSem Model.Scanner Model.Parser Proofs.ParserProofs
  Proofs.ParserShapeProofs Proofs.ParserShapeTokens
  Proofs.ExprLex Proofs.ExprLexParse Proofs.DataTextScan Proofs.DataTextParse Proofs.InsnTextScan
  Proofs.InsnTextParse Proofs.LabelTextParse.
Import ListNotations.
Open Scope Z_scope.

Lemma strip_quotes_quoted path : strip_quotes (39 :: path ++ [39]) = path.
Proof. unfold strip_quotes. cbn [tl]. apply removelast_last. Qed.

Lemma pdecl_include_ips ts sub f pos l :
  t_type (cur ts pos) = T_KEYWORD -> t_value (cur ts pos) = k_include_ips ->
  t_type (cur ts (S pos)) = T_QUOTED_STRING -> t_type (cur ts (S (S pos))) = T_COMMA ->
  PE l -> seg ts (S (S (S pos))) (map en_tok l) ->
  is_ty (cur ts (S (S (S pos)) + length l)) T_OPERATOR = false -> (length l < f)%nat ->
  pdecl ts sub (S f) pos =
  POk (Some (AIncludeIps (strip_quotes (t_value (cur ts (S pos)))) l (cur ts (S pos))), (S (S (S pos)) + length l)%nat).
Proof.
  intros Hk Hv Hq Hc P G St HF. rewrite pdecl_S. unfold pdecl_body. cbv zeta. rewrite Hk.
  cbn [backup]. unfold pkeyword. cbv zeta. rewrite Hv.
  change (str_eqb k_include_ips k_scope) with false. change (str_eqb k_include_ips k_ascii) with false.
  change (str_eqb k_include_ips k_text) with false. change (dkind_of k_include_ips) with (@None dkind).
  change (str_eqb k_include_ips k_include) with false. change (str_eqb k_include_ips k_include_ips) with true.
  cbv beta iota. unfold pinclude_ips, pquoted, expect, is_ty. cbv zeta. rewrite Hq.
  cbn [ttype_eqb ttype_code Z.eqb Pos.eqb pbind fst snd]. rewrite Hc.
  cbn [ttype_eqb ttype_code Z.eqb Pos.eqb].
  rewrite (pexpression_PE ts l P (S (S (S pos))) f G St HF). reflexivity.
Qed.

Theorem sparse_ips kwt qt ct l :
  t_type kwt = T_KEYWORD -> t_value kwt = k_include_ips -> t_type qt = T_QUOTED_STRING ->
  t_type ct = T_COMMA -> PE l ->
  sparse (kwt :: qt :: ct :: map en_tok l) (AIncludeIps (strip_quotes (t_value qt)) l qt).
Proof.
  intros Hk Hv Hq Hc P. exists kwt, (qt :: ct :: map en_tok l). split; [reflexivity|].
  split; [unfold starter; rewrite Hk; reflexivity|]. split; [rewrite Hk; discriminate|].
  intros sub f pre rest Hr HF. set (ts := pre ++ (kwt :: qt :: ct :: map en_tok l) ++ rest).
  assert (C0 : cur ts (length pre) = kwt) by (unfold ts; cbn [app]; apply cur_mid).
  assert (C1 : cur ts (S (length pre)) = qt).
  { unfold ts. replace (pre ++ (kwt :: qt :: ct :: map en_tok l) ++ rest)
      with ((pre ++ [kwt]) ++ qt :: (ct :: map en_tok l) ++ rest) by (rewrite <- app_assoc; reflexivity).
    replace (S (length pre)) with (length (pre ++ [kwt])) by (lens2; lia). apply cur_mid. }
  assert (C2 : cur ts (S (S (length pre))) = ct).
  { unfold ts. replace (pre ++ (kwt :: qt :: ct :: map en_tok l) ++ rest)
      with ((pre ++ [kwt; qt]) ++ ct :: map en_tok l ++ rest) by (rewrite <- app_assoc; reflexivity).
    replace (S (S (length pre))) with (length (pre ++ [kwt; qt])) by (lens2; lia). apply cur_mid. }
  assert (G : seg ts (S (S (S (length pre)))) (map en_tok l)).
  { unfold ts. replace (pre ++ (kwt :: qt :: ct :: map en_tok l) ++ rest)
      with ((pre ++ [kwt; qt; ct]) ++ map en_tok l ++ rest) by (rewrite <- app_assoc; reflexivity).
    replace (S (S (S (length pre)))) with (length (pre ++ [kwt; qt; ct])) by (lens2; lia). apply seg_mid. }
  assert (C3 : cur ts (S (S (S (length pre))) + length l) = hd eof_token rest).
  { unfold ts. replace (pre ++ (kwt :: qt :: ct :: map en_tok l) ++ rest)
      with ((pre ++ kwt :: qt :: ct :: map en_tok l) ++ rest) by (rewrite <- app_assoc; reflexivity).
    replace (S (S (S (length pre))) + length l)%nat with (length (pre ++ kwt :: qt :: ct :: map en_tok l) + 0)%nat
      by (lens2; lia).
    unfold cur. rewrite app_nth2_plus. destruct rest; reflexivity. }
  rewrite (pdecl_include_ips ts sub f (length pre) l).
  - rewrite C1. f_equal. f_equal. lens2. lia.
  - rewrite C0. exact Hk.
  - rewrite C0. exact Hv.
  - rewrite C1. exact Hq.
  - rewrite C2. exact Hc.
  - exact P.
  - exact G.
  - rewrite C3. exact (starter_not _ T_OPERATOR Hr).
  - lens2. lia.
Qed.

Print Assumptions sparse_ips.
