(** C13 at the level of source TEXT, part 1 (scanner): the line

        .include_ips '<path>' , <delta expression>

    as an instance of the line framework of Proofs/LabelTextScan.v ([lscan]): wherever the line
    stands in a text, Scanner(lex_initial).scan makes 3 + n calls of lex_initial on it and appends
    KEYWORD include_ips, QUOTED_STRING (the path WITH its quotes), COMMA and the n tokens of the
    expression.  Path: any characters except the quote, the backslash and the newline.
    Expression: the statement-context class [dlex] of Proofs/DataTextScan.v (literals in any base,
    unary '-', + - * & << >>, parentheses), any spacing.  Table hypothesis: "include_ips" is in
    the lexicon's keyword list. *)
From Coq Require Import ZArith NArith List Bool Lia Arith.
From A816 Require Import Spec.ExprSem Model.Scanner Model.Parser Proofs.ScannerFuel Proofs.ScannerMono
  Proofs.ExprProofs Proofs.ExprLex Proofs.DataTextScan Proofs.ParserShapeTokens Proofs.InsnTextParse
  Proofs.InsnTextScan Proofs.LabelTextScan.
Import ListNotations.
Open Scope Z_scope.

Definition path_ok (path : str) : Prop := Forall (fun c => c <> 39 /\ c <> 10 /\ c <> 92) path.

(** lex_quoted_string after the opening quote *)
Lemma quoted_Zv : forall path F p s a v r out,
  Zv s a v (path ++ 39 :: r) out -> path_ok path -> (length path < F)%nat ->
  exists s', (let '(c, s1) := next s in quoted_loop F p c s1) = LOk s' /\
             Zv s' (a ++ v ++ path ++ [39]) [] r ((T_QUOTED_STRING, v ++ path ++ [39]) :: out).
Proof.
  induction path as [|c path IH]; intros F p s a v r out H P HF.
  - cbn [app] in *. destruct (next_Zv _ _ _ _ _ _ H) as (s1 & N & H1). rewrite N.
    destruct F as [|f]; [cbn in HF; lia|]. cbn [quoted_loop oz_is]. change (39 =? 39) with true. cbv beta iota.
    eexists. split; [reflexivity|]. apply (emit_Zv _ _ _ _ _ T_QUOTED_STRING H1).
  - inversion P as [|? ? (N39 & N10 & N92) P']; subst. cbn [app] in H.
    destruct (next_Zv _ _ _ _ _ _ H) as (s1 & N & H1). rewrite N.
    destruct F as [|f]; [cbn in HF; lia|]. cbn [quoted_loop oz_is].
    replace (c =? 39) with false by (symmetry; apply Z.eqb_neq; exact N39).
    replace (c =? 10) with false by (symmetry; apply Z.eqb_neq; exact N10).
    replace (c =? 92) with false by (symmetry; apply Z.eqb_neq; exact N92).
    cbn [orb andb]. cbv beta iota.
    destruct (IH f p s1 a (v ++ [c]) r out H1 P' ltac:(cbn [length] in HF; lia)) as (s' & E & H').
    exists s'. split; [exact E|]. rewrite <- !app_assoc in H'. cbn [app] in H'. exact H'.
Qed.

(** one call of lex_initial on  blanks 'path'  *)
Lemma init_quoted lx F s a ws path r out :
  Zv s a [] (ws ++ 39 :: path ++ 39 :: r) out -> all_in blanks ws -> path_ok path ->
  (length (inp s) + 1 < F)%nat ->
  exists s', lex_initial lx F s = LOk s' /\
             Zv s' (a ++ ws ++ 39 :: path ++ [39]) [] r ((T_QUOTED_STRING, 39 :: path ++ [39]) :: out).
Proof.
  intros H B P HF. pose proof (Zv_len _ _ _ _ _ H) as L. rewrite !app_length in L. cbn [length] in L.
  rewrite app_length in L. cbn [length] in L.
  unfold lex_initial, ignore_run.
  destruct (accept_run_Zv blanks ws F s a [] (39 :: path ++ 39 :: r) out H B eq_refl ltac:(lia)) as (s1 & R & H1).
  rewrite R. cbn [lbind]. apply ignore_Zv in H1. cbn [app] in H1.
  set (s0 := ignore s1) in *. clearbody s0. clear R s1.
  nop H1 [59]. nop H1 digits. nop H1 [43; 45; 38].
  nopr H1 [61; 61]. nopr H1 [33; 61]. nopr H1 [62; 62]. nopr H1 [60; 60].
  nopr H1 [62]. nopr H1 [60]. nopr H1 [62; 61]. nopr H1 [60; 61].
  nop H1 ident_start. nop H1 [46]. nop H1 [44]. nopr H1 [58; 61]. nopr H1 [64; 61].
  nop H1 [42].
  destruct (accept_Zv_true s0 _ [] 39 (path ++ 39 :: r) out [39] H1 eq_refl) as (s2 & A2 & H2).
  rewrite A2. cbv beta iota. cbn [app] in H2. unfold lex_quoted_string.
  destruct (quoted_Zv path F (get_position s2) s2 _ [39] r out H2 P ltac:(lia)) as (s' & E & H').
  exists s'. split; [exact E|]. rewrite <- app_assoc in H'. cbn [app] in H'. exact H'.
Qed.

(** the text and the tokens of the line (without its newline) *)
Definition ips_body (k1 : nat) (path : str) (k2 : nat) (sp : spacing) (e : sexpr) : str :=
  46 :: k_include_ips ++ spaces k1 ++ 39 :: path ++ 39 :: spaces k2 ++ 44 :: text_of sp e.
Definition ips_toks (path : str) (e : sexpr) : list tk :=
  (T_KEYWORD, k_include_ips) :: (T_QUOTED_STRING, 39 :: path ++ [39]) :: (T_COMMA, [44]) :: toks_of e.

Lemma include_ips_kw_chars : all_in kw_chars k_include_ips.
Proof. repeat constructor. Qed.

Theorem lscan_ips lx k1 path k2 sp e :
  mem_str k_include_ips (lx_keywords lx) = true -> path_ok path -> dlex e ->
  lscan lx (ips_body k1 path k2 sp e) (ips_toks path e) (3 + length (toks_of e)).
Proof.
  intros Kkw P De F n s a ws r out H B HF.
  assert (H' : Zv s a [] (ws ++ (46 :: k_include_ips) ++
                          (spaces k1 ++ 39 :: path ++ 39 :: spaces k2 ++ [44] ++ join sp 0 (toks_of e) ++ 10 :: r)) out).
  { unfold ips_body in H. rewrite text_of_join in H. cbn [app] in *.
    repeat (rewrite <- ?app_assoc in H; cbn [app] in H). exact H. }
  clear H. cbn [Nat.add].
  (* keyword *)
  destruct (scan_tok lx (S (S (length (toks_of e) + n))) F s a ws T_KEYWORD k_include_ips (46 :: k_include_ips) _ out H' B
              (i_kw lx k_include_ips include_ips_kw_chars Kkw)) as (s1 & E1 & H1 & L1).
  { cbn [follow_ok]. destruct k1; reflexivity. }
  { exact HF. }
  rewrite E1. clear E1.
  (* quoted string *)
  destruct (init_quoted lx F s1 _ (spaces k1) path _ _ H1 (blanks_spaces _) P ltac:(lia)) as (s2 & E2 & H2).
  assert (C2 : scan_loop (S (S (length (toks_of e) + n))) F (lex_initial lx) s1
               = scan_loop (S (length (toks_of e) + n)) F (lex_initial lx) s2).
  { eapply scan_call; [exact H1| |exact E2|exact H2|].
    - destruct k1; discriminate.
    - rewrite !app_length. cbn [length]. lia. }
  rewrite C2. clear C2.
  pose proof (Zv_len _ _ _ _ _ H1) as Z1. pose proof (Zv_len _ _ _ _ _ H2) as Z2.
  assert (L2 : length (inp s2) = length (inp s)).
  { rewrite Z2, <- L1, Z1. repeat (rewrite ?app_length; cbn [length]). lia. }
  (* comma *)
  destruct (scan_tok lx (length (toks_of e) + n) F s2 _ (spaces k2) T_COMMA [44] [44] _ _ H2 (blanks_spaces _)
              (i_comma lx) I ltac:(lia)) as (s3 & E3 & H3 & L3).
  rewrite E3. clear E3.
  (* delta expression *)
  pose proof (seq_toks e (dlex_lexable _ De) [] I) as Sq. rewrite app_nil_r in Sq.
  destruct (scan_segment lx sp F (10 :: r) eq_refl ltac:(discriminate)
              (toks_of e) false 0%nat n s3 _ _ H3 Sq (dlex_toks _ De) ltac:(lia)) as (s4 & a4 & E4 & H4 & L4).
  rewrite E4. exists s4, a4, (sp (0 + length (toks_of e))%nat). split; [reflexivity|]. split; [|lia].
  unfold ips_toks. cbn [rev]. repeat (rewrite <- ?app_assoc; cbn [app]). exact H4.
Qed.

Print Assumptions lscan_ips.
