(** C02 — from the binding of a label to the label table handed out at the end: a label whose name
    is defined once keeps, in [get_all_labels], the address it was bound to — which by phase
    agreement is the run address at which its node (and the next emitted byte) is emitted. *)
From Coq Require Import ZArith List Lia Bool Arith.
From A816 Require Import Model.Program Spec.EnvSem Proofs.BusProofs Proofs.ResolverProofs Proofs.ProgramProofs.
Open Scope Z_scope.

(** The name a node enters into a scope's label table, if any. *)
Definition node_label (n : node) : option str :=
  match n with
  | NLabel name => Some name
  | NBinary path _ => Some (symbol_base path)
  | _ => None
  end.

(** [x]'s entry in every scope's label table is the same in [r'] as in [r]. *)
Definition labels_keep (x : str) (r r' : rstate) : Prop :=
  forall i s, nth_error (r_scopes r) i = Some s ->
    exists s', nth_error (r_scopes r') i = Some s' /\ dict_get (s_labels s') x = dict_get (s_labels s) x.

Lemma labels_keep_refl x r : labels_keep x r r.
Proof. intros i s H. eauto. Qed.
Lemma labels_keep_trans x a b c : labels_keep x a b -> labels_keep x b c -> labels_keep x a c.
Proof.
  intros H1 H2 i s H. destruct (H1 _ _ H) as (s1 & A & B). destruct (H2 _ _ A) as (s2 & C & D).
  exists s2. split; [exact C|congruence].
Qed.
Lemma labels_keep_scopes_eq x r r' : r_scopes r' = r_scopes r -> labels_keep x r r'.
Proof. intros E i s H. rewrite E. eauto. Qed.

Lemma labels_keep_upd x r j f :
  (forall s, dict_get (s_labels (f s)) x = dict_get (s_labels s) x) -> labels_keep x r (upd_scope r j f).
Proof.
  intros Hf i s H. unfold upd_scope. cbn [set_scopes r_scopes]. rewrite nth_list_update.
  destruct (Nat.eqb j i); rewrite H; cbn; eauto.
Qed.

Lemma export_into_labels name child parent : s_labels (export_into name child parent) = s_labels parent.
Proof.
  unfold export_into. revert parent; induction child as [|[k v] child IH]; intros parent; [reflexivity|].
  cbn [fold_left]. rewrite IH. reflexivity.
Qed.

Lemma restore_scope_labels x r e r' : restore_scope r e = Ok r' -> labels_keep x r r'.
Proof.
  unfold restore_scope. destruct (nth_error (r_scopes r) (r_cur r)) as [s|]; [|discriminate].
  destruct (s_parent s) as [p|]; [|discriminate]. intros H; inversion H; subst; clear H.
  destruct (s_kind s); try (apply labels_keep_scopes_eq; reflexivity).
  destruct e; [|apply labels_keep_scopes_eq; reflexivity].
  eapply labels_keep_trans; [apply labels_keep_upd|apply labels_keep_scopes_eq; reflexivity].
  intros s0. rewrite export_into_labels. reflexivity.
Qed.
Lemma use_next_scope_labels x r r' : use_next_scope r = Ok r' -> labels_keep x r r'.
Proof.
  unfold use_next_scope. destruct (nth_error _ _); [|discriminate]. intros H; inversion H; subst.
  apply labels_keep_scopes_eq. reflexivity.
Qed.
Lemma set_position_labels x w r v r' : set_position w r v = Ok r' -> labels_keep x r r'.
Proof.
  unfold set_position. destruct (get_bus w r); cbn [bind]; try discriminate.
  destruct (mk_addr _ _); cbn [bind]; try discriminate.
  destruct (addr_phys _) as [[p|]| |]; cbn [bind]; try discriminate; intros H; inversion H; subst;
    apply labels_keep_scopes_eq; reflexivity.
Qed.

(** A node that does not define the label [x] leaves [x]'s entries alone, in every pass. *)
Lemma pc_after_labels_keep x w r n a r' a' :
  node_label n <> Some x -> pc_after w r n a = Ok (r', a') -> labels_keep x r r'.
Proof.
  intros Hx. destruct n; cbn [pc_after node_label] in *;
    repeat match goal with |- context [bind ?X _] => destruct X eqn:?; cbn [bind]; try discriminate end;
    intros H; try (inversion H; subst);
    try (apply labels_keep_refl);
    try (eapply use_next_scope_labels; eassumption);
    try (eapply restore_scope_labels; eassumption).
  - (* NLabel other name *)
    apply labels_keep_upd. intros s. cbn [scope_add_label s_labels]. apply dict_get_set_other.
    destruct (str_eqb x name) eqn:E; [|reflexivity]. apply str_eqb_eq in E. subst. congruence.
  - (* NSymbol *) apply labels_keep_upd. reflexivity.
  - (* NSymConst *) apply labels_keep_upd. reflexivity.
  - (* NBinary other name *)
    eapply labels_keep_trans; [apply labels_keep_upd|apply labels_keep_upd; reflexivity].
    intros s. cbn [scope_add_label s_labels]. apply dict_get_set_other.
    destruct (str_eqb x (symbol_base path)) eqn:E; [|reflexivity]. apply str_eqb_eq in E. subst. congruence.
Qed.

Lemma node_emit_labels_keep x w r n r' bs : node_emit w r n = Ok (r', bs) -> labels_keep x r r'.
Proof.
  destruct n; cbn [node_emit];
    repeat match goal with |- context [bind ?X _] => destruct X eqn:?; cbn [bind]; try discriminate end;
    intros H; inversion H; subst;
    try (apply labels_keep_refl);
    try (eapply use_next_scope_labels; eassumption);
    try (eapply restore_scope_labels; eassumption);
    try (eapply set_position_labels; eassumption).
Qed.

Definition defines_none (x : str) (ns : list node) : Prop := Forall (fun n => node_label n <> Some x) ns.

Lemma label_run_labels_keep x w ns : defines_none x ns -> forall r a r' a' l,
  label_run w r ns a = Ok (r', a', l) -> labels_keep x r r'.
Proof.
  intros Hn. induction Hn as [|n ns Hn0 Hns IH]; intros r a r' a' l; cbn [label_run].
  - intros H; inversion H; subst. apply labels_keep_refl.
  - destruct (is_symbol_node n).
    + cbn [bind fst snd]. destruct (label_run w r ns a) as [[[r2 a2] l2]| |] eqn:E; cbn [bind fst snd]; try discriminate.
      intros H; inversion H; subst. eapply IH; eauto.
    + destruct (pc_after w r n a) as [[r1 a1]| |] eqn:P; cbn [bind fst snd]; try discriminate.
      destruct (label_run w r1 ns a1) as [[[r2 a2] l2]| |] eqn:E; cbn [bind fst snd]; try discriminate.
      intros H; inversion H; subst.
      eapply labels_keep_trans; [eapply pc_after_labels_keep; eauto|eapply IH; eauto].
Qed.

Lemma symbol_pass_labels_keep x w ns : forall r a r' a',
  symbol_pass w r ns a = Ok (r', a') -> labels_keep x r r'.
Proof.
  induction ns as [|n ns IH]; intros r a r' a'; cbn [symbol_pass].
  - intros H; inversion H; subst. apply labels_keep_refl.
  - destruct (is_label_or_binary n) eqn:L; [apply IH|].
    destruct (pc_after w r n a) as [[r1 a1]| |] eqn:P; cbn [bind fst snd]; try discriminate.
    intros H. eapply labels_keep_trans; [|eapply IH; eauto].
    eapply pc_after_labels_keep; [|exact P]. destruct n; cbn in L |- *; try discriminate L; intro X; discriminate X.
Qed.

Lemma emit_step_labels_keep x w st n a st' : emit_step w st n a = Ok st' -> labels_keep x (e_r st) (e_r st').
Proof.
  unfold emit_step. destruct (negb _); [discriminate|].
  destruct (node_emit w (e_r st) n) as [[r1 bs]| |] eqn:NE; cbn [bind]; try discriminate.
  pose proof (node_emit_labels_keep x _ _ _ _ _ NE) as K1.
  destruct bs as [|b0 bs0]; cbn [bind].
  - intros H. assert (E1 : e_r st' = r1) by (destruct n; destruct (is_codepos _); inversion H; reflexivity). rewrite E1. exact K1.
  - destruct (addr_plus _ _) as [a'| |]; cbn [bind]; try discriminate. intros H.
    assert (r_scopes (e_r st') = r_scopes r1) by (destruct n; destruct (is_codepos _); inversion H; reflexivity).
    eapply labels_keep_trans; [exact K1|apply labels_keep_scopes_eq; assumption].
Qed.

Lemma emit_loop_labels_keep x w ns : forall st addrs st',
  emit_loop w st ns addrs = Ok st' -> labels_keep x (e_r st) (e_r st').
Proof.
  induction ns as [|n ns IH]; intros st addrs st'; cbn [emit_loop].
  - destruct addrs as [|e [|? ?]]; try discriminate. destruct (negb _); [discriminate|]. intros H; inversion H; subst. apply labels_keep_refl.
  - destruct addrs as [|e addrs]; [discriminate|].
    destruct (emit_step w st n e) as [st1| |] eqn:ES; cbn [bind]; try discriminate.
    intros H. eapply labels_keep_trans; [eapply emit_step_labels_keep; eauto|eapply IH; eauto].
Qed.

Lemma labels_keep_reset x r : labels_keep x r (resolver_reset r).
Proof. apply labels_keep_scopes_eq. reflexivity. Qed.

(** The label table at the end of a successful assembly: a label name defined by exactly one node
    of the list has, in the scope that was current at that node, the address the label pass held
    there — by [phase_agreement], the run address at which the node is emitted. *)
Theorem label_final_value w r pre name post out :
  defines_none name pre -> defines_none name post ->
  assemble_nodes w r (pre ++ NLabel name :: post) = Ok out ->
  exists r1 a1 l1,
    label_run w (set_cur_last r (r_cur r) 0) pre (r_reloc r) = Ok (r1, a1, l1) /\
    forall s1, nth_error (r_scopes r1) (r_cur r1) = Some s1 ->
      exists s, nth_error (r_scopes (o_final out)) (r_cur r1) = Some s /\
                dict_get (s_labels s) name = Some (a_val a1).
Proof.
  intros Hpre Hpost H. unfold assemble_nodes, resolve_labels in H. rewrite label_pass_run in H.
  cbn [r_reloc set_cur_last] in H.
  destruct (label_run w (set_cur_last r (r_cur r) 0) (pre ++ NLabel name :: post) (r_reloc r)) as [[[rA aA] lA]| |] eqn:LR;
    cbn [bind fst snd] in H; try discriminate.
  destruct (label_run_app _ _ _ _ _ _ _ _ LR) as (r1 & a1 & l1 & l2 & A & B & C).
  cbn [label_run is_symbol_node pc_after bind fst snd] in B.
  destruct (label_run w (add_label r1 name (a_val a1)) post a1) as [[[r3 a3] l3]| |] eqn:LP; cbn [bind fst snd] in B; try discriminate.
  inversion B; subst rA aA l2; clear B.
  destruct (symbol_pass w (resolver_reset r3) _ _) as [[r4 a4]| |] eqn:SP; cbn [bind fst snd] in H; try discriminate.
  unfold Program.emit in H.
  destruct (emit_loop w _ _ _) as [stF| |] eqn:EL; cbn [bind] in H; try discriminate.
  inversion H; subst out; clear H. cbn [o_final fst].
  (* chain: after the label node -> end of label pass -> reset -> symbol pass -> reset -> emission *)
  assert (K : labels_keep name (add_label r1 name (a_val a1)) (e_r stF)).
  { eapply labels_keep_trans; [eapply label_run_labels_keep; eauto|].
    eapply labels_keep_trans; [apply labels_keep_reset|].
    eapply labels_keep_trans; [eapply symbol_pass_labels_keep; eauto|].
    eapply labels_keep_trans; [apply labels_keep_reset|].
    apply (emit_loop_labels_keep name w _ _ _ _ EL). }
  exists r1, a1, l1. split; [exact A|]. intros s1 N.
  assert (N' : nth_error (r_scopes (add_label r1 name (a_val a1))) (r_cur r1) = Some (scope_add_label name (a_val a1) s1)).
  { unfold add_label, upd_scope. cbn [set_scopes r_scopes]. apply nth_list_update_same. exact N. }
  destruct (K _ _ N') as (sF & NF & DF). exists sF. split; [exact NF|].
  rewrite DF. cbn [scope_add_label s_labels]. apply dict_get_set_same.
Qed.
