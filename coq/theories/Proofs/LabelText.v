(** C02 / C05 at the level of source TEXT: programs made of statements
      "*= e"   "name:"   ".dl name" (a data directive whose item is an identifier)
      an instruction line with any operand syntax (operand expressions may contain identifiers)
    -- text, tokens (Proofs/LabelTextScan.v), AST (Proofs/LabelTextParse.v) -- and the whole-pipeline
    theorems for a label that is defined and used (T1: a data item; T2: a relative branch). *)
From Coq Require Import ZArith NArith List Bool Lia ZifyBool Arith.
From A816 Require Import Spec.ExprSem Spec.BusLaws Model.Assemble Proofs.ParserProofs
  Proofs.ParserShapeProofs Proofs.ParserShapeTokens
  Proofs.BusProofs Proofs.NodeProofs Proofs.PackLemmas Proofs.OpcodeProofs Proofs.ExprProofs
  Proofs.ExprLex Proofs.ExprLexParse Proofs.DataTextScan Proofs.DataTextParse Proofs.DataTextGen Proofs.DataText
  Proofs.InsnTextScan Proofs.InsnTextParse Proofs.InsnTextGen Proofs.InsnText
  Proofs.LabelTextScan Proofs.LabelTextParse Proofs.LabelTextGen.
Import ListNotations.
Open Scope Z_scope.
Ltac Zify.zify_post_hook ::= Z.to_euclidean_division_equations.

(* ------------------------------------------------------------------------------------------ *)
(** * Statements: text, tokens, side conditions *)

Inductive stmt :=
| SOrg (sp0 : spacing) (eorg : sexpr)                                  (* *= e *)
| SLabel (name : str) (k : nat)                                        (* name:  *)
| SDataId (kw : str) (k1 : nat) (name : str) (k2 : nat)                (* .kw  name  *)
| SInsn (mn : str) (sz : option Z) (os : ospacing) (sh : shape) (e : sexpr) (i1 i2 : Z).

Definition stmt_line (s : stmt) : line :=
  match s with
  | SOrg sp0 eorg =>
      {| l_body := [42; 61] ++ text_of sp0 eorg; l_toks := (T_STAR_EQ, [42; 61]) :: toks_of eorg;
         l_calls := S (length (toks_of eorg)) |}
  | SLabel name k => {| l_body := name ++ 58 :: spaces k; l_toks := [(T_LABEL, name)]; l_calls := 1 |}
  | SDataId kw k1 name k2 =>
      {| l_body := 46 :: kw ++ spaces k1 ++ name ++ spaces k2;
         l_toks := [(T_KEYWORD, kw); (T_IDENTIFIER, name)]; l_calls := 2 |}
  | SInsn mn sz os sh e i1 i2 =>
      {| l_body := insn_body mn sz os sh e i1 i2; l_toks := stmt_tk mn sz sh e i1 i2; l_calls := 1 |}
  end.

(** the source text of a program: its lines, each followed by a newline *)
Definition src_of (ss : list stmt) : str := prog_text (map stmt_line ss).
Definition toks_of_prog (ss : list stmt) : list tk := prog_toks (map stmt_line ss).

(** a name usable as label / identifier in statement context *)
Definition label_name_ok (lx : lexicon) (name : str) : Prop :=
  name_ok name /\ mn_chars_ok lx = true /\ not_mnemonic lx name.

Definition stmt_ok (lx : lexicon) (s : stmt) : Prop :=
  match s with
  | SOrg _ eorg => dlex eorg
  | SLabel name _ => label_name_ok lx name
  | SDataId kw k1 name _ =>
      all_in kw_chars kw /\ mem_str kw (lx_keywords lx) = true /\ (1 <= k1)%nat /\ label_name_ok lx name /\
      exists dk, Parser.dkind_of kw = Some dk
  | SInsn mn sz os sh e i1 i2 =>
      lexable e /\ mn3_ok lx mn /\ suffix_ok lx mn sz os sh /\ shape_ix_ok sh i1 i2 /\ shape_head_ok sh e /\
      (sh = ShInnerOuter -> Parser.lower [i1] = Parser.k_s /\ Parser.lower [i2] = Parser.k_y)
  end.

Lemma stmt_line_ok lx s : stmt_ok lx s -> line_ok lx (stmt_line s).
Proof.
  unfold line_ok. destruct s as [sp0 eorg|name k|kw k1 name k2|mn sz os sh e i1 i2]; cbn [stmt_ok stmt_line l_body l_toks l_calls].
  - apply lscan_origin.
  - intros (Hn & Hm & Hnm). apply lscan_label; [exact Hn|].
    intros r. apply opcode_test_name; [assumption..|left; reflexivity].
  - intros (A & K & H1 & (Hn & Hm & Hnm) & _). apply lscan_data_ident; try assumption.
    intros r. destruct k2 as [|k2].
    + cbn [spaces repeat_z app]. apply opcode_test_name; [assumption..|right; right; reflexivity].
    + rewrite spaces_S. cbn [app]. apply opcode_test_name; [assumption..|right; left; reflexivity].
  - intros (Le & Hmn & Hsz & Hix & Hhd & _). apply lscan_insn; assumption.
Qed.

(** S1 for programs *)
Theorem scan_stmts lx file ss : Forall (stmt_ok lx) ss ->
  exists toks eof lines,
    scan lx file (src_of ss) = ScanOk (toks ++ [eof]) lines /\
    map tv toks = toks_of_prog ss /\ tv eof = (T_EOF, []).
Proof.
  intros H. apply scan_prog. apply Forall_map. eapply Forall_impl; [|exact H].
  intros s. apply stmt_line_ok.
Qed.

(* ------------------------------------------------------------------------------------------ *)
(** * Statements: AST *)

Definition ast_ok (s : stmt) (a : ast) : Prop :=
  match s with
  | SOrg _ eorg => exists r fi, a = AStarEq r fi /\ map en_strip r = flat eorg
  | SLabel name _ => exists t, a = ALabel name t
  | SDataId kw _ name _ =>
      exists dk it kwt, Parser.dkind_of kw = Some dk /\ a = AData dk [[Parser.en EK_term it]] kwt /\
                        tv it = (T_IDENTIFIER, name)
  | SInsn mn sz os sh e i1 i2 =>
      exists o re, a = AOpcode (mode_of sh) mn (sh_size sh sz) (match sh with ShImplied => None | _ => Some re end)
                               (sh_index sh i1) o /\
                   (sh <> ShImplied -> map en_strip re = flat e)
  end.

Lemma stmt_sparse lx s toks : stmt_ok lx s -> map tv toks = l_toks (stmt_line s) ->
  exists a, sparse toks a /\ ast_ok s a.
Proof.
  destruct s as [sp0 eorg|name k|kw k1 name k2|mn sz os sh e i1 i2]; cbn [stmt_ok stmt_line l_toks ast_ok]; intros Hok E.
  - apply map_eq_cons in E as (st & torg & -> & Est & Eorg).
    destruct (build_PE eorg torg Eorg) as (l & P & T & S). subst torg.
    eexists. split; [apply sparse_star_eq; [eapply tv_type; exact Est|exact P]|].
    eexists _, _. split; [reflexivity|exact S].
  - explode E. tvs. eexists. split; [apply sparse_label; assumption|]. exists t. congruence.
  - destruct Hok as (_ & _ & _ & _ & dk & Hdk). explode E.
    pose proof E0 as Eit. tvs.
    eexists. split.
    + apply (sparse_data t dk [Parser.en EK_term t0] []); [assumption|congruence| |constructor].
      apply PE_term. right. assumption.
    + exists dk, t0, t. split; [exact Hdk|]. split; [reflexivity|]. unfold tv. congruence.
  - destruct Hok as (_ & _ & _ & _ & Hhd & Hio).
    destruct (shape_eq_dec sh ShImplied) as [->|NI].
    + cbn [stmt_tk] in E. explode E. tvs.
      eexists. split.
      * apply (sparse_insn t None (mk_pu d_sharp d_lp d_rp d_lb d_rb d_ix d_ix) ShImplied
                 [Parser.en EK_term (mk_token T_NUMBER [48])]);
          [cbv; intuition discriminate|exact I|assumption|apply PE_term; left; reflexivity|exact I|exact I].
      * cbn [mode_of index_of vsize_of sh_size sh_index]. exists t, []. split; [congruence|congruence].
    + assert (E' : map tv toks = (T_OPCODE, mn) :: sfx_tok sz ++ opening_tk sh ++ toks_of e ++ closing_tk sh i1 i2)
        by (destruct sh; try congruence; exact E).
      clear E.
      apply map_eq_cons in E' as (o & r1 & -> & Eo & E1).
      apply map_eq_app in E1 as (tsz & r2 & -> & Esz & E2).
      apply map_eq_app in E2 as (topen & r3 & -> & Eopen & E3).
      apply map_eq_app in E3 as (te & tclose & -> & Ee & Eclose).
      destruct (build_PE e te Ee) as (l & P & T & S). subst te.
      assert (Hd : match sh with ShDirect | ShDirectIdx => t_type (hd eof_token (map en_tok l)) <> T_LPAREN | _ => True end).
      { destruct sh; try exact I; cbn [shape_head_ok] in Hhd;
          (destruct (map en_tok l) as [|x xs]; [cbn [hd eof_token mk_token t_type]; discriminate|]);
          cbn [map hd] in *; destruct (toks_of e) as [|[ty v] r]; try discriminate Ee;
          injection Ee as Ex _ _; intros Hx; rewrite Hx in Ex; subst ty; exact Hhd. }
      assert (SZ : exists szt, tsz = size_tokens szt /\ vsize_of szt = sfx_vsize sz /\
                               match szt with Some s => t_type s = T_OPCODE_SIZE | None => True end).
      { destruct sz as [c|]; cbn [sfx_tok] in Esz; explode Esz; tvs.
        - exists (Some t). split; [reflexivity|]. split; [|assumption].
          unfold vsize_of, sfx_vsize. congruence.
        - exists None. split; [reflexivity|]. split; [reflexivity|exact I]. }
      destruct SZ as (szt & -> & Vsz & Tsz).
      apply tv_type in Eo as To. apply tv_value in Eo as Vo.
      assert (Goal : exists pu,
                topen = ParserShapeTokens.opening pu sh /\ tclose = ParserShapeTokens.closing pu sh /\
                punct_ok pu /\ index_of pu sh = sh_index sh i1 /\
                match sh with
                | ShInnerOuter => Parser.lower (t_value (pu_i1 pu)) = Parser.k_s /\
                                  Parser.lower (t_value (pu_i2 pu)) = Parser.k_y
                | _ => True
                end).
      { destruct sh; try congruence; cbn [opening_tk closing_tk ix_tk] in Eopen, Eclose;
          explode Eopen; explode Eclose; unfold ix_tk in *; tvs.
        - exists (mk_pu t d_lp d_rp d_lb d_rb d_ix d_ix). fin_stmt.
        - exists (mk_pu d_sharp d_lp d_rp d_lb d_rb d_ix d_ix). fin_stmt.
        - exists (mk_pu d_sharp d_lp d_rp d_lb d_rb t d_ix). fin_stmt.
        - exists (mk_pu d_sharp t t0 d_lb d_rb d_ix d_ix). fin_stmt.
        - exists (mk_pu d_sharp t t0 d_lb d_rb t1 d_ix). fin_stmt.
        - exists (mk_pu d_sharp d_lp d_rp t t0 d_ix d_ix). fin_stmt.
        - exists (mk_pu d_sharp d_lp d_rp t t0 t1 d_ix). fin_stmt.
        - exists (mk_pu d_sharp t t1 d_lb d_rb t0 d_ix). fin_stmt.
        - destruct (Hio eq_refl) as [Hs Hy]. exists (mk_pu d_sharp t t1 d_lb d_rb t0 t2). fin_stmt. }
      destruct Goal as (pu & -> & -> & Hpu & Ix & Hio').
      eexists. split.
      * change (o :: size_tokens szt ++ ParserShapeTokens.opening pu sh ++ map en_tok l ++ ParserShapeTokens.closing pu sh)
          with (o :: size_tokens szt ++ (ParserShapeTokens.opening pu sh ++ map en_tok l ++ ParserShapeTokens.closing pu sh)).
        replace (ParserShapeTokens.opening pu sh ++ map en_tok l ++ ParserShapeTokens.closing pu sh)
          with (shape_tokens pu sh (map en_tok l)) by (destruct sh; try congruence; reflexivity).
        apply (sparse_insn o szt pu sh l Hpu Tsz); [destruct sh; try congruence; exact To|exact P|exact Hd|exact Hio'].
      * exists o, l. rewrite Vo, Ix. split; [|intros _; exact S].
        f_equal. unfold sh_size. destruct sh; try congruence; exact Vsz.
Qed.

(** S2 for programs *)
Theorem parse_stmts lx ss toks eof incd inc :
  Forall (stmt_ok lx) ss -> map tv toks = toks_of_prog ss -> t_type eof = T_EOF ->
  exists asts,
    parse_program (parse_fuel (length (toks ++ [eof]))) incd inc (toks ++ [eof]) = POk asts /\
    Forall2 ast_ok ss asts.
Proof.
  intros Hok E Heof.
  assert (X : exists stmts : list (list token * ast),
            toks = concat (map fst stmts) /\ Forall (fun sa => sparse (fst sa) (snd sa)) stmts /\
            Forall2 ast_ok ss (map snd stmts)).
  { revert toks E. induction Hok as [|s ss' Hs _ IH]; intros toks E.
    - destruct toks; [|discriminate E]. exists []. repeat split; constructor.
    - unfold toks_of_prog, prog_toks in E. cbn [map flat_map] in E.
      apply map_eq_app in E as (t1 & t2 & -> & E1 & E2).
      destruct (stmt_sparse lx s t1 Hs E1) as (a & Sp & Ao).
      destruct (IH t2 E2) as (stmts & -> & Hall & F2).
      exists ((t1, a) :: stmts). split; [reflexivity|]. split; constructor; assumption. }
  destruct X as (stmts & -> & Hall & F2).
  exists (map snd stmts). split; [|exact F2].
  unfold parse_program. rewrite parse_file_unfold. set (sub := fun name : str => _).
  pose proof (pinitial_stmts sub eof Heof stmts Hall [] []) as P. cbn [app length] in P.
  apply P. unfold parse_fuel. rewrite app_length. cbn [length]. lia.
Qed.

(* ------------------------------------------------------------------------------------------ *)
(** * From the text to assemble_program; assemble_program on flat node lists *)

Lemma prog_front t fs c fname ss :
  Forall (stmt_ok (lv_lex t)) ss ->
  exists asts, assemble_source t fs c fname (src_of ss) = assemble_program (world_of t fs) c asts /\
               Forall2 ast_ok ss asts.
Proof.
  intros Hok.
  destruct (scan_stmts (lv_lex t) fname ss Hok) as (toks & eof & lines & Escan & Etv & Eeof).
  destruct (parse_stmts (lv_lex t) ss toks eof include_depth (include_tokens t fs) Hok Etv (tv_type _ _ _ Eeof))
    as (asts & Eparse & F2).
  exists asts. split; [|exact F2]. unfold assemble_source. rewrite Escan, Eparse. reflexivity.
Qed.

Lemma assemble_program_nodes w c ri asts nss :
  initial_resolver w c = Ok ri -> Forall2 (simple w) asts nss ->
  (forall o, assemble_nodes w ri (concat nss) = Ok o -> assemble_program w c asts = AOk o (o_final o)) /\
  (forall k, assemble_nodes w ri (concat nss) = Err k -> exists site, assemble_program w c asts = AExc k site).
Proof.
  intros Hi Hs. unfold assemble_program. rewrite Hi, (code_gen_simple w _ asts nss Hs). cbn [cg_r].
  split; intros x E; rewrite E; [reflexivity|eexists; reflexivity].
Qed.

Lemma A_same_bank m org n : mask_ok m -> in_window m org -> 0 <= n -> org mod 65536 + n < 65536 ->
  A m (spec_offset m org + n) = org + n.
Proof.
  intros Hm Hw Hn Hb. unfold A, spec_address, spec_offset, in_window, bank_of in *. unfold window_start in *.
  pose proof (Z.div_mod org 65536 ltac:(lia)) as Ho. pose proof (Z.mod_pos_bound org 65536 ltac:(lia)) as Hr.
  set (b := org / 65536) in *. set (r := org mod 65536) in *. clearbody b r.
  destruct Hm as [E|E]; rewrite E in *.
  - rewrite <- (Z.div_unique ((b - m_first m) * 32768 + (r - (65536 - 32768)) + n) 32768 (b - m_first m) (r - 32768 + n)) by lia.
    rewrite <- (Z.mod_unique ((b - m_first m) * 32768 + (r - (65536 - 32768)) + n) 32768 (b - m_first m) (r - 32768 + n)) by lia.
    lia.
  - rewrite <- (Z.div_unique ((b - m_first m) * 65536 + (r - (65536 - 65536)) + n) 65536 (b - m_first m) (r + n)) by lia.
    rewrite <- (Z.mod_unique ((b - m_first m) * 65536 + (r - (65536 - 65536)) + n) 65536 (b - m_first m) (r + n)) by lia.
    lia.
Qed.

(** the tables side conditions shared by all theorems below *)
Definition tables_ok (t : live) (c : config) : Prop :=
  bus_agree_b (lv_low t) lorom = true /\ low_rom_config t c /\ prec_compatible (lv_prec t) = true.
Definition org_ok (eorg : sexpr) (org : Z) : Prop :=
  wf eorg /\ eval noenv eorg = Ok org /\
  (0 <= bank_of org <= 111 \/ 128 <= bank_of org <= 207) /\ 32768 <= org mod 65536.

(* ------------------------------------------------------------------------------------------ *)
(** * T1: a label used by a data directive *)

Lemma dkind_fun kw dk dk' : Parser.dkind_of kw = Some dk -> Parser.dkind_of kw = Some dk' -> dk = dk'.
Proof. congruence. Qed.

(** "*=org / name: / .dl name" *)
Theorem label_then_data t fs c fname sp0 eorg org name k kw dk k1 k2 :
  tables_ok t c -> org_ok eorg org ->
  Forall (stmt_ok (lv_lex t)) [SOrg sp0 eorg; SLabel name k; SDataId kw k1 name k2] ->
  Parser.dkind_of kw = Some dk ->
  lorom_offset org + dkind_len dk < (if bank_of org <? 128 then 112 else 80) * 32768 ->
  exists o fin,
    assemble_source t fs c fname (src_of [SOrg sp0 eorg; SLabel name k; SDataId kw k1 name k2]) = AOk o fin /\
    o_blocks o = [(data_bytes dk org, lorom_offset org)] /\ o_labels o = [(name, org)].
Proof.
  intros (Hag & Hcfg & Hc) (Wo & Eo & Hbank & Hwin) Hok Hdk Hfit.
  destruct (prog_front t fs c fname _ Hok) as (asts & Esrc & F2).
  inversion F2 as [|? a1 ? l1 A1 F2a]; subst. inversion F2a as [|? a2 ? l2 A2 F2b]; subst.
  inversion F2b as [|? a3 ? l3 A3 F2c]; subst. inversion F2c; subst.
  destruct A1 as (xo & fi & -> & Sorg). destruct A2 as (lt & ->).
  destruct A3 as (dk' & it & kwt & Hdk' & -> & Eit).
  pose proof (dkind_fun _ _ _ Hdk Hdk'); subst dk'.
  destruct (lorom_range t c org Hag Hcfg Hbank Hwin)
    as (m & Hlow & Hphys & Hrt & Hcov & Hmask & Hrom & Hw & Hb & Eoff & Ers & _).
  destruct (initial_resolver_root (world_of t fs) c (lv_low t) (Some 0) Hlow Hphys Hrt)
    as (ri & s0 & Einit & Gri & Hre & Hsc & Hs0).
  inversion Hok as [|? ? Do _]; subst. cbn [stmt_ok] in Do.
  assert (Hxo : forall r, eval_raw (world_of t fs) r xo = Ok org)
    by (intros r; apply (eval_raw_tree t fs r xo eorg org Hc Sorg Wo Do Eo)).
  set (L := A m (spec_offset m org + total [])).
  assert (EL : L = org) by (unfold L; cbn [total fold_right]; rewrite Z.add_0_r; apply A_p0; assumption).
  destruct (engine_run (world_of t fs) (lv_low t) m Hcov Hmask Hrom name L ri s0 Gri Hre Hsc Hs0 xo fi org Hw Hb Hxo
              [] [data_item L dk it kwt] eq_refl I) as (o & E & B & Lb).
  { cbn [items_ok]. split; [|exact I]. apply item_data; [eapply tv_type; exact Eit|eapply tv_value; exact Eit]. }
  { cbn [total fold_right data_item it_len]. rewrite Eoff, Ers. lia. }
  { cbn [bytes_of flat_map data_item it_bs app]. destruct (data_bytes_cons dk L) as (b & bs & -> & _). discriminate. }
  destruct (assemble_program_nodes (world_of t fs) c ri
              [AStarEq xo fi; ALabel name lt; AData dk [[Parser.en EK_term it]] kwt]
              [[NCodePos xo fi]; [NLabel name]; [NData dk [Parser.en EK_term it] kwt]] Einit) as [Hk _].
  { repeat constructor. }
  exists o, (o_final o). split; [rewrite Esrc; apply Hk; exact E|].
  rewrite B, Lb, EL, Eoff. cbn [bytes_of flat_map data_item it_bs app]. rewrite app_nil_r. split; reflexivity.
Qed.

(** "*=org / .dl name / name:" (forward reference) *)
Theorem data_then_label t fs c fname sp0 eorg org name k kw dk k1 k2 :
  tables_ok t c -> org_ok eorg org ->
  Forall (stmt_ok (lv_lex t)) [SOrg sp0 eorg; SDataId kw k1 name k2; SLabel name k] ->
  Parser.dkind_of kw = Some dk ->
  org mod 65536 + dkind_len dk < 65536 ->
  lorom_offset org + dkind_len dk < (if bank_of org <? 128 then 112 else 80) * 32768 ->
  exists o fin,
    assemble_source t fs c fname (src_of [SOrg sp0 eorg; SDataId kw k1 name k2; SLabel name k]) = AOk o fin /\
    o_blocks o = [(data_bytes dk (org + dkind_len dk), lorom_offset org)] /\
    o_labels o = [(name, org + dkind_len dk)].
Proof.
  intros (Hag & Hcfg & Hc) (Wo & Eo & Hbank & Hwin) Hok Hdk Hsame Hfit.
  destruct (prog_front t fs c fname _ Hok) as (asts & Esrc & F2).
  inversion F2 as [|? a1 ? l1 A1 F2a]; subst. inversion F2a as [|? a2 ? l2 A2 F2b]; subst.
  inversion F2b as [|? a3 ? l3 A3 F2c]; subst. inversion F2c; subst.
  destruct A1 as (xo & fi & -> & Sorg). destruct A3 as (lt & ->).
  destruct A2 as (dk' & it & kwt & Hdk' & -> & Eit).
  pose proof (dkind_fun _ _ _ Hdk Hdk'); subst dk'.
  destruct (lorom_range t c org Hag Hcfg Hbank Hwin)
    as (m & Hlow & Hphys & Hrt & Hcov & Hmask & Hrom & Hw & Hb & Eoff & Ers & _).
  destruct (initial_resolver_root (world_of t fs) c (lv_low t) (Some 0) Hlow Hphys Hrt)
    as (ri & s0 & Einit & Gri & Hre & Hsc & Hs0).
  inversion Hok as [|? ? Do _]; subst. cbn [stmt_ok] in Do.
  assert (Hxo : forall r, eval_raw (world_of t fs) r xo = Ok org)
    by (intros r; apply (eval_raw_tree t fs r xo eorg org Hc Sorg Wo Do Eo)).
  assert (Hlen : 1 <= dkind_len dk) by (destruct dk; cbn; lia).
  set (L := org + dkind_len dk).
  assert (EL : L = A m (spec_offset m org + total [data_item L dk it kwt])).
  { cbn [total fold_right data_item it_len]. rewrite Z.add_0_r. symmetry. apply A_same_bank; try assumption; lia. }
  destruct (engine_run (world_of t fs) (lv_low t) m Hcov Hmask Hrom name L ri s0 Gri Hre Hsc Hs0 xo fi org Hw Hb Hxo
              [data_item L dk it kwt] [] EL) as (o & E & B & Lb).
  { cbn [items_ok]. split; [|exact I]. apply item_data; [eapply tv_type; exact Eit|eapply tv_value; exact Eit]. }
  { exact I. }
  { cbn [total fold_right data_item it_len]. rewrite Eoff, Ers. lia. }
  { cbn [bytes_of flat_map data_item it_bs app]. destruct (data_bytes_cons dk L) as (b & bs & -> & _). discriminate. }
  destruct (assemble_program_nodes (world_of t fs) c ri
              [AStarEq xo fi; AData dk [[Parser.en EK_term it]] kwt; ALabel name lt]
              [[NCodePos xo fi]; [NData dk [Parser.en EK_term it] kwt]; [NLabel name]] Einit) as [Hk _].
  { repeat constructor. }
  exists o, (o_final o). split; [rewrite Esrc; apply Hk; exact E|].
  rewrite B, Lb, Eoff. cbn [bytes_of flat_map data_item it_bs app]. rewrite !app_nil_r. split; reflexivity.
Qed.


(* ------------------------------------------------------------------------------------------ *)
(** * T2: a label used by a relative branch, with operand-less instructions in between *)

Definition os_end_only (ke : nat) : ospacing :=
  {| os_m := 0; os_o := 0; os_e := fun _ => 0%nat; os_1 := 0; os_c := 0; os_2 := 0; os_end := ke |}.
(** an operand-less instruction line: mnemonic and trailing spaces *)
Definition nop_stmt (x : str * nat) : stmt := SInsn (fst x) None (os_end_only (snd x)) ShImplied (Num FDec 0) 0 0.
(** a branch line: mnemonic, spacing, target name *)
Definition bra_stmt (bmn : str) (os : ospacing) (name : str) : stmt := SInsn bmn None os ShDirect (Id name) 0 0.

Definition nop_tbl (t : live) (x : str * nat) (b : Z) : Prop :=
  get_emitter (lv_optable t) (lower_ascii (fst x)) M_none None = Ok (EmNoOperand b) /\ byte_ok b = true.
Definition bra_tbl (t : live) (bmn : str) (op : Z) : Prop :=
  get_emitter (lv_optable t) (lower_ascii bmn) M_direct None = Ok (EmRel op) /\ byte_ok op = true.

Lemma items_ok_app w low m name L a : forall b q,
  items_ok w low m name L a q -> items_ok w low m name L b (q + total a) -> items_ok w low m name L (a ++ b) q.
Proof.
  induction a as [|x a IH]; intros b q Ha Hb; cbn [app items_ok total fold_right] in *.
  - rewrite Z.add_0_r in Hb. exact Hb.
  - destruct Ha as [Hx Ha]. split; [exact Hx|]. apply IH; [exact Ha|].
    unfold total. rewrite Z.add_assoc in Hb. exact Hb.
Qed.

Lemma concat_singletons (its : list item) : concat (map (fun it => [it_n it]) its) = map it_n its.
Proof. induction its as [|x r IH]; cbn [map concat app]; [reflexivity|]. rewrite IH. reflexivity. Qed.

(** the operand-less lines as engine items *)
Lemma nops_items t fs low m name L : forall nl bs anops,
  Forall2 ast_ok (map nop_stmt nl) anops -> Forall2 (nop_tbl t) nl bs ->
  exists its,
    Forall2 (simple (world_of t fs)) anops (map (fun it => [it_n it]) its) /\
    bytes_of its = bs /\ total its = Z.of_nat (length nl) /\
    (forall q, items_ok (world_of t fs) low m name L its q).
Proof.
  induction nl as [|[mn ke] nl IH]; intros bs anops F2 Ft; cbn [map] in F2;
    inversion F2 as [|? a ? anops' Ha F2']; subst; inversion Ft as [|? b ? bs' Hb Ft']; subst.
  - exists []. repeat split; constructor.
  - destruct (IH bs' anops' F2' Ft') as (its & Fs & Eb & Et & Hok).
    unfold nop_stmt in Ha. cbn [ast_ok fst snd] in Ha. destruct Ha as (o & re & -> & _).
    destruct Hb as [He Hby]. cbn [fst] in He.
    exists (nop_item (lower_ascii mn) o b :: its). split; [|split; [|split]].
    + cbn [map nop_item it_n]. constructor; [apply simple_implied|exact Fs].
    + cbn [bytes_of flat_map nop_item it_bs app]. fold (bytes_of its). rewrite Eb. reflexivity.
    + cbn [total fold_right nop_item it_len length]. fold (total its). rewrite Et. lia.
    + intros q. cbn [items_ok]. split; [apply item_nop; assumption|apply Hok].
Qed.

(** the branch statement's AST *)
Lemma bra_ast bmn os name a : ast_ok (bra_stmt bmn os name) a ->
  exists o it, a = AOpcode M_direct bmn None (Some [Parser.en EK_term it]) None o /\
               t_type it = T_IDENTIFIER /\ t_value it = name.
Proof.
  unfold bra_stmt. cbn [ast_ok mode_of sh_size sh_index sfx_vsize]. intros (o & re & -> & S).
  specialize (S ltac:(discriminate)). cbn [flat] in S.
  destruct re as [|[kd tk] [|? ?]]; try discriminate S. cbn [map] in S.
  unfold en_strip, n_id, mk_en in S. cbn [en_kind en_tok] in S.
  injection S as Ek Ety Eva. subst kd. exists o, tk. split; [reflexivity|]. split; assumption.
Qed.

(** ** backward branch:  *=org / name: / k operand-less lines / branch name *)
Definition back_prog (sp0 : spacing) (eorg : sexpr) (name : str) (kl : nat) (nl : list (str * nat))
           (bmn : str) (os : ospacing) : list stmt :=
  SOrg sp0 eorg :: SLabel name kl :: map nop_stmt nl ++ [bra_stmt bmn os name].

Lemma back_front t fs c fname sp0 eorg org name kl nl bmn os bs op :
  tables_ok t c -> org_ok eorg org ->
  Forall (stmt_ok (lv_lex t)) (back_prog sp0 eorg name kl nl bmn os) ->
  Forall2 (nop_tbl t) nl bs -> bra_tbl t bmn op ->
  let k := Z.of_nat (length nl) in
  org mod 65536 + k + 2 < 65536 ->
  lorom_offset org + k + 2 < (if bank_of org <? 128 then 112 else 80) * 32768 ->
  exists m ri s0 xo fi its it o asts,
    assemble_source t fs c fname (src_of (back_prog sp0 eorg name kl nl bmn os))
      = assemble_program (world_of t fs) c asts /\
    initial_resolver (world_of t fs) c = Ok ri /\
    Forall2 (simple (world_of t fs)) asts
       ([NCodePos xo fi] :: [NLabel name] :: map (fun it => [it_n it]) its ++
        [[NOpcode (lower_ascii bmn) M_direct None (Some [Parser.en EK_term it]) None o]]) /\
    covers (lv_low t) m /\ mask_ok m /\ m_writable m = false /\
    Good (world_of t fs) (lv_low t) ri /\ r_reloc ri = at_ (lv_low t) 0 /\ r_scopes ri = [s0] /\
    (s_parent s0 = None /\ s_code s0 = [] /\ s_labels s0 = [] /\ s_kind s0 = SPlain) /\
    in_window m org /\ m_first m <= bank_of org <= m_last m /\
    (forall r, eval_raw (world_of t fs) r xo = Ok org) /\
    spec_offset m org = lorom_offset org /\ rsize m = (if bank_of org <? 128 then 112 else 80) * 32768 /\
    bytes_of its = bs /\ total its = k /\ (forall q, items_ok (world_of t fs) (lv_low t) m name org its q) /\
    t_type it = T_IDENTIFIER /\ t_value it = name.
Proof.
  intros (Hag & Hcfg & Hc) (Wo & Eo & Hbank & Hwin) Hok Hnops Hbra k Hsame Hfit.
  destruct (prog_front t fs c fname _ Hok) as (asts & Esrc & F2).
  unfold back_prog in F2.
  inversion F2 as [|? a1 ? l1 A1 F2a]; subst. inversion F2a as [|? a2 ? l2 A2 F2b]; subst.
  apply Forall2_app_inv_l in F2b as (anops & abra & Fn & Fb & ->).
  inversion Fb as [|? a3 ? l3 A3 Fb']; subst. inversion Fb'; subst.
  destruct A1 as (xo & fi & -> & Sorg). destruct A2 as (lt & ->).
  destruct (bra_ast _ _ _ _ A3) as (o & it & -> & Ty & Va).
  destruct (lorom_range t c org Hag Hcfg Hbank Hwin)
    as (m & Hlow & Hphys & Hrt & Hcov & Hmask & Hrom & Hw & Hb & Eoff & Ers & _).
  destruct (initial_resolver_root (world_of t fs) c (lv_low t) (Some 0) Hlow Hphys Hrt)
    as (ri & s0 & Einit & Gri & Hre & Hsc & Hs0).
  pose proof (Forall_inv Hok) as Do. cbn [stmt_ok] in Do.
  assert (Hxo : forall r, eval_raw (world_of t fs) r xo = Ok org)
    by (intros r; apply (eval_raw_tree t fs r xo eorg org Hc Sorg Wo Do Eo)).
  destruct (nops_items t fs (lv_low t) m name org nl bs anops Fn Hnops) as (its & Fs & Eb & Et & Hits).
  exists m, ri, s0, xo, fi, its, it, o. eexists. split; [exact Esrc|]. split; [exact Einit|]. split.
  { constructor; [apply simple_star_eq|]. constructor; [apply simple_label|].
    apply Forall2_app; [exact Fs|]. constructor; [apply simple_direct|constructor]. }
  repeat (split; [assumption|]). exact Va.
Qed.

Lemma bank_same org n : 0 <= n -> org mod 65536 + n < 65536 -> bank_of (org + n) = bank_of org.
Proof. intros Hn Hb. unfold bank_of. lia. Qed.

Lemma concat_back (a b : node) (its : list item) (c : node) :
  concat ([a] :: [b] :: map (fun it => [it_n it]) its ++ [[c]]) = a :: map it_n [] ++ b :: map it_n (its ++ [{| it_n := c; it_len := 0; it_bs := [] |}]).
Proof. cbn [concat app map]. rewrite concat_app, concat_singletons, map_app. cbn [concat map app it_n]. reflexivity. Qed.

(** accepted: the displacement -(k+2) fits *)
Theorem branch_backward t fs c fname sp0 eorg org name kl nl bmn os bs op :
  tables_ok t c -> org_ok eorg org ->
  Forall (stmt_ok (lv_lex t)) (back_prog sp0 eorg name kl nl bmn os) ->
  Forall2 (nop_tbl t) nl bs -> bra_tbl t bmn op ->
  let k := Z.of_nat (length nl) in
  org mod 65536 + k + 2 < 65536 ->
  lorom_offset org + k + 2 < (if bank_of org <? 128 then 112 else 80) * 32768 ->
  k + 2 <= 128 ->
  exists o fin,
    assemble_source t fs c fname (src_of (back_prog sp0 eorg name kl nl bmn os)) = AOk o fin /\
    o_blocks o = [(bs ++ [op; (- (k + 2)) mod 256], lorom_offset org)] /\ o_labels o = [(name, org)].
Proof.
  intros Ht Ho Hok Hnops Hbra k Hsame Hfit Hrange.
  destruct (back_front t fs c fname sp0 eorg org name kl nl bmn os bs op Ht Ho Hok Hnops Hbra Hsame Hfit)
    as (m & ri & s0 & xo & fi & its & it & o & asts & Esrc & Einit & Fs & Hcov & Hmask & Hrom & Gri & Hre & Hsc &
        Hs0 & Hw & Hb & Hxo & Eoff & Ers & Eb & Et & Hits & Ty & Va).
  destruct Hbra as [Hbe Hbb]. fold k in Et.
  assert (Hk : 0 <= k) by (unfold k; lia).
  set (q := spec_offset m org + total [] + total its).
  assert (Eq : A m q = org + k).
  { unfold q. cbn [total fold_right]. fold (total its). rewrite Et, Z.add_0_r.
    apply A_same_bank; try assumption; lia. }
  assert (Hp0 : 0 <= spec_offset m org).
  { pose proof (spec_offset_range m org Hmask Hw) as [H _]. destruct Hmask as [E|E]; rewrite E in *; lia. }
  set (br := branch_item (lower_ascii bmn) it o op (org - (A m q + 2))).
  destruct (engine_run (world_of t fs) (lv_low t) m Hcov Hmask Hrom name org ri s0 Gri Hre Hsc Hs0 xo fi org Hw Hb Hxo
              [] (its ++ [br])) as (out & E & B & Lb).
  { cbn [total fold_right]. rewrite Z.add_0_r. symmetry. apply A_p0; assumption. }
  { exact I. }
  { apply items_ok_app; [apply Hits|]. cbn [items_ok]. split; [|exact I].
    apply item_branch; try assumption.
    - unfold q. cbn [total fold_right]. fold (total its). rewrite Et, Eoff, Ers. lia.
    - fold q. rewrite Eq. symmetry. apply bank_same; lia.
    - fold q. rewrite Eq. lia. }
  { rewrite total_app. cbn [total fold_right br branch_item it_len]. fold (total its). rewrite Et, Eoff, Ers. lia. }
  { unfold bytes_of. cbn [flat_map app]. rewrite flat_map_app. cbn [flat_map br branch_item it_bs].
    destruct (flat_map it_bs its); discriminate. }
  destruct (assemble_program_nodes (world_of t fs) c ri asts _ Einit Fs) as [Hk' _].
  exists out, (o_final out). split.
  - rewrite Esrc. apply Hk'. rewrite concat_back. cbn [map app it_n] in *. rewrite map_app in E. cbn [map it_n br branch_item] in E.
    rewrite map_app. cbn [map it_n]. exact E.
  - rewrite B, Lb, Eoff. split; [|reflexivity]. unfold bytes_of in *. cbn [flat_map app]. rewrite flat_map_app.
    cbn [flat_map br branch_item it_bs app]. rewrite Eb, Eq.
    replace (org - (org + k + 2)) with (- (k + 2)) by lia. reflexivity.
Qed.

Lemma branch_item_sz w mnl it fi op d :
  get_emitter (w_optable w) mnl M_direct None = Ok (EmRel op) -> item_sz w (branch_item mnl it fi op d).
Proof.
  intros He. unfold item_sz, branch_item. cbn [it_n it_len]. split; [|lia].
  unfold sized. split; [|repeat split; discriminate].
  intros r a. cbn [pc_after]. unfold opcode_length, opnode_length. rewrite He. reflexivity.
Qed.

(** rejected: the label is more than 128 bytes behind *)
Theorem branch_backward_rejected t fs c fname sp0 eorg org name kl nl bmn os bs op :
  tables_ok t c -> org_ok eorg org ->
  Forall (stmt_ok (lv_lex t)) (back_prog sp0 eorg name kl nl bmn os) ->
  Forall2 (nop_tbl t) nl bs -> bra_tbl t bmn op ->
  let k := Z.of_nat (length nl) in
  org mod 65536 + k + 2 < 65536 ->
  lorom_offset org + k + 2 < (if bank_of org <? 128 then 112 else 80) * 32768 ->
  128 < k + 2 ->
  exists site,
    assemble_source t fs c fname (src_of (back_prog sp0 eorg name kl nl bmn os)) = AExc EStruct site.
Proof.
  intros Ht Ho Hok Hnops Hbra k Hsame Hfit Hrange.
  destruct (back_front t fs c fname sp0 eorg org name kl nl bmn os bs op Ht Ho Hok Hnops Hbra Hsame Hfit)
    as (m & ri & s0 & xo & fi & its & it & o & asts & Esrc & Einit & Fs & Hcov & Hmask & Hrom & Gri & Hre & Hsc &
        Hs0 & Hw & Hb & Hxo & Eoff & Ers & Eb & Et & Hits & Ty & Va).
  destruct Hbra as [Hbe Hbb]. fold k in Et.
  assert (Hk : 0 <= k) by (unfold k; lia).
  assert (Hp0 : 0 <= spec_offset m org).
  { pose proof (spec_offset_range m org Hmask Hw) as [H _]. destruct Hmask as [E|E]; rewrite E in *; lia. }
  set (br := branch_item (lower_ascii bmn) it o op 0).
  assert (Eq : A m (spec_offset m org + total [] + total its) = org + k).
  { cbn [total fold_right]. fold (total its). rewrite Et, Z.add_0_r. apply A_same_bank; try assumption; lia. }
  assert (E : assemble_nodes (world_of t fs) ri
                (NCodePos xo fi :: map it_n [] ++ NLabel name :: map it_n (its ++ [br])) = Err EStruct).
  { apply (engine_fail2 (world_of t fs) (lv_low t) m Hcov Hmask Hrom name org ri s0 Gri Hre Hsc Hs0 xo fi org Hw Hb Hxo
             [] (its ++ [br])) with (G := its) (bad := br) (R := []).
    - cbn [total fold_right]. rewrite Z.add_0_r. symmetry. apply A_p0; assumption.
    - constructor.
    - apply Forall_app. split; [eapply items_ok_sz; apply (Hits 0)|]. constructor; [|constructor].
      apply branch_item_sz. exact Hbe.
    - rewrite total_app. cbn [total fold_right br branch_item it_len]. fold (total its). rewrite Et, Eoff, Ers. lia.
    - exact I.
    - reflexivity.
    - apply Hits.
    - intros r G RH Hrr Hpc. cbn [br branch_item it_n].
      apply (branch_fails (world_of t fs) (lv_low t) m Hcov Hmask Hrom name org (lower_ascii bmn) it o op
               (spec_offset m org + total [] + total its) r); try assumption.
      + cbn [total fold_right]. fold (total its). rewrite Et, Eoff, Ers. lia.
      + rewrite Eq. symmetry. apply bank_same; lia.
      + rewrite Eq. left. lia. }
  destruct (assemble_program_nodes (world_of t fs) c ri asts _ Einit Fs) as [_ Hk'].
  destruct (Hk' EStruct) as (site & Es).
  - rewrite concat_back. cbn [map app it_n] in *. rewrite map_app in E. cbn [map it_n br branch_item] in E.
    rewrite map_app. cbn [map it_n]. exact E.
  - exists site. rewrite Esrc. exact Es.
Qed.

(** ** forward branch:  *=org / branch name / k operand-less lines / name: *)
Definition fwd_prog (sp0 : spacing) (eorg : sexpr) (name : str) (kl : nat) (nl : list (str * nat))
           (bmn : str) (os : ospacing) : list stmt :=
  SOrg sp0 eorg :: bra_stmt bmn os name :: map nop_stmt nl ++ [SLabel name kl].

Lemma fwd_front t fs c fname sp0 eorg org name kl nl bmn os bs L :
  tables_ok t c -> org_ok eorg org ->
  Forall (stmt_ok (lv_lex t)) (fwd_prog sp0 eorg name kl nl bmn os) ->
  Forall2 (nop_tbl t) nl bs ->
  exists m ri s0 xo fi its it o asts,
    assemble_source t fs c fname (src_of (fwd_prog sp0 eorg name kl nl bmn os))
      = assemble_program (world_of t fs) c asts /\
    initial_resolver (world_of t fs) c = Ok ri /\
    Forall2 (simple (world_of t fs)) asts
       ([NCodePos xo fi] :: [NOpcode (lower_ascii bmn) M_direct None (Some [Parser.en EK_term it]) None o] ::
        map (fun it => [it_n it]) its ++ [[NLabel name]]) /\
    covers (lv_low t) m /\ mask_ok m /\ m_writable m = false /\
    Good (world_of t fs) (lv_low t) ri /\ r_reloc ri = at_ (lv_low t) 0 /\ r_scopes ri = [s0] /\
    (s_parent s0 = None /\ s_code s0 = [] /\ s_labels s0 = [] /\ s_kind s0 = SPlain) /\
    in_window m org /\ m_first m <= bank_of org <= m_last m /\
    (forall r, eval_raw (world_of t fs) r xo = Ok org) /\
    spec_offset m org = lorom_offset org /\ rsize m = (if bank_of org <? 128 then 112 else 80) * 32768 /\
    bytes_of its = bs /\ total its = Z.of_nat (length nl) /\
    (forall q, items_ok (world_of t fs) (lv_low t) m name L its q) /\
    t_type it = T_IDENTIFIER /\ t_value it = name.
Proof.
  intros (Hag & Hcfg & Hc) (Wo & Eo & Hbank & Hwin) Hok Hnops.
  destruct (prog_front t fs c fname _ Hok) as (asts & Esrc & F2).
  unfold fwd_prog in F2.
  inversion F2 as [|? a1 ? l1 A1 F2a]; subst. inversion F2a as [|? a2 ? l2 A2 F2b]; subst.
  apply Forall2_app_inv_l in F2b as (anops & alab & Fn & Fb & ->).
  inversion Fb as [|? a3 ? l3 A3 Fb']; subst. inversion Fb'; subst.
  destruct A1 as (xo & fi & -> & Sorg). destruct A3 as (lt & ->).
  destruct (bra_ast _ _ _ _ A2) as (o & it & -> & Ty & Va).
  destruct (lorom_range t c org Hag Hcfg Hbank Hwin)
    as (m & Hlow & Hphys & Hrt & Hcov & Hmask & Hrom & Hw & Hb & Eoff & Ers & _).
  destruct (initial_resolver_root (world_of t fs) c (lv_low t) (Some 0) Hlow Hphys Hrt)
    as (ri & s0 & Einit & Gri & Hre & Hsc & Hs0).
  pose proof (Forall_inv Hok) as Do. cbn [stmt_ok] in Do.
  assert (Hxo : forall r, eval_raw (world_of t fs) r xo = Ok org)
    by (intros r; apply (eval_raw_tree t fs r xo eorg org Hc Sorg Wo Do Eo)).
  destruct (nops_items t fs (lv_low t) m name L nl bs anops Fn Hnops) as (its & Fs & Eb & Et & Hits).
  exists m, ri, s0, xo, fi, its, it, o. eexists. split; [exact Esrc|]. split; [exact Einit|]. split.
  { constructor; [apply simple_star_eq|]. constructor; [apply simple_direct|].
    apply Forall2_app; [exact Fs|]. constructor; [apply simple_label|constructor]. }
  repeat (split; [assumption|]). exact Va.
Qed.

Lemma concat_fwd (a b : node) (its : list item) (c : node) :
  concat ([a] :: [b] :: map (fun it => [it_n it]) its ++ [[c]]) = a :: b :: map it_n its ++ [c].
Proof. cbn [concat app]. rewrite concat_app, concat_singletons. reflexivity. Qed.

(** accepted: the displacement k fits *)
Theorem branch_forward t fs c fname sp0 eorg org name kl nl bmn os bs op :
  tables_ok t c -> org_ok eorg org ->
  Forall (stmt_ok (lv_lex t)) (fwd_prog sp0 eorg name kl nl bmn os) ->
  Forall2 (nop_tbl t) nl bs -> bra_tbl t bmn op ->
  let k := Z.of_nat (length nl) in
  org mod 65536 + k + 2 < 65536 ->
  lorom_offset org + k + 2 < (if bank_of org <? 128 then 112 else 80) * 32768 ->
  k <= 127 ->
  exists o fin,
    assemble_source t fs c fname (src_of (fwd_prog sp0 eorg name kl nl bmn os)) = AOk o fin /\
    o_blocks o = [([op; k mod 256] ++ bs, lorom_offset org)] /\ o_labels o = [(name, org + 2 + k)].
Proof.
  intros Ht Ho Hok Hnops Hbra k Hsame Hfit Hrange.
  destruct (fwd_front t fs c fname sp0 eorg org name kl nl bmn os bs (org + 2 + k) Ht Ho Hok Hnops)
    as (m & ri & s0 & xo & fi & its & it & o & asts & Esrc & Einit & Fs & Hcov & Hmask & Hrom & Gri & Hre & Hsc &
        Hs0 & Hw & Hb & Hxo & Eoff & Ers & Eb & Et & Hits & Ty & Va).
  destruct Hbra as [Hbe Hbb]. fold k in Et.
  assert (Hk : 0 <= k) by (unfold k; lia).
  assert (Hp0 : 0 <= spec_offset m org).
  { pose proof (spec_offset_range m org Hmask Hw) as [H _]. destruct Hmask as [E|E]; rewrite E in *; lia. }
  pose proof (A_p0 m Hmask org Hw) as Ep0.
  set (L := org + 2 + k).
  set (br := branch_item (lower_ascii bmn) it o op (L - (A m (spec_offset m org) + 2))).
  destruct (engine_run (world_of t fs) (lv_low t) m Hcov Hmask Hrom name L ri s0 Gri Hre Hsc Hs0 xo fi org Hw Hb Hxo
              (br :: its) []) as (out & E & B & Lb).
  { cbn [total fold_right br branch_item it_len]. fold (total its). rewrite Et. unfold L.
    rewrite (A_same_bank m org (2 + k)); try assumption; lia. }
  { cbn [items_ok]. split; [|apply Hits].
    apply item_branch; try assumption.
    - rewrite Eoff, Ers. lia.
    - unfold in_window in *. unfold L. destruct Hmask as [E1|E1]; rewrite E1 in *; unfold window_start in *; lia.
    - rewrite Ep0. unfold L. replace (org + 2 + k) with (org + (2 + k)) by lia. apply bank_same; lia.
    - rewrite Ep0. unfold L. lia. }
  { exact I. }
  { cbn [total fold_right br branch_item it_len]. fold (total its). rewrite Et, Eoff, Ers. lia. }
  { unfold bytes_of. cbn [flat_map br branch_item it_bs app]. discriminate. }
  destruct (assemble_program_nodes (world_of t fs) c ri asts _ Einit Fs) as [Hk' _].
  exists out, (o_final out). split.
  - rewrite Esrc. apply Hk'. rewrite concat_fwd. cbn [map app it_n br branch_item] in E. exact E.
  - rewrite B, Lb, Eoff. split; [|reflexivity]. unfold bytes_of in *. cbn [flat_map br branch_item it_bs app].
    rewrite app_nil_r, Eb, Ep0. unfold L. replace (org + 2 + k - (org + 2)) with k by lia. reflexivity.
Qed.

(** rejected: the label is more than 127 bytes ahead *)
Theorem branch_forward_rejected t fs c fname sp0 eorg org name kl nl bmn os bs op :
  tables_ok t c -> org_ok eorg org ->
  Forall (stmt_ok (lv_lex t)) (fwd_prog sp0 eorg name kl nl bmn os) ->
  Forall2 (nop_tbl t) nl bs -> bra_tbl t bmn op ->
  let k := Z.of_nat (length nl) in
  org mod 65536 + k + 2 < 65536 ->
  lorom_offset org + k + 2 < (if bank_of org <? 128 then 112 else 80) * 32768 ->
  127 < k ->
  exists site,
    assemble_source t fs c fname (src_of (fwd_prog sp0 eorg name kl nl bmn os)) = AExc EStruct site.
Proof.
  intros Ht Ho Hok Hnops Hbra k Hsame Hfit Hrange.
  destruct (fwd_front t fs c fname sp0 eorg org name kl nl bmn os bs (org + 2 + k) Ht Ho Hok Hnops)
    as (m & ri & s0 & xo & fi & its & it & o & asts & Esrc & Einit & Fs & Hcov & Hmask & Hrom & Gri & Hre & Hsc &
        Hs0 & Hw & Hb & Hxo & Eoff & Ers & Eb & Et & Hits & Ty & Va).
  destruct Hbra as [Hbe Hbb]. fold k in Et.
  assert (Hk : 0 <= k) by (unfold k; lia).
  assert (Hp0 : 0 <= spec_offset m org).
  { pose proof (spec_offset_range m org Hmask Hw) as [H _]. destruct Hmask as [E|E]; rewrite E in *; lia. }
  pose proof (A_p0 m Hmask org Hw) as Ep0.
  set (L := org + 2 + k).
  set (br := branch_item (lower_ascii bmn) it o op 0).
  assert (E : assemble_nodes (world_of t fs) ri
                (NCodePos xo fi :: map it_n (br :: its) ++ NLabel name :: map it_n []) = Err EStruct).
  { apply (engine_fail1 (world_of t fs) (lv_low t) m Hcov Hmask Hrom name L ri s0 Gri Hre Hsc Hs0 xo fi org Hw Hb Hxo
             (br :: its) []) with (bad := br) (R := its).
    - cbn [total fold_right br branch_item it_len]. fold (total its). rewrite Et. unfold L.
      rewrite (A_same_bank m org (2 + k)); try assumption; lia.
    - constructor; [apply branch_item_sz; exact Hbe|]. eapply items_ok_sz. apply (Hits 0).
    - constructor.
    - cbn [total fold_right br branch_item it_len]. fold (total its). rewrite Et, Eoff, Ers. lia.
    - reflexivity.
    - intros r G RH Hrr Hpc. cbn [br branch_item it_n].
      apply (branch_fails (world_of t fs) (lv_low t) m Hcov Hmask Hrom name L (lower_ascii bmn) it o op
               (spec_offset m org) r); try assumption.
      + rewrite Eoff, Ers. lia.
      + unfold in_window in *. unfold L. destruct Hmask as [E1|E1]; rewrite E1 in *; unfold window_start in *; lia.
      + rewrite Ep0. unfold L. replace (org + 2 + k) with (org + (2 + k)) by lia. apply bank_same; lia.
      + rewrite Ep0. unfold L. right. lia. }
  destruct (assemble_program_nodes (world_of t fs) c ri asts _ Einit Fs) as [_ Hk'].
  destruct (Hk' EStruct) as (site & Es).
  - rewrite concat_fwd. cbn [map app it_n br branch_item] in E. exact E.
  - exists site. rewrite Esrc. exact Es.
Qed.

Print Assumptions label_then_data.
Print Assumptions data_then_label.
Print Assumptions branch_backward.
Print Assumptions branch_backward_rejected.
Print Assumptions branch_forward.
Print Assumptions branch_forward_rejected.

(* ------------------------------------------------------------------------------------------ *)
(** * Non-vacuity *)

Definition s_bra : str := [98; 114; 97].
Definition demo_live3 : live :=
  {| lv_low := lorom; lv_high := hirom; lv_busmap := [(0, true); (1, true); (2, false)];
     lv_optable := demo_optable ++ [(s_bra, [(M_direct, Single (EmRel 128))])]; lv_prec := reference_prec;
     lv_lex := mk_lexicon [s_lda; s_nop; s_bra] [s_nop] [Parser.k_db; Parser.k_dw; Parser.k_dl; Parser.k_pointer] |}.
Definition n_loop : str := [108; 111; 111; 112].   (* "loop" *)
Definition n_e : str := [101].                       (* "e" *)
Definition os_b : ospacing :=
  {| os_m := 2; os_o := 0; os_e := fun _ => 0%nat; os_1 := 0; os_c := 0; os_2 := 0; os_end := 0 |}.
Definition run3 (src : str) : option (list wblock * list (str * Z)) + errk :=
  match assemble_source demo_live3 no_srcfiles demo_cfg [109] src with
  | AOk o _ => inl (Some (o_blocks o, o_labels o))
  | AExc k _ => inr k
  | _ => inl None
  end.

Definition p_t1a := [SOrg sp00 org8000; SLabel n_loop 1; SDataId Parser.k_dl 1 n_loop 0].
Definition p_t1b := [SOrg sp00 org8000; SDataId Parser.k_dl 2 n_e 1; SLabel n_e 0].
Definition p_back := back_prog sp00 org8000 n_loop 0 [(s_nop, 0%nat); ([78; 79; 80], 1%nat)] [66; 114; 65] os_b.
Definition p_fwd := fwd_prog sp00 org8000 n_e 0 [(s_nop, 0%nat)] s_bra os_b.

(** "*=0x8000 / loop: / .dl loop" ; "*=0x8000 / .dl  e / e:" ;
    "*=0x8000 / loop: / nop / NOP / BrA  loop" ; "*=0x8000 / bra  e / nop / e:" *)
Example demo_label_texts :
  src_of p_t1a = [42;61;48;120;56;48;48;48;10; 108;111;111;112;58;32;10; 46;100;108;32;108;111;111;112;10] /\
  src_of p_t1b = [42;61;48;120;56;48;48;48;10; 46;100;108;32;32;101;32;10; 101;58;10] /\
  src_of p_back = [42;61;48;120;56;48;48;48;10; 108;111;111;112;58;10; 110;111;112;10; 78;79;80;32;10;
                   66;114;65;32;32;108;111;111;112;10] /\
  src_of p_fwd = [42;61;48;120;56;48;48;48;10; 98;114;97;32;32;101;10; 110;111;112;10; 101;58;10].
Proof. vm_compute. repeat split. Qed.

Example demo_label_computed :
  map run3 [src_of p_t1a; src_of p_t1b; src_of p_back; src_of p_fwd]
  = [ inl (Some ([([0; 128; 0], 0)], [(n_loop, 32768)]));
      inl (Some ([([3; 128; 0], 0)], [(n_e, 32771)]));
      inl (Some ([([234; 234; 128; 252], 0)], [(n_loop, 32768)]));
      inl (Some ([([128; 1; 234], 0)], [(n_e, 32771)])) ].
Proof. vm_compute. reflexivity. Qed.

Lemma demo3_tables : tables_ok demo_live3 demo_cfg.
Proof. split; [vm_compute; reflexivity|]. split; [split; [reflexivity|exact I]|reflexivity]. Qed.
Lemma demo_org_ok : org_ok org8000 32768.
Proof. split; [exact I|]. split; [reflexivity|]. split; [left; vm_compute; split; discriminate|vm_compute; discriminate]. Qed.
Lemma demo_name_ok nm : (exists c0 t, nm = c0 :: t /\ mem_z c0 ident_start = true /\ forallb (fun c => mem_z c ident_chars) t = true) ->
  mem_str (map Scanner.lower nm) (lx_mnemonics (lv_lex demo_live3)) = false ->
  label_name_ok (lv_lex demo_live3) nm.
Proof.
  intros (c0 & t & -> & M & A) Hn. split; [|split; [reflexivity|exact Hn]].
  exists c0, t. split; [reflexivity|]. split; [exact M|]. apply Forall_forall. rewrite forallb_forall in A. exact A.
Qed.

Example demo_t1_proved : exists o fin,
  assemble_source demo_live3 no_srcfiles demo_cfg [109] (src_of p_t1a) = AOk o fin /\
  o_blocks o = [([0; 128; 0], 0)] /\ o_labels o = [(n_loop, 32768)].
Proof.
  destruct (label_then_data demo_live3 no_srcfiles demo_cfg [109] sp00 org8000 32768 n_loop 1 Parser.k_dl D_dl 1 0
              demo3_tables demo_org_ok) as (o & fin & E & B & L).
  - assert (N : label_name_ok (lv_lex demo_live3) n_loop)
      by (apply demo_name_ok; [exists 108, [111; 111; 112]; repeat split|reflexivity]).
    constructor; [exact I|]. constructor; [exact N|]. constructor; [|constructor].
    cbn [stmt_ok]. split; [repeat constructor|]. split; [reflexivity|]. split; [lia|]. split; [exact N|].
    exists D_dl. reflexivity.
  - reflexivity.
  - vm_compute. reflexivity.
  - exists o, fin. split; [exact E|]. split; [rewrite B; reflexivity|exact L].
Qed.

Example demo_t2_proved : exists o fin,
  assemble_source demo_live3 no_srcfiles demo_cfg [109] (src_of p_back) = AOk o fin /\
  o_blocks o = [([234; 234; 128; 252], 0)] /\ o_labels o = [(n_loop, 32768)].
Proof.
  destruct (branch_backward demo_live3 no_srcfiles demo_cfg [109] sp00 org8000 32768 n_loop 0
              [(s_nop, 0%nat); ([78; 79; 80], 1%nat)] [66; 114; 65] os_b [234; 234] 128 demo3_tables demo_org_ok)
    as (o & fin & E & B & L).
  - assert (N : label_name_ok (lv_lex demo_live3) n_loop)
      by (apply demo_name_ok; [exists 108, [111; 111; 112]; repeat split|reflexivity]).
    unfold back_prog. cbn [map app nop_stmt bra_stmt fst snd].
    constructor; [exact I|]. constructor; [exact N|].
    constructor; [cbn [stmt_ok]; split; [exact I|]; split; [exists 110, 111, 112; repeat split|];
                  split; [reflexivity|]; split; [exact I|]; split; [exact I|discriminate]|].
    constructor; [cbn [stmt_ok]; split; [exact I|]; split; [exists 78, 79, 80; repeat split|];
                  split; [reflexivity|]; split; [exact I|]; split; [exact I|discriminate]|].
    constructor; [|constructor].
    cbn [stmt_ok]. split; [apply (ident_plain 108 [111; 111; 112]); [reflexivity|repeat constructor]|].
    split; [exists 66, 114, 65; repeat split|]. split; [split; [cbn; lia|reflexivity]|].
    split; [exact I|]. split; [exact I|discriminate].
  - repeat constructor.
  - split; reflexivity.
  - vm_compute. reflexivity.
  - vm_compute. reflexivity.
  - vm_compute. discriminate.
  - exists o, fin. split; [exact E|]. split; [rewrite B; reflexivity|exact L].
Qed.

Print Assumptions demo_t1_proved.
Print Assumptions demo_t2_proved.
