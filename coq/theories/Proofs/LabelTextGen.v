(** C02 / C05 at the level of source TEXT, part 3 (code generation and the passes): an engine for
    node lists of the form

        CodePositionNode ; items X1 ; LabelNode name ; items X2

    where every item has a fixed length in the address layout ([sized]) and, once the label is bound,
    emits known bytes in an in-step emission state ([emits]).  Result: ONE block = the items' bytes at
    the file offset of the origin, and the label bound to the address after X1.
    Items: an operand-less instruction, a data directive on the label, a relative branch to the label. *)
From Coq Require Import ZArith List Bool Lia ZifyBool.
From A816 Require Import Spec.BusLaws Model.Assemble Proofs.BusProofs Proofs.NodeProofs
  Proofs.BranchProofs Proofs.OpcodeProofs Proofs.DataTextGen Proofs.InsnTextGen.
Import ListNotations.
Open Scope Z_scope.
Ltac Zify.zify_post_hook ::= Z.to_euclidean_division_equations.

Record item := { it_n : node; it_len : Z; it_bs : bytes }.
Definition total (its : list item) : Z := fold_right (fun it z => it_len it + z) 0 its.
Definition bytes_of (its : list item) : bytes := flat_map it_bs its.

Lemma not_ips_match (n : node) (f : list (Z * bytes) -> estate) (Y : estate) :
  (forall bl, n <> NIps bl) -> match n with NIps b => f b | _ => Y end = Y.
Proof. intros H. destruct n; try reflexivity. exfalso. eapply H. reflexivity. Qed.

Section Engine.
  Variable w : world.
  Variable low : bus.
  Variable m : mapping.
  Hypothesis Hcov : covers low m.
  Hypothesis Hmask : mask_ok m.
  Hypothesis Hrom : m_writable m = false.
  Variable name : str.
  Variable L : Z.                       (* the value the label gets *)

  Local Notation A := (A m).
  Local Notation at_ := (at_ low).

  Definition Good (r : rstate) : Prop :=
    r_bus r = empty_bus /\ w_builtin w (r_rom r) = Ok low /\ r_cur r = 0%nat.
  Definition root_has (r : rstate) (v : Z) : Prop :=
    exists s, r_scopes r = [s] /\ s_parent s = None /\ dict_get (s_code s) name = None /\
              dict_get (s_symbols s) name = Some v.

  Lemma Good_bus r : Good r -> get_bus w r = Ok low.
  Proof. intros (H1 & H2 & _). unfold get_bus. rewrite H1. exact H2. Qed.

  Definition sized (n : node) (len : Z) : Prop :=
    (forall r a, pc_after w r n a = do a' <- addr_plus a len; Ok (r, a')) /\
    is_symbol_node n = false /\ is_label_or_binary n = false /\ is_codepos n = false /\
    (forall bl, n <> NIps bl).
  Definition emits (n : node) (q : Z) (bs : bytes) : Prop :=
    forall r, Good r -> root_has r L -> r_reloc r = at_ (A q) -> r_pc r = q -> node_emit w r n = Ok (r, bs).
  Definition item_ok (it : item) (q : Z) : Prop :=
    sized (it_n it) (it_len it) /\ it_len it = Z.of_nat (length (it_bs it)) /\ 1 <= it_len it /\
    emits (it_n it) q (it_bs it).
  Fixpoint items_ok (its : list item) (q : Z) : Prop :=
    match its with [] => True | it :: r => item_ok it q /\ items_ok r (q + it_len it) end.
  Fixpoint addrs_pre (q : Z) (its : list item) : list Z :=
    match its with [] => [] | it :: r => A q :: addrs_pre (q + it_len it) r end.

  Lemma total_nonneg its q : items_ok its q -> 0 <= total its.
  Proof.
    revert q. induction its as [|it r IH]; intros q H; cbn [total fold_right]; [lia|].
    destruct H as ((_ & _ & Hl & _) & Hr). specialize (IH _ Hr). unfold total in IH. lia.
  Qed.

  Lemma label_pass_items : forall its q r rest acc, items_ok its q ->
    0 <= q -> q + total its < rsize m ->
    label_pass w r (map it_n its ++ rest) (at_ (A q)) acc
    = label_pass w r rest (at_ (A (q + total its))) (acc ++ addrs_pre q its).
  Proof.
    induction its as [|it its IH]; intros q r rest acc Hok Hq Hfit; cbn [map app total fold_right addrs_pre].
    - rewrite Z.add_0_r, app_nil_r. reflexivity.
    - destruct Hok as (((Hpc & Hs & _) & _ & Hl & _) & Hr).
      pose proof (total_nonneg _ _ Hr) as Ht. unfold total in *. cbn [fold_right] in Hfit.
      cbn [label_pass]. rewrite Hs, Hpc. rewrite (adv low m Hcov Hmask Hrom q (it_len it)) by lia.
      cbn [bind fst snd]. rewrite (IH (q + it_len it) r rest _ Hr) by lia.
      cbn [at_ DataTextGen.at_ a_val]. rewrite <- app_assoc. cbn [app]. rewrite Z.add_assoc. reflexivity.
  Qed.

  Lemma symbol_pass_items : forall its q r rest, items_ok its q ->
    0 <= q -> q + total its < rsize m ->
    symbol_pass w r (map it_n its ++ rest) (at_ (A q))
    = symbol_pass w r rest (at_ (A (q + total its))).
  Proof.
    induction its as [|it its IH]; intros q r rest Hok Hq Hfit; cbn [map app total fold_right].
    - rewrite Z.add_0_r. reflexivity.
    - destruct Hok as (((Hpc & _ & Hlb & _) & _ & Hl & _) & Hr).
      pose proof (total_nonneg _ _ Hr) as Ht. unfold total in *. cbn [fold_right] in Hfit.
      cbn [symbol_pass]. rewrite Hlb, Hpc. rewrite (adv low m Hcov Hmask Hrom q (it_len it)) by lia.
      cbn [bind fst snd]. rewrite (IH (q + it_len it) r rest Hr) by lia.
      rewrite Z.add_assoc. reflexivity.
  Qed.

  (** emission of a run of items: the resolver only moves (pc, reloc) *)
  Definition moved (r r' : rstate) (q : Z) : Prop :=
    Good r' /\ root_has r' L /\ r_reloc r' = at_ (A q) /\ r_pc r' = q /\ r_scopes r' = r_scopes r.

  Lemma emit_loop_items : forall its q r blk baddr out rest raddrs, items_ok its q ->
    Good r -> root_has r L -> r_reloc r = at_ (A q) -> r_pc r = q ->
    0 <= q -> q + total its < rsize m ->
    exists r', moved r r' (q + total its) /\
      emit_loop w {| e_r := r; e_block := blk; e_baddr := baddr; e_out := out |}
                (map it_n its ++ rest) (addrs_pre q its ++ raddrs)
      = emit_loop w {| e_r := r'; e_block := blk ++ bytes_of its; e_baddr := baddr; e_out := out |} rest raddrs.
  Proof.
    induction its as [|it its IH]; intros q r blk baddr out rest raddrs Hok G RH Hre Hpc Hq Hfit;
      cbn [map app total fold_right addrs_pre bytes_of flat_map].
    - exists r. rewrite Z.add_0_r, app_nil_r. split; [|reflexivity]. unfold moved. auto.
    - destruct Hok as (((Hpca & Hs & Hlb & Hcp & Hips) & Hlen & Hl & Hem) & Hr).
      pose proof (total_nonneg _ _ Hr) as Ht. unfold total in *. cbn [fold_right] in Hfit.
      cbn [emit_loop]. unfold emit_step at 1. cbn [e_r e_block e_baddr e_out]. rewrite Hre.
      cbn [at_ DataTextGen.at_ a_val]. rewrite Z.eqb_refl. cbn [negb].
      rewrite (Hem r G RH Hre Hpc). cbn [bind].
      assert (Enz : forall (T : Type) (X Y : T), match it_bs it with [] => X | _ :: _ => Y end = Y).
      { intros T X Y. revert Hlen Hl. generalize (it_bs it). intros [|? ?] E1 E2; [cbn [length] in E1; lia|reflexivity]. }
      rewrite Enz, Hre, <- Hlen. change {| a_bus := low; a_val := A q |} with (at_ (A q)).
      rewrite (adv low m Hcov Hmask Hrom q (it_len it)) by lia. cbn [bind]. rewrite Hcp.
      rewrite (not_ips_match (it_n it) _ _ Hips). cbn [bind].
      set (r1 := set_reloc (set_pc r (r_pc r + it_len it)) (at_ (A (q + it_len it)))).
      assert (G1 : Good r1) by exact G. assert (RH1 : root_has r1 L) by exact RH.
      destruct (IH (q + it_len it) r1 (blk ++ it_bs it) baddr out rest raddrs Hr G1 RH1 eq_refl
                  ltac:(cbn; lia) ltac:(lia) ltac:(lia)) as (r' & (G' & RH' & Hre' & Hpc' & Hsc') & E').
      exists r'. split.
      + unfold moved. rewrite Z.add_assoc in *. auto.
      + rewrite E'. rewrite <- app_assoc. reflexivity.
  Qed.

  Lemma label_pass_items0 its q r acc : items_ok its q -> 0 <= q -> q + total its < rsize m ->
    label_pass w r (map it_n its) (at_ (A q)) acc
    = label_pass w r [] (at_ (A (q + total its))) (acc ++ addrs_pre q its).
  Proof. intros. rewrite <- (app_nil_r (map it_n its)). apply label_pass_items; assumption. Qed.
  Lemma symbol_pass_items0 its q r : items_ok its q -> 0 <= q -> q + total its < rsize m ->
    symbol_pass w r (map it_n its) (at_ (A q)) = symbol_pass w r [] (at_ (A (q + total its))).
  Proof. intros. rewrite <- (app_nil_r (map it_n its)). apply symbol_pass_items; assumption. Qed.
  Lemma emit_loop_items0 its q r blk baddr out raddrs : items_ok its q ->
    Good r -> root_has r L -> r_reloc r = at_ (A q) -> r_pc r = q ->
    0 <= q -> q + total its < rsize m ->
    exists r', moved r r' (q + total its) /\
      emit_loop w {| e_r := r; e_block := blk; e_baddr := baddr; e_out := out |}
                (map it_n its) (addrs_pre q its ++ raddrs)
      = emit_loop w {| e_r := r'; e_block := blk ++ bytes_of its; e_baddr := baddr; e_out := out |} [] raddrs.
  Proof. intros. rewrite <- (app_nil_r (map it_n its)). apply emit_loop_items; assumption. Qed.

  (** ** the whole run *)
  Variable ri : rstate.
  Variable s0 : scope.
  Hypothesis Gri : Good ri.
  Hypothesis Hri_reloc : r_reloc ri = at_ 0.
  Hypothesis Hri_scopes : r_scopes ri = [s0].
  Hypothesis Hs0 : s_parent s0 = None /\ s_code s0 = [] /\ s_labels s0 = [] /\ s_kind s0 = SPlain.
  Variable xo : expr.
  Variable fi : token.
  Variable org : Z.
  Hypothesis Horg_w : in_window m org.
  Hypothesis Horg_b : m_first m <= bank_of org <= m_last m.
  Hypothesis Hxo : forall r, eval_raw w r xo = Ok org.
  Local Notation p0 := (spec_offset m org).
  Variables X1 X2 : list item.
  Local Notation pL := (p0 + total X1).
  Hypothesis HL : L = A pL.
  Hypothesis Hok1 : items_ok X1 p0.
  Hypothesis Hok2 : items_ok X2 pL.
  Hypothesis Hfit : pL + total X2 < rsize m.
  Hypothesis Hne : bytes_of X1 ++ bytes_of X2 <> [].

  Lemma get_value_xo r : get_value w r xo = Ok org.
  Proof. unfold get_value. rewrite Hxo. reflexivity. Qed.

  Lemma Good_ops r : Good r -> Good (resolver_reset r) /\ Good (set_cur_last r (r_cur r) 0).
  Proof. intros (H1 & H2 & H3). unfold Good. cbn. auto. Qed.

  Lemma root_has_label r : r_scopes r = [s0] -> r_cur r = 0%nat -> root_has (add_label r name L) L.
  Proof.
    intros Hs Hc. destruct Hs0 as (P & C & _). unfold root_has, add_label, upd_scope.
    cbn [r_scopes set_scopes]. rewrite Hs, Hc. cbn [list_update].
    eexists. split; [reflexivity|]. cbn [scope_add_label s_parent s_code s_symbols].
    split; [exact P|]. split; [rewrite C; reflexivity|]. apply dict_get_set_same.
  Qed.

  Theorem engine_run :
    exists o, assemble_nodes w ri (NCodePos xo fi :: map it_n X1 ++ NLabel name :: map it_n X2) = Ok o /\
              o_blocks o = [(bytes_of X1 ++ bytes_of X2, p0)] /\ o_labels o = [(name, L)].
  Proof.
    pose proof (total_nonneg _ _ Hok1) as Ht1. pose proof (total_nonneg _ _ Hok2) as Ht2.
    assert (Hp0 : 0 <= p0).
    { pose proof (spec_offset_range m org Hmask Horg_w) as [H _]. destruct Hmask as [E|E]; rewrite E in *; lia. }
    assert (Hp0r : 0 <= p0 < rsize m) by lia.
    pose proof (at_org low m Hmask org Horg_w) as Eorg.
    unfold assemble_nodes, resolve_labels.
    set (r0 := set_cur_last ri (r_cur ri) 0).
    assert (G0 : Good r0) by (apply (Good_ops ri Gri)).
    assert (Hre0 : r_reloc r0 = at_ 0) by exact Hri_reloc. rewrite Hre0.
    (* label pass *)
    cbn [label_pass is_symbol_node pc_after]. rewrite (get_value_xo r0), (Good_bus r0 G0). cbn [bind].
    rewrite (mk_org low m Hcov Hmask org Horg_w Hp0r). cbn [bind fst snd app]. rewrite Eorg.
    rewrite (label_pass_items X1 p0 r0 _ _ Hok1 Hp0 ltac:(lia)).
    cbn [label_pass is_symbol_node pc_after bind fst snd at_ DataTextGen.at_ a_val].
    set (rL := add_label r0 name (A pL)).
    assert (GL : Good rL) by exact G0.
    assert (RHL : root_has rL L) by (unfold rL; rewrite <- HL; apply root_has_label; [exact Hri_scopes|apply Gri]).
    change {| a_bus := low; a_val := A pL |} with (at_ (A pL)).
    rewrite (label_pass_items0 X2 pL rL _ Hok2 ltac:(lia) Hfit). cbn [label_pass bind].
    (* symbol pass *)
    set (r2 := resolver_reset rL).
    assert (G2 : Good r2) by (apply (Good_ops rL GL)).
    assert (Hre2 : r_reloc r2 = at_ 0) by exact Hri_reloc. rewrite Hre2.
    cbn [symbol_pass is_label_or_binary pc_after]. rewrite (get_value_xo r2), (Good_bus r2 G2). cbn [bind].
    rewrite (mk_org low m Hcov Hmask org Horg_w Hp0r). cbn [bind fst snd]. rewrite Eorg.
    rewrite (symbol_pass_items X1 p0 r2 _ Hok1 Hp0 ltac:(lia)).
    cbn [symbol_pass is_label_or_binary].
    rewrite (symbol_pass_items0 X2 pL r2 Hok2 ltac:(lia) Hfit). cbn [symbol_pass bind fst snd].
    (* emission *)
    set (r3 := resolver_reset r2).
    assert (G3 : Good r3) by (apply (Good_ops r2 G2)).
    assert (RH3 : root_has r3 L) by exact RHL.
    assert (Hre3 : r_reloc r3 = at_ 0) by exact Hri_reloc.
    unfold emit. cbn [emit_loop app].
    unfold emit_step at 1. cbn [e_r e_block e_baddr e_out]. rewrite Hre3. cbn [at_ DataTextGen.at_ a_val].
    change (0 =? 0) with true. cbn [negb node_emit].
    rewrite (get_value_xo r3). cbn [bind]. unfold set_position.
    rewrite (Good_bus r3 G3). cbn [bind].
    rewrite (mk_org low m Hcov Hmask org Horg_w Hp0r). cbn [bind].
    rewrite (phys_org low m Hcov Hmask Hrom org Horg_w Hp0r). cbn [bind app is_codepos].
    set (r4 := set_reloc (set_pc r3 p0) (at_ org)).
    assert (G4 : Good r4) by exact G3. assert (RH4 : root_has r4 L) by exact RH3.
    rewrite <- !app_assoc. cbn [app].
    destruct (emit_loop_items X1 p0 r4 [] (r_pc r4) [] (NLabel name :: map it_n X2)
                (A pL :: addrs_pre pL X2 ++ [A (pL + total X2)])
                Hok1 G4 RH4 Eorg eq_refl Hp0 ltac:(lia)) as (r5 & (G5 & RH5 & Hre5 & Hpc5 & Hsc5) & E5).
    cbn [app] in E5. rewrite E5. clear E5.
    (* the label *)
    cbn [emit_loop]. unfold emit_step at 1. cbn [e_r e_block e_baddr e_out]. rewrite Hre5.
    cbn [at_ DataTextGen.at_ a_val]. rewrite Z.eqb_refl. cbn [negb node_emit bind is_codepos]. rewrite app_nil_r.
    destruct (emit_loop_items0 X2 pL r5 (bytes_of X1) (r_pc r4) [] [A (pL + total X2)]
                Hok2 G5 RH5 Hre5 Hpc5 ltac:(lia) Hfit) as (r6 & (G6 & RH6 & Hre6 & Hpc6 & Hsc6) & E6).
    rewrite E6. clear E6.
    cbn [emit_loop e_r]. rewrite Hre6. cbn [at_ DataTextGen.at_ a_val]. rewrite Z.eqb_refl.
    cbn [negb bind e_r e_block e_baddr e_out app].
    eexists. split; [reflexivity|]. cbn [o_blocks o_labels o_final fst snd]. split.
    - assert (X : forall (l : bytes) (q : Z), l <> [] ->
                match l with [] => [] | z :: t => [] ++ [(z :: t, q)] end = [(l, q)])
        by (intros [|? ?] q Hl; [congruence|reflexivity]).
      apply X. exact Hne.
    - unfold get_all_labels. rewrite Hsc6, Hsc5.
      change (r_scopes r4) with (r_scopes rL). unfold rL, add_label, upd_scope. cbn [r_scopes set_scopes].
      change (r_scopes r0) with (r_scopes ri). change (r_cur r0) with (r_cur ri).
      destruct Gri as (_ & _ & Hc). rewrite Hri_scopes, Hc. cbn [list_update flat_map scope_add_label s_kind s_labels].
      destruct Hs0 as (_ & _ & Hl & Hk). rewrite Hk, Hl, <- HL. reflexivity.
  Qed.
End Engine.

(* ------------------------------------------------------------------------------------------ *)
(** * The same run when one item cannot be emitted *)

Lemma total_app a b : total (a ++ b) = total a + total b.
Proof. unfold total. induction a as [|x a IH]; cbn [app fold_right]; [reflexivity|]. rewrite IH. lia. Qed.

Lemma addrs_pre_app m a : forall q b, addrs_pre m q (a ++ b) = addrs_pre m q a ++ addrs_pre m (q + total a) b.
Proof.
  induction a as [|x a IH]; intros q b; cbn [app addrs_pre total fold_right].
  - rewrite Z.add_0_r. reflexivity.
  - rewrite IH. unfold total. rewrite Z.add_assoc. reflexivity.
Qed.

Section Fail.
  Variable w : world.
  Variable low : bus.
  Variable m : mapping.
  Hypothesis Hcov : covers low m.
  Hypothesis Hmask : mask_ok m.
  Hypothesis Hrom : m_writable m = false.
  Variable name : str.
  Variable L : Z.
  Local Notation A := (A m).
  Local Notation at_ := (at_ low).
  Local Notation Good := (Good w low).
  Local Notation root_has := (root_has name).
  Local Notation sized := (sized w).
  Local Notation items_ok := (items_ok w low m name L).
  Local Notation addrs_pre := (addrs_pre m).

  Definition item_sz (it : item) : Prop := sized (it_n it) (it_len it) /\ 1 <= it_len it.

  Lemma items_ok_sz its q : items_ok its q -> Forall item_sz its.
  Proof.
    revert q. induction its as [|it r IH]; intros q H; [constructor|].
    destruct H as ((Hs & _ & Hl & _) & Hr). constructor; [split; assumption|eapply IH; exact Hr].
  Qed.

  Lemma total_nonneg_sz its : Forall item_sz its -> 0 <= total its.
  Proof.
    induction 1 as [|it r (_ & Hl) _ IH]; cbn [total fold_right]; [lia|]. unfold total in IH. lia.
  Qed.

  Lemma label_pass_sz : forall its q r rest acc, Forall item_sz its ->
    0 <= q -> q + total its < rsize m ->
    label_pass w r (map it_n its ++ rest) (at_ (A q)) acc
    = label_pass w r rest (at_ (A (q + total its))) (acc ++ addrs_pre q its).
  Proof.
    induction its as [|it its IH]; intros q r rest acc Hok Hq Hfit; cbn [map app total fold_right LabelTextGen.addrs_pre].
    - rewrite Z.add_0_r, app_nil_r. reflexivity.
    - inversion Hok as [|? ? ((Hpc & Hs & _) & Hl) Hr]; subst.
      pose proof (total_nonneg_sz _ Hr) as Ht. unfold total in *. cbn [fold_right] in Hfit.
      cbn [label_pass]. rewrite Hs, Hpc. rewrite (adv low m Hcov Hmask Hrom q (it_len it)) by lia.
      cbn [bind fst snd]. rewrite (IH (q + it_len it) r rest _ Hr) by lia.
      cbn [DataTextGen.at_ a_val]. rewrite <- app_assoc. cbn [app]. rewrite Z.add_assoc. reflexivity.
  Qed.

  Lemma symbol_pass_sz : forall its q r rest, Forall item_sz its ->
    0 <= q -> q + total its < rsize m ->
    symbol_pass w r (map it_n its ++ rest) (at_ (A q)) = symbol_pass w r rest (at_ (A (q + total its))).
  Proof.
    induction its as [|it its IH]; intros q r rest Hok Hq Hfit; cbn [map app total fold_right].
    - rewrite Z.add_0_r. reflexivity.
    - inversion Hok as [|? ? ((Hpc & _ & Hlb & _) & Hl) Hr]; subst.
      pose proof (total_nonneg_sz _ Hr) as Ht. unfold total in *. cbn [fold_right] in Hfit.
      cbn [symbol_pass]. rewrite Hlb, Hpc. rewrite (adv low m Hcov Hmask Hrom q (it_len it)) by lia.
      cbn [bind fst snd]. rewrite (IH (q + it_len it) r rest Hr) by lia.
      rewrite Z.add_assoc. reflexivity.
  Qed.

  Lemma label_pass_sz0 its q r acc : Forall item_sz its -> 0 <= q -> q + total its < rsize m ->
    label_pass w r (map it_n its) (at_ (A q)) acc
    = label_pass w r [] (at_ (A (q + total its))) (acc ++ addrs_pre q its).
  Proof. intros. rewrite <- (app_nil_r (map it_n its)). apply label_pass_sz; assumption. Qed.
  Lemma symbol_pass_sz0 its q r : Forall item_sz its -> 0 <= q -> q + total its < rsize m ->
    symbol_pass w r (map it_n its) (at_ (A q)) = symbol_pass w r [] (at_ (A (q + total its))).
  Proof. intros. rewrite <- (app_nil_r (map it_n its)). apply symbol_pass_sz; assumption. Qed.

  Variable ri : rstate.
  Variable s0 : scope.
  Hypothesis Gri : Good ri.
  Hypothesis Hri_reloc : r_reloc ri = at_ 0.
  Hypothesis Hri_scopes : r_scopes ri = [s0].
  Hypothesis Hs0 : s_parent s0 = None /\ s_code s0 = [] /\ s_labels s0 = [] /\ s_kind s0 = SPlain.
  Variable xo : expr.
  Variable fi : token.
  Variable org : Z.
  Hypothesis Horg_w : in_window m org.
  Hypothesis Horg_b : m_first m <= bank_of org <= m_last m.
  Hypothesis Hxo : forall r, eval_raw w r xo = Ok org.
  Local Notation p0 := (spec_offset m org).
  Variables X1 X2 : list item.
  Local Notation pL := (p0 + total X1).
  Hypothesis HL : L = A pL.
  Hypothesis Hsz1 : Forall item_sz X1.
  Hypothesis Hsz2 : Forall item_sz X2.
  Hypothesis Hfit : pL + total X2 < rsize m.

  (** the two address passes succeed; emission starts after the "*=" in this state *)
  Lemma resolve_run :
    exists r4,
      Good r4 /\ root_has r4 L /\ r_reloc r4 = at_ (A p0) /\ r_pc r4 = p0 /\
      assemble_nodes w ri (NCodePos xo fi :: map it_n X1 ++ NLabel name :: map it_n X2)
      = (do rb <- (do st <- emit_loop w {| e_r := r4; e_block := []; e_baddr := p0; e_out := [] |}
                               (map it_n X1 ++ NLabel name :: map it_n X2)
                               (addrs_pre p0 X1 ++ A pL :: addrs_pre pL X2 ++ [A (pL + total X2)]);
                   Ok (e_r st, match e_block st with [] => e_out st | b => e_out st ++ [(b, e_baddr st)] end));
         Ok {| o_blocks := snd rb; o_labels := get_all_labels (fst rb); o_final := fst rb |}).
  Proof.
    pose proof (total_nonneg_sz _ Hsz1) as Ht1. pose proof (total_nonneg_sz _ Hsz2) as Ht2.
    assert (Hp0 : 0 <= p0).
    { pose proof (spec_offset_range m org Hmask Horg_w) as [H _]. destruct Hmask as [E|E]; rewrite E in *; lia. }
    assert (Hp0r : 0 <= p0 < rsize m) by lia.
    pose proof (at_org low m Hmask org Horg_w) as Eorg.
    unfold assemble_nodes, resolve_labels.
    set (r0 := set_cur_last ri (r_cur ri) 0).
    assert (G0 : Good r0) by (apply (Good_ops w low ri Gri)).
    assert (Hre0 : r_reloc r0 = at_ 0) by exact Hri_reloc. rewrite Hre0.
    cbn [label_pass is_symbol_node pc_after]. rewrite (get_value_xo w xo org Hxo r0), (Good_bus w low r0 G0). cbn [bind].
    rewrite (mk_org low m Hcov Hmask org Horg_w Hp0r). cbn [bind fst snd app]. rewrite Eorg.
    rewrite (label_pass_sz X1 p0 r0 _ _ Hsz1 Hp0 ltac:(lia)).
    cbn [label_pass is_symbol_node pc_after bind fst snd DataTextGen.at_ a_val].
    set (rL := add_label r0 name (A pL)).
    assert (GL : Good rL) by exact G0.
    assert (RHL : root_has rL L).
    { unfold rL. rewrite <- HL. apply (root_has_label name L s0 Hs0); [exact Hri_scopes|apply Gri]. }
    change {| a_bus := low; a_val := A pL |} with (at_ (A pL)).
    rewrite (label_pass_sz0 X2 pL rL _ Hsz2 ltac:(lia) Hfit). cbn [label_pass bind].
    set (r2 := resolver_reset rL).
    assert (G2 : Good r2) by (apply (Good_ops w low rL GL)).
    assert (Hre2 : r_reloc r2 = at_ 0) by exact Hri_reloc. rewrite Hre2.
    cbn [symbol_pass is_label_or_binary pc_after]. rewrite (get_value_xo w xo org Hxo r2), (Good_bus w low r2 G2). cbn [bind].
    rewrite (mk_org low m Hcov Hmask org Horg_w Hp0r). cbn [bind fst snd]. rewrite Eorg.
    rewrite (symbol_pass_sz X1 p0 r2 _ Hsz1 Hp0 ltac:(lia)).
    cbn [symbol_pass is_label_or_binary].
    rewrite (symbol_pass_sz0 X2 pL r2 Hsz2 ltac:(lia) Hfit). cbn [symbol_pass bind fst snd].
    set (r3 := resolver_reset r2).
    assert (G3 : Good r3) by (apply (Good_ops w low r2 G2)).
    assert (RH3 : root_has r3 L) by exact RHL.
    assert (Hre3 : r_reloc r3 = at_ 0) by exact Hri_reloc.
    unfold emit. cbn [emit_loop app].
    unfold emit_step at 1. cbn [e_r e_block e_baddr e_out]. rewrite Hre3. cbn [DataTextGen.at_ a_val].
    change (0 =? 0) with true. cbn [negb node_emit].
    rewrite (get_value_xo w xo org Hxo r3). cbn [bind]. unfold set_position.
    rewrite (Good_bus w low r3 G3). cbn [bind].
    rewrite (mk_org low m Hcov Hmask org Horg_w Hp0r). cbn [bind].
    rewrite (phys_org low m Hcov Hmask Hrom org Horg_w Hp0r). cbn [bind app is_codepos].
    exists (set_reloc (set_pc r3 p0) (at_ org)).
    split; [exact G3|]. split; [exact RH3|]. split; [exact Eorg|]. split; [reflexivity|].
    rewrite <- !app_assoc. cbn [app]. reflexivity.
  Qed.

  (** the failing item is in X2 = G ++ bad :: R *)
  Theorem engine_fail2 G bad R k :
    items_ok X1 p0 -> X2 = G ++ bad :: R -> items_ok G pL ->
    (forall r, Good r -> root_has r L -> r_reloc r = at_ (A (pL + total G)) -> r_pc r = pL + total G ->
               node_emit w r (it_n bad) = Err k) ->
    assemble_nodes w ri (NCodePos xo fi :: map it_n X1 ++ NLabel name :: map it_n X2) = Err k.
  Proof.
    intros Hok1 EX2 HokG Hbad.
    pose proof (total_nonneg_sz _ Hsz1) as Ht1. pose proof (total_nonneg_sz _ Hsz2) as Ht2.
    assert (Hp0 : 0 <= p0).
    { pose proof (spec_offset_range m org Hmask Horg_w) as [H _]. destruct Hmask as [E|E]; rewrite E in *; lia. }
    destruct resolve_run as (r4 & G4 & RH4 & Hre4 & Hpc4 & E). rewrite E. clear E.
    destruct (emit_loop_items w low m Hcov Hmask Hrom name L X1 p0 r4 [] p0 [] (NLabel name :: map it_n X2)
                (A pL :: addrs_pre pL X2 ++ [A (pL + total X2)]) Hok1 G4 RH4 Hre4 Hpc4 Hp0 ltac:(lia))
      as (r5 & (G5 & RH5 & Hre5 & Hpc5 & Hsc5) & E5).
    rewrite E5. clear E5.
    cbn [emit_loop]. unfold emit_step at 1. cbn [e_r e_block e_baddr e_out]. rewrite Hre5.
    cbn [DataTextGen.at_ a_val]. rewrite Z.eqb_refl. cbn [negb node_emit bind is_codepos]. rewrite app_nil_r.
    subst X2. assert (HszG : Forall item_sz G) by (apply Forall_app in Hsz2; tauto).
    assert (Hszb : item_sz bad /\ Forall item_sz R).
    { apply Forall_app in Hsz2 as [_ H]. inversion H; subst; auto. }
    pose proof (total_nonneg_sz _ HszG) as HtG. pose proof (total_nonneg_sz _ (proj2 Hszb)) as HtR.
    assert (Etot : total (G ++ bad :: R) = total G + (it_len bad + total R)) by (rewrite total_app; reflexivity).
    rewrite Etot in *. destruct Hszb as [[_ Hlb] _].
    rewrite map_app. cbn [map].
    assert (Eadd : addrs_pre pL (G ++ bad :: R) = addrs_pre pL G ++ A (pL + total G) :: addrs_pre (pL + total G + it_len bad) R)
      by (rewrite addrs_pre_app; reflexivity).
    rewrite Eadd, <- !app_assoc. cbn [app].
    destruct (emit_loop_items w low m Hcov Hmask Hrom name L G pL r5 (bytes_of X1) p0 []
                (it_n bad :: map it_n R)
                (A (pL + total G) :: addrs_pre (pL + total G + it_len bad) R ++ [A (pL + (total G + (it_len bad + total R)))])
                HokG G5 RH5 Hre5 Hpc5 ltac:(lia) ltac:(lia))
      as (r6 & (G6 & RH6 & Hre6 & Hpc6 & Hsc6) & E6).
    rewrite E6. clear E6.
    cbn [emit_loop]. unfold emit_step at 1. cbn [e_r e_block e_baddr e_out]. rewrite Hre6.
    cbn [DataTextGen.at_ a_val]. rewrite Z.eqb_refl. cbn [negb].
    rewrite (Hbad r6 G6 RH6 Hre6 Hpc6). reflexivity.
  Qed.

  (** the failing item is the first of X1 *)
  Theorem engine_fail1 bad R k :
    X1 = bad :: R ->
    (forall r, Good r -> root_has r L -> r_reloc r = at_ (A p0) -> r_pc r = p0 -> node_emit w r (it_n bad) = Err k) ->
    assemble_nodes w ri (NCodePos xo fi :: map it_n X1 ++ NLabel name :: map it_n X2) = Err k.
  Proof.
    intros EX1 Hbad. destruct resolve_run as (r4 & G4 & RH4 & Hre4 & Hpc4 & E). rewrite E. clear E.
    subst X1. cbn [map app LabelTextGen.addrs_pre emit_loop].
    unfold emit_step at 1. cbn [e_r e_block e_baddr e_out]. rewrite Hre4.
    cbn [DataTextGen.at_ a_val]. rewrite Z.eqb_refl. cbn [negb].
    rewrite (Hbad r4 G4 RH4 Hre4 Hpc4). reflexivity.
  Qed.
End Fail.

(* ------------------------------------------------------------------------------------------ *)
(** * Items *)

(** an identifier evaluates to the symbol bound in the root scope *)
Lemma eval_ident w r name it v :
  t_type it = T_IDENTIFIER -> t_value it = name -> r_cur r = 0%nat -> root_has name r v ->
  eval_raw w r [Parser.en EK_term it] = Ok v.
Proof.
  intros Ty Va Hc (s & Hs & Hp & Hcode & Hsym).
  unfold eval_raw, eval_expression, shunting_yard. cbn [sy_loop Parser.en en_kind app bind].
  cbn [eval_rpn]. unfold en_type, en_val. cbn [en_tok Parser.en]. rewrite Ty, Va.
  unfold env_of, value_for. rewrite Hc, Hs. cbn [value_for_fuel nth_error]. rewrite Hp.
  unfold scope_getitem. rewrite Hcode, Hsym. reflexivity.
Qed.

Section Items.
  Variable w : world.
  Variable low : bus.
  Variable m : mapping.
  Hypothesis Hcov : covers low m.
  Hypothesis Hmask : mask_ok m.
  Hypothesis Hrom : m_writable m = false.
  Variable name : str.
  Variable L : Z.

  (** an operand-less instruction *)
  Definition nop_item (mnl : str) (fi : token) (b : Z) : item :=
    {| it_n := NOpcode mnl M_none None None None fi; it_len := 1; it_bs := [b] |}.
  Lemma item_nop mnl fi b q :
    get_emitter (w_optable w) mnl M_none None = Ok (EmNoOperand b) -> byte_ok b = true ->
    item_ok w low m name L (nop_item mnl fi b) q.
  Proof.
    intros He Hb. unfold item_ok, nop_item. cbn [it_n it_len it_bs].
    split; [|split; [reflexivity|split; [lia|]]].
    - unfold sized. split; [|repeat split; discriminate].
      intros r a. cbn [pc_after]. unfold opcode_length, opnode_length. rewrite He. reflexivity.
    - intros r _ _ _ _. cbn [node_emit]. unfold opcode_emit. rewrite He. cbn [bind operand_value emitter_emit].
      unfold pack_B. rewrite Hb. reflexivity.
  Qed.

  (** a data directive whose item is the label *)
  Definition data_item (dk : dkind) (it fi : token) : item :=
    {| it_n := NData dk [Parser.en EK_term it] fi; it_len := dkind_len dk; it_bs := data_bytes dk L |}.
  Lemma item_data dk it fi q : t_type it = T_IDENTIFIER -> t_value it = name ->
    item_ok w low m name L (data_item dk it fi) q.
  Proof.
    intros Ty Va. unfold item_ok, data_item. cbn [it_n it_len it_bs].
    destruct (data_bytes_cons dk L) as (b & bs & Eb & Lb).
    split; [|split; [rewrite Eb; symmetry; exact Lb|split; [destruct dk; cbn; lia|]]].
    - unfold sized. split; [|repeat split; discriminate]. intros r a. reflexivity.
    - intros r (_ & _ & Hc) RH _ _. cbn [node_emit]. unfold get_value.
      rewrite (eval_ident w r name it L Ty Va Hc RH). reflexivity.
  Qed.

  (** a relative branch to the label *)
  Definition branch_item (mnl : str) (it fi : token) (op d : Z) : item :=
    {| it_n := NOpcode mnl M_direct None (Some [Parser.en EK_term it]) None fi; it_len := 2;
       it_bs := [op; d mod 256] |}.
  Lemma item_branch mnl it fi op q :
    get_emitter (w_optable w) mnl M_direct None = Ok (EmRel op) -> byte_ok op = true ->
    t_type it = T_IDENTIFIER -> t_value it = name ->
    0 <= q < rsize m -> in_window m L -> bank_of L = bank_of (A m q) ->
    -128 <= L - (A m q + 2) <= 127 ->
    item_ok w low m name L (branch_item mnl it fi op (L - (A m q + 2))) q.
  Proof.
    intros He Hb Ty Va Hq HwL Hbank Hd. unfold item_ok, branch_item. cbn [it_n it_len it_bs].
    split; [|split; [reflexivity|split; [lia|]]].
    - unfold sized. split; [|repeat split; discriminate].
      intros r a. cbn [pc_after]. unfold opcode_length, opnode_length. rewrite He. reflexivity.
    - intros r G RH Hre Hpc. pose proof G as (_ & _ & Hc). cbn [node_emit]. unfold opcode_emit. rewrite He. cbn [bind operand_value].
      unfold get_value. rewrite (eval_ident w r name it L Ty Va Hc RH).
      destruct (A_props m Hmask q Hq) as (Hw & Hbk & Ho).
      rewrite (rel_branch_encode w r op L low m (Good_bus w low r G)); try assumption.
      + rewrite Hre. cbn [DataTextGen.at_ a_val]. unfold branch_bytes.
        replace ((-128 <=? L - (A m q + 2)) && (L - (A m q + 2) <=? 127)) with true by lia. reflexivity.
      + rewrite Hre. reflexivity.
      + rewrite Hre. cbn [DataTextGen.at_ a_val]. apply Hcov. exact Hbk.
      + rewrite Hre. exact Hw.
      + rewrite Hre. exact Hbank.
      + rewrite Hre. cbn [DataTextGen.at_ a_val]. rewrite Ho. exact Hpc.
  Qed.

  (** ... out of range: the emission fails *)
  Lemma branch_fails mnl it fi op q r :
    get_emitter (w_optable w) mnl M_direct None = Ok (EmRel op) -> byte_ok op = true ->
    t_type it = T_IDENTIFIER -> t_value it = name ->
    0 <= q < rsize m -> in_window m L -> bank_of L = bank_of (A m q) ->
    (L - (A m q + 2) < -128 \/ 127 < L - (A m q + 2)) ->
    Good w low r -> root_has name r L -> r_reloc r = at_ low (A m q) -> r_pc r = q ->
    node_emit w r (NOpcode mnl M_direct None (Some [Parser.en EK_term it]) None fi) = Err EStruct.
  Proof.
    intros He Hb Ty Va Hq HwL Hbank Hd G RH Hre Hpc. pose proof G as (_ & _ & Hc).
    cbn [node_emit]. unfold opcode_emit. rewrite He. cbn [bind operand_value].
    unfold get_value. rewrite (eval_ident w r name it L Ty Va Hc RH).
    destruct (A_props m Hmask q Hq) as (Hw & Hbk & Ho).
    rewrite (rel_branch_range w r op L low m (Good_bus w low r G)); try assumption; try reflexivity.
    + rewrite Hre. reflexivity.
    + rewrite Hre. cbn [DataTextGen.at_ a_val]. apply Hcov. exact Hbk.
    + rewrite Hre. exact Hw.
    + rewrite Hre. exact Hbank.
    + rewrite Hre. cbn [DataTextGen.at_ a_val]. rewrite Ho. exact Hpc.
    + rewrite Hre. exact Hd.
  Qed.
End Items.

(* ------------------------------------------------------------------------------------------ *)
(** * Code generation of flat statement lists; the starting resolver *)

Definition simple (w : world) (a : ast) (ns : list node) : Prop :=
  forall gen s, gen_one w gen s a = Ok (s, ns).

Lemma gen_list_simple w gen : forall asts nss s, Forall2 (simple w) asts nss ->
  gen_list w gen s asts = Ok (s, concat nss).
Proof.
  induction asts as [|a asts IH]; intros nss s H; inversion H as [|? ns ? nss' Ha Hr]; subst; cbn [gen_list concat].
  - reflexivity.
  - rewrite (Ha gen s). cbn [bind fst snd]. rewrite (IH nss' s Hr). reflexivity.
Qed.

Lemma code_gen_simple w s asts nss : Forall2 (simple w) asts nss ->
  code_gen_fuel w cg_depth s asts = Ok (s, concat nss).
Proof. intros H. rewrite cg_depth_S, code_gen_S. apply gen_list_simple. exact H. Qed.

Lemma simple_star_eq w e fi : simple w (AStarEq e fi) [NCodePos e fi].
Proof. intros gen s. reflexivity. Qed.
Lemma simple_label w name t : simple w (ALabel name t) [NLabel name].
Proof. intros gen s. reflexivity. Qed.
Lemma simple_data w k data fi : simple w (AData k data fi) (map (fun e => NData k e fi) data).
Proof. intros gen s. reflexivity. Qed.
Lemma simple_implied w opcode size operand index fi :
  simple w (AOpcode M_none opcode size operand index fi) [NOpcode (lower_ascii opcode) M_none None None None fi].
Proof. intros gen s. reflexivity. Qed.
Lemma simple_direct w opcode size e index fi :
  simple w (AOpcode M_direct opcode size (Some e) index fi) [NOpcode (lower_ascii opcode) M_direct None (Some e) size fi].
Proof. intros gen s. reflexivity. Qed.

Lemma initial_resolver_root w c low p :
  w_builtin w LowRom = Ok low -> addr_physical low 0 = Ok p ->
  match cf_rom c with Some rt => w_builtin w rt = Ok low | None => True end ->
  exists ri s0, initial_resolver w c = Ok ri /\ Good w low ri /\ r_reloc ri = at_ low 0 /\
    r_scopes ri = [s0] /\ (s_parent s0 = None /\ s_code s0 = [] /\ s_labels s0 = [] /\ s_kind s0 = SPlain).
Proof.
  intros Hlow Hphys Hrt. unfold initial_resolver, resolver_init. rewrite Hlow.
  unfold set_position, get_bus. cbn [r_bus empty_bus bus_has_mappings b_maps r_rom]. rewrite Hlow.
  cbn [bind]. unfold mk_addr, get_address, addr_phys. cbn [a_bus a_val].
  pose proof Hphys as Hm. unfold addr_physical in Hm.
  destruct (bus_mapping_for_bank low (Z.shiftr 0 16)) as [m0| |]; try discriminate Hm. cbn [bind].
  cbn [a_bus a_val]. rewrite Hphys. cbn [bind].
  match goal with |- context [fold_left ?f ?l ?r] => set (r1 := r); set (fo := f) end.
  assert (Inv : forall defs r, (Good w low r /\ r_rom r = LowRom /\ r_reloc r = at_ low 0 /\ exists s0, r_scopes r = [s0] /\
                  s_parent s0 = None /\ s_code s0 = [] /\ s_labels s0 = [] /\ s_kind s0 = SPlain) ->
               (Good w low (fold_left fo defs r) /\ r_rom (fold_left fo defs r) = LowRom /\
                r_reloc (fold_left fo defs r) = at_ low 0 /\ exists s0, r_scopes (fold_left fo defs r) = [s0] /\
                  s_parent s0 = None /\ s_code s0 = [] /\ s_labels s0 = [] /\ s_kind s0 = SPlain)).
  { induction defs as [|[n v] defs IH]; intros r H; cbn [fold_left]; [exact H|]. apply IH.
    destruct H as (G & Hr & Hre & s0 & Hs & P1 & P2 & P3 & P4). unfold fo. cbn [fst snd].
    split; [exact G|]. split; [exact Hr|]. split; [exact Hre|].
    unfold add_symbol, upd_scope. cbn [r_scopes set_scopes]. destruct G as (_ & _ & Hc). rewrite Hs, Hc.
    cbn [list_update]. eexists. split; [reflexivity|]. cbn [scope_add_symbol s_parent s_code s_labels s_kind]. auto. }
  assert (S1 : Good w low r1 /\ r_rom r1 = LowRom /\ r_reloc r1 = at_ low 0 /\ exists s0, r_scopes r1 = [s0] /\
                 s_parent s0 = None /\ s_code s0 = [] /\ s_labels s0 = [] /\ s_kind s0 = SPlain).
  { unfold r1, Good. destruct p; cbn; rewrite Hlow; repeat split; eexists; repeat split. }
  destruct (Inv (cf_defines c) r1 S1) as (G & Hr & Hre & s0 & Hs & Hp).
  destruct (cf_rom c) as [rt|].
  - eexists _, s0. split; [reflexivity|]. split; [|split; [exact Hre|split; [exact Hs|exact Hp]]].
    destruct G as (G1 & _ & G3). unfold Good. cbn. auto.
  - eexists _, s0. split; [reflexivity|]. auto.
Qed.
