(** C02 / C05 at the level of source TEXT, part 2 (parser): programs of several statements.

    [sparse stoks a]: the tokens [stoks] are one statement that parse_decl turns into the AST node
    [a], wherever they stand in a token list, provided the next token starts a statement (or is EOF).
    Instances: "*= e", "name:", a data directive, an instruction with any operand syntax.
    [pinitial_stmts]: parse_initial on a sequence of such statements. *)
From Coq Require Import ZArith NArith List Bool Lia Arith.
From A816 Require Import Spec.ExprSem Model.Scanner Model.Parser Proofs.ParserProofs
  Proofs.ParserShapeProofs Proofs.ParserShapeTokens
  Proofs.ExprLex Proofs.ExprLexParse Proofs.DataTextScan Proofs.DataTextParse Proofs.InsnTextScan
  Proofs.InsnTextParse.
Import ListNotations.
Open Scope Z_scope.

Ltac lens2 := repeat progress (rewrite ?app_length, ?map_length in *; cbn [length] in *).

(** tokens that can follow a statement: the first token of the next one, or EOF *)
Definition starter (t : token) : bool :=
  match t_type t with
  | T_EOF | T_LABEL | T_OPCODE | T_OPCODE_NAKED | T_KEYWORD | T_STAR_EQ => true
  | _ => false
  end.

Lemma starter_not t ty : starter t = true ->
  match ty with
  | T_OPERATOR | T_COMMA | T_SHARP | T_LPAREN | T_LBRAKET | T_ADDRESSING_MODE_INDEX | T_OPCODE_SIZE
  | T_RPAREN | T_RBRAKET | T_LBRACE => is_ty t ty = false
  | _ => True
  end.
Proof. unfold starter, is_ty. destruct (t_type t); try discriminate; destruct ty; intros _; try exact I; reflexivity. Qed.

Definition sparse (stoks : list token) (a : ast) : Prop :=
  exists t0 tl, stoks = t0 :: tl /\ starter t0 = true /\ t_type t0 <> T_EOF /\
  forall sub f pre rest, starter (hd eof_token rest) = true -> (length stoks + 2 <= f)%nat ->
    pdecl (pre ++ stoks ++ rest) sub (S f) (length pre) = POk (Some a, (length pre + length stoks)%nat).

Section Stmts.
  Variable sub : str -> pres (list ast).

  Lemma pinitial_stmts eof : t_type eof = T_EOF ->
    forall (stmts : list (list token * ast)), Forall (fun sa => sparse (fst sa) (snd sa)) stmts ->
    forall pre acc f, (2 * length (concat (map fst stmts)) + 4 <= f)%nat ->
    pinitial (pre ++ concat (map fst stmts) ++ [eof]) sub f (length pre) acc = POk (acc ++ map snd stmts).
  Proof.
    intros Heof. induction stmts as [|[stoks a] stmts IH]; intros Hall pre acc f HF.
    - cbn [map concat app length] in *. destruct f as [|f]; [lia|]. rewrite pinitial_S.
      rewrite cur_mid. unfold is_ty. rewrite Heof. cbn [ttype_eqb ttype_code Z.eqb Pos.eqb].
      rewrite app_nil_r. reflexivity.
    - inversion Hall as [|? ? Hs Hrest]; subst. cbn [fst snd] in Hs.
      destruct Hs as (t0 & tl & -> & St0 & Ne0 & Hp).
      cbn [map concat fst snd] in *. set (rest := concat (map fst stmts)) in *.
      assert (HF' : (2 * (S (length tl) + length rest) + 4 <= f)%nat) by (lens2; lia).
      destruct f as [|f]; [lia|]. rewrite pinitial_S.
      rewrite <- app_assoc. cbn [app]. rewrite cur_mid.
      replace (is_ty t0 T_EOF) with false
        by (unfold is_ty; destruct (t_type t0); try reflexivity; congruence).
      destruct f as [|f]; [lens2; lia|].
      assert (Ep : pdecl (pre ++ (t0 :: tl) ++ rest ++ [eof]) sub (S f) (length pre)
                   = POk (Some a, (length pre + length (t0 :: tl))%nat)).
      { apply Hp; [|lens2; lia].
        destruct stmts as [|[st2 a2] stmts']; [exact (eq_trans (f_equal _ eq_refl) (eq_refl : starter eof = true)) || (cbn; unfold starter; rewrite Heof; reflexivity)|].
        inversion Hrest as [|? ? Hs2 _]; subst. destruct Hs2 as (t2 & tl2 & E2 & St2 & _).
        cbn [fst] in E2. subst st2. exact St2. }
      cbn [app] in Ep. rewrite Ep. cbn [pbind fst snd opt_app].
      replace (pre ++ t0 :: tl ++ rest ++ [eof]) with ((pre ++ t0 :: tl) ++ rest ++ [eof])
        by (rewrite <- app_assoc; reflexivity).
      replace (length pre + length (t0 :: tl))%nat with (length (pre ++ t0 :: tl)) by (lens2; lia).
      rewrite (IH Hrest (pre ++ t0 :: tl) (acc ++ [a]) (S f)) by (lens2; lia).
      rewrite <- app_assoc. reflexivity.
  Qed.
End Stmts.

(** ** statement instances *)

Lemma sparse_star_eq st l : t_type st = T_STAR_EQ -> PE l ->
  sparse (st :: map en_tok l) (AStarEq l (hd eof_token (map en_tok l))).
Proof.
  intros Hst P. exists st, (map en_tok l). split; [reflexivity|].
  split; [unfold starter; rewrite Hst; reflexivity|]. split; [rewrite Hst; discriminate|].
  intros sub f pre rest Hr HF. set (ts := pre ++ (st :: map en_tok l) ++ rest).
  assert (C0 : cur ts (length pre) = st) by (unfold ts; cbn [app]; apply cur_mid).
  assert (G : seg ts (S (length pre)) (map en_tok l)).
  { unfold ts. replace (pre ++ (st :: map en_tok l) ++ rest) with ((pre ++ [st]) ++ map en_tok l ++ rest)
      by (rewrite <- app_assoc; reflexivity).
    replace (S (length pre)) with (length (pre ++ [st])) by (lens2; lia). apply seg_mid. }
  assert (C1 : cur ts (S (length pre) + length l) = hd eof_token rest).
  { unfold ts. replace (pre ++ (st :: map en_tok l) ++ rest) with ((pre ++ st :: map en_tok l) ++ rest)
      by (rewrite <- app_assoc; reflexivity).
    replace (S (length pre) + length l)%nat with (length (pre ++ st :: map en_tok l) + 0)%nat by (lens2; lia).
    unfold cur. rewrite app_nth2_plus. destruct rest; reflexivity. }
  rewrite (pdecl_star_eq ts sub f (length pre) l).
  - f_equal. f_equal.
    + f_equal. f_equal. specialize (G 0%nat). destruct l as [|x l']; [inversion P|].
      cbn [map hd]. rewrite Nat.add_0_r in G. exact (G ltac:(cbn [map length]; lia)).
    + lens2. lia.
  - rewrite C0. exact Hst.
  - exact P.
  - exact G.
  - rewrite C1. exact (starter_not _ T_OPERATOR Hr).
  - lens2. lia.
Qed.

Lemma sparse_label lt : t_type lt = T_LABEL -> sparse [lt] (ALabel (t_value lt) lt).
Proof.
  intros Hl. exists lt, []. split; [reflexivity|]. split; [unfold starter; rewrite Hl; reflexivity|].
  split; [rewrite Hl; discriminate|].
  intros sub f pre rest Hr HF. rewrite pdecl_S. unfold pdecl_body. cbv zeta.
  cbn [app]. rewrite cur_mid, Hl. unfold plabel. cbn [backup]. rewrite cur_mid. cbn [pbind fst snd length].
  f_equal. f_equal. lia.
Qed.

Lemma sparse_data kwt dk l (c : ctail) :
  t_type kwt = T_KEYWORD -> dkind_of (t_value kwt) = Some dk -> PE l -> ctail_ok c ->
  sparse (kwt :: map en_tok l ++ ctail_toks c) (AData dk (l :: map snd c) kwt).
Proof.
  intros Hk Hd P C. exists kwt, (map en_tok l ++ ctail_toks c). split; [reflexivity|].
  split; [unfold starter; rewrite Hk; reflexivity|]. split; [rewrite Hk; discriminate|].
  intros sub f pre rest Hr HF. set (items := map en_tok l ++ ctail_toks c) in *.
  set (ts := pre ++ (kwt :: items) ++ rest).
  assert (C0 : cur ts (length pre) = kwt) by (unfold ts; cbn [app]; apply cur_mid).
  assert (G : seg ts (S (length pre)) items).
  { unfold ts. replace (pre ++ (kwt :: items) ++ rest) with ((pre ++ [kwt]) ++ items ++ rest)
      by (rewrite <- app_assoc; reflexivity).
    replace (S (length pre)) with (length (pre ++ [kwt])) by (lens2; lia). apply seg_mid. }
  assert (C1 : cur ts (S (length pre) + length items) = hd eof_token rest).
  { unfold ts. replace (pre ++ (kwt :: items) ++ rest) with ((pre ++ kwt :: items) ++ rest)
      by (rewrite <- app_assoc; reflexivity).
    replace (S (length pre) + length items)%nat with (length (pre ++ kwt :: items) + 0)%nat by (lens2; lia).
    unfold cur. rewrite app_nth2_plus. destruct rest; reflexivity. }
  rewrite (pdecl_data ts sub f (length pre) dk l c).
  - rewrite C0. f_equal. f_equal. fold items. lens2. lia.
  - rewrite C0. exact Hk.
  - rewrite C0. exact Hd.
  - exact P.
  - exact C.
  - exact G.
  - fold items. rewrite C1. exact (starter_not _ T_OPERATOR Hr).
  - fold items. rewrite C1. exact (starter_not _ T_COMMA Hr).
  - fold items. cbn [length] in HF. lia.
Qed.

(** an instruction statement, any operand syntax, followed by anything that starts a statement *)
Lemma after_E_not_operator' pu sh rest : punct_ok pu -> starter (hd eof_token rest) = true ->
  is_ty (hd eof_token (ParserShapeTokens.closing pu sh ++ rest)) T_OPERATOR = false.
Proof.
  intros (P1 & P2 & P3 & P4 & P5 & P6 & _ & P8 & _) Hr.
  destruct sh; cbn [ParserShapeTokens.closing app hd]; try (exact (starter_not _ T_OPERATOR Hr));
    unfold is_ty; rewrite ?P3, ?P5, ?P6; reflexivity.
Qed.

Lemma shape_parse_rest sub f pre rest o szt pu sh l :
  punct_ok pu ->
  match szt with Some s => t_type s = T_OPCODE_SIZE | None => True end ->
  t_type o = match sh with ShImplied => T_OPCODE_NAKED | _ => T_OPCODE end ->
  starter (hd eof_token rest) = true -> PE l ->
  match sh with ShDirect | ShDirectIdx => t_type (hd eof_token (map en_tok l)) <> T_LPAREN | _ => True end ->
  match sh with
  | ShInnerOuter => lower (t_value (pu_i1 pu)) = k_s /\ lower (t_value (pu_i2 pu)) = k_y
  | _ => True
  end ->
  (length l < f)%nat ->
  pdecl (ts_of pre rest (map en_tok l) o szt pu sh) sub (S f) (length pre) =
  POk (Some (AOpcode (mode_of sh) (t_value o) (vsize_of szt)
               (match sh with ShImplied => None | _ => Some l end) (index_of pu sh) o),
       (length pre + length (stmt_tokens o szt pu sh (map en_tok l)))%nat).
Proof.
  intros Hpu Hsz Ho Hr P Hdir Hio HF.
  set (ts := ts_of pre rest (map en_tok l) o szt pu sh).
  set (qE := qE_of pre szt pu sh).
  assert (HE : sh <> ShImplied -> pexpression ts f qE = POk (l, (qE + length (map en_tok l))%nat)).
  { intros NI. rewrite map_length. apply pexpression_PE; [exact P| | |exact HF].
    - assert (Ets : ts = (pre ++ o :: size_tokens szt ++ ParserShapeTokens.opening pu sh) ++ map en_tok l ++
                         (ParserShapeTokens.closing pu sh ++ rest)).
      { unfold ts, ts_of, stmt_tokens, shape_tokens. destruct sh; try congruence;
          cbn [app]; repeat (rewrite <- ?app_assoc; cbn [app]); reflexivity. }
      rewrite Ets. replace qE with (length (pre ++ o :: size_tokens szt ++ ParserShapeTokens.opening pu sh)).
      + apply seg_mid.
      + unfold qE, qE_of. rewrite !app_length. cbn [length]. rewrite app_length. lia.
    - assert (Ets : ts = (pre ++ o :: size_tokens szt ++ ParserShapeTokens.opening pu sh ++ map en_tok l) ++
                         (ParserShapeTokens.closing pu sh ++ rest)).
      { unfold ts, ts_of, stmt_tokens, shape_tokens. destruct sh; try congruence;
          cbn [app]; repeat (rewrite <- ?app_assoc; cbn [app]); reflexivity. }
      rewrite Ets.
      replace (qE + length l)%nat
        with (length (pre ++ o :: size_tokens szt ++ ParserShapeTokens.opening pu sh ++ map en_tok l) + 0)%nat.
      + unfold cur. rewrite app_nth2_plus.
        pose proof (after_E_not_operator' pu sh rest Hpu Hr) as X.
        destruct (ParserShapeTokens.closing pu sh ++ rest); exact X.
      + unfold qE, qE_of. rewrite !app_length. cbn [length]. rewrite !app_length, map_length. lia. }
  unfold ts. rewrite (C01_shape_tokens sub f pre rest (map en_tok l) o szt pu sh).
  - destruct sh; try reflexivity; fold ts qE; rewrite HE by discriminate; reflexivity.
  - unfold shape_hyps. cbv zeta. fold ts qE.
    split; [exact Hpu|]. split; [exact Hsz|]. split; [exact Ho|]. split.
    { replace (nth 0 rest eof_token) with (hd eof_token rest) by (destruct rest; reflexivity).
      assert (N : forall ty, match ty with
                  | T_OPERATOR | T_SHARP | T_LPAREN | T_LBRAKET | T_ADDRESSING_MODE_INDEX | T_OPCODE_SIZE =>
                      t_type (hd eof_token rest) <> ty
                  | _ => True end).
      { intros ty. unfold starter in Hr. destruct (t_type (hd eof_token rest)); try discriminate Hr;
          destruct ty; try exact I; discriminate. }
      unfold terminator_ok. destruct sh; repeat split; try exact I;
        first [exact (N T_SHARP) | exact (N T_LPAREN) | exact (N T_LBRAKET) | exact (N T_ADDRESSING_MODE_INDEX)
              | exact (N T_OPERATOR) | (intros _; exact (N T_OPCODE_SIZE))]. }
    split.
    { destruct sh; try exact I; eexists; apply HE; discriminate. }
    split.
    { destruct sh; try exact I; destruct (map en_tok l); exact Hdir. }
    exact Hio.
Qed.

Lemma sparse_insn o szt pu sh l :
  punct_ok pu ->
  match szt with Some s => t_type s = T_OPCODE_SIZE | None => True end ->
  t_type o = match sh with ShImplied => T_OPCODE_NAKED | _ => T_OPCODE end ->
  PE l ->
  match sh with ShDirect | ShDirectIdx => t_type (hd eof_token (map en_tok l)) <> T_LPAREN | _ => True end ->
  match sh with
  | ShInnerOuter => lower (t_value (pu_i1 pu)) = k_s /\ lower (t_value (pu_i2 pu)) = k_y
  | _ => True
  end ->
  sparse (stmt_tokens o szt pu sh (map en_tok l))
         (AOpcode (mode_of sh) (t_value o) (vsize_of szt)
                  (match sh with ShImplied => None | _ => Some l end) (index_of pu sh) o).
Proof.
  intros Hpu Hsz Ho P Hdir Hio. unfold stmt_tokens at 1.
  exists o, (size_tokens szt ++ shape_tokens pu sh (map en_tok l)). split; [reflexivity|].
  split; [unfold starter; rewrite Ho; destruct sh; reflexivity|].
  split; [rewrite Ho; destruct sh; discriminate|].
  intros sub f pre rest Hr HF.
  assert (Nl : (length l < f)%nat \/ sh = ShImplied).
  { destruct (shape_eq_dec sh ShImplied) as [->|NI]; [right; reflexivity|left].
    unfold shape_tokens in HF. destruct sh; try congruence; lens2; lia. }
  change (pre ++ (o :: size_tokens szt ++ shape_tokens pu sh (map en_tok l)) ++ rest)
    with (ts_of pre rest (map en_tok l) o szt pu sh).
  change (o :: size_tokens szt ++ shape_tokens pu sh (map en_tok l)) with (stmt_tokens o szt pu sh (map en_tok l)).
  destruct Nl as [Nl| ->].
  - apply shape_parse_rest; assumption.
  - (* operand-less: the expression argument is unused; rerun with a one-token expression *)
    assert (X := shape_parse_rest sub f pre rest o szt pu ShImplied l Hpu Hsz Ho Hr P I I).
    destruct (le_lt_dec f (length l)) as [Hle|Hlt]; [|exact (X Hlt)].
    (* [l] is irrelevant for ShImplied: both sides do not mention it *)
    clear X. unfold ts_of, stmt_tokens, shape_tokens.
    assert (Y := shape_parse_rest sub f pre rest o szt pu ShImplied [en EK_term (mk_token T_NUMBER [48])]
                   Hpu Hsz Ho Hr (PE_term (mk_token T_NUMBER [48]) (or_introl eq_refl)) I I ltac:(cbn [length] in *; lia)).
    unfold ts_of, stmt_tokens, shape_tokens in Y. exact Y.
Qed.
