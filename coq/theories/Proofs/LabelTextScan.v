(** C02 / C05 at the level of source TEXT, part 1 (scanner): programs of several lines.

    A line-by-line framework ([lscan]: what Scanner(lex_initial).scan does on one line, whatever
    precedes and follows it), its instances -- the "*=" line, a label line "name:", a data line whose
    item is an identifier, an operand-less instruction line, an instruction line with an operand
    (any syntax; the operand may now contain identifiers) -- and the whole-program theorem
    [scan_prog].

    Identifiers in STATEMENT context: lex_initial first tries accept_opcode (the next three
    characters, lower-cased, are a mnemonic and the fourth is a blank, newline, '.' or the end); only
    when that fails is the word an identifier / label.  [opcode_test] is that test; it is false when
    the name is not itself a mnemonic (in any letter case) and the mnemonics are made of
    letters/digits/underscores ([mn_chars_ok], a boolean on the lexicon). *)
From Coq Require Import ZArith NArith List Bool Lia Arith.
From A816 Require Import Spec.ExprSem Model.Scanner Proofs.ScannerFuel Proofs.ScannerMono
  Proofs.ExprProofs Proofs.ExprLex Proofs.DataTextScan Proofs.ParserShapeTokens Proofs.InsnTextParse
  Proofs.InsnTextScan.
Import ListNotations.
Open Scope Z_scope.

Ltac lens := repeat progress (rewrite ?app_length, ?spaces_length in *; cbn [length] in *).

(* ------------------------------------------------------------------------------------------ *)
(** * Lines *)

(** [lscan lx body toks k]: on the line [body] the driver makes [k] calls of lex_initial and appends
    the tokens [toks] *)
Definition lscan (lx : lexicon) (body : str) (toks : list tk) (k : nat) : Prop :=
  forall F n s a ws r out,
    Zv s a [] (ws ++ body ++ 10 :: r) out -> all_in blanks ws -> (length (inp s) + 1 < F)%nat ->
    exists s' a' k',
      scan_loop (k + n) F (lex_initial lx) s = scan_loop n F (lex_initial lx) s' /\
      Zv s' a' [] (spaces k' ++ 10 :: r) (rev toks ++ out) /\ length (inp s') = length (inp s).

Record line := { l_body : str; l_toks : list tk; l_calls : nat }.
Definition prog_text (ls : list line) : str := flat_map (fun l => l_body l ++ [10]) ls.
Definition prog_toks (ls : list line) : list tk := flat_map l_toks ls.
Definition prog_calls (ls : list line) : nat := fold_right (fun l k => (l_calls l + k)%nat) 0%nat ls.
Definition line_ok (lx : lexicon) (l : line) : Prop := lscan lx (l_body l) (l_toks l) (l_calls l).

Lemma lscan_prog lx : forall ls, Forall (line_ok lx) ls ->
  forall F n s a ws out,
    Zv s a [] (ws ++ prog_text ls) out -> all_in blanks ws -> (length (inp s) + 1 < F)%nat ->
    exists s' a' ws',
      scan_loop (prog_calls ls + n) F (lex_initial lx) s = scan_loop n F (lex_initial lx) s' /\
      Zv s' a' [] ws' (rev (prog_toks ls) ++ out) /\ all_in blanks ws' /\ length (inp s') = length (inp s).
Proof.
  induction ls as [|[body toks k] ls IH]; intros Hall F n s a ws out H B HF.
  - cbn [prog_text prog_toks prog_calls fold_right flat_map Nat.add rev app] in *. rewrite app_nil_r in H.
    exists s, a, ws. auto.
  - inversion Hall as [|? ? Hl Hrest]; subst. unfold line_ok in Hl. cbn [l_body l_toks l_calls] in Hl.
    cbn [prog_text prog_toks prog_calls fold_right flat_map l_body l_toks l_calls] in *.
    fold (prog_text ls) in H. fold (prog_toks ls). fold (prog_calls ls).
    rewrite <- app_assoc in H. cbn [app] in H. rewrite <- Nat.add_assoc.
    destruct (Hl F (prog_calls ls + n)%nat s a ws (prog_text ls) out H B HF) as (s1 & a1 & k1 & E1 & H1 & L1).
    assert (B1 : all_in blanks (spaces k1 ++ [10])).
    { apply Forall_app. split; [apply blanks_spaces|repeat constructor]. }
    assert (H1' : Zv s1 a1 [] ((spaces k1 ++ [10]) ++ prog_text ls) (rev toks ++ out))
      by (rewrite <- app_assoc; exact H1).
    destruct (IH Hrest F n s1 a1 _ _ H1' B1 ltac:(lia)) as (s' & a' & ws' & E' & H' & B' & L').
    exists s', a', ws'. split; [exact (eq_trans E1 E')|]. split; [|split; [exact B'|lia]].
    rewrite rev_app_distr, <- app_assoc. exact H'.
Qed.

(** the whole program *)
Theorem scan_prog lx file ls : Forall (line_ok lx) ls ->
  exists toks eof lines,
    scan lx file (prog_text ls) = ScanOk (toks ++ [eof]) lines /\
    map tv toks = prog_toks ls /\ tv eof = (T_EOF, []).
Proof.
  intros Hall. set (src := prog_text ls).
  set (F := (prog_calls ls + S (S (length src)))%nat).
  rewrite <- (scan_fuel_irrelevant lx file src F) by (unfold scan_fuel, F; lia).
  unfold scan_with_fuel, scan_gen.
  assert (H0 : Zv (init_sc file src) [] [] ([] ++ src) []) by (unfold Zv, init_sc; cbn; auto).
  unfold F at 1.
  destruct (lscan_prog lx ls Hall F (S (S (length src))) (init_sc file src) [] [] [] H0 (Forall_nil _)
              ltac:(cbn [init_sc inp]; unfold F; lia)) as (s' & a' & ws' & E & H' & B' & L').
  rewrite E.
  destruct (scan_finish lx (length src) F s' a' ws' _ H' B' ltac:(rewrite L'; cbn [init_sc inp]; unfold F; lia))
    as (toks & eof & lines & E' & T & Eo).
  exists toks, eof, lines. split; [exact E'|]. split; [|exact Eo].
  rewrite T, app_nil_r. apply rev_involutive.
Qed.

(* ------------------------------------------------------------------------------------------ *)
(** * Identifiers and labels in statement context *)

Definition opcode_test (lx : lexicon) (text : str) : bool :=
  mem_str (map lower (firstn 3 text)) (lx_mnemonics lx) && mem_z (nth 3 text 0) [32; 10; 9; 46; 0].

(** a plain name: a letter or '_', then letters / digits / '_' *)
Definition name_ok (name : str) : Prop :=
  exists c0 t, name = c0 :: t /\ mem_z c0 ident_start = true /\ all_in ident_chars t.

Lemma name_ok_all name : name_ok name -> all_in ident_chars name.
Proof.
  intros (c0 & t & -> & M & A). constructor; [|exact A].
  exact (mem_z_incl ident_start ident_chars eq_refl _ M).
Qed.

Lemma init_ident lx F s a ws name r out :
  Zv s a [] (ws ++ name ++ r) out -> all_in blanks ws -> name_ok name ->
  opcode_test lx (name ++ r) = false -> (length (inp s) + 1 < F)%nat ->
  exists s3, lex_initial lx F s = lex_identifier F s3 /\ Zv s3 (a ++ ws) [] (name ++ r) out.
Proof.
  intros H B (c0 & t & -> & M0 & At) Hop HF.
  pose proof (Zv_len _ _ _ _ _ H) as L. lens.
  unfold lex_initial, ignore_run.
  destruct (accept_run_Zv blanks ws F s a [] _ out H B
              (mem_z_disj ident_start blanks eq_refl _ M0) ltac:(lia)) as (s1 & R & H1).
  rewrite R. cbn [lbind]. apply ignore_Zv in H1. cbn [app] in H1.
  set (s0 := ignore s1) in *. clearbody s0. clear R s1.
  rewrite (accept_Zv_false _ _ _ _ _ [59] H1 (mem_z_disj ident_start [59] eq_refl _ M0)). cbv beta iota.
  rewrite (accept_Zv_false _ _ _ _ _ digits H1 (start_not_digit _ M0)). cbv beta iota.
  rewrite (accept_Zv_false _ _ _ _ _ [43; 45; 38] H1 (mem_z_disj ident_start [43; 45; 38] eq_refl _ M0)).
  cbv beta iota.
  pose proof (start_ne c0 61 M0 eq_refl) as N61. pose proof (start_ne c0 33 M0 eq_refl) as N33.
  pose proof (start_ne c0 62 M0 eq_refl) as N62. pose proof (start_ne c0 60 M0 eq_refl) as N60.
  rewrite (accept_prefix_Zv_false _ _ _ _ _ [61; 61] H1 (pfx_false _ _ _ _ N61)). cbv beta iota.
  rewrite (accept_prefix_Zv_false _ _ _ _ _ [33; 61] H1 (pfx_false _ _ _ _ N33)). cbv beta iota.
  rewrite (accept_prefix_Zv_false _ _ _ _ _ [62; 62] H1 (pfx_false _ _ _ _ N62)). cbv beta iota.
  rewrite (accept_prefix_Zv_false _ _ _ _ _ [60; 60] H1 (pfx_false _ _ _ _ N60)). cbv beta iota.
  rewrite (accept_prefix_Zv_false _ _ _ _ _ [62] H1 (pfx_false _ _ _ _ N62)). cbn [accept_or fst snd].
  rewrite (accept_prefix_Zv_false _ _ _ _ _ [60] H1 (pfx_false _ _ _ _ N60)). cbn [accept_or fst snd].
  rewrite (accept_prefix_Zv_false _ _ _ _ _ [62; 61] H1 (pfx_false _ _ _ _ N62)). cbn [accept_or fst snd].
  rewrite (accept_prefix_Zv_false _ _ _ _ _ [60; 61] H1 (pfx_false _ _ _ _ N60)). cbn [accept_or fst snd].
  cbv beta iota.
  destruct (accept_Zv_true s0 _ [] c0 _ out ident_start H1 M0) as (s2 & A2 & H2).
  rewrite A2. cbv beta iota. cbn [app] in H2.
  destruct (backup_Zv s2 _ [] c0 _ out H2) as (s3 & B3 & H3). rewrite B3. cbn [lbind].
  unfold accept_opcode. rewrite (slice_start_Zv _ _ _ _ _ 3 H3).
  rewrite (Zv_peek_k _ _ _ _ _ 3%nat H3). cbn [app].
  unfold opcode_test in Hop. cbn [app] in Hop. rewrite Hop.
  exists s3. split; [reflexivity|exact H3].
Qed.

(** "name:" *)
Lemma lex_identifier_label F s a name r out :
  Zv s a [] (name ++ 58 :: r) out -> all_in ident_chars name -> hd 0 r <> 61 ->
  (length (inp s) + 1 < F)%nat ->
  exists s', lex_identifier F s = LOk s' /\ Zv s' (a ++ name ++ [58]) [] r ((T_LABEL, name) :: out).
Proof.
  intros H A N HF. pose proof (Zv_len _ _ _ _ _ H) as L. lens. unfold lex_identifier.
  destruct (accept_run_Zv ident_chars name F s a [] (58 :: r) out H A eq_refl ltac:(lia)) as (s1 & R & H1).
  rewrite R. cbn [lbind app] in *. rewrite (Zv_peek _ _ _ _ _ H1), (Zv_peek_k _ _ _ _ _ 1%nat H1).
  cbn [hd nth]. change (58 =? 58) with true.
  replace (nth 0 r 0) with (hd 0 r) by (destruct r; reflexivity).
  assert (E : (hd 0 r =? 61) = false) by (apply Z.eqb_neq; exact N). rewrite E. cbn [andb negb].
  pose proof (emit_Zv _ _ _ _ _ T_LABEL H1) as H2.
  destruct (next_Zv _ _ _ _ _ _ H2) as (s3 & N3 & H3). rewrite N3. cbn [snd].
  eexists. split; [reflexivity|]. apply ignore_Zv in H3. cbn [app] in H3. rewrite <- app_assoc in H3. exact H3.
Qed.

(** a plain identifier followed by a delimiter *)
Lemma lex_identifier_plain F s a name r out :
  Zv s a [] (name ++ r) out -> all_in ident_chars name -> delim (hd 0 r) = true ->
  (length (inp s) + 1 < F)%nat ->
  exists s', lex_identifier F s = LOk s' /\ Zv s' (a ++ name) [] r ((T_IDENTIFIER, name) :: out).
Proof.
  intros H A D HF. pose proof (Zv_len _ _ _ _ _ H) as L. lens. unfold lex_identifier.
  destruct (accept_run_Zv ident_chars name F s a [] r out H A (delim_ident _ D) ltac:(lia)) as (s1 & R & H1).
  rewrite R. cbn [lbind app] in *. rewrite (Zv_peek _ _ _ _ _ H1).
  assert (E1 : (hd 0 r =? 58) = false) by (apply delim_ne; [reflexivity|assumption]).
  assert (E2 : (hd 0 r =? 46) = false) by (apply delim_ne; [reflexivity|assumption]).
  rewrite E1, E2. cbn [andb lbind].
  eexists. split; [reflexivity|]. apply (emit_Zv _ _ _ _ _ T_IDENTIFIER H1).
Qed.

(** ** when the opcode test fails *)
Definition mn_chars_ok (lx : lexicon) : bool :=
  forallb (fun m => forallb (fun c => mem_z c ident_chars) m) (lx_mnemonics lx).
Definition not_mnemonic (lx : lexicon) (name : str) : Prop :=
  mem_str (map lower name) (lx_mnemonics lx) = false.
(** what follows a name in the programs below: ':' , a space or a newline *)
Definition sepc (c : Z) : Prop := c = 58 \/ c = 32 \/ c = 10.

Lemma str_eqb_true'' (a : str) : forall b, str_eqb a b = true -> a = b.
Proof.
  induction a as [|x a IH]; destruct b as [|y b]; cbn; try discriminate; [reflexivity|].
  intros H. apply andb_true_iff in H as [H1 H2]. apply Z.eqb_eq in H1. subst. f_equal. apply IH. exact H2.
Qed.

Lemma mnemonic_chars lx cand c : mn_chars_ok lx = true -> mem_str cand (lx_mnemonics lx) = true ->
  In c cand -> mem_z c ident_chars = true.
Proof.
  intros Hok Hm Hin. unfold mem_str in Hm. apply existsb_exists in Hm as (m & Hmin & E).
  apply str_eqb_true'' in E. subst m. unfold mn_chars_ok in Hok. rewrite forallb_forall in Hok.
  specialize (Hok _ Hmin). rewrite forallb_forall in Hok. apply Hok. exact Hin.
Qed.

Lemma opcode_test_name lx name c r :
  mn_chars_ok lx = true -> not_mnemonic lx name -> name_ok name -> sepc c ->
  opcode_test lx (name ++ c :: r) = false.
Proof.
  intros Hok Hnm Hn Hc. pose proof (name_ok_all name Hn) as A. unfold opcode_test.
  assert (Lc : lower c = c /\ mem_z c ident_chars = false) by (destruct Hc as [->|[->| ->]]; split; reflexivity).
  destruct Lc as [Lc Nc].
  destruct name as [|x0 [|x1 [|x2 [|x3 rest]]]].
  - destruct Hn as (? & ? & E & _). discriminate E.
  - (* one character *)
    destruct (mem_str (map lower (firstn 3 ([x0] ++ c :: r))) (lx_mnemonics lx)) eqn:E; [|reflexivity].
    exfalso. assert (X : mem_z c ident_chars = true).
    { eapply (mnemonic_chars lx _ c Hok E). cbn [app firstn map]. rewrite Lc. right; left; reflexivity. }
    congruence.
  - destruct (mem_str (map lower (firstn 3 ([x0; x1] ++ c :: r))) (lx_mnemonics lx)) eqn:E; [|reflexivity].
    exfalso. assert (X : mem_z c ident_chars = true).
    { eapply (mnemonic_chars lx _ c Hok E). cbn [app firstn map]. rewrite Lc. right; right; left; reflexivity. }
    congruence.
  - cbn [app firstn]. unfold not_mnemonic in Hnm. rewrite Hnm. reflexivity.
  - cbn [app nth]. inversion A as [|? ? _ A1]; subst. inversion A1 as [|? ? _ A2]; subst.
    inversion A2 as [|? ? _ A3]; subst. inversion A3 as [|? ? M3 _]; subst.
    rewrite (mem_z_disj ident_chars [32; 10; 9; 46; 0] eq_refl _ M3). apply andb_false_r.
Qed.

(* ------------------------------------------------------------------------------------------ *)
(** * Line instances *)

(** "*=" expression *)
Lemma lscan_origin lx sp0 eorg : dlex eorg ->
  lscan lx ([42; 61] ++ text_of sp0 eorg) ((T_STAR_EQ, [42; 61]) :: toks_of eorg) (S (length (toks_of eorg))).
Proof.
  intros Do F n s a ws r out H B HF. rewrite <- !app_assoc in H.
  cbn [Nat.add].
  destruct (scan_tok lx (length (toks_of eorg) + n) F s a ws T_STAR_EQ [42; 61] [42; 61] _ out H B (i_stareq lx) I HF)
    as (s1 & E1 & H1 & L1).
  rewrite E1. rewrite text_of_join in H1.
  pose proof (seq_toks eorg (dlex_lexable _ Do) [] I) as Sq0. rewrite app_nil_r in Sq0.
  destruct (scan_segment lx sp0 F (10 :: r) eq_refl ltac:(discriminate)
              (toks_of eorg) false 0%nat n s1 _ _ H1 Sq0 (dlex_toks _ Do) ltac:(lia))
    as (s2 & a2 & E2 & H2 & L2).
  rewrite E2. exists s2, a2, (sp0 (0 + length (toks_of eorg))%nat). split; [reflexivity|].
  split; [|lia]. cbn [rev]. rewrite <- app_assoc. exact H2.
Qed.

(** one lex_initial call that makes progress = one iteration *)
Lemma scan_call lx n F s s' a a' r r' out out' :
  Zv s a [] r out -> r <> [] -> lex_initial lx F s = LOk s' -> Zv s' a' [] r' out' ->
  (length a < length a')%nat ->
  scan_loop (S n) F (lex_initial lx) s = scan_loop n F (lex_initial lx) s'.
Proof.
  intros H NE E H' La. apply scan_progress; [exact E| |].
  - pose proof (Zv_len _ _ _ _ _ H) as L. destruct H as (_ & _ & P & _). rewrite P, L.
    destruct r; [congruence|]. lens. lia.
  - destruct H as (_ & _ & P & _). destruct H' as (_ & _ & P' & _). rewrite P, P'. lens. lia.
Qed.

(** "name:" *)
Lemma lscan_label lx name k :
  name_ok name -> (forall r, opcode_test lx (name ++ 58 :: r) = false) ->
  lscan lx (name ++ 58 :: spaces k) [(T_LABEL, name)] 1.
Proof.
  intros Hn Hop F n s a ws r out H B HF. rewrite <- !app_assoc in H. cbn [app] in H.
  destruct (init_ident lx F s a ws name _ out H B Hn (Hop _) HF) as (s3 & E3 & H3).
  pose proof (Zv_len _ _ _ _ _ H) as L0. pose proof (Zv_len _ _ _ _ _ H3) as L3.
  destruct (lex_identifier_label F s3 _ name _ out H3 (name_ok_all _ Hn)) as (s4 & E4 & H4).
  { destruct k; discriminate. }
  { lens. lia. }
  pose proof (Zv_len _ _ _ _ _ H4) as L4.
  exists s4. eexists. exists k. split; [|split; [exact H4|lens; lia]].
  cbn [Nat.add]. eapply scan_call; [exact H| |rewrite E3; exact E4|exact H4|].
  - destruct Hn as (c0 & t & -> & _). destruct ws; discriminate.
  - destruct Hn as (c0 & t & -> & _). lens. lia.
Qed.

(** ".keyword name" : a data directive whose single item is an identifier *)
Lemma lscan_data_ident lx kw k1 name k2 :
  all_in kw_chars kw -> mem_str kw (lx_keywords lx) = true -> (1 <= k1)%nat ->
  name_ok name -> (forall r, opcode_test lx (name ++ spaces k2 ++ 10 :: r) = false) ->
  lscan lx (46 :: kw ++ spaces k1 ++ name ++ spaces k2) [(T_KEYWORD, kw); (T_IDENTIFIER, name)] 2.
Proof.
  intros Akw Kkw Hk1 Hn Hop F n s a ws r out H B HF.
  assert (H' : Zv s a [] (ws ++ (46 :: kw) ++ (spaces k1 ++ name ++ spaces k2 ++ 10 :: r)) out).
  { cbn [app] in *. rewrite <- !app_assoc in H. exact H. }
  cbn [Nat.add].
  destruct (scan_tok lx (S n) F s a ws T_KEYWORD kw (46 :: kw) _ out H' B (i_kw lx kw Akw Kkw)) as (s1 & E1 & H1 & L1).
  { cbn [follow_ok]. destruct k1; [lia|reflexivity]. }
  { exact HF. }
  rewrite E1.
  destruct (init_ident lx F s1 _ (spaces k1) name _ _ H1 (blanks_spaces _) Hn (Hop _) ltac:(lia)) as (s3 & E3 & H3).
  destruct (lex_identifier_plain F s3 _ name _ _ H3 (name_ok_all _ Hn)) as (s4 & E4 & H4).
  { destruct k2; reflexivity. }
  { pose proof (Zv_len _ _ _ _ _ H3) as L3. pose proof (Zv_len _ _ _ _ _ H1) as L1'. lens. lia. }
  pose proof (Zv_len _ _ _ _ _ H4) as L4. pose proof (Zv_len _ _ _ _ _ H1) as L1'.
  exists s4. eexists. exists k2. split; [|split; [exact H4|lens; lia]].
  eapply scan_call; [exact H1| |rewrite E3; exact E4|exact H4|].
  - destruct k1; [lia|discriminate].
  - destruct Hn as (c0 & t & -> & _). lens. lia.
Qed.

(** an operand-less instruction *)
Lemma lscan_naked lx mn ke :
  mn3_ok lx mn -> mem_str (map lower mn) (lx_naked lx) = true ->
  lscan lx (mn ++ spaces ke) [(T_OPCODE_NAKED, mn)] 1.
Proof.
  intros (c0 & c1 & c2 & Em & M0 & Mm) Hnk F n s a ws r out H B HF. rewrite <- !app_assoc in H.
  destruct (init_opcode lx F s a ws mn _ out H B) as (s3 & E3 & H3).
  { exists c0, c1, c2. split; [exact Em|]. split; [exact M0|]. split; [exact Mm|]. destruct ke; reflexivity. }
  { exact HF. }
  pose proof (Zv_len _ _ _ _ _ H) as L0. pose proof (Zv_len _ _ _ _ _ H3) as L3.
  destruct (lex_opcode_naked lx F s3 _ mn ke r _ H3 Hnk ltac:(lens; lia)) as (s4 & E4 & H4).
  pose proof (Zv_len _ _ _ _ _ H4) as L4.
  exists s4. eexists. exists ke. split; [|split; [exact H4|lens; lia]].
  cbn [Nat.add]. eapply scan_call; [exact H| |rewrite E3; exact E4|exact H4|].
  - subst mn. destruct ws; discriminate.
  - subst mn. lens. lia.
Qed.

(** an instruction line, any operand syntax (Proofs/InsnTextParse.v), without its newline *)
Definition insn_body (mn : str) (sz : option Z) (os : ospacing) (sh : shape) (e : sexpr) (i1 i2 : Z) : str :=
  mn ++ match sh with ShImplied => [] | _ => sfx_text sz ++ spaces (os_m os) end ++ operand_text sh os e i1 i2.

Lemma insn_line_body mn sz os sh e i1 i2 : insn_line mn sz os sh e i1 i2 = insn_body mn sz os sh e i1 i2 ++ [10].
Proof. unfold insn_line, insn_body. rewrite <- !app_assoc. reflexivity. Qed.

Lemma insn_body_gen mn sz os sh e i1 i2 r : sh <> ShImplied ->
  insn_body mn sz os sh e i1 i2 ++ 10 :: r
  = mn ++ sfx_text sz ++ spaces (os_m os) ++
    gen_text (sh_open sh) (sh_ko sh os) (os_e os) (sh_L sh e) (sh_c1 sh os i1) (sh_cl sh) (os_c os)
             (sh_c2 sh os i1 i2) (sh_ke sh os) r.
Proof.
  intros NI. unfold insn_body, gen_text, operand_text.
  destruct sh; try congruence;
    cbn [sh_open sh_ko sh_L sh_c1 sh_cl sh_c2 sh_ke open_text ixpart after_close close_text];
    rewrite ?text_of_join, ?join_snoc, ?toks_of_length; cbn [snd Nat.add spaces repeat_z app];
    repeat (rewrite <- ?app_assoc; cbn [app]); reflexivity.
Qed.

Lemma lscan_insn lx mn sz os sh e i1 i2 :
  lexable e -> mn3_ok lx mn -> suffix_ok lx mn sz os sh -> shape_ix_ok sh i1 i2 -> shape_head_ok sh e ->
  lscan lx (insn_body mn sz os sh e i1 i2) (stmt_tk mn sz sh e i1 i2) 1.
Proof.
  intros Le Hmn Hsz Hix Hhd.
  destruct (shape_eq_dec sh ShImplied) as [->|NI].
  - unfold insn_body, stmt_tk, operand_text. cbn [app]. apply lscan_naked; assumption.
  - intros F n s a ws r out H B HF.
    rewrite (insn_body_gen mn sz os sh e i1 i2 r NI) in H.
    rewrite (stmt_tk_gen mn sz os sh e i1 i2 NI).
    destruct Hmn as (c0 & c1 & c2 & Em & M0 & Mm).
    destruct (init_opcode lx F s a ws mn _ out H B) as (s3 & E3 & H3).
    { exists c0, c1, c2. split; [exact Em|]. split; [exact M0|]. split; [exact Mm|].
      destruct sz as [c|]; cbn [sfx_text app hd]; [reflexivity|].
      destruct sh; try congruence; cbn [suffix_ok] in Hsz; destruct Hsz as [Hk _];
        (destruct (os_m os); [lia|reflexivity]). }
    { exact HF. }
    pose proof (Zv_len _ _ _ _ _ H) as L0. pose proof (Zv_len _ _ _ _ _ H3) as L3.
    assert (Li3 : length (inp s3) = length (inp s)) by (unfold tk, str in *; lens; lia).
    destruct (lex_opcode_operand lx F s3 _ mn sz (os_m os) (sh_open sh) (sh_ko sh os) (os_e os) (sh_L sh e)
                (sh_c1 sh os i1) (sh_cl sh) (os_c os) (sh_c2 sh os i1 i2) (sh_ke sh os) r _ H3)
      as (s4 & a4 & k4 & E4 & H4 & La4 & L4).
    { destruct sh; try congruence; exact Hsz. }
    { pose proof (seq_toks e Le) as Sq.
      destruct sh; cbn [sh_L]; try (specialize (Sq [] I); rewrite app_nil_r in Sq; exact Sq);
        apply Sq; cbn [seq_ok]; exact (conj ok_rp (conj (fun _ => eq_refl) I)). }
    { assert (toks_of e <> []) by (destruct e; cbn [toks_of]; try discriminate;
                                     destruct (toks_of e1); discriminate).
      destruct sh; cbn [sh_L]; try assumption; destruct (toks_of e); discriminate. }
    { intros Ho. destruct sh; try discriminate Ho; cbn [sh_ko sh_L]; (split; [reflexivity|exact Hhd]) || congruence. }
    { destruct sh; cbn [sh_c1 ix_ok shape_ix_ok] in *; try exact I; try exact Hix; destruct Hix; assumption. }
    { destruct sh; cbn [sh_c2 ix_ok shape_ix_ok] in *; try exact I; try exact Hix; destruct Hix; assumption. }
    { destruct sh; try congruence; cbn [sh_cl sh_c1]; discriminate. }
    { destruct sh; try congruence; cbn [sh_cl sh_c1 sh_ke]; try discriminate; reflexivity. }
    { lia. }
    exists s4, a4, k4. split; [|split; [exact H4|lia]].
    cbn [Nat.add]. eapply scan_call; [exact H| |rewrite E3; exact E4|exact H4|].
    + subst mn. destruct ws; discriminate.
    + pose proof (Zv_len _ _ _ _ _ H3) as X. lens. lia.
Qed.
