(** C16 — the link from the scanner-level layout theorems to the output: token lists that agree in
    type and value (positions arbitrary) assemble to the same bytes at the same offsets, the same
    labels, and final resolver states with the same symbol tables; they fail alike otherwise.

    What is NOT true, and therefore not proved: that equality of the SIGNIFICANT token streams
    ([sig], i.e. [view_of]: comment tokens dropped) is enough.  The parser skips COMMENT tokens only
    at statement boundaries, and it has no end-of-line token: a comment line put between a statement
    and its continuation on the next line changes the parse ([comment_line_is_not_invisible] below;
    the real implementation agrees).  The link for comment-changing layouts is therefore stated under
    the hypothesis that the two token lists parse alike ([layout_link_from_parse]); it holds without
    that hypothesis when the comment tokens sit at the same places ([layout_link]), and for comment
    or blank lines in front of a text ([leading_lines_shift], LocationText.v). *)
From Coq Require Import ZArith List Lia Bool Arith.
From A816 Require Import Model.Assemble Proofs.BusProofs Proofs.ScannerSpec Proofs.ScannerProofs Proofs.ScannerShift
     Proofs.ScannerLayout Proofs.ParserProofs Proofs.LocationTextParse Proofs.LocationTextSim Proofs.LocationTextGen
     Proofs.LocationText Proofs.IncludeLoc.
Open Scope Z_scope.

(** ** Tokens equal up to their positions *)
Definition sameTV (t t' : token) : Prop := t_type t' = t_type t /\ t_value t' = t_value t.
Lemma sameTV_type t t' : sameTV t t' -> t_type t' = t_type t. Proof. intros H; apply H. Qed.
Lemma sameTV_value t t' : sameTV t t' -> t_value t' = t_value t. Proof. intros H; apply H. Qed.
Lemma sameTV_refl t : sameTV t t. Proof. split; reflexivity. Qed.
Lemma sameTV_refl_list l : Forall2 sameTV l l.
Proof. induction l; constructor; auto using sameTV_refl. Qed.
Lemma sameTV_shift k t : sameTV t (shift_tok k t). Proof. split; reflexivity. Qed.

(** types and values of ALL tokens (comments included), in order *)
Definition tvs (toks : list token) : list (ttype * str) := map (fun t => (t_type t, t_value t)) toks.

Lemma tvs_sameTV a : forall b, tvs a = tvs b -> Forall2 sameTV a b.
Proof.
  induction a as [|x a IH]; intros [|y b] H; cbn [tvs map] in H; try discriminate; constructor.
  - inversion H. split; congruence.
  - apply IH. inversion H. assumption.
Qed.

(** without comment tokens, [sig] is [tvs] *)
Lemma sig_tvs toks : Forall (fun t => t_type t <> T_COMMENT) toks -> sig toks = tvs toks.
Proof.
  unfold sig, tvs. induction 1 as [|t l Ht _ IH]; [reflexivity|]. cbn [filter map].
  assert (Hc : is_comment t = false) by (unfold is_comment; destruct (t_type t); try reflexivity; contradiction).
  rewrite Hc. cbn [negb map]. rewrite IH. reflexivity.
Qed.

(** ** Results equal up to positions *)
Notation srel := (rrel sameTV).

Definition result_same_up_to_positions (r r' : aresult) : Prop :=
  match r, r' with
  | AOk o fin, AOk o' fin' => o_blocks o = o_blocks o' /\ o_labels o = o_labels o' /\ srel fin fin'
  | AScanError f e, AScanError f' e' =>
      f = f' /\ se_msg e' = se_msg e /\ se_col e' = se_col e /\ se_quoted e' = se_quoted e
  | AParseError t, AParseError t' => oT sameTV t t'
  | AExc k s, AExc k' s' => k = k' /\ oT sameTV s s'
  | AFuel, AFuel => True
  | _, _ => False
  end.

(** related final states have the same symbol tables (every symbol and label value, scope by scope) *)
Lemma srel_symbols r r' : srel r r' ->
  map s_symbols (r_scopes r) = map s_symbols (r_scopes r') /\
  map s_labels (r_scopes r) = map s_labels (r_scopes r') /\
  map s_parent (r_scopes r) = map s_parent (r_scopes r') /\
  r_pc r = r_pc r' /\ r_reloc r = r_reloc r'.
Proof.
  intros H. pose proof (rr_scopes _ _ _ H) as Hs.
  assert (A : map s_symbols (r_scopes r) = map s_symbols (r_scopes r') /\
              map s_labels (r_scopes r) = map s_labels (r_scopes r') /\
              map s_parent (r_scopes r) = map s_parent (r_scopes r')).
  { induction Hs as [|a b l l' Hab _ IH]; [auto|]. destruct IH as (I1 & I2 & I3). cbn [map].
    rewrite I1, I2, I3, (sr_sym _ _ _ Hab), (sr_lab _ _ _ Hab), (sr_parent _ _ _ Hab). auto. }
  destruct A as (A1 & A2 & A3). repeat split; auto; apply H.
Qed.

(** ** From parses that agree to results that agree *)
Definition after_scan (t : live) (fs : srcfiles) (c : config) (toks : list token) : aresult :=
  match parse_program (parse_fuel (length toks)) include_depth (include_tokens t fs) toks with
  | POk prog => assemble_program (world_of t fs) c prog
  | PErr EParse tok => AParseError tok
  | PErr EScan _ =>
      match first_include_scan_error (lv_lex t) (sf_text fs) with
      | Some (path, e) => AScanError path e
      | None => AExc EScan None
      end
  | PErr k _ => AExc k None
  | PUnrep _ => AExc EOther None
  | PFuel => AFuel
  end.

Lemma assemble_source_ok t fs c f s toks lines :
  scan (lv_lex t) f s = ScanOk toks lines -> assemble_source t fs c f s = after_scan t fs c toks.
Proof. intros H. unfold assemble_source, after_scan. rewrite H. reflexivity. Qed.

Theorem layout_link_from_parse t fs c toks1 toks2 :
  prel sameTV (asrel sameTV)
    (parse_program (parse_fuel (length toks1)) include_depth (include_tokens t fs) toks1)
    (parse_program (parse_fuel (length toks2)) include_depth (include_tokens t fs) toks2) ->
  result_same_up_to_positions (after_scan t fs c toks1) (after_scan t fs c toks2).
Proof.
  intros HP. unfold after_scan.
  destruct (parse_program (parse_fuel (length toks1)) include_depth (include_tokens t fs) toks1) as [prog|kd tok|tok|],
           (parse_program (parse_fuel (length toks2)) include_depth (include_tokens t fs) toks2) as [prog'|kd' tok'|tok'|];
    cbn [prel] in HP; try contradiction.
  - pose proof (assemble_program_rel sameTV sameTV_type sameTV_value (world_of t fs) c prog prog' HP) as HA.
    pose proof (assemble_program_shape (world_of t fs) c prog) as HSh.
    destruct (assemble_program (world_of t fs) c prog) as [o fin|f e|tk|kd s|],
             (assemble_program (world_of t fs) c prog') as [o' fin'|f' e'|tk'|kd' s'|]; cbn [aresrel] in HA; try contradiction;
      cbn [result_same_up_to_positions].
    + destruct HA as [(A & B & _) C]. auto.
    + exact HA.
    + exact I.
  - destruct HP as [<- HT].
    destruct kd; cbv beta iota; cbn [result_same_up_to_positions oT]; try (split; [reflexivity|exact I]); try exact HT.
    destruct (first_include_scan_error (lv_lex t) (sf_text fs)) as [[path e]|]; cbn [result_same_up_to_positions oT];
      [repeat split; reflexivity|split; [reflexivity|exact I]].
  - cbn [result_same_up_to_positions oT]. split; [reflexivity|exact I].
  - exact I.
Qed.

(** ** Token lists that agree (comments at the same places) parse alike — includes included *)
Lemma inc_no_fuel' t fs name : include_tokens t fs name <> OutOfFuel.
Proof. apply (inc_no_fuel t fs). Qed.

Theorem layout_link_tokens t fs c cs toks1 toks2 :
  Forall (fun x => t_type x = T_COMMENT) cs -> Forall2 sameTV toks1 toks2 ->
  result_same_up_to_positions (after_scan t fs c toks1) (after_scan t fs c (cs ++ toks2)).
Proof.
  intros Hcs H. apply layout_link_from_parse.
  apply (parse_program_related_inc sameTV sameTV_type sameTV_value (sameTV_refl eof_token) (include_tokens t fs)
           (fun name toks _ => sameTV_refl_list toks) include_depth cs toks1 toks2 (inc_no_fuel' t fs) Hcs H).
Qed.

(** C16, the link: two texts whose scans agree in the types and values of all their tokens (whatever
    their positions: blank lines, indentation, spacing, trailing blanks, line breaks between tokens)
    assemble to the same output.  No restriction on [.include]. *)
Theorem layout_link t fs c f s1 s2 toks1 l1 toks2 l2 :
  scan (lv_lex t) f s1 = ScanOk toks1 l1 -> scan (lv_lex t) f s2 = ScanOk toks2 l2 ->
  tvs toks1 = tvs toks2 ->
  result_same_up_to_positions (assemble_source t fs c f s1) (assemble_source t fs c f s2).
Proof.
  intros S1 S2 H. rewrite (assemble_source_ok _ _ _ _ _ _ _ S1), (assemble_source_ok _ _ _ _ _ _ _ S2).
  apply (layout_link_tokens t fs c [] toks1 toks2 (Forall_nil _)). apply tvs_sameTV. exact H.
Qed.

(** the form with [sig] (the scanner theorems' [view_of]): when neither scan has a comment token *)
Corollary layout_link_sig t fs c f s1 s2 toks1 l1 toks2 l2 :
  scan (lv_lex t) f s1 = ScanOk toks1 l1 -> scan (lv_lex t) f s2 = ScanOk toks2 l2 ->
  Forall (fun x => t_type x <> T_COMMENT) toks1 -> Forall (fun x => t_type x <> T_COMMENT) toks2 ->
  sig toks1 = sig toks2 ->
  result_same_up_to_positions (assemble_source t fs c f s1) (assemble_source t fs c f s2).
Proof.
  intros S1 S2 N1 N2 H. apply (layout_link t fs c f s1 s2 toks1 l1 toks2 l2 S1 S2).
  rewrite <- (sig_tvs _ N1), <- (sig_tvs _ N2). exact H.
Qed.

(** ** The block form of the scanner theorems: [a ++ l1 ++ b] against [a ++ l2 ++ b] *)
Lemma tvs_app a b : tvs (a ++ b) = tvs a ++ tvs b.
Proof. unfold tvs. apply map_app. Qed.
Lemma tvs_shift k toks : tvs (map (shift_tok k) toks) = tvs toks.
Proof. unfold tvs. rewrite map_map. reflexivity. Qed.

Lemma result_same_scan_error f e k1 T1' L1 k2 T2' L2 :
  result_same_up_to_positions
    (match se_quoted (mk_scan_error (se_msg e) (se_line e + Z.of_nat k1) (se_col e) (se_quoted e) L1 T1') with
     | Some _ => AScanError f (mk_scan_error (se_msg e) (se_line e + Z.of_nat k1) (se_col e) (se_quoted e) L1 T1')
     | None => AExc EIndex None end)
    (match se_quoted (mk_scan_error (se_msg e) (se_line e + Z.of_nat k2) (se_col e) (se_quoted e) L2 T2') with
     | Some _ => AScanError f (mk_scan_error (se_msg e) (se_line e + Z.of_nat k2) (se_col e) (se_quoted e) L2 T2')
     | None => AExc EIndex None end).
Proof.
  cbn [se_quoted]. destruct (se_quoted e) eqn:Eq; cbn [result_same_up_to_positions se_msg se_col se_quoted oT]; auto.
Qed.

(** two blocks of whole lines with the same tokens, between [a] and [b] — whether [b] scans or not *)
Theorem layout_block_link t fs c f a l1 l2 b ta ea la t1 e1 ls1 t2 e2 ls2 :
  lexicon_ok (lv_lex t) = true ->
  ends_nl a -> scan (lv_lex t) f a = ScanOk (ta ++ [ea]) la ->
  ends_nl l1 -> scan (lv_lex t) f l1 = ScanOk (t1 ++ [e1]) ls1 ->
  ends_nl l2 -> scan (lv_lex t) f l2 = ScanOk (t2 ++ [e2]) ls2 ->
  tvs t1 = tvs t2 ->
  result_same_up_to_positions (assemble_source t fs c f (a ++ l1 ++ b)) (assemble_source t fs c f (a ++ l2 ++ b)).
Proof.
  intros Hlx Ha Sa H1 S1 H2 S2 Hs. unfold assemble_source.
  rewrite (scan_line_compositional _ f a (l1 ++ b) ta ea la Hlx Ha Sa).
  rewrite (scan_line_compositional _ f a (l2 ++ b) ta ea la Hlx Ha Sa).
  rewrite (scan_line_compositional _ f l1 b t1 e1 ls1 Hlx H1 S1).
  rewrite (scan_line_compositional _ f l2 b t2 e2 ls2 Hlx H2 S2).
  destruct (scan (lv_lex t) f b) as [tb lb|e| |]; cbn [shift_result].
  - fold (after_scan t fs c (ta ++ map (shift_tok (count_nl a)) (t1 ++ map (shift_tok (count_nl l1)) tb))).
    fold (after_scan t fs c (ta ++ map (shift_tok (count_nl a)) (t2 ++ map (shift_tok (count_nl l2)) tb))).
    apply (layout_link_tokens t fs c [] _ _ (Forall_nil _)). apply tvs_sameTV.
    rewrite !tvs_app, !tvs_shift, !tvs_app, !tvs_shift, Hs. reflexivity.
  - cbn [se_msg se_line se_col se_quoted se_lines se_toks].
    destruct (se_quoted e) eqn:Eq; cbn [result_same_up_to_positions se_msg se_col se_quoted oT]; auto.
  - cbn [result_same_up_to_positions oT]. auto.
  - exact I.
Qed.

(** a block of whole lines without any token (blank lines) inserted between [a] and [b] *)
Theorem tokenless_block_link t fs c f a blk b ta ea la eb lb :
  lexicon_ok (lv_lex t) = true ->
  ends_nl a -> scan (lv_lex t) f a = ScanOk (ta ++ [ea]) la ->
  ends_nl blk -> scan (lv_lex t) f blk = ScanOk ([] ++ [eb]) lb ->
  result_same_up_to_positions (assemble_source t fs c f (a ++ blk ++ b)) (assemble_source t fs c f (a ++ b)).
Proof.
  intros Hlx Ha Sa Hb Sb. unfold assemble_source.
  rewrite (scan_line_compositional _ f a (blk ++ b) ta ea la Hlx Ha Sa).
  rewrite (scan_line_compositional _ f a b ta ea la Hlx Ha Sa).
  rewrite (scan_line_compositional _ f blk b [] eb lb Hlx Hb Sb).
  destruct (scan (lv_lex t) f b) as [tb lb'|e| |]; cbn [shift_result app].
  - fold (after_scan t fs c (ta ++ map (shift_tok (count_nl a)) (map (shift_tok (count_nl blk)) tb))).
    fold (after_scan t fs c (ta ++ map (shift_tok (count_nl a)) tb)).
    apply (layout_link_tokens t fs c [] _ _ (Forall_nil _)). apply tvs_sameTV.
    rewrite !tvs_app, !tvs_shift. reflexivity.
  - cbn [se_msg se_line se_col se_quoted se_lines se_toks].
    destruct (se_quoted e) eqn:Eq; cbn [result_same_up_to_positions se_msg se_col se_quoted oT]; auto.
  - cbn [result_same_up_to_positions oT]. auto.
  - exact I.
Qed.

(** ** The scanner theorem families *)

(** blank lines (spaces, tabs, newlines) inserted between two lines *)
Corollary blank_lines_assemble t fs c f a w b ta ea la :
  lexicon_ok (lv_lex t) = true ->
  ends_nl a -> scan (lv_lex t) f a = ScanOk (ta ++ [ea]) la ->
  all_blank w -> ends_nl w ->
  result_same_up_to_positions (assemble_source t fs c f (a ++ w ++ b)) (assemble_source t fs c f (a ++ b)).
Proof.
  intros Hlx Ha Sa Hw Hn. destruct (scan_blank_block (lv_lex t) f w Hw) as (e & l & Sw).
  eapply tokenless_block_link; eauto.
Qed.

(** one line replaced by another with the same significant tokens and no comment token (trailing
    blanks, spacing inside the line): the per-line fact [sig t1 = sig t2] is what
    [trailing_blanks_sig] (ScannerTrailing2.v) and the per-line instances provide *)
Corollary line_replacement_assemble t fs c f a l1 l2 b ta ea la t1 e1 ls1 t2 e2 ls2 :
  lexicon_ok (lv_lex t) = true ->
  ends_nl a -> scan (lv_lex t) f a = ScanOk (ta ++ [ea]) la ->
  ends_nl l1 -> scan (lv_lex t) f l1 = ScanOk (t1 ++ [e1]) ls1 ->
  ends_nl l2 -> scan (lv_lex t) f l2 = ScanOk (t2 ++ [e2]) ls2 ->
  Forall (fun x => t_type x <> T_COMMENT) t1 -> Forall (fun x => t_type x <> T_COMMENT) t2 ->
  sig t1 = sig t2 ->
  result_same_up_to_positions (assemble_source t fs c f (a ++ l1 ++ b)) (assemble_source t fs c f (a ++ l2 ++ b)).
Proof.
  intros Hlx Ha Sa H1 S1 H2 S2 N1 N2 Hs. eapply layout_block_link; eauto.
  rewrite <- (sig_tvs _ N1), <- (sig_tvs _ N2). exact Hs.
Qed.

(** comment lines / block comments (anything that scans to COMMENT tokens only) in FRONT of a text *)
Corollary comment_block_at_top_assemble t fs c f blk b tb eb lb :
  lexicon_ok (lv_lex t) = true ->
  ends_nl blk -> scan (lv_lex t) f blk = ScanOk (tb ++ [eb]) lb ->
  Forall (fun x => t_type x = T_COMMENT) tb ->
  result_same_up_to_positions (assemble_source t fs c f b) (assemble_source t fs c f (blk ++ b)).
Proof.
  intros Hlx Hb Sb Hc. unfold assemble_source.
  rewrite (scan_line_compositional _ f blk b tb eb lb Hlx Hb Sb).
  destruct (scan (lv_lex t) f b) as [toks lb'|e| |]; cbn [shift_result].
  - fold (after_scan t fs c toks). fold (after_scan t fs c (tb ++ map (shift_tok (count_nl blk)) toks)).
    apply (layout_link_tokens t fs c tb toks _ Hc). apply tvs_sameTV. rewrite tvs_shift. reflexivity.
  - cbn [se_msg se_line se_col se_quoted se_lines se_toks].
    destruct (se_quoted e) eqn:Eq; cbn [result_same_up_to_positions se_msg se_col se_quoted oT]; auto.
  - cbn [result_same_up_to_positions oT]. auto.
  - exact I.
Qed.

(** comment lines BETWEEN two lines: only under the hypothesis that the two token lists parse alike
    (which fails when the line after the comment continues the statement before it) *)
Theorem comment_block_between_partial t fs c f a blk b ta ea la tb eb lb toks lines :
  lexicon_ok (lv_lex t) = true ->
  ends_nl a -> scan (lv_lex t) f a = ScanOk (ta ++ [ea]) la ->
  ends_nl blk -> scan (lv_lex t) f blk = ScanOk (tb ++ [eb]) lb ->
  scan (lv_lex t) f b = ScanOk toks lines ->
  (let with_c := ta ++ map (shift_tok (count_nl a)) (tb ++ map (shift_tok (count_nl blk)) toks) in
   let without := ta ++ map (shift_tok (count_nl a)) toks in
   prel sameTV (asrel sameTV)
     (parse_program (parse_fuel (length with_c)) include_depth (include_tokens t fs) with_c)
     (parse_program (parse_fuel (length without)) include_depth (include_tokens t fs) without)) ->
  result_same_up_to_positions (assemble_source t fs c f (a ++ blk ++ b)) (assemble_source t fs c f (a ++ b)).
Proof.
  intros Hlx Ha Sa Hb Sb Sr HP. unfold assemble_source.
  rewrite (scan_line_compositional _ f a (blk ++ b) ta ea la Hlx Ha Sa).
  rewrite (scan_line_compositional _ f a b ta ea la Hlx Ha Sa).
  rewrite (scan_line_compositional _ f blk b tb eb lb Hlx Hb Sb). rewrite Sr. cbn [shift_result].
  apply layout_link_from_parse. exact HP.
Qed.

(** ** Examples *)
Module LayoutExamples.
  Definition t0 : live :=
    {| lv_low := lorom; lv_high := hirom; lv_busmap := [(0, true); (1, true); (2, false)];
       lv_optable := [([108;100;97], [(M_immediate, Single (EmPlain [Some 169; Some 169; None]))])];
       lv_prec := [([43], 4)];
       lv_lex := mk_lexicon [[108;100;97]] [] [[100;98]] |}.
  Definition cfg0 : config := {| cf_rom := None; cf_defines := [] |}.
  Definition fname : str := [109].
  Definition view (r : aresult) : option (list wblock * list (str * Z)) :=
    match r with AOk o _ => Some (o_blocks o, o_labels o) | _ => None end.
  Definition is_parse_error (r : aresult) : bool := match r with AParseError _ => true | _ => false end.

  (** ["lda #1\n+2\n"], the same with blank lines and indentation, and with a comment line inserted *)
  Definition s_plain : str := [108;100;97;32;35;49;10] ++ [43;50;10].
  Definition s_blank : str := [108;100;97;32;35;49;10] ++ [10;32;10] ++ [32;32;43;50;10].
  Definition s_comment : str := [108;100;97;32;35;49;10] ++ [59;32;99;10] ++ [43;50;10].

  Example plain_out : view (assemble_source t0 no_srcfiles cfg0 fname s_plain) = Some ([([169; 3], 0)], []).
  Proof. vm_compute. reflexivity. Qed.
  Example blank_out : view (assemble_source t0 no_srcfiles cfg0 fname s_blank) = Some ([([169; 3], 0)], []).
  Proof. vm_compute. reflexivity. Qed.

  (** the link applies to the blank-line / indentation variant: same tokens up to positions *)
  Definition toks_of (r : scan_result) : list token := match r with ScanOk toks _ => toks | _ => [] end.
  Definition lines_of (r : scan_result) : list str := match r with ScanOk _ l => l | _ => [] end.
  Definition k1 := Eval vm_compute in toks_of (scan (lv_lex t0) fname s_plain).
  Definition l1 := Eval vm_compute in lines_of (scan (lv_lex t0) fname s_plain).
  Definition k2 := Eval vm_compute in toks_of (scan (lv_lex t0) fname s_blank).
  Definition l2 := Eval vm_compute in lines_of (scan (lv_lex t0) fname s_blank).
  Example scan_plain : scan (lv_lex t0) fname s_plain = ScanOk k1 l1. Proof. vm_compute. reflexivity. Qed.
  Example scan_blank : scan (lv_lex t0) fname s_blank = ScanOk k2 l2. Proof. vm_compute. reflexivity. Qed.
  Example same_tokens : tvs k1 = tvs k2. Proof. reflexivity. Qed.
  Example blank_by_theorem :
    result_same_up_to_positions (assemble_source t0 no_srcfiles cfg0 fname s_plain)
                                (assemble_source t0 no_srcfiles cfg0 fname s_blank).
  Proof. exact (layout_link t0 no_srcfiles cfg0 fname s_plain s_blank k1 l1 k2 l2 scan_plain scan_blank same_tokens). Qed.

  (** A comment line is NOT invisible: the significant token streams are equal ([view_of]), yet the
      first text assembles ([lda #1+2]) and the second is a syntax error (the parser drops COMMENT
      tokens only at statement boundaries, and "+2" is no statement).  The implementation agrees. *)
  Example comment_line_is_not_invisible :
    view_of (scan (lv_lex t0) fname s_plain) = view_of (scan (lv_lex t0) fname s_comment) /\
    view (assemble_source t0 no_srcfiles cfg0 fname s_plain) = Some ([([169; 3], 0)], []) /\
    is_parse_error (assemble_source t0 no_srcfiles cfg0 fname s_comment) = true.
  Proof. repeat split; vm_compute; reflexivity. Qed.
End LayoutExamples.

Print Assumptions layout_link.
Print Assumptions layout_link_sig.
Print Assumptions layout_link_from_parse.
Print Assumptions layout_block_link.
Print Assumptions blank_lines_assemble.
Print Assumptions line_replacement_assemble.
Print Assumptions comment_block_at_top_assemble.
Print Assumptions comment_block_between_partial.
