(** C16 — a STATIC condition under which comment tokens between two statements are invisible to the
    output.  Comment tokens [cs] inserted in a token list in front of a token [u] whose type is one of
      T_OPCODE, T_OPCODE_NAKED, T_KEYWORD, T_LABEL, T_STAR_EQ, T_AT_EQ, T_DOUBLE_LBRACE, T_RBRACE, T_EOF
    (and whose value is not "else") do not change the parse, wherever they are inserted (top level or
    inside blocks): no parser function accepts such a token as the continuation of an unfinished
    statement, so a run that meets the first comment token where it is not skipping fails or stops
    exactly as the run without comments does on [u]; and the statement loops skip the comments.

    The proof is a relational pass over the parser, between the run on [ts = ta ++ tb] and the run on
    [ts' = ta ++ cs ++ tb]: positions correspond by [corr] (same index up to the insertion point, [m]
    further behind it); the two runs may use different amounts of fuel (skipping costs fuel), so the
    result relation ignores [PFuel] on either side and fuel irrelevance is applied at the end. *)
From Coq Require Import Arith Lia List Bool ZArith.
From A816 Require Import Model.Parser Model.Assemble Proofs.ParserProofs Proofs.ParserFuelProofs
     Proofs.NonInterference Proofs.CaseTextSim.
Open Scope nat_scope.

(** ** Token types that start a statement (or end a block / the text) and continue nothing *)
Definition stype (ty : ttype) : bool :=
  match ty with
  | T_OPCODE | T_OPCODE_NAKED | T_KEYWORD | T_LABEL | T_STAR_EQ | T_AT_EQ | T_DOUBLE_LBRACE | T_RBRACE | T_EOF => true
  | _ => false
  end.
Definition s_ok (t : token) : Prop := stype (t_type t) = true /\ str_eqb (t_value t) k_else = false.
(** types a statement-internal test may ask about without telling [u] from a comment *)
Definition testable (ty : ttype) : bool :=
  negb (stype ty) && match ty with T_COMMENT => false | _ => true end.

(** tokens stored in an AST: the same, or — in the positions where the parser stores the token AFTER a
    statement or block ([.incbin]/[.table], the block tokens of [.if]/[.for]) — [u] against a comment *)
Definition Td (t t' : token) : Prop := t' = t \/ (s_ok t /\ t_type t' = T_COMMENT).
Lemma Td_refl t : Td t t. Proof. left. reflexivity. Qed.

Notation darel := (garel Td (@eq expr) (@eq str)).
Notation dmrel := (gmrel Td (@eq expr) (@eq str)).
Definition dasrel : list ast -> list ast -> Prop := Forall2 darel.
Definition dmsrel : margs -> margs -> Prop := Forall2 dmrel.

(** results: fuel exhaustion on either side is ignored; otherwise same outcome, same error class *)
Definition prelF {A} (RA : A -> A -> Prop) (r r' : pres A) : Prop :=
  r = PFuel \/ r' = PFuel \/
  match r, r' with
  | POk a, POk a' => RA a a'
  | PErr k _, PErr k' _ => k = k'
  | PUnrep _, PUnrep _ => True
  | _, _ => False
  end.

Lemma prelF_fuel_l {A} (RA : A -> A -> Prop) r' : prelF RA PFuel r'. Proof. left. reflexivity. Qed.
Lemma prelF_fuel_r {A} (RA : A -> A -> Prop) r : prelF RA r PFuel. Proof. right. left. reflexivity. Qed.
Lemma prelF_ok {A} (RA : A -> A -> Prop) a a' : RA a a' -> prelF RA (POk a) (POk a').
Proof. intros H. right. right. exact H. Qed.
Lemma prelF_err {A} (RA : A -> A -> Prop) k t t' : prelF RA (PErr k t) (PErr k t').
Proof. right. right. reflexivity. Qed.
Lemma prelF_unrep {A} (RA : A -> A -> Prop) t t' : prelF RA (PUnrep t) (PUnrep t').
Proof. right. right. exact I. Qed.

Lemma prelF_bind {A B} (RA : A -> A -> Prop) (RB : B -> B -> Prop) r r' k k' :
  prelF RA r r' -> (forall a a', RA a a' -> prelF RB (k a) (k' a')) -> prelF RB (pbind r k) (pbind r' k').
Proof.
  intros [->|[->|H]] Hk; [apply prelF_fuel_l| |].
  - cbn [pbind]. apply prelF_fuel_r.
  - destruct r, r'; cbn [pbind]; try contradiction.
    + apply Hk. exact H.
    + subst. apply prelF_err.
    + apply prelF_unrep.
Qed.

Section Ins.
  Variables ts ts' : list token.
  Variables n m : nat.
  Hypothesis Hm : 0 < m.
  Hypothesis Hlo : forall q, q < n -> cur ts' q = cur ts q.
  Hypothesis Hhi : forall q, n <= q -> cur ts' (m + q) = cur ts q.
  Hypothesis Hcs : forall j, j < m -> t_type (cur ts' (n + j)) = T_COMMENT /\ str_eqb (t_value (cur ts' (n + j))) k_else = false.
  Hypothesis Hu : s_ok (cur ts n).

  (** positions that correspond; [al]: with the same token under them *)
  Definition corr (p p' : nat) : Prop := (p' = p /\ p <= n) \/ (n <= p /\ p' = m + p).
  Definition al (p p' : nat) : Prop := (p' = p /\ p < n) \/ (n <= p /\ p' = m + p).

  Lemma al_corr p p' : al p p' -> corr p p'.
  Proof. intros [[-> H]|H]; [left; split; [reflexivity|lia]|right; exact H]. Qed.
  Lemma al_cur p p' : al p p' -> cur ts' p' = cur ts p.
  Proof. intros [[-> H]|[H ->]]; [apply Hlo; exact H|apply Hhi; exact H]. Qed.
  Lemma al_S p p' : al p p' -> corr (S p) (S p').
  Proof. intros [[-> H]|[H ->]]; [left; split; [reflexivity|lia]|right; split; [lia|lia]]. Qed.
  Lemma corr_cases p p' : corr p p' -> al p p' \/ (p = n /\ p' = n).
  Proof.
    intros [[-> H]|H]; [|left; right; exact H].
    destruct (Nat.eq_dec p n) as [->|Hne]; [right; auto|left; left; split; [reflexivity|lia]].
  Qed.
  Lemma comment_n : t_type (cur ts' n) = T_COMMENT /\ str_eqb (t_value (cur ts' n)) k_else = false.
  Proof. pose proof (Hcs 0 Hm) as H. rewrite Nat.add_0_r in H. exact H. Qed.

  Lemma is_ty_type t ty : is_ty t ty = true -> t_type t = ty.
  Proof. unfold is_ty. destruct (t_type t), ty; cbv; congruence. Qed.

  Lemma u_untestable ty : testable ty = true -> is_ty (cur ts n) ty = false.
  Proof.
    intros Ht. destruct (is_ty (cur ts n) ty) eqn:E; [|reflexivity].
    apply is_ty_type in E. destruct Hu as [Hs _]. rewrite E in Hs. unfold testable in Ht. rewrite Hs in Ht. discriminate.
  Qed.
  Lemma c_untestable ty : testable ty = true -> is_ty (cur ts' n) ty = false.
  Proof.
    intros Ht. destruct (is_ty (cur ts' n) ty) eqn:E; [|reflexivity].
    apply is_ty_type in E. destruct comment_n as [Hc _]. rewrite Hc in E. subst ty. discriminate.
  Qed.

  Lemma test_c p p' ty : corr p p' -> testable ty = true -> is_ty (cur ts' p') ty = is_ty (cur ts p) ty.
  Proof.
    intros C Ht. destruct (corr_cases _ _ C) as [A|[-> ->]]; [rewrite (al_cur _ _ A); reflexivity|].
    rewrite (u_untestable ty Ht), (c_untestable ty Ht). reflexivity.
  Qed.
  Lemma take_c p p' ty : corr p p' -> is_ty (cur ts p) ty = true -> testable ty = true -> al p p'.
  Proof.
    intros C H Ht. destruct (corr_cases _ _ C) as [A|[-> ->]]; [exact A|].
    rewrite (u_untestable ty Ht) in H. discriminate.
  Qed.
  Lemma else_c p p' : corr p p' -> str_eqb (t_value (cur ts' p')) k_else = str_eqb (t_value (cur ts p)) k_else.
  Proof.
    intros C. destruct (corr_cases _ _ C) as [A|[-> ->]]; [rewrite (al_cur _ _ A); reflexivity|].
    destruct comment_n as [_ Hc]. destruct Hu as [_ Hv]. rewrite Hc, Hv. reflexivity.
  Qed.
  Lemma Td_c p p' : corr p p' -> Td (cur ts p) (cur ts' p').
  Proof.
    intros C. destruct (corr_cases _ _ C) as [A|[-> ->]]; [left; apply (al_cur _ _ A)|].
    right. split; [exact Hu|apply comment_n].
  Qed.

  Definition at_c {A} (RA : A -> A -> Prop) (x x' : A * nat) : Prop := RA (fst x) (fst x') /\ corr (snd x) (snd x').

  Lemma prelF_expect {A} (RA : A -> A -> Prop) p p' ty k k' :
    corr p p' -> testable ty = true ->
    (is_ty (cur ts p) ty = true -> al p p' -> prelF RA k k') ->
    prelF RA (expect (cur ts p) ty k) (expect (cur ts' p') ty k').
  Proof.
    intros C Ht Hk. unfold expect. rewrite (test_c _ _ ty C Ht).
    destruct (is_ty (cur ts p) ty) eqn:E; [apply Hk; [reflexivity|apply (take_c _ _ ty C E Ht)]|apply prelF_err].
  Qed.

  Lemma prelF_expect_same {A} (RA : A -> A -> Prop) t ty k k' :
    (is_ty t ty = true -> prelF RA k k') -> prelF RA (expect t ty k) (expect t ty k').
  Proof. intros Hk. unfold expect. destruct (is_ty t ty); [apply Hk; reflexivity|apply prelF_err]. Qed.

  Lemma peek_cur (l : list token) q : peek l q = cur l (S q).
  Proof. reflexivity. Qed.

  (** bring what is known about corresponding positions into the goal *)
  Ltac grow :=
    repeat match goal with
    | C : corr ?p ?p', H : is_ty (cur ts ?p) ?ty = true |- _ =>
        lazymatch goal with
        | _ : al p p' |- _ => fail
        | _ => let G := fresh "G" in pose proof (take_c p p' ty C H eq_refl) as G
        end
    | A : al ?p ?p' |- _ =>
        lazymatch goal with
        | _ : corr (S p) (S p') |- _ => fail
        | _ => let G := fresh "G" in pose proof (al_S p p' A) as G
        end
    end.
  Ltac norm :=
    cbv beta iota zeta; rewrite ?peek_cur; cbn [backup]; grow;
    repeat match goal with
    | A : al ?p ?p' |- context [cur ts' ?p'] => rewrite (al_cur p p' A)
    end;
    repeat match goal with
    | C : corr ?p ?p' |- context [is_ty (cur ts' ?p') ?ty] => rewrite (test_c p p' ty C eq_refl)
    end;
    cbv beta iota zeta.

  Ltac pair_in H :=
    match type of H with
    | at_c _ ?x ?x' => destruct x as [? ?], x' as [? ?]; destruct H as [? H]; cbn [fst snd] in *; subst
    end.
  Ltac okleaf := apply prelF_ok; unfold at_c; cbn [fst snd]; split; [|eauto using al_corr]; try reflexivity.

  Lemma pexpr_i : forall f' f pos pos', corr pos pos' -> prelF (at_c eq) (pexpr ts f pos) (pexpr ts' f' pos').
  Proof.
    induction f' as [|f' IH]; intros f pos pos' C; [apply prelF_fuel_r|]. destruct f as [|f]; [apply prelF_fuel_l|].
    rewrite !pexpr_S. norm.
    eapply prelF_bind with (RA := at_c eq).
    - destruct (is_ty (cur ts pos) T_LPAREN) eqn:H1.
      + norm. eapply prelF_bind; [apply IH; eassumption|]. intros x x' Hx. pair_in Hx. norm.
        apply prelF_expect; [assumption|reflexivity|]. intros H2 A2. norm. okleaf.
      + destruct (is_ty (cur ts pos) T_NUMBER) eqn:H2; [norm; okleaf|].
        destruct (is_ty (cur ts pos) T_BOOLEAN) eqn:H3; [norm; okleaf|].
        destruct (is_ty (cur ts pos) T_IDENTIFIER) eqn:H4; [norm; okleaf|]. cbn [orb].
        destruct (is_ty (cur ts pos) T_OPERATOR) eqn:H5; cbn [andb]; [|apply prelF_err]. norm.
        destruct (str_eqb (t_value (cur ts pos)) k_minus || str_eqb (t_value (cur ts pos)) k_tilde); [|apply prelF_err].
        eapply prelF_bind; [apply IH; eassumption|]. intros x x' Hx. pair_in Hx. okleaf.
    - intros x x' Hx. pair_in Hx.
      match goal with |- context [match ?l with [] => _ | _ :: _ => _ end] => destruct l as [|e0 l0] end; [okleaf|].
      norm. match goal with |- context [is_ty (cur ts ?p) T_OPERATOR] => destruct (is_ty (cur ts p) T_OPERATOR) eqn:H6 end.
      + norm. eapply prelF_bind; [apply IH; eassumption|]. intros y y' Hy. pair_in Hy. okleaf.
      + okleaf.
  Qed.

  Lemma pexpression_i f f' pos pos' : corr pos pos' -> prelF (at_c eq) (pexpression ts f pos) (pexpression ts' f' pos').
  Proof.
    intros C. unfold pexpression. eapply prelF_bind; [apply pexpr_i; exact C|]. intros x x' Hx. pair_in Hx.
    match goal with |- context [match ?l with [] => _ | _ :: _ => _ end] => destruct l end; [apply prelF_err|okleaf].
  Qed.

  Lemma pmacro_args_loop_i : forall f' f pos pos' acc, corr pos pos' ->
    prelF (at_c eq) (pmacro_args_loop ts f pos acc) (pmacro_args_loop ts' f' pos' acc).
  Proof.
    induction f' as [|f' IH]; intros f pos pos' acc C; [apply prelF_fuel_r|]. destruct f as [|f]; [apply prelF_fuel_l|].
    cbn [pmacro_args_loop]. norm.
    destruct (is_ty (cur ts pos) T_RPAREN) eqn:H1.
    - norm. rewrite orb_true_r. cbn [orb]. okleaf.
    - destruct (is_ty (cur ts pos) T_COMMA) eqn:H2.
      + norm. cbn [orb]. apply IH. assumption.
      + cbn [orb]. destruct (is_ty (cur ts pos) T_IDENTIFIER) eqn:H3; [|apply prelF_err].
        norm. apply prelF_expect_same. intros _. apply IH. assumption.
  Qed.

  Lemma pmacro_args_i f f' pos pos' : corr pos pos' -> prelF (at_c eq) (pmacro_args ts f pos) (pmacro_args ts' f' pos').
  Proof.
    intros C. unfold pmacro_args. norm.
    destruct (is_ty (cur ts pos) T_RPAREN) eqn:H1; cbn [negb].
    - norm. okleaf.
    - apply prelF_expect; [assumption|reflexivity|]. intros H2 A. norm. apply pmacro_args_loop_i. assumption.
  Qed.

  Lemma pmap_loop_i : forall f' f pos pos' args ps, corr pos pos' ->
    prelF (at_c eq) (pmap_loop ts f pos args ps) (pmap_loop ts' f' pos' args ps).
  Proof.
    induction f' as [|f' IH]; intros f pos pos' args ps C; [apply prelF_fuel_r|]. destruct f as [|f]; [apply prelF_fuel_l|].
    cbn [pmap_loop]. norm.
    destruct (is_ty (cur ts pos) T_IDENTIFIER) eqn:H1.
    - norm. apply prelF_expect_same. intros _.
      destruct (mapkey_of (t_value (cur ts pos))) as [key|]; [|apply prelF_err].
      apply prelF_expect; [assumption|reflexivity|]. intros H2 A2. norm.
      apply prelF_expect; [assumption|reflexivity|]. intros H3 A3. norm.
      unfold lit_eval.
      destruct (is_ty (cur ts (S (S (S pos)))) T_COMMA) eqn:H4.
      + norm. apply prelF_expect; [assumption|reflexivity|]. intros H5 A5. norm.
        destruct (py_int_literal (t_value (cur ts (S (S pos))))) as [v1|]; [|apply prelF_err].
        destruct (py_int_literal (t_value (cur ts (S (S (S (S pos))))))) as [v2|]; [|apply prelF_err].
        destruct (map_assign args ps key (cur ts pos) (v1, Some v2)) as [a1 p1]. apply IH. assumption.
      + destruct (py_int_literal (t_value (cur ts (S (S pos))))) as [v1|]; [|apply prelF_err].
        destruct (map_assign args ps key (cur ts pos) (v1, None)) as [a1 p1]. apply IH. assumption.
    - destruct ps as [[t1|] [t2|]]; try apply prelF_unrep. okleaf.
  Qed.

  Lemma pmap_i f f' pos pos' : corr pos pos' -> prelF (at_c darel) (pmap ts f pos) (pmap ts' f' pos').
  Proof.
    intros C. unfold pmap. norm. apply prelF_expect; [assumption|reflexivity|]. intros H1 A. norm.
    eapply prelF_bind; [apply pmap_loop_i; apply (al_corr _ _ A)|]. intros x x' Hx. pair_in Hx.
    apply prelF_ok. split; cbn [fst snd]; [constructor; apply Td_refl|assumption].
  Qed.

  (** loops that skip comments: the right run may be anywhere inside the inserted comments *)
  Definition lcorr (p p' : nat) : Prop := al p p' \/ (p = n /\ exists j, j < m /\ p' = n + j).
  Lemma corr_lcorr p p' : corr p p' -> lcorr p p'.
  Proof.
    intros C. destruct (corr_cases _ _ C) as [A|[-> ->]]; [left; exact A|].
    right. split; [reflexivity|]. exists 0. split; [exact Hm|lia].
  Qed.
  Lemma lcorr_step j : j < m -> lcorr n (S (n + j)).
  Proof.
    intros Hj. destruct (Nat.eq_dec (S j) m) as [E|Hne].
    - left. right. split; [lia|lia].
    - right. split; [reflexivity|]. exists (S j). split; [lia|lia].
  Qed.

  Definition at_al {A} (RA : A -> A -> Prop) (x x' : A * nat) : Prop := RA (fst x) (fst x') /\ al (snd x) (snd x').

  Lemma u_not_comment : is_ty (cur ts n) T_COMMENT = false.
  Proof.
    destruct (is_ty (cur ts n) T_COMMENT) eqn:E; [|reflexivity]. apply is_ty_type in E.
    destruct Hu as [Hs _]. rewrite E in Hs. discriminate.
  Qed.

  Lemma pstruct_loop_i : forall f' f pos pos' fields, lcorr pos pos' ->
    prelF (at_al eq) (pstruct_loop ts f pos fields) (pstruct_loop ts' f' pos' fields).
  Proof.
    induction f' as [|f' IH]; intros f pos pos' fields L; [apply prelF_fuel_r|]. destruct f as [|f]; [apply prelF_fuel_l|].
    destruct L as [A|(-> & j & Hj & ->)].
    - cbn [pstruct_loop]. norm.
      destruct (is_ty (cur ts pos) T_EOF); [apply prelF_ok; split; cbn [fst snd]; auto|].
      destruct (is_ty (cur ts pos) T_COMMENT); [apply IH; apply corr_lcorr; assumption|].
      destruct (is_ty (cur ts pos) T_RBRACE); [apply prelF_ok; split; cbn [fst snd]; auto|].
      apply prelF_expect_same. intros H1.
      norm. apply prelF_expect; [assumption|reflexivity|]. intros H2 A2. norm.
      apply IH. apply corr_lcorr. assumption.
    - (* the right run skips a comment; the left run waits *)
      destruct (Hcs j Hj) as [Hc _].
      assert (E : pstruct_loop ts' (S f') (n + j) fields = pstruct_loop ts' f' (S (n + j)) fields).
      { cbn [pstruct_loop]. unfold is_ty. rewrite Hc. reflexivity. }
      rewrite E. apply IH. apply lcorr_step. exact Hj.
  Qed.

  Lemma pstruct_i f f' pos pos' : corr pos pos' -> prelF (at_c darel) (pstruct ts f pos) (pstruct ts' f' pos').
  Proof.
    intros C. unfold pstruct. norm. apply prelF_expect; [assumption|reflexivity|]. intros H1 A1. norm.
    apply prelF_expect; [assumption|reflexivity|]. intros H2 A2. norm.
    eapply prelF_bind; [apply pstruct_loop_i; apply corr_lcorr; assumption|].
    intros [fl q] [fl' q'] [E A]. cbn [fst snd] in *. subst fl'. norm.
    unfold expect. destruct (is_ty (cur ts q) T_RBRACE); [|apply prelF_err].
    apply prelF_ok. split; cbn [fst snd]; [constructor; apply Td_refl|assumption].
  Qed.

  Lemma pquoted_i pos pos' : corr pos pos' -> prelF (at_c eq) (pquoted ts pos) (pquoted ts' pos').
  Proof.
    intros C. unfold pquoted. norm. apply prelF_expect; [assumption|reflexivity|]. intros H1 A1. norm. okleaf.
  Qed.

  Ltac astleaf := apply prelF_ok; unfold at_c; cbn [fst snd]; split; [constructor; eauto using Td_refl, Td_c|eauto using al_corr].

  Lemma pinclude_ips_i f f' pos pos' : corr pos pos' -> prelF (at_c darel) (pinclude_ips ts f pos) (pinclude_ips ts' f' pos').
  Proof.
    intros C. unfold pinclude_ips, pquoted. norm. unfold expect at 1 3. rewrite (test_c _ _ T_QUOTED_STRING C eq_refl).
    destruct (is_ty (cur ts pos) T_QUOTED_STRING) eqn:H1; cbn [pbind]; [|apply prelF_err]. norm.
    apply prelF_expect; [assumption|reflexivity|]. intros H2 A2. norm.
    eapply prelF_bind; [apply pexpression_i; eassumption|]. intros y y' Hy. pair_in Hy. astleaf.
  Qed.

  Lemma pcode_lookup_i pos pos' : corr pos pos' -> prelF (at_c darel) (pcode_lookup ts pos) (pcode_lookup ts' pos').
  Proof.
    intros C. unfold pcode_lookup. norm. apply prelF_expect; [assumption|reflexivity|]. intros H1 A1. norm.
    apply prelF_expect; [assumption|reflexivity|]. intros H2 A2. norm. astleaf.
  Qed.
  Lemma plabel_i pos pos' : al pos pos' -> prelF (at_c darel) (plabel ts (S pos)) (plabel ts' (S pos')).
  Proof. intros A. unfold plabel. norm. astleaf. Qed.
  Lemma psymbol_i f f' pos pos' : al pos pos' -> prelF (at_c darel) (psymbol ts f pos) (psymbol ts' f' pos').
  Proof.
    intros A. unfold psymbol. norm.
    destruct (is_ty (cur ts (S pos)) T_EQUAL) eqn:H1.
    - cbn [orb]. norm. eapply prelF_bind; [apply pexpression_i; eassumption|]. intros x x' Hx. pair_in Hx. astleaf.
    - cbn [orb]. destruct (is_ty (cur ts (S pos)) T_ASSIGN) eqn:H2; [|apply prelF_err].
      norm. eapply prelF_bind; [apply pexpression_i; eassumption|]. intros x x' Hx. pair_in Hx. astleaf.
  Qed.
  Lemma pstar_eq_i f f' pos pos' : corr pos pos' -> prelF (at_c darel) (pstar_eq ts f pos) (pstar_eq ts' f' pos').
  Proof.
    intros C. unfold pstar_eq. norm. eapply prelF_bind; [apply pexpression_i; eassumption|]. intros x x' Hx. pair_in Hx. astleaf.
  Qed.
  Lemma pat_eq_i f f' pos pos' : corr pos pos' -> prelF (at_c darel) (pat_eq ts f pos) (pat_eq ts' f' pos').
  Proof.
    intros C. unfold pat_eq. norm. eapply prelF_bind; [apply pexpression_i; eassumption|]. intros x x' Hx. pair_in Hx. astleaf.
  Qed.

  (** after "#": an expression must follow; at the insertion point both runs fail *)
  Lemma sharp_tail_i f f' p p' : corr p p' ->
    prelF (at_c eq)
      (if is_ty (cur ts p) T_EOF then PErr EParse (Some (cur ts p))
       else dop r <- pexpression ts f p; POk ((M_immediate, @None str, Some (fst r)), snd r))
      (if is_ty (cur ts' p') T_EOF then PErr EParse (Some (cur ts' p'))
       else dop r <- pexpression ts' f' p'; POk ((M_immediate, @None str, Some (fst r)), snd r)).
  Proof.
    intros C. destruct (corr_cases _ _ C) as [A|[-> ->]].
    - rewrite (al_cur _ _ A). destruct (is_ty (cur ts p) T_EOF); [apply prelF_err|].
      eapply prelF_bind; [apply pexpression_i; exact C|]. intros x x' Hx. pair_in Hx. okleaf.
    - assert (HL : forall g, pexpression ts g n = PFuel \/ exists tk, pexpression ts g n = PErr EParse tk).
      { intros [|g]; [left; reflexivity|right]. unfold pexpression. rewrite pexpr_S. cbv zeta.
        rewrite (u_untestable T_LPAREN eq_refl), (u_untestable T_NUMBER eq_refl), (u_untestable T_BOOLEAN eq_refl), (u_untestable T_IDENTIFIER eq_refl), (u_untestable T_OPERATOR eq_refl). cbn [orb andb pbind]. eauto. }
      assert (HR : forall g, pexpression ts' g n = PFuel \/ exists tk, pexpression ts' g n = PErr EParse tk).
      { intros [|g]; [left; reflexivity|right]. unfold pexpression. rewrite pexpr_S. cbv zeta.
        rewrite (c_untestable T_LPAREN eq_refl), (c_untestable T_NUMBER eq_refl), (c_untestable T_BOOLEAN eq_refl), (c_untestable T_IDENTIFIER eq_refl), (c_untestable T_OPERATOR eq_refl). cbn [orb andb pbind]. eauto. }
      assert (Hc : is_ty (cur ts' n) T_EOF = false).
      { destruct (is_ty (cur ts' n) T_EOF) eqn:E; [|reflexivity]. apply is_ty_type in E.
        destruct comment_n as [Hc _]. rewrite Hc in E. discriminate. }
      rewrite Hc. destruct (HR f') as [->|(tk & ->)]; [apply prelF_fuel_r|]. cbn [pbind].
      destruct (is_ty (cur ts n) T_EOF); [apply prelF_err|].
      destruct (HL f) as [->|(tk2 & ->)]; [apply prelF_fuel_l|]. cbn [pbind]. apply prelF_err.
  Qed.

  Definition opv := (amode * option str * option expr)%type.

  Lemma poperand_i f f' mode0 opc pos pos' : corr pos pos' ->
    prelF (at_c (@eq opv)) (poperand ts f mode0 opc pos) (poperand ts' f' mode0 opc pos').
  Proof.
    intros C. unfold poperand. norm.
    destruct (is_ty (cur ts pos) T_SHARP) eqn:H1.
    { norm. apply sharp_tail_i. assumption. }
    destruct (is_ty (cur ts pos) T_LPAREN) eqn:H2.
    { norm. eapply prelF_bind; [apply pexpression_i; eassumption|]. intros x x' Hx. pair_in Hx. norm.
      match goal with |- context [is_ty (cur ts ?q) T_ADDRESSING_MODE_INDEX] =>
        destruct (is_ty (cur ts q) T_ADDRESSING_MODE_INDEX) eqn:H3 end; norm.
      - apply prelF_expect; [assumption|reflexivity|]. intros H4 A4. norm.
        match goal with |- context [is_ty (cur ts ?q) T_OPERATOR] => destruct (is_ty (cur ts q) T_OPERATOR) eqn:H5 end.
        + eapply prelF_bind; [apply pexpression_i; exact C|]. intros y y' Hy. pair_in Hy. okleaf.
        + okleaf.
      - apply prelF_expect; [assumption|reflexivity|]. intros H4 A4. norm.
        match goal with |- context [is_ty (cur ts ?q) T_OPERATOR] => destruct (is_ty (cur ts q) T_OPERATOR) eqn:H5 end.
        + eapply prelF_bind; [apply pexpression_i; exact C|]. intros y y' Hy. pair_in Hy. okleaf.
        + okleaf. }
    destruct (is_ty (cur ts pos) T_LBRAKET) eqn:H3.
    { norm. eapply prelF_bind; [apply pexpression_i; eassumption|]. intros x x' Hx. pair_in Hx. norm.
      apply prelF_expect; [assumption|reflexivity|]. intros H4 A4. norm. okleaf. }
    destruct (is_ty opc T_OPCODE).
    - eapply prelF_bind; [apply pexpression_i; exact C|]. intros x x' Hx. pair_in Hx. okleaf.
    - okleaf.
  Qed.

  Lemma popcode_i f f' pos pos' : al pos pos' -> prelF (at_c darel) (popcode ts f pos) (popcode ts' f' pos').
  Proof.
    intros A. unfold popcode. norm.
    destruct (is_ty (cur ts (S pos)) T_OPCODE_SIZE) eqn:H1; norm.
    - eapply prelF_bind; [apply poperand_i; eassumption|].
      intros [[[mo i] o] p3] [[[mo' i'] o'] p3'] [E Cp]. cbn [fst snd] in *. inversion E; subst. norm.
      destruct (is_ty (cur ts p3) T_ADDRESSING_MODE_INDEX) eqn:H2.
      + norm. destruct (match i' with Some i0 => negb (str_eqb i0 k_s && str_eqb (lower (t_value (cur ts p3))) k_y) | None => false end);
          [apply prelF_err|].
        destruct (index_map mo'); [|apply prelF_err]. astleaf. destruct o'; cbn; auto.
      + astleaf. destruct o'; cbn; auto.
    - eapply prelF_bind; [apply poperand_i; eassumption|].
      intros [[[mo i] o] p3] [[[mo' i'] o'] p3'] [E Cp]. cbn [fst snd] in *. inversion E; subst. norm.
      destruct (is_ty (cur ts p3) T_ADDRESSING_MODE_INDEX) eqn:H2.
      + norm. destruct (match i' with Some i0 => negb (str_eqb i0 k_s && str_eqb (lower (t_value (cur ts p3))) k_y) | None => false end);
          [apply prelF_err|].
        destruct (index_map mo'); [|apply prelF_err]. astleaf. destruct o'; cbn; auto.
      + astleaf. destruct o'; cbn; auto.
  Qed.

  Variable sub : str -> pres (list ast).
  (** included files parse to self-related ASTs (e.g. no include is resolved) *)
  Hypothesis Hsub : forall name, prelF dasrel (sub name) (sub name).

  Section OpenI.
    Variables PB PB' : nat -> R (list ast).
    Variables PEL PEL' : nat -> R margs.
    Variables f f' : nat.
    Hypothesis HPB : forall q q', corr q q' -> prelF (at_c dasrel) (PB q) (PB' q').
    Hypothesis HPEL : forall q q', corr q q' -> prelF (at_c dmsrel) (PEL q) (PEL' q').

    Lemma pscope_i q q' : corr q q' -> prelF (at_c darel) (pscope ts PB q) (pscope ts' PB' q').
    Proof.
      intros C. unfold pscope. norm. apply prelF_expect; [assumption|reflexivity|]. intros H1 A1. norm.
      apply prelF_expect; [assumption|reflexivity|]. intros H2 A2. norm.
      eapply prelF_bind; [apply HPB; eassumption|]. intros x x' Hx. pair_in Hx. astleaf.
    Qed.
    Lemma pelist_i q q' : corr q q' -> prelF (at_c dmsrel) (pelist ts PEL q) (pelist ts' PEL' q').
    Proof.
      intros C. unfold pelist. norm. apply prelF_expect; [assumption|reflexivity|]. intros H1 A1. norm.
      eapply prelF_bind; [apply HPEL; eassumption|]. intros x x' Hx. pair_in Hx. norm.
      apply prelF_expect; [assumption|reflexivity|]. intros H2 A2. norm.
      apply prelF_ok. split; cbn [fst snd]; [assumption|assumption].
    Qed.
    Lemma pmacro_apply_i q q' : al q q' -> prelF (at_c darel) (pmacro_apply ts PEL q) (pmacro_apply ts' PEL' q').
    Proof.
      intros A. unfold pmacro_apply. norm. apply prelF_expect_same. intros H1.
      eapply prelF_bind; [apply pelist_i; eassumption|]. intros x x' Hx. pair_in Hx. astleaf.
    Qed.
    Lemma pmacro_i q q' : corr q q' -> prelF (at_c darel) (pmacro ts PB f q) (pmacro ts' PB' f' q').
    Proof.
      intros C. unfold pmacro. norm. apply prelF_expect; [assumption|reflexivity|]. intros H1 A1. norm.
      apply prelF_expect; [assumption|reflexivity|]. intros H2 A2. norm.
      eapply prelF_bind; [apply pmacro_args_i; eassumption|]. intros x x' Hx. pair_in Hx. norm.
      apply prelF_expect; [assumption|reflexivity|]. intros H3 A3. norm.
      apply prelF_expect; [assumption|reflexivity|]. intros H4 A4. norm.
      eapply prelF_bind; [apply HPB; eassumption|]. intros y y' Hy. pair_in Hy. astleaf.
    Qed.
    Lemma pif_i q q' : corr q q' -> prelF (at_c darel) (pif ts PB f q) (pif ts' PB' f' q').
    Proof.
      intros C. unfold pif. norm.
      eapply prelF_bind; [apply pexpression_i; eassumption|]. intros x x' Hx. pair_in Hx. norm.
      apply prelF_expect; [assumption|reflexivity|]. intros H1 A1. norm.
      eapply prelF_bind; [apply HPB; eassumption|]. intros y y' Hy. pair_in Hy. norm.
      match goal with Cc : corr ?p ?p' |- context [str_eqb (t_value (cur ts' ?p')) k_else] => rewrite (else_c p p' Cc) end.
      match goal with |- context [str_eqb (t_value (cur ts ?p)) k_else] => destruct (str_eqb (t_value (cur ts p)) k_else) eqn:He end.
      - (* an "else" token: it is not the token at the insertion point *)
        match goal with Cc : corr ?p ?p' |- _ =>
          assert (Ae : al p p') by (destruct (corr_cases _ _ Cc) as [Aa|[En En']]; [exact Aa|
             exfalso; subst; destruct Hu as [_ Hv]; rewrite Hv in He; discriminate]) end.
        norm. apply prelF_expect; [assumption|reflexivity|]. intros H2 A2. norm.
        eapply prelF_bind; [apply HPB; eassumption|]. intros z z' Hz. pair_in Hz. astleaf.
      - astleaf.
    Qed.
    Lemma pfor_i q q' : corr q q' -> prelF (at_c darel) (pfor ts PB f q) (pfor ts' PB' f' q').
    Proof.
      intros C. unfold pfor. norm. apply prelF_expect; [assumption|reflexivity|]. intros H1 A1. norm.
      apply prelF_expect; [assumption|reflexivity|]. intros H2 A2. norm.
      eapply prelF_bind; [apply pexpression_i; eassumption|]. intros x x' Hx. pair_in Hx. norm.
      apply prelF_expect; [assumption|reflexivity|]. intros H3 A3. norm.
      eapply prelF_bind; [apply pexpression_i; eassumption|]. intros y y' Hy. pair_in Hy. norm.
      apply prelF_expect; [assumption|reflexivity|]. intros H4 A4. norm.
      eapply prelF_bind; [apply HPB; eassumption|]. intros z z' Hz. pair_in Hz. astleaf.
    Qed.

    Lemma all_exprs_d l l' : dmsrel l l' -> all_exprs l = all_exprs l'.
    Proof.
      induction 1 as [|x x' l l' Hx Hl IH]; cbn [all_exprs]; [reflexivity|].
      destruct Hx as [e e' He|b b' fi fi' Hb Hfi]; [|reflexivity]. subst e'. rewrite IH. reflexivity.
    Qed.

    Lemma pkeyword_i q q' : al q q' -> prelF (at_c darel) (pkeyword ts sub PB PEL f q) (pkeyword ts' sub PB' PEL' f' q').
    Proof.
      intros A. unfold pkeyword. norm.
      destruct (str_eqb (t_value (cur ts q)) k_scope); [apply pscope_i; assumption|].
      destruct (str_eqb (t_value (cur ts q)) k_ascii).
      { eapply prelF_bind; [apply pquoted_i; eassumption|]. intros x x' Hx. pair_in Hx. astleaf. }
      destruct (str_eqb (t_value (cur ts q)) k_text).
      { eapply prelF_bind; [apply pquoted_i; eassumption|]. intros x x' Hx. pair_in Hx. astleaf. }
      destruct (dkind_of (t_value (cur ts q))) as [dk|].
      { eapply prelF_bind; [apply HPEL; eassumption|]. intros x x' Hx. pair_in Hx.
        match goal with Hd : dmsrel ?l ?l' |- _ => rewrite (all_exprs_d _ _ Hd) end.
        destruct (all_exprs _); [|apply prelF_err]. astleaf.
        clear. induction l as [|e l IH]; constructor; auto. }
      destruct (str_eqb (t_value (cur ts q)) k_include).
      { eapply prelF_bind; [apply pquoted_i; eassumption|]. intros x x' Hx. pair_in Hx.
        eapply prelF_bind; [apply Hsub|]. intros b b' Hb. astleaf. }
      destruct (str_eqb (t_value (cur ts q)) k_include_ips); [apply pinclude_ips_i; assumption|].
      destruct (str_eqb (t_value (cur ts q)) k_incbin).
      { eapply prelF_bind; [apply pquoted_i; eassumption|]. intros x x' Hx. pair_in Hx. astleaf. }
      destruct (str_eqb (t_value (cur ts q)) k_table).
      { eapply prelF_bind; [apply pquoted_i; eassumption|]. intros x x' Hx. pair_in Hx. astleaf. }
      destruct (str_eqb (t_value (cur ts q)) k_macro); [apply pmacro_i; assumption|].
      destruct (str_eqb (t_value (cur ts q)) k_map); [apply pmap_i; assumption|].
      destruct (str_eqb (t_value (cur ts q)) k_if); [apply pif_i; assumption|].
      destruct (str_eqb (t_value (cur ts q)) k_for); [apply pfor_i; assumption|].
      destruct (str_eqb (t_value (cur ts q)) k_struct); [apply pstruct_i; assumption|].
      apply prelF_err.
    Qed.

    Definition odarel (o o' : option ast) : Prop :=
      match o, o' with Some a, Some a' => darel a a' | None, None => True | _, _ => False end.

    Lemma some_i (r r' : R ast) : prelF (at_c darel) r r' ->
      prelF (at_c odarel) (dop x <- r; POk (Some (fst x), snd x)) (dop x <- r'; POk (Some (fst x), snd x)).
    Proof.
      intros H. eapply prelF_bind; [exact H|]. intros x x' Hx. pair_in Hx. apply prelF_ok. split; cbn [fst snd odarel]; assumption.
    Qed.

    Lemma pdecl_body_i q q' : al q q' ->
      prelF (at_c odarel) (pdecl_body ts sub PB PEL f q) (pdecl_body ts' sub PB' PEL' f' q').
    Proof.
      intros A. unfold pdecl_body. norm.
      destruct (t_type (cur ts q)) eqn:Hty; norm; try apply prelF_err.
      - apply prelF_ok. split; cbn [fst snd odarel]; auto.
      - apply some_i. apply plabel_i. assumption.
      - destruct (is_ty (cur ts (S q)) T_LPAREN); apply some_i; [apply pmacro_apply_i|apply psymbol_i]; assumption.
      - eapply prelF_bind; [apply HPB; eassumption|]. intros x x' Hx. pair_in Hx.
        apply prelF_ok. split; cbn [fst snd odarel]; [constructor; [assumption|apply Td_refl]|assumption].
      - apply some_i. apply popcode_i. assumption.
      - apply some_i. apply popcode_i. assumption.
      - apply some_i. apply pkeyword_i. assumption.
      - apply some_i. apply pstar_eq_i. assumption.
      - apply some_i. apply pat_eq_i. assumption.
      - apply some_i. apply pcode_lookup_i. assumption.
    Qed.
  End OpenI.

  Lemma opt_app_d acc acc' o o' : dasrel acc acc' -> odarel o o' -> dasrel (opt_app acc o) (opt_app acc' o').
  Proof.
    intros Ha Ho. destruct o, o'; cbn [odarel opt_app] in *; try contradiction; [|exact Ha].
    apply Forall2_app; [exact Ha|]. constructor; [exact Ho|constructor].
  Qed.

  Lemma comment_at j : j < m -> t_type (cur ts' (n + j)) = T_COMMENT.
  Proof. intros Hj. apply (Hcs j Hj). Qed.

  Lemma comment_not ty j : j < m -> ty <> T_COMMENT -> is_ty (cur ts' (n + j)) ty = false.
  Proof.
    intros Hj Hne. destruct (is_ty (cur ts' (n + j)) ty) eqn:E; [|reflexivity].
    apply is_ty_type in E. rewrite (comment_at j Hj) in E. congruence.
  Qed.

  Lemma knot_i : forall f' f,
    (forall pos pos', al pos pos' -> prelF (at_c odarel) (pdecl ts sub f pos) (pdecl ts' sub f' pos')) /\
    (forall pos pos' acc acc', lcorr pos pos' -> dasrel acc acc' ->
       prelF (at_c dasrel) (pblock ts sub f pos acc) (pblock ts' sub f' pos' acc')) /\
    (forall pos pos' acc acc', corr pos pos' -> dmsrel acc acc' ->
       prelF (at_c dmsrel) (pel ts sub f pos acc) (pel ts' sub f' pos' acc')).
  Proof.
    induction f' as [|f' IH]; intros f.
    { repeat split; intros; apply prelF_fuel_r. }
    destruct f as [|f]; [repeat split; intros; apply prelF_fuel_l|].
    repeat apply conj.
    - intros pos pos' A. rewrite !pdecl_S. apply pdecl_body_i; [| |exact A].
      + intros q q' C. apply (proj1 (proj2 (IH f))); [apply corr_lcorr; exact C|constructor].
      + intros q q' C. apply (proj2 (proj2 (IH f))); [exact C|constructor].
    - intros pos pos' acc acc' L Hacc. destruct L as [A|(-> & j & Hj & ->)].
      + rewrite !pblock_S. norm.
        destruct (is_ty (cur ts pos) T_EOF || is_ty (cur ts pos) T_RBRACE).
        * apply prelF_expect_same. intros _. apply prelF_ok. split; cbn [fst snd]; assumption.
        * eapply prelF_bind; [apply (proj1 (IH f)); exact A|]. intros x x' Hx. pair_in Hx.
          apply (proj1 (proj2 (IH f))); [apply corr_lcorr; assumption|apply opt_app_d; assumption].
      + destruct f' as [|g].
        { rewrite (pblock_S ts' sub 0 (n + j) acc'). cbv zeta. rewrite (comment_not T_EOF j Hj), (comment_not T_RBRACE j Hj) by discriminate.
          cbn [orb pdecl pbind]. apply prelF_fuel_r. }
        rewrite (parse_block_comment_skip ts' sub g (n + j) acc' (comment_at j Hj)).
        apply (proj1 (proj2 (IH (S f)))); [apply lcorr_step; exact Hj|exact Hacc].
    - intros pos pos' acc acc' C Hacc. rewrite !pel_S. norm.
      destruct (is_ty (cur ts pos) T_RPAREN) eqn:H1.
      + apply prelF_ok. split; cbn [fst snd]; assumption.
      + eapply prelF_bind with (RA := at_c dmrel).
        * destruct (is_ty (cur ts pos) T_LBRACE) eqn:H2.
          -- norm. eapply prelF_bind; [apply (proj1 (proj2 (IH f))); [apply corr_lcorr; eassumption|constructor]|].
             intros x x' Hx. pair_in Hx. apply prelF_ok. split; cbn [fst snd]; [constructor; [assumption|apply Td_refl]|assumption].
          -- eapply prelF_bind; [apply pexpression_i; exact C|]. intros x x' Hx. pair_in Hx.
             apply prelF_ok. split; cbn [fst snd]; [constructor; reflexivity|assumption].
        * intros x x' Hx. pair_in Hx. norm.
          match goal with Hm' : dmrel ?a ?a0 |- _ =>
            assert (Hacc2 : dmsrel (acc ++ [a]) (acc' ++ [a0])) by (apply Forall2_app; [exact Hacc|constructor; [exact Hm'|constructor]]) end.
          match goal with |- context [is_ty (cur ts ?p) T_COMMA] => destruct (is_ty (cur ts p) T_COMMA) eqn:H3 end.
          -- norm. apply (proj2 (proj2 (IH f))); assumption.
          -- apply prelF_ok. split; cbn [fst snd]; assumption.
  Qed.

  Lemma pinitial_i : forall f' f pos pos' acc acc', lcorr pos pos' -> dasrel acc acc' ->
    prelF dasrel (pinitial ts sub f pos acc) (pinitial ts' sub f' pos' acc').
  Proof.
    induction f' as [|f' IH]; intros f pos pos' acc acc' L Hacc; [apply prelF_fuel_r|].
    destruct f as [|f]; [apply prelF_fuel_l|].
    destruct L as [A|(-> & j & Hj & ->)].
    - cbn [pinitial]. norm.
      destruct (is_ty (cur ts pos) T_EOF); [apply prelF_ok; exact Hacc|].
      eapply prelF_bind; [apply (proj1 (knot_i f' f)); exact A|]. intros x x' Hx. pair_in Hx.
      apply IH; [apply corr_lcorr; assumption|apply opt_app_d; assumption].
    - destruct f' as [|g].
      { cbn [pinitial]. rewrite (comment_not T_EOF j Hj) by discriminate. cbn [pdecl pbind]. apply prelF_fuel_r. }
      rewrite (parse_initial_comment_skip ts' sub g (n + j) acc' (comment_at j Hj)).
      apply IH; [apply lcorr_step; exact Hj|exact Hacc].
  Qed.
End Ins.

(** ** Whole programs *)
Definition comment_tok (x : token) : Prop := t_type x = T_COMMENT /\ str_eqb (t_value x) k_else = false.

Definition prelD (r r' : pres (list ast)) : Prop :=
  match r, r' with
  | POk a, POk a' => dasrel a a'
  | PErr k _, PErr k' _ => k = k'
  | PUnrep _, PUnrep _ => True
  | _, _ => False
  end.

Lemma cur_app_lo (a b : list token) q : q < length a -> cur (a ++ b) q = cur a q.
Proof. intros H. unfold cur. apply app_nth1. exact H. Qed.
Lemma cur_app_hi (a b : list token) q : cur (a ++ b) (length a + q) = cur b q.
Proof. unfold cur. rewrite app_nth2 by lia. f_equal. lia. Qed.

(** The static condition: comment tokens inserted in front of a statement-starting token. *)
Theorem parse_comments_inserted inc incfuel ta cs tb :
  (forall name, exists k, inc name = Err k) ->
  cs <> [] -> Forall comment_tok cs -> s_ok (nth 0 tb eof_token) ->
  prelD (parse_program (parse_fuel (length (ta ++ tb))) incfuel inc (ta ++ tb))
        (parse_program (parse_fuel (length (ta ++ cs ++ tb))) incfuel inc (ta ++ cs ++ tb)).
Proof.
  intros Hinc Hne Hcs Hu.
  assert (Hnf : forall name, inc name <> OutOfFuel) by (intro name; destruct (Hinc name) as [k ->]; discriminate).
  pose proof (parse_fuel_sufficient inc (ta ++ tb) incfuel Hnf) as F1.
  pose proof (parse_fuel_sufficient inc (ta ++ cs ++ tb) incfuel Hnf) as F2.
  unfold parse_program in *. rewrite !parse_file_unfold in *.
  set (sub := fun name : str => match incfuel with
                                | 0 => PErr ERecursion None
                                | S i => match inc name with
                                         | Ok toks => parse_file i inc (parse_fuel (length toks)) toks
                                         | Err k => PErr k None
                                         | OutOfFuel => PFuel
                                         end
                                end) in *.
  assert (Hsub : forall name, prelF dasrel (sub name) (sub name)).
  { intro name. unfold sub. destruct incfuel; [apply prelF_err|]. destruct (Hinc name) as [k ->]. apply prelF_err. }
  assert (Hm : 0 < length cs) by (destruct cs; [contradiction|cbn; lia]).
  pose proof (pinitial_i (ta ++ tb) (ta ++ cs ++ tb) (length ta) (length cs) Hm) as P.
  specialize (P (fun q Hq => eq_trans (cur_app_lo ta (cs ++ tb) q Hq) (eq_sym (cur_app_lo ta tb q Hq)))).
  assert (Hhi : forall q, length ta <= q -> cur (ta ++ cs ++ tb) (length cs + q) = cur (ta ++ tb) q).
  { intros q Hq. replace q with (length ta + (q - length ta)) by lia.
    replace (length cs + (length ta + (q - length ta))) with (length ta + (length cs + (q - length ta))) by lia.
    rewrite !cur_app_hi. reflexivity. }
  specialize (P Hhi).
  assert (Hc : forall j, j < length cs ->
            t_type (cur (ta ++ cs ++ tb) (length ta + j)) = T_COMMENT /\
            str_eqb (t_value (cur (ta ++ cs ++ tb) (length ta + j))) k_else = false).
  { intros j Hj. rewrite cur_app_hi, cur_app_lo by exact Hj. rewrite Forall_forall in Hcs. apply Hcs. apply nth_In. exact Hj. }
  specialize (P Hc).
  assert (Hu' : s_ok (cur (ta ++ tb) (length ta))).
  { pose proof (cur_app_hi ta tb 0) as E. rewrite Nat.add_0_r in E. rewrite E. exact Hu. }
  specialize (P Hu' sub Hsub (parse_fuel (length (ta ++ cs ++ tb))) (parse_fuel (length (ta ++ tb))) 0 0 [] []).
  assert (L0 : lcorr (length ta) (length cs) 0 0).
  { destruct ta as [|x ta']; cbn [length].
    - right. split; [reflexivity|]. exists 0. split; [exact Hm|reflexivity].
    - left. left. split; [reflexivity|lia]. }
  specialize (P L0 (Forall2_nil _)).
  destruct P as [P|[P|P]]; [contradiction|contradiction|].
  unfold prelD.
  destruct (pinitial (ta ++ tb) sub _ 0 []), (pinitial (ta ++ cs ++ tb) sub _ 0 []); auto.
Qed.

Print Assumptions parse_comments_inserted.

(** ** The output *)
From A816 Require Import Proofs.BusProofs Proofs.ScannerSpec Proofs.ScannerProofs Proofs.ScannerShift Proofs.ScannerLayout
     Proofs.CaseTextGen Proofs.LocationText Proofs.LayoutLink.
Open Scope Z_scope.

(** same writer blocks and labels; or the same kind of failure *)
Definition result_same_output (r r' : aresult) : Prop :=
  match r, r' with
  | AOk o _, AOk o' _ => o_blocks o = o_blocks o' /\ o_labels o = o_labels o'
  | AScanError f e, AScanError f' e' => f = f' /\ se_msg e' = se_msg e /\ se_col e' = se_col e /\ se_quoted e' = se_quoted e
  | AParseError _, AParseError _ => True
  | AExc k _, AExc k' _ => k = k'
  | AFuel, AFuel => True
  | _, _ => False
  end.

Lemma result_same_output_trans a b c : result_same_output a b -> result_same_output b c -> result_same_output a c.
Proof.
  destruct a, b, c; cbn [result_same_output]; try contradiction; auto.
  - intros [A1 A2] [B1 B2]. split; congruence.
  - intros (A1 & A2 & A3 & A4) (B1 & B2 & B3 & B4). repeat split; congruence.
  - intros; congruence.
Qed.
Lemma result_same_output_sym a b : result_same_output a b -> result_same_output b a.
Proof.
  destruct a, b; cbn [result_same_output]; try contradiction; auto; intuition congruence.
Qed.
Lemma positions_to_output a b : result_same_up_to_positions a b -> result_same_output a b.
Proof.
  destruct a, b; cbn [result_same_up_to_positions result_same_output]; try contradiction; auto.
  - intros (A & B & _). auto.
  - intros [A _]. exact A.
Qed.

(** comment tokens in front of a statement-starting token: same output (includes not resolved) *)
Theorem comments_inserted_assemble t fs c ta cs tb :
  sf_text fs = [] -> cs <> [] -> Forall comment_tok cs -> s_ok (nth 0 tb eof_token) ->
  result_same_output (after_scan t fs c (ta ++ tb)) (after_scan t fs c (ta ++ cs ++ tb)).
Proof.
  intros Hnoinc Hne Hcs Hu.
  assert (Hinc : forall name, exists k, include_tokens t fs name = Err k)
    by (intro name; unfold include_tokens; rewrite Hnoinc; cbn [assoc_str]; eauto).
  pose proof (parse_comments_inserted (include_tokens t fs) include_depth ta cs tb Hinc Hne Hcs Hu) as HP.
  unfold after_scan.
  destruct (parse_program (parse_fuel (length (ta ++ tb))) include_depth (include_tokens t fs) (ta ++ tb)) as [prog|kd tok|tok|],
           (parse_program (parse_fuel (length (ta ++ cs ++ tb))) include_depth (include_tokens t fs) (ta ++ cs ++ tb)) as [prog'|kd' tok'|tok'|];
    cbn [prelD] in HP; try contradiction.
  - pose proof (CaseTextGen.assemble_program_rel Td (@eq expr) (@eq str)
                  (fun p ev e e' (H : e = e') => f_equal (eval_expression p ev) H)
                  (fun o o' (H : o = o') => f_equal lower_ascii H) (world_of t fs) c prog prog' HP) as HA.
    pose proof (assemble_program_shape (world_of t fs) c prog) as HSh.
    destruct (assemble_program (world_of t fs) c prog) as [o fin|f e|tk|kd s|],
             (assemble_program (world_of t fs) c prog') as [o' fin'|f' e'|tk'|kd' s'|]; cbn [CaseTextGen.aresrel] in HA; try contradiction;
      cbn [result_same_output].
    + destruct HA as [(A & B & _) _]. auto.
    + apply HA.
    + exact I.
  - subst kd'. destruct kd; try rewrite Hnoinc; cbn [first_include_scan_error]; cbv beta iota; cbn [result_same_output]; auto.
  - cbn [result_same_output]. reflexivity.
Qed.

(** ** On source texts *)

(** a block of whole lines that scans to comment tokens only ([blk]: one or several ";" lines, a block
    comment), put between the complete lines [a] and the text [b] whose first token starts a statement *)
Theorem comment_block_between_assemble t fs c f a blk b ta ea la tcs eb lb :
  lexicon_ok (lv_lex t) = true -> sf_text fs = [] ->
  ends_nl a -> scan (lv_lex t) f a = ScanOk (ta ++ [ea]) la ->
  ends_nl blk -> scan (lv_lex t) f blk = ScanOk (tcs ++ [eb]) lb ->
  tcs <> [] -> Forall comment_tok tcs ->
  (forall toks lines, scan (lv_lex t) f b = ScanOk toks lines -> s_ok (nth 0 toks eof_token)) ->
  result_same_output (assemble_source t fs c f (a ++ b)) (assemble_source t fs c f (a ++ blk ++ b)).
Proof.
  intros Hlx Hnoinc Ha Sa Hb Sb Hne Hcs Hfirst. unfold assemble_source.
  rewrite (scan_line_compositional _ f a (blk ++ b) ta ea la Hlx Ha Sa).
  rewrite (scan_line_compositional _ f a b ta ea la Hlx Ha Sa).
  rewrite (scan_line_compositional _ f blk b tcs eb lb Hlx Hb Sb).
  destruct (scan (lv_lex t) f b) as [toks lines|e| |] eqn:Sr; cbn [shift_result].
  - set (ka := count_nl a). set (kb := count_nl blk).
    fold (after_scan t fs c (ta ++ map (shift_tok ka) toks)).
    fold (after_scan t fs c (ta ++ map (shift_tok ka) (tcs ++ map (shift_tok kb) toks))).
    rewrite map_app.
    (* step 1: move the rest down by the lines of the comment block *)
    eapply result_same_output_trans.
    + apply positions_to_output.
      apply (layout_link_tokens t fs c [] (ta ++ map (shift_tok ka) toks)
               (ta ++ map (shift_tok ka) (map (shift_tok kb) toks)) (Forall_nil _)).
      apply tvs_sameTV. rewrite !tvs_app, !tvs_shift. reflexivity.
    + (* step 2: insert the comment tokens *)
      cbn [app]. apply comments_inserted_assemble; auto.
      * destruct tcs; [contradiction|discriminate].
      * clear -Hcs. induction Hcs as [|x l [H1 H2] _ IH]; cbn [map]; constructor; auto. split; assumption.
      * specialize (Hfirst toks lines eq_refl). destruct toks as [|u rest]; [exact Hfirst|]. exact Hfirst.
  - cbn [se_msg se_line se_col se_quoted se_lines se_toks].
    destruct (se_quoted e) eqn:Eq; cbn [result_same_output se_msg se_col se_quoted]; auto.
  - cbn [result_same_output]. reflexivity.
  - exact I.
Qed.

(** an end-of-line comment: the line [l2] scans to the tokens of [l1] followed by comment tokens, and
    the NEXT line's first token starts a statement *)
Theorem eol_comment_assemble t fs c f a l1 l2 b ta ea la t1 e1 ls1 t2 tcs e2 ls2 :
  lexicon_ok (lv_lex t) = true -> sf_text fs = [] ->
  ends_nl a -> scan (lv_lex t) f a = ScanOk (ta ++ [ea]) la ->
  ends_nl l1 -> scan (lv_lex t) f l1 = ScanOk (t1 ++ [e1]) ls1 ->
  ends_nl l2 -> scan (lv_lex t) f l2 = ScanOk ((t2 ++ tcs) ++ [e2]) ls2 ->
  tvs t1 = tvs t2 -> tcs <> [] -> Forall comment_tok tcs ->
  (forall toks lines, scan (lv_lex t) f b = ScanOk toks lines -> s_ok (nth 0 toks eof_token)) ->
  result_same_output (assemble_source t fs c f (a ++ l1 ++ b)) (assemble_source t fs c f (a ++ l2 ++ b)).
Proof.
  intros Hlx Hnoinc Ha Sa H1 S1 H2 S2 Htv Hne Hcs Hfirst. unfold assemble_source.
  rewrite (scan_line_compositional _ f a (l1 ++ b) ta ea la Hlx Ha Sa).
  rewrite (scan_line_compositional _ f a (l2 ++ b) ta ea la Hlx Ha Sa).
  rewrite (scan_line_compositional _ f l1 b t1 e1 ls1 Hlx H1 S1).
  rewrite (scan_line_compositional _ f l2 b (t2 ++ tcs) e2 ls2 Hlx H2 S2).
  destruct (scan (lv_lex t) f b) as [toks lines|e| |] eqn:Sr; cbn [shift_result].
  - set (ka := count_nl a). set (k1 := count_nl l1). set (k2 := count_nl l2).
    fold (after_scan t fs c (ta ++ map (shift_tok ka) (t1 ++ map (shift_tok k1) toks))).
    fold (after_scan t fs c (ta ++ map (shift_tok ka) ((t2 ++ tcs) ++ map (shift_tok k2) toks))).
    eapply result_same_output_trans.
    + apply positions_to_output.
      apply (layout_link_tokens t fs c [] (ta ++ map (shift_tok ka) (t1 ++ map (shift_tok k1) toks))
               ((ta ++ map (shift_tok ka) t2) ++ map (shift_tok ka) (map (shift_tok k2) toks)) (Forall_nil _)).
      apply tvs_sameTV. rewrite !tvs_app, !tvs_shift, !tvs_app, !tvs_shift, Htv. rewrite app_assoc. reflexivity.
    + cbn [app]. replace (ta ++ map (shift_tok ka) ((t2 ++ tcs) ++ map (shift_tok k2) toks))
        with ((ta ++ map (shift_tok ka) t2) ++ map (shift_tok ka) tcs ++ map (shift_tok ka) (map (shift_tok k2) toks))
        by (rewrite !map_app, <- !app_assoc; reflexivity).
      apply comments_inserted_assemble; auto.
      * destruct tcs; [contradiction|discriminate].
      * clear -Hcs. induction Hcs as [|x l [G1 G2] _ IH]; cbn [map]; constructor; auto. split; assumption.
      * specialize (Hfirst toks lines eq_refl). destruct toks as [|u rest]; exact Hfirst.
  - cbn [se_msg se_line se_col se_quoted se_lines se_toks].
    destruct (se_quoted e) eqn:Eq; cbn [result_same_output se_msg se_col se_quoted]; auto.
  - cbn [result_same_output]. reflexivity.
  - exact I.
Qed.

(** ** Example: a comment line between two instructions *)
Module StaticExamples.
  Import LayoutExamples.
  Definition a : str := [108;100;97;32;35;49;10].          (* "lda #1\n" *)
  Definition blk : str := [59;32;99;10].                    (* "; c\n" *)
  Definition b : str := [108;100;97;32;35;50;10].          (* "lda #2\n" *)
  Definition sa := Eval vm_compute in scan (lv_lex t0) fname a.
  Definition sblk := Eval vm_compute in scan (lv_lex t0) fname blk.
  Definition sb := Eval vm_compute in scan (lv_lex t0) fname b.
  Example scan_a : scan (lv_lex t0) fname a = sa. Proof. vm_compute. reflexivity. Qed.
  Example scan_blk : scan (lv_lex t0) fname blk = sblk. Proof. vm_compute. reflexivity. Qed.
  Example scan_b : scan (lv_lex t0) fname b = sb. Proof. vm_compute. reflexivity. Qed.

  Example with_comment : view (assemble_source t0 no_srcfiles cfg0 fname (a ++ blk ++ b)) = Some ([([169; 1; 169; 2], 0)], []).
  Proof. vm_compute. reflexivity. Qed.

  Example by_theorem :
    result_same_output (assemble_source t0 no_srcfiles cfg0 fname (a ++ b)) (assemble_source t0 no_srcfiles cfg0 fname (a ++ blk ++ b)).
  Proof.
    pose proof scan_a as Sa. pose proof scan_blk as Sb. unfold sa in Sa. unfold sblk in Sb.
    match type of Sa with _ = ScanOk ?l _ => change l with (removelast l ++ [last l eof_token]) in Sa end.
    match type of Sb with _ = ScanOk ?l _ => change l with (removelast l ++ [last l eof_token]) in Sb end.
    eapply (comment_block_between_assemble t0 no_srcfiles cfg0 fname a blk b _ _ _ _ _ _ eq_refl eq_refl).
    - exists [108;100;97;32;35;49]. reflexivity.
    - exact Sa.
    - exists [59;32;99]. reflexivity.
    - exact Sb.
    - discriminate.
    - repeat constructor.
    - intros toks lines E. rewrite scan_b in E. unfold sb in E. inversion E; subst. split; reflexivity.
  Qed.
End StaticExamples.

Print Assumptions comments_inserted_assemble.
Print Assumptions comment_block_between_assemble.
Print Assumptions eol_comment_assemble.
