(** C20: the legacy conversions agree with the bus model, for every offset in range. *)
From Coq Require Import ZArith Lia Bool ZifyBool List.
From A816 Require Import Model.Legacy Spec.BusLaws Proofs.BitLemmas Proofs.BusProofs.
Open Scope Z_scope.
Ltac Zify.zify_post_hook ::= Z.to_euclidean_division_equations.

Lemma quot_nonneg a b : 0 <= a -> 0 < b -> Z.quot a b = a / b.
Proof. intros. apply Z.quot_div_nonneg; lia. Qed.

Lemma rom_to_snes_low o : 0 <= o ->
  rom_to_snes o LowRom = (o / 32768) * 65536 + 32768 + o mod 32768.
Proof.
  intros Ho. unfold rom_to_snes. rewrite quot_nonneg by lia. rewrite lor_shift16 by lia. lia.
Qed.
Lemma rom_to_snes_low2 o : 0 <= o ->
  rom_to_snes o LowRom2 = (o / 32768 + 128) * 65536 + 32768 + o mod 32768.
Proof.
  intros Ho. unfold rom_to_snes. rewrite quot_nonneg by lia. rewrite lor_shift16 by lia. lia.
Qed.

Theorem legacy_low o : 0 <= o < 3670016 ->
  let a := rom_to_snes o LowRom in
  addr_physical lorom a = Ok (Some o) /\ bank_of a = o / 32768 /\ 32768 <= a mod 65536 /\
  snes_to_rom a = o.
Proof.
  intros Ho a. subst a. rewrite rom_to_snes_low by lia.
  set (a := o / 32768 * 65536 + 32768 + o mod 32768).
  assert (Hb : bank_of a = o / 32768) by (unfold bank_of, a; lia).
  repeat split; try assumption.
  - rewrite lorom_closed_form. unfold lorom_spec. rewrite Hb.
    replace ((0 <=? o / 32768) && (o / 32768 <=? 111)) with true by lia.
    f_equal. f_equal. unfold a. lia.
  - unfold a. lia.
  - unfold snes_to_rom.
    replace (12582912 <=? a) with false by (unfold a; lia).
    replace (8421376 <=? a) with false by (unfold a; lia).
    rewrite shiftr16, land_32767. unfold a. lia.
Qed.

Theorem legacy_low2 o : 0 <= o < 2621440 ->
  let a := rom_to_snes o LowRom2 in
  addr_physical lorom a = Ok (Some o) /\ bank_of a = 128 + o / 32768 /\ 32768 <= a mod 65536 /\
  (o < 2097152 -> snes_to_rom a = o).
Proof.
  intros Ho a. subst a. rewrite rom_to_snes_low2 by lia.
  set (a := (o / 32768 + 128) * 65536 + 32768 + o mod 32768).
  assert (Hb : bank_of a = 128 + o / 32768) by (unfold bank_of, a; lia).
  repeat split; try assumption.
  - rewrite lorom_closed_form. unfold lorom_spec. rewrite Hb.
    replace ((0 <=? 128 + o / 32768) && (128 + o / 32768 <=? 111)) with false by lia.
    replace ((128 <=? 128 + o / 32768) && (128 + o / 32768 <=? 207)) with true by lia.
    f_equal. f_equal. unfold a. lia.
  - unfold a. lia.
  - intros Hlt. unfold snes_to_rom.
    replace (12582912 <=? a) with false by (unfold a; lia).
    replace (8421376 <=? a) with true by (unfold a; lia).
    rewrite shiftr16, land_32767. unfold a. lia.
Qed.

Theorem legacy_high o : 0 <= o < 4194304 ->
  let a := rom_to_snes o HighRom in
  addr_physical hirom a = Ok (Some o) /\ bank_of a = 192 + o / 65536 /\ snes_to_rom a = o.
Proof.
  intros Ho a. subst a. unfold rom_to_snes. set (a := o + 12582912).
  assert (Hb : bank_of a = 192 + o / 65536) by (unfold bank_of, a; lia).
  repeat split; try assumption.
  - rewrite hirom_closed_form. unfold hirom_spec. rewrite Hb.
    replace ((126 <=? 192 + o / 65536) && (192 + o / 65536 <=? 127)) with false by lia.
    replace ((64 <=? 192 + o / 65536) && (192 + o / 65536 <=? 125)) with false by lia.
    replace ((192 <=? 192 + o / 65536) && (192 + o / 65536 <=? 255)) with true by lia.
    f_equal. f_equal. unfold a. lia.
  - unfold snes_to_rom. replace (12582912 <=? a) with true by (unfold a; lia). unfold a. lia.
Qed.

(** Above the second variant's agreement range the legacy inverse really differs
    (the property's stated exception): offset 0x200000 maps to bank 0xC0, which
    [snes_to_rom] reads as HiROM. *)
Example legacy_low2_exception : snes_to_rom (rom_to_snes 2097152 LowRom2) = 32768.
Proof. reflexivity. Qed.

Theorem legacy_long_pointer base p : 0 <= base + p < 8388608 ->
  long_low_rom_pointer base p = Ok (le_bytes 3 (rom_to_snes (p + base) LowRom)).
Proof.
  intros H. unfold long_low_rom_pointer, pack_HB.
  rewrite rom_to_snes_low by lia. set (s := (p + base) / 32768 * 65536 + 32768 + (p + base) mod 32768).
  rewrite land_65535, shiftr16.
  assert (Hq : s / 65536 = (p + base) / 32768) by (unfold s; lia).
  assert (Hr : s mod 65536 = 32768 + (p + base) mod 32768) by (unfold s; lia).
  assert (Hb : 0 <= (p + base) / 32768 < 256) by lia.
  rewrite Hq, Hr.
  replace ((0 <=? 32768 + (p + base) mod 32768) && (32768 + (p + base) mod 32768 <? 65536)
           && (0 <=? (p + base) / 32768) && ((p + base) / 32768 <? 256)) with true by lia.
  assert (Hq' : 0 <= s / 65536 < 256) by (rewrite Hq; exact Hb).
  cbn [le_bytes app]. rewrite <- Hr, <- Hq. clearbody s. clear - Hq'.
  rewrite Z.div_div by lia. change (256 * 256) with 65536.
  assert (H1 : (s mod 65536) mod 256 = s mod 256) by lia.
  assert (H2 : (s mod 65536 / 256) mod 256 = (s / 256) mod 256) by lia.
  rewrite H1, H2, (Z.mod_small (s / 65536) 256) by exact Hq'. reflexivity.
Qed.

Theorem legacy_base_relative base b0 b1 rest :
  base_relative_16bits_pointer base (b0 :: b1 :: rest) = Ok (b0 + 256 * b1 + base).
Proof. unfold base_relative_16bits_pointer. rewrite shiftl8. f_equal. lia. Qed.
