(** C17 — the reported location of a statement depends only on the number of newlines before it:
    prefix independence of the position closed forms (Proofs/ScannerSpec.v), and where the passes
    take the location of a NodeError from. *)
From Coq Require Import ZArith List Lia Arith Bool.
From A816 Require Import Proofs.ScannerSpec Proofs.ScannerPos Model.Assemble.
Open Scope nat_scope.

Lemma count_nl_app a b : count_nl (a ++ b) = count_nl a + count_nl b.
Proof. induction a as [|c a IH]; cbn [app count_nl]; [reflexivity|]. rewrite IH. lia. Qed.

Lemma firstn_app_plus {A} (pre s : list A) off : firstn (length pre + off) (pre ++ s) = pre ++ firstn off s.
Proof. induction pre as [|c pre IH]; cbn [length app firstn plus]; [reflexivity|]. now rewrite IH. Qed.

(** Line number: the newlines of the prefix are simply added. *)
Theorem line_of_prefix pre s off : line_of (pre ++ s) (length pre + off) = count_nl pre + line_of s off.
Proof. unfold line_of. rewrite firstn_app_plus, count_nl_app. reflexivity. Qed.

Lemma line_start_aux_app a : forall b i acc,
  line_start_aux (a ++ b) i acc = line_start_aux b (i + length a) (line_start_aux a i acc).
Proof.
  induction a as [|c a IH]; intros b i acc; cbn [app line_start_aux length].
  - rewrite Nat.add_0_r. reflexivity.
  - rewrite IH. f_equal. lia.
Qed.

Lemma line_start_aux_shift l : forall i acc d,
  (acc <= i) -> line_start_aux l (i + d) (acc + d) = line_start_aux l i acc + d.
Proof.
  induction l as [|c l IH]; intros i acc d H; cbn [line_start_aux]; [reflexivity|].
  destruct (Z.eqb c 10).
  - change (S (i + d)) with (S i + d). apply IH. lia.
  - change (S (i + d)) with (S i + d). apply IH. lia.
Qed.

Definition ends_line (pre : str) : Prop := pre = [] \/ exists p, pre = p ++ [10%Z].

Lemma line_start_ends_line pre : ends_line pre -> line_start pre = length pre.
Proof.
  intros [->|(p & ->)]; [reflexivity|]. unfold line_start. rewrite line_start_aux_app.
  cbn [line_start_aux Z.eqb]. rewrite app_length. cbn. lia.
Qed.

(** Column and quoted line: a prefix made of whole lines does not change them. *)
Theorem col_of_prefix pre s off : ends_line pre -> col_of (pre ++ s) (length pre + off) = col_of s off.
Proof.
  intros H. unfold col_of. rewrite firstn_app_plus. unfold line_start.
  rewrite line_start_aux_app. fold (line_start pre). rewrite (line_start_ends_line pre H).
  change (0 + length pre) with (length pre).
  replace (length pre) with (0 + length pre) at 2 3 by lia.
  rewrite line_start_aux_shift by lia. lia.
Qed.

Lemma split_nl_cons_nl s : split_nl (10%Z :: s) = [] :: split_nl s.
Proof. reflexivity. Qed.

Lemma split_nl_nonempty s : split_nl s <> [].
Proof. induction s as [|c s IH]; cbn [split_nl]; [discriminate|]. destruct (Z.eqb c 10); [discriminate|]. destruct (split_nl s); discriminate. Qed.

Lemma split_nl_app_line p s :
  split_nl ((p ++ [10%Z]) ++ s) = split_nl p ++ split_nl s.
Proof.
  induction p as [|c p IH]; cbn [app].
  - reflexivity.
  - cbn [split_nl]. destruct (Z.eqb c 10); [now rewrite IH|].
    rewrite IH. destruct (split_nl p) eqn:E; [exfalso; eapply split_nl_nonempty; eauto|]. reflexivity.
Qed.

Theorem line_text_prefix pre s k : ends_line pre -> line_text (pre ++ s) (count_nl pre + k) = line_text s k.
Proof.
  intros [->|(p & ->)]; [reflexivity|]. unfold line_text. rewrite split_nl_app_line.
  rewrite count_nl_app. replace (count_nl [10%Z]) with 1 by reflexivity.
  rewrite app_nth2 by (rewrite split_nl_length; lia).
  rewrite split_nl_length. f_equal. lia.
Qed.

(** Where a NodeError's location comes from: the file_info token of the node that failed. *)
Theorem label_site_is_node w ns : forall r a k site,
  label_site w r ns a = Some (k, site) -> exists n, In n ns /\ site = node_fi n.
Proof.
  induction ns as [|n ns IH]; intros r a k site; cbn [label_site]; [discriminate|].
  destruct (is_symbol_node n).
  - intros H. destruct (IH _ _ _ _ H) as (m & A & B). exists m. split; [right; exact A|exact B].
  - destruct (pc_after w r n a) as [ra| |].
    + intros H. destruct (IH _ _ _ _ H) as (m & A & B). exists m. split; [right; exact A|exact B].
    + intros H; inversion H; subst. exists n. split; [left; reflexivity|reflexivity].
    + discriminate.
Qed.

Theorem emit_site_is_node w ns : forall st addrs k site,
  emit_site w st ns addrs = Some (k, site) -> site = None \/ exists n, In n ns /\ site = node_fi n.
Proof.
  induction ns as [|n ns IH]; intros st addrs k site; cbn [emit_site]; [discriminate|].
  destruct addrs as [|x addrs]; [discriminate|].
  destruct (emit_step w st n x) as [st'| |].
  - intros H. destruct (IH _ _ _ _ H) as [A|(m & A & B)]; [left; exact A|right]. exists m. split; [right; exact A|exact B].
  - intros H; inversion H; subst. destruct (negb _); [left; reflexivity|right]. exists n. split; [left; reflexivity|reflexivity].
  - discriminate.
Qed.
