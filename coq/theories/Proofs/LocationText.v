(** C17, composed on source TEXT ([assemble_source]): the reported location of an error depends on
    what precedes the statement only through the number of lines.

    L1 (scanner): behind a prefix of whole lines, every token is the token of the rest scanned alone,
        [count_nl pre] lines further down, and the quoted line is the line of the rest.
    L4 (whole pipeline): lines that scan to nothing but comments (blank lines, comment lines, block
        comments) put in front of ANY source text shift every reported position by their number and
        change nothing else: same blocks and labels on success; same error with the line increased,
        the same column and the same quoted text otherwise.  Uses L2 ([LocationTextParse.v]: the
        parser never reads positions) and L3 ([LocationTextSim.v], [LocationTextGen.v]: neither do
        code generation and the passes). *)
From Coq Require Import ZArith List Lia Bool Arith.
From A816 Require Import Model.Assemble Proofs.ScannerSpec Proofs.ScannerProofs Proofs.ScannerShift
     Proofs.ScannerLayout Proofs.LocationProofs Proofs.LocationTextParse Proofs.LocationTextSim
     Proofs.LocationTextGen.
Open Scope Z_scope.

Lemma removelast_len {A} (l : list A) : length (removelast l) = pred (length l).
Proof.
  induction l as [|x l IH]; [reflexivity|]. destruct l as [|y l]; [reflexivity|].
  change (removelast (x :: y :: l)) with (x :: removelast (y :: l)). cbn [length] in *. rewrite IH. reflexivity.
Qed.

(** ** L1 — tokens and lines behind a prefix of whole lines *)
Theorem scan_behind_prefix lx file pre rest tp eofp lp toks lines :
  lexicon_ok lx = true -> ends_nl pre ->
  scan lx file pre = ScanOk (tp ++ [eofp]) lp ->
  scan lx file rest = ScanOk toks lines ->
  scan lx file (pre ++ rest) = ScanOk (tp ++ map (shift_tok (count_nl pre)) toks) (removelast lp ++ lines) /\
  length (removelast lp) = count_nl pre.
Proof.
  intros Hlx Hend Hp Hr.
  rewrite (scan_line_compositional lx file pre rest tp eofp lp Hlx Hend Hp), Hr. cbn [shift_result]. split; [reflexivity|].
  rewrite (scan_lines_correct lx file pre _ _ Hlx Hp), removelast_len, split_nl_length. reflexivity.
Qed.

(** per token: position in [pre ++ rest] = position in [rest] with the line shifted, and the line the
    position quotes is the line of [rest] *)
Theorem rest_token_location lx file pre rest tp eofp lp toks lines t :
  lexicon_ok lx = true -> ends_nl pre ->
  scan lx file pre = ScanOk (tp ++ [eofp]) lp ->
  scan lx file rest = ScanOk toks lines ->
  In t toks -> t_type t <> T_COMMENT ->
  exists off lines',
    scan lx file (pre ++ rest) = ScanOk (tp ++ map (shift_tok (count_nl pre)) toks) lines' /\
    tok_at rest file off t /\
    t_pos (shift_tok (count_nl pre) t) =
      Some {| tp_line := Z.of_nat (count_nl pre + line_of rest off); tp_col := col_of rest off; tp_file := file |} /\
    nth_error lines' (count_nl pre + line_of rest off) = Some (line_text rest (line_of rest off)).
Proof.
  intros Hlx Hend Hp Hr Hin Hnc.
  destruct (scan_behind_prefix lx file pre rest tp eofp lp toks lines Hlx Hend Hp Hr) as [E HL].
  pose proof (token_pos_correct lx file rest toks lines Hlx Hr) as HT. rewrite Forall_forall in HT.
  destruct (HT t Hin) as [Hc|(off & Hat & Hline)]; [contradiction|].
  exists off, (removelast lp ++ lines). split; [exact E|]. split; [exact Hat|]. split.
  - destruct Hat as (Hpos & _). unfold shift_tok. cbn [t_pos]. rewrite Hpos. cbn [option_map tp_line tp_col tp_file].
    do 2 f_equal. lia.
  - rewrite nth_error_app2 by lia. rewrite HL. replace (count_nl pre + line_of rest off - count_nl pre)%nat with (line_of rest off) by lia.
    exact Hline.
Qed.

(** ** L4 — comment / blank lines in front of a source text *)

(** the token relation: the same token, [k] lines further down *)
Definition shifted (k : nat) (t t' : token) : Prop := t' = shift_tok k t.
Lemma shifted_type k t t' : shifted k t t' -> t_type t' = t_type t.
Proof. intros ->. reflexivity. Qed.
Lemma shifted_value k t t' : shifted k t t' -> t_value t' = t_value t.
Proof. intros ->. reflexivity. Qed.
Lemma shifted_eof k : shifted k eof_token eof_token.
Proof. reflexivity. Qed.
Lemma shifted_list k toks : Forall2 (shifted k) toks (map (shift_tok k) toks).
Proof. induction toks; cbn [map]; constructor; auto. reflexivity. Qed.
Lemma oT_shifted k o o' : oT (shifted k) o o' -> o' = option_map (shift_tok k) o.
Proof. destruct o, o'; cbn; intros H; try contradiction; [rewrite H|]; reflexivity. Qed.

(** results equal up to the line of every reported position *)
Definition result_shifted (k : nat) (r r' : aresult) : Prop :=
  match r, r' with
  | AOk o _, AOk o' _ => o_blocks o = o_blocks o' /\ o_labels o = o_labels o'
  | AScanError f e, AScanError f' e' =>
      f = f' /\ se_msg e' = se_msg e /\ se_line e' = se_line e + Z.of_nat k /\ se_col e' = se_col e /\
      se_quoted e' = se_quoted e
  | AParseError t, AParseError t' => t' = option_map (shift_tok k) t
  | AExc kd s, AExc kd' s' => kd = kd' /\ s' = option_map (shift_tok k) s
  | AFuel, AFuel => True
  | _, _ => False
  end.

(** the line a position of the main file quotes (file.lines[line]) *)
Definition source_line (lx : lexicon) (file src : str) (line : Z) : option str :=
  match scan lx file src with
  | ScanOk _ lines => py_index lines line
  | ScanErr e => py_index (se_lines e) line
  | _ => None
  end.

Lemma py_index_app_shift {A} (L l : list A) (z : Z) : 0 <= z ->
  py_index (L ++ l) (z + Z.of_nat (length L)) = py_index l z.
Proof.
  intros Hz. unfold py_index.
  destruct (Z.leb_spec 0 (z + Z.of_nat (length L))); [|lia]. destruct (Z.leb_spec 0 z); [|lia].
  rewrite nth_error_app2 by lia. f_equal. lia.
Qed.

(** [assemble_program] only ever succeeds, raises, or runs out of fuel *)
Lemma assemble_program_shape w c prog :
  match assemble_program w c prog with AScanError _ _ | AParseError _ => False | _ => True end.
Proof.
  unfold assemble_program. destruct (initial_resolver w c); try exact I.
  destruct (code_gen_fuel w cg_depth _ prog) as [[s ns]| |]; try exact I.
  destruct (assemble_nodes w (cg_r s) ns); exact I.
Qed.

Section Front.
  Variable t : live.
  Variable fs : srcfiles.
  Variable c : config.
  Variable fname : str.
  Variables pad : str.
  Variables (cp : list token) (eofp : token) (lp : list str).
  Hypothesis Hlx : lexicon_ok (lv_lex t) = true.
  Hypothesis Hend : ends_nl pad.
  Hypothesis Hpad : scan (lv_lex t) fname pad = ScanOk (cp ++ [eofp]) lp.
  Hypothesis Hcomments : Forall (fun x => t_type x = T_COMMENT) cp.
  (** no [.include] is resolved (every include fails the same way in both runs) *)
  Hypothesis Hnoinc : sf_text fs = [].

  Let k := count_nl pad.

  Lemma pad_lines : length (removelast lp) = k.
  Proof.
    rewrite (scan_lines_correct _ _ _ _ _ Hlx Hpad), removelast_len, split_nl_length. reflexivity.
  Qed.

  Lemma include_fails name : exists kd, include_tokens t fs name = Err kd.
  Proof. unfold include_tokens. rewrite Hnoinc. cbn [assoc_str]. eauto. Qed.

  (** C17, composed: [pad] in front of [src] shifts every reported position by [count_nl pad] lines *)
  Theorem leading_lines_shift src :
    result_shifted k (assemble_source t fs c fname src) (assemble_source t fs c fname (pad ++ src)).
  Proof.
    unfold assemble_source.
    rewrite (scan_line_compositional (lv_lex t) fname pad src cp eofp lp Hlx Hend Hpad). fold k.
    destruct (scan (lv_lex t) fname src) as [toks lines|e| |]; cbn [shift_result].
    - pose proof (parse_program_related (shifted k) (shifted_type k) (shifted_value k) (shifted_eof k)
                    (include_tokens t fs) include_depth cp toks (map (shift_tok k) toks)
                    include_fails Hcomments (shifted_list k toks)) as HP.
      destruct (parse_program (parse_fuel (length toks)) include_depth (include_tokens t fs) toks) as [prog|kd tok|tok|],
               (parse_program (parse_fuel (length (cp ++ map (shift_tok k) toks))) include_depth (include_tokens t fs)
                              (cp ++ map (shift_tok k) toks)) as [prog'|kd' tok'|tok'|];
        cbn [prel] in HP; try contradiction.
      + pose proof (assemble_program_rel (shifted k) (shifted_type k) (shifted_value k) (world_of t fs) c prog prog' HP) as HA.
        pose proof (assemble_program_shape (world_of t fs) c prog) as HSh.
        destruct (assemble_program (world_of t fs) c prog) as [o fin|f e|tk|kd s|],
                 (assemble_program (world_of t fs) c prog') as [o' fin'|f' e'|tk'|kd' s'|]; cbn [aresrel] in HA; try contradiction;
          cbn [result_shifted].
        * destruct HA as [(A & B & _) _]. auto.
        * destruct HA as [-> HS]. split; [reflexivity|apply oT_shifted; exact HS].
        * exact I.
      + destruct HP as [<- HT]. apply oT_shifted in HT. subst tok'.
        destruct kd; try rewrite Hnoinc; cbn [first_include_scan_error]; cbv beta iota; cbn [result_shifted];
          try (split; reflexivity); reflexivity.
      + cbn [result_shifted]. split; reflexivity.
      + exact I.
    - cbn [se_quoted]. destruct (se_quoted e) as [q|] eqn:Eq; cbn [result_shifted se_msg se_line se_col se_quoted]; auto.
    - cbn [result_shifted]. split; reflexivity.
    - exact I.
  Qed.

  (** ... and the text it quotes is the same *)
  Theorem leading_lines_quote src line : 0 <= line ->
    source_line (lv_lex t) fname (pad ++ src) (line + Z.of_nat k) = source_line (lv_lex t) fname src line.
  Proof.
    intros Hl. unfold source_line.
    rewrite (scan_line_compositional (lv_lex t) fname pad src cp eofp lp Hlx Hend Hpad). fold k.
    rewrite <- pad_lines.
    destruct (scan (lv_lex t) fname src) as [toks lines|e| |]; cbn [shift_result se_lines]; try reflexivity;
      apply py_index_app_shift; exact Hl.
  Qed.
End Front.

(** ** Two different prefixes with the same statements

    [pre1] and [pre2] are whole-line prefixes whose token streams agree in type and value (the same
    statements, laid out differently: other blank lines, indentation, spacing, line breaks).  Then
    [pre1 ++ rest] and [pre2 ++ rest] assemble alike, and whatever is reported at a position of the
    [rest] part (line >= count_nl pre1) is reported [count_nl pre2 - count_nl pre1] lines further:
    the location depends on the prefix only through its number of lines. *)
Definition beyond (k1 : nat) (t : token) : Prop := exists p, t_pos t = Some p /\ Z.of_nat k1 <= tp_line p.
Definition reline (d : Z) (p : tpos) : tpos := {| tp_line := tp_line p + d; tp_col := tp_col p; tp_file := tp_file p |}.
Definition relined (k1 : nat) (d : Z) (t t' : token) : Prop :=
  t_type t' = t_type t /\ t_value t' = t_value t /\ (beyond k1 t -> t_pos t' = option_map (reline d) (t_pos t)).

Definition result_relined (k1 : nat) (d : Z) (r r' : aresult) : Prop :=
  match r, r' with
  | AOk o _, AOk o' _ => o_blocks o = o_blocks o' /\ o_labels o = o_labels o'
  | AScanError f e, AScanError f' e' =>
      f = f' /\ se_msg e' = se_msg e /\ se_line e' = se_line e + d /\ se_col e' = se_col e /\ se_quoted e' = se_quoted e
  | AParseError t, AParseError t' => oT (relined k1 d) t t'
  | AExc kd s, AExc kd' s' => kd = kd' /\ oT (relined k1 d) s s'
  | AFuel, AFuel => True
  | _, _ => False
  end.

Lemma relined_prefix k1 d a b :
  Forall2 (fun x y => t_type y = t_type x /\ t_value y = t_value x) a b ->
  Forall (fun x => forall p, t_pos x = Some p -> tp_line p < Z.of_nat k1) a ->
  Forall2 (relined k1 d) a b.
Proof.
  induction 1 as [|x y a b [Hty Hv] _ IH]; intros Hl; [constructor|].
  inversion Hl as [|? ? Hx Hrest]; subst. constructor; [|apply IH; exact Hrest].
  split; [exact Hty|split; [exact Hv|]]. intros (p & Hp & Hge). specialize (Hx p Hp). lia.
Qed.

Section TwoPrefixes.
  Variable t : live.
  Variable fs : srcfiles.
  Variable c : config.
  Variable fname : str.
  Variables pre1 pre2 : str.
  Variables (tp1 tp2 : list token) (e1 e2 : token) (l1 l2 : list str).
  Hypothesis Hlx : lexicon_ok (lv_lex t) = true.
  Hypothesis Hend1 : ends_nl pre1.
  Hypothesis Hend2 : ends_nl pre2.
  Hypothesis Hs1 : scan (lv_lex t) fname pre1 = ScanOk (tp1 ++ [e1]) l1.
  Hypothesis Hs2 : scan (lv_lex t) fname pre2 = ScanOk (tp2 ++ [e2]) l2.
  (** the prefixes have the same token stream up to positions *)
  Hypothesis Hsame : Forall2 (fun x y => t_type y = t_type x /\ t_value y = t_value x) tp1 tp2.
  (** the tokens of the first prefix lie on its own lines (true of every non-comment token by
      [token_pos_correct]; stated for all of them so that comment tokens are covered) *)
  Hypothesis Hlines : Forall (fun x => forall p, t_pos x = Some p -> tp_line p < Z.of_nat (count_nl pre1)) tp1.
  Hypothesis Hnoinc : sf_text fs = [].

  Let k1 := count_nl pre1.
  Let k2 := count_nl pre2.
  Let d := Z.of_nat k2 - Z.of_nat k1.

  Lemma relined_type x y : relined k1 d x y -> t_type y = t_type x. Proof. intros H; apply H. Qed.
  Lemma relined_value x y : relined k1 d x y -> t_value y = t_value x. Proof. intros H; apply H. Qed.
  Lemma relined_eof : relined k1 d eof_token eof_token.
  Proof. split; [reflexivity|split; [reflexivity|]]. intros (p & Hp & _). discriminate. Qed.

  Lemma relined_rest x : relined k1 d (shift_tok k1 x) (shift_tok k2 x).
  Proof.
    split; [reflexivity|split; [reflexivity|]]. intros _. unfold shift_tok. cbn [t_pos].
    destruct (t_pos x) as [p|]; cbn [option_map]; [|reflexivity]. unfold reline. cbn [tp_line tp_col tp_file].
    do 2 f_equal. unfold d. lia.
  Qed.

  Lemma relined_tokens toks : Forall2 (relined k1 d) (tp1 ++ map (shift_tok k1) toks) (tp2 ++ map (shift_tok k2) toks).
  Proof.
    apply Forall2_app.
    - apply relined_prefix; [exact Hsame|exact Hlines].
    - induction toks as [|x toks IH]; cbn [map]; constructor; [apply relined_rest|exact IH].
  Qed.

  Lemma include_fails2 name : exists kd, include_tokens t fs name = Err kd.
  Proof. unfold include_tokens. rewrite Hnoinc. cbn [assoc_str]. eauto. Qed.

  Theorem prefix_only_counts rest :
    result_relined k1 d (assemble_source t fs c fname (pre1 ++ rest)) (assemble_source t fs c fname (pre2 ++ rest)).
  Proof.
    unfold assemble_source.
    rewrite (scan_line_compositional (lv_lex t) fname pre1 rest tp1 e1 l1 Hlx Hend1 Hs1).
    rewrite (scan_line_compositional (lv_lex t) fname pre2 rest tp2 e2 l2 Hlx Hend2 Hs2). fold k1 k2.
    destruct (scan (lv_lex t) fname rest) as [toks lines|e| |]; cbn [shift_result].
    - pose proof (parse_program_related (relined k1 d) relined_type relined_value relined_eof
                    (include_tokens t fs) include_depth [] _ _ include_fails2 (Forall_nil _) (relined_tokens toks)) as HP.
      cbn [app] in HP.
      destruct (parse_program (parse_fuel (length (tp1 ++ map (shift_tok k1) toks))) include_depth (include_tokens t fs) _) as [prog|kd tok|tok|],
               (parse_program (parse_fuel (length (tp2 ++ map (shift_tok k2) toks))) include_depth (include_tokens t fs) _) as [prog'|kd' tok'|tok'|];
        cbn [prel] in HP; try contradiction.
      + pose proof (assemble_program_rel (relined k1 d) relined_type relined_value (world_of t fs) c prog prog' HP) as HA.
        pose proof (assemble_program_shape (world_of t fs) c prog) as HSh.
        destruct (assemble_program (world_of t fs) c prog) as [o fin|f e|tk|kd s|],
                 (assemble_program (world_of t fs) c prog') as [o' fin'|f' e'|tk'|kd' s'|]; cbn [aresrel] in HA; try contradiction;
          cbn [result_relined].
        * destruct HA as [(A & B & _) _]. auto.
        * exact HA.
        * exact I.
      + destruct HP as [<- HT].
        destruct kd; try rewrite Hnoinc; cbn [first_include_scan_error]; cbv beta iota; cbn [result_relined];
          try (split; [reflexivity|exact I]); try exact HT.
      + cbn [result_relined]. split; [reflexivity|exact I].
      + exact I.
    - cbn [se_quoted]. destruct (se_quoted e) as [q|] eqn:Eq; cbn [result_relined se_msg se_line se_col se_quoted].
      + repeat split; auto. unfold d. lia.
      + split; [reflexivity|exact I].
    - cbn [result_relined]. split; [reflexivity|exact I].
    - exact I.
  Qed.

  (** what [result_relined] says about a reported site of the rest part *)
  Corollary prefix_only_counts_site rest kd s p :
    assemble_source t fs c fname (pre1 ++ rest) = AExc kd (Some s) ->
    t_pos s = Some p -> Z.of_nat k1 <= tp_line p ->
    exists s', assemble_source t fs c fname (pre2 ++ rest) = AExc kd (Some s') /\
               t_type s' = t_type s /\ t_value s' = t_value s /\
               t_pos s' = Some {| tp_line := tp_line p + d; tp_col := tp_col p; tp_file := tp_file p |}.
  Proof.
    intros E Hp Hge. pose proof (prefix_only_counts rest) as H. rewrite E in H.
    destruct (assemble_source t fs c fname (pre2 ++ rest)) as [| | |kd' [s'|]|]; cbn [result_relined oT] in H; try contradiction;
      destruct H as [<- H]; try contradiction.
    exists s'. destruct H as (Hty & Hv & Hpos). refine (conj eq_refl (conj Hty (conj Hv _))).
    rewrite Hpos by (exists p; auto). rewrite Hp. reflexivity.
  Qed.
End TwoPrefixes.

(** ** Example: a 3-line program whose third line refers to an undefined name *)
Module LocationExamples.
  Definition t0 : live :=
    {| lv_low := BusProofs.lorom; lv_high := BusProofs.hirom; lv_busmap := [(0, true); (1, true); (2, false)];
       lv_optable := []; lv_prec := []; lv_lex := mk_lexicon [] [] [[100; 98]] |}.
  Definition cfg0 : config := {| cf_rom := None; cf_defines := [] |}.
  Definition fname : str := [109].
  (** [".db 1\n.db 2\n.db nope\n"] *)
  Definition src : str := [46;100;98;32;49;10] ++ [46;100;98;32;50;10] ++ [46;100;98;32;110;111;112;101;10].
  (** ["; c\n\n"]: a comment line and a blank line *)
  Definition pad : str := [59;32;99;10;10].

  Definition where_ (r : aresult) : option (errk * option (Z * Z)) :=
    match r with
    | AExc k (Some tk) => Some (k, match t_pos tk with Some p => Some (tp_line p, tp_col p) | None => None end)
    | AExc k None => Some (k, None)
    | _ => None
    end.

  Example lexicon_fine : lexicon_ok (lv_lex t0) = true. Proof. reflexivity. Qed.
  Example reported_plain : where_ (assemble_source t0 no_srcfiles cfg0 fname src) = Some (ENode, Some (2, 1)).
  Proof. vm_compute. reflexivity. Qed.
  Example reported_padded : where_ (assemble_source t0 no_srcfiles cfg0 fname (pad ++ src)) = Some (ENode, Some (4, 1)).
  Proof. vm_compute. reflexivity. Qed.
  Example quoted_plain : source_line (lv_lex t0) fname src 2 = Some [46;100;98;32;110;111;112;101].
  Proof. vm_compute. reflexivity. Qed.
  Example quoted_padded : source_line (lv_lex t0) fname (pad ++ src) 4 = Some [46;100;98;32;110;111;112;101].
  Proof. vm_compute. reflexivity. Qed.

  (** the theorem applies: the pad scans to one COMMENT token, the program opens no include *)
  Example pad_is_layout : match scan (lv_lex t0) fname pad with
                          | ScanOk [c; e] l => t_type c = T_COMMENT /\ count_nl pad = 2%nat
                          | _ => False end.
  Proof. vm_compute. split; reflexivity. Qed.
  Example by_theorem :
    result_shifted 2 (assemble_source t0 no_srcfiles cfg0 fname src) (assemble_source t0 no_srcfiles cfg0 fname (pad ++ src)).
  Proof.
    pose proof pad_is_layout as H.
    destruct (scan (lv_lex t0) fname pad) as [[|c [|e [|x y]]] l| | |] eqn:E; try contradiction.
    destruct H as [Hc Hn]. change 2%nat with (count_nl pad).
    apply (leading_lines_shift t0 no_srcfiles cfg0 fname pad [c] e l lexicon_fine); auto.
    - exists [59;32;99;10]%Z. reflexivity.
  Qed.

  (** two layouts of the same prefix: [".db 1\n.db 2\n"] and [".db 1\n\n\n  .db 2\n"], then [".db nope\n"] *)
  Definition pre1 : str := [46;100;98;32;49;10] ++ [46;100;98;32;50;10].
  Definition pre2 : str := [46;100;98;32;49;10] ++ [10;10] ++ [32;32;46;100;98;32;50;10].
  Definition rest : str := [46;100;98;32;110;111;112;101;10].
  Definition toks_of (r : scan_result) : list token := match r with ScanOk toks _ => toks | _ => [] end.
  Definition lines_of (r : scan_result) : list str := match r with ScanOk _ l => l | _ => [] end.
  Definition tp1 := Eval vm_compute in removelast (toks_of (scan (lv_lex t0) fname pre1)).
  Definition ep1 := Eval vm_compute in last (toks_of (scan (lv_lex t0) fname pre1)) eof_token.
  Definition lp1 := Eval vm_compute in lines_of (scan (lv_lex t0) fname pre1).
  Definition tp2 := Eval vm_compute in removelast (toks_of (scan (lv_lex t0) fname pre2)).
  Definition ep2 := Eval vm_compute in last (toks_of (scan (lv_lex t0) fname pre2)) eof_token.
  Definition lp2 := Eval vm_compute in lines_of (scan (lv_lex t0) fname pre2).
  Example scan_pre1 : scan (lv_lex t0) fname pre1 = ScanOk (tp1 ++ [ep1]) lp1. Proof. vm_compute. reflexivity. Qed.
  Example scan_pre2 : scan (lv_lex t0) fname pre2 = ScanOk (tp2 ++ [ep2]) lp2. Proof. vm_compute. reflexivity. Qed.
  Example same_stream : Forall2 (fun x y => t_type y = t_type x /\ t_value y = t_value x) tp1 tp2.
  Proof. repeat constructor. Qed.
  Example own_lines : Forall (fun x => forall p, t_pos x = Some p -> tp_line p < Z.of_nat (count_nl pre1)) tp1.
  Proof. repeat constructor; intros p Hp; inversion Hp; subst; vm_compute; reflexivity. Qed.
  Example reported_pre1 : where_ (assemble_source t0 no_srcfiles cfg0 fname (pre1 ++ rest)) = Some (ENode, Some (2, 1)).
  Proof. vm_compute. reflexivity. Qed.
  Example reported_pre2 : where_ (assemble_source t0 no_srcfiles cfg0 fname (pre2 ++ rest)) = Some (ENode, Some (4, 1)).
  Proof. vm_compute. reflexivity. Qed.
  Example by_prefix_theorem :
    result_relined (count_nl pre1) (Z.of_nat (count_nl pre2) - Z.of_nat (count_nl pre1))
      (assemble_source t0 no_srcfiles cfg0 fname (pre1 ++ rest)) (assemble_source t0 no_srcfiles cfg0 fname (pre2 ++ rest)).
  Proof.
    apply (prefix_only_counts t0 no_srcfiles cfg0 fname pre1 pre2 tp1 tp2 ep1 ep2 lp1 lp2 lexicon_fine);
      auto using scan_pre1, scan_pre2, same_stream, own_lines.
    - exists ([46;100;98;32;49;10] ++ [46;100;98;32;50])%Z. reflexivity.
    - exists ([46;100;98;32;49;10] ++ [10;10] ++ [32;32;46;100;98;32;50])%Z. reflexivity.
  Qed.
End LocationExamples.

Print Assumptions leading_lines_shift.
Print Assumptions leading_lines_quote.
Print Assumptions prefix_only_counts.
Print Assumptions prefix_only_counts_site.
Print Assumptions rest_token_location.
Print Assumptions scan_behind_prefix.
