(** C17 (composition), part L2 — the parser never looks at token positions.

    Two token lists whose tokens correspond, from some offset [d] on, by a relation [T] that
    preserves type and value (e.g. "same token, [k] lines further down", after [d] leading COMMENT
    tokens) are parsed to the same result up to [T]: the ASTs are equal except that the tokens they
    store (file_info tokens, expression tokens) are [T]-related, a syntax error names [T]-related
    tokens, positions are [d] further. *)
From Coq Require Import Arith Lia List Bool ZArith.
From A816 Require Import Model.Parser Proofs.ParserProofs Proofs.ParserFuelProofs.
Open Scope nat_scope.

Section Rel.
  Variable T : token -> token -> Prop.
  Hypothesis T_type : forall t t', T t t' -> t_type t' = t_type t.
  Hypothesis T_value : forall t t', T t t' -> t_value t' = t_value t.

  Definition oT (o o' : option token) : Prop :=
    match o, o' with Some x, Some x' => T x x' | None, None => True | _, _ => False end.

  (** ** ASTs equal up to their tokens *)
  Definition enrel (e e' : enode) : Prop := en_kind e = en_kind e' /\ T (en_tok e) (en_tok e').
  Definition erel : expr -> expr -> Prop := Forall2 enrel.
  Definition oerel (o o' : option expr) : Prop :=
    match o, o' with Some x, Some x' => erel x x' | None, None => True | _, _ => False end.

  Inductive arel : ast -> ast -> Prop :=
  | R_Block b b' fi fi' : Forall2 arel b b' -> T fi fi' -> arel (ABlock b fi) (ABlock b' fi')
  | R_Compound b b' fi fi' : Forall2 arel b b' -> T fi fi' -> arel (ACompound b fi) (ACompound b' fi')
  | R_Label n fi fi' : T fi fi' -> arel (ALabel n fi) (ALabel n fi')
  | R_Text s fi fi' : T fi fi' -> arel (AText s fi) (AText s fi')
  | R_Ascii s fi fi' : T fi fi' -> arel (AAscii s fi) (AAscii s fi')
  | R_Scope n b b' bf bf' fi fi' : Forall2 arel b b' -> T bf bf' -> T fi fi' ->
      arel (AScope n b bf fi) (AScope n b' bf' fi')
  | R_StarEq e e' fi fi' : erel e e' -> T fi fi' -> arel (AStarEq e fi) (AStarEq e' fi')
  | R_AtEq e e' fi fi' : erel e e' -> T fi fi' -> arel (AAtEq e fi) (AAtEq e' fi')
  | R_Map a fi fi' : T fi fi' -> arel (AMap a fi) (AMap a fi')
  | R_If_none c c' th th' tf tf' fi fi' : erel c c' -> Forall2 arel th th' -> T tf tf' -> T fi fi' ->
      arel (AIf c th tf None fi) (AIf c' th' tf' None fi')
  | R_If_some c c' th th' tf tf' eb eb' ef ef' fi fi' :
      erel c c' -> Forall2 arel th th' -> T tf tf' -> Forall2 arel eb eb' -> T ef ef' -> T fi fi' ->
      arel (AIf c th tf (Some (eb, ef)) fi) (AIf c' th' tf' (Some (eb', ef')) fi')
  | R_Macro n ps b b' bf bf' fi fi' : Forall2 arel b b' -> T bf bf' -> T fi fi' ->
      arel (AMacro n ps b bf fi) (AMacro n ps b' bf' fi')
  | R_MacroApply n args args' fi fi' : Forall2 mrel args args' -> T fi fi' ->
      arel (AMacroApply n args fi) (AMacroApply n args' fi')
  | R_Data k es es' fi fi' : Forall2 erel es es' -> T fi fi' -> arel (AData k es fi) (AData k es' fi')
  | R_Table p fi fi' : T fi fi' -> arel (ATable p fi) (ATable p fi')
  | R_IncludeIps p e e' fi fi' : erel e e' -> T fi fi' -> arel (AIncludeIps p e fi) (AIncludeIps p e' fi')
  | R_Incbin p fi fi' : T fi fi' -> arel (AIncbin p fi) (AIncbin p fi')
  | R_Symbol n e e' fi fi' : erel e e' -> T fi fi' -> arel (ASymbol n e fi) (ASymbol n e' fi')
  | R_Assign n e e' fi fi' : erel e e' -> T fi fi' -> arel (AAssign n e fi) (AAssign n e' fi')
  | R_CodeLookup n fi fi' : T fi fi' -> arel (ACodeLookup n fi) (ACodeLookup n fi')
  | R_Struct n fs fi fi' : T fi fi' -> arel (AStruct n fs fi) (AStruct n fs fi')
  | R_For v lo lo' hi hi' b b' bf bf' fi fi' :
      erel lo lo' -> erel hi hi' -> Forall2 arel b b' -> T bf bf' -> T fi fi' ->
      arel (AFor v lo hi b bf fi) (AFor v lo' hi' b' bf' fi')
  | R_Opcode m op sz o o' idx fi fi' : oerel o o' -> T fi fi' ->
      arel (AOpcode m op sz o idx fi) (AOpcode m op sz o' idx fi')
  with mrel : (expr + (list ast * token)) -> (expr + (list ast * token)) -> Prop :=
  | M_expr e e' : erel e e' -> mrel (inl e) (inl e')
  | M_code b b' fi fi' : Forall2 arel b b' -> T fi fi' -> mrel (inr (b, fi)) (inr (b', fi')).

  Definition asrel : list ast -> list ast -> Prop := Forall2 arel.
  Definition msrel : margs -> margs -> Prop := Forall2 mrel.

  (** ** Results *)
  Definition prel {A} (RA : A -> A -> Prop) (r r' : pres A) : Prop :=
    match r, r' with
    | POk a, POk a' => RA a a'
    | PErr k t, PErr k' t' => k = k' /\ oT t t'
    | PUnrep t, PUnrep t' => oT t t'
    | PFuel, PFuel => True
    | _, _ => False
    end.

  Lemma prel_bind {A B} (RA : A -> A -> Prop) (RB : B -> B -> Prop) r r' k k' :
    prel RA r r' -> (forall a a', RA a a' -> prel RB (k a) (k' a')) -> prel RB (pbind r k) (pbind r' k').
  Proof. destruct r, r'; cbn [prel pbind]; intros H Hk; auto; contradiction. Qed.

  Lemma prel_expect {A} (RA : A -> A -> Prop) t t' ty k k' :
    T t t' -> prel RA k k' -> prel RA (expect t ty k) (expect t' ty k').
  Proof.
    intros Ht Hk. unfold expect, is_ty. rewrite (T_type _ _ Ht).
    destruct (ttype_eqb (t_type t) ty); [exact Hk|]. cbn. auto.
  Qed.

  Lemma prel_impl {A} (RA RB : A -> A -> Prop) r r' : (forall a a', RA a a' -> RB a a') -> prel RA r r' -> prel RB r r'.
  Proof. destruct r, r'; cbn [prel]; auto. Qed.

  Section Lists.
    Variables ts ts' : list token.
    Variable d : nat.
    Hypothesis Hcur : forall q, T (cur ts q) (cur ts' (d + q)).

    (** value and position, [d] further on the right *)
    Definition at_d {A} (RA : A -> A -> Prop) (x x' : A * nat) : Prop := RA (fst x) (fst x') /\ snd x' = d + snd x.
    Definition Rrel {A} (RA : A -> A -> Prop) : R A -> R A -> Prop := prel (at_d RA).

    Lemma isty q ty : is_ty (cur ts' (d + q)) ty = is_ty (cur ts q) ty.
    Proof. unfold is_ty. rewrite (T_type _ _ (Hcur q)). reflexivity. Qed.
    Lemma tval q : t_value (cur ts' (d + q)) = t_value (cur ts q).
    Proof. apply T_value, Hcur. Qed.
    Lemma ttyp q : t_type (cur ts' (d + q)) = t_type (cur ts q).
    Proof. apply T_type, Hcur. Qed.
    Lemma peek_d q : peek ts' (d + q) = cur ts' (d + S q).
    Proof. unfold peek, cur. rewrite <- plus_n_Sm. reflexivity. Qed.

    Lemma perr_d {A} (RA : A -> A -> Prop) q : prel RA (PErr EParse (Some (cur ts q))) (PErr EParse (Some (cur ts' (d + q)))).
    Proof. cbn. split; [reflexivity|apply Hcur]. Qed.

    Lemma en_rel k q : enrel (en k (cur ts q)) (en k (cur ts' (d + q))).
    Proof. split; [reflexivity|apply Hcur]. Qed.

    (** normalise positions on the right to the form [d + _], tests and values to the left list *)
    Lemma backup_d {A} q (k : nat -> pres A) : backup (d + S q) k = k (d + q).
    Proof. rewrite <- plus_n_Sm. reflexivity. Qed.

    Lemma peek_cur (l : list token) q : peek l q = cur l (S q).
    Proof. reflexivity. Qed.

    Ltac norm := cbv beta iota zeta; rewrite ?peek_d; rewrite ?peek_cur; rewrite ?plus_n_Sm; rewrite ?backup_d; cbn [backup]; rewrite ?isty, ?tval, ?ttyp;
                 cbv beta iota zeta.

    Ltac pair_in H :=
      match type of H with
      | at_d _ ?x ?x' => destruct x as [? ?], x' as [? ?]; destruct H as [? H]; cbn [fst snd] in *; subst
      end.

    Lemma pexpr_rel f : forall pos, Rrel erel (pexpr ts f pos) (pexpr ts' f (d + pos)).
    Proof.
      induction f as [|f IH]; intro pos; [exact I|].
      rewrite !pexpr_S. norm.
      eapply prel_bind with (RA := at_d erel).
      - destruct (is_ty (cur ts pos) T_LPAREN).
        + eapply prel_bind; [apply IH|]. intros x x' Hx. pair_in Hx. norm.
          apply prel_expect; [apply Hcur|]. cbn. split; cbn [fst snd]; [|lia].
          constructor; [apply en_rel|]. apply Forall2_app; [assumption|]. constructor; [apply en_rel|constructor].
        + destruct (is_ty (cur ts pos) T_NUMBER || is_ty (cur ts pos) T_BOOLEAN || is_ty (cur ts pos) T_IDENTIFIER).
          * cbn. split; cbn [fst snd]; [|lia]. constructor; [apply en_rel|constructor].
          * destruct (is_ty (cur ts pos) T_OPERATOR && (str_eqb (t_value (cur ts pos)) k_minus || str_eqb (t_value (cur ts pos)) k_tilde)).
            -- eapply prel_bind; [apply IH|]. intros x x' Hx. pair_in Hx. cbn. split; cbn [fst snd]; [|reflexivity].
               constructor; [apply en_rel|assumption].
            -- apply perr_d.
      - intros x x' Hx. pair_in Hx.
        match goal with H : erel ?l ?l' |- _ => destruct H as [|e0 e0' l0 l0' He0 Hl0] end.
        + cbn. split; cbn [fst snd]; [constructor|reflexivity].
        + norm. destruct (is_ty (cur ts _) T_OPERATOR).
          * eapply prel_bind; [apply IH|]. intros y y' Hy. pair_in Hy. cbn. split; cbn [fst snd]; [|reflexivity].
            constructor; [assumption|]. apply Forall2_app; [|assumption]. apply Forall2_app; [assumption|].
            constructor; [apply en_rel|constructor].
          * cbn. split; cbn [fst snd]; [constructor; assumption|reflexivity].
    Qed.

    Ltac leaf := cbn [prel]; unfold at_d; cbn [fst snd]; repeat split; try reflexivity; try lia;
                 try (constructor; eauto using en_rel); eauto using en_rel.

    Ltac pstep :=
      match goal with
      | |- prel _ (pbind _ _) (pbind _ _) =>
          eapply prel_bind;
          [solve [eauto with prl]
          |let x := fresh "x" in let x' := fresh "x'" in let Hx := fresh "Hx" in
           intros x x' Hx; try pair_in Hx; norm]
      | |- prel _ (expect _ ?ty _) (expect _ ?ty _) => apply prel_expect; [apply Hcur|]
      | |- prel _ (if ?c then _ else _) (if ?c then _ else _) => destruct c eqn:?
      | |- prel _ (match ?x with _ => _ end) (match ?x with _ => _ end) => destruct x eqn:?
      | |- prel _ (PErr EParse (Some (cur ts _))) _ => apply perr_d
      | |- prel _ (POk _) (POk _) => leaf
      | |- prel _ (PErr _ None) (PErr _ None) => cbn; auto
      | |- prel _ PFuel PFuel => exact I
      end.
    Ltac go := norm; repeat pstep; try solve [leaf].

    Hint Resolve pexpr_rel : prl.

    Lemma pexpression_rel f pos : prel (at_d erel) (pexpression ts f pos) (pexpression ts' f (d + pos)).
    Proof.
      unfold pexpression. eapply prel_bind; [apply pexpr_rel|]. intros x x' Hx. pair_in Hx.
      match goal with H : erel ?l ?l' |- _ => destruct H end; cbn; auto.
      split; cbn [fst snd]; [constructor; assumption|reflexivity].
    Qed.
    Hint Resolve pexpression_rel : prl.

    Lemma pmacro_args_loop_rel f : forall pos acc,
      prel (at_d eq) (pmacro_args_loop ts f pos acc) (pmacro_args_loop ts' f (d + pos) acc).
    Proof.
      induction f as [|f IH]; intros pos acc; [exact I|]. cbn [pmacro_args_loop]. go; apply IH.
    Qed.
    Hint Resolve pmacro_args_loop_rel : prl.
    Lemma pmacro_args_rel f pos : prel (at_d eq) (pmacro_args ts f pos) (pmacro_args ts' f (d + pos)).
    Proof. unfold pmacro_args. go. apply pmacro_args_loop_rel. Qed.
    Hint Resolve pmacro_args_rel : prl.

    Definition psrel (ps ps' : poison) : Prop := oT (fst ps) (fst ps') /\ oT (snd ps) (snd ps').

    Lemma map_assign_rel args ps ps' key q v : psrel ps ps' ->
      fst (map_assign args ps key (cur ts q) v) = fst (map_assign args ps' key (cur ts' (d + q)) v) /\
      psrel (snd (map_assign args ps key (cur ts q) v)) (snd (map_assign args ps' key (cur ts' (d + q)) v)).
    Proof.
      intros [H1 H2]. unfold map_assign. destruct (mapargs_set args key v); cbn [fst snd]; (split; [reflexivity|]);
        destruct key; cbn [poison_upd]; split; cbn [fst snd oT]; auto.
    Qed.

    Lemma pmap_loop_rel f : forall pos args ps ps', psrel ps ps' ->
      prel (at_d eq) (pmap_loop ts f pos args ps) (pmap_loop ts' f (d + pos) args ps').
    Proof.
      induction f as [|f IH]; intros pos args ps ps' Hps; [exact I|]. cbn [pmap_loop]. norm.
      destruct (is_ty (cur ts pos) T_IDENTIFIER).
      - apply prel_expect; [apply Hcur|].
        destruct (mapkey_of (t_value (cur ts pos))) as [key|]; [|apply perr_d].
        apply prel_expect; [apply Hcur|]. apply prel_expect; [apply Hcur|].
        unfold lit_eval. norm.
        destruct (is_ty (cur ts (S (S (S pos)))) T_COMMA).
        + apply prel_expect; [apply Hcur|]. norm.
          destruct (py_int_literal (t_value (cur ts (S (S pos))))) as [v1|]; [|cbn; auto].
          destruct (py_int_literal (t_value (cur ts (S (S (S (S pos))))))) as [v2|]; [|cbn; auto].
          destruct (map_assign_rel args ps ps' key pos (v1, Some v2) Hps) as [E P].
          destruct (map_assign args ps key (cur ts pos) (v1, Some v2)) as [a1 p1],
                   (map_assign args ps' key (cur ts' (d + pos)) (v1, Some v2)) as [a2 p2].
          cbn [fst snd] in E, P. subst a2. apply IH. exact P.
        + destruct (py_int_literal (t_value (cur ts (S (S pos))))) as [v1|]; [|cbn; auto].
          destruct (map_assign_rel args ps ps' key pos (v1, None) Hps) as [E P].
          destruct (map_assign args ps key (cur ts pos) (v1, None)) as [a1 p1],
                   (map_assign args ps' key (cur ts' (d + pos)) (v1, None)) as [a2 p2].
          cbn [fst snd] in E, P. subst a2. apply IH. exact P.
      - destruct ps as [[t1|] [t2|]], ps' as [[t1'|] [t2'|]]; destruct Hps as [H1 H2]; cbn [fst snd oT] in H1, H2;
          try contradiction; try solve [leaf]; cbn; auto.
    Qed.

    Lemma pmap_rel f pos : prel (at_d arel) (pmap ts f pos) (pmap ts' f (d + pos)).
    Proof.
      unfold pmap. norm. apply prel_expect; [apply Hcur|].
      eapply prel_bind; [apply pmap_loop_rel; split; exact I|]. intros x x' Hx. pair_in Hx. leaf.
    Qed.
    Hint Resolve pmap_rel : prl.

    Lemma pstruct_loop_rel f : forall pos fields,
      prel (at_d eq) (pstruct_loop ts f pos fields) (pstruct_loop ts' f (d + pos) fields).
    Proof.
      induction f as [|f IH]; intros pos fields; [exact I|]. cbn [pstruct_loop]. go; apply IH.
    Qed.
    Hint Resolve pstruct_loop_rel : prl.
    Lemma pstruct_rel f pos : prel (at_d arel) (pstruct ts f pos) (pstruct ts' f (d + pos)).
    Proof. unfold pstruct. go. Qed.
    Hint Resolve pstruct_rel : prl.

    Lemma pquoted_rel pos : prel (at_d eq) (pquoted ts pos) (pquoted ts' (d + pos)).
    Proof. unfold pquoted. go. Qed.
    Hint Resolve pquoted_rel : prl.
    Lemma pinclude_ips_rel f pos : prel (at_d arel) (pinclude_ips ts f pos) (pinclude_ips ts' f (d + pos)).
    Proof. unfold pinclude_ips. go. Qed.
    Lemma pcode_lookup_rel pos : prel (at_d arel) (pcode_lookup ts pos) (pcode_lookup ts' (d + pos)).
    Proof. unfold pcode_lookup. go. Qed.
    Lemma plabel_rel pos : prel (at_d arel) (plabel ts (S pos)) (plabel ts' (d + S pos)).
    Proof. unfold plabel. go. Qed.
    Lemma psymbol_rel f pos : prel (at_d arel) (psymbol ts f pos) (psymbol ts' f (d + pos)).
    Proof.
      unfold psymbol. norm.
      destruct (is_ty (cur ts (S pos)) T_EQUAL || is_ty (cur ts (S pos)) T_ASSIGN); [|apply perr_d].
      eapply prel_bind; [apply pexpression_rel|]. intros x x' Hx. pair_in Hx.
      cbn [prel]; unfold at_d; cbn [fst snd]. split; [|reflexivity].
      destruct (is_ty (cur ts (S pos)) T_EQUAL); constructor; auto.
    Qed.
    Lemma pstar_eq_rel f pos : prel (at_d arel) (pstar_eq ts f pos) (pstar_eq ts' f (d + pos)).
    Proof. unfold pstar_eq. go. Qed.
    Lemma pat_eq_rel f pos : prel (at_d arel) (pat_eq ts f pos) (pat_eq ts' f (d + pos)).
    Proof. unfold pat_eq. go. Qed.
    Hint Resolve pinclude_ips_rel pcode_lookup_rel plabel_rel psymbol_rel pstar_eq_rel pat_eq_rel : prl.

    Definition oprel (x x' : amode * option str * option expr) : Prop :=
      fst (fst x) = fst (fst x') /\ snd (fst x) = snd (fst x') /\ oerel (snd x) (snd x').

    Lemma poperand_rel f mode0 opc opc' pos : T opc opc' ->
      prel (at_d oprel) (poperand ts f mode0 opc pos) (poperand ts' f mode0 opc' (d + pos)).
    Proof.
      intros Hopc. unfold poperand. norm.
      replace (is_ty opc' T_OPCODE) with (is_ty opc T_OPCODE) by (unfold is_ty; rewrite (T_type _ _ Hopc); reflexivity).
      destruct (is_ty (cur ts pos) T_SHARP).
      { destruct (is_ty (cur ts (S pos)) T_EOF); [apply perr_d|].
        eapply prel_bind; [apply pexpression_rel|]. intros x x' Hx. pair_in Hx.
        cbn [prel]; unfold at_d; cbn [fst snd oprel]. repeat split; auto. }
      destruct (is_ty (cur ts pos) T_LPAREN).
      { eapply prel_bind; [apply pexpression_rel|]. intros x x' Hx. pair_in Hx. norm.
        match goal with |- context [is_ty (cur ts ?q) T_ADDRESSING_MODE_INDEX] =>
          destruct (is_ty (cur ts q) T_ADDRESSING_MODE_INDEX) end; norm.
        - apply prel_expect; [apply Hcur|]. norm.
          match goal with |- context [is_ty (cur ts ?q) T_OPERATOR] => destruct (is_ty (cur ts q) T_OPERATOR) end.
          + eapply prel_bind; [apply pexpression_rel|]. intros y y' Hy. pair_in Hy.
            cbn [prel]; unfold at_d; cbn [fst snd oprel]. repeat split; auto.
          + cbn [prel]; unfold at_d; cbn [fst snd oprel]. repeat split; auto; try lia.
        - apply prel_expect; [apply Hcur|]. norm.
          match goal with |- context [is_ty (cur ts ?q) T_OPERATOR] => destruct (is_ty (cur ts q) T_OPERATOR) end.
          + eapply prel_bind; [apply pexpression_rel|]. intros y y' Hy. pair_in Hy.
            cbn [prel]; unfold at_d; cbn [fst snd oprel]. repeat split; auto.
          + cbn [prel]; unfold at_d; cbn [fst snd oprel]. repeat split; auto; try lia. }
      destruct (is_ty (cur ts pos) T_LBRAKET).
      { eapply prel_bind; [apply pexpression_rel|]. intros x x' Hx. pair_in Hx. norm.
        apply prel_expect; [apply Hcur|]. cbn [prel]; unfold at_d; cbn [fst snd oprel]. repeat split; auto; try lia. }
      destruct (is_ty opc T_OPCODE).
      - eapply prel_bind; [apply pexpression_rel|]. intros x x' Hx. pair_in Hx.
        cbn [prel]; unfold at_d; cbn [fst snd oprel]. repeat split; auto.
      - cbn [prel]; unfold at_d; cbn [fst snd oprel oerel]. repeat split; auto.
    Qed.

    Lemma popcode_rel f pos : prel (at_d arel) (popcode ts f pos) (popcode ts' f (d + pos)).
    Proof.
      unfold popcode. norm.
      replace (is_ty (cur ts' (d + pos)) T_OPCODE_NAKED) with (is_ty (cur ts pos) T_OPCODE_NAKED) by (symmetry; apply isty).
      destruct (is_ty (cur ts (S pos)) T_OPCODE_SIZE); norm.
      - eapply prel_bind; [apply poperand_rel; apply Hcur|].
        intros [[[m i] o] p3] [[[m' i'] o'] p3'] [(E1 & E2 & E3) Ep]. cbn [fst snd] in *. subst. norm.
        destruct (is_ty (cur ts p3) T_ADDRESSING_MODE_INDEX).
        + destruct (match i' with Some i0 => negb (str_eqb i0 k_s && str_eqb (lower (t_value (cur ts p3))) k_y) | None => false end);
            [apply perr_d|].
          destruct (index_map m'); [|cbn; auto].
          cbn [prel]; unfold at_d; cbn [fst snd]. split; [|lia]. constructor; [exact E3|apply Hcur].
        + cbn [prel]; unfold at_d; cbn [fst snd]. split; [|reflexivity]. constructor; [exact E3|apply Hcur].
      - eapply prel_bind; [apply poperand_rel; apply Hcur|].
        intros [[[m i] o] p3] [[[m' i'] o'] p3'] [(E1 & E2 & E3) Ep]. cbn [fst snd] in *. subst. norm.
        destruct (is_ty (cur ts p3) T_ADDRESSING_MODE_INDEX).
        + destruct (match i' with Some i0 => negb (str_eqb i0 k_s && str_eqb (lower (t_value (cur ts p3))) k_y) | None => false end);
            [apply perr_d|].
          destruct (index_map m'); [|cbn; auto].
          cbn [prel]; unfold at_d; cbn [fst snd]. split; [|lia]. constructor; [exact E3|apply Hcur].
        + cbn [prel]; unfold at_d; cbn [fst snd]. split; [|reflexivity]. constructor; [exact E3|apply Hcur].
    Qed.
    Hint Resolve popcode_rel : prl.

    Variables sub sub' : str -> pres (list ast).
    Hypothesis Hsub : forall name, prel asrel (sub name) (sub' name).

    Section OpenRel.
      Variables PB PB' : nat -> R (list ast).
      Variables PEL PEL' : nat -> R margs.
      Variable f : nat.
      Hypothesis HPB : forall q, prel (at_d asrel) (PB q) (PB' (d + q)).
      Hypothesis HPEL : forall q, prel (at_d msrel) (PEL q) (PEL' (d + q)).
      Hint Resolve HPB HPEL : prl.

      Lemma pscope_rel q : prel (at_d arel) (pscope ts PB q) (pscope ts' PB' (d + q)).
      Proof. unfold pscope. go. Qed.
      Lemma pelist_rel q : prel (at_d msrel) (pelist ts PEL q) (pelist ts' PEL' (d + q)).
      Proof. unfold pelist. go. Qed.
      Hint Resolve pscope_rel pelist_rel : prl.
      Lemma pmacro_apply_rel q : prel (at_d arel) (pmacro_apply ts PEL q) (pmacro_apply ts' PEL' (d + q)).
      Proof. unfold pmacro_apply. go. Qed.
      Lemma pmacro_rel q : prel (at_d arel) (pmacro ts PB f q) (pmacro ts' PB' f (d + q)).
      Proof. unfold pmacro. go. Qed.
      Lemma pif_rel q : prel (at_d arel) (pif ts PB f q) (pif ts' PB' f (d + q)).
      Proof. unfold pif. go. Qed.
      Lemma pfor_rel q : prel (at_d arel) (pfor ts PB f q) (pfor ts' PB' f (d + q)).
      Proof. unfold pfor. go. Qed.
      Hint Resolve pmacro_apply_rel pmacro_rel pif_rel pfor_rel : prl.

      Lemma all_exprs_rel l l' : msrel l l' ->
        match all_exprs l, all_exprs l' with
        | Some es, Some es' => Forall2 erel es es'
        | None, None => True
        | _, _ => False
        end.
      Proof.
        induction 1 as [|x x' l l' Hx Hl IH]; cbn [all_exprs]; [constructor|].
        destruct Hx as [e e' He|b b' fi fi' Hb Hfi]; [|exact I].
        destruct (all_exprs l), (all_exprs l'); try contradiction; [|exact I]. constructor; assumption.
      Qed.

      Lemma pkeyword_rel q : prel (at_d arel) (pkeyword ts sub PB PEL f q) (pkeyword ts' sub' PB' PEL' f (d + q)).
      Proof.
        unfold pkeyword. norm.
        destruct (str_eqb (t_value (cur ts q)) k_scope); [apply pscope_rel|].
        destruct (str_eqb (t_value (cur ts q)) k_ascii); [go|].
        destruct (str_eqb (t_value (cur ts q)) k_text); [go|].
        destruct (dkind_of (t_value (cur ts q))) as [dk|].
        { eapply prel_bind; [apply HPEL|]. intros x x' Hx. pair_in Hx.
          match goal with H : msrel ?l ?l' |- _ => pose proof (all_exprs_rel _ _ H) as HA end.
          destruct (all_exprs _), (all_exprs _); try contradiction; [|cbn; auto]. leaf. }
        destruct (str_eqb (t_value (cur ts q)) k_include).
        { eapply prel_bind; [apply pquoted_rel|]. intros x x' Hx. pair_in Hx.
          eapply prel_bind; [apply Hsub|]. intros b b' Hb. leaf. }
        destruct (str_eqb (t_value (cur ts q)) k_include_ips); [apply pinclude_ips_rel|].
        destruct (str_eqb (t_value (cur ts q)) k_incbin); [go|].
        destruct (str_eqb (t_value (cur ts q)) k_table); [go|].
        destruct (str_eqb (t_value (cur ts q)) k_macro); [apply pmacro_rel|].
        destruct (str_eqb (t_value (cur ts q)) k_map); [apply pmap_rel|].
        destruct (str_eqb (t_value (cur ts q)) k_if); [apply pif_rel|].
        destruct (str_eqb (t_value (cur ts q)) k_for); [apply pfor_rel|].
        destruct (str_eqb (t_value (cur ts q)) k_struct); [apply pstruct_rel|].
        apply perr_d.
      Qed.
      Hint Resolve pkeyword_rel : prl.

      Definition oarel (o o' : option ast) : Prop :=
        match o, o' with Some a, Some a' => arel a a' | None, None => True | _, _ => False end.

      Lemma some_rel (r r' : R ast) : prel (at_d arel) r r' ->
        prel (at_d oarel) (dop x <- r; POk (Some (fst x), snd x)) (dop x <- r'; POk (Some (fst x), snd x)).
      Proof.
        intros H. eapply prel_bind; [exact H|]. intros x x' Hx. pair_in Hx. cbn [prel]. unfold at_d. cbn [fst snd oarel]. auto.
      Qed.

      Lemma pdecl_body_rel q : prel (at_d oarel) (pdecl_body ts sub PB PEL f q) (pdecl_body ts' sub' PB' PEL' f (d + q)).
      Proof.
        unfold pdecl_body. norm.
        destruct (t_type (cur ts q)); norm; try apply perr_d.
        - cbn [prel]. unfold at_d. cbn [fst snd oarel]. auto.
        - apply some_rel. apply plabel_rel.
        - destruct (is_ty (cur ts (S q)) T_LPAREN); apply some_rel; [apply pmacro_apply_rel|apply psymbol_rel].
        - eapply prel_bind; [apply HPB|]. intros x x' Hx. pair_in Hx. cbn [prel]. unfold at_d. cbn [fst snd oarel].
          split; [|reflexivity]. constructor; [assumption|apply Hcur].
        - apply some_rel. apply popcode_rel.
        - apply some_rel. apply popcode_rel.
        - apply some_rel. apply pkeyword_rel.
        - apply some_rel. apply pstar_eq_rel.
        - apply some_rel. apply pat_eq_rel.
        - apply some_rel. apply pcode_lookup_rel.
      Qed.
    End OpenRel.

    Lemma opt_app_rel acc acc' o o' : asrel acc acc' -> oarel o o' -> asrel (opt_app acc o) (opt_app acc' o').
    Proof.
      intros Ha Ho. destruct o, o'; cbn [oarel opt_app] in *; try contradiction; [|exact Ha].
      apply Forall2_app; [exact Ha|]. constructor; [exact Ho|constructor].
    Qed.

    Lemma knot_rel f :
      (forall pos, prel (at_d oarel) (pdecl ts sub f pos) (pdecl ts' sub' f (d + pos))) /\
      (forall pos acc acc', asrel acc acc' -> prel (at_d asrel) (pblock ts sub f pos acc) (pblock ts' sub' f (d + pos) acc')) /\
      (forall pos acc acc', msrel acc acc' -> prel (at_d msrel) (pel ts sub f pos acc) (pel ts' sub' f (d + pos) acc')).
    Proof.
      induction f as [|f (IHd & IHb & IHe)]; [repeat split; intros; exact I|].
      repeat apply conj.
      - intro pos. rewrite !pdecl_S. apply pdecl_body_rel.
        + intro q. apply IHb. constructor.
        + intro q. apply IHe. constructor.
      - intros pos acc acc' Hacc. rewrite !pblock_S. norm.
        destruct (is_ty (cur ts pos) T_EOF || is_ty (cur ts pos) T_RBRACE).
        + apply prel_expect; [apply Hcur|]. cbn [prel]. unfold at_d. cbn [fst snd]. split; [exact Hacc|lia].
        + eapply prel_bind; [apply IHd|]. intros x x' Hx. pair_in Hx. apply IHb. apply opt_app_rel; assumption.
      - intros pos acc acc' Hacc. rewrite !pel_S. norm.
        destruct (is_ty (cur ts pos) T_RPAREN).
        + cbn [prel]. unfold at_d. cbn [fst snd]. auto.
        + eapply prel_bind with (RA := at_d mrel).
          * destruct (is_ty (cur ts pos) T_LBRACE).
            -- eapply prel_bind; [apply IHb; constructor|]. intros x x' Hx. pair_in Hx.
               cbn [prel]. unfold at_d. cbn [fst snd]. split; [|reflexivity]. constructor; [assumption|apply Hcur].
            -- eapply prel_bind; [apply pexpression_rel|]. intros x x' Hx. pair_in Hx.
               cbn [prel]. unfold at_d. cbn [fst snd]. split; [|reflexivity]. constructor. assumption.
          * intros x x' Hx. pair_in Hx. norm.
            match goal with Hm : mrel ?a ?a0 |- _ =>
              assert (Hacc2 : msrel (acc ++ [a]) (acc' ++ [a0])) by (apply Forall2_app; [exact Hacc|constructor; [exact Hm|constructor]]) end.
            match goal with |- context [is_ty (cur ts ?p) T_COMMA] => destruct (is_ty (cur ts p) T_COMMA) end.
            -- apply IHe. exact Hacc2.
            -- cbn [prel]. unfold at_d. cbn [fst snd]. auto.
    Qed.

    Lemma pinitial_rel f : forall pos acc acc', asrel acc acc' ->
      prel asrel (pinitial ts sub f pos acc) (pinitial ts' sub' f (d + pos) acc').
    Proof.
      induction f as [|f IH]; intros pos acc acc' Hacc; [exact I|]. cbn [pinitial]. norm.
      destruct (is_ty (cur ts pos) T_EOF); [exact Hacc|].
      eapply prel_bind; [apply (proj1 (knot_rel f))|]. intros x x' Hx. pair_in Hx. apply IH. apply opt_app_rel; assumption.
    Qed.
  End Lists.
End Rel.

(** ** Whole programs: [d] leading COMMENT tokens, then [T]-related tokens *)
Lemma skip_comments ts sub acc : forall n F i,
  (forall j, i <= j < i + n -> t_type (cur ts j) = T_COMMENT) ->
  pinitial ts sub (n + S F) i acc = pinitial ts sub (S F) (i + n) acc.
Proof.
  induction n as [|n IH]; intros F i Hc.
  - rewrite Nat.add_0_r. reflexivity.
  - change (S n + S F) with (S (n + S F)). cbn [pinitial].
    assert (Hi : t_type (cur ts i) = T_COMMENT) by (apply Hc; lia).
    unfold is_ty at 1. rewrite Hi. cbn [ttype_eqb ttype_code Z.eqb Pos.eqb].
    replace (n + S F) with (S (n + F)) by lia. rewrite pdecl_S. unfold pdecl_body. rewrite Hi. cbn [pbind fst snd opt_app].
    replace (S (n + F)) with (n + S F) by lia. rewrite IH by (intros j Hj; apply Hc; lia).
    replace (i + S n) with (S i + n) by lia. reflexivity.
Qed.

Section Program.
  Variable T : token -> token -> Prop.
  Hypothesis T_type : forall t t', T t t' -> t_type t' = t_type t.
  Hypothesis T_value : forall t t', T t t' -> t_value t' = t_value t.
  Hypothesis T_eof : T eof_token eof_token.

  Lemma cur_related cs ts ts2 : Forall2 T ts ts2 -> forall q, T (cur ts q) (cur (cs ++ ts2) (length cs + q)).
  Proof.
    intros H q. unfold cur. rewrite app_nth2 by lia. replace (length cs + q - length cs) with q by lia.
    revert q. induction H as [|t t' l l' Ht _ IH]; intros [|q]; cbn [nth]; auto.
  Qed.

  Lemma cur_comment cs ts2 : Forall (fun t => t_type t = T_COMMENT) cs ->
    forall j, 0 <= j < 0 + length cs -> t_type (cur (cs ++ ts2) j) = T_COMMENT.
  Proof.
    intros H j Hj. unfold cur. rewrite app_nth1 by lia.
    rewrite Forall_forall in H. apply H. apply nth_In. lia.
  Qed.

  (** L2.  With includes out of the picture (every [.include] fails the same way on both sides): a
      token list, and the same list [T]-related behind any number of leading COMMENT tokens, parse
      (each with its canonical fuel) to [T]-related results. *)
  Theorem parse_program_related inc incfuel cs ts ts2 :
    (forall name, exists k, inc name = Err k) ->
    Forall (fun t => t_type t = T_COMMENT) cs -> Forall2 T ts ts2 ->
    prel T (asrel T)
      (parse_program (parse_fuel (length ts)) incfuel inc ts)
      (parse_program (parse_fuel (length (cs ++ ts2))) incfuel inc (cs ++ ts2)).
  Proof.
    intros Hinc Hcs Hts.
    assert (Hnf : forall name, inc name <> OutOfFuel) by (intro name; destruct (Hinc name) as [k ->]; discriminate).
    assert (Hlen : length ts2 = length ts) by (clear -Hts; induction Hts; cbn [length]; congruence).
    set (F := length cs + 2 * length ts + 3).
    assert (E1 : parse_program (parse_fuel (length ts)) incfuel inc ts = parse_program (S F) incfuel inc ts).
    { symmetry. apply parse_fuel_irrelevant; [exact Hnf|]. unfold parse_fuel, F. lia. }
    rewrite E1. unfold parse_program. rewrite !parse_file_unfold.
    replace (parse_fuel (length (cs ++ ts2))) with (length cs + S F)
      by (unfold parse_fuel, F; rewrite app_length, Hlen; lia).
    rewrite skip_comments by (apply cur_comment; exact Hcs). cbn [plus].
    match goal with |- prel _ _ (pinitial ?l ?s _ _ _) (pinitial _ ?s' _ _ _) =>
      assert (Hs : forall name, prel T (asrel T) (s name) (s' name))
        by (intro name; destruct incfuel; [cbn; auto|]; destruct (Hinc name) as [k ->]; cbn; auto);
      pose proof (pinitial_rel T T_type T_value ts (cs ++ ts2) (length cs) (cur_related cs ts ts2 Hts) s s' Hs (S F) 0 [] []
                   (Forall2_nil _)) as HP
    end.
    rewrite Nat.add_0_r in HP. exact HP.
  Qed.
End Program.

Print Assumptions parse_program_related.
