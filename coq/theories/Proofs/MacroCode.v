(** C09 — code-block arguments.  An application [m(..., { stmts })] binds the parameter as a code
    symbol in the application scope ([add_code]) and generates [stmts] wherever the body splices
    [{{p}}].  The inlined twin is the block [{ p_i := v_i ...  body' }] where body' is the body with
    each splice replaced by the block [stmts].

    The two code generations produce the SAME node list; the resolver states differ only in the
    code dictionary of the (popped) application scope.  Nothing afterwards sees that difference:
    later code generation never looks a name up through that scope (it is not an ancestor of
    anything current any more), and the passes re-enter it only to evaluate the expressions of its
    own nodes, which read the code dictionaries only at the identifiers they mention.

    One-level version: splices at the body's own level and inside plain [{ ... }] blocks; the other
    statements of the body (and the argument blocks) are [plain]: no macro application, no splice,
    no use of a code-parameter name as an identifier in an expression evaluated at expansion. *)
From Coq Require Import ZArith List Lia Bool Arith.
From A816 Require Import Model.Codegen Spec.EnvSem Proofs.BusProofs Proofs.ResolverProofs Proofs.ReplayProofs
     Proofs.EvalCongr Proofs.CodegenProofs Proofs.NonInterference Proofs.MacroInline.
Open Scope Z_scope.

Section Code.
  Variable w : world.
  (** the code-parameter names, the index of the application scope, its code dictionary *)
  Variable K : str -> bool.
  Variable j : nat.
  Variable C : dict (list ast * token).

  (** ** Expressions / nodes / statements that do not use a code-parameter name *)
  Definition kfree (e : expr) : bool :=
    forallb (fun t => match en_type t with T_IDENTIFIER => negb (K (en_val t)) | _ => true end) e.
  Definition node_kfree (n : node) : bool :=
    match n with
    | NSymbol _ e _ | NData _ e _ | NCodePos e _ | NReloc e _ => kfree e
    | NOpcode _ _ _ (Some e) _ _ => kfree e
    | _ => true
    end.

  (** a statement code generation handles without looking a code-parameter name up: no macro
      application, no splice, the expressions evaluated at expansion are [kfree]; bodies likewise *)
  Fixpoint plain (a : ast) : bool :=
    match a with
    | ABlock b _ | ACompound b _ | AScope _ b _ _ => forallb plain b
    | AIf c th _ el _ =>
        kfree c && forallb plain th && match el with Some (eb, _) => forallb plain eb | None => true end
    | AFor _ lo hi b _ _ => kfree lo && kfree hi && forallb plain b
    | AAssign _ e _ | AIncludeIps _ e _ => kfree e
    | AMacroApply _ _ _ | ACodeLookup _ _ => false
    | _ => true
    end.

  (** ** Scopes equal except for the code dictionary of scope [j], which agrees off [K] *)
  Definition cscope (a b : scope) : Prop :=
    s_parent a = s_parent b /\ s_kind a = s_kind b /\ s_symbols a = s_symbols b /\
    s_labels a = s_labels b /\ s_table a = s_table b /\
    forall q, K q = false -> dict_get (s_code a) q = dict_get (s_code b) q.
  Definition srel (i : nat) (a b : scope) : Prop := (i <> j -> a = b) /\ cscope a b.
  Definition screl (l1 l2 : list scope) : Prop :=
    forall i, match nth_error l1 i, nth_error l2 i with
              | Some a, Some b => srel i a b
              | None, None => True
              | _, _ => False
              end.

  Lemma cscope_refl a : cscope a a.
  Proof. repeat split. Qed.
  Lemma srel_refl i a : srel i a a.
  Proof. split; auto using cscope_refl. Qed.
  Lemma screl_refl l : screl l l.
  Proof. intros i. destruct (nth_error l i); auto using srel_refl. Qed.

  Lemma screl_Forall2_gen l1 : forall l2 k,
    (forall i, match nth_error l1 i, nth_error l2 i with
               | Some a, Some b => srel (k + i) a b
               | None, None => True
               | _, _ => False
               end) -> Forall2 cscope l1 l2.
  Proof.
    induction l1 as [|a l1 IH]; intros [|b l2] k H.
    - constructor.
    - specialize (H O). cbn in H. contradiction.
    - specialize (H O). cbn in H. contradiction.
    - constructor; [apply (H O)|]. apply (IH l2 (S k)). intros i. specialize (H (S i)). cbn [nth_error] in H.
      replace (S k + i)%nat with (k + S i)%nat by lia. exact H.
  Qed.
  Lemma screl_Forall2 l1 l2 : screl l1 l2 -> Forall2 cscope l1 l2.
  Proof. intros H. apply (screl_Forall2_gen l1 l2 O). exact H. Qed.
  Lemma screl_length l1 l2 : screl l1 l2 -> length l1 = length l2.
  Proof. intros H. apply screl_Forall2 in H. induction H; cbn [length]; auto. Qed.

  Lemma screl_update l1 l2 k f :
    (forall i a b, srel i a b -> srel i (f a) (f b)) -> screl l1 l2 ->
    screl (list_update l1 k f) (list_update l2 k f).
  Proof.
    intros Hf H i. rewrite !nth_list_update. specialize (H i).
    destruct (Nat.eqb k i), (nth_error l1 i), (nth_error l2 i); cbn [option_map]; auto.
  Qed.

  Lemma screl_app l1 l2 x : screl l1 l2 -> screl (l1 ++ [x]) (l2 ++ [x]).
  Proof.
    intros H i. pose proof (screl_length _ _ H) as L. specialize (H i).
    destruct (Nat.lt_ge_cases i (length l1)) as [Lt|Ge].
    - rewrite !nth_error_app1 by lia. exact H.
    - rewrite !nth_error_app2 by lia. rewrite <- L.
      destruct (i - length l1)%nat as [|d]; cbn [nth_error]; [apply srel_refl|destruct d; exact I].
  Qed.

  Lemma srel_fun f : (forall a b, cscope a b -> cscope (f a) (f b)) -> forall i a b, srel i a b -> srel i (f a) (f b).
  Proof. intros Hf i a b [E Cs]. split; [intros N; rewrite (E N); reflexivity|auto]. Qed.

  Lemma cscope_add_symbol n v a b : cscope a b -> cscope (scope_add_symbol n v a) (scope_add_symbol n v b).
  Proof. intros (P & Kd & S & L & T & Cd). repeat split; cbn [scope_add_symbol s_parent s_kind s_symbols s_labels s_table s_code]; congruence || auto. Qed.
  Lemma cscope_add_label n v a b : cscope a b -> cscope (scope_add_label n v a) (scope_add_label n v b).
  Proof. intros (P & Kd & S & L & T & Cd). repeat split; cbn [scope_add_label s_parent s_kind s_symbols s_labels s_table s_code]; congruence || auto. Qed.
  Lemma cscope_set_table t a b : cscope a b -> cscope (scope_set_table t a) (scope_set_table t b).
  Proof. intros (P & Kd & S & L & T & Cd). repeat split; cbn [scope_set_table s_parent s_kind s_symbols s_labels s_table s_code]; congruence || auto. Qed.
  Lemma cscope_add_code q c a b : cscope a b -> cscope (scope_add_code q c a) (scope_add_code q c b).
  Proof.
    intros (P & Kd & S & L & T & Cd). repeat split; cbn [scope_add_code s_parent s_kind s_symbols s_labels s_table s_code]; auto.
    intros q' Hq'. destruct (str_eqb q' q) eqn:E.
    - apply str_eqb_eq in E. subst. rewrite !dict_get_set_same. reflexivity.
    - rewrite !dict_get_set_other by exact E. auto.
  Qed.
  Lemma cscope_export name child a b : cscope a b -> cscope (export_into name child a) (export_into name child b).
  Proof.
    intros (P & Kd & S & L & T & Cd).
    destruct (export_into_fields name child a) as (A1 & B1 & C1 & D1 & E1 & F1).
    destruct (export_into_fields name child b) as (A2 & B2 & C2 & D2 & E2 & F2).
    repeat split; try congruence. intros q Hq. rewrite C1, C2. auto.
  Qed.

  Record crel (r1 r2 : rstate) : Prop := {
    cr_scopes : screl (r_scopes r1) (r_scopes r2);
    cr_cur : r_cur r1 = r_cur r2;
    cr_last : r_last r1 = r_last r2;
    cr_pc : r_pc r1 = r_pc r2;
    cr_reloc : r_reloc r1 = r_reloc r2;
    cr_bus : r_bus r1 = r_bus r2;
    cr_rom : r_rom r1 = r_rom r2
  }.

  Lemma crel_refl r : crel r r.
  Proof. constructor; auto using screl_refl. Qed.
  Lemma crel_set_cur r1 r2 c : crel r1 r2 -> crel (set_cur r1 c) (set_cur r2 c).
  Proof. intros []; constructor; auto. Qed.
  Lemma crel_set_cur_last r1 r2 c l : crel r1 r2 -> crel (set_cur_last r1 c l) (set_cur_last r2 c l).
  Proof. intros []; constructor; auto. Qed.
  Lemma crel_set_pc r1 r2 p : crel r1 r2 -> crel (set_pc r1 p) (set_pc r2 p).
  Proof. intros []; constructor; auto. Qed.
  Lemma crel_set_reloc r1 r2 a : crel r1 r2 -> crel (set_reloc r1 a) (set_reloc r2 a).
  Proof. intros []; constructor; auto. Qed.
  Lemma crel_set_bus r1 r2 b : crel r1 r2 -> crel (set_bus r1 b) (set_bus r2 b).
  Proof. intros []; constructor; auto. Qed.
  Lemma crel_reset r1 r2 : crel r1 r2 -> crel (resolver_reset r1) (resolver_reset r2).
  Proof. intros H. unfold resolver_reset. apply crel_set_pc, crel_set_cur_last, H. Qed.

  Lemma crel_upd r1 r2 k f :
    (forall a b, cscope a b -> cscope (f a) (f b)) -> crel r1 r2 -> crel (upd_scope r1 k f) (upd_scope r2 k f).
  Proof.
    intros Hf []; constructor; auto. cbn [upd_scope set_scopes r_scopes].
    apply screl_update; auto using srel_fun.
  Qed.
  Lemma crel_add_symbol r1 r2 n v : crel r1 r2 -> crel (add_symbol r1 n v) (add_symbol r2 n v).
  Proof. intros H. unfold add_symbol. rewrite (cr_cur _ _ H). apply crel_upd; auto using cscope_add_symbol. Qed.
  Lemma crel_add_label r1 r2 n v : crel r1 r2 -> crel (add_label r1 n v) (add_label r2 n v).
  Proof. intros H. unfold add_label. rewrite (cr_cur _ _ H). apply crel_upd; auto using cscope_add_label. Qed.
  Lemma crel_add_code r1 r2 q c : crel r1 r2 -> crel (add_code r1 q c) (add_code r2 q c).
  Proof. intros H. unfold add_code. rewrite (cr_cur _ _ H). apply crel_upd; auto using cscope_add_code. Qed.

  Lemma crel_nth r1 r2 i : crel r1 r2 ->
    match nth_error (r_scopes r1) i, nth_error (r_scopes r2) i with
    | Some a, Some b => srel i a b
    | None, None => True
    | _, _ => False
    end.
  Proof. intros H. apply (cr_scopes _ _ H). Qed.

  (** ** Lookups *)
  Lemma scope_getitem_c a b q : cscope a b -> K q = false -> scope_getitem a q = scope_getitem b q.
  Proof. intros (P & Kd & S & L & T & Cd) Hq. unfold scope_getitem. rewrite (Cd q Hq), S. reflexivity. Qed.

  (** a name that is not a code parameter: the same answer from any scope *)
  Lemma value_for_fuel_n sc1 sc2 q : K q = false -> screl sc1 sc2 -> forall fuel i,
    value_for_fuel sc1 fuel i q = value_for_fuel sc2 fuel i q.
  Proof.
    intros Hq H fuel; induction fuel as [|fuel IH]; intros i; [reflexivity|]. cbn [value_for_fuel].
    specialize (H i). destruct (nth_error sc1 i) as [a|], (nth_error sc2 i) as [b|]; try contradiction; [|reflexivity].
    destruct H as [_ Cs]. rewrite (scope_getitem_c a b q Cs Hq).
    destruct Cs as (P & Kd & S & L & T & Cd). unfold dict_mem. rewrite P, S, (Cd q Hq).
    destruct (s_parent b); [|reflexivity]. rewrite IH. reflexivity.
  Qed.

  (** any name, from a scope that [j] does not enclose *)
  Lemma value_for_fuel_d sc1 sc2 q : screl sc1 sc2 -> forall fuel i, ~ encloses sc1 j i ->
    value_for_fuel sc1 fuel i q = value_for_fuel sc2 fuel i q.
  Proof.
    intros H fuel; induction fuel as [|fuel IH]; intros i Hne; [reflexivity|]. cbn [value_for_fuel].
    pose proof (H i) as Hi. destruct (nth_error sc1 i) as [a|] eqn:Ha, (nth_error sc2 i) as [b|]; try contradiction; [|reflexivity].
    destruct Hi as [E _]. assert (Hij : i <> j) by (intros ->; apply Hne; constructor).
    rewrite <- (E Hij). destruct (s_parent a) as [p|] eqn:Hp; [|reflexivity].
    rewrite IH; [reflexivity|]. intros He. apply Hne. eapply E_parent; eauto.
  Qed.

  Definition dead (r : rstate) : Prop := ~ encloses (r_scopes r) j (r_cur r).

  Lemma value_for_c r1 r2 q : crel r1 r2 -> K q = false \/ dead r1 -> value_for r1 q = value_for r2 q.
  Proof.
    intros H [Hq|Hd]; unfold value_for; rewrite <- (cr_cur _ _ H).
    - apply value_for_fuel_n; auto. apply (cr_scopes _ _ H).
    - apply value_for_fuel_d; auto. apply (cr_scopes _ _ H).
  Qed.

  Lemma eval_raw_c r1 r2 e : crel r1 r2 -> kfree e = true \/ dead r1 -> eval_raw w r1 e = eval_raw w r2 e.
  Proof.
    intros H Hm. unfold eval_raw. apply eval_expression_congr. apply Forall_forall. intros t Ht Hty.
    unfold env_of. rewrite (value_for_c r1 r2 (en_val t) H); [reflexivity|].
    destruct Hm as [Hk|Hd]; [left|right; exact Hd].
    unfold kfree in Hk. rewrite forallb_forall in Hk. specialize (Hk t Ht). rewrite Hty in Hk.
    destruct (K (en_val t)); [discriminate|reflexivity].
  Qed.
  Lemma get_value_c r1 r2 e : crel r1 r2 -> kfree e = true \/ dead r1 -> get_value w r1 e = get_value w r2 e.
  Proof. intros H Hm. unfold get_value. rewrite (eval_raw_c r1 r2 e H Hm). reflexivity. Qed.
  Lemma get_bus_c r1 r2 : crel r1 r2 -> get_bus w r1 = get_bus w r2.
  Proof. intros H. unfold get_bus. rewrite (cr_bus _ _ H), (cr_rom _ _ H). reflexivity. Qed.

  (** ** Scope moves *)
  Lemma use_next_scope_c r1 r2 : crel r1 r2 -> res_rel crel (use_next_scope r1) (use_next_scope r2).
  Proof.
    intros H. unfold use_next_scope. rewrite (cr_last _ _ H).
    pose proof (crel_nth r1 r2 (S (r_last r2)) H) as Hi.
    destruct (nth_error (r_scopes r1) _), (nth_error (r_scopes r2) _); try contradiction; cbn [res_rel]; auto.
    apply crel_set_cur_last; auto.
  Qed.

  Lemma restore_scope_c r1 r2 e : crel r1 r2 -> res_rel crel (restore_scope r1 e) (restore_scope r2 e).
  Proof.
    intros H. unfold restore_scope. rewrite (cr_cur _ _ H).
    pose proof (crel_nth r1 r2 (r_cur r2) H) as Hi.
    destruct (nth_error (r_scopes r1) _) as [s1|], (nth_error (r_scopes r2) _) as [s2|]; try contradiction;
      cbn [res_rel]; auto.
    destruct Hi as [_ (P & Kd & S & L & T & Cd)]. rewrite P, Kd, S.
    destruct (s_parent s2) as [p|]; cbn [res_rel]; auto.
    apply crel_set_cur. destruct (s_kind s2); auto. destruct e; auto.
    apply crel_upd; auto using cscope_export.
  Qed.

  Lemma set_position_c r1 r2 v : crel r1 r2 -> res_rel crel (set_position w r1 v) (set_position w r2 v).
  Proof.
    intros H. unfold set_position. rewrite (get_bus_c r1 r2 H).
    apply res_rel_bind_same; intros b _. apply res_rel_bind_same; intros a _. apply res_rel_bind_same; intros p _.
    cbn [res_rel]. apply crel_set_reloc. destruct p; auto using crel_set_pc.
  Qed.

  Lemma eval_scope_c r1 r2 ip : crel r1 r2 -> crel (eval_scope r1 ip) (eval_scope r2 ip).
  Proof.
    intros H. unfold eval_scope. destruct ip; auto. rewrite (cr_cur _ _ H).
    pose proof (crel_nth r1 r2 (r_cur r2) H) as Hi.
    destruct (nth_error (r_scopes r1) _) as [s1|], (nth_error (r_scopes r2) _) as [s2|]; try contradiction; auto.
    destruct Hi as [_ (P & _)]. rewrite P. destruct (s_parent s2); auto using crel_set_cur.
  Qed.

  (** ** The passes: related states, the same node list, no code-parameter name in its expressions *)
  Definition csim {T} (x y : rstate * T) : Prop := crel (fst x) (fst y) /\ snd x = snd y.

  Definition operand_kfree (o : option expr) : bool := match o with Some e => kfree e | None => true end.
  Lemma operand_value_c r1 r2 o : operand_kfree o = true -> crel r1 r2 -> operand_value w r1 o = operand_value w r2 o.
  Proof. intros Ho H. destruct o; cbn [operand_value]; [|reflexivity]. rewrite (get_value_c r1 r2 e H (or_introl Ho)). reflexivity. Qed.

  Lemma pc_after_c r1 r2 n a : node_kfree n = true -> crel r1 r2 ->
    res_rel csim (pc_after w r1 n a) (pc_after w r2 n a).
  Proof.
    intros Hn H. destruct n; cbn [node_kfree] in Hn.
    - cbn [pc_after res_rel]. split; cbn [fst snd]; auto using crel_add_label.
    - change (res_rel csim (do v <- eval_raw w (eval_scope r1 in_parent) e; Ok (add_symbol r1 name v, a))
                           (do v <- eval_raw w (eval_scope r2 in_parent) e; Ok (add_symbol r2 name v, a))).
      rewrite (eval_raw_c _ _ e (eval_scope_c r1 r2 in_parent H) (or_introl Hn)).
      apply res_rel_bind_same; intros v _. split; cbn [fst snd]; auto using crel_add_symbol.
    - cbn [pc_after res_rel]. split; cbn [fst snd]; auto using crel_add_symbol.
    - cbn [pc_after]. apply res_rel_bind_same; intros a' _. split; cbn [fst snd]; auto using crel_add_symbol, crel_add_label.
    - cbn [pc_after]. apply res_rel_bind_same; intros a' _. split; cbn [fst snd]; auto.
    - cbn [pc_after]. unfold opcode_length. rewrite (operand_value_c r1 r2 operand); auto.
      apply res_rel_bind_same; intros len _. apply res_rel_bind_same; intros a' _. split; cbn [fst snd]; auto.
    - cbn [pc_after]. rewrite (get_value_c r1 r2 e H (or_introl Hn)), (get_bus_c r1 r2 H).
      apply res_rel_bind_same; intros v _. apply res_rel_bind_same; intros b _. apply res_rel_bind_same; intros a' _.
      split; cbn [fst snd]; auto.
    - cbn [pc_after]. rewrite (get_value_c r1 r2 e H (or_introl Hn)), (get_bus_c r1 r2 H).
      apply res_rel_bind_same; intros v _. apply res_rel_bind_same; intros b _. apply res_rel_bind_same; intros a' _.
      split; cbn [fst snd]; auto.
    - cbn [pc_after res_rel]. split; cbn [fst snd]; auto.
    - cbn [pc_after]. eapply res_rel_bind; [apply use_next_scope_c; exact H|]. intros ra rb Hab. split; cbn [fst snd]; auto.
    - cbn [pc_after]. eapply res_rel_bind; [apply restore_scope_c; exact H|]. intros ra rb Hab. split; cbn [fst snd]; auto.
    - cbn [pc_after res_rel]. split; cbn [fst snd]; auto.
    - cbn [pc_after]. apply res_rel_bind_same; intros bs _. apply res_rel_bind_same; intros a' _. split; cbn [fst snd]; auto.
    - cbn [pc_after]. apply res_rel_bind_same; intros a' _. split; cbn [fst snd]; auto.
  Qed.

  Lemma node_emit_c r1 r2 n : node_kfree n = true -> crel r1 r2 ->
    res_rel csim (node_emit w r1 n) (node_emit w r2 n).
  Proof.
    intros Hn H. destruct n; cbn [node_kfree] in Hn; cbn [node_emit];
      try (cbn [res_rel]; split; cbn [fst snd]; auto; fail).
    - rewrite (get_value_c r1 r2 e H (or_introl Hn)). apply res_rel_bind_same; intros v _. split; cbn [fst snd]; auto.
    - unfold opcode_emit, rel_emit, dummy_rc.
      rewrite (operand_value_c r1 r2 operand), (get_bus_c r1 r2 H), (cr_reloc _ _ H), (cr_pc _ _ H); auto.
      apply res_rel_bind_same; intros bs _. split; cbn [fst snd]; auto.
    - rewrite (get_value_c r1 r2 e H (or_introl Hn)). apply res_rel_bind_same; intros v _.
      eapply res_rel_bind; [apply set_position_c; exact H|]. intros ra rb Hab. split; cbn [fst snd]; auto.
    - rewrite (get_value_c r1 r2 e H (or_introl Hn)). apply res_rel_bind_same; intros v _.
      eapply res_rel_bind; [apply set_position_c; exact H|]. intros ra rb Hab. split; cbn [fst snd]; auto.
    - eapply res_rel_bind; [apply use_next_scope_c; exact H|]. intros ra rb Hab. split; cbn [fst snd]; auto.
    - eapply res_rel_bind; [apply restore_scope_c; exact H|]. intros ra rb Hab. split; cbn [fst snd]; auto.
    - apply res_rel_bind_same; intros bs _. split; cbn [fst snd]; auto.
  Qed.

  Record cesim (s1 s2 : estate) : Prop := {
    ce_r : crel (e_r s1) (e_r s2);
    ce_block : e_block s1 = e_block s2;
    ce_baddr : e_baddr s1 = e_baddr s2;
    ce_out : e_out s1 = e_out s2
  }.

  Lemma emit_step_c s1 s2 n x : node_kfree n = true -> cesim s1 s2 ->
    res_rel cesim (emit_step w s1 n x) (emit_step w s2 n x).
  Proof.
    intros Hn [Hr Hb Ha Ho]. unfold emit_step. rewrite (cr_reloc _ _ Hr).
    destruct (negb _); [reflexivity|].
    eapply res_rel_bind; [apply node_emit_c; eauto|].
    intros [ra bs] [rb bs'] [Hs Hbs]. cbn [fst snd] in Hs, Hbs. subst bs'.
    eapply res_rel_bind with (R := crel).
    - destruct bs as [|b0 bs0]; [exact Hs|]. rewrite (cr_reloc _ _ Hs), (cr_pc _ _ Hs).
      apply res_rel_bind_same; intros a' _. cbn [res_rel]. apply crel_set_reloc, crel_set_pc, Hs.
    - intros r2a r2b H2. cbn [res_rel]. rewrite Hb, Ha, Ho, (cr_pc _ _ H2).
      destruct n; cbn [is_codepos]; constructor; cbn [e_r e_block e_baddr e_out]; auto.
  Qed.

  Definition nodes_kfree (ns : list node) : bool := forallb node_kfree ns.

  Lemma label_pass_c ns : nodes_kfree ns = true -> forall r1 r2 a acc, crel r1 r2 ->
    res_rel (fun x y => crel (fst (fst x)) (fst (fst y)) /\ snd (fst x) = snd (fst y) /\ snd x = snd y)
            (label_pass w r1 ns a acc) (label_pass w r2 ns a acc).
  Proof.
    unfold nodes_kfree. induction ns as [|n ns IH]; intros Hf r1 r2 a acc H; cbn [label_pass].
    - cbn [res_rel fst snd]. auto.
    - cbn [forallb] in Hf. apply andb_prop in Hf as [Hn Hns].
      destruct (is_symbol_node n); [apply IH; auto|].
      eapply res_rel_bind; [apply pc_after_c; eauto|].
      intros [ra a1] [rb a2] [Hs Ha]. cbn [fst snd] in *. subst a2. apply IH; auto.
  Qed.

  Lemma symbol_pass_c ns : nodes_kfree ns = true -> forall r1 r2 a, crel r1 r2 ->
    res_rel csim (symbol_pass w r1 ns a) (symbol_pass w r2 ns a).
  Proof.
    unfold nodes_kfree. induction ns as [|n ns IH]; intros Hf r1 r2 a H; cbn [symbol_pass].
    - split; auto.
    - cbn [forallb] in Hf. apply andb_prop in Hf as [Hn Hns].
      destruct (is_label_or_binary n); [apply IH; auto|].
      eapply res_rel_bind; [apply pc_after_c; eauto|].
      intros [ra a1] [rb a2] [Hs Ha]. cbn [fst snd] in *. subst a2. apply IH; auto.
  Qed.

  Lemma emit_loop_c ns : nodes_kfree ns = true -> forall s1 s2 addrs, cesim s1 s2 ->
    res_rel cesim (emit_loop w s1 ns addrs) (emit_loop w s2 ns addrs).
  Proof.
    unfold nodes_kfree. induction ns as [|n ns IH]; intros Hf s1 s2 addrs H; cbn [emit_loop].
    - destruct addrs as [|x [|y l]]; try reflexivity.
      rewrite (cr_reloc _ _ (ce_r _ _ H)). destruct (negb _); [reflexivity|exact H].
    - cbn [forallb] in Hf. apply andb_prop in Hf as [Hn Hns].
      destruct addrs as [|x addrs]; [reflexivity|].
      eapply res_rel_bind; [apply emit_step_c; eauto|]. intros sa sb Hab. apply IH; auto.
  Qed.

  Lemma all_labels_c sc1 sc2 : screl sc1 sc2 ->
    flat_map (fun s => match s_kind s with SInternal => [] | _ => s_labels s end) sc1 =
    flat_map (fun s => match s_kind s with SInternal => [] | _ => s_labels s end) sc2.
  Proof.
    intros H. apply screl_Forall2 in H. induction H as [|a b l1 l2 (P & Kd & S & L & T & Cd) H IH]; [reflexivity|].
    cbn [flat_map]. rewrite Kd, L, IH. reflexivity.
  Qed.

  Definition crel_out (o1 o2 : output) : Prop :=
    o_blocks o1 = o_blocks o2 /\ o_labels o1 = o_labels o2 /\ crel (o_final o1) (o_final o2).

  Theorem assemble_nodes_c ns r1 r2 : nodes_kfree ns = true -> crel r1 r2 ->
    res_rel crel_out (assemble_nodes w r1 ns) (assemble_nodes w r2 ns).
  Proof.
    intros Hf H. unfold assemble_nodes, resolve_labels, emit.
    assert (H0 : crel (set_cur_last r1 (r_cur r1) 0) (set_cur_last r2 (r_cur r2) 0))
      by (rewrite (cr_cur _ _ H); apply crel_set_cur_last; exact H).
    rewrite (cr_reloc _ _ H0).
    eapply res_rel_bind; [eapply res_rel_bind; [apply label_pass_c; eauto|]|].
    - intros [[ra a1] l1] [[rb a2] l2] (Hs & Ha & Hl). cbn [fst snd] in Hs, Ha, Hl. subst a2 l2.
      pose proof (crel_reset _ _ Hs) as Hr. rewrite (cr_reloc _ _ Hr).
      eapply res_rel_bind; [apply symbol_pass_c; eauto|].
      intros [ra' a1'] [rb' a2'] [Hs' _]. cbn [fst snd] in Hs'. cbn [res_rel].
      instantiate (1 := csim). split; cbn [fst snd]; [apply crel_reset; exact Hs'|reflexivity].
    - intros [ra l1] [rb l2] [Hs Hl]. cbn [fst snd] in Hs, Hl |- *. subst l2.
      eapply res_rel_bind; [eapply res_rel_bind; [apply emit_loop_c; eauto|]|].
      + constructor; cbn [e_r e_block e_baddr e_out]; auto. apply (cr_pc _ _ Hs).
      + intros sa sb [Hr Hb Ha Ho]. cbn [res_rel]. instantiate (1 := csim). split; cbn [fst snd]; [exact Hr|].
        rewrite Hb, Ha, Ho. reflexivity.
      + intros [ra' b1] [rb' b2] [Hs' Hb]. cbn [fst snd] in Hs', Hb |- *. subst b2. cbn [res_rel].
        unfold crel_out. cbn [o_blocks o_labels o_final]. split; [reflexivity|]. split; [|exact Hs'].
        unfold get_all_labels. apply all_labels_c. apply (cr_scopes _ _ Hs').
  Qed.
  (** ** Code generation *)

  (** scope [j] of the left state has the code dictionary [C] *)
  Definition holds (r : rstate) : Prop := nth_error (map s_code (r_scopes r)) j = Some C.

  Lemma holds_lt r : holds r -> (j < length (r_scopes r))%nat.
  Proof. unfold holds. intros H. rewrite <- (map_length s_code). apply nth_error_Some. congruence. Qed.
  Lemma holds_upd r k f : (forall s, s_code (f s) = s_code s) -> holds r -> holds (upd_scope r k f).
  Proof.
    intros Hf H. unfold holds, upd_scope in *. cbn [set_scopes r_scopes].
    rewrite (map_list_update s_code f (fun x => x)) by exact Hf. rewrite list_update_id. exact H.
  Qed.
  Lemma holds_add_code r q c : r_cur r <> j -> holds r -> holds (add_code r q c).
  Proof.
    intros Hc H. unfold holds, add_code, upd_scope in *. cbn [set_scopes r_scopes].
    rewrite (map_list_update s_code _ (fun d => dict_set d q c)) by reflexivity.
    rewrite nth_list_update_other by exact Hc. exact H.
  Qed.
  Lemma holds_enter r k ra : holds r -> enter_scope r k = Ok ra -> holds ra.
  Proof.
    intros H. pose proof (holds_lt r H) as L. unfold enter_scope, use_next_scope, append_scope.
    cbn [set_scopes r_scopes r_last]. destruct (nth_error _ _); [|discriminate].
    intros E; inversion E; subst. unfold holds in *. cbn [set_cur_last set_scopes r_scopes].
    rewrite map_app, nth_error_app1 by (rewrite map_length; exact L). exact H.
  Qed.
  Lemma holds_restore r e ra : holds r -> restore_scope r e = Ok ra -> holds ra.
  Proof.
    intros H. unfold restore_scope. destruct (nth_error _ _) as [s|]; [|discriminate].
    destruct (s_parent s) as [p|]; [|discriminate]. intros E; inversion E; subst; clear E.
    change (holds (set_cur ?x p)) with (holds x).
    destruct (s_kind s); auto. destruct e; auto.
    apply holds_upd; auto. intros s0. apply (export_into_fields name (s_symbols s) s0).
  Qed.

  (** [j] stays out of the way *)
  Lemma encloses_ext_back old new : wf_scopes old -> ext old new -> forall j0 i,
    encloses new j0 i -> (i < length old)%nat -> encloses old j0 i.
  Proof.
    intros Hwf [_ Hx] j0 i He. induction He as [i|j0 i s p Hn Hp He IH]; intros Hi; [constructor|].
    destruct (nth_error old i) as [s0|] eqn:E0; [|apply nth_error_None in E0; lia].
    destruct (Hx _ _ E0) as (s1 & A & B). rewrite Hn in A. inversion A; subst s1.
    rewrite Hp in B. symmetry in B. pose proof (Hwf _ _ _ E0 B).
    eapply E_parent; eauto. apply IH. lia.
  Qed.

  Lemma dead_ext r r' : cg_ok r -> ext (r_scopes r) (r_scopes r') -> r_cur r' = r_cur r -> dead r -> dead r'.
  Proof.
    intros [K1 K2 K3] Hx Hc Hd He. apply Hd. unfold dead in *. rewrite Hc in He.
    eapply encloses_ext_back; eauto.
  Qed.

  Lemma cg_ok_benign r r' : cg_ok r -> benign r r' -> cg_ok r'.
  Proof.
    intros [K1 K2 K3] (B1 & B2 & B3 & B4 & B5).
    constructor; [rewrite B2, B3; exact K1 | rewrite B1, B3; exact K2 | exact (B5 K3)].
  Qed.
  Lemma dead_benign r r' : cg_ok r -> benign r r' -> dead r -> dead r'.
  Proof. intros Hk (B1 & B2 & B3 & B4 & B5). apply dead_ext; auto. Qed.

  Lemma enter_scope_shape r k ra : cg_ok r -> enter_scope r k = Ok ra ->
    ra = set_cur_last (set_scopes r (r_scopes r ++ [new_scope (Some (r_cur r)) k])) (length (r_scopes r)) (length (r_scopes r)).
  Proof.
    intros [K1 K2 K3]. unfold enter_scope, use_next_scope, append_scope. cbn [set_scopes r_scopes r_last].
    rewrite K1. destruct (nth_error _ _); [|discriminate]. intros E; inversion E; reflexivity.
  Qed.
  Lemma cg_ok_enter r k ra : cg_ok r -> enter_scope r k = Ok ra -> cg_ok ra.
  Proof.
    intros Hk E. rewrite (enter_scope_shape r k ra Hk E). destruct Hk as [K1 K2 K3].
    constructor; cbn [set_cur_last set_scopes r_scopes r_last r_cur]; rewrite ?app_length; cbn [length]; try lia.
    apply wf_append; auto.
  Qed.
  Lemma dead_enter r k ra : cg_ok r -> holds r -> dead r -> enter_scope r k = Ok ra -> dead ra.
  Proof.
    intros Hk Hh Hd E. rewrite (enter_scope_shape r k ra Hk E). pose proof (holds_lt r Hh) as L.
    destruct Hk as [K1 K2 K3]. unfold dead in *. cbn [set_cur_last set_scopes r_scopes r_cur].
    intros He. inversion He as [i|j0 i s p Hn Hp He']; subst; [lia|].
    rewrite nth_error_app2 in Hn by lia. rewrite Nat.sub_diag in Hn. cbn [nth_error] in Hn. inversion Hn; subst s.
    cbn [new_scope s_parent] in Hp. inversion Hp; subst p.
    apply Hd. eapply encloses_ext_back; eauto using ext_append.
  Qed.
  Lemma dead_cur r : dead r -> r_cur r <> j.
  Proof. intros Hd E. apply Hd. rewrite E. constructor. Qed.

  Definition cgrel (s1 s2 : cgstate) : Prop :=
    crel (cg_r s1) (cg_r s2) /\ cg_macros s1 = cg_macros s2 /\ holds (cg_r s1).
  Definition grel (x y : cgstate * list node) : Prop := cgrel (fst x) (fst y) /\ snd x = snd y.
  (** the application scope has been left for good *)
  Definition away (s : cgstate) : Prop := dead (cg_r s) /\ cg_ok (cg_r s).
  Definition mode (s : cgstate) (b : list ast) : Prop := away s \/ forallb plain b = true.
  Definition gen_resp_m (gen : cgstate -> list ast -> res (cgstate * list node)) : Prop :=
    forall s1 s2 b, cgrel s1 s2 -> mode s1 b -> res_rel grel (gen s1 b) (gen s2 b).

  Lemma grel_same s1 s2 ns : cgrel s1 s2 -> res_rel grel (Ok (s1, ns)) (Ok (s2, ns)).
  Proof. intros H. split; cbn [fst snd]; auto. Qed.
  Lemma cgrel_set_r s1 s2 ra rb : cgrel s1 s2 -> crel ra rb -> holds ra -> cgrel (cg_set_r s1 ra) (cg_set_r s2 rb).
  Proof. intros (_ & Hm & _) Hr Hh. split; [|split]; cbn [cg_set_r cg_r cg_macros]; auto. Qed.

  Lemma seq_m (A1 A2 : res (cgstate * list node)) (B1 B2 : cgstate -> res (cgstate * list node)) :
    res_rel grel A1 A2 ->
    (forall sa na sb, A1 = Ok (sa, na) -> cgrel sa sb -> res_rel grel (B1 sa) (B2 sb)) ->
    res_rel grel (do x <- A1; do y <- B1 (fst x); Ok (fst y, snd x ++ snd y))
                 (do x <- A2; do y <- B2 (fst x); Ok (fst y, snd x ++ snd y)).
  Proof.
    intros HA HB. destruct A1 as [[sa na]| |], A2 as [[sb nb]| |]; cbn [res_rel] in HA; try contradiction;
      cbn [bind res_rel fst snd]; auto.
    destruct HA as [Hs Hn]. cbn [fst snd] in Hs, Hn. subst nb.
    eapply res_rel_bind; [apply (HB sa na sb eq_refl Hs)|].
    intros [sa' na'] [sb' nb'] [Hs' Hn']. cbn [fst snd] in *. subst nb'. split; cbn [fst snd]; auto.
  Qed.

  Lemma enter_scope_c r1 r2 k : crel r1 r2 -> res_rel crel (enter_scope r1 k) (enter_scope r2 k).
  Proof.
    intros H. unfold enter_scope. apply use_next_scope_c. unfold append_scope. rewrite (cr_cur _ _ H).
    destruct H; constructor; cbn [set_scopes r_scopes r_cur r_last r_pc r_reloc r_bus r_rom]; auto.
    apply screl_app; auto.
  Qed.

  Lemma get_table_fuel_c sc1 sc2 : screl sc1 sc2 -> forall fuel i, get_table_fuel sc1 fuel i = get_table_fuel sc2 fuel i.
  Proof.
    intros H fuel; induction fuel as [|fuel IH]; intros i; [reflexivity|]. cbn [get_table_fuel].
    specialize (H i). destruct (nth_error sc1 i) as [a|], (nth_error sc2 i) as [b|]; try contradiction; [|reflexivity].
    destruct H as [_ (P & Kd & S & L & T & Cd)]. rewrite T, P. destruct (s_table b); [reflexivity|].
    destruct (s_parent b); [apply IH|reflexivity].
  Qed.
  Lemma get_table_c r1 r2 : crel r1 r2 -> get_table r1 = get_table r2.
  Proof. intros H. unfold get_table. rewrite (cr_cur _ _ H). apply get_table_fuel_c. apply (cr_scopes _ _ H). Qed.

  Lemma generate_map_c r1 r2 a : crel r1 r2 -> holds r1 ->
    res_rel (fun x y => crel x y /\ holds x) (generate_map r1 a) (generate_map r2 a).
  Proof.
    intros H Hh. unfold generate_map. rewrite (cr_bus _ _ H).
    destruct (ma_identifier a) as [id|]; [|reflexivity].
    destruct (ma_bank_range a) as [[lo [hi|]]|]; try reflexivity;
    destruct (ma_addr_range a) as [ar|]; try reflexivity;
    destruct (ma_mask a) as [[mask [mh|]]|]; try reflexivity.
    destruct (ma_mirror_bank_range a) as [[m0 [m1|]]|].
    - apply res_rel_bind_same; intros b _. cbn [res_rel]. split; [apply crel_set_bus, H|exact Hh].
    - destruct (m0 =? 0); [|reflexivity].
      apply res_rel_bind_same; intros b _. cbn [res_rel]. split; [apply crel_set_bus, H|exact Hh].
    - apply res_rel_bind_same; intros b _. cbn [res_rel]. split; [apply crel_set_bus, H|exact Hh].
  Qed.

  Lemma if_condition_c r1 r2 c : crel r1 r2 -> kfree c = true \/ dead r1 -> if_condition w r1 c = if_condition w r2 c.
  Proof. intros H Hm. unfold if_condition. rewrite (eval_raw_c r1 r2 c H Hm). reflexivity. Qed.

  Lemma eval_macro_args_c r1 r2 : crel r1 r2 -> dead r1 -> forall ps args,
    eval_macro_args w r1 ps args = eval_macro_args w r2 ps args.
  Proof.
    intros H Hd. induction ps as [|p ps IH]; intros args; cbn [eval_macro_args]; [reflexivity|].
    destruct args as [|a rest]; [reflexivity|].
    rewrite IH. destruct a as [e|[body fi]]; [|reflexivity].
    rewrite (eval_raw_c r1 r2 e H (or_intror Hd)). reflexivity.
  Qed.

  Lemma bind_macro_args_c bs : forall r1 r2, crel r1 r2 -> holds r1 -> r_cur r1 <> j ->
    crel (fst (bind_macro_args r1 bs)) (fst (bind_macro_args r2 bs)) /\
    holds (fst (bind_macro_args r1 bs)) /\
    snd (bind_macro_args r1 bs) = snd (bind_macro_args r2 bs).
  Proof.
    induction bs as [|[p v] bs IH]; intros r1 r2 H Hh Hc; cbn [bind_macro_args]; [auto|].
    destruct v as [x|body fi|e].
    - apply IH; auto using crel_add_symbol. apply holds_upd; auto.
    - apply IH; auto using crel_add_code, holds_add_code.
    - destruct (IH r1 r2 H Hh Hc) as (A & B & D).
      destruct (bind_macro_args r1 bs) as [ra na], (bind_macro_args r2 bs) as [rb nb].
      cbn [fst snd] in *. split; [|split]; auto. congruence.
  Qed.

  Lemma restore_scope_ch r1 r2 e : crel r1 r2 -> holds r1 ->
    res_rel (fun x y => crel x y /\ holds x) (restore_scope r1 e) (restore_scope r2 e).
  Proof.
    intros H Hh. pose proof (restore_scope_c r1 r2 e H) as HR.
    destruct (restore_scope r1 e) as [ra| |] eqn:E1, (restore_scope r2 e) as [rb| |]; cbn [res_rel] in *; auto.
    split; [exact HR|eapply holds_restore; eauto].
  Qed.

  (** a body generated in a fresh scope *)
  Lemma scoped_m gen k s1 s2 pre b :
    gen_resp_m gen -> cgrel s1 s2 -> mode s1 b ->
    (forall ra rb, crel ra rb -> holds ra -> (away s1 -> r_cur ra <> j) ->
       crel (fst (pre ra)) (fst (pre rb)) /\ holds (fst (pre ra)) /\ snd (pre ra) = snd (pre rb)) ->
    (forall ra, benign ra (fst (pre ra))) ->
    res_rel grel (scoped gen k s1 pre b) (scoped gen k s2 pre b).
  Proof.
    intros Hgen (Hr & Hm & Hh) Hmode Hpre Hben. unfold scoped.
    pose proof (enter_scope_c _ _ k Hr) as HE.
    destruct (enter_scope (cg_r s1) k) as [ra| |] eqn:E1, (enter_scope (cg_r s2) k) as [rb| |] eqn:E2;
      cbn [res_rel] in HE; try contradiction; cbn [bind res_rel]; auto.
    pose proof (holds_enter _ _ _ Hh E1) as Hha.
    assert (Haw : away s1 -> dead ra /\ cg_ok ra).
    { intros [Hd Hk]. split; [eapply dead_enter; eauto|eapply cg_ok_enter; eauto]. }
    destruct (Hpre ra rb HE Hha (fun A => dead_cur _ (proj1 (Haw A)))) as (P1 & P2 & P3).
    specialize (Hben ra).
    destruct (pre ra) as [ra2 pn1], (pre rb) as [rb2 pn2]. cbn [fst snd] in *. subst pn2.
    eapply res_rel_bind.
    - apply Hgen; [apply cgrel_set_r; [split; [|split]; auto| |]; auto|].
      destruct Hmode as [A|Pl]; [left|right; exact Pl].
      destruct (Haw A) as [Hd Hk]. split; cbn [cg_set_r cg_r]; [eapply dead_benign; eauto|eapply cg_ok_benign; eauto].
    - intros [sa na] [sb nb] [(Hr' & Hm' & Hh') Hn]. cbn [fst snd] in *. subst nb.
      eapply res_rel_bind; [apply restore_scope_ch; eauto|].
      intros r3a r3b [H3 Hh3]. cbn [res_rel]. split; cbn [fst snd]; [|reflexivity].
      split; [|split]; cbn [cg_set_r cg_r cg_macros]; auto.
  Qed.

  Lemma scoped_m_id gen k s1 s2 ns0 b :
    gen_resp_m gen -> cgrel s1 s2 -> mode s1 b ->
    res_rel grel (scoped gen k s1 (fun r => (r, ns0)) b) (scoped gen k s2 (fun r => (r, ns0)) b).
  Proof.
    intros Hgen H Hmode. apply (scoped_m gen k s1 s2 (fun r => (r, ns0)) b Hgen H Hmode).
    - intros ra rb A B _. cbn [fst snd]. auto.
    - intros ra. apply benign_refl.
  Qed.

  Section Step.
    Variable gen : cgstate -> list ast -> res (cgstate * list node).
    Hypothesis Hgen : gen_resp_m gen.
    Hypothesis Hok : gen_ok gen.

    (** after a statement that succeeded, [j] is still out of the way *)
    Lemma away_R s s' ns : away s -> R s s' ns -> away s'.
    Proof.
      intros [Hd Hk] (K' & Hc & Hx & _). split; [|exact K'].
      exact (dead_ext (cg_r s) (cg_r s') Hk Hx Hc Hd).
    Qed.

    Lemma for_loop_m v b : forall n k s1 s2, cgrel s1 s2 -> mode s1 b ->
      res_rel grel (for_loop gen n k v b s1) (for_loop gen n k v b s2).
    Proof.
      induction n as [|n IH]; intros k s1 s2 H Hmode; cbn [for_loop].
      - apply grel_same. exact H.
      - apply seq_m; [apply scoped_m_id; auto|].
        intros sa na sb E Hab. apply IH; auto.
        destruct Hmode as [A|Pl]; [left|right; exact Pl].
        eapply away_R; [exact A|]. eapply (scoped_R gen Hok); [| |exact E]; [|apply A].
        intros r r' pns Ep. inversion Ep; subst. split; [apply benign_refl|reflexivity].
    Qed.

    Lemma gen_one_m s1 s2 a : cgrel s1 s2 -> away s1 \/ plain a = true ->
      res_rel grel (gen_one w gen s1 a) (gen_one w gen s2 a).
    Proof.
      intros H M. pose proof H as (Hr & Hm & Hh).
      assert (HD : away s1 -> dead (cg_r s1)) by (intros [A _]; exact A).
      destruct a; cbn [gen_one].
      - (* ABlock *) apply Hgen; [exact H|exact M].
      - (* ACompound *) apply scoped_m_id; [exact Hgen|exact H|exact M].
      - (* ALabel *) apply grel_same. exact H.
      - (* AText *) rewrite (get_table_c _ _ Hr). apply res_rel_bind_same; intros t _. apply grel_same. exact H.
      - (* AAscii *) apply grel_same. exact H.
      - (* AScope *) apply scoped_m_id; [exact Hgen|exact H|exact M].
      - (* AStarEq *) apply grel_same. exact H.
      - (* AAtEq *) apply grel_same. exact H.
      - (* AMap *) eapply res_rel_bind; [apply generate_map_c; eauto|].
        intros ra rb [Hab Hha]. apply grel_same. apply cgrel_set_r; auto.
      - (* AIf *)
        assert (Lc : kfree c = true \/ dead (cg_r s1)).
        { destruct M as [A|Pl]; [right; auto|left]. cbn [plain] in Pl. apply andb_prop in Pl as [Pl _]. apply andb_prop in Pl as [Pl _]. exact Pl. }
        rewrite (if_condition_c _ _ c Hr Lc). apply res_rel_bind_same; intros cond _.
        destruct cond.
        + apply Hgen; auto. destruct M as [A|Pl]; [left; exact A|right].
          cbn [plain] in Pl. apply andb_prop in Pl as [Pl _]. apply andb_prop in Pl as [_ Pl]. exact Pl.
        + destruct el as [[eb ebfi]|]; [|apply grel_same; exact H].
          apply Hgen; auto. destruct M as [A|Pl]; [left; exact A|right].
          cbn [plain] in Pl. apply andb_prop in Pl as [_ Pl]. exact Pl.
      - (* AMacro *) cbn [res_rel]. split; cbn [fst snd]; [|reflexivity].
        split; [|split]; cbn [cg_r cg_macros]; auto. rewrite Hm. reflexivity.
      - (* AMacroApply *)
        destruct M as [A|Pl]; [|discriminate].
        rewrite Hm. destruct (dict_get (cg_macros s2) name) as [md|]; [|reflexivity].
        rewrite (eval_macro_args_c _ _ Hr (HD A)). apply res_rel_bind_same; intros bound _.
        apply scoped_m; auto.
        + left. exact A.
        + intros ra rb Hab Hha Hc. apply bind_macro_args_c; auto.
        + intros ra. destruct (bind_macro_args ra bound) as [r' ns'] eqn:E. cbn [fst].
          apply (bind_macro_args_benign _ _ _ _ E).
      - (* AData *) apply grel_same. exact H.
      - (* ATable *) apply res_rel_bind_same; intros t _. apply grel_same.
        apply cgrel_set_r; auto.
        + rewrite (cr_cur _ _ Hr). apply crel_upd; auto using cscope_set_table.
        + apply holds_upd; auto.
      - (* AIncludeIps *)
        assert (Le : kfree e = true \/ dead (cg_r s1)) by (destruct M as [A|Pl]; [right; auto|left; exact Pl]).
        rewrite (eval_raw_c _ _ e Hr Le). apply res_rel_bind_same; intros delta _.
        apply res_rel_bind_same; intros blocks _. apply grel_same. exact H.
      - (* AIncbin *) apply res_rel_bind_same; intros c _. apply grel_same. exact H.
      - (* ASymbol *) apply grel_same. exact H.
      - (* AAssign *)
        assert (Le : kfree e = true \/ dead (cg_r s1)) by (destruct M as [A|Pl]; [right; auto|left; exact Pl]).
        rewrite (eval_raw_c _ _ e Hr Le). apply res_rel_bind_same; intros v _.
        apply grel_same. apply cgrel_set_r; auto using crel_add_symbol. apply holds_upd; auto.
      - (* ACodeLookup *)
        destruct M as [A|Pl]; [|discriminate].
        rewrite (value_for_c _ _ name Hr (or_intror (HD A))).
        destruct (value_for (cg_r s2) name) as [[x|body bfi]|k|]; try reflexivity. apply Hgen; auto. left. exact A.
      - (* AStruct *) reflexivity.
      - (* AFor *)
        assert (Ll : (kfree lo = true \/ dead (cg_r s1)) /\ (kfree hi = true \/ dead (cg_r s1)) /\ mode s1 body).
        { destruct M as [A|Pl]; [repeat split; [right|right|left]; auto|].
          cbn [plain] in Pl. apply andb_prop in Pl as [Pl P3]. apply andb_prop in Pl as [P1 P2].
          repeat split; [left|left|right]; auto. }
        destruct Ll as (L1 & L2 & L3).
        rewrite (eval_raw_c _ _ lo Hr L1), (eval_raw_c _ _ hi Hr L2).
        apply res_rel_bind_same; intros from _. apply res_rel_bind_same; intros to _.
        apply for_loop_m; auto.
      - (* AOpcode *) destruct mode0; try (apply grel_same; exact H);
          (destruct operand as [e|]; [apply grel_same; exact H|reflexivity]).
    Qed.

    Lemma gen_list_m body : forall s1 s2, cgrel s1 s2 -> mode s1 body ->
      res_rel grel (gen_list w gen s1 body) (gen_list w gen s2 body).
    Proof.
      induction body as [|a rest IH]; intros s1 s2 H Hmode; cbn [gen_list].
      - apply grel_same. exact H.
      - apply (seq_m _ _ (fun s => gen_list w gen s rest) (fun s => gen_list w gen s rest)).
        + apply gen_one_m; auto. destruct Hmode as [A|Pl]; [left; exact A|right].
          cbn [forallb] in Pl. apply andb_prop in Pl as [Pl _]. exact Pl.
        + intros sa na sb E Hab. apply IH; auto.
          destruct Hmode as [A|Pl].
          * left. eapply away_R; [exact A|]. eapply gen_one_R; eauto. apply A.
          * right. cbn [forallb] in Pl. apply andb_prop in Pl as [_ Pl]. exact Pl.
    Qed.
  End Step.

  Theorem code_gen_m fuel : gen_resp_m (code_gen_fuel w fuel).
  Proof.
    induction fuel as [|f IH]; intros s1 s2 b H Hmode; cbn [code_gen_fuel]; [reflexivity|].
    apply gen_list_m; auto. apply code_gen_replay.
  Qed.

  (** ** The body with its splices *)

  (** statement of the macro body / statement of the inlined twin *)
  Inductive arel : ast -> ast -> Prop :=
  | ar_same a : plain a = true -> arel a a
  | ar_splice q fi fi' stmts fi0 :
      dict_get C q = Some (stmts, fi0) -> forallb plain stmts = true ->
      arel (ACodeLookup q fi) (ABlock stmts fi')
  | ar_block b1 b2 fi fi' : Forall2 arel b1 b2 -> arel (ABlock b1 fi) (ABlock b2 fi').

  (** at the body's own level: the current scope is the application scope *)
  Definition top (s : cgstate) : Prop := r_cur (cg_r s) = j /\ cg_ok (cg_r s).

  Lemma value_for_top r q stmts fi0 :
    holds r -> r_cur r = j -> dict_get C q = Some (stmts, fi0) -> value_for r q = Ok (VCode stmts fi0).
  Proof.
    unfold holds. intros Hh Hc Hq. rewrite nth_error_map in Hh.
    destruct (nth_error (r_scopes r) j) as [sj|] eqn:Hn; cbn [option_map] in Hh; [|discriminate].
    inversion Hh as [Hcode]. unfold value_for. rewrite Hc. cbn [value_for_fuel]. rewrite Hn.
    unfold scope_getitem, dict_mem. rewrite Hcode, Hq.
    destruct (s_parent sj); [rewrite orb_true_r|]; reflexivity.
  Qed.

  Definition gen_resp_p (gen : cgstate -> list ast -> res (cgstate * list node)) : Prop :=
    forall s1 s2 b1 b2, cgrel s1 s2 -> top s1 -> Forall2 arel b1 b2 -> res_rel grel (gen s1 b1) (gen s2 b2).

  Section StepP.
    Variable gen : cgstate -> list ast -> res (cgstate * list node).
    Hypothesis Hm : gen_resp_m gen.
    Hypothesis Hp : gen_resp_p gen.
    Hypothesis Hok : gen_ok gen.

    Lemma gen_one_p s1 s2 a1 a2 : cgrel s1 s2 -> top s1 -> arel a1 a2 ->
      res_rel grel (gen_one w gen s1 a1) (gen_one w gen s2 a2).
    Proof.
      intros H [Hc Hk] Ha. destruct Ha as [a Pl|q fi fi' stmts fi0 Hq Pl|b1 b2 fi fi' Hb].
      - apply gen_one_m; auto.
      - cbn [gen_one]. rewrite (value_for_top _ q stmts fi0 (proj2 (proj2 H)) Hc Hq).
        apply Hm; [exact H|right; exact Pl].
      - cbn [gen_one]. apply Hp; auto. split; auto.
    Qed.

    Lemma gen_list_p b1 b2 : Forall2 arel b1 b2 -> forall s1 s2, cgrel s1 s2 -> top s1 ->
      res_rel grel (gen_list w gen s1 b1) (gen_list w gen s2 b2).
    Proof.
      induction 1 as [|a1 a2 b1 b2 Ha Hb IH]; intros s1 s2 H Ht; cbn [gen_list].
      - apply grel_same. exact H.
      - apply (seq_m _ _ (fun s => gen_list w gen s b1) (fun s => gen_list w gen s b2)).
        + apply gen_one_p; auto.
        + intros sa na sb E Hab. apply IH; auto.
          destruct Ht as [Hc Hk]. destruct (gen_one_R w gen Hok _ _ _ _ Hk E) as (K' & Hc' & _).
          split; [congruence|exact K'].
    Qed.
  End StepP.

  Theorem code_gen_p fuel : gen_resp_p (code_gen_fuel w fuel).
  Proof.
    induction fuel as [|f IH]; intros s1 s2 b1 b2 H Ht Hb; cbn [code_gen_fuel]; [reflexivity|].
    apply gen_list_p; auto using code_gen_m, code_gen_replay.
  Qed.

  (** a code parameter bound on the left only, in scope [j] *)
  Lemma crel_add_code_l r1 r2 q c : r_cur r1 = j -> K q = true -> crel r1 r2 -> crel (add_code r1 q c) r2.
  Proof.
    intros Hc Hq []. constructor; auto. unfold add_code, upd_scope. cbn [set_scopes r_scopes]. rewrite Hc.
    intros i. rewrite nth_list_update. specialize (cr_scopes0 i).
    destruct (Nat.eqb_spec j i) as [<-|N]; [|exact cr_scopes0].
    destruct (nth_error (r_scopes r1) j) as [a|], (nth_error (r_scopes r2) j) as [b|]; cbn [option_map]; auto.
    destruct cr_scopes0 as [_ (P & Kd & S & L & T & Cd)]. split; [intros N; contradiction|].
    repeat split; cbn [scope_add_code s_parent s_kind s_symbols s_labels s_table s_code]; auto.
    intros q' Hq'. rewrite dict_get_set_other; auto.
    destruct (str_eqb q' q) eqn:E; [|reflexivity]. apply str_eqb_eq in E. congruence.
  Qed.

End Code.

(** ** The application and its inlined twin *)

(** a parameter binding: an evaluated argument (with a literal denoting its value in the twin) or a
    code block *)
Inductive cbind := CInt (v : Z) (lit : expr) | CCode (stmts : list ast) (fi : token).

Definition cbound (cbs : list (str * cbind)) : list (str * argval) :=
  map (fun pb => (fst pb, match snd pb with CInt v _ => AVInt v | CCode b fi => AVCode b fi end)) cbs.
(** the twin's parameter statements: [p := lit] for the evaluated ones, nothing for the code blocks *)
Definition cstmts (cbs : list (str * cbind)) (fi : token) : list ast :=
  flat_map (fun pb => match snd pb with CInt _ lit => [AAssign (fst pb) lit fi] | CCode _ _ => [] end) cbs.
Definition code_step (d : dict (list ast * token)) (pb : str * cbind) : dict (list ast * token) :=
  match snd pb with CCode b fi => dict_set d (fst pb) (b, fi) | CInt _ _ => d end.
(** the code dictionary the application scope ends up with *)
Definition code_of (cbs : list (str * cbind)) : dict (list ast * token) := fold_left code_step cbs [].
Definition code_names (cbs : list (str * cbind)) (q : str) : bool := dict_mem (code_of cbs) q.
Definition clits_closed (w : world) (cbs : list (str * cbind)) : Prop :=
  Forall (fun pb => match snd pb with CInt v lit => forall r, eval_raw w r lit = Ok v | CCode _ _ => True end) cbs.

Definition bind_fold (r : rstate) (cbs : list (str * cbind)) : rstate :=
  fold_left (fun r pb => match snd pb with
                         | CInt v _ => add_symbol r (fst pb) v
                         | CCode b fi => add_code r (fst pb) (b, fi)
                         end) cbs r.
Definition int_fold2 (r : rstate) (cbs : list (str * cbind)) : rstate :=
  fold_left (fun r pb => match snd pb with CInt v _ => add_symbol r (fst pb) v | CCode _ _ => r end) cbs r.

Lemma bind_cb cbs : forall r, bind_macro_args r (cbound cbs) = (bind_fold r cbs, []).
Proof.
  induction cbs as [|[p b] cbs IH]; intros r; [reflexivity|].
  destruct b as [v lit|stmts fi]; cbn [cbound map fst snd bind_macro_args]; fold (cbound cbs); rewrite IH; reflexivity.
Qed.

Lemma gen_cstmts w gen fi cbs : forall s, clits_closed w cbs ->
  gen_list w gen s (cstmts cbs fi) = Ok (cg_set_r s (int_fold2 (cg_r s) cbs), []).
Proof.
  induction cbs as [|[p b] cbs IH]; intros s H.
  - cbn. destruct s; reflexivity.
  - inversion H as [|? ? Hb Hrest]; subst. cbn [fst snd] in Hb. unfold cstmts. cbn [flat_map fst snd].
    fold (cstmts cbs fi). destruct b as [v lit|stmts sfi].
    + cbn [app gen_list gen_one]. rewrite Hb. cbn [bind fst snd]. rewrite IH by assumption. reflexivity.
    + cbn [app]. rewrite IH by assumption. reflexivity.
Qed.

Lemma bind_fold_cur cbs : forall r, r_cur (bind_fold r cbs) = r_cur r.
Proof.
  induction cbs as [|[p b] cbs IH]; intros r; [reflexivity|]. unfold bind_fold. cbn [fold_left fst snd].
  fold (bind_fold (match b with CInt v _ => add_symbol r p v | CCode b0 fi => add_code r p (b0, fi) end) cbs).
  rewrite IH. destruct b; reflexivity.
Qed.

Lemma dict_mem_set_mono {V} (d : dict V) k v q : dict_mem d q = true -> dict_mem (dict_set d k v) q = true.
Proof.
  unfold dict_mem. destruct (str_eqb q k) eqn:E.
  - apply str_eqb_eq in E. subst. rewrite dict_get_set_same. reflexivity.
  - rewrite (dict_get_set_other _ _ _ _ E). auto.
Qed.

Lemma code_fold_mem cbs : forall d p,
  dict_mem d p = true \/ (exists b fi, In (p, CCode b fi) cbs) -> dict_mem (fold_left code_step cbs d) p = true.
Proof.
  induction cbs as [|[p0 b0] cbs IH]; intros d p H; cbn [fold_left].
  - destruct H as [H|(b & fi & [])]. exact H.
  - apply IH. destruct H as [H|(b & fi & [E|Hin])].
    + left. unfold code_step. cbn [fst snd]. destruct b0; auto using dict_mem_set_mono.
    + inversion E; subst. left. unfold code_step. cbn [fst snd]. apply dict_mem_set_same.
    + right. eauto.
Qed.

Lemma fold_rel K j cbs : (forall p b fi, In (p, CCode b fi) cbs -> K p = true) -> forall r1 r2,
  r_cur r1 = j -> crel K j r1 r2 -> crel K j (bind_fold r1 cbs) (int_fold2 r2 cbs).
Proof.
  induction cbs as [|[p b] cbs IH]; intros HK r1 r2 Hc H; [exact H|].
  unfold bind_fold, int_fold2. cbn [fold_left fst snd].
  destruct b as [v lit|stmts fi].
  - apply IH; auto using crel_add_symbol. intros p' b' fi' Hin. eapply HK. right. exact Hin.
  - apply IH; auto.
    + intros p' b' fi' Hin. eapply HK. right. exact Hin.
    + apply crel_add_code_l; auto. eapply HK. left. reflexivity.
Qed.

Lemma holds_fold j cbs : forall r c0,
  r_cur r = j -> nth_error (map s_code (r_scopes r)) j = Some c0 ->
  nth_error (map s_code (r_scopes (bind_fold r cbs))) j = Some (fold_left code_step cbs c0).
Proof.
  induction cbs as [|[p b] cbs IH]; intros r c0 Hc H; [exact H|].
  unfold bind_fold. cbn [fold_left fst snd].
  destruct b as [v lit|stmts fi].
  - apply IH; auto. unfold add_symbol, upd_scope. cbn [set_scopes r_scopes].
    rewrite (map_list_update s_code _ (fun x => x)) by reflexivity. rewrite list_update_id. exact H.
  - change (fold_left code_step cbs (code_step c0 (p, CCode stmts fi)))
      with (fold_left code_step cbs (dict_set c0 p (stmts, fi))).
    apply IH; [exact Hc|]. unfold add_code, upd_scope. cbn [set_scopes r_scopes]. rewrite Hc.
    rewrite (map_list_update s_code _ (fun d => dict_set d p (stmts, fi))) by reflexivity.
    exact (nth_list_update_same _ _ (fun d => dict_set d p (stmts, fi)) c0 H).
Qed.

(** The two code generations: same node list, states that differ only in the code dictionary of the
    application scope (index [length (r_scopes (cg_r s))]), which nothing current descends from. *)
Theorem macro_code_inlined w f s name args fi fi' fi'' md cbs body2 :
  cg_ok (cg_r s) ->
  dict_get (cg_macros s) name = Some md ->
  eval_macro_args w (cg_r s) (md_params md) args = Ok (cbound cbs) ->
  clits_closed w cbs ->
  Forall2 (arel (code_names cbs) (code_of cbs)) (md_body md) body2 ->
  let j := length (r_scopes (cg_r s)) in
  res_rel (fun x y => grel (code_names cbs) j (code_of cbs) x y /\ away j (fst x))
          (gen_one w (code_gen_fuel w (S f)) s (AMacroApply name args fi))
          (gen_one w (code_gen_fuel w (S f)) s (ACompound (cstmts cbs fi'' ++ body2) fi')).
Proof.
  intros Hk Hmd Hargs Hlits Hbody j.
  pose proof (gen_one_R w _ (code_gen_replay w (S f)) s (AMacroApply name args fi)) as HR.
  assert (H0 : res_rel (grel (code_names cbs) j (code_of cbs))
            (gen_one w (code_gen_fuel w (S f)) s (AMacroApply name args fi))
            (gen_one w (code_gen_fuel w (S f)) s (ACompound (cstmts cbs fi'' ++ body2) fi'))).
  { cbn [gen_one]. rewrite Hmd, Hargs. cbn [bind]. unfold scoped.
    destruct (enter_scope (cg_r s) SPlain) as [ra| |] eqn:E; cbn [bind res_rel]; auto.
    rewrite bind_cb. cbn [code_gen_fuel]. rewrite gen_list_app.
    rewrite (gen_cstmts w _ fi'' cbs (cg_set_r s ra) Hlits). cbn [bind fst snd cg_set_r cg_r cg_macros].
    change (gen_list w (code_gen_fuel w f)) with (code_gen_fuel w (S f)).
    pose proof (cg_ok_enter _ _ _ Hk E) as Hka.
    pose proof (enter_scope_shape _ _ _ Hk E) as Hra.
    assert (Hcur : r_cur ra = j) by (rewrite Hra; reflexivity).
    assert (Hcode : nth_error (map s_code (r_scopes ra)) j = Some []).
    { rewrite Hra. cbn [set_cur_last set_scopes r_scopes]. rewrite map_app, nth_error_app2 by (rewrite map_length; unfold j; lia).
      rewrite map_length. unfold j. rewrite Nat.sub_diag. reflexivity. }
    assert (Hrel : cgrel (code_names cbs) j (code_of cbs)
                     {| cg_r := bind_fold ra cbs; cg_macros := cg_macros s |}
                     {| cg_r := int_fold2 ra cbs; cg_macros := cg_macros s |}).
    { split; [|split]; cbn [cg_r cg_macros]; auto.
      - apply fold_rel; auto using crel_refl.
        intros p b bfi Hin. unfold code_names, code_of. apply code_fold_mem. right. eauto.
      - unfold holds, code_of. apply holds_fold; auto. }
    assert (Htop : top j {| cg_r := bind_fold ra cbs; cg_macros := cg_macros s |}).
    { split; cbn [cg_r]; [rewrite bind_fold_cur; exact Hcur|].
      eapply cg_ok_benign; [exact Hka|]. apply (bind_macro_args_benign (cbound cbs) ra _ [] (bind_cb cbs ra)). }
    pose proof (code_gen_p w _ j _ (S f) _ _ _ _ Hrel Htop Hbody) as HP.
    unfold cg_set_r. cbn [cg_macros cg_r].
    destruct (code_gen_fuel w (S f) {| cg_r := bind_fold ra cbs; cg_macros := cg_macros s |} (md_body md)) as [[sa na]| |],
             (code_gen_fuel w (S f) {| cg_r := int_fold2 ra cbs; cg_macros := cg_macros s |} body2) as [[sb nb]| |];
      cbn [res_rel] in HP; try contradiction; cbn [bind fst snd app res_rel]; auto.
    destruct HP as [(Hr' & Hm' & Hh') Hn]. cbn [fst snd] in *. subst nb.
    eapply res_rel_bind; [apply restore_scope_ch; eauto|].
    intros r3a r3b [H3 Hh3]. cbn [res_rel]. split; cbn [fst snd app]; [|reflexivity].
    split; [|split]; cbn [cg_set_r cg_r cg_macros]; auto. }
  destruct (gen_one w (code_gen_fuel w (S f)) s (AMacroApply name args fi)) as [[sa na]| |],
           (gen_one w (code_gen_fuel w (S f)) s (ACompound (cstmts cbs fi'' ++ body2) fi')) as [[sb nb]| |];
    cbn [res_rel] in *; auto.
  split; [exact H0|]. cbn [fst].
  destruct (HR sa na Hk eq_refl) as (K' & Hc & Hx & _). split; [|exact K'].
  unfold dead. intros He. apply (encloses_le _ _ _ (ck_wf _ K')) in He.
  destruct H0 as [(_ & _ & Hh) _]. cbn [fst] in Hh. destruct Hk as [K1 K2 K3]. rewrite Hc in He. unfold j in He. lia.
Qed.

(** ** In a program, followed by the passes *)
Theorem macro_code_from w f s before after name args fi fi' fi'' md cbs body2 :
  cg_ok (cg_r s) ->
  (forall s' ns', code_gen_fuel w (S (S f)) s before = Ok (s', ns') ->
     dict_get (cg_macros s') name = Some md /\
     eval_macro_args w (cg_r s') (md_params md) args = Ok (cbound cbs)) ->
  clits_closed w cbs ->
  Forall2 (arel (code_names cbs) (code_of cbs)) (md_body md) body2 ->
  (forall sF ns, code_gen_fuel w (S (S f)) s (before ++ [AMacroApply name args fi] ++ after) = Ok (sF, ns) ->
     nodes_kfree (code_names cbs) ns = true) ->
  res_rel (fun o1 o2 => o_blocks o1 = o_blocks o2 /\ o_labels o1 = o_labels o2)
    (assemble_at w (S (S f)) s (before ++ [AMacroApply name args fi] ++ after))
    (assemble_at w (S (S f)) s (before ++ [ACompound (cstmts cbs fi'' ++ body2) fi'] ++ after)).
Proof.
  intros Hk Hdef Hlits Hbody Hfree. unfold assemble_at.
  pose proof (gen_list_R w _ (code_gen_replay w (S f)) before s) as HRb.
  change (code_gen_fuel w (S (S f))) with (gen_list w (code_gen_fuel w (S f))) in *.
  rewrite !gen_list_middle in *.
  destruct (gen_list w (code_gen_fuel w (S f)) s before) as [[s1 n1]| |]; cbn [bind fst snd res_rel] in *; auto.
  destruct (Hdef s1 n1 eq_refl) as [Hmd Hargs].
  destruct (HRb s1 n1 Hk eq_refl) as (Hk1 & _).
  pose proof (macro_code_inlined w f s1 name args fi fi' fi'' md cbs body2 Hk1 Hmd Hargs Hlits Hbody) as HA.
  cbv zeta in HA. set (j := length (r_scopes (cg_r s1))) in *.
  destruct (gen_one w (code_gen_fuel w (S f)) s1 (AMacroApply name args fi)) as [[sa na]| |],
           (gen_one w (code_gen_fuel w (S f)) s1 (ACompound (cstmts cbs fi'' ++ body2) fi')) as [[sb nb]| |];
    cbn [res_rel] in HA; try contradiction; cbn [bind fst snd res_rel] in *; auto.
  destruct HA as [[Hrel Hn] Haway]. cbn [fst snd] in Hrel, Hn, Haway. subst nb.
  pose proof (code_gen_m w (code_names cbs) j (code_of cbs) (S (S f)) sa sb after Hrel (or_introl Haway)) as HB.
  change (code_gen_fuel w (S (S f))) with (gen_list w (code_gen_fuel w (S f))) in HB.
  destruct (gen_list w (code_gen_fuel w (S f)) sa after) as [[sa' na']| |],
           (gen_list w (code_gen_fuel w (S f)) sb after) as [[sb' nb']| |];
    cbn [res_rel] in HB; try contradiction; cbn [bind fst snd res_rel] in *; auto.
  destruct HB as [(Hr' & _ & _) Hn']. cbn [fst snd] in Hr', Hn'. subst nb'.
  eapply res_rel_impl; [|apply (assemble_nodes_c w (code_names cbs) j _ _ _ (Hfree _ _ eq_refl) Hr')].
  intros o1 o2 (A & B & _). auto.
Qed.

(** C09, code-block arguments: the program with the application and the program with the inlined
    block fail with the same kind of error or give the same writer blocks and labels. *)
Theorem macro_code_assembly w r before after name args fi fi' fi'' md cbs body2 :
  cg_ok r ->
  (forall s' ns', code_gen_fuel w cg_depth {| cg_r := r; cg_macros := [] |} before = Ok (s', ns') ->
     dict_get (cg_macros s') name = Some md /\
     eval_macro_args w (cg_r s') (md_params md) args = Ok (cbound cbs)) ->
  clits_closed w cbs ->
  Forall2 (arel (code_names cbs) (code_of cbs)) (md_body md) body2 ->
  (forall sF ns, code_gen_fuel w cg_depth {| cg_r := r; cg_macros := [] |}
                   (before ++ [AMacroApply name args fi] ++ after) = Ok (sF, ns) ->
     nodes_kfree (code_names cbs) ns = true) ->
  match assemble_ast w r (before ++ [AMacroApply name args fi] ++ after),
        assemble_ast w r (before ++ [ACompound (cstmts cbs fi'' ++ body2) fi'] ++ after) with
  | Ok o1, Ok o2 => o_blocks o1 = o_blocks o2 /\ o_labels o1 = o_labels o2
  | Err j, Err k => j = k
  | OutOfFuel, OutOfFuel => True
  | _, _ => False
  end.
Proof.
  intros Hk Hdef Hlits Hbody Hfree. rewrite !assemble_ast_at.
  pose proof (macro_code_from w 298 {| cg_r := r; cg_macros := [] |} before after name args fi fi' fi'' md cbs body2
                Hk Hdef Hlits Hbody Hfree) as H.
  destruct (assemble_at w (S (S 298)) _ (before ++ [AMacroApply name args fi] ++ after)),
           (assemble_at w (S (S 298)) _ (before ++ [ACompound (cstmts cbs fi'' ++ body2) fi'] ++ after));
    cbn [res_rel] in H; auto.
Qed.

(** ** Examples (world and helpers of [NIExamples] / [DeferredExamples]) *)
Module MacroCodeExamples.
  Import NonInterference.NIExamples DeferredArgs.DeferredExamples.
  Notation p_ := [112]. Notation e_ := [101].
  Definition num (c : Z) : expr := [{| en_kind := EK_term; en_tok := mk_token T_NUMBER [c] |}].
  Definition blk (c : Z) : list ast := [AData D_db [num c] fi].

  (** .macro m(a, p) { .db a  {{p}}  .db a }   *=0x8000   m(1, { .db 2 })   m(3, { .db 4 })   e: *)
  Definition mbody := [AData D_db [ident a_] fi; ACodeLookup p_ fi; AData D_db [ident a_] fi].
  Definition before_ := [AMacro m_ [a_; p_] mbody fi fi; AStarEq num8000 fi].
  Definition app_ := AMacroApply m_ [inl (num 49); inr (blk 50, fi)] fi.
  Definition after_ := [AMacroApply m_ [inl (num 51); inr (blk 52, fi)] fi; ALabel e_ fi].
  (** the twin of the first application:  { a := 1   .db a  { .db 2 }  .db a } *)
  Definition cbs := [(a_, CInt 1 (num 49)); (p_, CCode (blk 50) fi)].
  Definition body2 := [AData D_db [ident a_] fi; ABlock (blk 50) fi; AData D_db [ident a_] fi].
  Definition md_ := {| md_params := [a_; p_]; md_body := mbody |}.

  Example body_rel : Forall2 (arel (code_names cbs) (code_of cbs)) mbody body2.
  Proof.
    constructor; [apply ar_same; reflexivity|].
    constructor; [apply (ar_splice _ _ p_ fi fi (blk 50) fi); reflexivity|].
    constructor; [apply ar_same; reflexivity|constructor].
  Qed.

  (** the theorem applies — note that [after_] applies the same macro again, with another block *)
  Example code_inline :
    match assemble_ast ex_world ex_r0 (before_ ++ [app_] ++ after_),
          assemble_ast ex_world ex_r0 (before_ ++ [ACompound (cstmts cbs fi ++ body2) fi] ++ after_) with
    | Ok o1, Ok o2 => o_blocks o1 = o_blocks o2 /\ o_labels o1 = o_labels o2
    | Err j, Err k => j = k
    | OutOfFuel, OutOfFuel => True
    | _, _ => False
    end.
  Proof.
    apply (macro_code_assembly ex_world ex_r0 before_ after_ m_ _ fi fi fi md_ cbs body2).
    - exact MacroInlineExamples.cg_ok_r0.
    - intros s' ns' H. vm_compute in H. inversion H; subst. split; reflexivity.
    - repeat constructor.
    - exact body_rel.
    - intros sF ns H. vm_compute in H. inversion H; subst. reflexivity.
  Qed.
  Example code_inline_values :
    view (assemble_ast ex_world ex_r0 (before_ ++ [app_] ++ after_)) = Ok ([([1; 2; 1; 3; 4; 3], 0)], [(e_, 32774)]) /\
    view (assemble_ast ex_world ex_r0 (before_ ++ [ACompound (cstmts cbs fi ++ body2) fi] ++ after_))
      = Ok ([([1; 2; 1; 3; 4; 3], 0)], [(e_, 32774)]).
  Proof. split; vm_compute; reflexivity. Qed.

  (** the condition on identifiers is needed: a body that uses the code parameter's name in an
      expression finds the code block in the application (and fails), the caller's [p] in the twin *)
  Definition mbody3 := [AData D_db [ident p_] fi].
  Definition before3 := [AAssign p_ (num 57) fi; AMacro m_ [a_; p_] mbody3 fi fi; AStarEq num8000 fi].
  Example name_used_application : view (assemble_ast ex_world ex_r0 (before3 ++ [app_] ++ [])) = Err ERuntime.
  Proof. vm_compute. reflexivity. Qed.
  Example name_used_twin :
    view (assemble_ast ex_world ex_r0 (before3 ++ [ACompound (cstmts cbs fi ++ mbody3) fi] ++ [])) = Ok ([([9], 0)], []).
  Proof. vm_compute. reflexivity. Qed.
End MacroCodeExamples.

Print Assumptions assemble_nodes_c.
Print Assumptions code_gen_m.
Print Assumptions macro_code_inlined.
Print Assumptions macro_code_assembly.
