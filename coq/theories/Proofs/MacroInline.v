(** C09, end to end — a macro application inside a program assembles like the program in which it
    is replaced by the block [{ p1 := v1 / p1 = e1 ...  body }].

    [macro_inline_eager_assembly]: every argument evaluates at the call site: the two programs
    assemble to the same result, unconditionally.
    [macro_inline_assembly]: evaluated and deferred arguments: equal results provided the deferred
    expressions mention nothing the application scope itself binds when the symbol pass enters it
    ([def_cond], see Proofs/DeferredArgs.v). *)
From Coq Require Import ZArith List Lia Bool Arith.
From A816 Require Import Model.Codegen Spec.EnvSem Proofs.ResolverProofs Proofs.ReplayProofs Proofs.CodegenProofs
     Proofs.DeferredArgs.
Open Scope Z_scope.

(** code generation at depth [fuel] followed by the passes *)
Definition assemble_at (w : world) (fuel : nat) (s : cgstate) (prog : list ast) : res output :=
  do x <- code_gen_fuel w fuel s prog; assemble_nodes w (cg_r (fst x)) (snd x).

Lemma assemble_ast_at w r prog :
  assemble_ast w r prog = assemble_at w (S (S 298)) {| cg_r := r; cg_macros := [] |} prog.
Proof. reflexivity. Qed.

(** a statement inside a program *)
Lemma gen_list_middle w gen s before x after :
  gen_list w gen s (before ++ [x] ++ after) =
  (do a <- gen_list w gen s before;
   do b <- gen_one w gen (fst a) x;
   do c <- gen_list w gen (fst b) after;
   Ok (fst c, snd a ++ snd b ++ snd c)).
Proof.
  rewrite gen_list_app. destruct (gen_list w gen s before) as [[s1 n1]| |]; cbn [bind fst snd]; try reflexivity.
  cbn [app gen_list].
  destruct (gen_one w gen s1 x) as [[s2 n2]| |]; cbn [bind fst snd]; try reflexivity.
  destruct (gen_list w gen s2 after) as [[s3 n3]| |]; cbn [bind fst snd]; reflexivity.
Qed.

(** ** All arguments evaluated: no condition at all *)
Theorem macro_inline_eager_from w f s before after name args fi fi' fi'' md bound pvs lits :
  (forall s' ns', code_gen_fuel w (S (S f)) s before = Ok (s', ns') ->
     dict_get (cg_macros s') name = Some md /\
     eval_macro_args w (cg_r s') (md_params md) args = Ok bound) ->
  int_values bound = Some pvs -> closed_literals w pvs lits ->
  assemble_at w (S (S f)) s (before ++ [AMacroApply name args fi] ++ after) =
  assemble_at w (S (S f)) s (before ++ [ACompound (assigns pvs lits fi'' ++ md_body md) fi'] ++ after).
Proof.
  intros Hdef Hint Hlits. unfold assemble_at.
  change (code_gen_fuel w (S (S f))) with (gen_list w (code_gen_fuel w (S f))) in *.
  rewrite !gen_list_middle.
  destruct (gen_list w (code_gen_fuel w (S f)) s before) as [[s1 n1]| |]; cbn [bind fst snd]; try reflexivity.
  destruct (Hdef s1 n1 eq_refl) as [Hmd Hargs].
  rewrite (macro_application_inlined w f s1 name args fi fi' fi'' md bound pvs lits Hmd Hargs Hint Hlits).
  reflexivity.
Qed.

Theorem macro_inline_eager_assembly w r before after name args fi fi' fi'' md bound pvs lits :
  (forall s' ns', code_gen_fuel w cg_depth {| cg_r := r; cg_macros := [] |} before = Ok (s', ns') ->
     dict_get (cg_macros s') name = Some md /\
     eval_macro_args w (cg_r s') (md_params md) args = Ok bound) ->
  int_values bound = Some pvs -> closed_literals w pvs lits ->
  assemble_ast w r (before ++ [AMacroApply name args fi] ++ after) =
  assemble_ast w r (before ++ [ACompound (assigns pvs lits fi'' ++ md_body md) fi'] ++ after).
Proof. intros Hdef Hint Hlits. rewrite !assemble_ast_at. eapply macro_inline_eager_from; eauto. Qed.

(** ** Evaluated and deferred arguments *)

(** the capture condition, on the symbol pass of the generated node list: [pre] is what [before]
    generates, [rest] the body's nodes, the PopScopeNode and what [after] generates *)
Definition no_capture (w : world) (fuel : nat) (s : cgstate) (before : list ast) (app : ast) (after : list ast)
           (pbs : list (str * pbind)) : Prop :=
  forall s' pre sF rest,
    code_gen_fuel w fuel s before = Ok (s', pre) ->
    code_gen_fuel w fuel s (before ++ [app] ++ after) = Ok (sF, pre ++ NScope :: def_nodes true pbs ++ rest) ->
    forall r1 a1 l r2 a2 r3,
      label_pass w (set_cur_last (cg_r sF) (r_cur (cg_r sF)) 0) (pre ++ NScope :: def_nodes true pbs ++ rest)
                 (r_reloc (cg_r sF)) [] = Ok (r1, a1, l) ->
      symbol_pass w (resolver_reset r1) pre (r_reloc r1) = Ok (r2, a2) ->
      use_next_scope r2 = Ok r3 ->
      def_cond (own_of r3) [] pbs.

Theorem macro_inline_from w f s before after name args fi fi' fi'' md pbs :
  cg_ok (cg_r s) ->
  (forall s' ns', code_gen_fuel w (S (S f)) s before = Ok (s', ns') ->
     dict_get (cg_macros s') name = Some md /\
     eval_macro_args w (cg_r s') (md_params md) args = Ok (bound_of pbs)) ->
  lits_closed w pbs ->
  no_capture w (S (S f)) s before (AMacroApply name args fi) after pbs ->
  assemble_at w (S (S f)) s (before ++ [AMacroApply name args fi] ++ after) =
  assemble_at w (S (S f)) s (before ++ [ACompound (stmts_of pbs fi'' ++ md_body md) fi'] ++ after).
Proof.
  intros Hok Hdef Hlits Hcap. unfold assemble_at, no_capture in *.
  pose proof (code_gen_replay w (S (S f)) s (before ++ [AMacroApply name args fi] ++ after)) as Hrep.
  change (code_gen_fuel w (S (S f))) with (gen_list w (code_gen_fuel w (S f))) in *.
  rewrite !gen_list_middle in *.
  destruct (gen_list w (code_gen_fuel w (S f)) s before) as [[s1 n1]| |]; cbn [bind fst snd] in *; try reflexivity.
  destruct (Hdef s1 n1 eq_refl) as [Hmd Hargs].
  pose proof (macro_application_inlined_deferred w f s1 name args fi fi' fi'' md pbs Hmd Hargs Hlits) as HI.
  destruct (gen_one w (code_gen_fuel w (S f)) s1 (ACompound (stmts_of pbs fi'' ++ md_body md) fi')) as [[s2 n2]| |];
    [|rewrite HI; reflexivity|rewrite HI; reflexivity].
  destruct HI as (body_ns & Hn2 & HA). cbn [fst snd] in Hn2, HA. subst n2. rewrite HA in *. cbn [bind fst snd] in *.
  destruct (gen_list w (code_gen_fuel w (S f)) s2 after) as [[s3 n3]| |]; cbn [bind fst snd] in *; try reflexivity.
  replace ((NScope :: def_nodes true pbs ++ body_ns ++ [NPop]) ++ n3)
    with (NScope :: def_nodes true pbs ++ (body_ns ++ [NPop] ++ n3)) in *
    by (cbn [app]; rewrite <- !app_assoc; reflexivity).
  replace ((NScope :: def_nodes false pbs ++ body_ns ++ [NPop]) ++ n3)
    with (NScope :: def_nodes false pbs ++ (body_ns ++ [NPop] ++ n3))
    by (cbn [app]; rewrite <- !app_assoc; reflexivity).
  apply assemble_nodes_deferred_inlined.
  - destruct (Hrep s3 _ Hok eq_refl) as [K _]. apply K.
  - intros r1 a1 l r2 a2 r3 H1 H2 H3. eapply (Hcap s1 n1 s3); eauto.
Qed.

Theorem macro_inline_assembly w r before after name args fi fi' fi'' md pbs :
  cg_ok r ->
  (forall s' ns', code_gen_fuel w cg_depth {| cg_r := r; cg_macros := [] |} before = Ok (s', ns') ->
     dict_get (cg_macros s') name = Some md /\
     eval_macro_args w (cg_r s') (md_params md) args = Ok (bound_of pbs)) ->
  lits_closed w pbs ->
  no_capture w cg_depth {| cg_r := r; cg_macros := [] |} before (AMacroApply name args fi) after pbs ->
  assemble_ast w r (before ++ [AMacroApply name args fi] ++ after) =
  assemble_ast w r (before ++ [ACompound (stmts_of pbs fi'' ++ md_body md) fi'] ++ after).
Proof. intros Hok Hdef Hlits Hcap. rewrite !assemble_ast_at. eapply macro_inline_from; eauto. Qed.


(** ** The hypotheses are satisfiable (programs of [DeferredExamples]) *)
Module MacroInlineExamples.
  Import NonInterference.NIExamples DeferredExamples.

  Definition before_ : list ast := [AMacro m_ [a_; b_] body fi fi; AStarEq num8000 fi].
  Definition app_ (arg : str) : ast := AMacroApply m_ [inl (ident arg); inl num5] fi.
  Definition s0 : cgstate := {| cg_r := ex_r0; cg_macros := [] |}.

  Example split_prog arg lbl : prog arg lbl = before_ ++ [app_ arg] ++ [ALabel lbl fi].
  Proof. reflexivity. Qed.

  Example defined_after_before s' ns' :
    code_gen_fuel ex_world cg_depth s0 before_ = Ok (s', ns') ->
    dict_get (cg_macros s') m_ = Some {| md_params := [a_; b_]; md_body := body |} /\
    eval_macro_args ex_world (cg_r s') [a_; b_] [inl (ident c_); inl num5] = Ok (bound_of (pbs c_)).
  Proof. intros H. vm_compute in H. inversion H; subst. split; reflexivity. Qed.

  (** the deferred argument [c] (a label of the caller, defined after the application) is bound
      nowhere in the application scope: no capture *)
  Example no_capture_c : no_capture ex_world cg_depth s0 before_ (app_ c_) [ALabel c_ fi] (pbs c_).
  Proof.
    intros s' pre sF rest H1 H2 r1 a1 l r2 a2 r3 HL HS HU.
    vm_compute in H1. inversion H1; subst s' pre; clear H1.
    vm_compute in H2. inversion H2; subst sF rest; clear H2.
    vm_compute in HL. inversion HL; subst r1 a1 l; clear HL.
    vm_compute in HS. inversion HS; subst r2 a2; clear HS.
    vm_compute in HU. inversion HU; subst r3; clear HU.
    cbn [def_cond pbs]. split; [|exact I].
    intros t [<-|[]] _. split; [reflexivity|intros []].
  Qed.

  Example cg_ok_r0 : cg_ok ex_r0.
  Proof.
    constructor; cbn; auto. intros i s p Hn Hp. destruct i as [|[|i]]; cbn in Hn; inversion Hn; subst; discriminate.
  Qed.

  (** so the theorem applies to the program with [m(c, 5)] ... *)
  Example inline_c :
    assemble_ast ex_world ex_r0 (prog c_ c_) =
    assemble_ast ex_world ex_r0 (before_ ++ [ACompound (stmts_of (pbs c_) fi ++ body) fi] ++ [ALabel c_ fi]).
  Proof.
    rewrite split_prog.
    apply (macro_inline_assembly ex_world ex_r0 before_ [ALabel c_ fi] m_ _ fi fi fi
             {| md_params := [a_; b_]; md_body := body |} (pbs c_)).
    - exact cg_ok_r0.
    - exact defined_after_before.
    - apply lits_ok.
    - exact no_capture_c.
  Qed.
  (** ... while for [m(b, 5)] the condition fails and so does the conclusion
      ([application_not_captured] / [twin_captured] in DeferredExamples). *)
End MacroInlineExamples.

Print Assumptions macro_inline_eager_assembly.
Print Assumptions macro_inline_assembly.
