(** C09 — an application with all three kinds of arguments: evaluated, deferred, code blocks.

    Twin: [{ p_i := v_i  /  p_j = e_j  ...  body' }] with [body'] the body in which the splices of
    the code parameters are substituted (Proofs/NestedSplice.v).  Code generation gives node lists
    that differ only in the flag of the SymbolNodes of the deferred parameters, and resolver states
    related by [xrel]; the passes: first the flags ([assemble_nodes_deferred_inlined], on the left
    state), then the states ([xrel_passes]).  Side conditions = the union of the two. *)
From Coq Require Import ZArith List Lia Bool Arith.
From A816 Require Import Model.Codegen Spec.EnvSem Proofs.BusProofs Proofs.ResolverProofs Proofs.ReplayProofs
     Proofs.CodegenProofs Proofs.NonInterference Proofs.DeferredArgs Proofs.MacroInline Proofs.CodeValues
     Proofs.CodeValuesNI Proofs.NestedSplice.
From A816 Require Proofs.MacroCode.
Open Scope Z_scope.

Inductive mbind := MInt (v : Z) (lit : expr) | MDef (e : expr) | MCode (stmts : list ast) (fi : token).

Definition mbound (mbs : list (str * mbind)) : list (str * argval) :=
  map (fun pb => (fst pb, match snd pb with MInt v _ => AVInt v | MDef e => AVDeferred e | MCode b fi => AVCode b fi end)) mbs.
(** the twin's parameter statements: [p := lit], [p = e], nothing for a code block *)
Definition mstmts (mbs : list (str * mbind)) (fi : token) : list ast :=
  flat_map (fun pb => match snd pb with
                      | MInt _ lit => [AAssign (fst pb) lit fi]
                      | MDef e => [ASymbol (fst pb) e fi]
                      | MCode _ _ => []
                      end) mbs.
(** the evaluated + code part (Proofs/MacroCode.v) and the evaluated + deferred part (Proofs/DeferredArgs.v) *)
Definition cb_of (mbs : list (str * mbind)) : list (str * MacroCode.cbind) :=
  flat_map (fun pb => match snd pb with
                      | MInt v lit => [(fst pb, MacroCode.CInt v lit)]
                      | MDef _ => []
                      | MCode b fi => [(fst pb, MacroCode.CCode b fi)]
                      end) mbs.
Definition pb_of (mbs : list (str * mbind)) : list (str * pbind) :=
  flat_map (fun pb => match snd pb with
                      | MInt v lit => [(fst pb, PInt v lit)]
                      | MDef e => [(fst pb, PDef e)]
                      | MCode _ _ => []
                      end) mbs.
Definition mlits_closed (w : world) (mbs : list (str * mbind)) : Prop :=
  Forall (fun pb => match snd pb with MInt v lit => forall r, eval_raw w r lit = Ok v | _ => True end) mbs.

Lemma bind_mb mbs : forall r,
  bind_macro_args r (mbound mbs) = (MacroCode.bind_fold r (cb_of mbs), def_nodes true (pb_of mbs)).
Proof.
  induction mbs as [|[p b] mbs IH]; intros r; [reflexivity|].
  destruct b as [v lit|e|stmts fi]; cbn [mbound map fst snd bind_macro_args]; fold (mbound mbs); rewrite IH; reflexivity.
Qed.

Lemma gen_mstmts w gen fi mbs : forall s, mlits_closed w mbs ->
  gen_list w gen s (mstmts mbs fi) = Ok (cg_set_r s (MacroCode.int_fold2 (cg_r s) (cb_of mbs)), def_nodes false (pb_of mbs)).
Proof.
  induction mbs as [|[p b] mbs IH]; intros s H.
  - cbn. destruct s; reflexivity.
  - inversion H as [|? ? Hb Hrest]; subst. cbn [fst snd] in Hb. unfold mstmts. cbn [flat_map fst snd].
    fold (mstmts mbs fi). destruct b as [v lit|e|stmts sfi].
    + cbn [app gen_list gen_one]. rewrite Hb. cbn [bind fst snd]. rewrite IH by assumption. reflexivity.
    + cbn [app gen_list gen_one bind fst snd]. rewrite IH by assumption. reflexivity.
    + cbn [app]. rewrite IH by assumption. reflexivity.
Qed.

Lemma mlits_cb w mbs : mlits_closed w mbs -> MacroCode.clits_closed w (cb_of mbs).
Proof.
  induction 1 as [|[p b] mbs Hb H IH]; [constructor|]. unfold cb_of. cbn [flat_map fst snd].
  destruct b; cbn [app]; auto; constructor; auto.
Qed.

(** ** Code generation: same node lists up to the flags of the deferred parameters' nodes *)
Theorem macro_mixed_nested w T f s name args fi fi' fi'' md mbs body2 :
  let K := MacroCode.code_names (cb_of mbs) in
  let C := MacroCode.code_of (cb_of mbs) in
  let j := length (r_scopes (cg_r s)) in
  cg_ok (cg_r s) ->
  dict_get (cg_macros s) name = Some md ->
  eval_macro_args w (cg_r s) (md_params md) args = Ok (mbound mbs) ->
  mlits_closed w mbs ->
  subl C (md_body md) body2 -> kcleanl K T body2 = true ->
  codes_clean K T (cg_r s) -> tinv K T (cg_macros s) ->
  res_rel (fun x y => (exists body_ns, snd x = NScope :: def_nodes true (pb_of mbs) ++ body_ns ++ [NPop] /\
                                       snd y = NScope :: def_nodes false (pb_of mbs) ++ body_ns ++ [NPop]) /\
                      exists hi, (j < hi)%nat /\ dst K j C T hi (fst x) (fst y) /\ dpre j hi (cg_r (fst x)))
          (gen_one w (code_gen_fuel w (S f)) s (AMacroApply name args fi))
          (gen_one w (code_gen_fuel w (S f)) s (ACompound (mstmts mbs fi'' ++ body2) fi')).
Proof.
  intros K C j Hk Hmd Hargs Hlits Hbody Hclean Hcc Htab. set (cbs := cb_of mbs) in *.
  pose proof (gen_one_R w _ (code_gen_replay w (S f)) s (AMacroApply name args fi)) as HR.
  assert (Hoff : forall q, K q = false -> dict_get C q = None) by (intros q; apply code_names_off).
  assert (H0 : res_rel (fun x y => (exists body_ns, snd x = NScope :: def_nodes true (pb_of mbs) ++ body_ns ++ [NPop] /\
                                                    snd y = NScope :: def_nodes false (pb_of mbs) ++ body_ns ++ [NPop]) /\
                                   xrel K j C T (length (r_scopes (cg_r (fst x)))) (cg_r (fst x)) (cg_r (fst y)) /\
                                   cg_macros (fst x) = cg_macros (fst y) /\ (j < length (r_scopes (cg_r (fst x))))%nat)
            (gen_one w (code_gen_fuel w (S f)) s (AMacroApply name args fi))
            (gen_one w (code_gen_fuel w (S f)) s (ACompound (mstmts mbs fi'' ++ body2) fi'))).
  { cbn [gen_one]. rewrite Hmd, Hargs. cbn [bind]. unfold scoped.
    pose proof (enter_ok (cg_r s) SPlain Hk) as E.
    rewrite E. cbn [bind]. rewrite bind_mb. cbn [code_gen_fuel]. rewrite gen_list_app.
    rewrite (gen_mstmts w _ fi'' mbs (cg_set_r s (entered (cg_r s) SPlain)) Hlits).
    cbn [bind fst snd cg_set_r cg_r cg_macros]. fold cbs.
    change (gen_list w (code_gen_fuel w f)) with (code_gen_fuel w (S f)).
    pose proof (start_ostr K T cbs (cg_r s) Hk Hcc Hoff) as Hst. fold C j in Hst.
    assert (Hpre : opre j (MacroCode.bind_fold (entered (cg_r s) SPlain) cbs)).
    { split; [|rewrite MacroCode.bind_fold_cur; cbn [entered set_cur_last r_cur]; unfold j; lia].
      eapply MacroCode.cg_ok_benign; [apply (MacroCode.cg_ok_enter _ _ _ Hk E)|].
      apply (bind_macro_args_benign (mbound mbs) _ _ _ (bind_mb mbs _)). }
    pose proof (code_gen_open w K j C T Hoff (S f)
                  {| cg_r := MacroCode.bind_fold (entered (cg_r s) SPlain) cbs; cg_macros := cg_macros s |}
                  {| cg_r := MacroCode.int_fold2 (entered (cg_r s) SPlain) cbs; cg_macros := cg_macros s |}
                  (md_body md) body2 (conj Hst (conj eq_refl Htab)) Hpre Hbody Hclean) as HP.
    unfold cg_set_r. cbn [cg_macros cg_r].
    destruct (code_gen_fuel w (S f) {| cg_r := MacroCode.bind_fold (entered (cg_r s) SPlain) cbs; cg_macros := cg_macros s |} (md_body md)) as [[sa na]| |],
             (code_gen_fuel w (S f) {| cg_r := MacroCode.int_fold2 (entered (cg_r s) SPlain) cbs; cg_macros := cg_macros s |} body2) as [[sb nb]| |];
      cbn [res_rel] in HP; try contradiction; cbn [bind fst snd app res_rel]; auto.
    destruct HP as [(Hr' & Hm' & Ht') Hn]. cbn [fst snd] in *. subst nb.
    pose proof (restore_x K j C T _ _ _ (os_x _ _ _ _ _ _ Hr')) as HRs.
    destruct (restore_scope (cg_r sa) false) as [r3a| |] eqn:R1, (restore_scope (cg_r sb) false) as [r3b| |];
      cbn [res_rel] in HRs; try contradiction; cbn [bind res_rel]; auto.
    cbn [fst snd cg_set_r cg_r cg_macros]. rewrite (restore_false_scopes _ _ R1).
    refine (conj _ (conj HRs (conj Hm' _))); [|apply (os_j _ _ _ _ _ _ Hr')].
    exists na. split; [reflexivity|cbn [app]; rewrite <- app_assoc; reflexivity]. }
  destruct (gen_one w (code_gen_fuel w (S f)) s (AMacroApply name args fi)) as [[sa na]| |],
           (gen_one w (code_gen_fuel w (S f)) s (ACompound (mstmts mbs fi'' ++ body2) fi')) as [[sb nb]| |];
    cbn [res_rel] in *; auto.
  destruct H0 as (Hn & Hx & Hm & Hj). cbn [fst snd] in *. split; [exact Hn|].
  destruct (HR sa na Hk eq_refl) as (K' & Hc & Hxt & _).
  exists (length (r_scopes (cg_r sa))). split; [exact Hj|]. split.
  - split; [|exact Hm]. constructor; auto. intros i s0 p Hn0 Hp. split; [apply (ck_wf _ K' _ _ _ Hn0 Hp)|].
    intros Hge. exfalso. assert (i < length (r_scopes (cg_r sa)))%nat by (apply nth_error_Some; congruence). lia.
  - split; [exact K'|]. left. rewrite Hc. destruct Hk as [K1 K2 K3]. exact K2.
Qed.

(** ** In a program, followed by the passes *)
Theorem macro_mixed_from w T f s before after name args fi fi' fi'' md mbs body2 :
  let K := MacroCode.code_names (cb_of mbs) in
  let C := MacroCode.code_of (cb_of mbs) in
  cg_ok (cg_r s) ->
  (forall s' ns', code_gen_fuel w (S (S f)) s before = Ok (s', ns') ->
     dict_get (cg_macros s') name = Some md /\
     eval_macro_args w (cg_r s') (md_params md) args = Ok (mbound mbs) /\
     codes_clean K T (cg_r s') /\ tinv K T (cg_macros s')) ->
  mlits_closed w mbs ->
  subl C (md_body md) body2 -> kcleanl K T body2 = true ->
  (* the code parameters' names are not used as identifiers (Proofs/MacroCode.v) *)
  (forall sF ns, code_gen_fuel w (S (S f)) s (before ++ [ACompound (mstmts mbs fi'' ++ body2) fi'] ++ after) = Ok (sF, ns) ->
     MacroCode.nodes_kfree K ns = true) ->
  (* the deferred expressions are not captured by the application scope (Proofs/MacroInline.v) *)
  no_capture w (S (S f)) s before (AMacroApply name args fi) after (pb_of mbs) ->
  res_rel (fun o1 o2 => o_blocks o1 = o_blocks o2 /\ o_labels o1 = o_labels o2)
    (assemble_at w (S (S f)) s (before ++ [AMacroApply name args fi] ++ after))
    (assemble_at w (S (S f)) s (before ++ [ACompound (mstmts mbs fi'' ++ body2) fi'] ++ after)).
Proof.
  intros K C Hk Hdef Hlits Hbody Hclean Hfree Hcap. unfold assemble_at, no_capture in *.
  assert (Hoff : forall q, K q = false -> dict_get C q = None) by (intros q; apply code_names_off).
  pose proof (gen_list_R w _ (code_gen_replay w (S f)) before s) as HRb.
  pose proof (code_gen_replay w (S (S f)) s (before ++ [AMacroApply name args fi] ++ after)) as Hrep.
  change (code_gen_fuel w (S (S f))) with (gen_list w (code_gen_fuel w (S f))) in *.
  rewrite !gen_list_middle in *.
  destruct (gen_list w (code_gen_fuel w (S f)) s before) as [[s1 n1]| |]; cbn [bind fst snd res_rel] in *; auto.
  destruct (Hdef s1 n1 eq_refl) as (Hmd & Hargs & Hcc & Htab).
  destruct (HRb s1 n1 Hk eq_refl) as (Hk1 & _).
  pose proof (macro_mixed_nested w T f s1 name args fi fi' fi'' md mbs body2 Hk1 Hmd Hargs Hlits Hbody Hclean Hcc Htab) as HA.
  cbv zeta in HA. fold K C in HA. set (j := length (r_scopes (cg_r s1))) in *.
  destruct (gen_one w (code_gen_fuel w (S f)) s1 (AMacroApply name args fi)) as [[sa na]| |],
           (gen_one w (code_gen_fuel w (S f)) s1 (ACompound (mstmts mbs fi'' ++ body2) fi')) as [[sb nb]| |];
    cbn [res_rel] in HA; try contradiction; cbn [bind fst snd res_rel] in *; auto.
  destruct HA as ((body_ns & Hna & Hnb) & hi & Hjh & Hst & Hpre). cbn [fst snd] in Hna, Hnb, Hst, Hpre. subst na nb.
  pose proof (code_gen_dead w K j C T Hoff hi Hjh (S (S f)) sa sb after Hst Hpre) as HB.
  change (code_gen_fuel w (S (S f))) with (gen_list w (code_gen_fuel w (S f))) in HB.
  destruct (gen_list w (code_gen_fuel w (S f)) sa after) as [[sa' na']| |],
           (gen_list w (code_gen_fuel w (S f)) sb after) as [[sb' nb']| |];
    cbn [res_rel] in HB; try contradiction; cbn [bind fst snd res_rel] in *; auto.
  destruct HB as [(Hr' & _) Hn']. cbn [fst snd] in Hr', Hn'. subst nb'.
  (* first the flags, on the left state *)
  replace (n1 ++ (NScope :: def_nodes true (pb_of mbs) ++ body_ns ++ [NPop]) ++ na')
    with (n1 ++ NScope :: def_nodes true (pb_of mbs) ++ (body_ns ++ [NPop] ++ na')) in *
    by (cbn [app]; rewrite <- !app_assoc; reflexivity).
  replace (n1 ++ (NScope :: def_nodes false (pb_of mbs) ++ body_ns ++ [NPop]) ++ na')
    with (n1 ++ NScope :: def_nodes false (pb_of mbs) ++ (body_ns ++ [NPop] ++ na')) in *
    by (cbn [app]; rewrite <- !app_assoc; reflexivity).
  rewrite (assemble_nodes_deferred_inlined w (cg_r sa') n1 (pb_of mbs) (body_ns ++ [NPop] ++ na')).
  - (* then the states *)
    destruct (xrel_passes K j C T Hoff hi _ _ Hjh (ds_x _ _ _ _ _ _ _ Hr')) as [P1 P2].
    pose proof (MacroCode.assemble_nodes_c w K j _ _ _ (Hfree _ _ eq_refl) P1) as H1.
    pose proof (assemble_nodes_cv w (fun _ _ => True) (n1 ++ NScope :: def_nodes false (pb_of mbs) ++ body_ns ++ [NPop] ++ na') _ _ P2) as H2.
    pose proof (res_rel_trans _ _ _ _ _ H1 H2) as H3.
    eapply res_rel_impl; [|exact H3].
    intros o1 o3 (o2 & (A1 & B1 & _) & (A2 & B2 & _)). split; congruence.
  - destruct (Hrep sa' _ Hk eq_refl) as [Kf _]. apply Kf.
  - intros r1 a1 l r2 a2 r3 L1 L2 L3. eapply (Hcap s1 n1 sa'); eauto.
Qed.

(** C09, all three kinds of arguments *)
Theorem macro_mixed_assembly w T r before after name args fi fi' fi'' md mbs body2 :
  let K := MacroCode.code_names (cb_of mbs) in
  let C := MacroCode.code_of (cb_of mbs) in
  cg_ok r ->
  (forall s' ns', code_gen_fuel w cg_depth {| cg_r := r; cg_macros := [] |} before = Ok (s', ns') ->
     dict_get (cg_macros s') name = Some md /\
     eval_macro_args w (cg_r s') (md_params md) args = Ok (mbound mbs) /\
     codes_clean K T (cg_r s') /\ tinv K T (cg_macros s')) ->
  mlits_closed w mbs ->
  subl C (md_body md) body2 -> kcleanl K T body2 = true ->
  (forall sF ns, code_gen_fuel w cg_depth {| cg_r := r; cg_macros := [] |}
                   (before ++ [ACompound (mstmts mbs fi'' ++ body2) fi'] ++ after) = Ok (sF, ns) ->
     MacroCode.nodes_kfree K ns = true) ->
  no_capture w cg_depth {| cg_r := r; cg_macros := [] |} before (AMacroApply name args fi) after (pb_of mbs) ->
  match assemble_ast w r (before ++ [AMacroApply name args fi] ++ after),
        assemble_ast w r (before ++ [ACompound (mstmts mbs fi'' ++ body2) fi'] ++ after) with
  | Ok o1, Ok o2 => o_blocks o1 = o_blocks o2 /\ o_labels o1 = o_labels o2
  | Err j, Err k => j = k
  | OutOfFuel, OutOfFuel => True
  | _, _ => False
  end.
Proof.
  intros K C Hk Hdef Hlits Hbody Hclean Hfree Hcap. rewrite !assemble_ast_at.
  pose proof (macro_mixed_from w T 298 {| cg_r := r; cg_macros := [] |} before after name args fi fi' fi'' md mbs body2
                Hk Hdef Hlits Hbody Hclean Hfree Hcap) as H.
  destruct (assemble_at w (S (S 298)) _ (before ++ [AMacroApply name args fi] ++ after)),
           (assemble_at w (S (S 298)) _ (before ++ [ACompound (mstmts mbs fi'' ++ body2) fi'] ++ after));
    cbn [res_rel] in H; auto.
Qed.

(** ** Examples (world of [NIExamples]) *)
Module MixedExamples.
  Import NonInterference.NIExamples DeferredArgs.DeferredExamples.
  Notation f_ := [102]. Notation p_ := [112].
  Definition num (c : Z) : expr := [{| en_kind := EK_term; en_tok := mk_token T_NUMBER [c] |}].
  Definition s0 : cgstate := {| cg_r := ex_r0; cg_macros := [] |}.

  (** .macro m(a, b, p) { .db a  .db b  {{p}} }   *=0x8000   m(1, f, { .db 9 })   f:
      — an evaluated, a deferred (f is defined later) and a code-block argument *)
  Definition body3 := [AData D_db [ident a_] fi; AData D_db [ident b_] fi; ACodeLookup p_ fi].
  Definition before_ := [AMacro m_ [a_; b_; p_] body3 fi fi; AStarEq num8000 fi].
  Definition app_ := AMacroApply m_ [inl (num 49); inl (ident f_); inr ([AData D_db [num 57] fi], fi)] fi.
  Definition after_ := [ALabel f_ fi].
  Definition mbs := [(a_, MInt 1 (num 49)); (b_, MDef (ident f_)); (p_, MCode [AData D_db [num 57] fi] fi)].
  (** the twin:  { a := 1   b = f   .db a  .db b  { .db 9 } } *)
  Definition body2 := [AData D_db [ident a_] fi; AData D_db [ident b_] fi; ABlock [AData D_db [num 57] fi] fi].
  Definition md_ := {| md_params := [a_; b_; p_]; md_body := body3 |}.

  Example body_sub : subl (MacroCode.code_of (cb_of mbs)) body3 body2.
  Proof.
    constructor; [apply sb_same|]. constructor; [apply sb_same|]. constructor; [|constructor].
    apply (sb_splice _ p_ fi fi [AData D_db [num 57] fi] fi); [reflexivity|apply subl_refl].
  Qed.

  Example not_captured : no_capture ex_world cg_depth s0 before_ app_ after_ (pb_of mbs).
  Proof.
    intros s' pre sF rest H1 H2 r1 a1 l r2 a2 r3 HL HS HU.
    vm_compute in H1. inversion H1; subst s' pre; clear H1.
    vm_compute in H2. inversion H2; subst sF rest; clear H2.
    vm_compute in HL. inversion HL; subst r1 a1 l; clear HL.
    vm_compute in HS. inversion HS; subst r2 a2; clear HS.
    vm_compute in HU. inversion HU; subst r3; clear HU.
    cbn [def_cond pb_of mbs flat_map fst snd app]. split; [|exact I].
    intros t [<-|[]] _. split; [reflexivity|intros []].
  Qed.

  Example mixed_inline :
    match assemble_ast ex_world ex_r0 (before_ ++ [app_] ++ after_),
          assemble_ast ex_world ex_r0 (before_ ++ [ACompound (mstmts mbs fi ++ body2) fi] ++ after_) with
    | Ok o1, Ok o2 => o_blocks o1 = o_blocks o2 /\ o_labels o1 = o_labels o2
    | Err j, Err k => j = k
    | OutOfFuel, OutOfFuel => True
    | _, _ => False
    end.
  Proof.
    apply (macro_mixed_assembly ex_world (fun _ => false) ex_r0 before_ after_ m_ _ fi fi fi md_ mbs body2).
    - exact MacroInlineExamples.cg_ok_r0.
    - intros s' ns' H. vm_compute in H. inversion H; subst. split; [reflexivity|]. split; [reflexivity|]. split.
      + repeat constructor.
      + intros name md HT. discriminate HT.
    - repeat constructor.
    - exact body_sub.
    - reflexivity.
    - intros sF ns H. vm_compute in H. inversion H; subst. reflexivity.
    - exact not_captured.
  Qed.
  Example mixed_values :
    view (assemble_ast ex_world ex_r0 (before_ ++ [app_] ++ after_)) = Ok ([([1; 3; 9], 0)], [(f_, 32771)]) /\
    view (assemble_ast ex_world ex_r0 (before_ ++ [ACompound (mstmts mbs fi ++ body2) fi] ++ after_))
      = Ok ([([1; 3; 9], 0)], [(f_, 32771)]).
  Proof. split; vm_compute; reflexivity. Qed.

  (** the reviewer's case: a deferred argument whose expression names a parameter.
      a := 7   .macro m(a, b) { .db b }   *=0x8000   m(1, a + f)   f:
      The application evaluates [a + f] in the CALLER's scope (a = 7): 7 + 0x8001, low byte 8.
      The twin [{ a := 1  b = a + f  .db b }] sees the parameter a = 1: low byte 2.
      Excluded by [def_cond]: the deferred expression mentions [a], which the application scope
      itself binds when the symbol pass enters it. *)
  Definition wp : world :=
    {| w_builtin := w_builtin ex_world; w_optable := []; w_prec := [([43], 4)];
       w_incbin := w_incbin ex_world; w_table := w_table ex_world; w_ips := w_ips ex_world |}.
  Definition a_plus_f : expr :=
    [{| en_kind := EK_term; en_tok := mk_token T_IDENTIFIER a_ |};
     {| en_kind := EK_bin; en_tok := mk_token T_OPERATOR [43] |};
     {| en_kind := EK_term; en_tok := mk_token T_IDENTIFIER f_ |}].
  Definition mbody := [AData D_db [ident b_] fi].
  Definition before4 := [AAssign a_ (num 55) fi; AMacro m_ [a_; b_] mbody fi fi; AStarEq num8000 fi].
  Definition app4 := AMacroApply m_ [inl (num 49); inl a_plus_f] fi.
  Definition mbs4 := [(a_, MInt 1 (num 49)); (b_, MDef a_plus_f)].
  Example names_a_parameter_values :
    view (assemble_ast wp ex_r0 (before4 ++ [app4] ++ after_)) = Ok ([([8], 0)], [(f_, 32769)]) /\
    view (assemble_ast wp ex_r0 (before4 ++ [ACompound (mstmts mbs4 fi ++ mbody) fi] ++ after_)) = Ok ([([2], 0)], [(f_, 32769)]).
  Proof. split; vm_compute; reflexivity. Qed.
  Example names_a_parameter_excluded own : own a_ = true -> ~ def_cond own [] (pb_of mbs4).
  Proof.
    intros Ha H. cbn [def_cond pb_of mbs4 flat_map fst snd app] in H. destruct H as [H _].
    destruct (H _ (or_introl eq_refl) eq_refl) as [A _]. cbn in A. congruence.
  Qed.
  (** ... and the application scope does bind [a] at that moment *)
  Example scope_binds_a :
    match code_gen_fuel wp cg_depth s0 (before4 ++ [app4] ++ after_), code_gen_fuel wp cg_depth s0 before4 with
    | Ok (sF, ns), Ok (_, pre) =>
        match label_pass wp (set_cur_last (cg_r sF) (r_cur (cg_r sF)) 0) ns (r_reloc (cg_r sF)) [] with
        | Ok (r1, _, _) =>
            match symbol_pass wp (resolver_reset r1) pre (r_reloc r1) with
            | Ok (r2, _) => match use_next_scope r2 with Ok r3 => own_of r3 a_ = true | _ => False end
            | _ => False
            end
        | _ => False
        end
    | _, _ => False
    end.
  Proof. vm_compute. reflexivity. Qed.
End MixedExamples.

Print Assumptions macro_mixed_nested.
Print Assumptions macro_mixed_assembly.
