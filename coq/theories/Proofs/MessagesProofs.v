(** Proofs about Model/Messages.v (the TEXT of the error reports, C17).

    1. The text determines the fields: [parse_scan_report (scan_report ...) = Some fields] exactly
       when the file name has no " : " and the quoted line no newline (with a counterexample for
       the first condition); [parse_trace_report (trace_report ...) = Some fields] for every file
       name, when the quoted line has no newline.
    2. The quoted line and the caret column in the text are the closed forms [line_text] /
       [col_of] of the failing offset; whole lines put before the text change the report only in
       the line number (composition with Proofs/ScannerLayout.v [scan_line_compositional]).
    3. The caret line of a trace: column blanks, then one caret per character of the token; the
       EOF token quotes the last line. *)
From Coq Require Import ZArith List Bool Lia Arith ZifyBool.
From A816 Require Import Model.Messages Proofs.BusProofs Proofs.ScannerProofs Proofs.ScannerShift
     Proofs.ScannerLayout Proofs.LocationProofs.
From A816 Require Proofs.TableFileProofs.
Open Scope Z_scope.

(** * str(int) and back *)

Lemma dec_of_Z_nonneg z : 0 <= z -> dec_of_Z z = dec_digits z.
Proof. unfold dec_of_Z. intros H. destruct (z <? 0) eqn:E; [lia|reflexivity]. Qed.

Definition num_char (c : Z) : bool := is_dec_digit c || (c =? 45).

Lemma dec_of_Z_chars z : forallb num_char (dec_of_Z z) = true.
Proof.
  assert (H : forall k, 0 <= k -> forallb num_char (dec_digits k) = true).
  { intros k Hk. destruct (TableFileProofs.dec_digits_spec k Hk) as (_ & Ha & _).
    apply (TableFileProofs.forallb_impl is_dec_digit num_char); [|exact Ha].
    intros c Hc. unfold num_char. rewrite Hc. reflexivity. }
  unfold dec_of_Z. destruct (z <? 0) eqn:E; [|apply H; lia].
  cbn [forallb]. rewrite H by lia. reflexivity.
Qed.

Theorem parse_int_dec z : parse_int (dec_of_Z z) = Some z.
Proof.
  unfold dec_of_Z. destruct (z <? 0) eqn:E.
  - destruct (TableFileProofs.dec_digits_spec (- z)) as (Hv & Ha & Hne); [lia|].
    unfold parse_int. cbn [Z.eqb Pos.eqb]. rewrite Ha, Hv.
    destruct (dec_digits (- z)); [contradiction|]. cbn [nonempty andb]. f_equal. lia.
  - destruct (TableFileProofs.dec_digits_spec z) as (Hv & Ha & Hne); [lia|].
    unfold parse_int. destruct (dec_digits z) as [|d ds] eqn:Ed; [contradiction|].
    assert (Hd : (d =? 45) = false).
    { cbn [forallb] in Ha. apply andb_prop in Ha as [Hd _]. unfold is_dec_digit in Hd. lia. }
    rewrite Hd, Ha, Hv. reflexivity.
Qed.

(** * rsplit *)

Definition lacks (c : Z) (s : str) : bool := forallb (fun y => negb (y =? c)) s.

Lemma rsplit_rev_app c x : forall acc r, lacks c x = true ->
  rsplit_rev c acc (x ++ c :: r) = Some (rev r, rev x ++ acc).
Proof.
  induction x as [|y x IH]; intros acc r H; cbn [app rsplit_rev].
  - rewrite Z.eqb_refl. reflexivity.
  - unfold lacks in H. cbn [forallb] in H. apply andb_prop in H as [Hy Hx].
    destruct (y =? c); [discriminate|]. rewrite (IH _ _ Hx). cbn [rev]. rewrite <- app_assoc. reflexivity.
Qed.

Lemma lacks_rev c s : lacks c (rev s) = lacks c s.
Proof.
  unfold lacks. induction s as [|y s IH]; [reflexivity|]. cbn [rev forallb].
  rewrite forallb_app, IH. cbn [forallb]. rewrite andb_true_r. apply andb_comm.
Qed.

Lemma rsplit1_app c a b : lacks c b = true -> rsplit1 c (a ++ c :: b) = Some (a, b).
Proof.
  intros H. unfold rsplit1. rewrite rev_app_distr. cbn [rev]. rewrite <- app_assoc. cbn [app].
  rewrite rsplit_rev_app by (rewrite lacks_rev; exact H). rewrite !rev_involutive, app_nil_r. reflexivity.
Qed.

Lemma lacks_app c a b : lacks c (a ++ b) = lacks c a && lacks c b.
Proof. apply forallb_app. Qed.

Lemma lacks_num c z : num_char c = false -> lacks c (dec_of_Z z) = true.
Proof.
  intros Hc. unfold lacks. apply (TableFileProofs.forallb_impl num_char); [|apply dec_of_Z_chars].
  intros y Hy. destruct (y =? c) eqn:E; [|reflexivity]. apply Z.eqb_eq in E. congruence.
Qed.

Lemma lacks_repeat c x n : (x =? c) = false -> lacks c (repeat_z x n) = true.
Proof. intros H. unfold lacks. induction n as [|n IH]; cbn [repeat_z forallb]; [reflexivity|]. rewrite H, IH. reflexivity. Qed.

(** * "file:line:col" *)
Theorem parse_position_text file l c : parse_position (position_text file l c) = Some (file, l, c).
Proof.
  unfold parse_position, position_text.
  replace (file ++ [58] ++ dec_of_Z l ++ [58] ++ dec_of_Z c)
    with ((file ++ [58] ++ dec_of_Z l) ++ 58 :: dec_of_Z c) by (rewrite <- !app_assoc; reflexivity).
  rewrite rsplit1_app by (apply lacks_num; reflexivity).
  change (file ++ [58] ++ dec_of_Z l) with (file ++ 58 :: dec_of_Z l).
  rewrite rsplit1_app by (apply lacks_num; reflexivity).
  rewrite !parse_int_dec. reflexivity.
Qed.

(** * " : " *)
Definition has_sep (s : str) : bool := match find_sep s with Some _ => true | None => false end.

Lemma has_sep_cons x s : has_sep (x :: s) = false -> starts_sep (x :: s) = false /\ has_sep s = false.
Proof.
  unfold has_sep. cbn [find_sep]. destruct (starts_sep (x :: s)); [discriminate|].
  destruct (find_sep s) as [[a b]|]; [discriminate|]. split; reflexivity.
Qed.

Lemma find_sep_nospace t b : lacks 32 t = true -> find_sep (t ++ [32;58;32] ++ b) = Some (t, b).
Proof.
  induction t as [|x t IH]; intros H; [reflexivity|].
  unfold lacks in H. cbn [forallb] in H. apply andb_prop in H as [Hx Ht].
  change ((x :: t) ++ [32; 58; 32] ++ b) with (x :: (t ++ [32; 58; 32] ++ b)). cbn [find_sep].
  assert (Hs : starts_sep (x :: t ++ [32; 58; 32] ++ b) = false).
  { unfold starts_sep. destruct (t ++ [32; 58; 32] ++ b) as [|y [|z u]]; try reflexivity.
    destruct (x =? 32); [discriminate|reflexivity]. }
  rewrite Hs, (IH Ht). reflexivity.
Qed.

(** the separator is found after [file ++ t] when [file] has none and [t] (at least two
    characters) has no blank *)
Lemma find_sep_after file t b : has_sep file = false -> lacks 32 t = true -> (2 <= length t)%nat ->
  find_sep (file ++ t ++ [32;58;32] ++ b) = Some (file ++ t, b).
Proof.
  intros Hf Ht Hl. induction file as [|x f IH]; [apply find_sep_nospace; exact Ht|].
  apply has_sep_cons in Hf as [Hs Hf].
  change ((x :: f) ++ t ++ [32; 58; 32] ++ b) with (x :: (f ++ t ++ [32; 58; 32] ++ b)). cbn [find_sep].
  assert (Hs' : starts_sep (x :: f ++ t ++ [32; 58; 32] ++ b) = false).
  { destruct t as [|t0 [|t1 t']]; [cbn in Hl; lia|cbn in Hl; lia|].
    unfold lacks in Ht. cbn [forallb] in Ht. apply andb_prop in Ht as [H0 Ht]. apply andb_prop in Ht as [H1 _].
    destruct f as [|y [|z f']]; cbn [app starts_sep] in *.
    - destruct (t1 =? 32); [discriminate|]. rewrite andb_false_r. reflexivity.
    - destruct (t0 =? 32); [discriminate|]. rewrite andb_false_r. reflexivity.
    - exact Hs. }
  rewrite Hs', (IH Hf). reflexivity.
Qed.

Definition pos_tail (l c : Z) : str := [58] ++ dec_of_Z l ++ [58] ++ dec_of_Z c.
Lemma position_tail_ok l c : lacks 32 (pos_tail l c) = true /\ (2 <= length (pos_tail l c))%nat.
Proof.
  unfold pos_tail. split.
  - rewrite !lacks_app, !lacks_num by reflexivity. reflexivity.
  - rewrite !app_length. cbn [length]. lia.
Qed.

Ltac lnorm := repeat (rewrite <- app_assoc || rewrite <- app_comm_cons).

(** * 1. The text determines the fields *)

Lemma spaces_caret_lacks_nl c w : lacks 10 (spaces c ++ carets w) = true.
Proof. rewrite lacks_app. unfold spaces, carets. rewrite !lacks_repeat by reflexivity. reflexivity. Qed.

(** scanner reports: exactly the stated side conditions *)
Theorem parse_scan_report_roundtrip file l c msg q :
  has_sep file = false -> lacks 10 q = true ->
  parse_scan_report (scan_report file l c msg q) = Some (file, l, c, msg, q).
Proof.
  intros Hf Hq. unfold parse_scan_report, scan_report.
  replace (position_text file l c ++ [32; 58; 32] ++ msg ++ [10] ++ q ++ [10] ++ spaces c ++ [94])
    with ((position_text file l c ++ [32; 58; 32] ++ msg ++ [10] ++ q) ++ 10 :: (spaces c ++ carets 1))
    by (rewrite <- !app_assoc; reflexivity).
  rewrite rsplit1_app by apply spaces_caret_lacks_nl.
  replace (position_text file l c ++ [32; 58; 32] ++ msg ++ [10] ++ q)
    with ((position_text file l c ++ [32; 58; 32] ++ msg) ++ 10 :: q) by (rewrite <- !app_assoc; reflexivity).
  rewrite (rsplit1_app _ _ _ Hq).
  unfold position_text. rewrite <- !app_assoc.
  destruct (position_tail_ok l c) as [Hns Hlen].
  pose proof (find_sep_after file (pos_tail l c) msg Hf Hns Hlen) as E.
  unfold pos_tail in E. rewrite <- !app_assoc in E. rewrite E. clear E.
  pose proof (parse_position_text file l c) as P. unfold position_text in P. rewrite P.
  change (carets 1) with [94]. rewrite str_eqb_refl. reflexivity.
Qed.

(** the first side condition cannot be dropped: file "x:1:4 : y", line 3, column 4, message "m" and
    file "x", line 1, column 4, message "y:3:4 : m" print the same report *)
Example scan_report_ambiguous :
  scan_report [120;58;49;58;52;32;58;32;121] 3 4 [109] [113] = scan_report [120] 1 4 [121;58;51;58;52;32;58;32;109] [113].
Proof. vm_compute. reflexivity. Qed.

Lemma ttype_str_nospace ty : lacks 32 (ttype_str ty) = true.
Proof. destruct ty; vm_compute; reflexivity. Qed.
Lemma parse_ttype_str ty : parse_ttype (ttype_str ty) = Some ty.
Proof. destruct ty; vm_compute; reflexivity. Qed.

Lemma length_repeat_z x n : length (repeat_z x n) = n.
Proof. induction n as [|n IH]; cbn [repeat_z length]; [reflexivity|]. rewrite IH. reflexivity. Qed.

(** parser reports (Token.trace): any file name *)
Theorem parse_trace_report_roundtrip file l c ty q w :
  lacks 10 q = true ->
  parse_trace_report (trace_report file l c ty q w) = Some (file, l, c, ty, q, w).
Proof.
  intros Hq. unfold parse_trace_report, trace_report. cbn [app Z.eqb Pos.eqb].
  replace (position_text file l c ++ 32 :: ttype_str ty ++ 10 :: q ++ 10 :: spaces c ++ carets w)
    with ((position_text file l c ++ 32 :: ttype_str ty ++ 10 :: q) ++ 10 :: (spaces c ++ carets w))
    by (lnorm; reflexivity).
  rewrite rsplit1_app by apply spaces_caret_lacks_nl.
  replace (position_text file l c ++ 32 :: ttype_str ty ++ 10 :: q)
    with ((position_text file l c ++ 32 :: ttype_str ty) ++ 10 :: q) by (lnorm; reflexivity).
  rewrite (rsplit1_app _ _ _ Hq).
  rewrite rsplit1_app by apply ttype_str_nospace.
  rewrite parse_position_text, parse_ttype_str.
  assert (Hw : (length (spaces c ++ carets w) - Z.to_nat c)%nat = w).
  { rewrite app_length. unfold spaces, carets. rewrite !length_repeat_z. lia. }
  rewrite Hw, str_eqb_refl. reflexivity.
Qed.

(** * 2. The quoted line and the caret column are closed forms of the failing offset *)

Lemma split_nl_lines_lack_nl s : forall l, In l (split_nl s) -> lacks 10 l = true.
Proof.
  induction s as [|c s IH]; intros l Hin; cbn [split_nl] in Hin.
  - destruct Hin as [<-|[]]. reflexivity.
  - destruct (c =? 10) eqn:E.
    + destruct Hin as [<-|Hin]; [reflexivity|apply IH; exact Hin].
    + destruct (split_nl s) as [|h t] eqn:Es.
      * destruct Hin as [<-|[]]. unfold lacks. cbn [forallb]. rewrite E. reflexivity.
      * destruct Hin as [<-|Hin].
        -- unfold lacks. cbn [forallb]. rewrite E. cbn [negb andb]. apply (IH h). left. reflexivity.
        -- apply IH. right. exact Hin.
Qed.

Lemma line_text_lacks_nl s k : lacks 10 (line_text s k) = true.
Proof.
  unfold line_text. destruct (Nat.lt_ge_cases k (length (split_nl s))) as [H|H].
  - apply split_nl_lines_lack_nl with (s := s). apply nth_In. exact H.
  - rewrite nth_overflow by exact H. reflexivity.
Qed.

(** the report of a lexical error, in closed form (texts without NUL: the handler stops at a NUL) *)
Theorem scan_report_closed_form lx file s e :
  lexicon_ok lx = true -> scan lx file s = ScanErr e -> ~ In 0 s ->
  exists off, (off <= length s)%nat /\ site s (se_msg e) off /\
    scan_error_text file e =
    Some (scan_report file (Z.of_nat (line_of s off)) (col_of s off) (render_msg (se_msg e))
                      (line_text s (line_of s off))).
Proof.
  intros Hlx E Hn.
  destruct (lex_error_pos_correct lx file s e Hlx E) as (_ & off & Hoff & Hl & Hc & Hsite & (q & rest & Hq & Ht & Hr)).
  exists off. split; [exact Hoff|]. split; [exact Hsite|].
  rewrite (Hr Hn), app_nil_r in Ht. unfold scan_error_text. rewrite Hq, Hl, Hc, Ht. reflexivity.
Qed.

(** the quoted line of a scanner report never contains a newline (with or without NUL) *)
Theorem scan_quoted_no_newline lx file s e q :
  lexicon_ok lx = true -> scan lx file s = ScanErr e -> se_quoted e = Some q -> lacks 10 q = true.
Proof.
  intros Hlx E Hq.
  destruct (lex_error_pos_correct lx file s e Hlx E) as (_ & off & _ & _ & _ & _ & (q' & rest & Hq' & Ht & _)).
  rewrite Hq in Hq'. injection Hq' as <-.
  pose proof (line_text_lacks_nl s (line_of s off)) as H. rewrite Ht, lacks_app in H.
  apply andb_prop in H as [H _]. exact H.
Qed.

(** so every scanner report of a file whose name has no " : " reads back to its fields *)
Theorem scan_report_readable lx file s e txt :
  lexicon_ok lx = true -> has_sep file = false -> scan lx file s = ScanErr e -> scan_error_text file e = Some txt ->
  exists q, se_quoted e = Some q /\
            parse_scan_report txt = Some (file, se_line e, se_col e, render_msg (se_msg e), q).
Proof.
  intros Hlx Hf E Ht. unfold scan_error_text in Ht. destruct (se_quoted e) as [q|] eqn:Hq; [|discriminate].
  injection Ht as <-. exists q. split; [reflexivity|].
  apply parse_scan_report_roundtrip; [exact Hf|]. apply (scan_quoted_no_newline lx file s e q Hlx E Hq).
Qed.

(** Whole lines before the text change the scanner report only in the line number. *)
Theorem scan_report_prefix lx file s1 s2 toks1 eof1 lines1 e q :
  lexicon_ok lx = true -> (exists a, s1 = a ++ [10]) ->
  scan lx file s1 = ScanOk (toks1 ++ [eof1]) lines1 ->
  scan lx file s2 = ScanErr e -> se_quoted e = Some q ->
  scan_error_text file e = Some (scan_report file (se_line e) (se_col e) (render_msg (se_msg e)) q) /\
  exists e', scan lx file (s1 ++ s2) = ScanErr e' /\
    scan_error_text file e' =
    Some (scan_report file (se_line e + Z.of_nat (count_nl s1)) (se_col e) (render_msg (se_msg e)) q).
Proof.
  intros Hlx Hend E1 E2 Hq. split; [unfold scan_error_text; rewrite Hq; reflexivity|].
  rewrite (scan_line_compositional lx file s1 s2 toks1 eof1 lines1 Hlx Hend E1), E2. cbn [shift_result].
  eexists. split; [reflexivity|]. unfold scan_error_text. cbn [se_quoted se_line se_col se_msg]. rewrite Hq. reflexivity.
Qed.

(** * Token.trace under a prefix *)

(** the trace with the line NUMBER moved by [k] (the quoted line looked up in [lines] as before) *)
Definition token_trace_shifted (k : Z) (lines : list str) (t : token) : res (option str) :=
  match t_pos t with
  | None => Ok None
  | Some p =>
      match (if ttype_eqb (t_type t) T_EOF then last_line lines else py_index lines (tp_line p)) with
      | Some q => Ok (Some (trace_report (tp_file p) (tp_line p + k) (tp_col p) (t_type t) q (length (t_value t))))
      | None => Err EIndex
      end
  end.

Lemma token_trace_shifted_0 lines t : token_trace_shifted 0 lines t = token_trace lines t.
Proof. unfold token_trace_shifted, token_trace. destruct (t_pos t) as [p|]; [|reflexivity]. rewrite Z.add_0_r. reflexivity. Qed.

Lemma last_app_nonempty {A} (L l : list A) d : l <> [] -> last (L ++ l) d = last l d.
Proof.
  intros Hl. induction L as [|x L IH]; [reflexivity|]. cbn [app]. 
  change (last (x :: L ++ l) d) with (match L ++ l with [] => x | _ => last (L ++ l) d end).
  destruct (L ++ l) eqn:E; [|exact IH]. destruct L; [cbn in E; contradiction|discriminate].
Qed.

Lemma last_line_app L l : l <> [] -> last_line (L ++ l) = last_line l.
Proof.
  intros Hl. unfold last_line. destruct l as [|x l]; [contradiction|].
  destruct (L ++ x :: l) eqn:E; [destruct L; discriminate|]. rewrite <- E, last_app_nonempty by discriminate. reflexivity.
Qed.

Lemma py_index_app {A} (L l : list A) k : 0 <= k ->
  py_index (L ++ l) (k + Z.of_nat (length L)) = py_index l k.
Proof.
  intros Hk. unfold py_index.
  destruct (0 <=? k + Z.of_nat (length L)) eqn:E1; [|lia]. destruct (0 <=? k) eqn:E2; [|lia].
  rewrite nth_error_app2 by lia. f_equal. lia.
Qed.

Theorem token_trace_shift L lines t : lines <> [] -> (forall p, t_pos t = Some p -> 0 <= tp_line p) ->
  token_trace (L ++ lines) (shift_tok (length L) t) = token_trace_shifted (Z.of_nat (length L)) lines t.
Proof.
  intros Hne Hpos. unfold token_trace, token_trace_shifted, shift_tok. cbn [t_pos t_type t_value].
  destruct (t_pos t) as [p|] eqn:Ep; cbn [option_map]; [|reflexivity]. cbn [tp_line tp_col tp_file].
  rewrite (last_line_app L lines Hne), (py_index_app L lines (tp_line p) (Hpos p eq_refl)). reflexivity.
Qed.

Lemma removelast_length {A} (l : list A) : length (removelast l) = pred (length l).
Proof.
  induction l as [|x l IH]; [reflexivity|]. cbn [removelast]. destruct l as [|y l]; [reflexivity|].
  cbn [length] in *. rewrite IH. reflexivity.
Qed.

(** Whole lines before the text: every token keeps its trace up to the line number. *)
Theorem trace_prefix lx file s1 s2 toks1 eof1 lines1 toks2 lines2 :
  lexicon_ok lx = true -> (exists a, s1 = a ++ [10]) ->
  scan lx file s1 = ScanOk (toks1 ++ [eof1]) lines1 -> scan lx file s2 = ScanOk toks2 lines2 ->
  exists lines, scan lx file (s1 ++ s2) = ScanOk (toks1 ++ map (shift_tok (count_nl s1)) toks2) lines /\
    forall t, (forall p, t_pos t = Some p -> 0 <= tp_line p) ->
      token_trace lines (shift_tok (count_nl s1) t) = token_trace_shifted (Z.of_nat (count_nl s1)) lines2 t.
Proof.
  intros Hlx Hend E1 E2.
  rewrite (scan_line_compositional lx file s1 s2 toks1 eof1 lines1 Hlx Hend E1), E2. cbn [shift_result].
  eexists. split; [reflexivity|]. intros t Hpos.
  assert (Hlen : length (removelast lines1) = count_nl s1).
  { rewrite (scan_lines_correct lx file s1 _ _ Hlx E1), removelast_length, split_nl_length. reflexivity. }
  rewrite <- Hlen. apply token_trace_shift; [|exact Hpos].
  rewrite (scan_lines_correct lx file s2 _ _ Hlx E2). apply split_nl_nonempty.
Qed.

Lemma nth_last {A} (l : list A) d : nth (pred (length l)) l d = last l d.
Proof.
  induction l as [|x l IH]; [reflexivity|]. destruct l as [|y l]; [reflexivity|].
  cbn [length pred] in *. exact IH.
Qed.

(** the trace of a token of a successful scan, in closed form *)
Theorem trace_closed_form lx file s toks lines t :
  lexicon_ok lx = true -> scan lx file s = ScanOk toks lines -> In t toks -> t_type t <> T_COMMENT ->
  exists off, tok_at s file off t /\
    token_trace lines t =
    Ok (Some (trace_report file (Z.of_nat (line_of s off)) (col_of s off) (t_type t)
                (if ttype_eqb (t_type t) T_EOF then line_text s (count_nl s) else line_text s (line_of s off))
                (length (t_value t)))).
Proof.
  intros Hlx E Hin Hty.
  pose proof (token_pos_correct lx file s toks lines Hlx E) as HT. rewrite Forall_forall in HT.
  destruct (HT t Hin) as [Hc|(off & Hat & Hnth)]; [contradiction|]. exists off. split; [exact Hat|].
  destruct Hat as (Hp & _). unfold token_trace. rewrite Hp. cbn [tp_line tp_col tp_file].
  destruct (ttype_eqb (t_type t) T_EOF).
  - rewrite (scan_lines_correct lx file s toks lines Hlx E). unfold last_line, line_text.
    destruct (split_nl s) as [|x l] eqn:Es; [exfalso; apply (split_nl_nonempty s Es)|].
    rewrite <- Es. replace (count_nl s) with (pred (length (split_nl s))) by (rewrite split_nl_length; reflexivity).
    rewrite nth_last. reflexivity.
  - rewrite py_index_nat, Hnth. reflexivity.
Qed.

(** * NodeError location under a prefix, and in closed form *)
Theorem node_error_suffix_shift L lines t p : t_pos t = Some p -> 0 <= tp_line p ->
  node_error_suffix (L ++ lines) (Some (shift_tok (length L) t)) =
  match py_index lines (tp_line p) with
  | Some q => Ok (node_error_loc (tp_file p) (tp_line p + Z.of_nat (length L)) q)
  | None => Err EIndex
  end.
Proof.
  intros Hp H0. unfold node_error_suffix, shift_tok. cbn [t_pos]. rewrite Hp. cbn [option_map tp_line tp_col tp_file].
  rewrite (py_index_app L lines (tp_line p) H0). reflexivity.
Qed.

Theorem node_error_closed_form lx file s toks lines t msg :
  lexicon_ok lx = true -> scan lx file s = ScanOk toks lines -> In t toks -> t_type t <> T_COMMENT ->
  exists off, tok_at s file off t /\
    node_error_text msg lines (Some t) =
    Ok (node_error_report msg file (Z.of_nat (line_of s off)) (line_text s (line_of s off))).
Proof.
  intros Hlx E Hin Hty.
  pose proof (token_pos_correct lx file s toks lines Hlx E) as HT. rewrite Forall_forall in HT.
  destruct (HT t Hin) as [Hc|(off & Hat & Hnth)]; [contradiction|]. exists off. split; [exact Hat|].
  destruct Hat as (Hp & _). unfold node_error_text, node_error_suffix. rewrite Hp. cbn [tp_line tp_col tp_file].
  rewrite py_index_nat, Hnth. reflexivity.
Qed.

(** * 3. The caret line *)
Theorem token_trace_caret lines t txt : token_trace lines t = Ok (Some txt) ->
  exists p q, t_pos t = Some p /\
    (if ttype_eqb (t_type t) T_EOF then last_line lines = Some q else py_index lines (tp_line p) = Some q) /\
    txt = [10] ++ position_str p ++ [32] ++ ttype_str (t_type t) ++ [10] ++ q ++ [10] ++
          spaces (tp_col p) ++ carets (length (t_value t)).
Proof.
  unfold token_trace. destruct (t_pos t) as [p|]; [|discriminate].
  destruct (ttype_eqb (t_type t) T_EOF);
    [destruct (last_line lines) as [q|] eqn:Eq|destruct (py_index lines (tp_line p)) as [q|] eqn:Eq];
    try discriminate; intros H; injection H as <-; exists p, q; repeat split; assumption.
Qed.

Lemma last_in {A} (l : list A) d : l <> [] -> In (last l d) l.
Proof.
  induction l as [|x l IH]; intros H; [contradiction|]. destruct l as [|y l]; [left; reflexivity|].
  right. apply IH. discriminate.
Qed.
Lemma py_index_in {A} (l : list A) k x : py_index l k = Some x -> In x l.
Proof.
  unfold py_index. destruct (0 <=? k); [apply nth_error_In|].
  destruct (0 <=? k + Z.of_nat (length l)); [apply nth_error_In|discriminate].
Qed.

(** reading the trace back gives the token's type, position and LENGTH (the caret width) *)
Theorem trace_caret_width lines t txt p : token_trace lines t = Ok (Some txt) -> t_pos t = Some p ->
  Forall (fun l => lacks 10 l = true) lines ->
  exists q, parse_trace_report txt = Some (tp_file p, tp_line p, tp_col p, t_type t, q, length (t_value t)).
Proof.
  intros H Hp Hl. unfold token_trace in H. rewrite Hp in H. rewrite Forall_forall in Hl.
  destruct (if ttype_eqb (t_type t) T_EOF then last_line lines else py_index lines (tp_line p)) as [q|] eqn:Eq;
    [|discriminate].
  injection H as <-. exists q. apply parse_trace_report_roundtrip. apply Hl.
  destruct (ttype_eqb (t_type t) T_EOF).
  - unfold last_line in Eq. destruct lines as [|x l]; [discriminate|]. injection Eq as <-. exact (last_in (x :: l) [] ltac:(discriminate)).
  - apply (py_index_in _ _ _ Eq).
Qed.

(** for the lines of a scanned file the side condition holds *)
Theorem scanned_lines_lack_nl lx file s toks lines :
  lexicon_ok lx = true -> scan lx file s = ScanOk toks lines -> Forall (fun l => lacks 10 l = true) lines.
Proof.
  intros Hlx E. rewrite (scan_lines_correct lx file s toks lines Hlx E). apply Forall_forall.
  apply split_nl_lines_lack_nl.
Qed.

(** * The failing node *)
Lemma label_fail_site w ns : forall r a k n r', label_fail w r ns a = Some (k, n, r') ->
  label_site w r ns a = Some (k, node_fi n).
Proof.
  induction ns as [|x ns IH]; intros r a k n r' H; cbn [label_fail label_site] in *; [discriminate|].
  destruct (is_symbol_node x); [apply (IH _ _ _ _ _ H)|].
  destruct (pc_after w r x a) as [ra|k0|]; [apply (IH _ _ _ _ _ H)| |discriminate].
  injection H as <- <- <-. reflexivity.
Qed.
Lemma symbol_fail_site w ns : forall r a k n r', symbol_fail w r ns a = Some (k, n, r') ->
  symbol_site w r ns a = Some (k, node_fi n).
Proof.
  induction ns as [|x ns IH]; intros r a k n r' H; cbn [symbol_fail symbol_site] in *; [discriminate|].
  destruct (is_label_or_binary x); [apply (IH _ _ _ _ _ H)|].
  destruct (pc_after w r x a) as [ra|k0|]; [apply (IH _ _ _ _ _ H)| |discriminate].
  injection H as <- <- <-. reflexivity.
Qed.
Lemma emit_fail_site w ns : forall st addrs k n r', emit_fail w st ns addrs = Some (k, n, r') ->
  emit_site w st ns addrs = Some (k, node_fi n).
Proof.
  induction ns as [|x ns IH]; intros st addrs k n r' H; cbn [emit_fail emit_site] in *; [discriminate|].
  destruct addrs as [|a addrs]; [discriminate|].
  destruct (emit_step w st x a) as [st'|k0|]; [apply (IH _ _ _ _ _ H)| |discriminate].
  destruct (negb (a_val (r_reloc (e_r st)) =? a)); [discriminate|]. injection H as <- <- <-. reflexivity.
Qed.
Lemma label_fail_none w ns : forall r a, label_fail w r ns a = None ->
  label_site w r ns a = None.
Proof.
  induction ns as [|x ns IH]; intros r a H; cbn [label_fail label_site] in *; [reflexivity|].
  destruct (is_symbol_node x); [apply (IH _ _ H)|].
  destruct (pc_after w r x a) as [ra|k0|]; [apply (IH _ _ H)|discriminate|reflexivity].
Qed.
Lemma symbol_fail_none w ns : forall r a, symbol_fail w r ns a = None ->
  symbol_site w r ns a = None.
Proof.
  induction ns as [|x ns IH]; intros r a H; cbn [symbol_fail symbol_site] in *; [reflexivity|].
  destruct (is_label_or_binary x); [apply (IH _ _ H)|].
  destruct (pc_after w r x a) as [ra|k0|]; [apply (IH _ _ H)|discriminate|reflexivity].
Qed.

(** the node [nodes_fail] finds is the one whose file_info Assemble.v's [nodes_site] reports *)
Theorem nodes_fail_site w r ns k n r' : nodes_fail w r ns = Some (k, n, r') ->
  nodes_site w r ns = Some (k, node_fi n).
Proof.
  unfold nodes_fail, nodes_site. set (r0 := set_cur_last r (r_cur r) 0).
  destruct (label_fail w r0 ns (r_reloc r0)) as [[[k1 n1] r1]|] eqn:E1.
  - intros H. injection H as <- <- <-. rewrite (label_fail_site _ _ _ _ _ _ _ E1). reflexivity.
  - rewrite (label_fail_none _ _ _ _ E1).
    destruct (label_pass w r0 ns (r_reloc r0) []) as [[[r1 x] addrs]|k1|]; [|discriminate|discriminate].
    destruct (symbol_fail w (resolver_reset r1) ns (r_reloc (resolver_reset r1))) as [[[k2 n2] r2]|] eqn:E2.
    + intros H. injection H as <- <- <-. rewrite (symbol_fail_site _ _ _ _ _ _ _ E2). reflexivity.
    + rewrite (symbol_fail_none _ _ _ _ E2).
      destruct (symbol_pass w (resolver_reset r1) ns (r_reloc (resolver_reset r1))) as [y|k2|]; [|discriminate|discriminate].
      apply emit_fail_site.
Qed.

(** * The string API's text is the scanner report *)
Theorem report_text_scan t fs c fname src file e :
  report_text t fs c fname src (AScanError file e) = scan_error_text file e.
Proof. unfold report_text, report_of. destruct (scan_error_text file e); reflexivity. Qed.

(** * Non-vacuity *)
(** "  lda.q #1" in prog.s at line 2: "prog.s:2:6 : Invalid Size Specifier" / the line / 6 blanks and "^" *)
Example scan_report_example :
  parse_scan_report (scan_report [112;114;111;103;46;115] 2 6 (render_msg M_InvalidSize) [32;32;108;100;97;46;113;32;35;49]) =
  Some ([112;114;111;103;46;115], 2, 6, render_msg M_InvalidSize, [32;32;108;100;97;46;113;32;35;49]).
Proof. vm_compute. reflexivity. Qed.
(** "}" at prog.s:1:0 -> "\nprog.s:1:0 TokenType.RBRACE\n}\n^";  an EOF token quotes the last line and has no caret *)
Example trace_example :
  token_trace [[110;111;112]; [125]] {| t_type := T_RBRACE; t_value := [125]; t_pos := Some {| tp_line := 1; tp_col := 0; tp_file := [112] |} |} =
  Ok (Some ([10;112;58;49;58;48;32] ++ ttype_str T_RBRACE ++ [10;125;10;94])) /\
  token_trace [[110;111;112]; [108;100;97;32;40]] {| t_type := T_EOF; t_value := []; t_pos := Some {| tp_line := 1; tp_col := 5; tp_file := [112] |} |} =
  Ok (Some ([10;112;58;49;58;53;32] ++ ttype_str T_EOF ++ [10;108;100;97;32;40;10;32;32;32;32;32])).
Proof. vm_compute. split; reflexivity. Qed.

(** * C17 on the TEXT returned by the string API *)

(** A lexical error in the main file: the string [assemble_string_with_emitter] returns for
    [s1 ++ s2] ([s1] = whole lines that scan) is the string it returns for [s2] with the line
    number moved by the number of lines of [s1] — same column, message, quoted line, caret. *)
Theorem source_scan_report_prefix t fs c fname s1 s2 toks1 eof1 lines1 e q :
  lexicon_ok (lv_lex t) = true -> (exists a, s1 = a ++ [10]) ->
  scan (lv_lex t) fname s1 = ScanOk (toks1 ++ [eof1]) lines1 ->
  scan (lv_lex t) fname s2 = ScanErr e -> se_quoted e = Some q ->
  report_text t fs c fname s2 (assemble_source t fs c fname s2) =
    Some (scan_report fname (se_line e) (se_col e) (render_msg (se_msg e)) q) /\
  report_text t fs c fname (s1 ++ s2) (assemble_source t fs c fname (s1 ++ s2)) =
    Some (scan_report fname (se_line e + Z.of_nat (count_nl s1)) (se_col e) (render_msg (se_msg e)) q).
Proof.
  intros Hlx Hend E1 E2 Hq.
  destruct (scan_report_prefix (lv_lex t) fname s1 s2 toks1 eof1 lines1 e q Hlx Hend E1 E2 Hq) as (H2 & e' & E' & H').
  split.
  - unfold assemble_source. rewrite E2, Hq, report_text_scan. exact H2.
  - unfold assemble_source. rewrite E'.
    assert (Hq' : se_quoted e' = Some q).
    { rewrite (scan_line_compositional _ _ _ _ _ _ _ Hlx Hend E1), E2 in E'. cbn [shift_result] in E'.
      injection E' as <-. exact Hq. }
    rewrite Hq', report_text_scan. exact H'.
Qed.

(** ... and read back as fields the two reports differ in the line number only *)
Theorem scan_report_prefix_fields file l c msg q k :
  has_sep file = false -> lacks 10 q = true ->
  parse_scan_report (scan_report file l c msg q) = Some (file, l, c, msg, q) /\
  parse_scan_report (scan_report file (l + k) c msg q) = Some (file, l + k, c, msg, q).
Proof. intros Hf Hq. split; apply parse_scan_report_roundtrip; assumption. Qed.

Print Assumptions parse_int_dec.
Print Assumptions parse_position_text.
Print Assumptions parse_scan_report_roundtrip.
Print Assumptions scan_report_ambiguous.
Print Assumptions parse_trace_report_roundtrip.
Print Assumptions scan_report_closed_form.
Print Assumptions scan_quoted_no_newline.
Print Assumptions scan_report_readable.
Print Assumptions scan_report_prefix.
Print Assumptions source_scan_report_prefix.
Print Assumptions scan_report_prefix_fields.
Print Assumptions token_trace_shift.
Print Assumptions trace_prefix.
Print Assumptions trace_closed_form.
Print Assumptions node_error_suffix_shift.
Print Assumptions node_error_closed_form.
Print Assumptions token_trace_caret.
Print Assumptions trace_caret_width.
Print Assumptions scanned_lines_lack_nl.
Print Assumptions nodes_fail_site.
Print Assumptions report_text_scan.
Print Assumptions scan_report_example.
Print Assumptions trace_example.
