(** C09 — code-block arguments, nested: the application against the FULLY substituted body.

    The body may contain nested macro applications and splices of outer code parameters; so may the
    argument blocks; code blocks passed on to nested applications may contain splices of this
    application's parameters (they are substituted too).  Side condition making the substitution
    purely syntactic (binding of code parameters is dynamic): while the application scope is open no
    name of [K] (this application's code parameters) is bound again — no [q := ...] with q in K, no
    applied macro with a parameter named in K ([kclean], relative to a set [T] of macro names that
    may be applied) — and no expression uses a name of K.

    Resolver relation ([xrel hi]): the two states agree on everything but the code dictionaries of
    the scopes with index in [j, hi): scope [j] (the application scope) has the code dictionary [C]
    on the left and none on the right; the scopes created while it was open ((j, hi)) hold the same
    keys with [sub]-related blocks. *)
From Coq Require Import ZArith List Lia Bool Arith.
From A816 Require Import Model.Codegen Spec.EnvSem Proofs.BusProofs Proofs.ResolverProofs Proofs.ReplayProofs
     Proofs.EvalCongr Proofs.CodegenProofs Proofs.NonInterference Proofs.MacroInline Proofs.CodeValues.
From A816 Require Proofs.MacroCode.
From A816 Require Import Proofs.CodeValuesNI.
Open Scope Z_scope.

Section NS.
  Variable w : world.
  Variable K : str -> bool.                  (* the code-parameter names of the application *)
  Variable j : nat.                          (* index of the application scope *)
  Variable C : dict cval.                    (* its code dictionary *)
  Variable T : str -> bool.                  (* the macros that may be applied while it is open *)
  Hypothesis C_off : forall q, K q = false -> dict_get C q = None.

  Notation kfree := (MacroCode.kfree K).

  (** ** Statements that never bind or look up a name of K *)
  Fixpoint kclean (a : ast) : bool :=
    match a with
    | ABlock b _ | ACompound b _ | AScope _ b _ _ => forallb kclean b
    | AIf c th _ el _ =>
        kfree c && forallb kclean th && match el with Some (eb, _) => forallb kclean eb | None => true end
    | AFor _ lo hi b _ _ => kfree lo && kfree hi && forallb kclean b
    | AAssign name e _ => negb (K name) && kfree e
    | AIncludeIps _ e _ => kfree e
    | AMacro name params b _ _ => negb (T name) || (forallb (fun p => negb (K p)) params && forallb kclean b)
    | AMacroApply name args _ =>
        T name && forallb (fun x => match x with inl e => kfree e | inr (b, _) => forallb kclean b end) args
    | ACodeLookup q _ => negb (K q)
    | _ => true
    end.
  Definition kcleanl (b : list ast) : bool := forallb kclean b.
  Definition args_clean (args : list (expr + cval)) : bool :=
    forallb (fun x => match x with inl e => kfree e | inr (b, _) => forallb kclean b end) args.

  (** the macro table: what may be applied binds no name of K and has a clean body *)
  Definition tinv (t : dict macrodef) : Prop :=
    forall name md, T name = true -> dict_get t name = Some md ->
    forallb (fun p => negb (K p)) (md_params md) = true /\ kcleanl (md_body md) = true.

  (** ** The substitution *)
  Inductive sub : ast -> ast -> Prop :=
  | sb_same a : sub a a
  | sb_splice q fi fi' stmts fi0 stmts' :
      dict_get C q = Some (stmts, fi0) -> subl stmts stmts' -> sub (ACodeLookup q fi) (ABlock stmts' fi')
  | sb_block b1 b2 fi : subl b1 b2 -> sub (ABlock b1 fi) (ABlock b2 fi)
  | sb_compound b1 b2 fi : subl b1 b2 -> sub (ACompound b1 fi) (ACompound b2 fi)
  | sb_scope name b1 b2 bfi fi : subl b1 b2 -> sub (AScope name b1 bfi fi) (AScope name b2 bfi fi)
  | sb_if c th1 th2 thfi el1 el2 fi : subl th1 th2 -> subo el1 el2 -> sub (AIf c th1 thfi el1 fi) (AIf c th2 thfi el2 fi)
  | sb_for v lo hi b1 b2 bfi fi : subl b1 b2 -> sub (AFor v lo hi b1 bfi fi) (AFor v lo hi b2 bfi fi)
  | sb_apply name args1 args2 fi : suba args1 args2 -> sub (AMacroApply name args1 fi) (AMacroApply name args2 fi)
  with subl : list ast -> list ast -> Prop :=
  | sl_nil : subl [] []
  | sl_cons a1 a2 l1 l2 : sub a1 a2 -> subl l1 l2 -> subl (a1 :: l1) (a2 :: l2)
  with subo : option cval -> option cval -> Prop :=
  | so_none : subo None None
  | so_some b1 b2 fi : subl b1 b2 -> subo (Some (b1, fi)) (Some (b2, fi))
  with suba : list (expr + cval) -> list (expr + cval) -> Prop :=
  | sa_nil : suba [] []
  | sa_expr e l1 l2 : suba l1 l2 -> suba (inl e :: l1) (inl e :: l2)
  | sa_code b1 b2 fi l1 l2 : subl b1 b2 -> suba l1 l2 -> suba (inr (b1, fi) :: l1) (inr (b2, fi) :: l2).

  Lemma subl_refl l : subl l l.
  Proof. induction l; constructor; auto using sb_same. Qed.
  Lemma subo_refl o : subo o o.
  Proof. destruct o as [[b fi]|]; constructor. apply subl_refl. Qed.
  Lemma suba_refl l : suba l l.
  Proof. induction l as [|[e|[b fi]] l IH]; constructor; auto using subl_refl. Qed.

  (** stored blocks *)
  Definition V (c1 c2 : cval) : Prop := snd c1 = snd c2 /\ subl (fst c1) (fst c2) /\ kcleanl (fst c2) = true.

  (** ** Resolver states *)
  Record xscope (hi i : nat) (a b : scope) : Prop := {
    xs_parent : s_parent a = s_parent b;
    xs_kind : s_kind a = s_kind b;
    xs_sym : s_symbols a = s_symbols b;
    xs_lab : s_labels a = s_labels b;
    xs_table : s_table a = s_table b;
    xs_out : (i < j \/ hi <= i)%nat -> s_code a = s_code b;
    xs_at : i = j -> s_code a = C /\ s_code b = [];
    xs_under : (j < i < hi)%nat -> cdict V (s_code a) (s_code b)
  }.
  Definition xscopes (hi : nat) (l1 l2 : list scope) : Prop :=
    forall i, match nth_error l1 i, nth_error l2 i with
              | Some a, Some b => xscope hi i a b
              | None, None => True
              | _, _ => False
              end.
  Record xrel (hi : nat) (r1 r2 : rstate) : Prop := {
    xr_scopes : xscopes hi (r_scopes r1) (r_scopes r2);
    xr_cur : r_cur r1 = r_cur r2;
    xr_last : r_last r1 = r_last r2;
    xr_pc : r_pc r1 = r_pc r2;
    xr_reloc : r_reloc r1 = r_reloc r2;
    xr_bus : r_bus r1 = r_bus r2;
    xr_rom : r_rom r1 = r_rom r2
  }.

  Lemma xscopes_length hi l1 l2 : xscopes hi l1 l2 -> length l1 = length l2.
  Proof.
    intros H. destruct (Nat.lt_trichotomy (length l1) (length l2)) as [L|[E|L]]; [exfalso|exact E|exfalso].
    - specialize (H (length l1)). rewrite (proj2 (nth_error_None l1 _)) in H by lia.
      destruct (nth_error l2 (length l1)) eqn:E; [exact H|]. apply nth_error_None in E. lia.
    - specialize (H (length l2)). rewrite (proj2 (nth_error_None l2 (length l2))) in H by lia.
      destruct (nth_error l1 (length l2)) eqn:E; [exact H|]. apply nth_error_None in E. lia.
  Qed.

  Lemma xscopes_update hi l1 l2 k f g :
    (forall a b, xscope hi k a b -> xscope hi k (f a) (g b)) -> xscopes hi l1 l2 ->
    xscopes hi (list_update l1 k f) (list_update l2 k g).
  Proof.
    intros Hf H i. rewrite !nth_list_update. specialize (H i).
    destruct (Nat.eqb_spec k i) as [<-|N]; [|exact H].
    destruct (nth_error l1 k), (nth_error l2 k); cbn [option_map]; auto.
  Qed.

  Lemma xscopes_app hi l1 l2 x y : xscopes hi l1 l2 -> xscope hi (length l1) x y -> xscopes hi (l1 ++ [x]) (l2 ++ [y]).
  Proof.
    intros H Hx i. pose proof (xscopes_length _ _ _ H) as L. specialize (H i).
    destruct (Nat.lt_trichotomy i (length l1)) as [Lt|[->|Gt]].
    - rewrite !nth_error_app1 by lia. exact H.
    - rewrite !nth_error_app2 by lia. rewrite <- L, Nat.sub_diag. exact Hx.
    - rewrite !nth_error_app2 by lia. rewrite <- L.
      destruct (i - length l1)%nat as [|[|d]] eqn:E; cbn [nth_error]; auto; lia.
  Qed.

  Lemma xscopes_hi hi hi' l1 l2 : (length l1 <= hi)%nat -> (hi <= hi')%nat -> xscopes hi l1 l2 -> xscopes hi' l1 l2.
  Proof.
    intros L Hh H i. specialize (H i). destruct (nth_error l1 i) eqn:E1, (nth_error l2 i); auto.
    assert (i < length l1)%nat by (apply nth_error_Some; congruence).
    destruct H. constructor; auto; intros; [apply xs_out0|apply xs_under0]; lia.
  Qed.

  Lemma xrel_set_cur hi r1 r2 c : xrel hi r1 r2 -> xrel hi (set_cur r1 c) (set_cur r2 c).
  Proof. intros []; constructor; auto. Qed.
  Lemma xrel_set_bus hi r1 r2 b : xrel hi r1 r2 -> xrel hi (set_bus r1 b) (set_bus r2 b).
  Proof. intros []; constructor; auto. Qed.

  (** an update of the current scope that leaves the code dictionary alone *)
  Lemma xrel_upd hi r1 r2 f :
    (forall s, s_code (f s) = s_code s) ->
    (forall a b, s_parent a = s_parent b -> s_parent (f a) = s_parent (f b)) ->
    (forall a b, s_kind a = s_kind b -> s_kind (f a) = s_kind (f b)) ->
    (forall a b, s_symbols a = s_symbols b -> s_symbols (f a) = s_symbols (f b)) ->
    (forall a b, s_labels a = s_labels b -> s_labels (f a) = s_labels (f b)) ->
    (forall a b, s_table a = s_table b -> s_table (f a) = s_table (f b)) ->
    xrel hi r1 r2 -> xrel hi (upd_scope r1 (r_cur r1) f) (upd_scope r2 (r_cur r2) f).
  Proof.
    intros Hc H1 H2 H3 H4 H5 H. rewrite <- (xr_cur _ _ _ H). destruct H; constructor; auto.
    cbn [upd_scope set_scopes r_scopes]. apply xscopes_update; auto.
    intros a b []. constructor; rewrite ?Hc; auto.
  Qed.
  Lemma xrel_add_symbol hi r1 r2 n v : xrel hi r1 r2 -> xrel hi (add_symbol r1 n v) (add_symbol r2 n v).
  Proof.
    intros H. apply (xrel_upd hi r1 r2 (scope_add_symbol n v)); auto;
      intros a b E; cbn [scope_add_symbol s_parent s_kind s_symbols s_labels s_table]; congruence.
  Qed.
  Lemma xrel_set_table hi r1 r2 t : xrel hi r1 r2 ->
    xrel hi (upd_scope r1 (r_cur r1) (scope_set_table t)) (upd_scope r2 (r_cur r2) (scope_set_table t)).
  Proof.
    intros H. apply (xrel_upd hi r1 r2 (scope_set_table t)); auto;
      intros a b E; cbn [scope_set_table s_parent s_kind s_symbols s_labels s_table]; congruence.
  Qed.

  (** a code parameter bound in a scope created while [j] is open / outside *)
  Lemma xrel_add_code_under hi r1 r2 q c1 c2 : (j < r_cur r1 < hi)%nat -> V c1 c2 ->
    xrel hi r1 r2 -> xrel hi (add_code r1 q c1) (add_code r2 q c2).
  Proof.
    intros Hc Hv H. unfold add_code. rewrite <- (xr_cur _ _ _ H). destruct H; constructor; auto.
    cbn [upd_scope set_scopes r_scopes]. apply xscopes_update; auto.
    intros a b []. constructor; cbn [scope_add_code s_parent s_kind s_symbols s_labels s_table s_code]; auto.
    - intros Hx; exfalso; clear - Hc Hx; lia.
    - intros Hx; exfalso; clear - Hc Hx; lia.
    - intros _. apply cdict_set; auto.
  Qed.
  Lemma xrel_add_code_out hi r1 r2 q c : (j < hi)%nat -> (r_cur r1 < j \/ hi <= r_cur r1)%nat ->
    xrel hi r1 r2 -> xrel hi (add_code r1 q c) (add_code r2 q c).
  Proof.
    intros Hjh Hc H. unfold add_code. rewrite <- (xr_cur _ _ _ H). destruct H; constructor; auto.
    cbn [upd_scope set_scopes r_scopes]. apply xscopes_update; auto.
    intros a b []. constructor; cbn [scope_add_code s_parent s_kind s_symbols s_labels s_table s_code]; auto.
    - intros _. rewrite xs_out0; auto.
    - intros Hx; exfalso; clear - Hc Hx Hjh; lia.
    - intros Hx; exfalso; clear - Hc Hx; lia.
  Qed.

  Lemma xrel_nth hi r1 r2 i : xrel hi r1 r2 ->
    match nth_error (r_scopes r1) i, nth_error (r_scopes r2) i with
    | Some a, Some b => xscope hi i a b
    | None, None => True
    | _, _ => False
    end.
  Proof. intros H. apply (xr_scopes _ _ _ H). Qed.

  Lemma restore_x hi r1 r2 : xrel hi r1 r2 -> res_rel (xrel hi) (restore_scope r1 false) (restore_scope r2 false).
  Proof.
    intros H. unfold restore_scope. rewrite (xr_cur _ _ _ H).
    pose proof (xrel_nth hi r1 r2 (r_cur r2) H) as Hi.
    destruct (nth_error (r_scopes r1) _) as [s1|], (nth_error (r_scopes r2) _) as [s2|]; try contradiction;
      cbn [res_rel]; auto.
    rewrite (xs_parent _ _ _ _ Hi), (xs_kind _ _ _ _ Hi).
    destruct (s_parent s2) as [p|]; cbn [res_rel]; auto.
    apply xrel_set_cur. destruct (s_kind s2); auto.
  Qed.

  (** entering a fresh scope: both sides get the same shape *)
  Definition entered (r : rstate) (k : skind) : rstate :=
    set_cur_last (set_scopes r (r_scopes r ++ [new_scope (Some (r_cur r)) k])) (length (r_scopes r)) (length (r_scopes r)).
  Lemma enter_x hi r1 r2 k : cg_ok r1 -> xrel hi r1 r2 ->
    enter_scope r1 k = Ok (entered r1 k) /\ enter_scope r2 k = Ok (entered r2 k).
  Proof.
    intros [K1 K2 K3] H. pose proof (xscopes_length _ _ _ (xr_scopes _ _ _ H)) as L.
    unfold enter_scope, use_next_scope, append_scope, entered. cbn [set_scopes r_scopes r_last].
    rewrite <- (xr_last _ _ _ H), K1. split.
    - rewrite nth_error_app2 by lia. rewrite Nat.sub_diag. reflexivity.
    - rewrite L. rewrite nth_error_app2 by lia. rewrite Nat.sub_diag. reflexivity.
  Qed.
  Lemma xrel_entered_open r1 r2 k : (j < length (r_scopes r1))%nat ->
    xrel (length (r_scopes r1)) r1 r2 -> xrel (S (length (r_scopes r1))) (entered r1 k) (entered r2 k).
  Proof.
    intros Hj H. pose proof (xscopes_length _ _ _ (xr_scopes _ _ _ H)) as L. unfold entered. rewrite <- L, <- (xr_cur _ _ _ H).
    destruct H; constructor; cbn [set_cur_last set_scopes r_scopes r_cur r_last r_pc r_reloc r_bus r_rom]; auto.
    apply xscopes_app; [eapply xscopes_hi; [| |exact xr_scopes0]; lia|].
    constructor; cbn [new_scope s_parent s_kind s_symbols s_labels s_table s_code]; auto.
    - intros Hx; exfalso; clear - Hj Hx; lia.
    - intros _. constructor.
  Qed.
  Lemma xrel_entered_dead hi r1 r2 k : (j < hi)%nat -> (hi <= length (r_scopes r1))%nat ->
    xrel hi r1 r2 -> xrel hi (entered r1 k) (entered r2 k).
  Proof.
    intros Hjh Hj H. pose proof (xscopes_length _ _ _ (xr_scopes _ _ _ H)) as L. unfold entered. rewrite <- L, <- (xr_cur _ _ _ H).
    destruct H; constructor; cbn [set_cur_last set_scopes r_scopes r_cur r_last r_pc r_reloc r_bus r_rom]; auto.
    apply xscopes_app; auto.
    constructor; cbn [new_scope s_parent s_kind s_symbols s_labels s_table s_code]; auto.
    - intros Hx; exfalso; clear - Hj Hjh Hx; lia.
    - intros Hx; exfalso; clear - Hj Hx; lia.
  Qed.

  (** what does not depend on code dictionaries *)
  Lemma get_table_fuel_x hi sc1 sc2 : xscopes hi sc1 sc2 -> forall fuel i, get_table_fuel sc1 fuel i = get_table_fuel sc2 fuel i.
  Proof.
    intros H fuel; induction fuel as [|fuel IH]; intros i; [reflexivity|]. cbn [get_table_fuel].
    specialize (H i). destruct (nth_error sc1 i) as [a|], (nth_error sc2 i) as [b|]; try contradiction; [|reflexivity].
    rewrite (xs_table _ _ _ _ H), (xs_parent _ _ _ _ H). destruct (s_table b); [reflexivity|].
    destruct (s_parent b); [apply IH|reflexivity].
  Qed.
  Lemma get_table_x hi r1 r2 : xrel hi r1 r2 -> get_table r1 = get_table r2.
  Proof. intros H. unfold get_table. rewrite (xr_cur _ _ _ H). eapply get_table_fuel_x. apply (xr_scopes _ _ _ H). Qed.

  Lemma generate_map_x hi r1 r2 a : xrel hi r1 r2 -> res_rel (xrel hi) (generate_map r1 a) (generate_map r2 a).
  Proof.
    intros H. unfold generate_map. rewrite (xr_bus _ _ _ H).
    destruct (ma_identifier a) as [id|]; [|reflexivity].
    destruct (ma_bank_range a) as [[lo [hi'|]]|]; try reflexivity;
    destruct (ma_addr_range a) as [ar|]; try reflexivity;
    destruct (ma_mask a) as [[mask [mh|]]|]; try reflexivity.
    destruct (ma_mirror_bank_range a) as [[m0 [m1|]]|].
    - apply res_rel_bind_same; intros b _. cbn [res_rel]. apply xrel_set_bus, H.
    - destruct (m0 =? 0); [|reflexivity].
      apply res_rel_bind_same; intros b _. cbn [res_rel]. apply xrel_set_bus, H.
    - apply res_rel_bind_same; intros b _. cbn [res_rel]. apply xrel_set_bus, H.
  Qed.

  (** ** Lookups *)

  (** a name that is not in K: the same answer, or related code blocks *)
  Definition vrel (x y : res sval) : Prop :=
    x = y \/ exists b1 f1 b2 f2, x = Ok (VCode b1 f1) /\ y = Ok (VCode b2 f2) /\ V (b1, f1) (b2, f2).

  Lemma value_for_fuel_n hi sc1 sc2 q : K q = false -> xscopes hi sc1 sc2 -> forall fuel i,
    vrel (value_for_fuel sc1 fuel i q) (value_for_fuel sc2 fuel i q).
  Proof.
    intros Hq H fuel; induction fuel as [|fuel IH]; intros i; [left; reflexivity|]. cbn [value_for_fuel].
    pose proof (H i) as Hi. destruct (nth_error sc1 i) as [a|], (nth_error sc2 i) as [b|]; try contradiction; [|left; reflexivity].
    assert (Hm : dict_mem (s_code a) q = dict_mem (s_code b) q /\
                 vrel (scope_getitem a q) (scope_getitem b q)).
    { unfold scope_getitem, dict_mem. rewrite (xs_sym _ _ _ _ Hi).
      destruct (Nat.eq_dec i j) as [E|N].
      - destruct (xs_at _ _ _ _ Hi E) as [Ea Eb]. rewrite Ea, Eb, (C_off q Hq). cbn [dict_get]. split; [reflexivity|left; reflexivity].
      - destruct (lt_dec j i) as [Lj|]; [destruct (lt_dec i hi) as [Lh|]|].
        + pose proof (cdict_get V _ _ q (xs_under _ _ _ _ Hi (conj Lj Lh))) as G.
          destruct (dict_get (s_code a) q) as [[b1 f1]|], (dict_get (s_code b) q) as [[b2 f2]|]; try contradiction.
          * split; [reflexivity|]. right. exists b1, f1, b2, f2. auto.
          * split; [reflexivity|left; reflexivity].
        + rewrite (xs_out _ _ _ _ Hi) by lia. split; [reflexivity|left; reflexivity].
        + rewrite (xs_out _ _ _ _ Hi) by lia. split; [reflexivity|left; reflexivity]. }
    destruct Hm as [Hm Hg]. rewrite (xs_parent _ _ _ _ Hi), (xs_sym _ _ _ _ Hi), Hm.
    destruct (s_parent b); [|exact Hg]. destruct (_ || _); [exact Hg|apply IH].
  Qed.
  Lemma value_for_n hi r1 r2 q : K q = false -> xrel hi r1 r2 -> vrel (value_for r1 q) (value_for r2 q).
  Proof. intros Hq H. unfold value_for. rewrite (xr_cur _ _ _ H). eapply value_for_fuel_n; eauto. apply (xr_scopes _ _ _ H). Qed.

  Lemma eval_raw_n hi r1 r2 e : kfree e = true -> xrel hi r1 r2 -> eval_raw w r1 e = eval_raw w r2 e.
  Proof.
    intros He H. unfold eval_raw. apply eval_expression_congr. apply Forall_forall. intros t Ht Hty.
    unfold MacroCode.kfree in He. rewrite forallb_forall in He. specialize (He t Ht). rewrite Hty in He.
    assert (Hq : K (en_val t) = false) by (destruct (K (en_val t)); [discriminate|reflexivity]).
    unfold env_of. destruct (value_for_n hi r1 r2 (en_val t) Hq H) as [E|(b1 & f1 & b2 & f2 & E1 & E2 & _)].
    - rewrite E. reflexivity.
    - rewrite E1, E2. reflexivity.
  Qed.

  (** the chain from a scope created while [j] is open leads to [j], through scopes that bind no
      name of K *)
  Definition chain_ok (sc : list scope) : Prop :=
    forall i s, nth_error sc i = Some s -> (j < i)%nat -> exists p, s_parent s = Some p /\ (j <= p < i)%nat.
  Definition clean_above (sc : list scope) : Prop :=
    forall i s q, nth_error sc i = Some s -> (j < i)%nat -> K q = true ->
    dict_mem (s_symbols s) q = false /\ dict_mem (s_code s) q = false.

  Lemma value_for_fuel_k sc q c sj : chain_ok sc -> clean_above sc ->
    nth_error sc j = Some sj -> s_code sj = C -> K q = true -> dict_get C q = Some c ->
    forall fuel i, (j <= i < fuel)%nat -> (i < length sc)%nat ->
    value_for_fuel sc fuel i q = Ok (VCode (fst c) (snd c)).
  Proof.
    intros Hch Hcl Hj Hcj Hq Hc fuel; induction fuel as [|fuel IH]; intros i Hi Hl; [lia|]. cbn [value_for_fuel].
    destruct (nth_error sc i) as [s|] eqn:Hn; [|apply nth_error_None in Hn; lia].
    destruct (Nat.eq_dec i j) as [->|N].
    - rewrite Hj in Hn. inversion Hn; subst s. unfold scope_getitem, dict_mem. rewrite Hcj, Hc.
      destruct c as [b f]. destruct (s_parent sj); [rewrite orb_true_r|]; reflexivity.
    - destruct (Hch i s Hn ltac:(lia)) as (p & Hp & Hpi). destruct (Hcl i s q Hn ltac:(lia) Hq) as [A B].
      rewrite Hp, A, B. cbn [orb]. apply IH; lia.
  Qed.

  (** outside [j, hi): nothing on the chain is in [j, hi), every lookup is literally the same *)
  Definition chain_out (hi : nat) (sc : list scope) : Prop :=
    forall i s p, nth_error sc i = Some s -> s_parent s = Some p -> (p < i)%nat /\ ((hi <= i)%nat -> (p < j \/ hi <= p)%nat).

  Lemma value_for_fuel_d hi sc1 sc2 q : xscopes hi sc1 sc2 -> chain_out hi sc1 -> forall fuel i,
    (i < j \/ hi <= i)%nat -> value_for_fuel sc1 fuel i q = value_for_fuel sc2 fuel i q.
  Proof.
    intros H Hch fuel; induction fuel as [|fuel IH]; intros i Hi; [reflexivity|]. cbn [value_for_fuel].
    pose proof (H i) as Hx. destruct (nth_error sc1 i) as [a|] eqn:Ha, (nth_error sc2 i) as [b|]; try contradiction; [|reflexivity].
    unfold scope_getitem. rewrite <- (xs_parent _ _ _ _ Hx), <- (xs_sym _ _ _ _ Hx), <- (xs_out _ _ _ _ Hx Hi).
    destruct (s_parent a) as [p|] eqn:Hp; [|reflexivity].
    destruct (_ || _); [reflexivity|]. apply IH. destruct (Hch i a p Ha Hp) as [Lt Ho]. lia.
  Qed.
  (** ** While [j] is open: invariants *)
  Definition codes_clean (r : rstate) : Prop :=
    Forall (fun s => Forall (fun kv => kcleanl (fst (snd kv)) = true) (s_code s)) (r_scopes r).

  Record ostr (r1 r2 : rstate) : Prop := {
    os_x : xrel (length (r_scopes r1)) r1 r2;
    os_j : (j < length (r_scopes r1))%nat;
    os_chain : chain_ok (r_scopes r1);
    os_clean : clean_above (r_scopes r1);
    os_codes : codes_clean r2
  }.
  Definition ost (s1 s2 : cgstate) : Prop :=
    ostr (cg_r s1) (cg_r s2) /\ cg_macros s1 = cg_macros s2 /\ tinv (cg_macros s2).
  Definition opre (r : rstate) : Prop := cg_ok r /\ (j <= r_cur r)%nat.
  Definition ogrel (x y : cgstate * list node) : Prop := ost (fst x) (fst y) /\ snd x = snd y.
  Definition ogen (gen : cgstate -> list ast -> res (cgstate * list node)) : Prop :=
    forall s1 s2 b1 b2, ost s1 s2 -> opre (cg_r s1) -> subl b1 b2 -> kcleanl b2 = true ->
    res_rel ogrel (gen s1 b1) (gen s2 b2).

  Lemma chain_upd sc k f : (forall s, s_parent (f s) = s_parent s) -> chain_ok sc -> chain_ok (list_update sc k f).
  Proof.
    intros Hf H i s Hn Hi. rewrite nth_list_update in Hn. destruct (Nat.eqb k i).
    - destruct (nth_error sc i) as [s0|] eqn:E; cbn [option_map] in Hn; [|discriminate]. inversion Hn; subst.
      rewrite Hf. eapply H; eauto.
    - eapply H; eauto.
  Qed.
  Lemma chain_app sc cur k : (j <= cur < length sc)%nat -> chain_ok sc -> chain_ok (sc ++ [new_scope (Some cur) k]).
  Proof.
    intros Hc H i s Hn Hi. destruct (Nat.lt_ge_cases i (length sc)) as [L|G].
    - rewrite nth_error_app1 in Hn by lia. eapply H; eauto.
    - rewrite nth_error_app2 in Hn by lia. destruct (i - length sc)%nat as [|[|d]] eqn:E; cbn [nth_error] in Hn; try discriminate.
      inversion Hn; subst. cbn [new_scope s_parent]. exists cur. split; [reflexivity|lia].
  Qed.
  Lemma clean_upd sc k f :
    (forall s q, K q = true -> dict_mem (s_symbols s) q = false -> dict_mem (s_symbols (f s)) q = false) ->
    (forall s q, K q = true -> dict_mem (s_code s) q = false -> dict_mem (s_code (f s)) q = false) ->
    clean_above sc -> clean_above (list_update sc k f).
  Proof.
    intros H1 H2 H i s q Hn Hi Hq. rewrite nth_list_update in Hn. destruct (Nat.eqb k i).
    - destruct (nth_error sc i) as [s0|] eqn:E; cbn [option_map] in Hn; [|discriminate]. inversion Hn; subst.
      destruct (H i s0 q E Hi Hq). split; auto.
    - eapply H; eauto.
  Qed.
  Lemma clean_app sc p k : clean_above sc -> clean_above (sc ++ [new_scope p k]).
  Proof.
    intros H i s q Hn Hi Hq. destruct (Nat.lt_ge_cases i (length sc)) as [L|G].
    - rewrite nth_error_app1 in Hn by lia. eapply H; eauto.
    - rewrite nth_error_app2 in Hn by lia. destruct (i - length sc)%nat as [|[|d]] eqn:E; cbn [nth_error] in Hn; try discriminate.
      inversion Hn; subst. split; reflexivity.
  Qed.
  Lemma dict_mem_set_other {X} (d : dict X) k v q : str_eqb q k = false -> dict_mem (dict_set d k v) q = dict_mem d q.
  Proof. intros E. unfold dict_mem. rewrite (dict_get_set_other _ _ _ _ E). reflexivity. Qed.
  Lemma K_neq q n : K q = true -> K n = false -> str_eqb q n = false.
  Proof. intros A B. destruct (str_eqb q n) eqn:E; [|reflexivity]. apply str_eqb_eq in E. congruence. Qed.

  Lemma cc_upd r k f : (forall s, s_code (f s) = s_code s) -> codes_clean r -> codes_clean (upd_scope r k f).
  Proof.
    intros Hf H. unfold codes_clean, upd_scope in *. cbn [set_scopes r_scopes].
    apply Forall_list_update; auto. intros s Hs. rewrite Hf. exact Hs.
  Qed.
  Lemma cc_add_code r q c : kcleanl (fst c) = true -> codes_clean r -> codes_clean (add_code r q c).
  Proof.
    intros Hb H. unfold codes_clean, add_code, upd_scope in *. cbn [set_scopes r_scopes].
    apply Forall_list_update; auto. intros s Hs. cbn [scope_add_code s_code].
    induction Hs as [|[k' v'] d Hx Hd IH]; cbn [dict_set]; [constructor; auto|].
    destruct (str_eqb q k'); constructor; auto.
  Qed.
  Lemma cc_entered r k : codes_clean r -> codes_clean (entered r k).
  Proof.
    intros H. unfold codes_clean, entered in *. cbn [set_cur_last set_scopes r_scopes]. apply Forall_app. split; [exact H|].
    constructor; [constructor|constructor].
  Qed.
  Lemma value_for_fuel_cc scopes q b fi :
    Forall (fun s => Forall (fun kv => kcleanl (fst (snd kv)) = true) (s_code s)) scopes ->
    forall fuel i, value_for_fuel scopes fuel i q = Ok (VCode b fi) -> kcleanl b = true.
  Proof.
    intros Hc fuel; induction fuel as [|fuel IH]; intros i; cbn [value_for_fuel]; [discriminate|].
    destruct (nth_error scopes i) as [s|] eqn:Hn; [|discriminate].
    assert (Hs : scope_getitem s q = Ok (VCode b fi) -> kcleanl b = true).
    { unfold scope_getitem. destruct (dict_get (s_code s) q) as [[b' fi']|] eqn:E.
      - intros X; inversion X; subst. apply dict_get_in in E as (k' & _ & Hin).
        rewrite Forall_forall in Hc. specialize (Hc s (nth_error_In _ _ Hn)).
        rewrite Forall_forall in Hc. apply (Hc _ Hin).
      - destruct (dict_get (s_symbols s) q); discriminate. }
    destruct (s_parent s); [|exact Hs]. destruct (_ || _); [exact Hs|apply IH].
  Qed.

  (** a splice of one of the application's own parameters finds the argument block *)
  Lemma value_for_k r1 r2 q c : ostr r1 r2 -> opre r1 -> K q = true -> dict_get C q = Some c ->
    value_for r1 q = Ok (VCode (fst c) (snd c)).
  Proof.
    intros [Hx Hj Hch Hcl _] [[K1 K2 K3] Hc] Hq Hg. unfold value_for.
    pose proof (xrel_nth _ r1 r2 j Hx) as Hn.
    destruct (nth_error (r_scopes r1) j) as [sj|] eqn:E1; [|apply nth_error_None in E1; lia].
    destruct (nth_error (r_scopes r2) j) as [sj2|]; [|contradiction].
    destruct (xs_at _ _ _ _ Hn eq_refl) as [Ec _].
    eapply value_for_fuel_k; eauto; lia.
  Qed.

  (** states after an update of the current scope *)
  Lemma ostr_upd r1 r2 f :
    (forall s, s_code (f s) = s_code s) -> (forall s, s_parent (f s) = s_parent s) ->
    (forall s q, K q = true -> dict_mem (s_symbols s) q = false -> dict_mem (s_symbols (f s)) q = false) ->
    xrel (length (r_scopes r1)) (upd_scope r1 (r_cur r1) f) (upd_scope r2 (r_cur r2) f) ->
    ostr r1 r2 -> ostr (upd_scope r1 (r_cur r1) f) (upd_scope r2 (r_cur r2) f).
  Proof.
    intros Hc Hp Hs Hx [_ Hj Hch Hcl Hcc]. constructor; cbn [upd_scope set_scopes r_scopes]; rewrite ?list_update_length; auto.
    - apply chain_upd; auto.
    - apply clean_upd; auto. intros s q _ A. rewrite Hc. exact A.
    - apply cc_upd; auto.
  Qed.
  Lemma ostr_add_symbol r1 r2 n v : K n = false -> ostr r1 r2 -> ostr (add_symbol r1 n v) (add_symbol r2 n v).
  Proof.
    intros Hn H. apply (ostr_upd r1 r2 (scope_add_symbol n v)); auto.
    - intros s q Hq A. cbn [scope_add_symbol s_symbols]. rewrite dict_mem_set_other; auto using K_neq.
    - apply xrel_add_symbol. apply (os_x _ _ H).
  Qed.
  Lemma ostr_set_table r1 r2 t : ostr r1 r2 ->
    ostr (upd_scope r1 (r_cur r1) (scope_set_table t)) (upd_scope r2 (r_cur r2) (scope_set_table t)).
  Proof. intros H. apply (ostr_upd r1 r2 (scope_set_table t)); auto. apply xrel_set_table. apply (os_x _ _ H). Qed.
  Lemma ostr_add_code r1 r2 q c1 c2 : K q = false -> V c1 c2 -> (j < r_cur r1)%nat -> cg_ok r1 ->
    ostr r1 r2 -> ostr (add_code r1 q c1) (add_code r2 q c2).
  Proof.
    intros Hq Hv Hc [K1 K2 K3] [Hx Hj Hch Hcl Hcc].
    assert (L : length (r_scopes (add_code r1 q c1)) = length (r_scopes r1))
      by (unfold add_code, upd_scope; cbn [set_scopes r_scopes]; apply list_update_length).
    constructor; rewrite ?L; auto.
    - apply xrel_add_code_under; auto.
    - unfold add_code, upd_scope. cbn [set_scopes r_scopes]. apply chain_upd; auto.
    - unfold add_code, upd_scope. cbn [set_scopes r_scopes]. apply clean_upd; auto.
      intros s q' Hq' A. cbn [scope_add_code s_code]. rewrite dict_mem_set_other; auto using K_neq.
    - apply cc_add_code; auto. apply Hv.
  Qed.
  Lemma ostr_same_scopes r1 r2 ra rb :
    r_scopes ra = r_scopes r1 -> r_scopes rb = r_scopes r2 -> xrel (length (r_scopes r1)) ra rb ->
    ostr r1 r2 -> ostr ra rb.
  Proof.
    intros E1 E2 Hx [_ Hj Hch Hcl Hcc]. constructor; rewrite ?E1; auto. unfold codes_clean in *. rewrite E2. exact Hcc.
  Qed.
  Lemma ostr_entered r1 r2 k : cg_ok r1 -> (j <= r_cur r1)%nat -> ostr r1 r2 -> ostr (entered r1 k) (entered r2 k).
  Proof.
    intros [K1 K2 K3] Hc [Hx Hj Hch Hcl Hcc]. constructor; cbn [entered set_cur_last set_scopes r_scopes]; rewrite ?app_length; cbn [length].
    - replace (length (r_scopes r1) + 1)%nat with (S (length (r_scopes r1))) by lia. apply xrel_entered_open; auto.
    - lia.
    - apply chain_app; auto; lia.
    - apply clean_app; auto.
    - apply cc_entered; auto.
  Qed.

  Lemma generate_map_scopes r a r' : generate_map r a = Ok r' -> r_scopes r' = r_scopes r.
  Proof.
    unfold generate_map.
    destruct (ma_identifier a) as [id|]; [|discriminate].
    destruct (ma_bank_range a) as [[lo [hi'|]]|]; try discriminate;
    destruct (ma_addr_range a) as [ar|]; try discriminate;
    destruct (ma_mask a) as [[mask [mh|]]|]; try discriminate.
    destruct (ma_mirror_bank_range a) as [[m0 [m1|]]|];
      try (destruct (m0 =? 0); [|discriminate]);
      (destruct (bus_map _ _ _ _ _ _); cbn [bind]; try discriminate; intros X; inversion X; reflexivity).
  Qed.

  (** ** Macro arguments *)
  Definition aval_rel (v1 v2 : argval) : Prop :=
    match v1, v2 with
    | AVInt x, AVInt y => x = y
    | AVCode b1 f1, AVCode b2 f2 => V (b1, f1) (b2, f2)
    | AVDeferred e1, AVDeferred e2 => e1 = e2
    | _, _ => False
    end.
  Definition brel (bs1 bs2 : list (str * argval)) : Prop :=
    Forall2 (fun pv1 pv2 => fst pv1 = fst pv2 /\ K (fst pv1) = false /\ aval_rel (snd pv1) (snd pv2)) bs1 bs2.

  Lemma eval_macro_args_o hi r1 r2 : xrel hi r1 r2 -> forall ps args1 args2,
    forallb (fun p => negb (K p)) ps = true -> suba args1 args2 -> args_clean args2 = true ->
    res_rel brel (eval_macro_args w r1 ps args1) (eval_macro_args w r2 ps args2).
  Proof.
    intros H. induction ps as [|p ps IH]; intros args1 args2 Hp Ha Hf; cbn [eval_macro_args]; [constructor|].
    cbn [forallb] in Hp. apply andb_prop in Hp as [Hp Hps].
    assert (Hkp : K p = false) by (destruct (K p); [discriminate|reflexivity]).
    destruct Ha as [|e l1 l2 Hl|b1 b2 fi l1 l2 Hb Hl]; [reflexivity| |];
      unfold args_clean in Hf; cbn [forallb] in Hf; apply andb_prop in Hf as [Hfa Hfl]; specialize (IH l1 l2 Hps Hl Hfl).
    - rewrite (eval_raw_n hi r1 r2 e Hfa H).
      destruct (eval_raw w r2 e) as [v|[]|]; cbn [bind res_rel]; auto;
        destruct (eval_macro_args w r1 ps l1) as [t1| |], (eval_macro_args w r2 ps l2) as [t2| |];
        cbn [res_rel bind] in *; auto; constructor; auto; cbn [fst snd aval_rel]; auto.
    - cbn [bind].
      destruct (eval_macro_args w r1 ps l1) as [t1| |], (eval_macro_args w r2 ps l2) as [t2| |];
        cbn [res_rel bind] in *; auto. constructor; auto. cbn [fst snd aval_rel]. repeat split; auto.
  Qed.

  Lemma bind_macro_args_o bs1 bs2 : brel bs1 bs2 -> forall r1 r2,
    ostr r1 r2 -> cg_ok r1 -> (j < r_cur r1)%nat ->
    ostr (fst (bind_macro_args r1 bs1)) (fst (bind_macro_args r2 bs2)) /\
    snd (bind_macro_args r1 bs1) = snd (bind_macro_args r2 bs2).
  Proof.
    induction 1 as [|[p1 v1] [p2 v2] bs1 bs2 (Ep & Hp & Hv) Hbs IH]; intros r1 r2 H Hk Hc; cbn [bind_macro_args]; [auto|].
    cbn [fst snd] in Ep, Hp, Hv. subst p2.
    destruct v1 as [x|b1 f1|e1], v2 as [y|b2 f2|e2]; cbn [aval_rel] in Hv; try contradiction.
    - subst y. apply IH; auto using ostr_add_symbol.
      eapply MacroCode.cg_ok_benign; [exact Hk|]. apply benign_upd. reflexivity.
    - apply IH; auto using ostr_add_code.
      eapply MacroCode.cg_ok_benign; [exact Hk|]. apply benign_upd. reflexivity.
    - subst e2. destruct (IH r1 r2 H Hk Hc) as (A & B).
      destruct (bind_macro_args r1 bs1) as [ra na], (bind_macro_args r2 bs2) as [rb nb].
      cbn [fst snd] in *. subst nb. auto.
  Qed.
  (** ** Code generation while [j] is open *)
  Lemma sub_block_inv a1 b2 fi : sub a1 (ABlock b2 fi) ->
    (exists b1, a1 = ABlock b1 fi /\ subl b1 b2) \/
    (exists q fi0 stmts f0, a1 = ACodeLookup q fi0 /\ dict_get C q = Some (stmts, f0) /\ subl stmts b2).
  Proof. intros H; inversion H; subst; [left; eauto using subl_refl|right; eauto 8|left; eauto]. Qed.
  Lemma sub_compound_inv a1 b2 fi : sub a1 (ACompound b2 fi) -> exists b1, a1 = ACompound b1 fi /\ subl b1 b2.
  Proof. intros H; inversion H; subst; eauto using subl_refl. Qed.
  Lemma sub_scope_inv a1 name b2 bfi fi : sub a1 (AScope name b2 bfi fi) -> exists b1, a1 = AScope name b1 bfi fi /\ subl b1 b2.
  Proof. intros H; inversion H; subst; eauto using subl_refl. Qed.
  Lemma sub_if_inv a1 c th2 thfi el2 fi : sub a1 (AIf c th2 thfi el2 fi) ->
    exists th1 el1, a1 = AIf c th1 thfi el1 fi /\ subl th1 th2 /\ subo el1 el2.
  Proof. intros H; inversion H; subst; eauto 6 using subl_refl, subo_refl. Qed.
  Lemma sub_for_inv a1 v lo hi b2 bfi fi : sub a1 (AFor v lo hi b2 bfi fi) -> exists b1, a1 = AFor v lo hi b1 bfi fi /\ subl b1 b2.
  Proof. intros H; inversion H; subst; eauto using subl_refl. Qed.
  Lemma sub_apply_inv a1 name args2 fi : sub a1 (AMacroApply name args2 fi) -> exists args1, a1 = AMacroApply name args1 fi /\ suba args1 args2.
  Proof. intros H; inversion H; subst; eauto using suba_refl. Qed.

  Lemma ost_set s1 s2 ra rb : ost s1 s2 -> ostr ra rb -> ost (cg_set_r s1 ra) (cg_set_r s2 rb).
  Proof. intros (_ & Hm & Ht) Hr. exact (conj Hr (conj Hm Ht)). Qed.
  Lemma ogrel_same s1 s2 ns : ost s1 s2 -> res_rel ogrel (Ok (s1, ns)) (Ok (s2, ns)).
  Proof. intros H. split; auto. Qed.

  Lemma oseq (A1 A2 : res (cgstate * list node)) (B1 B2 : cgstate -> res (cgstate * list node)) :
    res_rel ogrel A1 A2 ->
    (forall sa na sb, A1 = Ok (sa, na) -> ost sa sb -> res_rel ogrel (B1 sa) (B2 sb)) ->
    res_rel ogrel (do x <- A1; do y <- B1 (fst x); Ok (fst y, snd x ++ snd y))
                  (do x <- A2; do y <- B2 (fst x); Ok (fst y, snd x ++ snd y)).
  Proof.
    intros HA HB. destruct A1 as [[sa na]| |], A2 as [[sb nb]| |]; cbn [res_rel] in HA; try contradiction;
      cbn [bind res_rel fst snd]; auto.
    destruct HA as [Hs Hn]. cbn [fst snd] in Hs, Hn. subst nb.
    eapply res_rel_bind; [apply (HB sa na sb eq_refl Hs)|].
    intros [sa' na'] [sb' nb'] [Hs' Hn']. cbn [fst snd] in *. subst nb'. split; cbn [fst snd]; auto.
  Qed.

  Lemma restore_false_scopes r r' : restore_scope r false = Ok r' -> r_scopes r' = r_scopes r.
  Proof.
    unfold restore_scope. destruct (nth_error _ _) as [s|]; [|discriminate].
    destruct (s_parent s); [|discriminate]. intros X; inversion X; subst. destruct (s_kind s); reflexivity.
  Qed.

  Lemma oscoped gen k s1 s2 pre1 pre2 b1 b2 :
    ogen gen -> ost s1 s2 -> opre (cg_r s1) -> subl b1 b2 -> kcleanl b2 = true ->
    (forall ra rb, ostr ra rb -> cg_ok ra -> (j < r_cur ra)%nat ->
       ostr (fst (pre1 ra)) (fst (pre2 rb)) /\ cg_ok (fst (pre1 ra)) /\ r_cur (fst (pre1 ra)) = r_cur ra /\
       snd (pre1 ra) = snd (pre2 rb)) ->
    res_rel ogrel (scoped gen k s1 pre1 b1) (scoped gen k s2 pre2 b2).
  Proof.
    intros Hgen (Hr & Hm & Ht) [Hk Hc] Hb Hf Hpre. unfold scoped.
    destruct (enter_x _ _ _ k Hk (os_x _ _ Hr)) as [E1 E2]. rewrite E1, E2. cbn [bind].
    pose proof (ostr_entered _ _ k Hk Hc Hr) as Hra.
    pose proof (MacroCode.cg_ok_enter _ _ _ Hk E1) as Hka.
    assert (Hca : (j < r_cur (entered (cg_r s1) k))%nat) by (cbn [entered set_cur_last r_cur]; apply (os_j _ _ Hr)).
    destruct (Hpre _ _ Hra Hka Hca) as (P1 & P2 & P3 & P4).
    destruct (pre1 (entered (cg_r s1) k)) as [ra2 pn1], (pre2 (entered (cg_r s2) k)) as [rb2 pn2]. cbn [fst snd] in *. subst pn2.
    eapply res_rel_bind.
    - apply Hgen; [exact (conj P1 (conj Hm Ht))| |exact Hb|exact Hf]. split; cbn [cg_set_r cg_r]; [exact P2|lia].
    - intros [sa na] [sb nb] [(Hr' & Hm' & Ht') Hn]. cbn [fst snd] in *. subst nb.
      pose proof (restore_x _ _ _ (os_x _ _ Hr')) as HR.
      destruct (restore_scope (cg_r sa) false) as [r3a| |] eqn:R1, (restore_scope (cg_r sb) false) as [r3b| |] eqn:R2;
        cbn [res_rel] in HR; try contradiction; cbn [bind res_rel]; auto.
      split; cbn [fst snd]; [|reflexivity].
      refine (conj _ (conj Hm' Ht')). cbn [cg_set_r cg_r].
      eapply ostr_same_scopes; [apply (restore_false_scopes _ _ R1)|apply (restore_false_scopes _ _ R2)|exact HR|exact Hr'].
  Qed.

  Lemma oscoped_id gen k s1 s2 ns0 b1 b2 :
    ogen gen -> ost s1 s2 -> opre (cg_r s1) -> subl b1 b2 -> kcleanl b2 = true ->
    res_rel ogrel (scoped gen k s1 (fun r => (r, ns0)) b1) (scoped gen k s2 (fun r => (r, ns0)) b2).
  Proof.
    intros Hgen H Hp Hb Hf. apply (oscoped gen k s1 s2 (fun r => (r, ns0)) (fun r => (r, ns0)) b1 b2 Hgen H Hp Hb Hf).
    intros ra rb A B D. cbn [fst snd]. auto.
  Qed.

  Section OStep.
    Variable gen : cgstate -> list ast -> res (cgstate * list node).
    Hypothesis Hgen : ogen gen.
    Hypothesis Hok : gen_ok gen.

    Lemma opre_R s s' ns : opre (cg_r s) -> R s s' ns -> opre (cg_r s').
    Proof. intros [Hk Hc] (K' & Hc' & _). split; [exact K'|lia]. Qed.

    Lemma ofor_loop v b1 b2 : subl b1 b2 -> kcleanl b2 = true -> forall n k s1 s2, ost s1 s2 -> opre (cg_r s1) ->
      res_rel ogrel (for_loop gen n k v b1 s1) (for_loop gen n k v b2 s2).
    Proof.
      intros Hb Hf. induction n as [|n IH]; intros k s1 s2 H Hp; cbn [for_loop].
      - apply ogrel_same; auto.
      - apply oseq; [apply oscoped_id; auto|]. intros sa na sb E Hab. apply IH; auto.
        eapply opre_R; [exact Hp|]. eapply (scoped_R gen Hok); [| |exact E]; [|apply Hp].
        intros r r' pns Ep. inversion Ep; subst. split; [apply benign_refl|reflexivity].
    Qed.

    Lemma ogen_one s1 s2 a1 a2 : ost s1 s2 -> opre (cg_r s1) -> sub a1 a2 -> kclean a2 = true ->
      res_rel ogrel (gen_one w gen s1 a1) (gen_one w gen s2 a2).
    Proof.
      intros H Hp Ha Hf. pose proof H as (Hr & Hm & Ht). pose proof (os_x _ _ Hr) as Hx.
      destruct a2; cbn [kclean] in Hf.
      - (* ABlock *) destruct (sub_block_inv _ _ _ Ha) as [(b1 & -> & Hb)|(q & fi0 & stmts & f0 & -> & Hq & Hb)]; cbn [gen_one].
        + apply Hgen; auto.
        + assert (Hkq : K q = true) by (destruct (K q) eqn:E; [reflexivity|rewrite (C_off q E) in Hq; discriminate]).
          rewrite (value_for_k _ _ q (stmts, f0) Hr Hp Hkq Hq). cbn [fst snd]. apply Hgen; auto.
      - (* ACompound *) destruct (sub_compound_inv _ _ _ Ha) as (b1 & -> & Hb). cbn [gen_one]. apply oscoped_id; auto.
      - (* ALabel *) inversion Ha; subst. apply ogrel_same; auto.
      - (* AText *) inversion Ha; subst. cbn [gen_one]. rewrite (get_table_x _ _ _ Hx).
        apply res_rel_bind_same; intros t _. apply ogrel_same; auto.
      - (* AAscii *) inversion Ha; subst. apply ogrel_same; auto.
      - (* AScope *) destruct (sub_scope_inv _ _ _ _ _ Ha) as (b1 & -> & Hb). cbn [gen_one]. apply oscoped_id; auto.
      - (* AStarEq *) inversion Ha; subst. apply ogrel_same; auto.
      - (* AAtEq *) inversion Ha; subst. apply ogrel_same; auto.
      - (* AMap *) inversion Ha; subst. cbn [gen_one].
        pose proof (generate_map_x _ _ _ args Hx) as HG.
        destruct (generate_map (cg_r s1) args) as [ra| |] eqn:G1, (generate_map (cg_r s2) args) as [rb| |] eqn:G2;
          cbn [res_rel] in HG; try contradiction; cbn [bind res_rel]; auto.
        split; [|reflexivity]. cbn [fst]. apply ost_set; auto.
        eapply ostr_same_scopes; [apply (generate_map_scopes _ _ _ G1)|apply (generate_map_scopes _ _ _ G2)|exact HG|exact Hr].
      - (* AIf *) destruct (sub_if_inv _ _ _ _ _ _ Ha) as (th1 & el1 & -> & Hth & Hel). cbn [gen_one].
        apply andb_prop in Hf as [Hf Hfe]. apply andb_prop in Hf as [Hfc Hft].
        unfold if_condition. rewrite (eval_raw_n _ _ _ c Hfc Hx).
        destruct (eval_raw w (cg_r s2) c) as [v|[]|]; cbn [bind res_rel]; auto;
          try (destruct Hel as [|eb1 eb2 efi Heb]; [apply ogrel_same; auto|apply Hgen; auto]).
        destruct (negb (v =? 0)); [apply Hgen; auto|].
        destruct Hel as [|eb1 eb2 efi Heb]; [apply ogrel_same; auto|apply Hgen; auto].
      - (* AMacro *) inversion Ha; subst. cbn [gen_one res_rel]. split; [|reflexivity]. cbn [fst].
        refine (conj Hr (conj _ _)); cbn [cg_macros]; [rewrite Hm; reflexivity|].
        intros name' md' Hn' Hg'. destruct (str_eqb name' name) eqn:E.
        + apply str_eqb_eq in E. subst name'. rewrite dict_get_set_same in Hg'. inversion Hg'; subst md'. cbn [md_params md_body].
          rewrite Hn' in Hf. cbn [negb orb] in Hf. apply andb_prop in Hf. exact Hf.
        + rewrite (dict_get_set_other _ _ _ _ E) in Hg'. eapply Ht; eauto.
      - (* AMacroApply *) destruct (sub_apply_inv _ _ _ _ Ha) as (args1 & -> & Hargs). cbn [gen_one].
        apply andb_prop in Hf as [HT Hfa]. rewrite Hm.
        destruct (dict_get (cg_macros s2) name) as [md|] eqn:Eg; [|reflexivity].
        destruct (Ht name md HT Eg) as [Hpk Hbk].
        eapply res_rel_bind; [apply (eval_macro_args_o _ _ _ Hx (md_params md) args1 args); auto|].
        intros bs1 bs2 Hbs. apply oscoped; auto using subl_refl.
        intros ra rb Hab Hka Hca.
        destruct (bind_macro_args_o bs1 bs2 Hbs ra rb Hab Hka Hca) as [A B].
        destruct (bind_macro_args ra bs1) as [ra' na] eqn:EB. cbn [fst snd] in *.
        destruct (bind_macro_args_benign _ _ _ _ EB) as [Hben _].
        refine (conj A (conj _ (conj _ B))); [eapply MacroCode.cg_ok_benign; eauto|apply Hben].
      - (* AData *) inversion Ha; subst. apply ogrel_same; auto.
      - (* ATable *) inversion Ha; subst. cbn [gen_one]. apply res_rel_bind_same; intros t _. apply ogrel_same.
        apply ost_set; auto. apply ostr_set_table; auto.
      - (* AIncludeIps *) inversion Ha; subst. cbn [gen_one]. rewrite (eval_raw_n _ _ _ e Hf Hx).
        apply res_rel_bind_same; intros delta _. apply res_rel_bind_same; intros blocks _. apply ogrel_same; auto.
      - (* AIncbin *) inversion Ha; subst. cbn [gen_one]. apply res_rel_bind_same; intros c _. apply ogrel_same; auto.
      - (* ASymbol *) inversion Ha; subst. apply ogrel_same; auto.
      - (* AAssign *) inversion Ha; subst. cbn [gen_one]. apply andb_prop in Hf as [Hn He].
        rewrite (eval_raw_n _ _ _ e He Hx). apply res_rel_bind_same; intros v _. apply ogrel_same.
        apply ost_set; auto. apply ostr_add_symbol; auto. destruct (K name); [discriminate|reflexivity].
      - (* ACodeLookup *) inversion Ha; subst. cbn [gen_one].
        assert (Hq : K name = false) by (destruct (K name); [discriminate|reflexivity]).
        destruct (value_for_n _ _ _ name Hq Hx) as [E|(b1 & f1 & b2 & f2 & E1 & E2 & (_ & Hb & Hbk))].
        + rewrite E. destruct (value_for (cg_r s2) name) as [[x|body bfi]|k|] eqn:E2; try reflexivity.
          apply Hgen; auto using subl_refl. eapply value_for_fuel_cc; [apply (os_codes _ _ Hr)|exact E2].
        + rewrite E1, E2. cbn [fst] in *. apply Hgen; auto.
      - (* AStruct *) inversion Ha; subst. reflexivity.
      - (* AFor *) destruct (sub_for_inv _ _ _ _ _ _ _ Ha) as (b1 & -> & Hb). cbn [gen_one].
        apply andb_prop in Hf as [Hf Hfb]. apply andb_prop in Hf as [Hlo Hhi].
        rewrite (eval_raw_n _ _ _ lo Hlo Hx), (eval_raw_n _ _ _ hi Hhi Hx).
        apply res_rel_bind_same; intros from _. apply res_rel_bind_same; intros to _.
        apply ofor_loop; auto.
      - (* AOpcode *) inversion Ha; subst. cbn [gen_one].
        destruct mode; try (apply ogrel_same; auto; fail);
          (destruct operand as [e|]; [apply ogrel_same; auto|reflexivity]).
    Qed.

    Lemma ogen_list b1 b2 : subl b1 b2 -> kcleanl b2 = true -> forall s1 s2, ost s1 s2 -> opre (cg_r s1) ->
      res_rel ogrel (gen_list w gen s1 b1) (gen_list w gen s2 b2).
    Proof.
      induction 1 as [|a1 a2 l1 l2 Ha Hl IH]; intros Hf s1 s2 H Hp; cbn [gen_list].
      - apply ogrel_same; auto.
      - unfold kcleanl in Hf. cbn [forallb] in Hf. apply andb_prop in Hf as [Hfa Hfl].
        apply (oseq _ _ (fun s => gen_list w gen s l1) (fun s => gen_list w gen s l2)).
        + apply ogen_one; auto.
        + intros sa na sb E Hab. apply IH; auto.
          eapply opre_R; [exact Hp|]. eapply gen_one_R; eauto. apply Hp.
    Qed.
  End OStep.

  Theorem code_gen_open fuel : ogen (code_gen_fuel w fuel).
  Proof.
    induction fuel as [|f IH]; intros s1 s2 b1 b2 H Hp Hb Hf; cbn [code_gen_fuel]; [reflexivity|].
    apply ogen_list; auto. apply code_gen_replay.
  Qed.
  (** ** Code generation after [j] has been left: nothing in [j, hi) is ever looked at again *)
  Section Dead.
    Variable hi : nat.
    Hypothesis Hjh : (j < hi)%nat.

    Record dstr (r1 r2 : rstate) : Prop := {
      ds_x : xrel hi r1 r2;
      ds_len : (hi <= length (r_scopes r1))%nat;
      ds_chain : chain_out hi (r_scopes r1)
    }.
    Definition dst (s1 s2 : cgstate) : Prop := dstr (cg_r s1) (cg_r s2) /\ cg_macros s1 = cg_macros s2.
    Definition dpre (r : rstate) : Prop := cg_ok r /\ (r_cur r < j \/ hi <= r_cur r)%nat.
    Definition dgrel (x y : cgstate * list node) : Prop := dst (fst x) (fst y) /\ snd x = snd y.
    Definition dgen (gen : cgstate -> list ast -> res (cgstate * list node)) : Prop :=
      forall s1 s2 b, dst s1 s2 -> dpre (cg_r s1) -> res_rel dgrel (gen s1 b) (gen s2 b).

    Lemma chain_out_upd sc k f : (forall s, s_parent (f s) = s_parent s) -> chain_out hi sc -> chain_out hi (list_update sc k f).
    Proof.
      intros Hf H i s p Hn Hp. rewrite nth_list_update in Hn. destruct (Nat.eqb k i).
      - destruct (nth_error sc i) as [s0|] eqn:E; cbn [option_map] in Hn; [|discriminate]. inversion Hn; subst.
        rewrite Hf in Hp. eapply H; eauto.
      - eapply H; eauto.
    Qed.
    Lemma chain_out_app sc cur k : (cur < length sc)%nat -> (cur < j \/ hi <= cur)%nat -> chain_out hi sc ->
      chain_out hi (sc ++ [new_scope (Some cur) k]).
    Proof.
      intros Hc Ho H i s p Hn Hp. destruct (Nat.lt_ge_cases i (length sc)) as [L|G].
      - rewrite nth_error_app1 in Hn by lia. eapply H; eauto.
      - rewrite nth_error_app2 in Hn by lia. destruct (i - length sc)%nat as [|[|d]] eqn:E; cbn [nth_error] in Hn; try discriminate.
        inversion Hn; subst. cbn [new_scope s_parent] in Hp. inversion Hp; subst. split; [lia|intros _; exact Ho].
    Qed.

    Lemma value_for_d r1 r2 q : dstr r1 r2 -> dpre r1 -> value_for r1 q = value_for r2 q.
    Proof.
      intros [Hx _ Hch] [_ Hc]. unfold value_for. rewrite <- (xr_cur _ _ _ Hx).
      eapply value_for_fuel_d; eauto. apply (xr_scopes _ _ _ Hx).
    Qed.
    Lemma eval_raw_d r1 r2 e : dstr r1 r2 -> dpre r1 -> eval_raw w r1 e = eval_raw w r2 e.
    Proof.
      intros H Hp. unfold eval_raw. apply eval_expression_congr. apply Forall_forall. intros t _ _.
      unfold env_of. rewrite (value_for_d r1 r2 (en_val t) H Hp). reflexivity.
    Qed.

    Lemma dstr_upd r1 r2 f : (forall s, s_parent (f s) = s_parent s) ->
      xrel hi (upd_scope r1 (r_cur r1) f) (upd_scope r2 (r_cur r2) f) ->
      dstr r1 r2 -> dstr (upd_scope r1 (r_cur r1) f) (upd_scope r2 (r_cur r2) f).
    Proof.
      intros Hp Hx [_ Hl Hch]. constructor; cbn [upd_scope set_scopes r_scopes]; rewrite ?list_update_length; auto.
      apply chain_out_upd; auto.
    Qed.
    Lemma dstr_add_symbol r1 r2 n v : dstr r1 r2 -> dstr (add_symbol r1 n v) (add_symbol r2 n v).
    Proof. intros H. apply (dstr_upd r1 r2 (scope_add_symbol n v)); auto. apply xrel_add_symbol, (ds_x _ _ H). Qed.
    Lemma dstr_set_table r1 r2 t : dstr r1 r2 ->
      dstr (upd_scope r1 (r_cur r1) (scope_set_table t)) (upd_scope r2 (r_cur r2) (scope_set_table t)).
    Proof. intros H. apply (dstr_upd r1 r2 (scope_set_table t)); auto. apply xrel_set_table, (ds_x _ _ H). Qed.
    Lemma dstr_add_code r1 r2 q c : (r_cur r1 < j \/ hi <= r_cur r1)%nat -> dstr r1 r2 -> dstr (add_code r1 q c) (add_code r2 q c).
    Proof.
      intros Hc H. apply (dstr_upd r1 r2 (scope_add_code q c)); auto. apply xrel_add_code_out; auto. apply (ds_x _ _ H).
    Qed.
    Lemma dstr_same_scopes r1 r2 ra rb : r_scopes ra = r_scopes r1 -> xrel hi ra rb -> dstr r1 r2 -> dstr ra rb.
    Proof. intros E1 Hx [_ Hl Hch]. constructor; rewrite ?E1; auto. Qed.
    Lemma dstr_entered r1 r2 k : dpre r1 -> dstr r1 r2 -> dstr (entered r1 k) (entered r2 k).
    Proof.
      intros [[K1 K2 K3] Hc] [Hx Hl Hch]. constructor; cbn [entered set_cur_last set_scopes r_scopes]; rewrite ?app_length; cbn [length].
      - apply xrel_entered_dead; auto.
      - lia.
      - apply chain_out_app; auto.
    Qed.

    Lemma eval_macro_args_d r1 r2 : dstr r1 r2 -> dpre r1 -> forall ps args,
      eval_macro_args w r1 ps args = eval_macro_args w r2 ps args.
    Proof.
      intros H Hp. induction ps as [|p ps IH]; intros args; cbn [eval_macro_args]; [reflexivity|].
      destruct args as [|a rest]; [reflexivity|]. rewrite IH. destruct a as [e|[body fi]]; [|reflexivity].
      rewrite (eval_raw_d r1 r2 e H Hp). reflexivity.
    Qed.
    Lemma bind_macro_args_d bs : forall r1 r2, dstr r1 r2 -> dpre r1 ->
      dstr (fst (bind_macro_args r1 bs)) (fst (bind_macro_args r2 bs)) /\
      snd (bind_macro_args r1 bs) = snd (bind_macro_args r2 bs).
    Proof.
      induction bs as [|[p v] bs IH]; intros r1 r2 H Hp; cbn [bind_macro_args]; [auto|].
      destruct v as [x|body fi|e].
      - apply IH; auto using dstr_add_symbol. destruct Hp as [Hk Hc]. split; [|exact Hc].
        eapply MacroCode.cg_ok_benign; [exact Hk|]. apply benign_upd. reflexivity.
      - apply IH; [apply dstr_add_code; auto; apply Hp|]. destruct Hp as [Hk Hc]. split; [|exact Hc].
        eapply MacroCode.cg_ok_benign; [exact Hk|]. apply benign_upd. reflexivity.
      - destruct (IH r1 r2 H Hp) as (A & B).
        destruct (bind_macro_args r1 bs) as [ra na], (bind_macro_args r2 bs) as [rb nb].
        cbn [fst snd] in *. subst nb. auto.
    Qed.

    Lemma dst_set s1 s2 ra rb : dst s1 s2 -> dstr ra rb -> dst (cg_set_r s1 ra) (cg_set_r s2 rb).
    Proof. intros (_ & Hm) Hr. exact (conj Hr Hm). Qed.
    Lemma dgrel_same s1 s2 ns : dst s1 s2 -> res_rel dgrel (Ok (s1, ns)) (Ok (s2, ns)).
    Proof. intros H. split; auto. Qed.

    Lemma dseq (A1 A2 : res (cgstate * list node)) (B1 B2 : cgstate -> res (cgstate * list node)) :
      res_rel dgrel A1 A2 ->
      (forall sa na sb, A1 = Ok (sa, na) -> dst sa sb -> res_rel dgrel (B1 sa) (B2 sb)) ->
      res_rel dgrel (do x <- A1; do y <- B1 (fst x); Ok (fst y, snd x ++ snd y))
                    (do x <- A2; do y <- B2 (fst x); Ok (fst y, snd x ++ snd y)).
    Proof.
      intros HA HB. destruct A1 as [[sa na]| |], A2 as [[sb nb]| |]; cbn [res_rel] in HA; try contradiction;
        cbn [bind res_rel fst snd]; auto.
      destruct HA as [Hs Hn]. cbn [fst snd] in Hs, Hn. subst nb.
      eapply res_rel_bind; [apply (HB sa na sb eq_refl Hs)|].
      intros [sa' na'] [sb' nb'] [Hs' Hn']. cbn [fst snd] in *. subst nb'. split; cbn [fst snd]; auto.
    Qed.

    Lemma dscoped gen k s1 s2 pre b :
      dgen gen -> dst s1 s2 -> dpre (cg_r s1) ->
      (forall ra rb, dstr ra rb -> dpre ra ->
         dstr (fst (pre ra)) (fst (pre rb)) /\ dpre (fst (pre ra)) /\ snd (pre ra) = snd (pre rb)) ->
      res_rel dgrel (scoped gen k s1 pre b) (scoped gen k s2 pre b).
    Proof.
      intros Hgen (Hr & Hm) Hp Hpre. unfold scoped. pose proof Hp as [Hk Hc].
      destruct (enter_x _ _ _ k Hk (ds_x _ _ Hr)) as [E1 E2]. rewrite E1, E2. cbn [bind].
      pose proof (dstr_entered _ _ k Hp Hr) as Hra.
      assert (Hpa : dpre (entered (cg_r s1) k)).
      { split; [apply (MacroCode.cg_ok_enter _ _ _ Hk E1)|]. cbn [entered set_cur_last r_cur]. right. apply (ds_len _ _ Hr). }
      destruct (Hpre _ _ Hra Hpa) as (P1 & P2 & P3).
      destruct (pre (entered (cg_r s1) k)) as [ra2 pn1], (pre (entered (cg_r s2) k)) as [rb2 pn2]. cbn [fst snd] in *. subst pn2.
      eapply res_rel_bind; [apply Hgen; [exact (conj P1 Hm)|exact P2]|].
      intros [sa na] [sb nb] [(Hr' & Hm') Hn]. cbn [fst snd] in *. subst nb.
      pose proof (restore_x _ _ _ (ds_x _ _ Hr')) as HR.
      destruct (restore_scope (cg_r sa) false) as [r3a| |] eqn:R1, (restore_scope (cg_r sb) false) as [r3b| |];
        cbn [res_rel] in HR; try contradiction; cbn [bind res_rel]; auto.
      split; cbn [fst snd]; [|reflexivity]. refine (conj _ Hm'). cbn [cg_set_r cg_r].
      eapply dstr_same_scopes; [apply (restore_false_scopes _ _ R1)|exact HR|exact Hr'].
    Qed.
    Lemma dscoped_id gen k s1 s2 ns0 b :
      dgen gen -> dst s1 s2 -> dpre (cg_r s1) ->
      res_rel dgrel (scoped gen k s1 (fun r => (r, ns0)) b) (scoped gen k s2 (fun r => (r, ns0)) b).
    Proof.
      intros Hgen H Hp. apply (dscoped gen k s1 s2 (fun r => (r, ns0)) b Hgen H Hp).
      intros ra rb A B. cbn [fst snd]. auto.
    Qed.

    Section DStep.
      Variable gen : cgstate -> list ast -> res (cgstate * list node).
      Hypothesis Hgen : dgen gen.
      Hypothesis Hok : gen_ok gen.

      Lemma dpre_R s s' ns : dpre (cg_r s) -> R s s' ns -> dpre (cg_r s').
      Proof. intros [Hk Hc] (K' & Hc' & _). split; [exact K'|rewrite Hc'; exact Hc]. Qed.

      Lemma dfor_loop v b : forall n k s1 s2, dst s1 s2 -> dpre (cg_r s1) ->
        res_rel dgrel (for_loop gen n k v b s1) (for_loop gen n k v b s2).
      Proof.
        induction n as [|n IH]; intros k s1 s2 H Hp; cbn [for_loop].
        - apply dgrel_same; auto.
        - apply dseq; [apply dscoped_id; auto|]. intros sa na sb E Hab. apply IH; auto.
          eapply dpre_R; [exact Hp|]. eapply (scoped_R gen Hok); [| |exact E]; [|apply Hp].
          intros r r' pns Ep. inversion Ep; subst. split; [apply benign_refl|reflexivity].
      Qed.

      Lemma dgen_one s1 s2 a : dst s1 s2 -> dpre (cg_r s1) -> res_rel dgrel (gen_one w gen s1 a) (gen_one w gen s2 a).
      Proof.
        intros H Hp. pose proof H as (Hr & Hm). pose proof (ds_x _ _ Hr) as Hx.
        destruct a; cbn [gen_one].
        - apply Hgen; auto.
        - apply dscoped_id; auto.
        - apply dgrel_same; auto.
        - rewrite (get_table_x _ _ _ Hx). apply res_rel_bind_same; intros t _. apply dgrel_same; auto.
        - apply dgrel_same; auto.
        - apply dscoped_id; auto.
        - apply dgrel_same; auto.
        - apply dgrel_same; auto.
        - pose proof (generate_map_x _ _ _ args Hx) as HG.
          destruct (generate_map (cg_r s1) args) as [ra| |] eqn:G1, (generate_map (cg_r s2) args) as [rb| |];
            cbn [res_rel] in HG; try contradiction; cbn [bind res_rel]; auto.
          split; [|reflexivity]. cbn [fst]. apply dst_set; auto.
          eapply dstr_same_scopes; [apply (generate_map_scopes _ _ _ G1)|exact HG|exact Hr].
        - unfold if_condition. rewrite (eval_raw_d _ _ c Hr Hp).
          destruct (eval_raw w (cg_r s2) c) as [v|[]|]; cbn [bind res_rel]; auto;
            try (destruct el as [[eb ebfi]|]; [apply Hgen; auto|apply dgrel_same; auto]).
          destruct (negb (v =? 0)); [apply Hgen; auto|].
          destruct el as [[eb ebfi]|]; [apply Hgen; auto|apply dgrel_same; auto].
        - cbn [res_rel]. split; [|reflexivity]. cbn [fst]. refine (conj Hr _). cbn [cg_macros]. rewrite Hm. reflexivity.
        - rewrite Hm. destruct (dict_get (cg_macros s2) name) as [md|]; [|reflexivity].
          rewrite (eval_macro_args_d _ _ Hr Hp). apply res_rel_bind_same; intros bound _.
          apply dscoped; auto. intros ra rb Hab Hpa.
          destruct (bind_macro_args_d bound ra rb Hab Hpa) as [A B].
          destruct (bind_macro_args ra bound) as [ra' na] eqn:EB. cbn [fst snd] in *.
          destruct (bind_macro_args_benign _ _ _ _ EB) as [(B1 & B2) _].
          refine (conj A (conj _ B)). destruct Hpa as [Hk Hc]. split; [|rewrite B1; exact Hc].
          eapply MacroCode.cg_ok_benign; eauto. apply (bind_macro_args_benign _ _ _ _ EB).
        - apply dgrel_same; auto.
        - apply res_rel_bind_same; intros t _. apply dgrel_same. apply dst_set; auto. apply dstr_set_table; auto.
        - rewrite (eval_raw_d _ _ e Hr Hp). apply res_rel_bind_same; intros delta _.
          apply res_rel_bind_same; intros blocks _. apply dgrel_same; auto.
        - apply res_rel_bind_same; intros c _. apply dgrel_same; auto.
        - apply dgrel_same; auto.
        - rewrite (eval_raw_d _ _ e Hr Hp). apply res_rel_bind_same; intros v _. apply dgrel_same.
          apply dst_set; auto. apply dstr_add_symbol; auto.
        - rewrite (value_for_d _ _ name Hr Hp).
          destruct (value_for (cg_r s2) name) as [[x|body bfi]|k|]; try reflexivity. apply Hgen; auto.
        - reflexivity.
        - rewrite (eval_raw_d _ _ lo Hr Hp), (eval_raw_d _ _ hi0 Hr Hp).
          apply res_rel_bind_same; intros from _. apply res_rel_bind_same; intros to _. apply dfor_loop; auto.
        - destruct mode; try (apply dgrel_same; auto; fail);
            (destruct operand as [e|]; [apply dgrel_same; auto|reflexivity]).
      Qed.

      Lemma dgen_list b : forall s1 s2, dst s1 s2 -> dpre (cg_r s1) ->
        res_rel dgrel (gen_list w gen s1 b) (gen_list w gen s2 b).
      Proof.
        induction b as [|a rest IH]; intros s1 s2 H Hp; cbn [gen_list].
        - apply dgrel_same; auto.
        - apply (dseq _ _ (fun s => gen_list w gen s rest) (fun s => gen_list w gen s rest)).
          + apply dgen_one; auto.
          + intros sa na sb E Hab. apply IH; auto.
            eapply dpre_R; [exact Hp|]. eapply gen_one_R; eauto. apply Hp.
      Qed.
    End DStep.

    Theorem code_gen_dead fuel : dgen (code_gen_fuel w fuel).
    Proof.
      induction fuel as [|f IH]; intros s1 s2 b H Hp; cbn [code_gen_fuel]; [reflexivity|].
      apply dgen_list; auto. apply code_gen_replay.
    Qed.
  End Dead.
  (** ** For the passes: the difference splits into "scope j has extra code keys in K" (which the
      passes do not see when no expression uses a name of K) and "stored blocks differ" (which the
      passes never see) *)
  Definition with_code (c : dict cval) (s : scope) : scope :=
    {| s_parent := s_parent s; s_kind := s_kind s; s_symbols := s_symbols s; s_code := c;
       s_labels := s_labels s; s_table := s_table s |}.
  Definition recode (c : dict cval) (r : rstate) : rstate := set_scopes r (list_update (r_scopes r) j (with_code c)).

  Lemma pointwise_Forall2 {A B} (Q : A -> B -> Prop) l1 : forall l2,
    (forall i, match nth_error l1 i, nth_error l2 i with
               | Some a, Some b => Q a b
               | None, None => True
               | _, _ => False
               end) -> Forall2 Q l1 l2.
  Proof.
    induction l1 as [|a l1 IH]; intros [|b l2] H.
    - constructor.
    - specialize (H O). cbn in H. contradiction.
    - specialize (H O). cbn in H. contradiction.
    - constructor; [apply (H O)|]. apply IH. intros i. apply (H (S i)).
  Qed.

  Lemma cdict_true_refl d : cdict (fun _ _ => True) d d.
  Proof. induction d; constructor; auto. Qed.
  Lemma cdict_true_of d1 d2 : cdict V d1 d2 -> cdict (fun _ _ => True) d1 d2.
  Proof. induction 1 as [|x y d1 d2 [E _] H IH]; constructor; auto. Qed.

  Lemma xrel_passes hi r1 r2 : (j < hi)%nat -> xrel hi r1 r2 ->
    MacroCode.crel K j r1 (recode [] r1) /\ cvrel (fun _ _ => True) (recode [] r1) r2.
  Proof.
    intros Hjh H. split.
    - constructor; try reflexivity. cbn [recode set_scopes r_scopes]. intros i. rewrite nth_list_update.
      pose proof (xrel_nth _ _ _ i H) as Hi.
      destruct (Nat.eqb_spec j i) as [<-|N].
      + destruct (nth_error (r_scopes r1) j) as [a|]; cbn [option_map]; auto.
        destruct (nth_error (r_scopes r2) j) as [b|]; [|contradiction].
        destruct (xs_at _ _ _ _ Hi eq_refl) as [Ea _].
        split; [intros X; contradiction|]. repeat split; cbn [with_code s_parent s_kind s_symbols s_labels s_table s_code]; auto.
        intros q Hq. rewrite Ea, (C_off q Hq). reflexivity.
      + destruct (nth_error (r_scopes r1) i) as [a|]; auto.
        split; [reflexivity|]. repeat split.
    - destruct H. constructor; cbn [recode set_scopes r_scopes r_cur r_last r_pc r_reloc r_bus r_rom]; auto.
      apply pointwise_Forall2. intros i. rewrite nth_list_update. specialize (xr_scopes0 i).
      destruct (nth_error (r_scopes r1) i) as [a|], (nth_error (r_scopes r2) i) as [b|];
        try (destruct (Nat.eqb j i); cbn [option_map]; auto; fail).
      destruct xr_scopes0.
      destruct (Nat.eqb_spec j i) as [<-|N]; cbn [option_map].
      + destruct (xs_at0 eq_refl) as [_ Eb]. constructor; cbn [with_code s_parent s_kind s_symbols s_labels s_table s_code]; auto.
        rewrite Eb. constructor.
      + constructor; auto.
        destruct (lt_dec j i) as [Lj|]; [destruct (lt_dec i hi) as [Lh|]|].
        * apply cdict_true_of. apply xs_under0. lia.
        * rewrite xs_out0 by lia. apply cdict_true_refl.
        * rewrite xs_out0 by lia. apply cdict_true_refl.
  Qed.
End NS.

(** ** The application and its fully substituted twin *)
Lemma list_update_twice {A} (l : list A) k f g : list_update (list_update l k f) k g = list_update l k (fun x => g (f x)).
Proof. revert k; induction l as [|x l IH]; intros [|k]; cbn [list_update]; auto. rewrite IH. reflexivity. Qed.
Lemma list_update_ext {A} (l : list A) k f g : (forall x, f x = g x) -> list_update l k f = list_update l k g.
Proof. intros H. revert k; induction l as [|x l IH]; intros [|k]; cbn [list_update]; auto; [rewrite H|rewrite IH]; reflexivity. Qed.
Lemma list_update_fix {A} (l : list A) k f x : nth_error l k = Some x -> f x = x -> list_update l k f = l.
Proof.
  revert k; induction l as [|y l IH]; intros [|k]; cbn [list_update nth_error]; try discriminate.
  - intros E Hf. inversion E; subst. rewrite Hf. reflexivity.
  - intros E Hf. rewrite (IH k E Hf). reflexivity.
Qed.

Lemma code_names_off cbs q : MacroCode.code_names cbs q = false -> dict_get (MacroCode.code_of cbs) q = None.
Proof. unfold MacroCode.code_names, dict_mem. destruct (dict_get _ q); [discriminate|reflexivity]. Qed.

Lemma recode_add_symbol j c r p v : r_cur r = j -> add_symbol (recode j c r) p v = recode j c (add_symbol r p v).
Proof.
  intros Hc. unfold add_symbol, upd_scope, recode, set_scopes. cbn [r_scopes r_cur r_last r_pc r_reloc r_bus r_rom].
  rewrite Hc, !list_update_twice. f_equal; try (apply list_update_ext; intros ?; reflexivity).
Qed.
Lemma recode_add_code j c r p x : r_cur r = j -> add_code (recode j c r) p x = recode j (dict_set c p x) r.
Proof.
  intros Hc. unfold add_code, upd_scope, recode, set_scopes. cbn [r_scopes r_cur r_last r_pc r_reloc r_bus r_rom].
  rewrite Hc, list_update_twice. f_equal; try (apply list_update_ext; intros ?; reflexivity).
Qed.

Lemma fold_recode j cbs : forall r c, r_cur r = j ->
  MacroCode.bind_fold (recode j c r) cbs = recode j (fold_left MacroCode.code_step cbs c) (MacroCode.int_fold2 r cbs).
Proof.
  induction cbs as [|[p b] cbs IH]; intros r c Hc; [reflexivity|].
  destruct b as [v lit|stmts fi].
  - change (MacroCode.bind_fold (recode j c r) ((p, MacroCode.CInt v lit) :: cbs))
      with (MacroCode.bind_fold (add_symbol (recode j c r) p v) cbs).
    change (MacroCode.int_fold2 r ((p, MacroCode.CInt v lit) :: cbs)) with (MacroCode.int_fold2 (add_symbol r p v) cbs).
    change (fold_left MacroCode.code_step ((p, MacroCode.CInt v lit) :: cbs) c) with (fold_left MacroCode.code_step cbs c).
    rewrite (recode_add_symbol j c r p v Hc). apply IH. exact Hc.
  - change (MacroCode.bind_fold (recode j c r) ((p, MacroCode.CCode stmts fi) :: cbs))
      with (MacroCode.bind_fold (add_code (recode j c r) p (stmts, fi)) cbs).
    change (MacroCode.int_fold2 r ((p, MacroCode.CCode stmts fi) :: cbs)) with (MacroCode.int_fold2 r cbs).
    change (fold_left MacroCode.code_step ((p, MacroCode.CCode stmts fi) :: cbs) c)
      with (fold_left MacroCode.code_step cbs (dict_set c p (stmts, fi))).
    rewrite (recode_add_code j c r p (stmts, fi) Hc). apply IH. exact Hc.
Qed.

Lemma int_fold2_codes cbs : forall r, map s_code (r_scopes (MacroCode.int_fold2 r cbs)) = map s_code (r_scopes r).
Proof.
  induction cbs as [|[p b] cbs IH]; intros r; [reflexivity|]. unfold MacroCode.int_fold2. cbn [fold_left fst snd].
  destruct b as [v lit|stmts fi].
  - fold (MacroCode.int_fold2 (add_symbol r p v) cbs). rewrite IH. unfold add_symbol, upd_scope. cbn [set_scopes r_scopes].
    rewrite (map_list_update s_code _ (fun x => x)) by reflexivity. apply list_update_id.
  - apply IH.
Qed.
Lemma int_fold2_cur cbs : forall r, r_cur (MacroCode.int_fold2 r cbs) = r_cur r.
Proof.
  induction cbs as [|[p b] cbs IH]; intros r; [reflexivity|]. unfold MacroCode.int_fold2. cbn [fold_left fst snd].
  destruct b; [fold (MacroCode.int_fold2 (add_symbol r p v) cbs); rewrite IH; reflexivity|apply IH].
Qed.

Lemma enter_ok r k : cg_ok r -> enter_scope r k = Ok (entered r k).
Proof.
  intros [K1 K2 K3]. unfold enter_scope, use_next_scope, append_scope, entered. cbn [set_scopes r_scopes r_last].
  rewrite K1, nth_error_app2 by lia. rewrite Nat.sub_diag. reflexivity.
Qed.

Lemma int_fold2_cc K T cbs : forall r, codes_clean K T r -> codes_clean K T (MacroCode.int_fold2 r cbs).
Proof.
  induction cbs as [|[p b] cbs IH]; intros r H; [exact H|]. unfold MacroCode.int_fold2. cbn [fold_left fst snd].
  destruct b as [v lit|stmts fi]; [|apply IH; exact H].
  fold (MacroCode.int_fold2 (add_symbol r p v) cbs). apply IH. apply cc_upd; auto.
Qed.

(** the states right after the parameters are bound *)
Lemma start_ostr K T cbs r :
  let j := length (r_scopes r) in
  cg_ok r -> codes_clean K T r ->
  (forall q, K q = false -> dict_get (MacroCode.code_of cbs) q = None) ->
  ostr K j (MacroCode.code_of cbs) T (MacroCode.bind_fold (entered r SPlain) cbs) (MacroCode.int_fold2 (entered r SPlain) cbs).
Proof.
  intros j Hk Hcc Hoff. set (ra := entered r SPlain). set (r2 := MacroCode.int_fold2 ra cbs).
  assert (Hcur : r_cur ra = j) by reflexivity.
  assert (Hnth : nth_error (r_scopes ra) j = Some (new_scope (Some (r_cur r)) SPlain)).
  { cbn [ra entered set_cur_last set_scopes r_scopes]. rewrite nth_error_app2 by (unfold j; lia).
    unfold j. rewrite Nat.sub_diag. reflexivity. }
  assert (Hra : ra = recode j [] ra).
  { unfold recode. rewrite (list_update_fix _ j _ _ Hnth) by reflexivity. reflexivity. }
  assert (E1 : MacroCode.bind_fold ra cbs = recode j (MacroCode.code_of cbs) r2).
  { rewrite Hra at 1. apply fold_recode. exact Hcur. }
  assert (Hcodes : map s_code (r_scopes r2) = map s_code (r_scopes ra)) by apply int_fold2_codes.
  assert (Hlen : length (r_scopes r2) = S j).
  { rewrite <- (map_length s_code), Hcodes, map_length. cbn [ra entered set_cur_last set_scopes r_scopes].
    rewrite app_length. cbn [length]. unfold j. lia. }
  assert (Hj2 : exists s2, nth_error (r_scopes r2) j = Some s2 /\ s_code s2 = []).
  { assert (X : nth_error (map s_code (r_scopes r2)) j = Some []).
    { rewrite Hcodes, nth_error_map, Hnth. reflexivity. }
    rewrite nth_error_map in X. destruct (nth_error (r_scopes r2) j) as [s2|]; cbn [option_map] in X; [|discriminate].
    inversion X. eauto. }
  destruct Hj2 as (s2 & Hs2 & Hc2).
  rewrite E1. constructor; cbn [recode set_scopes r_scopes]; rewrite ?list_update_length, ?Hlen.
  - constructor; cbn [recode set_scopes r_scopes r_cur r_last r_pc r_reloc r_bus r_rom]; auto.
    intros i. rewrite nth_list_update. destruct (Nat.eqb_spec j i) as [<-|N].
    + rewrite Hs2. cbn [option_map]. constructor; cbn [with_code s_parent s_kind s_symbols s_labels s_table s_code]; auto.
      * intros Hx; exfalso; clear - Hx; lia.
      * intros Hx; exfalso; clear - Hx; lia.
    + destruct (nth_error (r_scopes r2) i) as [a|] eqn:Ea; [|exact I].
      assert (i < S j)%nat by (rewrite <- Hlen; apply nth_error_Some; congruence).
      constructor; auto.
      * intros Hx; exfalso; clear - Hx N; lia.
      * intros Hx; exfalso; clear - Hx H N; lia.
  - lia.
  - intros i s Hn Hi. rewrite nth_list_update in Hn. exfalso.
    assert (i < S j)%nat.
    { rewrite <- Hlen. destruct (Nat.eqb j i); [destruct (nth_error (r_scopes r2) i) eqn:E; [apply nth_error_Some; congruence|discriminate]|apply nth_error_Some; congruence]. }
    lia.
  - intros i s q Hn Hi. rewrite nth_list_update in Hn. exfalso.
    assert (i < S j)%nat.
    { rewrite <- Hlen. destruct (Nat.eqb j i); [destruct (nth_error (r_scopes r2) i) eqn:E; [apply nth_error_Some; congruence|discriminate]|apply nth_error_Some; congruence]. }
    lia.
  - apply int_fold2_cc. apply cc_entered. exact Hcc.
Qed.

Theorem macro_code_nested w T f s name args fi fi' fi'' md cbs body2 :
  let K := MacroCode.code_names cbs in
  let C := MacroCode.code_of cbs in
  let j := length (r_scopes (cg_r s)) in
  cg_ok (cg_r s) ->
  dict_get (cg_macros s) name = Some md ->
  eval_macro_args w (cg_r s) (md_params md) args = Ok (MacroCode.cbound cbs) ->
  MacroCode.clits_closed w cbs ->
  subl C (md_body md) body2 -> kcleanl K T body2 = true ->
  codes_clean K T (cg_r s) -> tinv K T (cg_macros s) ->
  res_rel (fun x y => snd x = snd y /\
                      exists hi, (j < hi)%nat /\ dst K j C T hi (fst x) (fst y) /\ dpre j hi (cg_r (fst x)))
          (gen_one w (code_gen_fuel w (S f)) s (AMacroApply name args fi))
          (gen_one w (code_gen_fuel w (S f)) s (ACompound (MacroCode.cstmts cbs fi'' ++ body2) fi')).
Proof.
  intros K C j Hk Hmd Hargs Hlits Hbody Hclean Hcc Htab.
  pose proof (gen_one_R w _ (code_gen_replay w (S f)) s (AMacroApply name args fi)) as HR.
  assert (Hoff : forall q, K q = false -> dict_get C q = None) by (intros q; apply code_names_off).
  assert (H0 : res_rel (fun x y => snd x = snd y /\ xrel K j C T (length (r_scopes (cg_r (fst x)))) (cg_r (fst x)) (cg_r (fst y)) /\
                                   cg_macros (fst x) = cg_macros (fst y) /\ (j < length (r_scopes (cg_r (fst x))))%nat)
            (gen_one w (code_gen_fuel w (S f)) s (AMacroApply name args fi))
            (gen_one w (code_gen_fuel w (S f)) s (ACompound (MacroCode.cstmts cbs fi'' ++ body2) fi'))).
  { cbn [gen_one]. rewrite Hmd, Hargs. cbn [bind]. unfold scoped.
    pose proof (enter_ok (cg_r s) SPlain Hk) as E.
    rewrite E. cbn [bind]. rewrite MacroCode.bind_cb. cbn [code_gen_fuel]. rewrite gen_list_app.
    rewrite (MacroCode.gen_cstmts w _ fi'' cbs (cg_set_r s (entered (cg_r s) SPlain)) Hlits).
    cbn [bind fst snd cg_set_r cg_r cg_macros].
    change (gen_list w (code_gen_fuel w f)) with (code_gen_fuel w (S f)).
    pose proof (start_ostr K T cbs (cg_r s) Hk Hcc Hoff) as Hst. fold C j in Hst.
    assert (Hpre : opre j (MacroCode.bind_fold (entered (cg_r s) SPlain) cbs)).
    { split; [|rewrite MacroCode.bind_fold_cur; cbn [entered set_cur_last r_cur]; unfold j; lia].
      eapply MacroCode.cg_ok_benign; [apply (MacroCode.cg_ok_enter _ _ _ Hk E)|].
      apply (bind_macro_args_benign (MacroCode.cbound cbs) _ _ [] (MacroCode.bind_cb cbs _)). }
    pose proof (code_gen_open w K j C T Hoff (S f)
                  {| cg_r := MacroCode.bind_fold (entered (cg_r s) SPlain) cbs; cg_macros := cg_macros s |}
                  {| cg_r := MacroCode.int_fold2 (entered (cg_r s) SPlain) cbs; cg_macros := cg_macros s |}
                  (md_body md) body2 (conj Hst (conj eq_refl Htab)) Hpre Hbody Hclean) as HP.
    unfold cg_set_r. cbn [cg_macros cg_r].
    destruct (code_gen_fuel w (S f) {| cg_r := MacroCode.bind_fold (entered (cg_r s) SPlain) cbs; cg_macros := cg_macros s |} (md_body md)) as [[sa na]| |],
             (code_gen_fuel w (S f) {| cg_r := MacroCode.int_fold2 (entered (cg_r s) SPlain) cbs; cg_macros := cg_macros s |} body2) as [[sb nb]| |];
      cbn [res_rel] in HP; try contradiction; cbn [bind fst snd app res_rel]; auto.
    destruct HP as [(Hr' & Hm' & Ht') Hn]. cbn [fst snd] in *. subst nb.
    pose proof (restore_x K j C T _ _ _ (os_x _ _ _ _ _ _ Hr')) as HRs.
    destruct (restore_scope (cg_r sa) false) as [r3a| |] eqn:R1, (restore_scope (cg_r sb) false) as [r3b| |];
      cbn [res_rel] in HRs; try contradiction; cbn [bind res_rel]; auto.
    cbn [fst snd cg_set_r cg_r cg_macros]. rewrite (restore_false_scopes _ _ R1).
    refine (conj eq_refl (conj HRs (conj Hm' _))). apply (os_j _ _ _ _ _ _ Hr'). }
  destruct (gen_one w (code_gen_fuel w (S f)) s (AMacroApply name args fi)) as [[sa na]| |],
           (gen_one w (code_gen_fuel w (S f)) s (ACompound (MacroCode.cstmts cbs fi'' ++ body2) fi')) as [[sb nb]| |];
    cbn [res_rel] in *; auto.
  destruct H0 as (Hn & Hx & Hm & Hj). cbn [fst snd] in *. split; [exact Hn|].
  destruct (HR sa na Hk eq_refl) as (K' & Hc & Hxt & _).
  exists (length (r_scopes (cg_r sa))). split; [exact Hj|]. split.
  - split; [|exact Hm]. constructor; auto. intros i s0 p Hn0 Hp. split; [apply (ck_wf _ K' _ _ _ Hn0 Hp)|].
    intros Hge. exfalso. assert (i < length (r_scopes (cg_r sa)))%nat by (apply nth_error_Some; congruence). lia.
  - split; [exact K'|]. left. rewrite Hc. destruct Hk as [K1 K2 K3]. exact K2.
Qed.

(** ** In a program, followed by the passes *)
Theorem macro_code_nested_from w T f s before after name args fi fi' fi'' md cbs body2 :
  let K := MacroCode.code_names cbs in
  let C := MacroCode.code_of cbs in
  cg_ok (cg_r s) ->
  (forall s' ns', code_gen_fuel w (S (S f)) s before = Ok (s', ns') ->
     dict_get (cg_macros s') name = Some md /\
     eval_macro_args w (cg_r s') (md_params md) args = Ok (MacroCode.cbound cbs) /\
     codes_clean K T (cg_r s') /\ tinv K T (cg_macros s')) ->
  MacroCode.clits_closed w cbs ->
  subl C (md_body md) body2 -> kcleanl K T body2 = true ->
  (forall sF ns, code_gen_fuel w (S (S f)) s (before ++ [AMacroApply name args fi] ++ after) = Ok (sF, ns) ->
     MacroCode.nodes_kfree K ns = true) ->
  res_rel (fun o1 o2 => o_blocks o1 = o_blocks o2 /\ o_labels o1 = o_labels o2)
    (assemble_at w (S (S f)) s (before ++ [AMacroApply name args fi] ++ after))
    (assemble_at w (S (S f)) s (before ++ [ACompound (MacroCode.cstmts cbs fi'' ++ body2) fi'] ++ after)).
Proof.
  intros K C Hk Hdef Hlits Hbody Hclean Hfree. unfold assemble_at.
  assert (Hoff : forall q, K q = false -> dict_get C q = None) by (intros q; apply code_names_off).
  pose proof (gen_list_R w _ (code_gen_replay w (S f)) before s) as HRb.
  change (code_gen_fuel w (S (S f))) with (gen_list w (code_gen_fuel w (S f))) in *.
  rewrite !gen_list_middle in *.
  destruct (gen_list w (code_gen_fuel w (S f)) s before) as [[s1 n1]| |]; cbn [bind fst snd res_rel] in *; auto.
  destruct (Hdef s1 n1 eq_refl) as (Hmd & Hargs & Hcc & Htab).
  destruct (HRb s1 n1 Hk eq_refl) as (Hk1 & _).
  pose proof (macro_code_nested w T f s1 name args fi fi' fi'' md cbs body2 Hk1 Hmd Hargs Hlits Hbody Hclean Hcc Htab) as HA.
  cbv zeta in HA. fold K C in HA. set (j := length (r_scopes (cg_r s1))) in *.
  destruct (gen_one w (code_gen_fuel w (S f)) s1 (AMacroApply name args fi)) as [[sa na]| |],
           (gen_one w (code_gen_fuel w (S f)) s1 (ACompound (MacroCode.cstmts cbs fi'' ++ body2) fi')) as [[sb nb]| |];
    cbn [res_rel] in HA; try contradiction; cbn [bind fst snd res_rel] in *; auto.
  destruct HA as (Hn & hi & Hjh & Hst & Hpre). cbn [fst snd] in Hn, Hst, Hpre. subst nb.
  pose proof (code_gen_dead w K j C T Hoff hi Hjh (S (S f)) sa sb after Hst Hpre) as HB.
  change (code_gen_fuel w (S (S f))) with (gen_list w (code_gen_fuel w (S f))) in HB.
  destruct (gen_list w (code_gen_fuel w (S f)) sa after) as [[sa' na']| |],
           (gen_list w (code_gen_fuel w (S f)) sb after) as [[sb' nb']| |];
    cbn [res_rel] in HB; try contradiction; cbn [bind fst snd res_rel] in *; auto.
  destruct HB as [(Hr' & _) Hn']. cbn [fst snd] in Hr', Hn'. subst nb'.
  destruct (xrel_passes K j C T Hoff hi _ _ Hjh (ds_x _ _ _ _ _ _ _ Hr')) as [P1 P2].
  pose proof (MacroCode.assemble_nodes_c w K j _ _ _ (Hfree _ _ eq_refl) P1) as H1.
  pose proof (assemble_nodes_cv w (fun _ _ => True) (n1 ++ na ++ na') _ _ P2) as H2.
  pose proof (res_rel_trans _ _ _ _ _ H1 H2) as H3.
  eapply res_rel_impl; [|exact H3].
  intros o1 o3 (o2 & (A1 & B1 & _) & (A2 & B2 & _)). split; congruence.
Qed.

(** C09, code-block arguments, nested: the program with the application and the program with the
    fully substituted block fail with the same kind of error or give the same writer blocks and
    labels. *)
Theorem macro_code_nested_assembly w T r before after name args fi fi' fi'' md cbs body2 :
  let K := MacroCode.code_names cbs in
  let C := MacroCode.code_of cbs in
  cg_ok r ->
  (forall s' ns', code_gen_fuel w cg_depth {| cg_r := r; cg_macros := [] |} before = Ok (s', ns') ->
     dict_get (cg_macros s') name = Some md /\
     eval_macro_args w (cg_r s') (md_params md) args = Ok (MacroCode.cbound cbs) /\
     codes_clean K T (cg_r s') /\ tinv K T (cg_macros s')) ->
  MacroCode.clits_closed w cbs ->
  subl C (md_body md) body2 -> kcleanl K T body2 = true ->
  (forall sF ns, code_gen_fuel w cg_depth {| cg_r := r; cg_macros := [] |}
                   (before ++ [AMacroApply name args fi] ++ after) = Ok (sF, ns) ->
     MacroCode.nodes_kfree K ns = true) ->
  match assemble_ast w r (before ++ [AMacroApply name args fi] ++ after),
        assemble_ast w r (before ++ [ACompound (MacroCode.cstmts cbs fi'' ++ body2) fi'] ++ after) with
  | Ok o1, Ok o2 => o_blocks o1 = o_blocks o2 /\ o_labels o1 = o_labels o2
  | Err j, Err k => j = k
  | OutOfFuel, OutOfFuel => True
  | _, _ => False
  end.
Proof.
  intros K C Hk Hdef Hlits Hbody Hclean Hfree. rewrite !assemble_ast_at.
  pose proof (macro_code_nested_from w T 298 {| cg_r := r; cg_macros := [] |} before after name args fi fi' fi'' md cbs body2
                Hk Hdef Hlits Hbody Hclean Hfree) as H.
  destruct (assemble_at w (S (S 298)) _ (before ++ [AMacroApply name args fi] ++ after)),
           (assemble_at w (S (S 298)) _ (before ++ [ACompound (MacroCode.cstmts cbs fi'' ++ body2) fi'] ++ after));
    cbn [res_rel] in H; auto.
Qed.

(** ** Examples (world of [NIExamples]) *)
Module NestedExamples.
  Import NonInterference.NIExamples DeferredArgs.DeferredExamples.
  Notation c_ := [99]. Notation d_ := [100]. Notation e_ := [101].
  Notation tw := [116; 119]. Notation ou := [111; 117]. Notation td := [116; 100].
  Definition num (c : Z) : expr := [{| en_kind := EK_term; en_tok := mk_token T_NUMBER [c] |}].

  (** .macro tw(c) { {{c}} {{c}} }   .macro ou(d) { tw({ .db 1 {{d}} }) }   *=0x8000   ou({ .db 2 })   e: *)
  Definition twice_def := AMacro tw [c_] [ACodeLookup c_ fi; ACodeLookup c_ fi] fi fi.
  Definition outer_body := [AMacroApply tw [inr ([AData D_db [num 49] fi; ACodeLookup d_ fi], fi)] fi].
  Definition outer_def := AMacro ou [d_] outer_body fi fi.
  Definition before_ := [twice_def; outer_def; AStarEq num8000 fi].
  Definition app_ := AMacroApply ou [inr ([AData D_db [num 50] fi], fi)] fi.
  Definition after_ := [ALabel e_ fi].
  (** the twin of [ou({ .db 2 })]:  { tw({ .db 1 { .db 2 } }) }  — the splice of [d] inside the block
      handed on to [tw] is substituted; [tw] may be applied while the scope is open *)
  Definition cbs : list (str * MacroCode.cbind) := [(d_, MacroCode.CCode [AData D_db [num 50] fi] fi)].
  Definition body2 := [AMacroApply tw [inr ([AData D_db [num 49] fi; ABlock [AData D_db [num 50] fi] fi], fi)] fi].
  Definition T_ (n : str) : bool := str_eqb n tw.
  Definition md_ := {| md_params := [d_]; md_body := outer_body |}.

  Example body_sub : subl (MacroCode.code_of cbs) outer_body body2.
  Proof.
    constructor; [|constructor]. apply sb_apply. apply sa_code; [|constructor].
    constructor; [apply sb_same|]. constructor; [|constructor].
    apply (sb_splice _ d_ fi fi [AData D_db [num 50] fi] fi); [reflexivity|apply subl_refl].
  Qed.

  Example nested_inline :
    match assemble_ast ex_world ex_r0 (before_ ++ [app_] ++ after_),
          assemble_ast ex_world ex_r0 (before_ ++ [ACompound (MacroCode.cstmts cbs fi ++ body2) fi] ++ after_) with
    | Ok o1, Ok o2 => o_blocks o1 = o_blocks o2 /\ o_labels o1 = o_labels o2
    | Err j, Err k => j = k
    | OutOfFuel, OutOfFuel => True
    | _, _ => False
    end.
  Proof.
    apply (macro_code_nested_assembly ex_world T_ ex_r0 before_ after_ ou _ fi fi fi md_ cbs body2).
    - exact MacroInlineExamples.cg_ok_r0.
    - intros s' ns' H. vm_compute in H. inversion H; subst. split; [reflexivity|]. split; [reflexivity|]. split.
      + repeat constructor.
      + intros name md HT Hg. unfold T_ in HT. apply str_eqb_eq in HT. subst name.
        vm_compute in Hg. inversion Hg; subst. split; reflexivity.
    - repeat constructor.
    - exact body_sub.
    - reflexivity.
    - intros sF ns H. vm_compute in H. inversion H; subst. reflexivity.
  Qed.
  Example nested_values :
    view (assemble_ast ex_world ex_r0 (before_ ++ [app_] ++ after_)) = Ok ([([1; 2; 1; 2], 0)], [(e_, 32772)]) /\
    view (assemble_ast ex_world ex_r0 (before_ ++ [ACompound (MacroCode.cstmts cbs fi ++ body2) fi] ++ after_))
      = Ok ([([1; 2; 1; 2], 0)], [(e_, 32772)]).
  Proof. split; vm_compute; reflexivity. Qed.

  (** the side condition is needed: a nested application whose macro has a code parameter with the
      SAME name rebinds it, so the spliced {{d}} inside the block handed on refers to the block
      itself (unbounded expansion), while the syntactic substitution terminates:
      .macro td(d) { {{d}} }   .macro ou(d) { td({ {{d}} }) }   ou({ .db 2 }) *)
  Definition td_def := AMacro td [d_] [ACodeLookup d_ fi] fi fi.
  Definition outer_body3 := [AMacroApply td [inr ([ACodeLookup d_ fi], fi)] fi].
  Definition before3 := [td_def; AMacro ou [d_] outer_body3 fi fi; AStarEq num8000 fi].
  Definition body3 := [AMacroApply td [inr ([ABlock [AData D_db [num 50] fi] fi], fi)] fi].
  Example rebinding_violates_tinv :
    ~ tinv (MacroCode.code_names cbs) (fun n => str_eqb n td) [(td, {| md_params := [d_]; md_body := [ACodeLookup d_ fi] |})].
  Proof. intros H. destruct (H td _ eq_refl eq_refl) as [A _]. discriminate A. Qed.
  Example rebinding_values :
    view (assemble_ast ex_world ex_r0 (before3 ++ [app_] ++ [])) = Err ERecursion /\
    view (assemble_ast ex_world ex_r0 (before3 ++ [ACompound (MacroCode.cstmts cbs fi ++ body3) fi] ++ [])) = Ok ([([2], 0)], []).
  Proof. split; vm_compute; reflexivity. Qed.
End NestedExamples.

Print Assumptions code_gen_open.
Print Assumptions code_gen_dead.
Print Assumptions macro_code_nested.
Print Assumptions macro_code_nested_assembly.
