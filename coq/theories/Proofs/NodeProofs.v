(** Per-node lemmas: data packing (C07), predicted size = emitted size (C02), relative
    branches (C05). *)
From Coq Require Import ZArith List Lia Bool ZifyBool.
From A816 Require Import Model.Nodes Spec.BusLaws Proofs.BitLemmas Proofs.BusProofs.
Open Scope Z_scope.
Ltac Zify.zify_post_hook ::= Z.to_euclidean_division_equations.

(** ** Little-endian packing *)
Lemma le_bytes_length n v : length (le_bytes n v) = n.
Proof. revert v; induction n as [|n IH]; intros v; cbn [le_bytes length]; [reflexivity|now rewrite IH]. Qed.

Lemma le_bytes_1 v : le_bytes 1 v = [v mod 256].
Proof. reflexivity. Qed.
Lemma le_bytes_2 v : le_bytes 2 v = [v mod 256; (v / 256) mod 256].
Proof. reflexivity. Qed.
Lemma le_bytes_3 v : le_bytes 3 v = [v mod 256; (v / 256) mod 256; (v / 256 / 256) mod 256].
Proof. reflexivity. Qed.

(** [le_bytes] only looks at the value modulo 256^n (so masking first changes nothing). *)
Lemma le_bytes_mod n v : le_bytes n (v mod 256 ^ Z.of_nat n) = le_bytes n v.
Proof.
  revert v; induction n as [|n IH]; intros v; [reflexivity|].
  assert (HM : 0 < 256 ^ Z.of_nat n) by (apply Z.pow_pos_nonneg; lia).
  cbn [le_bytes]. rewrite Nat2Z.inj_succ, Z.pow_succ_r by lia.
  set (M := 256 ^ Z.of_nat n) in *.
  rewrite (Z.rem_mul_r v 256 M) by lia.
  f_equal.
  - rewrite Z.mul_comm, Z.mod_add by lia. apply Z.mod_mod; lia.
  - rewrite <- (IH (v / 256)). f_equal. fold M.
    rewrite Z.mul_comm, Z.div_add by lia.
    rewrite (Z.div_small (v mod 256)) by (apply Z.mod_pos_bound; lia). reflexivity.
Qed.

Lemma le_bytes_byte_ok n v : Forall (fun b => 0 <= b < 256) (le_bytes n v).
Proof.
  revert v; induction n as [|n IH]; intros v; cbn [le_bytes]; constructor; [|apply IH].
  apply Z.mod_pos_bound; lia.
Qed.

(** ** C07 — data directives: the exact little-endian bytes of the value, truncated to the field *)
Definition dkind_nat (k : dkind) : nat := match k with D_db => 1 | D_dw => 2 | D_dl | D_pointer => 3 end.

Lemma data_bytes_le k v : data_bytes k v = le_bytes (dkind_nat k) v.
Proof.
  destruct k; cbn [data_bytes dkind_nat].
  - rewrite land_255. reflexivity.
  - rewrite land_65535. change 65536 with (256 ^ Z.of_nat 2). apply le_bytes_mod.
  - rewrite land_65535, land_255, shiftr16.
    change 65536 with (256 ^ Z.of_nat 2) at 1. rewrite le_bytes_mod.
    rewrite le_bytes_2, le_bytes_3. cbn [app]. do 3 f_equal. rewrite Z.div_div by lia. reflexivity.
  - rewrite land_65535, land_255, shiftr16.
    change 65536 with (256 ^ Z.of_nat 2) at 1. rewrite le_bytes_mod.
    rewrite le_bytes_2, le_bytes_3. cbn [app]. do 3 f_equal. rewrite Z.div_div by lia. reflexivity.
Qed.

Theorem data_bytes_spec k v :
  data_bytes k v = le_bytes (dkind_nat k) (v mod 256 ^ Z.of_nat (dkind_nat k)) /\
  Z.of_nat (length (data_bytes k v)) = dkind_len k.
Proof.
  split.
  - rewrite le_bytes_mod. apply data_bytes_le.
  - rewrite data_bytes_le, le_bytes_length. destruct k; reflexivity.
Qed.

(** The truncated value is read back exactly: decoding the bytes gives v modulo 2^(8k)
    (so negative values appear in two's complement). *)
Lemma le_decode_le_bytes n v : le_decode (le_bytes n v) = v mod 256 ^ Z.of_nat n.
Proof.
  revert v; induction n as [|n IH]; intros v.
  - cbn. rewrite Z.mod_1_r. reflexivity.
  - cbn [le_bytes le_decode]. rewrite IH.
    rewrite Nat2Z.inj_succ, Z.pow_succ_r by lia.
    assert (H : 0 < 256 ^ Z.of_nat n) by (apply Z.pow_pos_nonneg; lia).
    rewrite (Z.rem_mul_r v 256) by lia. lia.
Qed.

Theorem data_bytes_decode k v :
  le_decode (data_bytes k v) = v mod 256 ^ Z.of_nat (dkind_nat k).
Proof. rewrite data_bytes_le. apply le_decode_le_bytes. Qed.

Lemma ascii_bytes_spec s : ascii_bytes s = filter (fun c => c <? 128) s.
Proof. reflexivity. Qed.

(** ** C02 — the size predicted in the label pass equals the number of bytes emitted *)
Lemma emit_value_length v s bs : emit_value v s = Ok bs -> length bs = S (vsize_idx s).
Proof.
  destruct s; cbn [emit_value vsize_idx].
  - intros H; inversion H; reflexivity.
  - intros H; inversion H; reflexivity.
  - destruct (byte_ok _); intros H; inversion H. reflexivity.
Qed.

Lemma pack_B_length b bs : pack_B b = Ok bs -> length bs = 1%nat.
Proof. unfold pack_B. destruct (byte_ok b); intros H; inversion H; reflexivity. Qed.
Lemma pack_b_length b bs : pack_b b = Ok bs -> length bs = 1%nat.
Proof. unfold pack_b. destruct (_ && _); intros H; inversion H; reflexivity. Qed.

Theorem emitter_size_agree e ev size rc bs len :
  emitter_emit e ev size rc = Ok bs -> emitter_length e ev size = Ok len ->
  Z.of_nat (length bs) = len.
Proof.
  destruct e as [b|b|defs]; cbn [emitter_emit emitter_length].
  - intros H L. inversion L. apply pack_B_length in H. rewrite H. reflexivity.
  - destruct ev as [ev|]; [|discriminate]. destruct ev as [v| |]; cbn [bind]; try discriminate.
    destruct (addr_physical _ v) as [[pd|]| |]; cbn [bind]; try discriminate.
    destruct (addr_physical _ (rc_reloc rc)) as [[ph|]| |]; cbn [bind]; try discriminate.
    destruct (pack_B b) as [ob| |] eqn:EB; cbn [bind]; try discriminate.
    destruct (pack_b _) as [db| |] eqn:Eb; cbn [bind]; try discriminate.
    intros H L. inversion H; inversion L. rewrite app_length.
    rewrite (pack_B_length _ _ EB), (pack_b_length _ _ Eb). reflexivity.
  - destruct ev as [ev|]; [|discriminate].
    destruct (guess_size ev size) as [s| |] eqn:G; cbn [bind]; try discriminate.
    destruct (opcode_byte defs s) as [b|]; [|cbn [bind]; discriminate].
    destruct ev as [v| |]; cbn [bind]; try discriminate.
    destruct (emit_value v s) as [operand| |] eqn:EV; cbn [bind]; try discriminate.
    destruct (pack_B b) as [ob| |] eqn:EB; cbn [bind]; try discriminate.
    intros H L. inversion H; inversion L. rewrite app_length.
    rewrite (pack_B_length _ _ EB), (emit_value_length _ _ _ EV).
    destruct s; reflexivity.
Qed.

Lemma rel_emit_length w r b ev bs : rel_emit w r b ev = Ok bs -> length bs = 2%nat.
Proof.
  unfold rel_emit. destruct ev as [ev|]; [|discriminate].
  destruct ev as [v| |]; cbn [bind]; try discriminate.
  destruct (get_bus w r) as [bus| |]; cbn [bind]; try discriminate.
  destruct (mk_addr bus v) as [da| |]; cbn [bind]; try discriminate.
  destruct (addr_phys da) as [[pd|]| |]; cbn [bind]; try discriminate.
  destruct (addr_phys (r_reloc r)) as [[ph|]| |]; cbn [bind]; try discriminate.
  destruct (pack_B b) as [ob| |] eqn:EB; cbn [bind]; try discriminate.
  destruct (pack_b _) as [db| |] eqn:Eb; cbn [bind]; try discriminate.
  intros H; inversion H. rewrite app_length, (pack_B_length _ _ EB), (pack_b_length _ _ Eb). reflexivity.
Qed.

(** Instructions: evaluated in the same resolver state, the length used in the label pass is the
    number of bytes emitted (across states the phase check of Program.emit takes over). *)
Theorem opcode_size_agree w r opcode mode index operand size bs len :
  opcode_emit w r opcode mode index operand size = Ok bs ->
  opcode_length w r opcode mode index operand size = Ok len ->
  Z.of_nat (length bs) = len.
Proof.
  unfold opcode_emit, opcode_length, opnode_length.
  destruct (get_emitter _ _ _ _) as [e| |]; cbn [bind]; try discriminate.
  destruct e as [b|b|defs].
  - apply emitter_size_agree.
  - intros H L. cbn [emitter_length] in L. inversion L. rewrite (rel_emit_length _ _ _ _ _ H). reflexivity.
  - apply emitter_size_agree.
Qed.

(** Every node kind: if the node is sized and emitted in the same state at address [a], the
    address after it is [a] advanced by the number of emitted bytes (or unchanged for a position
    move, whose successor address is the operand itself). *)
Definition is_position (n : node) : bool := match n with NCodePos _ _ | NReloc _ _ => true | _ => false end.

Theorem node_size_agree w r n a r1 a1 r2 bs :
  is_position n = false ->
  pc_after w r n a = Ok (r1, a1) -> node_emit w r n = Ok (r2, bs) ->
  match bs with
  | [] => a1 = a \/ addr_plus a 0 = Ok a1
  | _ => addr_plus a (Z.of_nat (length bs)) = Ok a1
  end.
Proof.
  intros Hpos. destruct n; cbn [pc_after node_emit is_position] in *; try discriminate.
  - intros H1 H2; inversion H1; inversion H2; subst. left; reflexivity.
  - destruct (eval_raw _ _ _); cbn [bind]; try discriminate.
    intros H1 H2; inversion H1; inversion H2; subst. left; reflexivity.
  - intros H1 H2; inversion H1; inversion H2; subst. left; reflexivity.
  - destruct (addr_plus a _) as [a'| |] eqn:E; cbn [bind]; try discriminate.
    intros H1 H2; inversion H1; inversion H2; subst.
    destruct bs; [right|]; exact E.
  - destruct (addr_plus a _) as [a'| |] eqn:E; cbn [bind]; try discriminate.
    destruct (get_value _ _ _) as [v| |]; cbn [bind]; try discriminate.
    intros H1 H2; inversion H1; inversion H2; subst.
    pose proof (proj2 (data_bytes_spec k v)) as L.
    destruct (data_bytes k v) eqn:D; [destruct k; discriminate|]. rewrite L. exact E.
  - destruct (opcode_length _ _ _ _ _ _ _) as [len| |] eqn:L; cbn [bind]; try discriminate.
    destruct (addr_plus a len) as [a'| |] eqn:E; cbn [bind]; try discriminate.
    destruct (opcode_emit _ _ _ _ _ _ _) as [bs'| |] eqn:EM; cbn [bind]; try discriminate.
    intros H1 H2; inversion H1; inversion H2; subst.
    rewrite <- (opcode_size_agree _ _ _ _ _ _ _ _ _ EM L) in E.
    destruct bs; [right|]; exact E.
  - intros H1 H2; inversion H1; inversion H2; subst. left; reflexivity.
  - destruct (use_next_scope r); cbn [bind]; try discriminate.
    intros H1 H2; inversion H1; inversion H2; subst. left; reflexivity.
  - destruct (restore_scope r true); cbn [bind]; try discriminate.
    destruct (restore_scope r false); cbn [bind]; try discriminate.
    intros H1 H2; inversion H1; inversion H2; subst. left; reflexivity.
  - intros H1 H2; inversion H1; inversion H2; subst. left; reflexivity.
  - destruct enc as [bs0| |]; cbn [bind]; try discriminate.
    destruct (addr_plus a _) as [a'| |] eqn:E; cbn [bind]; try discriminate.
    intros H1 H2; inversion H1; inversion H2; subst.
    destruct bs; [right|]; exact E.
  - destruct (addr_plus a _) as [a'| |] eqn:E; cbn [bind]; try discriminate.
    intros H1 H2; inversion H1; inversion H2; subst.
    destruct (ascii_bytes text); [right|]; exact E.
Qed.
