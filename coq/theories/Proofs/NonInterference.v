(** C08 (non-interference half) — adding a definition of an unreferenced name inside any scope
    does not change the output.

    [d] is a zero-size definition node that always succeeds ([NLabel z] or [NSymConst z k]).  It is
    inserted anywhere in a node list none of whose expressions mentions a z-derived name ([z]
    itself or a qualified [scope.z], [outer.scope.z], ... — the names the export of named scopes
    derives from [z]).  Then [assemble_nodes] gives the same writer blocks, the same error kind
    when it fails, and the same labels up to z-derived names.

    The proof is a simulation: the two runs go through resolver states that are equal except for
    dictionary entries under z-derived keys. *)
From Coq Require Import ZArith List Lia Bool Arith.
From A816 Require Import Model.Program Proofs.BusProofs Proofs.ResolverProofs Proofs.ProgramProofs
     Proofs.EvalCongr.
Open Scope Z_scope.

(** ** Results related componentwise (same error kind on failure) *)
Definition res_rel {A B} (R : A -> B -> Prop) (x : res A) (y : res B) : Prop :=
  match x, y with
  | Ok a, Ok b => R a b
  | Err j, Err k => j = k
  | OutOfFuel, OutOfFuel => True
  | _, _ => False
  end.

Lemma res_rel_bind {A B A' B'} (R : A -> B -> Prop) (S : A' -> B' -> Prop) x y f g :
  res_rel R x y -> (forall a b, R a b -> res_rel S (f a) (g b)) -> res_rel S (bind x f) (bind y g).
Proof. destruct x, y; cbn [res_rel bind]; intros H1 H2; auto; try contradiction. Qed.

Lemma res_rel_bind_same {A A' B'} (S : A' -> B' -> Prop) (x : res A) f g :
  (forall a, x = Ok a -> res_rel S (f a) (g a)) -> res_rel S (bind x f) (bind x g).
Proof. destruct x; cbn [res_rel bind]; intros H; auto. Qed.

Lemma res_rel_impl {A B} (R S : A -> B -> Prop) x y :
  (forall a b, R a b -> S a b) -> res_rel R x y -> res_rel S x y.
Proof. destruct x, y; cbn [res_rel]; auto. Qed.

(** ** Lists *)
Lemma Forall2_nth_error {A B} (R : A -> B -> Prop) l1 l2 : Forall2 R l1 l2 -> forall i,
  match nth_error l1 i, nth_error l2 i with
  | Some a, Some b => R a b
  | None, None => True
  | _, _ => False
  end.
Proof.
  induction 1 as [|a b l1 l2 Hab H IH]; intros [|i]; cbn [nth_error]; auto.
  apply IH.
Qed.

Lemma Forall2_list_update {A B} (R : A -> B -> Prop) f g l1 l2 i :
  (forall a b, R a b -> R (f a) (g b)) -> Forall2 R l1 l2 ->
  Forall2 R (list_update l1 i f) (list_update l2 i g).
Proof.
  intros Hfg H; revert i; induction H as [|a b l1 l2 Hab H IH]; intros [|i]; cbn [list_update];
    constructor; auto.
Qed.

Lemma Forall2_list_update_l {A B} (R : A -> B -> Prop) f l1 l2 i :
  (forall a b, R a b -> R (f a) b) -> Forall2 R l1 l2 -> Forall2 R (list_update l1 i f) l2.
Proof.
  intros Hf H; revert i; induction H as [|a b l1 l2 Hab H IH]; intros [|i]; cbn [list_update];
    constructor; auto.
Qed.

Section NI.
  (** The inserted name. *)
  Variable z : str.

  (** ** z-derived names *)
  Definition K (n : str) : Prop := n = z \/ exists p, n = p ++ dot ++ z.

  Fixpoint suffixb (s n : str) : bool :=
    str_eqb n s || match n with [] => false | _ :: n' => suffixb s n' end.
  Definition inK (n : str) : bool := str_eqb n z || suffixb (dot ++ z) n.

  Lemma suffixb_spec s n : suffixb s n = true <-> exists p, n = p ++ s.
  Proof.
    induction n as [|c n IH]; cbn [suffixb].
    - rewrite orb_false_r, str_eqb_eq. split.
      + intros <-. exists []. reflexivity.
      + intros (p & H). symmetry in H. apply app_eq_nil in H. symmetry. apply H.
    - rewrite orb_true_iff, str_eqb_eq, IH. split.
      + intros [<-|(p & ->)]; [exists []; reflexivity|exists (c :: p); reflexivity].
      + intros ([|c' p] & H); [left; exact H|]. right. cbn [app] in H. inversion H. exists p. reflexivity.
  Qed.

  Lemma inK_spec n : inK n = true <-> K n.
  Proof. unfold inK, K. rewrite orb_true_iff, str_eqb_eq, suffixb_spec. reflexivity. Qed.

  (** The closure that makes the simulation go through the export of named scopes. *)
  Lemma K_closed name k : K k -> K (name ++ dot ++ k).
  Proof.
    intros [->|(p & ->)]; right.
    - exists name. reflexivity.
    - exists (name ++ dot ++ p). rewrite <- !app_assoc. reflexivity.
  Qed.
  Lemma inK_closed name k : inK k = true -> inK (name ++ dot ++ k) = true.
  Proof. rewrite !inK_spec. apply K_closed. Qed.

  (** ** Dictionaries up to z-derived keys *)
  Definition keep {V} (kv : str * V) : bool := negb (inK (fst kv)).
  Definition strip {V} (d : dict V) : dict V := filter keep d.

  Lemma strip_set_in {V} (d : dict V) k v : inK k = true -> strip (dict_set d k v) = strip d.
  Proof.
    intros Hk. unfold strip, keep. induction d as [|[k' v'] d IH]; cbn [dict_set filter fst].
    - rewrite Hk. reflexivity.
    - destruct (str_eqb k k') eqn:E.
      + apply str_eqb_eq in E. subst k'. cbn [filter fst]. rewrite Hk. reflexivity.
      + cbn [filter fst]. rewrite IH. reflexivity.
  Qed.

  Lemma strip_set_out {V} (d : dict V) k v :
    inK k = false -> strip (dict_set d k v) = dict_set (strip d) k v.
  Proof.
    intros Hk. unfold strip, keep. induction d as [|[k' v'] d IH]; cbn [dict_set filter fst].
    - rewrite Hk. reflexivity.
    - destruct (str_eqb k k') eqn:E.
      + pose proof E as E'. apply str_eqb_eq in E'. subst k'. cbn [filter fst]. rewrite Hk. cbn [negb dict_set].
        rewrite E. reflexivity.
      + cbn [filter fst]. rewrite IH.
        destruct (negb (inK k')); [cbn [dict_set]; rewrite E|]; reflexivity.
  Qed.

  Lemma strip_get {V} (d : dict V) q : inK q = false -> dict_get (strip d) q = dict_get d q.
  Proof.
    intros Hq. unfold strip, keep. induction d as [|[k' v'] d IH]; cbn [filter fst dict_get]; [reflexivity|].
    destruct (inK k') eqn:Hk; cbn [negb dict_get].
    - destruct (str_eqb q k') eqn:E; [|exact IH]. apply str_eqb_eq in E. congruence.
    - destruct (str_eqb q k'); [reflexivity|exact IH].
  Qed.

  Lemma strip_mem {V} (d1 d2 : dict V) q :
    inK q = false -> strip d1 = strip d2 -> dict_mem d1 q = dict_mem d2 q.
  Proof.
    intros Hq H. unfold dict_mem. rewrite <- (strip_get d1 q Hq), <- (strip_get d2 q Hq), H. reflexivity.
  Qed.

  (** ** The simulation relation *)
  Record ssim (s1 s2 : scope) : Prop := {
    ss_parent : s_parent s1 = s_parent s2;
    ss_kind : s_kind s1 = s_kind s2;
    ss_code : s_code s1 = s_code s2;
    ss_table : s_table s1 = s_table s2;
    ss_sym : strip (s_symbols s1) = strip (s_symbols s2);
    ss_lab : strip (s_labels s1) = strip (s_labels s2)
  }.

  Record sim (r1 r2 : rstate) : Prop := {
    sm_scopes : Forall2 ssim (r_scopes r1) (r_scopes r2);
    sm_cur : r_cur r1 = r_cur r2;
    sm_last : r_last r1 = r_last r2;
    sm_pc : r_pc r1 = r_pc r2;
    sm_reloc : r_reloc r1 = r_reloc r2;
    sm_bus : r_bus r1 = r_bus r2;
    sm_rom : r_rom r1 = r_rom r2
  }.

  Lemma ssim_refl s : ssim s s.
  Proof. constructor; reflexivity. Qed.
  Lemma ssim_trans s1 s2 s3 : ssim s1 s2 -> ssim s2 s3 -> ssim s1 s3.
  Proof. intros [] []; constructor; congruence. Qed.
  Lemma scopes_sim_refl l : Forall2 ssim l l.
  Proof. induction l; constructor; auto using ssim_refl. Qed.
  Lemma sim_refl r : sim r r.
  Proof. constructor; auto using scopes_sim_refl. Qed.

  (** field updates applied to both sides *)
  Lemma sim_set_cur r1 r2 c : sim r1 r2 -> sim (set_cur r1 c) (set_cur r2 c).
  Proof. intros []; constructor; auto. Qed.
  Lemma sim_set_cur_last r1 r2 c l : sim r1 r2 -> sim (set_cur_last r1 c l) (set_cur_last r2 c l).
  Proof. intros []; constructor; auto. Qed.
  Lemma sim_set_pc r1 r2 p : sim r1 r2 -> sim (set_pc r1 p) (set_pc r2 p).
  Proof. intros []; constructor; auto. Qed.
  Lemma sim_set_reloc r1 r2 a : sim r1 r2 -> sim (set_reloc r1 a) (set_reloc r2 a).
  Proof. intros []; constructor; auto. Qed.
  Lemma sim_reset r1 r2 : sim r1 r2 -> sim (resolver_reset r1) (resolver_reset r2).
  Proof. intros H. unfold resolver_reset. apply sim_set_pc, sim_set_cur_last, H. Qed.

  Lemma sim_upd r1 r2 i f g :
    (forall a b, ssim a b -> ssim (f a) (g b)) -> sim r1 r2 -> sim (upd_scope r1 i f) (upd_scope r2 i g).
  Proof.
    intros Hfg []; constructor; auto. cbn [upd_scope set_scopes r_scopes].
    apply Forall2_list_update; auto.
  Qed.
  Lemma sim_upd_l r1 r2 i f :
    (forall a b, ssim a b -> ssim (f a) b) -> sim r1 r2 -> sim (upd_scope r1 i f) r2.
  Proof.
    intros Hf []; constructor; auto. cbn [upd_scope set_scopes r_scopes].
    apply Forall2_list_update_l; auto.
  Qed.

  Lemma strip_set_both {V} (d1 d2 : dict V) k v :
    strip d1 = strip d2 -> strip (dict_set d1 k v) = strip (dict_set d2 k v).
  Proof.
    intros H. destruct (inK k) eqn:E.
    - rewrite !strip_set_in; auto.
    - rewrite !strip_set_out, H; auto.
  Qed.

  (** the same definition on both sides (whatever its name) *)
  Lemma ssim_add_symbol n v a b : ssim a b -> ssim (scope_add_symbol n v a) (scope_add_symbol n v b).
  Proof. intros []; constructor; cbn [scope_add_symbol s_parent s_kind s_code s_table s_symbols s_labels]; auto using strip_set_both. Qed.
  Lemma ssim_add_label n v a b : ssim a b -> ssim (scope_add_label n v a) (scope_add_label n v b).
  Proof. intros []; constructor; cbn [scope_add_label s_parent s_kind s_code s_table s_symbols s_labels]; auto using strip_set_both. Qed.
  Lemma sim_add_symbol r1 r2 n v : sim r1 r2 -> sim (add_symbol r1 n v) (add_symbol r2 n v).
  Proof. intros H. unfold add_symbol. rewrite (sm_cur _ _ H). apply sim_upd; auto using ssim_add_symbol. Qed.
  Lemma sim_add_label r1 r2 n v : sim r1 r2 -> sim (add_label r1 n v) (add_label r2 n v).
  Proof. intros H. unfold add_label. rewrite (sm_cur _ _ H). apply sim_upd; auto using ssim_add_label. Qed.

  (** a z-derived definition on one side only *)
  Lemma ssim_add_symbol_l n v a b : inK n = true -> ssim a b -> ssim (scope_add_symbol n v a) b.
  Proof.
    intros Hn []; constructor; cbn [scope_add_symbol s_parent s_kind s_code s_table s_symbols s_labels]; auto.
    rewrite strip_set_in; auto.
  Qed.
  Lemma ssim_add_label_l n v a b : inK n = true -> ssim a b -> ssim (scope_add_label n v a) b.
  Proof.
    intros Hn []; constructor; cbn [scope_add_label s_parent s_kind s_code s_table s_symbols s_labels]; auto;
      rewrite strip_set_in; auto.
  Qed.
  Lemma sim_add_symbol_l r1 r2 n v : inK n = true -> sim r1 r2 -> sim (add_symbol r1 n v) r2.
  Proof. intros Hn H. unfold add_symbol. apply sim_upd_l; auto using ssim_add_symbol_l. Qed.
  Lemma sim_add_label_l r1 r2 n v : inK n = true -> sim r1 r2 -> sim (add_label r1 n v) r2.
  Proof. intros Hn H. unfold add_label. apply sim_upd_l; auto using ssim_add_label_l. Qed.

  (** ** Lookups of names that are not z-derived agree *)
  Lemma scope_getitem_sim s1 s2 q : inK q = false -> ssim s1 s2 -> scope_getitem s1 q = scope_getitem s2 q.
  Proof.
    intros Hq []. unfold scope_getitem. rewrite ss_code0.
    rewrite <- (strip_get (s_symbols s1) q Hq), <- (strip_get (s_symbols s2) q Hq), ss_sym0. reflexivity.
  Qed.

  Lemma value_for_fuel_sim sc1 sc2 q : inK q = false -> Forall2 ssim sc1 sc2 -> forall fuel i,
    value_for_fuel sc1 fuel i q = value_for_fuel sc2 fuel i q.
  Proof.
    intros Hq H fuel; induction fuel as [|fuel IH]; intros i; [reflexivity|]. cbn [value_for_fuel].
    pose proof (Forall2_nth_error _ _ _ H i) as Hi.
    destruct (nth_error sc1 i) as [s1|], (nth_error sc2 i) as [s2|]; try contradiction; [|reflexivity].
    rewrite (ss_parent _ _ Hi), (ss_code _ _ Hi), (strip_mem _ _ q Hq (ss_sym _ _ Hi)),
      (scope_getitem_sim _ _ q Hq Hi).
    destruct (s_parent s2); [|reflexivity]. rewrite IH. reflexivity.
  Qed.

  Lemma env_of_sim r1 r2 q : inK q = false -> sim r1 r2 -> env_of r1 q = env_of r2 q.
  Proof.
    intros Hq H. unfold env_of, value_for. rewrite (sm_cur _ _ H).
    rewrite (value_for_fuel_sim _ _ q Hq (sm_scopes _ _ H)). reflexivity.
  Qed.

  (** ** Expressions that mention no z-derived name *)
  Definition tok_fresh (t : enode) : bool :=
    match en_type t with T_IDENTIFIER => negb (inK (en_val t)) | _ => true end.
  Definition expr_fresh (e : expr) : bool := forallb tok_fresh e.

  Lemma eval_raw_sim w r1 r2 e : expr_fresh e = true -> sim r1 r2 -> eval_raw w r1 e = eval_raw w r2 e.
  Proof.
    intros He H. unfold eval_raw. apply eval_expression_congr.
    apply Forall_forall. intros t Ht Hty.
    unfold expr_fresh in He. rewrite forallb_forall in He. specialize (He t Ht).
    unfold tok_fresh in He. rewrite Hty in He. apply env_of_sim; auto.
    destruct (inK (en_val t)); [discriminate|reflexivity].
  Qed.
  Lemma get_value_sim w r1 r2 e : expr_fresh e = true -> sim r1 r2 -> get_value w r1 e = get_value w r2 e.
  Proof. intros He H. unfold get_value. rewrite (eval_raw_sim w r1 r2 e He H). reflexivity. Qed.

  Lemma get_bus_sim w r1 r2 : sim r1 r2 -> get_bus w r1 = get_bus w r2.
  Proof. intros H. unfold get_bus. rewrite (sm_bus _ _ H), (sm_rom _ _ H). reflexivity. Qed.

  (** ** Scope moves *)
  Lemma use_next_scope_sim r1 r2 : sim r1 r2 -> res_rel sim (use_next_scope r1) (use_next_scope r2).
  Proof.
    intros H. unfold use_next_scope. rewrite (sm_last _ _ H).
    pose proof (Forall2_nth_error _ _ _ (sm_scopes _ _ H) (S (r_last r2))) as Hi.
    destruct (nth_error (r_scopes r1) _), (nth_error (r_scopes r2) _); try contradiction; cbn [res_rel]; auto.
    apply sim_set_cur_last; auto.
  Qed.

  (** export_into only touches the symbols, by a fold of [dict_set]s *)
  Definition export_step (name : str) (d : dict Z) (kv : str * Z) : dict Z :=
    dict_set d (name ++ dot ++ fst kv) (snd kv).

  Lemma export_into_fields name child : forall parent,
    s_parent (export_into name child parent) = s_parent parent /\
    s_kind (export_into name child parent) = s_kind parent /\
    s_code (export_into name child parent) = s_code parent /\
    s_table (export_into name child parent) = s_table parent /\
    s_labels (export_into name child parent) = s_labels parent /\
    s_symbols (export_into name child parent) = fold_left (export_step name) child (s_symbols parent).
  Proof.
    unfold export_into. induction child as [|kv child IH]; intros parent; [repeat split|].
    exact (IH (scope_add_symbol (name ++ dot ++ fst kv) (snd kv) parent)).
  Qed.

  (** what the fold does on the stripped dictionaries *)
  Definition export_step' (name : str) (d : dict Z) (kv : str * Z) : dict Z :=
    if inK (name ++ dot ++ fst kv) then d else dict_set d (name ++ dot ++ fst kv) (snd kv).

  Lemma strip_export name child : forall d,
    strip (fold_left (export_step name) child d) = fold_left (export_step' name) (strip child) (strip d).
  Proof.
    induction child as [|[k v] child IH]; intros d; cbn [fold_left]; [reflexivity|].
    rewrite IH.
    assert (Hc : strip ((k, v) :: child) = if inK k then strip child else (k, v) :: strip child).
    { unfold strip, keep. cbn [filter fst]. destruct (inK k); reflexivity. }
    assert (Hd : strip (export_step name d (k, v)) =
                 if inK k then strip d else export_step' name (strip d) (k, v)).
    { unfold export_step, export_step'. cbn [fst snd]. destruct (inK k) eqn:Hk.
      - apply strip_set_in. apply inK_closed. exact Hk.
      - destruct (inK (name ++ dot ++ k)) eqn:Hn; [apply strip_set_in|apply strip_set_out]; exact Hn. }
    rewrite Hc, Hd. destruct (inK k); reflexivity.
  Qed.

  Lemma ssim_export name c1 c2 a b :
    strip c1 = strip c2 -> ssim a b -> ssim (export_into name c1 a) (export_into name c2 b).
  Proof.
    intros Hc [].
    destruct (export_into_fields name c1 a) as (A1 & B1 & C1 & D1 & E1 & F1).
    destruct (export_into_fields name c2 b) as (A2 & B2 & C2 & D2 & E2 & F2).
    constructor; try congruence.
    rewrite F1, F2, !strip_export, Hc, ss_sym0. reflexivity.
  Qed.

  Lemma restore_scope_sim r1 r2 e : sim r1 r2 -> res_rel sim (restore_scope r1 e) (restore_scope r2 e).
  Proof.
    intros H. unfold restore_scope. rewrite (sm_cur _ _ H).
    pose proof (Forall2_nth_error _ _ _ (sm_scopes _ _ H) (r_cur r2)) as Hi.
    destruct (nth_error (r_scopes r1) _) as [s1|], (nth_error (r_scopes r2) _) as [s2|]; try contradiction;
      cbn [res_rel]; auto.
    rewrite (ss_parent _ _ Hi), (ss_kind _ _ Hi).
    destruct (s_parent s2) as [p|]; cbn [res_rel]; auto.
    apply sim_set_cur.
    destruct (s_kind s2); auto. destruct e; auto.
    apply sim_upd; auto. intros a b Hab. apply ssim_export; auto. apply (ss_sym _ _ Hi).
  Qed.

  Lemma set_position_sim w r1 r2 v : sim r1 r2 -> res_rel sim (set_position w r1 v) (set_position w r2 v).
  Proof.
    intros H. unfold set_position. rewrite (get_bus_sim w r1 r2 H).
    apply res_rel_bind_same; intros b _. apply res_rel_bind_same; intros a _. apply res_rel_bind_same; intros p _.
    cbn [res_rel]. apply sim_set_reloc. destruct p; auto using sim_set_pc.
  Qed.

  (** ** Nodes whose expressions mention no z-derived name *)
  Definition node_fresh (n : node) : bool :=
    match n with
    | NSymbol _ e _ | NData _ e _ | NCodePos e _ | NReloc e _ => expr_fresh e
    | NOpcode _ _ _ (Some e) _ _ => expr_fresh e
    | _ => true
    end.

  Definition psim {T} (x y : rstate * T) : Prop := sim (fst x) (fst y) /\ snd x = snd y.

  Definition operand_fresh (o : option expr) : bool := match o with Some e => expr_fresh e | None => true end.

  Lemma operand_value_sim w r1 r2 o : operand_fresh o = true -> sim r1 r2 -> operand_value w r1 o = operand_value w r2 o.
  Proof. intros Ho H. destruct o; cbn [operand_value]; [|reflexivity]. rewrite (get_value_sim w r1 r2 e Ho H). reflexivity. Qed.

  Lemma opcode_length_sim w r1 r2 op m i o sz : operand_fresh o = true -> sim r1 r2 ->
    opcode_length w r1 op m i o sz = opcode_length w r2 op m i o sz.
  Proof. intros Ho H. unfold opcode_length. rewrite (operand_value_sim w r1 r2 o Ho H). reflexivity. Qed.

  Lemma opcode_emit_sim w r1 r2 op m i o sz : operand_fresh o = true -> sim r1 r2 ->
    opcode_emit w r1 op m i o sz = opcode_emit w r2 op m i o sz.
  Proof.
    intros Ho H. unfold opcode_emit, rel_emit, dummy_rc.
    rewrite (operand_value_sim w r1 r2 o Ho H), (get_bus_sim w r1 r2 H), (sm_reloc _ _ H), (sm_pc _ _ H).
    reflexivity.
  Qed.

  (** SymbolNode's evaluation scope *)
  Definition eval_scope (r : rstate) (in_parent : bool) : rstate :=
    if in_parent
    then match nth_error (r_scopes r) (r_cur r) with
         | Some s => match s_parent s with Some p => set_cur r p | None => r end
         | None => r
         end
    else r.
  Lemma eval_scope_sim r1 r2 ip : sim r1 r2 -> sim (eval_scope r1 ip) (eval_scope r2 ip).
  Proof.
    intros H. unfold eval_scope. destruct ip; auto. rewrite (sm_cur _ _ H).
    pose proof (Forall2_nth_error _ _ _ (sm_scopes _ _ H) (r_cur r2)) as Hi.
    destruct (nth_error (r_scopes r1) _) as [s1|], (nth_error (r_scopes r2) _) as [s2|]; try contradiction; auto.
    rewrite (ss_parent _ _ Hi). destruct (s_parent s2); auto using sim_set_cur.
  Qed.

  Lemma pc_after_sim w r1 r2 n a : node_fresh n = true -> sim r1 r2 ->
    res_rel psim (pc_after w r1 n a) (pc_after w r2 n a).
  Proof.
    intros Hn H. destruct n; cbn [node_fresh] in Hn.
    - cbn [pc_after res_rel]. split; cbn [fst snd]; auto using sim_add_label.
    - change (res_rel psim (do v <- eval_raw w (eval_scope r1 in_parent) e; Ok (add_symbol r1 name v, a))
                           (do v <- eval_raw w (eval_scope r2 in_parent) e; Ok (add_symbol r2 name v, a))).
      rewrite (eval_raw_sim w _ _ e Hn (eval_scope_sim r1 r2 in_parent H)).
      apply res_rel_bind_same; intros v _. split; cbn [fst snd]; auto using sim_add_symbol.
    - cbn [pc_after res_rel]. split; cbn [fst snd]; auto using sim_add_symbol.
    - cbn [pc_after]. apply res_rel_bind_same; intros a' _. split; cbn [fst snd]; auto using sim_add_symbol, sim_add_label.
    - cbn [pc_after]. apply res_rel_bind_same; intros a' _. split; cbn [fst snd]; auto.
    - cbn [pc_after]. rewrite (opcode_length_sim w r1 r2 opcode mode index operand size); auto.
      apply res_rel_bind_same; intros len _. apply res_rel_bind_same; intros a' _. split; cbn [fst snd]; auto.
    - cbn [pc_after]. rewrite (get_value_sim w r1 r2 e Hn H), (get_bus_sim w r1 r2 H).
      apply res_rel_bind_same; intros v _. apply res_rel_bind_same; intros b _. apply res_rel_bind_same; intros a' _.
      split; cbn [fst snd]; auto.
    - cbn [pc_after]. rewrite (get_value_sim w r1 r2 e Hn H), (get_bus_sim w r1 r2 H).
      apply res_rel_bind_same; intros v _. apply res_rel_bind_same; intros b _. apply res_rel_bind_same; intros a' _.
      split; cbn [fst snd]; auto.
    - cbn [pc_after res_rel]. split; cbn [fst snd]; auto.
    - cbn [pc_after]. eapply res_rel_bind; [apply use_next_scope_sim; exact H|]. intros ra rb Hab. split; cbn [fst snd]; auto.
    - cbn [pc_after]. eapply res_rel_bind; [apply restore_scope_sim; exact H|]. intros ra rb Hab. split; cbn [fst snd]; auto.
    - cbn [pc_after res_rel]. split; cbn [fst snd]; auto.
    - cbn [pc_after]. apply res_rel_bind_same; intros bs _. apply res_rel_bind_same; intros a' _. split; cbn [fst snd]; auto.
    - cbn [pc_after]. apply res_rel_bind_same; intros a' _. split; cbn [fst snd]; auto.
  Qed.

  Lemma node_emit_sim w r1 r2 n : node_fresh n = true -> sim r1 r2 ->
    res_rel psim (node_emit w r1 n) (node_emit w r2 n).
  Proof.
    intros Hn H. destruct n; cbn [node_fresh] in Hn; cbn [node_emit];
      try (cbn [res_rel]; split; cbn [fst snd]; auto; fail).
    - rewrite (get_value_sim w r1 r2 e Hn H). apply res_rel_bind_same; intros v _. split; cbn [fst snd]; auto.
    - rewrite (opcode_emit_sim w r1 r2 opcode mode index operand size); auto.
      apply res_rel_bind_same; intros bs _. split; cbn [fst snd]; auto.
    - rewrite (get_value_sim w r1 r2 e Hn H). apply res_rel_bind_same; intros v _.
      eapply res_rel_bind; [apply set_position_sim; exact H|]. intros ra rb Hab. split; cbn [fst snd]; auto.
    - rewrite (get_value_sim w r1 r2 e Hn H). apply res_rel_bind_same; intros v _.
      eapply res_rel_bind; [apply set_position_sim; exact H|]. intros ra rb Hab. split; cbn [fst snd]; auto.
    - eapply res_rel_bind; [apply use_next_scope_sim; exact H|]. intros ra rb Hab. split; cbn [fst snd]; auto.
    - eapply res_rel_bind; [apply restore_scope_sim; exact H|]. intros ra rb Hab. split; cbn [fst snd]; auto.
    - apply res_rel_bind_same; intros bs _. split; cbn [fst snd]; auto.
  Qed.

  (** ** One emission step *)
  Record esim (s1 s2 : estate) : Prop := {
    es_r : sim (e_r s1) (e_r s2);
    es_block : e_block s1 = e_block s2;
    es_baddr : e_baddr s1 = e_baddr s2;
    es_out : e_out s1 = e_out s2
  }.

  Lemma emit_step_sim w s1 s2 n x : node_fresh n = true -> esim s1 s2 ->
    res_rel esim (emit_step w s1 n x) (emit_step w s2 n x).
  Proof.
    intros Hn [Hr Hb Ha Ho]. unfold emit_step. rewrite (sm_reloc _ _ Hr).
    destruct (negb _); [reflexivity|].
    eapply res_rel_bind; [apply node_emit_sim; eauto|].
    intros [ra bs] [rb bs'] [Hs Hbs]. cbn [fst snd] in Hs, Hbs. subst bs'.
    eapply res_rel_bind with (R := sim).
    - destruct bs as [|b0 bs0]; [exact Hs|]. rewrite (sm_reloc _ _ Hs), (sm_pc _ _ Hs).
      apply res_rel_bind_same; intros a' _. cbn [res_rel]. apply sim_set_reloc, sim_set_pc, Hs.
    - intros r2a r2b H2. cbn [res_rel]. rewrite Hb, Ha, Ho, (sm_pc _ _ H2).
      destruct n; cbn [is_codepos]; constructor; cbn [e_r e_block e_baddr e_out]; auto.
  Qed.

  (** ** The passes on the same node list, from related states *)
  Definition nodes_fresh (ns : list node) : bool := forallb node_fresh ns.

  Definition lsim (x y : rstate * addr * list Z) : Prop :=
    sim (fst (fst x)) (fst (fst y)) /\ snd (fst x) = snd (fst y) /\ snd x = snd y.

  Lemma label_run_sim w ns : nodes_fresh ns = true -> forall r1 r2 a, sim r1 r2 ->
    res_rel lsim (label_run w r1 ns a) (label_run w r2 ns a).
  Proof.
    unfold nodes_fresh. induction ns as [|n ns IH]; intros Hf r1 r2 a H; cbn [label_run].
    - cbn [res_rel]. unfold lsim. cbn [fst snd]. auto.
    - cbn [forallb] in Hf. apply andb_prop in Hf as [Hn Hns].
      eapply res_rel_bind with (R := psim).
      + destruct (is_symbol_node n); [split; auto|apply pc_after_sim; auto].
      + intros [ra a1] [rb a2] [Hs Ha]. cbn [fst snd] in *. subst a2.
        eapply res_rel_bind; [apply IH; eauto|].
        intros [[ra' a1'] l1] [[rb' a2'] l2] (Hs' & Ha' & Hl). cbn [fst snd] in *. subst.
        cbn [res_rel]. unfold lsim. cbn [fst snd]. auto.
  Qed.

  Lemma symbol_pass_sim w ns : nodes_fresh ns = true -> forall r1 r2 a, sim r1 r2 ->
    res_rel psim (symbol_pass w r1 ns a) (symbol_pass w r2 ns a).
  Proof.
    unfold nodes_fresh. induction ns as [|n ns IH]; intros Hf r1 r2 a H; cbn [symbol_pass].
    - split; auto.
    - cbn [forallb] in Hf. apply andb_prop in Hf as [Hn Hns].
      destruct (is_label_or_binary n); [apply IH; auto|].
      eapply res_rel_bind; [apply pc_after_sim; eauto|].
      intros [ra a1] [rb a2] [Hs Ha]. cbn [fst snd] in *. subst a2. apply IH; auto.
  Qed.

  Lemma emit_loop_sim w ns : nodes_fresh ns = true -> forall s1 s2 addrs, esim s1 s2 ->
    res_rel esim (emit_loop w s1 ns addrs) (emit_loop w s2 ns addrs).
  Proof.
    unfold nodes_fresh. induction ns as [|n ns IH]; intros Hf s1 s2 addrs H; cbn [emit_loop].
    - destruct addrs as [|x [|y l]]; try reflexivity.
      rewrite (sm_reloc _ _ (es_r _ _ H)). destruct (negb _); [reflexivity|exact H].
    - cbn [forallb] in Hf. apply andb_prop in Hf as [Hn Hns].
      destruct addrs as [|x addrs]; [reflexivity|].
      eapply res_rel_bind; [apply emit_step_sim; eauto|]. intros sa sb Hab. apply IH; auto.
  Qed.

  (** ** The inserted definition *)
  Definition is_def (d : node) : Prop := d = NLabel z \/ exists k, d = NSymConst z k.

  Lemma inK_self : inK z = true.
  Proof. unfold inK. rewrite str_eqb_refl. reflexivity. Qed.

  (** in the label pass [d] is either skipped (SymbolNode) or binds the label; either way the
      address does not move and the states stay related *)
  Lemma label_step_def w d r1 r2 a : is_def d -> sim r1 r2 ->
    exists r1', (if is_symbol_node d then Ok (r1, a) else pc_after w r1 d a) = Ok (r1', a) /\ sim r1' r2.
  Proof.
    intros [->|(k & ->)] H; cbn [is_symbol_node pc_after].
    - eexists; split; [reflexivity|]. apply sim_add_label_l; auto using inK_self.
    - eexists; split; [reflexivity|]. exact H.
  Qed.

  (** in the symbol pass [d] is either skipped (LabelNode) or binds the symbol *)
  Lemma symbol_step_def w d r1 r2 a post : is_def d -> sim r1 r2 ->
    exists r1', symbol_pass w r1 (d :: post) a = symbol_pass w r1' post a /\ sim r1' r2.
  Proof.
    intros [->|(k & ->)] H; cbn [symbol_pass is_label_or_binary pc_after bind fst snd].
    - eexists; split; [reflexivity|exact H].
    - eexists; split; [reflexivity|]. apply sim_add_symbol_l; auto using inK_self.
  Qed.

  (** emitting [d] is only the phase check *)
  Lemma emit_step_def w st d x : is_def d ->
    emit_step w st d x =
    if a_val (r_reloc (e_r st)) =? x
    then Ok {| e_r := e_r st; e_block := e_block st ++ []; e_baddr := e_baddr st; e_out := e_out st |}
    else Err ERuntime.
  Proof.
    intros [->|(k & ->)]; unfold emit_step; cbn [node_emit bind is_codepos];
      destruct (_ =? _); reflexivity.
  Qed.

  (** ** The passes with [d] inserted on the left *)

  (** the first recorded address of a run is the address it starts from *)
  Lemma label_run_head w ns r a r' a' l : label_run w r ns a = Ok (r', a', l) ->
    exists t, l ++ [a_val a'] = a_val a :: t /\ length t = length ns.
  Proof.
    intros H. pose proof (label_run_length _ _ _ _ _ _ _ H) as Hlen.
    destruct ns as [|n ns]; cbn [label_run] in H.
    - inversion H; subst. exists []. auto.
    - destruct (if is_symbol_node n then Ok (r, a) else pc_after w r n a) as [[r1 a1]| |]; cbn [bind fst snd] in H; try discriminate.
      destruct (label_run w r1 ns a1) as [[[r2 a2] l2]| |]; cbn [bind fst snd] in H; try discriminate.
      inversion H; subst. exists (l2 ++ [a_val a']). split; [reflexivity|].
      cbn [length] in *. rewrite app_length. cbn [length]. lia.
  Qed.

  (** the address lists of the two runs: the left one has the entry of [d] duplicated *)
  Definition dup_at (npre npost : nat) (l1 l2 : list Z) : Prop :=
    exists lp v t, length lp = npre /\ length t = npost /\ l1 = lp ++ v :: v :: t /\ l2 = lp ++ v :: t.

  Definition isim (npre npost : nat) (x y : rstate * addr * list Z) : Prop :=
    sim (fst (fst x)) (fst (fst y)) /\ snd (fst x) = snd (fst y) /\
    dup_at npre npost (snd x ++ [a_val (snd (fst x))]) (snd y ++ [a_val (snd (fst y))]).

  Lemma label_run_ins w d pre post : is_def d -> nodes_fresh pre = true -> nodes_fresh post = true ->
    forall r1 r2 a, sim r1 r2 ->
    res_rel (isim (length pre) (length post)) (label_run w r1 (pre ++ d :: post) a) (label_run w r2 (pre ++ post) a).
  Proof.
    intros Hd Hpre Hpost. unfold nodes_fresh in Hpre.
    induction pre as [|n pre IH]; intros r1 r2 a H; cbn [app].
    - cbn [label_run]. destruct (label_step_def w d r1 r2 a Hd H) as (r1' & E & Hs). rewrite E. cbn [bind fst snd].
      pose proof (label_run_sim w post Hpost r1' r2 a Hs) as HR.
      destruct (label_run w r1' post a) as [[[ra a1] l1]| |] eqn:E1,
               (label_run w r2 post a) as [[[rb a2] l2]| |] eqn:E2; cbn [res_rel bind] in *; auto.
      destruct HR as (S & A & L). cbn [fst snd] in *. subst.
      destruct (label_run_head _ _ _ _ _ _ _ E2) as (t & Ht & Hlen).
      unfold isim, dup_at. cbn [fst snd]. split; [exact S|]. split; [reflexivity|].
      exists [], (a_val a), t. cbn [length app]. rewrite Ht. auto.
    - cbn [forallb] in Hpre. apply andb_prop in Hpre as [Hn Hns]. cbn [label_run].
      eapply res_rel_bind with (R := psim).
      + destruct (is_symbol_node n); [split; auto|apply pc_after_sim; auto].
      + intros [ra a1] [rb a2] [Hs Ha]. cbn [fst snd] in *. subst a2.
        eapply res_rel_bind; [apply IH; eauto|].
        intros [[ra' a1'] l1] [[rb' a2'] l2] (Hs' & Ha' & lp & v & t & L1 & L2 & E1 & E2). cbn [fst snd] in *. subst.
        cbn [res_rel]. unfold isim, dup_at. cbn [fst snd length app]. split; [exact Hs'|]. split; [reflexivity|].
        exists (a_val a :: lp), v, t. cbn [length app]. rewrite E1, E2. auto.
  Qed.

  Lemma symbol_pass_ins w d pre post : is_def d -> nodes_fresh pre = true -> nodes_fresh post = true ->
    forall r1 r2 a, sim r1 r2 ->
    res_rel psim (symbol_pass w r1 (pre ++ d :: post) a) (symbol_pass w r2 (pre ++ post) a).
  Proof.
    intros Hd Hpre Hpost. unfold nodes_fresh in Hpre.
    induction pre as [|n pre IH]; intros r1 r2 a H; cbn [app].
    - destruct (symbol_step_def w d r1 r2 a post Hd H) as (r1' & E & Hs). rewrite E.
      apply symbol_pass_sim; auto.
    - cbn [forallb] in Hpre. apply andb_prop in Hpre as [Hn Hns]. cbn [symbol_pass].
      destruct (is_label_or_binary n); [apply IH; auto|].
      eapply res_rel_bind; [apply pc_after_sim; eauto|].
      intros [ra a1] [rb a2] [Hs Ha]. cbn [fst snd] in *. subst a2. apply IH; auto.
  Qed.

  (** a failed phase check at the head of the address list fails the run *)
  Lemma emit_loop_head_fail w st ns x t :
    (a_val (r_reloc (e_r st)) =? x) = false -> length t = length ns ->
    emit_loop w st ns (x :: t) = Err ERuntime.
  Proof.
    intros E Hl. destruct ns as [|n ns]; cbn [emit_loop].
    - destruct t; [|discriminate]. rewrite E. reflexivity.
    - unfold emit_step. rewrite E. reflexivity.
  Qed.

  Lemma emit_loop_ins w d pre post : is_def d -> nodes_fresh pre = true -> nodes_fresh post = true ->
    forall s1 s2 lp v t, esim s1 s2 -> length lp = length pre -> length t = length post ->
    res_rel esim (emit_loop w s1 (pre ++ d :: post) (lp ++ v :: v :: t)) (emit_loop w s2 (pre ++ post) (lp ++ v :: t)).
  Proof.
    intros Hd Hpre Hpost. unfold nodes_fresh in Hpre.
    induction pre as [|n pre IH]; intros s1 s2 lp v t H Hlp Ht.
    - destruct lp; [|discriminate]. cbn [app emit_loop]. rewrite (emit_step_def w s1 d v Hd).
      destruct (a_val (r_reloc (e_r s1)) =? v) eqn:E; cbn [bind].
      + apply emit_loop_sim; auto. destruct H as [Hr Hb Ha Ho].
        constructor; cbn [e_r e_block e_baddr e_out]; auto. rewrite app_nil_r. exact Hb.
      + rewrite (sm_reloc _ _ (es_r _ _ H)) in E. rewrite (emit_loop_head_fail w s2 post v t E Ht). reflexivity.
    - cbn [forallb] in Hpre. apply andb_prop in Hpre as [Hn Hns].
      destruct lp as [|x lp]; [discriminate|]. cbn [app emit_loop].
      eapply res_rel_bind; [apply emit_step_sim; eauto|]. intros sa sb Hab. apply IH; auto.
  Qed.

  (** ** resolve_labels, emit, assemble_nodes *)
  Definition rlsim (npre npost : nat) (x y : rstate * list Z) : Prop :=
    sim (fst x) (fst y) /\ dup_at npre npost (snd x) (snd y).

  Lemma resolve_labels_ins w d pre post r1 r2 :
    is_def d -> nodes_fresh pre = true -> nodes_fresh post = true -> sim r1 r2 ->
    res_rel (rlsim (length pre) (length post))
            (resolve_labels w r1 (pre ++ d :: post)) (resolve_labels w r2 (pre ++ post)).
  Proof.
    intros Hd Hpre Hpost H. unfold resolve_labels. rewrite !label_pass_run.
    assert (H0 : sim (set_cur_last r1 (r_cur r1) 0) (set_cur_last r2 (r_cur r2) 0))
      by (rewrite (sm_cur _ _ H); apply sim_set_cur_last; exact H).
    rewrite (sm_reloc _ _ H0).
    pose proof (label_run_ins w d pre post Hd Hpre Hpost _ _ (r_reloc (set_cur_last r2 (r_cur r2) 0)) H0) as HL.
    destruct (label_run w (set_cur_last r1 (r_cur r1) 0) (pre ++ d :: post) _) as [[[ra a1] l1]| |],
             (label_run w (set_cur_last r2 (r_cur r2) 0) (pre ++ post) _) as [[[rb a2] l2]| |];
      cbn [res_rel] in HL; try contradiction; cbn [bind res_rel fst snd app]; auto.
    destruct HL as (Hs & Ha & Hdup). cbn [fst snd] in Hs, Ha, Hdup. subst a2.
    pose proof (sim_reset _ _ Hs) as Hr. rewrite (sm_reloc _ _ Hr).
    eapply res_rel_bind; [apply symbol_pass_ins; eauto|].
    intros [ra' a1'] [rb' a2'] [Hs' _]. cbn [fst snd] in Hs'. cbn [res_rel].
    split; cbn [fst snd]; [apply sim_reset; exact Hs'|exact Hdup].
  Qed.

  Lemma emit_ins w d pre post r1 r2 l1 l2 :
    is_def d -> nodes_fresh pre = true -> nodes_fresh post = true -> sim r1 r2 ->
    dup_at (length pre) (length post) l1 l2 ->
    res_rel psim (emit w r1 (pre ++ d :: post) l1) (emit w r2 (pre ++ post) l2).
  Proof.
    intros Hd Hpre Hpost H (lp & v & t & Hlp & Ht & -> & ->). unfold emit.
    eapply res_rel_bind.
    - apply emit_loop_ins; eauto. constructor; cbn [e_r e_block e_baddr e_out]; auto. apply (sm_pc _ _ H).
    - intros sa sb [Hr Hb Ha Ho]. cbn [res_rel]. split; cbn [fst snd]; [exact Hr|].
      rewrite Hb, Ha, Ho. reflexivity.
  Qed.

  Lemma all_labels_sim sc1 sc2 : Forall2 ssim sc1 sc2 ->
    strip (flat_map (fun s => match s_kind s with SInternal => [] | _ => s_labels s end) sc1) =
    strip (flat_map (fun s => match s_kind s with SInternal => [] | _ => s_labels s end) sc2).
  Proof.
    unfold strip. induction 1 as [|s1 s2 l1 l2 Hs H IH]; cbn [flat_map]; [reflexivity|].
    rewrite !filter_app, IH, (ss_kind _ _ Hs). f_equal.
    destruct (s_kind s2); try reflexivity; apply (ss_lab _ _ Hs).
  Qed.

  (** the writer blocks are equal, the labels are equal up to z-derived names, the final resolver
      states are related *)
  Definition osim (o1 o2 : output) : Prop :=
    o_blocks o1 = o_blocks o2 /\ strip (o_labels o1) = strip (o_labels o2) /\ sim (o_final o1) (o_final o2).

  Theorem assemble_nodes_ins w d pre post r1 r2 :
    is_def d -> nodes_fresh (pre ++ post) = true -> sim r1 r2 ->
    res_rel osim (assemble_nodes w r1 (pre ++ d :: post)) (assemble_nodes w r2 (pre ++ post)).
  Proof.
    intros Hd Hf H. unfold nodes_fresh in Hf. rewrite forallb_app in Hf. apply andb_prop in Hf as [Hpre Hpost].
    unfold assemble_nodes.
    eapply res_rel_bind; [apply resolve_labels_ins; eauto|].
    intros [ra l1] [rb l2] [Hs Hdup]. cbn [fst snd] in Hs, Hdup |- *.
    eapply res_rel_bind; [apply emit_ins; eauto|].
    intros [ra' b1] [rb' b2] [Hs' Hb]. cbn [fst snd] in Hs', Hb |- *. subst b2. cbn [res_rel].
    unfold osim. cbn [o_blocks o_labels o_final]. split; [reflexivity|]. split; [|exact Hs'].
    unfold get_all_labels. apply all_labels_sim. apply (sm_scopes _ _ Hs').
  Qed.

End NI.

(** ** When no definition of the list is z-derived either, the labels of the shorter run are
    exactly the labels of the longer run without the z-derived ones *)
Lemma map_list_update {A B} (g : A -> B) f h l i :
  (forall a, g (f a) = h (g a)) -> map g (list_update l i f) = list_update (map g l) i h.
Proof.
  intros H. revert i; induction l as [|x l IH]; intros [|i]; cbn [list_update map]; auto.
  - rewrite H. reflexivity.
  - rewrite IH. reflexivity.
Qed.
Lemma list_update_id {A} (l : list A) i : list_update l i (fun x => x) = l.
Proof. revert i; induction l as [|x l IH]; intros [|i]; cbn [list_update]; auto. rewrite IH. reflexivity. Qed.
Lemma Forall_list_update {A} (P : A -> Prop) h l i :
  (forall a, P a -> P (h a)) -> Forall P l -> Forall P (list_update l i h).
Proof.
  intros Hh H. revert i; induction H as [|x l Hx H IH]; intros [|i]; cbn [list_update]; constructor; auto.
Qed.

Section Clean.
  Variable z : str.

  Definition dclean (d : dict Z) : Prop := strip z d = d.
  Definition labs (r : rstate) : list (dict Z) := map s_labels (r_scopes r).
  (** no label of the resolver state is z-derived *)
  Definition labels_clean (r : rstate) : Prop := Forall dclean (labs r).

  Lemma labs_upd r i f : (forall s, s_labels (f s) = s_labels s) -> labs (upd_scope r i f) = labs r.
  Proof.
    intros H. unfold labs, upd_scope. cbn [set_scopes r_scopes].
    rewrite (map_list_update s_labels f (fun x => x)) by exact H. apply list_update_id.
  Qed.
  Lemma labs_add_symbol r n v : labs (add_symbol r n v) = labs r.
  Proof. apply labs_upd. reflexivity. Qed.

  Lemma clean_add_label r n v : inK z n = false -> labels_clean r -> labels_clean (add_label r n v).
  Proof.
    intros Hn H. unfold labels_clean, labs, add_label, upd_scope in *. cbn [set_scopes r_scopes].
    rewrite (map_list_update s_labels _ (fun d => dict_set d n v)) by reflexivity.
    apply Forall_list_update; auto. intros d Hd. unfold dclean in *. rewrite strip_set_out, Hd; auto.
  Qed.

  Lemma labs_use_next r r' : use_next_scope r = Ok r' -> labs r' = labs r.
  Proof. unfold use_next_scope. destruct (nth_error _ _); [|discriminate]. intros H; inversion H; reflexivity. Qed.

  Lemma labs_restore r e r' : restore_scope r e = Ok r' -> labs r' = labs r.
  Proof.
    unfold restore_scope. destruct (nth_error _ _) as [s|]; [|discriminate].
    destruct (s_parent s) as [p|]; [|discriminate]. intros H; inversion H; subst; clear H.
    change (labs (set_cur ?x p)) with (labs x).
    destruct (s_kind s); try reflexivity. destruct e; [|reflexivity].
    apply labs_upd. intros s0. apply (export_into_fields name (s_symbols s) s0).
  Qed.

  Lemma labs_set_position w r v r' : set_position w r v = Ok r' -> labs r' = labs r.
  Proof.
    unfold set_position. destruct (get_bus w r); cbn [bind]; try discriminate.
    destruct (mk_addr _ _); cbn [bind]; try discriminate.
    destruct (addr_phys _) as [[off|]| |]; cbn [bind]; try discriminate; intros H; inversion H; reflexivity.
  Qed.

  Definition node_defs_fresh (n : node) : bool :=
    match n with
    | NLabel name => negb (inK z name)
    | NBinary path _ => negb (inK z (symbol_base path))
    | _ => true
    end.
  Definition defs_fresh (ns : list node) : bool := forallb node_defs_fresh ns.

  Lemma pc_after_clean w r n a r' a' :
    node_defs_fresh n = true -> labels_clean r -> pc_after w r n a = Ok (r', a') -> labels_clean r'.
  Proof.
    intros Hn H. destruct n; cbn [pc_after node_defs_fresh] in *;
      repeat match goal with
             | |- bind ?x _ = Ok _ -> _ => let E := fresh "E" in destruct x eqn:E; cbn [bind]; try discriminate
             end;
      intros X; inversion X; subst; clear X; auto.
    - apply clean_add_label; auto. destruct (inK z name); [discriminate|reflexivity].
    - unfold labels_clean. rewrite labs_add_symbol. exact H.
    - unfold labels_clean. rewrite labs_add_symbol. exact H.
    - unfold labels_clean. rewrite labs_add_symbol. apply clean_add_label; auto.
      destruct (inK z (symbol_base path)); [discriminate|reflexivity].
    - unfold labels_clean. rewrite (labs_use_next _ _ E). exact H.
    - unfold labels_clean. rewrite (labs_restore _ _ _ E). exact H.
  Qed.

  Lemma node_emit_labs w r n r' bs : node_emit w r n = Ok (r', bs) -> labs r' = labs r.
  Proof.
    destruct n; cbn [node_emit];
      repeat match goal with
             | |- bind ?x _ = Ok _ -> _ => let E := fresh "E" in destruct x eqn:E; cbn [bind]; try discriminate
             end;
      intros X; inversion X; subst; clear X; auto.
    - eapply labs_set_position; eauto.
    - eapply labs_set_position; eauto.
    - eapply labs_use_next; eauto.
    - eapply labs_restore; eauto.
  Qed.

  Lemma label_pass_clean w ns : defs_fresh ns = true -> forall r a acc r' a' l,
    labels_clean r -> label_pass w r ns a acc = Ok (r', a', l) -> labels_clean r'.
  Proof.
    unfold defs_fresh. induction ns as [|n ns IH]; intros Hf r a acc r' a' l H; cbn [label_pass].
    - intros X; inversion X; subst; auto.
    - cbn [forallb] in Hf. apply andb_prop in Hf as [Hn Hns].
      destruct (is_symbol_node n); [apply IH; auto|].
      destruct (pc_after w r n a) as [[r1 a1]| |] eqn:E; cbn [bind fst snd]; try discriminate.
      apply IH; auto. eapply pc_after_clean; eauto.
  Qed.

  Lemma symbol_pass_clean w ns : defs_fresh ns = true -> forall r a r' a',
    labels_clean r -> symbol_pass w r ns a = Ok (r', a') -> labels_clean r'.
  Proof.
    unfold defs_fresh. induction ns as [|n ns IH]; intros Hf r a r' a' H; cbn [symbol_pass].
    - intros X; inversion X; subst; auto.
    - cbn [forallb] in Hf. apply andb_prop in Hf as [Hn Hns].
      destruct (is_label_or_binary n); [apply IH; auto|].
      destruct (pc_after w r n a) as [[r1 a1]| |] eqn:E; cbn [bind fst snd]; try discriminate.
      apply IH; auto. eapply pc_after_clean; eauto.
  Qed.

  Lemma emit_step_labs w st n x st' : emit_step w st n x = Ok st' -> labs (e_r st') = labs (e_r st).
  Proof.
    unfold emit_step. destruct (negb _); [discriminate|].
    destruct (node_emit w (e_r st) n) as [[r1 bs]| |] eqn:E; cbn [bind]; try discriminate.
    rewrite <- (node_emit_labs _ _ _ _ _ E).
    destruct bs as [|b0 bs0]; cbn [bind].
    - intros X; inversion X; subst; clear X. destruct n; destruct (is_codepos _); reflexivity.
    - destruct (addr_plus _ _) as [a'| |]; cbn [bind]; try discriminate.
      intros X; inversion X; subst; clear X. destruct n; destruct (is_codepos _); reflexivity.
  Qed.

  Lemma emit_loop_labs w ns : forall st addrs st', emit_loop w st ns addrs = Ok st' -> labs (e_r st') = labs (e_r st).
  Proof.
    induction ns as [|n ns IH]; intros st addrs st'; cbn [emit_loop].
    - destruct addrs as [|x [|y l]]; try discriminate. destruct (negb _); [discriminate|]. intros X; inversion X; reflexivity.
    - destruct addrs as [|x addrs]; [discriminate|].
      destruct (emit_step w st n x) as [st1| |] eqn:E; cbn [bind]; try discriminate.
      intros X. rewrite (IH _ _ _ X). eapply emit_step_labs; eauto.
  Qed.

  Lemma all_labels_clean sc : Forall dclean (map s_labels sc) ->
    strip z (flat_map (fun s => match s_kind s with SInternal => [] | _ => s_labels s end) sc) =
    flat_map (fun s => match s_kind s with SInternal => [] | _ => s_labels s end) sc.
  Proof.
    unfold strip. induction sc as [|s sc IH]; cbn [map flat_map]; [reflexivity|].
    intros H; inversion H as [|? ? Hs Hsc]; subst. rewrite filter_app, (IH Hsc). f_equal.
    destruct (s_kind s); try reflexivity; exact Hs.
  Qed.

  Theorem assemble_nodes_clean w r ns o :
    defs_fresh ns = true -> labels_clean r -> assemble_nodes w r ns = Ok o ->
    strip z (o_labels o) = o_labels o.
  Proof.
    intros Hf H. unfold assemble_nodes, resolve_labels.
    destruct (label_pass w _ ns _ []) as [[[r1 a1] l1]| |] eqn:E1; cbn [bind fst snd]; try discriminate.
    destruct (symbol_pass w _ ns _) as [[r2 a2]| |] eqn:E2; cbn [bind fst snd]; try discriminate.
    unfold emit. destruct (emit_loop w _ ns l1) as [st| |] eqn:E3; cbn [bind fst snd]; try discriminate.
    intros X; inversion X; subst; clear X. cbn [o_labels]. unfold get_all_labels. apply all_labels_clean.
    apply (label_pass_clean w ns Hf) in E1; [|exact H].
    apply (symbol_pass_clean w ns Hf) in E2; [|exact E1].
    apply emit_loop_labs in E3. cbn [e_r] in E3. unfold labels_clean, labs in *. rewrite E3. exact E2.
  Qed.

  Lemma labels_clean_empty r : (forall s, In s (r_scopes r) -> s_labels s = []) -> labels_clean r.
  Proof.
    intros H. unfold labels_clean, labs. apply Forall_forall. intros d Hd.
    apply in_map_iff in Hd as (s & <- & Hs). rewrite (H s Hs). reflexivity.
  Qed.
End Clean.

(** ** The statements *)

(** [zderived z n]: [n] is [z] or a qualified [....z]. *)
Definition zderived (z n : str) : bool := inK z n.

Lemma zderived_spec z n : zderived z n = true <-> n = z \/ exists p, n = p ++ dot ++ z.
Proof. apply inK_spec. Qed.

(** [exprs_fresh z ns]: no identifier token of any expression of [ns] is z-derived. *)
Definition exprs_fresh (z : str) (ns : list node) : bool := nodes_fresh z ns.

(** a list without the entries under z-derived keys *)
Definition without (z : str) (l : list (str * Z)) : list (str * Z) := filter (fun kv => negb (zderived z (fst kv))) l.

(** C08, non-interference.  Insert, anywhere in a node list, a definition of a name no expression
    refers to (directly or through a qualified name): both assemblies fail with the same kind of
    error (or both run out of fuel), or both succeed with the same writer blocks and the same
    labels up to z-derived names. *)
Theorem noninterference w r z d pre post :
  (d = NLabel z \/ exists k, d = NSymConst z k) ->
  exprs_fresh z (pre ++ post) = true ->
  match assemble_nodes w r (pre ++ d :: post), assemble_nodes w r (pre ++ post) with
  | Ok o1, Ok o2 => o_blocks o1 = o_blocks o2 /\ without z (o_labels o1) = without z (o_labels o2)
  | Err j, Err k => j = k
  | OutOfFuel, OutOfFuel => True
  | _, _ => False
  end.
Proof.
  intros Hd Hf.
  pose proof (assemble_nodes_ins z w d pre post r r Hd Hf (sim_refl z r)) as H.
  destruct (assemble_nodes w r (pre ++ d :: post)), (assemble_nodes w r (pre ++ post)); cbn [res_rel] in H; auto.
  destruct H as (A & B & _). auto.
Qed.

(** [fresh_for z ns]: additionally no label the list defines (a LabelNode's name, the start symbol
    of an [.incbin]) is z-derived.  (That [z] contains no '.' is not needed for any of this.) *)
Definition fresh_for (z : str) (ns : list node) : bool := exprs_fresh z ns && defs_fresh z ns.

(** Under [fresh_for], from a resolver without z-derived labels (the state code generation leaves
    has no labels at all): the labels of the assembly without [d] are exactly the labels of the
    assembly with [d], minus the z-derived ones — i.e. minus what [d] contributed. *)
Theorem noninterference_labels w r z d pre post :
  (d = NLabel z \/ exists k, d = NSymConst z k) ->
  fresh_for z (pre ++ post) = true -> labels_clean z r ->
  match assemble_nodes w r (pre ++ d :: post), assemble_nodes w r (pre ++ post) with
  | Ok o1, Ok o2 => o_blocks o1 = o_blocks o2 /\ o_labels o2 = without z (o_labels o1)
  | Err j, Err k => j = k
  | OutOfFuel, OutOfFuel => True
  | _, _ => False
  end.
Proof.
  intros Hd Hf Hc. unfold fresh_for in Hf. apply andb_prop in Hf as [He Hdf].
  pose proof (noninterference w r z d pre post Hd He) as H.
  destruct (assemble_nodes w r (pre ++ d :: post)) as [o1| |],
           (assemble_nodes w r (pre ++ post)) as [o2| |] eqn:E2; auto.
  destruct H as [A B]. split; [exact A|].
  rewrite B. symmetry. exact (assemble_nodes_clean z w r _ o2 Hdf Hc E2).
Qed.

(** ** Non-vacuity and necessity of the hypothesis (a small concrete world on the LoROM bus) *)
Module NIExamples.
  Definition ex_world : world :=
    {| w_builtin := fun _ => Ok lorom; w_optable := []; w_prec := [];
       w_incbin := fun _ => Err EFile; w_table := fun _ => Err EFile; w_ips := fun _ _ => Err EFile |}.
  Definition ident (s : str) : expr := [{| en_kind := EK_term; en_tok := mk_token T_IDENTIFIER s |}].
  Definition num8000 : expr := [{| en_kind := EK_term; en_tok := mk_token T_NUMBER [48; 120; 56; 48; 48; 48] |}].
  Definition fi : token := mk_token T_EOF [].
  (** root scope plus one named scope "s" (as code generation leaves them) *)
  Definition ex_r : rstate :=
    {| r_scopes := [new_scope None SPlain; new_scope (Some 0%nat) (SNamed [115])]; r_cur := 0; r_last := 0; r_pc := 0;
       r_reloc := {| a_bus := lorom; a_val := 0 |}; r_bus := empty_bus; r_rom := LowRom |}.
  Definition view (x : res output) : res (list wblock * list (str * Z)) :=
    match x with Ok o => Ok (o_blocks o, o_labels o) | Err k => Err k | OutOfFuel => OutOfFuel end.
  Notation x := [120]. Notation y := [121]. Notation s_y := [115; 46; 121].

  (** the hypotheses are satisfiable and both runs succeed: [y:] inserted inside the scope *)
  Definition pre1 := [NCodePos num8000 fi; NSymConst x 7; NScope].
  Definition post1 := [NData D_db (ident x) fi; NPop; NLabel x].
  Example fresh1 : fresh_for y (pre1 ++ post1) = true. Proof. reflexivity. Qed.
  Example with_y : view (assemble_nodes ex_world ex_r (pre1 ++ NLabel y :: post1))
                   = Ok ([([7], 0)], [(x, 32769); (y, 32768)]).
  Proof. vm_compute. reflexivity. Qed.
  Example without_y : view (assemble_nodes ex_world ex_r (pre1 ++ post1)) = Ok ([([7], 0)], [(x, 32769)]).
  Proof. vm_compute. reflexivity. Qed.

  (** the hypothesis is needed, also for the qualified name the export derives: *)
  Definition pre2 := [NScope].
  Definition post2 := [NPop; NData D_db (ident s_y) fi].
  Example not_fresh2 : exprs_fresh y (pre2 ++ post2) = false. Proof. reflexivity. Qed.
  Example with_def2 : view (assemble_nodes ex_world ex_r (pre2 ++ NSymConst y 9 :: post2)) = Ok ([([9], 0)], []).
  Proof. vm_compute. reflexivity. Qed.
  Example without_def2 : view (assemble_nodes ex_world ex_r (pre2 ++ post2)) = Err ENode.
  Proof. vm_compute. reflexivity. Qed.
End NIExamples.

Print Assumptions noninterference.
Print Assumptions noninterference_labels.
Print Assumptions assemble_nodes_ins.
Print Assumptions eval_expression_congr.
