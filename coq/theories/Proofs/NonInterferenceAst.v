(** C08 non-interference at the level of programs ([assemble_ast]).

    [lins prog1 prog2]: [prog1] is [prog2] with definitions of [z] inserted at any number of
    positions of the statement tree — the top-level list, the bodies of blocks, scopes, [.if]
    branches, loops and macro definitions, recursively.  The inserted statements are [z:] (a label),
    [z = lit] and [z := lit] with [lit] a closed literal.  When no identifier token of [prog2]
    (every expression of every statement, macro bodies and code-block arguments included) and no
    spliced name is z-derived, the two programs assemble to the same writer blocks / the same kind
    of error, and to the same labels up to z-derived names.

    Code generation evaluates [.if] conditions, [:=] right-hand sides, loop bounds and macro
    arguments against the resolver state, which on the left may contain [z] ([z := lit] binds at
    expansion): the simulation [code_gen_sim] shows it produces the same node list up to the
    inserted definition nodes, from states related by [sim z]; [assemble_nodes_mins] does the
    passes. *)
From Coq Require Import ZArith List Lia Bool Arith.
From A816 Require Import Model.Codegen Proofs.BusProofs Proofs.ResolverProofs Proofs.EvalCongr
     Proofs.CodegenProofs Proofs.NonInterference Proofs.NonInterferenceMulti.
Open Scope Z_scope.

Lemma forallb_map' {A B} (f : B -> bool) (g : A -> B) l : forallb f (map g l) = forallb (fun x => f (g x)) l.
Proof. induction l as [|x l IH]; cbn [map forallb]; [reflexivity|]. rewrite IH. reflexivity. Qed.

Section AstNI.
  Variable w : world.
  Variable z : str.

  (** ** Freshness of a program: no identifier token, no spliced name is z-derived *)
  Definition ofresh (o : option expr) : bool := match o with Some e => expr_fresh z e | None => true end.
  Fixpoint afresh (a : ast) : bool :=
    match a with
    | ABlock b _ | ACompound b _ | AScope _ b _ _ => forallb afresh b
    | AStarEq e _ | AAtEq e _ | ASymbol _ e _ | AAssign _ e _ | AIncludeIps _ e _ => expr_fresh z e
    | AIf c th _ el _ =>
        expr_fresh z c && forallb afresh th && match el with Some (eb, _) => forallb afresh eb | None => true end
    | AMacro _ _ b _ _ => forallb afresh b
    | AMacroApply _ args _ =>
        forallb (fun x => match x with inl e => expr_fresh z e | inr (b, _) => forallb afresh b end) args
    | AData _ data _ => forallb (expr_fresh z) data
    | ACodeLookup name _ => negb (inK z name)
    | AFor _ lo hi b _ _ => expr_fresh z lo && expr_fresh z hi && forallb afresh b
    | AOpcode _ _ _ operand _ _ => ofresh operand
    | _ => true
    end.
  Definition prog_fresh (prog : list ast) : bool := forallb afresh prog.

  (** ** The inserted statements and the insertion relation *)
  Definition is_defa (d : ast) : Prop :=
    (exists fi, d = ALabel z fi) \/
    (exists e fi k, d = ASymbol z e fi /\ lit w e k) \/
    (exists e fi k, d = AAssign z e fi /\ lit w e k).

  Inductive ains : ast -> ast -> Prop :=
  | ai_same a : ains a a
  | ai_block b1 b2 fi : lins b1 b2 -> ains (ABlock b1 fi) (ABlock b2 fi)
  | ai_compound b1 b2 fi : lins b1 b2 -> ains (ACompound b1 fi) (ACompound b2 fi)
  | ai_scope name b1 b2 bfi fi : lins b1 b2 -> ains (AScope name b1 bfi fi) (AScope name b2 bfi fi)
  | ai_if c th1 th2 thfi el1 el2 fi :
      lins th1 th2 -> oins el1 el2 -> ains (AIf c th1 thfi el1 fi) (AIf c th2 thfi el2 fi)
  | ai_macro name params b1 b2 bfi fi :
      lins b1 b2 -> ains (AMacro name params b1 bfi fi) (AMacro name params b2 bfi fi)
  | ai_for v lo hi b1 b2 bfi fi : lins b1 b2 -> ains (AFor v lo hi b1 bfi fi) (AFor v lo hi b2 bfi fi)
  with lins : list ast -> list ast -> Prop :=
  | li_nil : lins [] []
  | li_cons a1 a2 l1 l2 : ains a1 a2 -> lins l1 l2 -> lins (a1 :: l1) (a2 :: l2)
  | li_ins d l1 l2 : is_defa d -> lins l1 l2 -> lins (d :: l1) l2
  with oins : option (list ast * token) -> option (list ast * token) -> Prop :=
  | oi_none : oins None None
  | oi_some b1 b2 fi : lins b1 b2 -> oins (Some (b1, fi)) (Some (b2, fi)).

  Lemma lins_refl l : lins l l.
  Proof. induction l; constructor; auto using ai_same. Qed.
  Lemma oins_refl o : oins o o.
  Proof. destruct o as [[b fi]|]; constructor. apply lins_refl. Qed.

  Lemma ains_block a1 b2 fi : ains a1 (ABlock b2 fi) -> exists b1, a1 = ABlock b1 fi /\ lins b1 b2.
  Proof. intros H; inversion H; subst; eauto using lins_refl. Qed.
  Lemma ains_compound a1 b2 fi : ains a1 (ACompound b2 fi) -> exists b1, a1 = ACompound b1 fi /\ lins b1 b2.
  Proof. intros H; inversion H; subst; eauto using lins_refl. Qed.
  Lemma ains_scope a1 name b2 bfi fi : ains a1 (AScope name b2 bfi fi) -> exists b1, a1 = AScope name b1 bfi fi /\ lins b1 b2.
  Proof. intros H; inversion H; subst; eauto using lins_refl. Qed.
  Lemma ains_if a1 c th2 thfi el2 fi : ains a1 (AIf c th2 thfi el2 fi) ->
    exists th1 el1, a1 = AIf c th1 thfi el1 fi /\ lins th1 th2 /\ oins el1 el2.
  Proof. intros H; inversion H; subst; eauto 6 using lins_refl, oins_refl. Qed.
  Lemma ains_macro a1 name params b2 bfi fi : ains a1 (AMacro name params b2 bfi fi) ->
    exists b1, a1 = AMacro name params b1 bfi fi /\ lins b1 b2.
  Proof. intros H; inversion H; subst; eauto using lins_refl. Qed.
  Lemma ains_for a1 v lo hi b2 bfi fi : ains a1 (AFor v lo hi b2 bfi fi) ->
    exists b1, a1 = AFor v lo hi b1 bfi fi /\ lins b1 b2.
  Proof. intros H; inversion H; subst; eauto using lins_refl. Qed.

  (** ** Related macro tables *)
  Definition mdrel (m1 m2 : macrodef) : Prop :=
    md_params m1 = md_params m2 /\ lins (md_body m1) (md_body m2) /\ forallb afresh (md_body m2) = true.
  Definition mrel (t1 t2 : dict macrodef) : Prop :=
    Forall2 (fun kv1 kv2 => fst kv1 = fst kv2 /\ mdrel (snd kv1) (snd kv2)) t1 t2.

  Lemma mrel_get t1 t2 k : mrel t1 t2 ->
    match dict_get t1 k, dict_get t2 k with
    | Some a, Some b => mdrel a b
    | None, None => True
    | _, _ => False
    end.
  Proof.
    induction 1 as [|[k1 m1] [k2 m2] t1 t2 [E Hm] H IH]; cbn [dict_get]; auto.
    cbn [fst snd] in *. subst k2. destruct (str_eqb k k1); auto.
  Qed.
  Lemma mrel_set t1 t2 k m1 m2 : mrel t1 t2 -> mdrel m1 m2 -> mrel (dict_set t1 k m1) (dict_set t2 k m2).
  Proof.
    intros H Hm. induction H as [|[k1 a1] [k2 a2] t1 t2 [E Ha] H IH]; cbn [dict_set].
    - constructor; [split; auto|constructor].
    - cbn [fst snd] in *. subst k2. destruct (str_eqb k k1); constructor; auto; split; auto.
  Qed.

  (** ** The code blocks bound in the resolver are fresh *)
  Definition vfresh (kv : str * (list ast * token)) : Prop := forallb afresh (fst (snd kv)) = true.
  Definition code_fresh (r : rstate) : Prop := Forall (fun s => Forall vfresh (s_code s)) (r_scopes r).

  Lemma value_for_fuel_code scopes q b fi : Forall (fun s => Forall vfresh (s_code s)) scopes ->
    forall fuel i, value_for_fuel scopes fuel i q = Ok (VCode b fi) -> forallb afresh b = true.
  Proof.
    intros Hc fuel; induction fuel as [|fuel IH]; intros i; cbn [value_for_fuel]; [discriminate|].
    destruct (nth_error scopes i) as [s|] eqn:Hn; [|discriminate].
    assert (Hs : scope_getitem s q = Ok (VCode b fi) -> forallb afresh b = true).
    { unfold scope_getitem. destruct (dict_get (s_code s) q) as [[b' fi']|] eqn:E.
      - intros X; inversion X; subst. apply dict_get_in in E as (k' & _ & Hin).
        rewrite Forall_forall in Hc. specialize (Hc s (nth_error_In _ _ Hn)).
        rewrite Forall_forall in Hc. apply (Hc _ Hin).
      - destruct (dict_get (s_symbols s) q); discriminate. }
    destruct (s_parent s); [|exact Hs]. destruct (_ || _); [exact Hs|apply IH].
  Qed.
  Lemma value_for_code r q b fi : code_fresh r -> value_for r q = Ok (VCode b fi) -> forallb afresh b = true.
  Proof. intros Hc. unfold value_for. apply value_for_fuel_code. exact Hc. Qed.

  Lemma cf_upd r k f : (forall s, s_code (f s) = s_code s) -> code_fresh r -> code_fresh (upd_scope r k f).
  Proof.
    intros Hf H. unfold code_fresh, upd_scope in *. cbn [set_scopes r_scopes].
    apply Forall_list_update; auto. intros s Hs. rewrite Hf. exact Hs.
  Qed.
  Lemma Forall_dict_set {V} (P : str * V -> Prop) d k v :
    (forall k', P (k', v)) -> Forall P d -> Forall P (dict_set d k v).
  Proof.
    intros Hv H. induction H as [|[k' v'] d Hx H IH]; cbn [dict_set]; [constructor; auto|].
    destruct (str_eqb k k'); constructor; auto.
  Qed.
  Lemma cf_add_code r q b fi : forallb afresh b = true -> code_fresh r -> code_fresh (add_code r q (b, fi)).
  Proof.
    intros Hb H. unfold code_fresh, add_code, upd_scope in *. cbn [set_scopes r_scopes].
    apply Forall_list_update; auto. intros s Hs. cbn [scope_add_code s_code].
    apply Forall_dict_set; auto.
  Qed.
  Lemma cf_enter r k ra : code_fresh r -> enter_scope r k = Ok ra -> code_fresh ra.
  Proof.
    unfold enter_scope, use_next_scope, append_scope. cbn [set_scopes r_scopes r_last]. intros H.
    destruct (nth_error _ _); [|discriminate]. intros E; inversion E; subst.
    unfold code_fresh in *. cbn [set_cur_last set_scopes r_scopes]. apply Forall_app. split; [exact H|].
    constructor; [constructor|constructor].
  Qed.
  Lemma cf_restore r e ra : code_fresh r -> restore_scope r e = Ok ra -> code_fresh ra.
  Proof.
    intros H. unfold restore_scope. destruct (nth_error _ _) as [s|]; [|discriminate].
    destruct (s_parent s) as [p|]; [|discriminate]. intros E; inversion E; subst; clear E.
    change (code_fresh (set_cur ?x p)) with (code_fresh x).
    destruct (s_kind s); auto. destruct e; auto.
    apply cf_upd; auto. intros s0. apply (export_into_fields name (s_symbols s) s0).
  Qed.

  (** ** More of [sim] (what code generation does to the resolver) *)
  Lemma ssim_add_code q c a b : ssim z a b -> ssim z (scope_add_code q c a) (scope_add_code q c b).
  Proof. intros []; constructor; cbn [scope_add_code s_parent s_kind s_code s_table s_symbols s_labels]; congruence. Qed.
  Lemma ssim_set_table t a b : ssim z a b -> ssim z (scope_set_table t a) (scope_set_table t b).
  Proof. intros []; constructor; cbn [scope_set_table s_parent s_kind s_code s_table s_symbols s_labels]; congruence. Qed.
  Lemma sim_add_code r1 r2 q c : sim z r1 r2 -> sim z (add_code r1 q c) (add_code r2 q c).
  Proof. intros H. unfold add_code. rewrite (sm_cur _ _ _ H). apply sim_upd; auto using ssim_add_code. Qed.
  Lemma sim_set_bus r1 r2 b : sim z r1 r2 -> sim z (set_bus r1 b) (set_bus r2 b).
  Proof. intros []; constructor; auto. Qed.

  Lemma enter_scope_sim r1 r2 k : sim z r1 r2 -> res_rel (sim z) (enter_scope r1 k) (enter_scope r2 k).
  Proof.
    intros H. unfold enter_scope. apply use_next_scope_sim. unfold append_scope. rewrite (sm_cur _ _ _ H).
    destruct H; constructor; cbn [set_scopes r_scopes r_cur r_last r_pc r_reloc r_bus r_rom]; auto.
    apply Forall2_app; auto. constructor; [apply ssim_refl|constructor].
  Qed.

  Lemma get_table_fuel_sim sc1 sc2 : Forall2 (ssim z) sc1 sc2 -> forall fuel i,
    get_table_fuel sc1 fuel i = get_table_fuel sc2 fuel i.
  Proof.
    intros H fuel; induction fuel as [|fuel IH]; intros i; [reflexivity|]. cbn [get_table_fuel].
    pose proof (Forall2_nth_error _ _ _ H i) as Hi.
    destruct (nth_error sc1 i) as [a|], (nth_error sc2 i) as [b|]; try contradiction; [|reflexivity].
    rewrite (ss_table _ _ _ Hi), (ss_parent _ _ _ Hi). destruct (s_table b); [reflexivity|].
    destruct (s_parent b); [apply IH|reflexivity].
  Qed.
  Lemma get_table_sim r1 r2 : sim z r1 r2 -> get_table r1 = get_table r2.
  Proof. intros H. unfold get_table. rewrite (sm_cur _ _ _ H). apply get_table_fuel_sim. apply (sm_scopes _ _ _ H). Qed.

  Lemma generate_map_sim r1 r2 a : sim z r1 r2 -> code_fresh r2 ->
    res_rel (fun x y => sim z x y /\ code_fresh y) (generate_map r1 a) (generate_map r2 a).
  Proof.
    intros H Hc. unfold generate_map. rewrite (sm_bus _ _ _ H).
    destruct (ma_identifier a) as [id|]; [|reflexivity].
    destruct (ma_bank_range a) as [[lo [hi|]]|]; try reflexivity;
    destruct (ma_addr_range a) as [ar|]; try reflexivity;
    destruct (ma_mask a) as [[mask [mh|]]|]; try reflexivity.
    destruct (ma_mirror_bank_range a) as [[m0 [m1|]]|].
    - apply res_rel_bind_same; intros b _. cbn [res_rel]. split; [apply sim_set_bus, H|exact Hc].
    - destruct (m0 =? 0); [|reflexivity].
      apply res_rel_bind_same; intros b _. cbn [res_rel]. split; [apply sim_set_bus, H|exact Hc].
    - apply res_rel_bind_same; intros b _. cbn [res_rel]. split; [apply sim_set_bus, H|exact Hc].
  Qed.

  Lemma value_for_sim r1 r2 q : inK z q = false -> sim z r1 r2 -> value_for r1 q = value_for r2 q.
  Proof.
    intros Hq H. unfold value_for. rewrite (sm_cur _ _ _ H). apply (value_for_fuel_sim z); auto. apply (sm_scopes _ _ _ H).
  Qed.

  Lemma if_condition_sim r1 r2 c : expr_fresh z c = true -> sim z r1 r2 -> if_condition w r1 c = if_condition w r2 c.
  Proof. intros Hc H. unfold if_condition. rewrite (eval_raw_sim z w r1 r2 c Hc H). reflexivity. Qed.

  Definition args_fresh (args : list (expr + (list ast * token))) : bool :=
    forallb (fun x => match x with inl e => expr_fresh z e | inr (b, _) => forallb afresh b end) args.

  Lemma eval_macro_args_sim r1 r2 : sim z r1 r2 -> forall ps args, args_fresh args = true ->
    eval_macro_args w r1 ps args = eval_macro_args w r2 ps args.
  Proof.
    intros H. induction ps as [|p ps IH]; intros args Hf; cbn [eval_macro_args]; [reflexivity|].
    destruct args as [|a rest]; [reflexivity|]. unfold args_fresh in Hf. cbn [forallb] in Hf.
    apply andb_prop in Hf as [Ha Hr]. rewrite (IH rest Hr). destruct a as [e|[body fi]]; [|reflexivity].
    rewrite (eval_raw_sim z w r1 r2 e Ha H). reflexivity.
  Qed.

  (** what evaluated arguments can hold, given fresh arguments *)
  Definition bound_fresh (bs : list (str * argval)) : Prop :=
    Forall (fun pv => match snd pv with
                      | AVInt _ => True
                      | AVCode b _ => forallb afresh b = true
                      | AVDeferred e => expr_fresh z e = true
                      end) bs.
  Lemma eval_macro_args_fresh r : forall ps args bs, args_fresh args = true ->
    eval_macro_args w r ps args = Ok bs -> bound_fresh bs.
  Proof.
    induction ps as [|p ps IH]; intros args bs Hf; cbn [eval_macro_args].
    - intros X; inversion X; constructor.
    - destruct args as [|a rest]; [discriminate|]. unfold args_fresh in Hf. cbn [forallb] in Hf.
      apply andb_prop in Hf as [Ha Hr].
      destruct a as [e|[body fi]].
      + destruct (eval_raw w r e) as [v|[]|]; cbn [bind]; try discriminate;
          (destruct (eval_macro_args w r ps rest) as [tl| |] eqn:E; cbn [bind]; try discriminate;
           intros X; inversion X; subst; constructor; [cbn [snd]; auto|eapply IH; eauto]).
      + cbn [bind]. destruct (eval_macro_args w r ps rest) as [tl| |] eqn:E; cbn [bind]; try discriminate.
        intros X; inversion X; subst. constructor; [cbn [snd]; auto|eapply IH; eauto].
  Qed.

  Lemma bind_macro_args_sim bs : bound_fresh bs -> forall r1 r2, sim z r1 r2 -> code_fresh r2 ->
    sim z (fst (bind_macro_args r1 bs)) (fst (bind_macro_args r2 bs)) /\
    code_fresh (fst (bind_macro_args r2 bs)) /\
    snd (bind_macro_args r1 bs) = snd (bind_macro_args r2 bs) /\
    nodes_fresh z (snd (bind_macro_args r2 bs)) = true.
  Proof.
    induction 1 as [|[p v] bs Hv Hbs IH]; intros r1 r2 H Hc; cbn [bind_macro_args]; [auto|].
    cbn [snd] in Hv. destruct v as [x|body fi|e].
    - apply IH; auto using sim_add_symbol. apply cf_upd; auto.
    - apply IH; auto using sim_add_code, cf_add_code.
    - destruct (IH r1 r2 H Hc) as (A & B & D & E).
      destruct (bind_macro_args r1 bs) as [ra na], (bind_macro_args r2 bs) as [rb nb].
      cbn [fst snd] in *. subst nb. refine (conj A (conj B (conj eq_refl _))).
      unfold nodes_fresh in *. cbn [forallb node_fresh]. rewrite Hv, E. reflexivity.
  Qed.

  (** ** Code generation *)
  Definition cgsim (s1 s2 : cgstate) : Prop :=
    sim z (cg_r s1) (cg_r s2) /\ mrel (cg_macros s1) (cg_macros s2) /\ code_fresh (cg_r s2).
  Definition grel (x y : cgstate * list node) : Prop :=
    cgsim (fst x) (fst y) /\ mins w z (snd x) (snd y) /\ nodes_fresh z (snd y) = true.
  Definition gen_resp (gen : cgstate -> list ast -> res (cgstate * list node)) : Prop :=
    forall s1 s2 b1 b2, cgsim s1 s2 -> lins b1 b2 -> forallb afresh b2 = true ->
    res_rel grel (gen s1 b1) (gen s2 b2).

  Lemma nodes_fresh_app a b : nodes_fresh z a = true -> nodes_fresh z b = true -> nodes_fresh z (a ++ b) = true.
  Proof. unfold nodes_fresh. intros A B. rewrite forallb_app, A, B. reflexivity. Qed.

  Lemma grel_same s1 s2 ns : cgsim s1 s2 -> nodes_fresh z ns = true -> res_rel grel (Ok (s1, ns)) (Ok (s2, ns)).
  Proof. intros H Hn. refine (conj H (conj _ Hn)). apply mins_refl. Qed.
  Lemma cgsim_set_r s1 s2 ra rb : cgsim s1 s2 -> sim z ra rb -> code_fresh rb -> cgsim (cg_set_r s1 ra) (cg_set_r s2 rb).
  Proof. intros (_ & Hm & _) Hr Hc. refine (conj Hr (conj Hm Hc)). Qed.

  Lemma seq_rel (A1 A2 : res (cgstate * list node)) (B1 B2 : cgstate -> res (cgstate * list node)) :
    res_rel grel A1 A2 -> (forall sa sb, cgsim sa sb -> res_rel grel (B1 sa) (B2 sb)) ->
    res_rel grel (do x <- A1; do y <- B1 (fst x); Ok (fst y, snd x ++ snd y))
                 (do x <- A2; do y <- B2 (fst x); Ok (fst y, snd x ++ snd y)).
  Proof.
    intros HA HB. eapply res_rel_bind; [exact HA|].
    intros [sa na] [sb nb] (Hs & Hn & Hf). cbn [fst snd] in *.
    eapply res_rel_bind; [apply HB; exact Hs|].
    intros [sa' na'] [sb' nb'] (Hs' & Hn' & Hf'). cbn [fst snd] in *. cbn [res_rel].
    refine (conj Hs' (conj _ _)); cbn [fst snd]; [apply mins_app; assumption|apply nodes_fresh_app; assumption].
  Qed.

  Lemma restore_scope_cf r1 r2 e : sim z r1 r2 -> code_fresh r2 ->
    res_rel (fun x y => sim z x y /\ code_fresh y) (restore_scope r1 e) (restore_scope r2 e).
  Proof.
    intros H Hc. pose proof (restore_scope_sim z r1 r2 e H) as HR.
    destruct (restore_scope r1 e) as [ra| |], (restore_scope r2 e) as [rb| |] eqn:E2; cbn [res_rel] in *; auto.
    split; [exact HR|eapply cf_restore; eauto].
  Qed.

  Lemma scoped_sim gen k s1 s2 pre b1 b2 :
    gen_resp gen -> cgsim s1 s2 -> lins b1 b2 -> forallb afresh b2 = true ->
    (forall ra rb, sim z ra rb -> code_fresh rb ->
       sim z (fst (pre ra)) (fst (pre rb)) /\ code_fresh (fst (pre rb)) /\
       snd (pre ra) = snd (pre rb) /\ nodes_fresh z (snd (pre rb)) = true) ->
    res_rel grel (scoped gen k s1 pre b1) (scoped gen k s2 pre b2).
  Proof.
    intros Hgen (Hr & Hm & Hc) Hb Hf Hpre. unfold scoped.
    pose proof (enter_scope_sim _ _ k Hr) as HE.
    destruct (enter_scope (cg_r s1) k) as [ra| |], (enter_scope (cg_r s2) k) as [rb| |] eqn:E2;
      cbn [res_rel] in HE; try contradiction; cbn [bind res_rel]; auto.
    destruct (Hpre ra rb HE (cf_enter _ _ _ Hc E2)) as (P1 & P2 & P3 & P4).
    destruct (pre ra) as [ra2 pn1], (pre rb) as [rb2 pn2]. cbn [fst snd] in *. subst pn1.
    eapply res_rel_bind; [apply Hgen; [exact (conj P1 (conj Hm P2))|exact Hb|exact Hf]|].
    intros [sa na] [sb nb] ((Hr' & Hm' & Hc') & Hn & Hnf). cbn [fst snd] in *.
    eapply res_rel_bind; [apply restore_scope_cf; eauto|].
    intros r3a r3b [H3 Hc3]. cbn [res_rel]. refine (conj (conj H3 (conj Hm' Hc3)) (conj _ _)); cbn [fst snd].
    - constructor. apply mins_app; [apply mins_refl|]. apply mins_app; [exact Hn|apply mins_refl].
    - unfold nodes_fresh in *. cbn [forallb node_fresh]. rewrite !forallb_app, P4, Hnf. reflexivity.
  Qed.

  Lemma scoped_sim_id gen k s1 s2 ns0 b1 b2 :
    gen_resp gen -> cgsim s1 s2 -> lins b1 b2 -> forallb afresh b2 = true -> nodes_fresh z ns0 = true ->
    res_rel grel (scoped gen k s1 (fun r => (r, ns0)) b1) (scoped gen k s2 (fun r => (r, ns0)) b2).
  Proof.
    intros Hgen H Hb Hf Hn. apply (scoped_sim gen k s1 s2 (fun r => (r, ns0)) b1 b2 Hgen H Hb Hf).
    intros ra rb A B. cbn [fst snd]. auto.
  Qed.

  Section Step.
    Variable gen : cgstate -> list ast -> res (cgstate * list node).
    Hypothesis Hgen : gen_resp gen.

    Lemma for_loop_sim v b1 b2 : lins b1 b2 -> forallb afresh b2 = true -> forall n k s1 s2, cgsim s1 s2 ->
      res_rel grel (for_loop gen n k v b1 s1) (for_loop gen n k v b2 s2).
    Proof.
      intros Hb Hf. induction n as [|n IH]; intros k s1 s2 H; cbn [for_loop].
      - apply grel_same; auto.
      - apply seq_rel; [apply scoped_sim_id; auto|]. intros sa sb Hab. apply IH; auto.
    Qed.

    Lemma gen_one_sim s1 s2 a1 a2 : cgsim s1 s2 -> ains a1 a2 -> afresh a2 = true ->
      res_rel grel (gen_one w gen s1 a1) (gen_one w gen s2 a2).
    Proof.
      intros H Ha Hf. pose proof H as (Hr & Hm & Hc).
      destruct a2; cbn [afresh] in Hf.
      - (* ABlock *) destruct (ains_block _ _ _ Ha) as (b1 & -> & Hb). cbn [gen_one]. apply Hgen; auto.
      - (* ACompound *) destruct (ains_compound _ _ _ Ha) as (b1 & -> & Hb). cbn [gen_one]. apply scoped_sim_id; auto.
      - (* ALabel *) inversion Ha; subst. apply grel_same; auto.
      - (* AText *) inversion Ha; subst. cbn [gen_one]. rewrite (get_table_sim _ _ Hr).
        apply res_rel_bind_same; intros t _. apply grel_same; auto.
      - (* AAscii *) inversion Ha; subst. apply grel_same; auto.
      - (* AScope *) destruct (ains_scope _ _ _ _ _ Ha) as (b1 & -> & Hb). cbn [gen_one]. apply scoped_sim_id; auto.
      - (* AStarEq *) inversion Ha; subst. apply grel_same; auto. unfold nodes_fresh. cbn [forallb node_fresh]. rewrite Hf. reflexivity.
      - (* AAtEq *) inversion Ha; subst. apply grel_same; auto. unfold nodes_fresh. cbn [forallb node_fresh]. rewrite Hf. reflexivity.
      - (* AMap *) inversion Ha; subst. cbn [gen_one]. eapply res_rel_bind; [apply generate_map_sim; eauto|].
        intros ra rb [Hab Hcb]. apply grel_same; auto. apply cgsim_set_r; auto.
      - (* AIf *) destruct (ains_if _ _ _ _ _ _ Ha) as (th1 & el1 & -> & Hth & Hel). cbn [gen_one].
        apply andb_prop in Hf as [Hf Hfe]. apply andb_prop in Hf as [Hfc Hft].
        rewrite (if_condition_sim _ _ c Hfc Hr). apply res_rel_bind_same; intros cond _.
        destruct cond; [apply Hgen; auto|].
        destruct Hel as [|eb1 eb2 efi Heb]; [apply grel_same; auto|apply Hgen; auto].
      - (* AMacro *) destruct (ains_macro _ _ _ _ _ _ Ha) as (b1 & -> & Hb). cbn [gen_one res_rel].
        refine (conj _ (conj (mi_nil w z) eq_refl)). cbn [fst].
        refine (conj Hr (conj _ Hc)). cbn [cg_macros]. apply mrel_set; auto. repeat split; auto.
      - (* AMacroApply *) inversion Ha; subst. cbn [gen_one].
        pose proof (mrel_get _ _ name Hm) as Hg.
        destruct (dict_get (cg_macros s1) name) as [md1|], (dict_get (cg_macros s2) name) as [md2|];
          try contradiction; [|reflexivity].
        destruct Hg as (Hp & Hb & Hbf). rewrite Hp.
        rewrite (eval_macro_args_sim _ _ Hr (md_params md2) args Hf).
        destruct (eval_macro_args w (cg_r s2) (md_params md2) args) as [bound| |] eqn:E; cbn [bind res_rel]; auto.
        apply scoped_sim; auto.
        intros ra rb Hab Hcb. apply bind_macro_args_sim; auto. eapply eval_macro_args_fresh; eauto.
      - (* AData *) inversion Ha; subst. apply grel_same; auto. unfold nodes_fresh.
        rewrite forallb_map'. exact Hf.
      - (* ATable *) inversion Ha; subst. cbn [gen_one]. apply res_rel_bind_same; intros t _. apply grel_same; auto.
        apply cgsim_set_r; auto.
        + rewrite (sm_cur _ _ _ Hr). apply sim_upd; auto using ssim_set_table.
        + apply cf_upd; auto.
      - (* AIncludeIps *) inversion Ha; subst. cbn [gen_one]. rewrite (eval_raw_sim z w _ _ e Hf Hr).
        apply res_rel_bind_same; intros delta _. apply res_rel_bind_same; intros blocks _. apply grel_same; auto.
      - (* AIncbin *) inversion Ha; subst. cbn [gen_one]. apply res_rel_bind_same; intros c _. apply grel_same; auto.
      - (* ASymbol *) inversion Ha; subst. apply grel_same; auto. unfold nodes_fresh. cbn [forallb node_fresh]. rewrite Hf. reflexivity.
      - (* AAssign *) inversion Ha; subst. cbn [gen_one]. rewrite (eval_raw_sim z w _ _ e Hf Hr).
        apply res_rel_bind_same; intros v _. apply grel_same; auto.
        apply cgsim_set_r; auto using sim_add_symbol. apply cf_upd; auto.
      - (* ACodeLookup *) inversion Ha; subst. cbn [gen_one].
        assert (Hq : inK z name = false) by (destruct (inK z name); [discriminate|reflexivity]).
        rewrite (value_for_sim _ _ name Hq Hr).
        destruct (value_for (cg_r s2) name) as [[x|body bfi]|k|] eqn:E; try reflexivity.
        apply Hgen; auto using lins_refl. eapply value_for_code; eauto.
      - (* AStruct *) inversion Ha; subst. reflexivity.
      - (* AFor *) destruct (ains_for _ _ _ _ _ _ _ Ha) as (b1 & -> & Hb). cbn [gen_one].
        apply andb_prop in Hf as [Hf Hfb]. apply andb_prop in Hf as [Hlo Hhi].
        rewrite (eval_raw_sim z w _ _ lo Hlo Hr), (eval_raw_sim z w _ _ hi Hhi Hr).
        apply res_rel_bind_same; intros from _. apply res_rel_bind_same; intros to _.
        apply for_loop_sim; auto.
      - (* AOpcode *) inversion Ha; subst. cbn [gen_one].
        destruct mode; try (apply grel_same; auto; fail);
          (destruct operand as [e|]; [apply grel_same; auto; unfold nodes_fresh; cbn [forallb node_fresh]; cbn [ofresh] in Hf; rewrite Hf; reflexivity|reflexivity]).
    Qed.

    (** an inserted statement: the state stays related, at most one definition node comes out *)
    Lemma gen_one_def s1 s2 d : is_defa d -> cgsim s1 s2 ->
      exists s1' dn, gen_one w gen s1 d = Ok (s1', dn) /\ cgsim s1' s2 /\
                     (dn = [] \/ exists n, dn = [n] /\ is_defn w z n).
    Proof.
      intros [(fi & ->)|[(e & fi & k & -> & He)|(e & fi & k & -> & He)]] H; cbn [gen_one].
      - exists s1, [NLabel z]. split; [reflexivity|]. split; [exact H|]. right. eexists; split; [reflexivity|].
        left. left. reflexivity.
      - exists s1, [NSymbol z e false]. split; [reflexivity|]. split; [exact H|]. right. eexists; split; [reflexivity|].
        right. eauto.
      - rewrite (He (cg_r s1)). cbn [bind]. eexists _, []. split; [reflexivity|]. split; [|left; reflexivity].
        destruct H as (Hr & Hm & Hc). refine (conj _ (conj Hm Hc)). cbn [cg_set_r cg_r].
        apply sim_add_symbol_l; auto using inK_self.
    Qed.

    Lemma gen_list_sim b1 b2 : lins b1 b2 -> forallb afresh b2 = true -> forall s1 s2, cgsim s1 s2 ->
      res_rel grel (gen_list w gen s1 b1) (gen_list w gen s2 b2).
    Proof.
      induction 1 as [|a1 a2 l1 l2 Ha Hl IH|d l1 l2 Hd Hl IH]; intros Hf s1 s2 H; cbn [gen_list].
      - apply grel_same; auto.
      - cbn [forallb] in Hf. apply andb_prop in Hf as [Hfa Hfl].
        apply (seq_rel _ _ (fun s => gen_list w gen s l1) (fun s => gen_list w gen s l2)).
        + apply gen_one_sim; auto.
        + intros sa sb Hab. apply IH; auto.
      - destruct (gen_one_def s1 s2 d Hd H) as (s1' & dn & E & Hs & Hdn). rewrite E. cbn [bind fst snd].
        pose proof (IH Hf s1' s2 Hs) as HR.
        destruct (gen_list w gen s1' l1) as [[sa na]| |], (gen_list w gen s2 l2) as [[sb nb]| |];
          cbn [res_rel bind fst snd] in *; auto.
        destruct HR as (A & B & D). cbn [fst snd] in *. refine (conj A (conj _ D)). cbn [fst snd].
        destruct Hdn as [->|(n & -> & Hn)]; [exact B|]. cbn [app]. constructor; assumption.
    Qed.
  End Step.

  Theorem code_gen_sim fuel : gen_resp (code_gen_fuel w fuel).
  Proof.
    induction fuel as [|f IH]; intros s1 s2 b1 b2 H Hb Hf; cbn [code_gen_fuel]; [reflexivity|].
    apply gen_list_sim; auto.
  Qed.

  (** ** The programs *)
  Theorem assemble_ast_ins r1 r2 prog1 prog2 :
    lins prog1 prog2 -> prog_fresh prog2 = true -> sim z r1 r2 -> code_fresh r2 ->
    res_rel (osim z) (assemble_ast w r1 prog1) (assemble_ast w r2 prog2).
  Proof.
    intros Hl Hf Hr Hc. unfold assemble_ast.
    eapply res_rel_bind.
    - apply (code_gen_sim cg_depth); [|exact Hl|exact Hf].
      refine (conj Hr (conj _ Hc)). constructor.
    - intros [sa na] [sb nb] ((Hr' & _ & _) & Hn & Hnf). cbn [fst snd] in *.
      apply assemble_nodes_mins; auto.
  Qed.
End AstNI.

(** C08, non-interference for programs.  Definitions of [z] ([z:], [z = literal], [z := literal])
    inserted anywhere in the statement tree of a program in which no identifier token and no spliced
    name is z-derived: same writer blocks / same kind of error, same labels up to z-derived names. *)
Theorem noninterference_ast w r z prog1 prog2 :
  lins w z prog1 prog2 -> prog_fresh z prog2 = true -> code_fresh z r ->
  match assemble_ast w r prog1, assemble_ast w r prog2 with
  | Ok o1, Ok o2 => o_blocks o1 = o_blocks o2 /\ without z (o_labels o1) = without z (o_labels o2)
  | Err j, Err k => j = k
  | OutOfFuel, OutOfFuel => True
  | _, _ => False
  end.
Proof.
  intros Hl Hf Hc.
  pose proof (assemble_ast_ins w z r r prog1 prog2 Hl Hf (sim_refl z r) Hc) as H.
  destruct (assemble_ast w r prog1), (assemble_ast w r prog2); cbn [res_rel] in H; auto.
  destruct H as (A & B & _). auto.
Qed.

(** ** Examples (world of [NIExamples]) *)
Module NIAstExamples.
  Import NonInterference.NIExamples.
  Notation z_ := [122]. Notation i_ := [105]. Notation a_ := [97]. Notation c_ := [99]. Notation m_ := [109].
  Definition num (c : Z) : expr := [{| en_kind := EK_term; en_tok := mk_token T_NUMBER [c] |}].
  Definition ex_r0 : rstate :=
    {| r_scopes := [new_scope None SPlain]; r_cur := 0; r_last := 0; r_pc := 0;
       r_reloc := {| a_bus := lorom; a_val := 0 |}; r_bus := empty_bus; r_rom := LowRom |}.

  (** *=0x8000   .macro m(a) { .db a }   .for i := 0, 2 { m(i) }   .if 1 { .db 7 }   c: *)
  Definition prog2 : list ast :=
    [AStarEq num8000 fi; AMacro m_ [a_] [AData D_db [ident a_] fi] fi fi;
     AFor i_ (num 48) (num 50) [AMacroApply m_ [inl (ident i_)] fi] fi fi;
     AIf (num 49) [AData D_db [num 55] fi] fi None fi; ALabel c_ fi].
  (** with [z = 5] in front, [z:] inside the macro body, [z := 1] inside the loop body, [z:] inside
      the [.if] branch *)
  Definition prog1 : list ast :=
    [ASymbol z_ (num 53) fi; AStarEq num8000 fi;
     AMacro m_ [a_] [ALabel z_ fi; AData D_db [ident a_] fi] fi fi;
     AFor i_ (num 48) (num 50) [AAssign z_ (num 49) fi; AMacroApply m_ [inl (ident i_)] fi] fi fi;
     AIf (num 49) [ALabel z_ fi; AData D_db [num 55] fi] fi None fi; ALabel c_ fi].

  Example prog_ins : lins ex_world z_ prog1 prog2.
  Proof.
    apply li_ins; [right; left; exists (num 53), fi, 5; split; [reflexivity|intros r0; reflexivity]|].
    apply li_cons; [apply ai_same|].
    apply li_cons; [apply ai_macro; apply li_ins; [left; eexists; reflexivity|apply lins_refl]|].
    apply li_cons; [apply ai_for; apply li_ins;
                    [right; right; exists (num 49), fi, 1; split; [reflexivity|intros r0; reflexivity]|apply lins_refl]|].
    apply li_cons; [apply ai_if; [apply li_ins; [left; eexists; reflexivity|apply lins_refl]|constructor]|].
    apply lins_refl.
  Qed.
  Example prog2_fresh : prog_fresh z_ prog2 = true. Proof. reflexivity. Qed.
  Example r0_code_fresh : code_fresh z_ ex_r0. Proof. repeat constructor. Qed.

  Example applies :
    match assemble_ast ex_world ex_r0 prog1, assemble_ast ex_world ex_r0 prog2 with
    | Ok o1, Ok o2 => o_blocks o1 = o_blocks o2 /\ without z_ (o_labels o1) = without z_ (o_labels o2)
    | Err j, Err k => j = k
    | OutOfFuel, OutOfFuel => True
    | _, _ => False
    end.
  Proof. apply noninterference_ast; [exact prog_ins|exact prog2_fresh|exact r0_code_fresh]. Qed.
  Example values :
    view (assemble_ast ex_world ex_r0 prog1)
      = Ok ([([0; 1; 7], 0)], [(z_, 32770); (c_, 32771); (z_, 32768); (z_, 32769)]) /\
    view (assemble_ast ex_world ex_r0 prog2) = Ok ([([0; 1; 7], 0)], [(c_, 32771)]).
  Proof. split; vm_compute; reflexivity. Qed.

  (** the hypothesis covers [.if] conditions: an undefined name is false, so [z := 1] in front of
      [.if z { .db 1 }] changes the program *)
  Definition cond_prog : list ast := [AStarEq num8000 fi; AIf (ident z_) [AData D_db [num 49] fi] fi None fi].
  Example cond_not_fresh : prog_fresh z_ cond_prog = false. Proof. reflexivity. Qed.
  Example cond_with : view (assemble_ast ex_world ex_r0 (AAssign z_ (num 49) fi :: cond_prog)) = Ok ([([1], 0)], []).
  Proof. vm_compute. reflexivity. Qed.
  Example cond_without : view (assemble_ast ex_world ex_r0 cond_prog) = Ok ([], []).
  Proof. vm_compute. reflexivity. Qed.
End NIAstExamples.

Print Assumptions assemble_nodes_mins.
Print Assumptions code_gen_sim.
Print Assumptions noninterference_ast.
