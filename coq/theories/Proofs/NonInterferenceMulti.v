(** C08 non-interference, node level, any number of insertions.

    [mins ns1 ns2]: [ns1] is [ns2] with zero-size definitions of [z] inserted at any number of
    places (a macro body or a loop body with an inserted definition is generated several times).
    The inserted nodes are [NLabel z], [NSymConst z k] and [NSymbol z e false] with [e] a closed
    literal (the node of the statement [z = 5]).  From related resolver states the two node lists
    assemble to the same writer blocks / the same error kind, labels equal up to z-derived names. *)
From Coq Require Import ZArith List Lia Bool Arith.
From A816 Require Import Model.Program Proofs.BusProofs Proofs.ResolverProofs Proofs.ProgramProofs
     Proofs.EvalCongr Proofs.NonInterference.
Open Scope Z_scope.

Section Multi.
  Variable w : world.
  Variable z : str.

  (** [e] denotes [k] whatever the resolver state *)
  Definition lit (e : expr) (k : Z) : Prop := forall r, eval_raw w r e = Ok k.

  Definition is_defn (d : node) : Prop :=
    is_def z d \/ exists e k, d = NSymbol z e false /\ lit e k.

  Inductive mins : list node -> list node -> Prop :=
  | mi_nil : mins [] []
  | mi_cons n l1 l2 : mins l1 l2 -> mins (n :: l1) (n :: l2)
  | mi_ins d l1 l2 : is_defn d -> mins l1 l2 -> mins (d :: l1) l2.

  Lemma mins_refl l : mins l l.
  Proof. induction l; constructor; auto. Qed.
  Lemma mins_app a1 a2 b1 b2 : mins a1 a2 -> mins b1 b2 -> mins (a1 ++ b1) (a2 ++ b2).
  Proof. induction 1; intros Hb; cbn [app]; auto; constructor; auto. Qed.

  (** the three steps on an inserted node *)
  Lemma label_step_defn d r1 r2 a : is_defn d -> sim z r1 r2 ->
    exists r1', (if is_symbol_node d then Ok (r1, a) else pc_after w r1 d a) = Ok (r1', a) /\ sim z r1' r2.
  Proof.
    intros [Hd|(e & k & -> & He)] H; [apply label_step_def; auto|].
    cbn [is_symbol_node]. eauto.
  Qed.

  Lemma symbol_step_defn d r1 r2 a post : is_defn d -> sim z r1 r2 ->
    exists r1', symbol_pass w r1 (d :: post) a = symbol_pass w r1' post a /\ sim z r1' r2.
  Proof.
    intros [Hd|(e & k & -> & He)] H; [apply symbol_step_def; auto|].
    cbn [symbol_pass is_label_or_binary pc_after]. rewrite (He r1). cbn [bind fst snd].
    eexists; split; [reflexivity|]. apply sim_add_symbol_l; auto using inK_self.
  Qed.

  Lemma emit_step_defn st d x : is_defn d ->
    emit_step w st d x =
    if a_val (r_reloc (e_r st)) =? x
    then Ok {| e_r := e_r st; e_block := e_block st ++ []; e_baddr := e_baddr st; e_out := e_out st |}
    else Err ERuntime.
  Proof.
    intros [Hd|(e & k & -> & He)]; [apply (emit_step_def z); auto|].
    unfold emit_step; cbn [node_emit bind is_codepos]; destruct (_ =? _); reflexivity.
  Qed.

  (** node lists and address lists side by side: each inserted node duplicates the address of
      whatever follows it *)
  Inductive jrel : list node -> list Z -> list node -> list Z -> Prop :=
  | j_nil x : jrel [] [x] [] [x]
  | j_cons n l1 a1 l2 a2 x : jrel l1 a1 l2 a2 -> jrel (n :: l1) (x :: a1) (n :: l2) (x :: a2)
  | j_ins d l1 a1 l2 a2 x : is_defn d -> jrel l1 (x :: a1) l2 a2 -> jrel (d :: l1) (x :: x :: a1) l2 a2.

  Lemma jrel_hd l1 a1 l2 a2 : jrel l1 a1 l2 a2 -> exists x t1 t2, a1 = x :: t1 /\ a2 = x :: t2.
  Proof.
    induction 1 as [x|n l1 a1 l2 a2 x H IH|d l1 a1 l2 a2 x Hd H IH]; eauto.
    destruct IH as (y & t1 & t2 & E1 & E2). inversion E1; subst. eauto.
  Qed.
  Lemma jrel_len l1 a1 l2 a2 : jrel l1 a1 l2 a2 -> length a2 = S (length l2).
  Proof. induction 1; cbn [length]; auto. Qed.

  Definition jsim (ns1 ns2 : list node) (x y : rstate * addr * list Z) : Prop :=
    sim z (fst (fst x)) (fst (fst y)) /\ snd (fst x) = snd (fst y) /\
    jrel ns1 (snd x ++ [a_val (snd (fst x))]) ns2 (snd y ++ [a_val (snd (fst y))]).

  Lemma label_run_mins ns1 ns2 : mins ns1 ns2 -> nodes_fresh z ns2 = true -> forall r1 r2 a, sim z r1 r2 ->
    res_rel (jsim ns1 ns2) (label_run w r1 ns1 a) (label_run w r2 ns2 a).
  Proof.
    unfold nodes_fresh. induction 1 as [|n l1 l2 Hm IH|d l1 l2 Hd Hm IH]; intros Hf r1 r2 a H.
    - cbn [label_run res_rel]. unfold jsim. cbn [fst snd app]. split; [exact H|]. split; [reflexivity|constructor].
    - cbn [forallb] in Hf. apply andb_prop in Hf as [Hn Hns]. cbn [label_run].
      eapply res_rel_bind with (R := psim z).
      + destruct (is_symbol_node n); [split; auto|apply pc_after_sim; auto].
      + intros [ra a1] [rb a2] [Hs Ha]. cbn [fst snd] in *. subst a2.
        eapply res_rel_bind; [apply IH; eauto|].
        intros [[ra' a1'] la] [[rb' a2'] lb] (Hs' & Ha' & Hj). cbn [fst snd] in *. subst.
        cbn [res_rel]. unfold jsim. cbn [fst snd app]. split; [exact Hs'|]. split; [reflexivity|]. constructor. exact Hj.
    - cbn [label_run]. destruct (label_step_defn d r1 r2 a Hd H) as (r1' & E & Hs). rewrite E. cbn [bind fst snd].
      pose proof (IH Hf r1' r2 a Hs) as HR.
      destruct (label_run w r1' l1 a) as [[[ra a1] la]| |] eqn:E1, (label_run w r2 l2 a) as [[[rb a2] lb]| |];
        cbn [res_rel bind] in *; auto.
      destruct HR as (S & A & J). cbn [fst snd] in *. subst a2.
      destruct (label_run_head _ _ _ _ _ _ _ E1) as (t & Ht & _).
      unfold jsim. cbn [fst snd app]. split; [exact S|]. split; [reflexivity|].
      rewrite Ht in J |- *. constructor; assumption.
  Qed.

  Lemma symbol_pass_mins ns1 ns2 : mins ns1 ns2 -> nodes_fresh z ns2 = true -> forall r1 r2 a, sim z r1 r2 ->
    res_rel (psim z) (symbol_pass w r1 ns1 a) (symbol_pass w r2 ns2 a).
  Proof.
    unfold nodes_fresh. induction 1 as [|n l1 l2 Hm IH|d l1 l2 Hd Hm IH]; intros Hf r1 r2 a H.
    - split; auto.
    - cbn [forallb] in Hf. apply andb_prop in Hf as [Hn Hns]. cbn [symbol_pass].
      destruct (is_label_or_binary n); [apply IH; auto|].
      eapply res_rel_bind; [apply pc_after_sim; eauto|].
      intros [ra a1] [rb a2] [Hs Ha]. cbn [fst snd] in *. subst a2. apply IH; auto.
    - destruct (symbol_step_defn d r1 r2 a l1 Hd H) as (r1' & E & Hs). rewrite E. apply IH; auto.
  Qed.

  Lemma emit_loop_mins ns1 a1 ns2 a2 : jrel ns1 a1 ns2 a2 -> nodes_fresh z ns2 = true ->
    forall s1 s2, esim z s1 s2 -> res_rel (esim z) (emit_loop w s1 ns1 a1) (emit_loop w s2 ns2 a2).
  Proof.
    unfold nodes_fresh. induction 1 as [x|n l1 a1 l2 a2 x Hj IH|d l1 a1 l2 a2 x Hd Hj IH]; intros Hf s1 s2 H.
    - cbn [emit_loop]. rewrite (sm_reloc _ _ _ (es_r _ _ _ H)). destruct (negb _); [reflexivity|exact H].
    - cbn [forallb] in Hf. apply andb_prop in Hf as [Hn Hns]. cbn [emit_loop].
      eapply res_rel_bind; [apply emit_step_sim; eauto|]. intros sa sb Hab. apply IH; auto.
    - cbn [emit_loop]. rewrite (emit_step_defn s1 d x Hd).
      destruct (a_val (r_reloc (e_r s1)) =? x) eqn:E; cbn [bind].
      + apply IH; auto. destruct H as [Hr Hb Ha Ho].
        constructor; cbn [e_r e_block e_baddr e_out]; auto. rewrite app_nil_r. exact Hb.
      + rewrite (sm_reloc _ _ _ (es_r _ _ _ H)) in E.
        destruct (jrel_hd _ _ _ _ Hj) as (y & t1 & t2 & E1 & E2). inversion E1; subst y t1 a2.
        pose proof (jrel_len _ _ _ _ Hj) as L. cbn [length] in L.
        rewrite (emit_loop_head_fail w s2 l2 x t2 E) by lia. reflexivity.
  Qed.

  Theorem assemble_nodes_mins ns1 ns2 r1 r2 :
    mins ns1 ns2 -> nodes_fresh z ns2 = true -> sim z r1 r2 ->
    res_rel (osim z) (assemble_nodes w r1 ns1) (assemble_nodes w r2 ns2).
  Proof.
    intros Hm Hf H. unfold assemble_nodes, resolve_labels. rewrite !label_pass_run.
    assert (H0 : sim z (set_cur_last r1 (r_cur r1) 0) (set_cur_last r2 (r_cur r2) 0))
      by (rewrite (sm_cur _ _ _ H); apply sim_set_cur_last; exact H).
    rewrite (sm_reloc _ _ _ H0).
    pose proof (label_run_mins ns1 ns2 Hm Hf _ _ (r_reloc (set_cur_last r2 (r_cur r2) 0)) H0) as HL.
    destruct (label_run w (set_cur_last r1 (r_cur r1) 0) ns1 _) as [[[ra a1] l1]| |],
             (label_run w (set_cur_last r2 (r_cur r2) 0) ns2 _) as [[[rb a2] l2]| |];
      cbn [res_rel] in HL; try contradiction; cbn [bind res_rel fst snd app]; auto.
    destruct HL as (Hs & Ha & Hj). cbn [fst snd] in Hs, Ha, Hj. subst a2.
    pose proof (sim_reset _ _ _ Hs) as Hr. rewrite (sm_reloc _ _ _ Hr).
    pose proof (symbol_pass_mins ns1 ns2 Hm Hf _ _ (r_reloc (resolver_reset rb)) Hr) as HS.
    destruct (symbol_pass w (resolver_reset ra) ns1 _) as [[ra' a1']| |],
             (symbol_pass w (resolver_reset rb) ns2 _) as [[rb' a2']| |];
      cbn [res_rel] in HS; try contradiction; cbn [bind res_rel fst snd]; auto.
    destruct HS as [Hs' _]. cbn [fst] in Hs'.
    unfold emit.
    assert (He : esim z {| e_r := resolver_reset ra'; e_block := []; e_baddr := r_pc (resolver_reset ra'); e_out := [] |}
                        {| e_r := resolver_reset rb'; e_block := []; e_baddr := r_pc (resolver_reset rb'); e_out := [] |}).
    { constructor; cbn [e_r e_block e_baddr e_out]; auto. apply sim_reset; exact Hs'. }
    pose proof (emit_loop_mins _ _ _ _ Hj Hf _ _ He) as HE.
    destruct (emit_loop w _ ns1 _) as [sa| |], (emit_loop w _ ns2 _) as [sb| |];
      cbn [res_rel] in HE; try contradiction; cbn [bind res_rel fst snd]; auto.
    destruct HE as [Hr2 Hb Hba Ho]. unfold osim. cbn [o_blocks o_labels o_final].
    rewrite Hb, Hba, Ho. split; [reflexivity|]. split; [|exact Hr2].
    unfold get_all_labels. apply all_labels_sim. apply (sm_scopes _ _ _ Hr2).
  Qed.
End Multi.

Print Assumptions assemble_nodes_mins.
