(** C01 — proofs about the opcode emitters (Model/Opcode.v) and their agreement with the
    independent ISA matrix (Spec/Isa65816.v).

    1. the width rule: hex-digit count <-> magnitude classes, for all integers;
    2. [emitter_emit] = opcode byte :: little-endian truncation, with its exact rejection
       condition; length agreement;
    3. [get_emitter]: exactly when it rejects;
    4. well-formedness of the matrix (total, injective on (mnemonic, mode));
    5. the table checks [table_ok] / [supported_ok] (boolean, run by [vm_compute] on the
       regenerated live table) and what they imply for an arbitrary table;
    6. end to end: under [table_ok], whatever [opnode_emit] accepts is the ISA encoding. *)
From Coq Require Import ZArith List Lia Bool ZifyBool.
From A816 Require Import Oracle.C01o Proofs.BitLemmas Proofs.PackLemmas Proofs.BusProofs.
Open Scope Z_scope.
Ltac Zify.zify_post_hook ::= Z.to_euclidean_division_equations.

(** ================================================================== 1. the width rule *)

(** number of hex digits <= k  <->  v < 16^k *)
Lemma hex_digits_le v k : 0 < v -> 0 <= k -> (Z.log2 v / 4 + 1 <= k <-> v < 16 ^ k).
Proof.
  intros Hv Hk.
  assert (E : 16 ^ k = 2 ^ (4 * k)) by (rewrite Z.pow_mul_r by lia; reflexivity).
  rewrite E, (Z.log2_lt_pow2 v (4 * k)) by lia.
  pose proof (Z.log2_nonneg v). lia.
Qed.

Lemma hex_len_nonneg v k : 0 <= v -> 1 <= k -> (hex_len v <= k <-> v < 16 ^ k).
Proof.
  intros Hv Hk. unfold hex_len.
  destruct (v =? 0) eqn:E0.
  - assert (v = 0) by lia. subst. split; [intros _; apply Z.pow_pos_nonneg; lia|lia].
  - destruct (v <? 0) eqn:En; [lia|].
    rewrite Z.abs_eq by lia. rewrite Z.add_0_r. apply hex_digits_le; lia.
Qed.

(** A negative value spends one character on its sign. *)
Lemma hex_len_neg v k : v < 0 -> 2 <= k -> (hex_len v <= k <-> - v < 16 ^ (k - 1)).
Proof.
  intros Hv Hk. unfold hex_len.
  destruct (v =? 0) eqn:E0; [lia|]. destruct (v <? 0) eqn:En; [|lia].
  rewrite Z.abs_neq by lia.
  rewrite <- (hex_digits_le (- v) (k - 1)) by lia. lia.
Qed.

(** The property's width rule: without a suffix, the smallest of 1, 2, 3 bytes that holds
    the non-negative operand value. *)
Theorem operand_size_nonneg v : 0 <= v ->
  operand_size v = if v <=? 255 then SzB else if v <=? 65535 then SzW else SzL.
Proof.
  intros Hv. unfold operand_size.
  pose proof (hex_len_nonneg v 2 Hv ltac:(lia)) as H2.
  pose proof (hex_len_nonneg v 4 Hv ltac:(lia)) as H4.
  change (16 ^ 2) with 256 in H2. change (16 ^ 4) with 65536 in H4.
  destruct (hex_len v <=? 2) eqn:E2; destruct (hex_len v <=? 4) eqn:E4;
    destruct (v <=? 255) eqn:F2; destruct (v <=? 65535) eqn:F4; try reflexivity; lia.
Qed.

Theorem operand_size_iff v : 0 <= v ->
  (operand_size v = SzB <-> v <= 255) /\
  (operand_size v = SzW <-> 256 <= v <= 65535) /\
  (operand_size v = SzL <-> 65536 <= v).
Proof.
  intros Hv. rewrite operand_size_nonneg by exact Hv.
  destruct (v <=? 255) eqn:F2; destruct (v <=? 65535) eqn:F4;
    repeat split; intros; try discriminate; try reflexivity; lia.
Qed.

(** What the code does below zero (outside the property; modelled, not specified). *)
Theorem operand_size_neg v : v < 0 ->
  operand_size v = if -16 <? v then SzB else if -4096 <? v then SzW else SzL.
Proof.
  intros Hv. unfold operand_size.
  pose proof (hex_len_neg v 2 Hv ltac:(lia)) as H2.
  pose proof (hex_len_neg v 4 Hv ltac:(lia)) as H4.
  change (16 ^ (2 - 1)) with 16 in H2. change (16 ^ (4 - 1)) with 4096 in H4.
  destruct (hex_len v <=? 2) eqn:E2; destruct (hex_len v <=? 4) eqn:E4;
    destruct (-16 <? v) eqn:F2; destruct (-4096 <? v) eqn:F4; try reflexivity; lia.
Qed.

(** The model's inferred width is the specification's "natural width" on 24-bit values. *)
Lemma natural_width_operand_size v : 0 <= v < 16777216 -> natural_width v = Some (operand_size v).
Proof.
  intros H. rewrite operand_size_nonneg by lia. unfold natural_width.
  destruct (v <? 0) eqn:E0; [lia|].
  destruct (v <=? 255); [reflexivity|]. destruct (v <=? 65535); [reflexivity|].
  destruct (v <=? 16777215) eqn:E; [reflexivity|lia].
Qed.

(** ================================================================== 2. emitters *)

(** guess_value_size on an evaluated operand *)
Definition resolved_width (size : option vsize) (v : Z) : vsize :=
  match size with Some s => s | None => operand_size v end.

Lemma guess_size_ok v size : guess_size (Ok v) size = Ok (resolved_width size v).
Proof. destruct size; reflexivity. Qed.

(** Opcode.emit for every integer operand, every suffix, every opcode_def: the table byte for
    the resolved width followed by the operand truncated to that width, LSB first.  Rejected
    exactly when the table has no byte for the width (NodeError), or a 3-byte operand does not
    fit 24 bits / the table entry is not a byte (struct.error). *)
Theorem emitter_emit_plain defs v size rc :
  emitter_emit (EmPlain defs) (Some (Ok v)) size rc =
  let w := resolved_width size v in
  match opcode_byte defs w with
  | None => Err ENode
  | Some b =>
      if fits w v && byte_ok b
      then Ok (b :: le_bytes (vsize_n w) (v mod 256 ^ Z.of_nat (vsize_n w)))
      else Err EStruct
  end.
Proof.
  cbv zeta. unfold emitter_emit. rewrite guess_size_ok. cbn [bind].
  destruct (opcode_byte defs (resolved_width size v)) as [b|]; [|reflexivity].
  rewrite emit_value_spec. unfold pack_B.
  destruct (fits (resolved_width size v) v); cbn [bind andb]; [|reflexivity].
  destruct (byte_ok b); reflexivity.
Qed.

Corollary emitter_emit_plain_ok defs v size rc b :
  let w := resolved_width size v in
  opcode_byte defs w = Some b -> byte_ok b = true -> fits w v = true ->
  emitter_emit (EmPlain defs) (Some (Ok v)) size rc =
  Ok (b :: le_bytes (vsize_n w) (v mod 256 ^ Z.of_nat (vsize_n w))).
Proof. cbv zeta. intros Hb Hok Hf. rewrite emitter_emit_plain. cbv zeta. rewrite Hb, Hf, Hok. reflexivity. Qed.

(** Accepted  <->  the table has a byte for the width and the operand fits the packing. *)
Corollary emitter_emit_plain_accepts defs v size rc :
  let w := resolved_width size v in
  is_ok (emitter_emit (EmPlain defs) (Some (Ok v)) size rc) = true <->
  exists b, opcode_byte defs w = Some b /\ byte_ok b = true /\ fits w v = true.
Proof.
  cbv zeta. rewrite emitter_emit_plain. cbv zeta. split.
  - destruct (opcode_byte defs (resolved_width size v)) as [b|]; [|discriminate].
    destruct (fits (resolved_width size v) v) eqn:Ef; destruct (byte_ok b) eqn:Eb; cbn [andb is_ok];
      try discriminate.
    intros _. exists b. auto.
  - intros (b & -> & Hk & ->). rewrite Hk. reflexivity.
Qed.

(** ... and it is never silently anything else: every rejection is an explicit error. *)
Corollary emitter_emit_plain_reject defs v size rc :
  let w := resolved_width size v in
  (opcode_byte defs w = None -> emitter_emit (EmPlain defs) (Some (Ok v)) size rc = Err ENode) /\
  (forall b, opcode_byte defs w = Some b -> fits w v = false ->
             emitter_emit (EmPlain defs) (Some (Ok v)) size rc = Err EStruct).
Proof.
  cbv zeta. split.
  - intros H. rewrite emitter_emit_plain. cbv zeta. rewrite H. reflexivity.
  - intros b H Hf. rewrite emitter_emit_plain. cbv zeta. rewrite H, Hf. reflexivity.
Qed.

(** An operand that cannot be evaluated, or no operand at all, is rejected with its error. *)
Lemma emitter_emit_plain_err defs k size rc :
  size = None -> emitter_emit (EmPlain defs) (Some (Err k)) size rc = Err k.
Proof. intros ->. reflexivity. Qed.
Lemma emitter_emit_plain_none defs size rc : emitter_emit (EmPlain defs) None size rc = Err ERuntime.
Proof. reflexivity. Qed.

(** OpcodeWithoutOperand: the single opcode byte, whatever the operand/size. *)
Theorem emitter_emit_noperand b ev size rc :
  byte_ok b = true -> emitter_emit (EmNoOperand b) ev size rc = Ok [b].
Proof. intros H. unfold emitter_emit, pack_B. rewrite H. reflexivity. Qed.

(** supposed_length = 1 + operand width; and it is the length of what emit produces. *)
Theorem emitter_length_plain defs v size :
  emitter_length (EmPlain defs) (Some (Ok v)) size = Ok (1 + Z.of_nat (vsize_n (resolved_width size v))).
Proof.
  unfold emitter_length. rewrite guess_size_ok. cbn [bind]. f_equal. unfold vsize_n. lia.
Qed.

Theorem emit_length_agree e v size rc bs :
  emitter_emit e (Some (Ok v)) size rc = Ok bs ->
  emitter_length e (Some (Ok v)) size = Ok (Z.of_nat (length bs)).
Proof.
  destruct e as [b|b|defs].
  - cbn [emitter_emit emitter_length]. unfold pack_B. destruct (byte_ok b); [|discriminate].
    intros H. assert (bs = [b]) by congruence. subst. reflexivity.
  - cbn [emitter_emit emitter_length bind].
    destruct (addr_physical (rc_bus rc) v) as [[pd|]| |]; cbn [bind]; try discriminate.
    destruct (addr_physical (rc_bus rc) (rc_reloc rc)) as [[h|]| |]; cbn [bind]; try discriminate.
    unfold pack_B, pack_b. destruct (byte_ok b); cbn [bind]; [|discriminate].
    destruct ((-128 <=? pd - rc_pc rc - 2) && (pd - rc_pc rc - 2 <=? 127)); cbn [bind]; [|discriminate].
    intros H. assert (bs = [b] ++ [(pd - rc_pc rc - 2) mod 256]) by congruence. subst. reflexivity.
  - rewrite emitter_emit_plain, emitter_length_plain. cbv zeta.
    destruct (opcode_byte defs (resolved_width size v)) as [b|]; [|discriminate].
    destruct (fits (resolved_width size v) v && byte_ok b); [|discriminate].
    intros H.
    assert (Hb : bs = b :: le_bytes (vsize_n (resolved_width size v))
                       (v mod 256 ^ Z.of_nat (vsize_n (resolved_width size v)))) by congruence.
    rewrite Hb. cbn [length]. rewrite le_bytes_length. f_equal. lia.
Qed.

(** ================================================================== 3. get_emitter *)

Lemma assoc_str_in {V} (l : list (str * V)) k v : assoc_str l k = Some v -> In (k, v) l.
Proof.
  induction l as [|[k' v'] r IH]; cbn [assoc_str]; [discriminate|].
  destruct (str_eqb k k') eqn:E.
  - intros H. apply str_eqb_eq in E. subst. left. congruence.
  - intros H. right. apply IH. exact H.
Qed.

Lemma amode_eqb_eq a b : amode_eqb a b = true <-> a = b.
Proof.
  split; [|intros ->; destruct b; reflexivity].
  destruct a, b; cbv; intros H; try reflexivity; discriminate.
Qed.

Lemma assoc_mode_in {V} (l : list (amode * V)) k v : assoc_mode l k = Some v -> In (k, v) l.
Proof.
  induction l as [|[k' v'] r IH]; cbn [assoc_mode]; [discriminate|].
  destruct (amode_eqb k k') eqn:E.
  - intros H. apply amode_eqb_eq in E. subst. left. congruence.
  - intros H. right. apply IH. exact H.
Qed.

(** _get_emitter: the complete case analysis. *)
Theorem get_emitter_spec t opcode mode index :
  get_emitter t opcode mode index =
  match assoc_str t opcode with
  | None => Err ENode                                   (* unknown mnemonic: NodeError *)
  | Some by_mode =>
      match assoc_mode by_mode mode, index with
      | None, _ => Err ENode                            (* mode not defined: NodeError *)
      | Some (Single e), _ => Ok e                      (* an index is ignored here *)
      | Some (ByIndex _), None => Err ENode             (* "needs an index": NodeError *)
      | Some (ByIndex l), Some i =>
          match assoc_str l i with Some e => Ok e | None => Err EKey end   (* bare KeyError *)
      end
  end.
Proof.
  unfold get_emitter. destruct (assoc_str t opcode) as [bm|]; [|reflexivity].
  destruct (assoc_mode bm mode) as [[e|l]|]; reflexivity.
Qed.

Theorem get_emitter_rejects t opcode mode index :
  (assoc_str t opcode = None -> get_emitter t opcode mode index = Err ENode) /\
  (forall bm, assoc_str t opcode = Some bm -> assoc_mode bm mode = None ->
              get_emitter t opcode mode index = Err ENode) /\
  (forall bm l, assoc_str t opcode = Some bm -> assoc_mode bm mode = Some (ByIndex l) ->
                match index with
                | None => get_emitter t opcode mode index = Err ENode
                | Some i => assoc_str l i = None -> get_emitter t opcode mode index = Err EKey
                end) /\
  get_emitter t opcode mode index <> OutOfFuel.
Proof.
  rewrite get_emitter_spec. repeat split.
  - intros ->. reflexivity.
  - intros bm -> ->. reflexivity.
  - intros bm l -> ->. destruct index as [i|]; [|reflexivity]. intros ->. reflexivity.
  - destruct (assoc_str t opcode) as [bm|]; [|discriminate].
    destruct (assoc_mode bm mode) as [[e|l]|]; try discriminate.
    destruct index as [i|]; [|discriminate]. destruct (assoc_str l i); discriminate.
Qed.

(** Acceptance: the emitter is the one stored under (mnemonic, mode[, index]). *)
Theorem get_emitter_ok t opcode mode index e :
  get_emitter t opcode mode index = Ok e <->
  exists bm, assoc_str t opcode = Some bm /\
    (assoc_mode bm mode = Some (Single e) \/
     exists l i, assoc_mode bm mode = Some (ByIndex l) /\ index = Some i /\ assoc_str l i = Some e).
Proof.
  rewrite get_emitter_spec. split.
  - destruct (assoc_str t opcode) as [bm|]; [|discriminate].
    destruct (assoc_mode bm mode) as [[e'|l]|] eqn:Em; try discriminate.
    + intros H. exists bm. split; [reflexivity|]. left. congruence.
    + destruct index as [i|]; [|discriminate].
      destruct (assoc_str l i) as [e'|] eqn:El; [|discriminate].
      intros H. exists bm. split; [reflexivity|]. right. exists l, i. repeat split; congruence.
  - intros (bm & -> & [-> | (l & i & -> & -> & ->)]); reflexivity.
Qed.

(** ================================================================== 4. the ISA matrix *)

Lemma in_all_bytes b : In b all_bytes <-> 0 <= b < 256.
Proof.
  unfold all_bytes. rewrite in_map_iff. split.
  - intros (n & <- & Hn). apply in_seq in Hn. lia.
  - intros H. exists (Z.to_nat b). split; [lia|]. apply in_seq. lia.
Qed.

Lemma isa_mode_eqb_eq a b : isa_mode_eqb a b = true <-> a = b.
Proof.
  split; [|intros ->; destruct b; reflexivity].
  destruct a, b; cbv; intros H; try reflexivity; discriminate.
Qed.

(** Every opcode byte is defined. *)
Definition isa_total_b : bool :=
  forallb (fun b => match isa b with Some _ => true | None => false end) all_bytes.
Lemma isa_total_b_true : isa_total_b = true. Proof. vm_compute. reflexivity. Qed.
Lemma isa_total : forall b, 0 <= b < 256 -> isa b <> None.
Proof.
  pose proof isa_total_b_true as H.
  unfold isa_total_b in H. rewrite forallb_forall in H.
  intros b Hb. apply in_all_bytes in Hb. specialize (H b Hb). destruct (isa b); [discriminate|discriminate].
Qed.

(** No two opcodes share (mnemonic, addressing mode) — accumulator and implied addressing
    counted as one, since a816 spells both as the bare mnemonic. *)
Definition mode_class (md : isa_mode) : isa_mode := match md with Acc => Imp | m => m end.
Definition inj_pair (b1 b2 : Z) : bool :=
  match isa b1, isa b2 with
  | Some (n1, m1, _), Some (n2, m2, _) =>
      implb (str_eqb n1 n2 && isa_mode_eqb (mode_class m1) (mode_class m2)) (b1 =? b2)
  | _, _ => true
  end.
Lemma isa_inj_b_true : forallb (fun a => forallb (fun b => inj_pair a b) all_bytes) all_bytes = true.
Proof. vm_compute. reflexivity. Qed.
Lemma forallb2_in {A} (f : A -> A -> bool) l x y :
  forallb (fun a => forallb (fun b => f a b) l) l = true -> In x l -> In y l -> f x y = true.
Proof.
  intros H Hx Hy. rewrite forallb_forall in H. specialize (H x Hx).
  rewrite forallb_forall in H. exact (H y Hy).
Qed.
Lemma isa_injective b1 b2 n m1 m2 l1 l2 :
  0 <= b1 < 256 -> 0 <= b2 < 256 ->
  isa b1 = Some (n, m1, l1) -> isa b2 = Some (n, m2, l2) -> mode_class m1 = mode_class m2 -> b1 = b2.
Proof.
  intros H1 H2 E1 E2 Hc. apply in_all_bytes in H1. apply in_all_bytes in H2.
  assert (H : inj_pair b1 b2 = true) by exact (forallb2_in inj_pair all_bytes b1 b2 isa_inj_b_true H1 H2).
  unfold inj_pair in H. rewrite E1, E2, Hc, str_eqb_refl in H.
  assert (Hr : isa_mode_eqb (mode_class m2) (mode_class m2) = true) by (apply isa_mode_eqb_eq; reflexivity).
  rewrite Hr in H. cbn [andb implb] in H. lia.
Qed.

(** The operand length recorded in each row is the one its addressing mode implies
    (immediates excepted: their length is the point of the LM / LX / L1 classes). *)
Definition mode_oplen (md : isa_mode) : option oplen :=
  match md with
  | Imp | Acc => Some L0
  | Imm => None
  | Dp | DpX | DpY | SrS | DpInd | DpIndY | DpIndLong | DpIndLongY | DpXInd | SrSIndY | Rel8 => Some L1
  | Abs | AbsX | AbsY | AbsInd | AbsXInd | AbsIndLong | Rel16 | Blk => Some L2
  | Long | LongX => Some L3
  end.
Definition oplen_code (l : oplen) : Z := match l with L0 => 0 | L1 => 1 | L2 => 2 | L3 => 3 | LM => 4 | LX => 5 end.
Definition oplen_eqb (a b : oplen) : bool := oplen_code a =? oplen_code b.
Lemma oplen_eqb_eq a b : oplen_eqb a b = true <-> a = b.
Proof. split; [|intros ->; destruct b; reflexivity]. destruct a, b; cbv; intros H; try reflexivity; discriminate. Qed.
Definition isa_len_b : bool :=
  forallb (fun b => match isa b with
                    | Some (_, md, l) => match mode_oplen md with Some l' => oplen_eqb l l' | None => negb (oplen_eqb l L0) end
                    | None => false
                    end) all_bytes.
Lemma isa_len_b_true : isa_len_b = true. Proof. vm_compute. reflexivity. Qed.
Lemma isa_len_consistent b n md l :
  0 <= b < 256 -> isa b = Some (n, md, l) ->
  match mode_oplen md with Some l' => l = l' | None => l <> L0 end.
Proof.
  pose proof isa_len_b_true as H.
  unfold isa_len_b in H. rewrite forallb_forall in H.
  intros Hb E. apply in_all_bytes in Hb. specialize (H b Hb). rewrite E in H.
  destruct (mode_oplen md) as [l'|].
  - apply oplen_eqb_eq; exact H.
  - intros ->. discriminate.
Qed.

(** The reading of syntax + width as a mode always picks a mode whose operand has that width. *)
Lemma shape_isa_len sh w md :
  shape_isa sh w = Some md ->
  match mode_oplen md with Some l => len_ok l w = true | None => md = Imm /\ w <> SzL end.
Proof. destruct sh, w; cbn; intros H; inversion H; subst; cbn; try reflexivity; split; congruence. Qed.

Theorem isa_matrix_wf :
  (forall b, 0 <= b < 256 -> isa b <> None) /\
  (forall b1 b2 n m1 m2 l1 l2, 0 <= b1 < 256 -> 0 <= b2 < 256 ->
      isa b1 = Some (n, m1, l1) -> isa b2 = Some (n, m2, l2) -> mode_class m1 = mode_class m2 -> b1 = b2) /\
  (forall b n md l, 0 <= b < 256 -> isa b = Some (n, md, l) ->
      match mode_oplen md with Some l' => l = l' | None => l <> L0 end).
Proof. split; [exact isa_total|split; [exact isa_injective|exact isa_len_consistent]]. Qed.

Lemma find_unique {A} (f : A -> bool) l x :
  In x l -> f x = true -> (forall y, In y l -> f y = true -> y = x) -> find f l = Some x.
Proof.
  induction l as [|a r IH]; intros Hin Hf Hu; [destruct Hin|].
  cbn [find]. destruct (f a) eqn:Ea.
  - f_equal. apply Hu; [left; reflexivity|exact Ea].
  - destruct Hin as [->|Hin]; [congruence|].
    apply IH; [exact Hin|exact Hf|]. intros y Hy. apply Hu. right; exact Hy.
Qed.

Lemma row_matches_inv m md w b :
  row_matches m md w b = true ->
  exists l, isa b = Some (alias m md, md, l) /\ len_ok l w = true.
Proof.
  unfold row_matches. destruct (isa b) as [[[n md'] l]|]; [|discriminate].
  intros H. apply andb_prop in H. destruct H as [H Hl]. apply andb_prop in H. destruct H as [Hn Hm].
  apply str_eqb_eq in Hn. apply isa_mode_eqb_eq in Hm. subst. exists l. split; [reflexivity|exact Hl].
Qed.

(** A byte that matches is THE encoding. *)
Lemma isa_encoding_unique m md w b :
  0 <= b < 256 -> row_matches m md w b = true -> isa_encoding m md w = Some b.
Proof.
  intros Hb Hm. unfold isa_encoding. apply find_unique; [apply in_all_bytes; exact Hb|exact Hm|].
  intros y Hy Hmy. apply in_all_bytes in Hy.
  apply row_matches_inv in Hm. destruct Hm as (l & E & _).
  apply row_matches_inv in Hmy. destruct Hmy as (l' & E' & _).
  exact (isa_injective y b _ _ _ _ _ Hy Hb E' E eq_refl).
Qed.

Lemma isa_encoding_sound m md w b :
  isa_encoding m md w = Some b ->
  0 <= b < 256 /\ exists l, isa b = Some (alias m md, md, l) /\ len_ok l w = true.
Proof.
  unfold isa_encoding. intros H. apply find_some in H. destruct H as [Hin Hm].
  split; [apply in_all_bytes; exact Hin|apply row_matches_inv; exact Hm].
Qed.

Lemma mode_spelled_imp md : mode_spelled Imp md = true <-> mode_class md = Imp.
Proof. destruct md; cbv; split; intros H; try reflexivity; discriminate. Qed.

Lemma row_matches_implied_inv m b :
  row_matches_implied m b = true -> exists md, isa b = Some (m, md, L0) /\ mode_class md = Imp.
Proof.
  unfold row_matches_implied. destruct (isa b) as [[[n md'] l]|]; [|discriminate].
  destruct l; try discriminate.
  intros H. apply andb_prop in H. destruct H as [Hn Hm].
  apply str_eqb_eq in Hn. apply mode_spelled_imp in Hm. subst. exists md'. split; [reflexivity|exact Hm].
Qed.
Lemma isa_implied_unique m b : 0 <= b < 256 -> row_matches_implied m b = true -> isa_implied m = Some b.
Proof.
  intros Hb Hm. unfold isa_implied. apply find_unique; [apply in_all_bytes; exact Hb|exact Hm|].
  intros y Hy Hmy. apply in_all_bytes in Hy.
  apply row_matches_implied_inv in Hm. destruct Hm as (md & E & Hc).
  apply row_matches_implied_inv in Hmy. destruct Hmy as (md' & E' & Hc').
  apply (isa_injective y b _ _ _ _ _ Hy Hb E' E). congruence.
Qed.

Lemma row_matches_rel8_inv m b : row_matches_rel8 m b = true -> isa b = Some (m, Rel8, L1).
Proof.
  unfold row_matches_rel8. destruct (isa b) as [[[n md'] l]|]; [|discriminate].
  destruct md'; try discriminate. destruct l; try discriminate.
  intros Hn. apply str_eqb_eq in Hn. subst. reflexivity.
Qed.
Lemma isa_rel8_unique m b : 0 <= b < 256 -> row_matches_rel8 m b = true -> isa_rel8 m = Some b.
Proof.
  intros Hb Hm. unfold isa_rel8. apply find_unique; [apply in_all_bytes; exact Hb|exact Hm|].
  intros y Hy Hmy. apply in_all_bytes in Hy.
  apply row_matches_rel8_inv in Hm. apply row_matches_rel8_inv in Hmy.
  exact (isa_injective y b _ _ _ _ _ Hy Hb Hmy Hm eq_refl).
Qed.

(** ================================================================== 5. table checks *)

(** The table flattened into (mnemonic, mode, index, kind/width, byte) entries. *)
Record entry := E { e_mn : str; e_mode : amode; e_idx : option str; e_kind : pkind; e_byte : Z }.

Definition emitter_byte (e : emitter) (k : pkind) : option Z :=
  match e, k with
  | EmNoOperand b, PNoOperand => Some b
  | EmRel b, PRel => Some b
  | EmPlain defs, PWidth w => opcode_byte defs w
  | _, _ => None
  end.

Definition emitter_entries (m : str) (md : amode) (idx : option str) (e : emitter) : list entry :=
  match e with
  | EmNoOperand b => [E m md idx PNoOperand b]
  | EmRel b => [E m md idx PRel b]
  | EmPlain defs =>
      flat_map (fun w => match opcode_byte defs w with Some b => [E m md idx (PWidth w) b] | None => [] end)
               [SzB; SzW; SzL]
  end.
Definition opdef_entries (m : str) (md : amode) (d : opdef) : list entry :=
  match d with
  | Single e => emitter_entries m md None e
  | ByIndex l => flat_map (fun ie => emitter_entries m md (Some (fst ie)) (snd ie)) l
  end.
Definition entries (t : optable) : list entry :=
  flat_map (fun r => flat_map (fun md => opdef_entries (fst r) (fst md) (snd md)) (snd r)) t.

Definition is_none {A} (o : option A) : bool := match o with None => true | Some _ => false end.

(** One entry agrees with the independent matrix. *)
Definition entry_ok (e : entry) : bool :=
  let M := str_upper (e_mn e) in
  byte_ok (e_byte e) &&
  match e_kind e with
  | PNoOperand => amode_eqb (e_mode e) M_none && is_none (e_idx e) && row_matches_implied M (e_byte e)
  | PRel => amode_eqb (e_mode e) M_direct && is_none (e_idx e) && row_matches_rel8 M (e_byte e)
  | PWidth w =>
      match shape_mode (e_mode e) (e_idx e) w with
      | Some md => row_matches M md w (e_byte e)
      | None => false
      end
  end.
Definition table_ok (t : optable) : bool := forallb entry_ok (entries t).

(** ... spelled out. *)
Definition entry_sound (e : entry) : Prop :=
  let M := str_upper (e_mn e) in
  0 <= e_byte e < 256 /\
  match e_kind e with
  | PNoOperand =>
      e_mode e = M_none /\ e_idx e = None /\
      exists md, isa (e_byte e) = Some (M, md, L0) /\ (md = Imp \/ md = Acc)
  | PRel =>
      e_mode e = M_direct /\ e_idx e = None /\ isa (e_byte e) = Some (M, Rel8, L1)
  | PWidth w =>
      exists md l, shape_mode (e_mode e) (e_idx e) w = Some md /\
                   isa (e_byte e) = Some (alias M md, md, l) /\ len_ok l w = true
  end.

Lemma byte_ok_range b : byte_ok b = true <-> 0 <= b < 256.
Proof. unfold byte_ok. lia. Qed.

Lemma is_none_eq {A} (o : option A) : is_none o = true -> o = None.
Proof. destruct o; [discriminate|reflexivity]. Qed.

Lemma entry_ok_sound e : entry_ok e = true -> entry_sound e.
Proof.
  unfold entry_ok, entry_sound. cbv zeta. intros H.
  apply andb_prop in H. destruct H as [Hb H]. apply byte_ok_range in Hb. split; [exact Hb|].
  destruct (e_kind e) as [| |w].
  - apply andb_prop in H. destruct H as [H Hm]. apply andb_prop in H. destruct H as [Ha Hi].
    apply amode_eqb_eq in Ha. apply is_none_eq in Hi.
    apply row_matches_implied_inv in Hm. destruct Hm as (md & Em & Hc).
    repeat split; try assumption. exists md. split; [exact Em|]. destruct md; try discriminate; auto.
  - apply andb_prop in H. destruct H as [H Hm]. apply andb_prop in H. destruct H as [Ha Hi].
    apply amode_eqb_eq in Ha. apply is_none_eq in Hi. apply row_matches_rel8_inv in Hm. auto.
  - destruct (shape_mode (e_mode e) (e_idx e) w) as [md|]; [|discriminate].
    apply row_matches_inv in H. destruct H as (l & Em & Hl). exists md, l. auto.
Qed.

(** (1) every entry of a table that passes the check is the ISA's. *)
Theorem table_sound t : table_ok t = true -> forall e, In e (entries t) -> entry_sound e.
Proof.
  unfold table_ok. rewrite forallb_forall. intros H e He. apply entry_ok_sound. apply H. exact He.
Qed.

(** What the model's own lookup returns is an entry of the flattened table. *)
Lemma emitter_entries_in m md idx e k b :
  emitter_byte e k = Some b -> In (E m md idx k b) (emitter_entries m md idx e).
Proof.
  destruct e as [b'|b'|defs], k as [| |w]; cbn [emitter_byte emitter_entries]; try discriminate.
  - intros [= ->]. left; reflexivity.
  - intros [= ->]. left; reflexivity.
  - intros H. apply in_flat_map. exists w. split; [destruct w; cbn; auto|].
    rewrite H. left; reflexivity.
Qed.

Lemma get_emitter_entry t m md idx e k b :
  get_emitter t m md idx = Ok e -> emitter_byte e k = Some b ->
  exists idx', In (E m md idx' k b) (entries t) /\ (idx' = None \/ idx' = idx).
Proof.
  intros Hg Hb. apply get_emitter_ok in Hg. destruct Hg as (bm & Ht & Hcase).
  apply assoc_str_in in Ht.
  destruct Hcase as [Hs | (l & i & Hm & -> & Hl)].
  - apply assoc_mode_in in Hs. exists None. split; [|left; reflexivity].
    unfold entries. apply in_flat_map. exists (m, bm). split; [exact Ht|].
    apply in_flat_map. exists (md, Single e). split; [exact Hs|].
    cbn [fst snd opdef_entries]. apply emitter_entries_in. exact Hb.
  - apply assoc_mode_in in Hm. apply assoc_str_in in Hl. exists (Some i). split; [|right; reflexivity].
    unfold entries. apply in_flat_map. exists (m, bm). split; [exact Ht|].
    apply in_flat_map. exists (md, ByIndex l). split; [exact Hm|].
    cbn [fst snd opdef_entries]. apply in_flat_map. exists (i, e). split; [exact Hl|].
    cbn [fst snd]. apply emitter_entries_in. exact Hb.
Qed.

(** (2) the pinned supported set, looked up the way OpcodeNode does. *)
Definition lookup_byte (t : optable) (m : str) (md : amode) (idx : option str) (k : pkind) : option Z :=
  match get_emitter t m md idx with Ok e => emitter_byte e k | _ => None end.
Definition supported_ok (t : optable) : bool :=
  forallb (fun mc => match lookup_byte t (fst mc) (p_mode (snd mc)) (p_idx (snd mc)) (p_kind (snd mc)) with
                     | Some _ => true | None => false end) pinned_flat.

Theorem supported_kept t : supported_ok t = true ->
  forall m c, In (m, c) pinned_flat -> exists b, lookup_byte t m (p_mode c) (p_idx c) (p_kind c) = Some b.
Proof.
  unfold supported_ok. rewrite forallb_forall. intros H m c Hin. specialize (H (m, c) Hin).
  cbn [fst snd] in H. destruct (lookup_byte t m (p_mode c) (p_idx c) (p_kind c)) as [b|]; [|discriminate].
  exists b. reflexivity.
Qed.

(** ... hence every pinned operand combination assembles, for every operand of that width. *)
Theorem supported_assembles t : supported_ok t = true -> table_ok t = true ->
  forall m md idx w, In (m, P md idx (PWidth w)) pinned_flat ->
  forall v size rc, resolved_width size v = w -> fits w v = true ->
  exists b, 0 <= b < 256 /\
    opnode_emit t m md idx (Some (Ok v)) size rc = Ok (b :: le_bytes (vsize_n w) (v mod 256 ^ Z.of_nat (vsize_n w))) /\
    opnode_length t m md idx (Some (Ok v)) size = Ok (1 + Z.of_nat (vsize_n w)).
Proof.
  intros Hs Ht m md idx w Hin v size rc Hw Hf.
  destruct (supported_kept t Hs _ _ Hin) as (b & Hl). cbn [p_mode p_idx p_kind] in Hl.
  unfold lookup_byte in Hl. destruct (get_emitter t m md idx) as [e| |] eqn:Hg; try discriminate.
  destruct (get_emitter_entry _ _ _ _ _ _ _ Hg Hl) as (idx' & Hin' & _).
  pose proof (table_sound t Ht _ Hin') as [Hb _]. cbn [e_byte] in Hb.
  destruct e as [b'|b'|defs]; cbn [emitter_byte] in Hl; try discriminate.
  exists b. split; [exact Hb|]. unfold opnode_emit, opnode_length. rewrite Hg. cbn [bind].
  split.
  - rewrite <- Hw in *. apply emitter_emit_plain_ok; [exact Hl|apply byte_ok_range; exact Hb|exact Hf].
  - rewrite emitter_length_plain, Hw. reflexivity.
Qed.

(** ================================================================== 6. end to end *)

(** What the ISA says about an accepted OpcodeNode emission. *)
Definition isa_accepts (m : str) (md : amode) (idx : option str) (ev : option (res Z))
           (size : option vsize) (bs : bytes) : Prop :=
  let M := str_upper m in
  (md = M_none /\ exists b, isa_implied M = Some b /\ bs = [b]) \/
  (md = M_direct /\ exists b d, isa_rel8 M = Some b /\ bs = [b; d] /\ 0 <= d < 256) \/
  (exists v sh, ev = Some (Ok v) /\ amode_shape md idx = Some sh /\
                isa_expected M sh (resolved_width size v) v = Some bs).

Lemma amode_shape_none_nonindexed md sh : amode_shape md None = Some sh -> is_indexed_mode md = false.
Proof. destruct md; cbn; intros H; try reflexivity; discriminate. Qed.

Lemma width_bytes_n w : Z.to_nat (width_bytes w) = vsize_n w /\ width_bytes w = Z.of_nat (vsize_n w).
Proof. destruct w; split; reflexivity. Qed.

Theorem accepted_is_isa t : table_ok t = true ->
  forall m md idx ev size rc bs,
  opnode_emit t m md (cg_index md idx) ev size rc = Ok bs ->
  isa_accepts m md (cg_index md idx) ev size bs.
Proof.
  intros Ht m md idx ev size rc bs. unfold opnode_emit.
  destruct (get_emitter t m md (cg_index md idx)) as [e| |] eqn:Hg; cbn [bind]; try discriminate.
  destruct e as [b|b|defs].
  - (* OpcodeWithoutOperand *)
    cbn [emitter_emit]. unfold pack_B. destruct (byte_ok b) eqn:Hk; [|discriminate]. intros Hbs.
    assert (bs = [b]) by congruence. subst bs.
    destruct (get_emitter_entry t m md _ _ PNoOperand b Hg eq_refl) as (idx' & Hin & _).
    pose proof (table_ok_entry := table_sound t Ht _ Hin).
    unfold table_ok in Ht. rewrite forallb_forall in Ht. specialize (Ht _ Hin).
    unfold entry_ok in Ht. cbn [e_mn e_mode e_idx e_kind e_byte] in Ht.
    apply andb_prop in Ht. destruct Ht as [Hb Ht]. apply andb_prop in Ht. destruct Ht as [Ht Hm].
    apply andb_prop in Ht. destruct Ht as [Ha _]. apply amode_eqb_eq in Ha.
    left. split; [exact Ha|]. exists b. split; [|reflexivity].
    apply isa_implied_unique; [apply byte_ok_range; exact Hb|exact Hm].
  - (* RelativeJumpOpcode *)
    cbn [emitter_emit]. destruct ev as [ev|]; [|discriminate].
    destruct ev as [v| |]; cbn [bind]; try discriminate.
    destruct (addr_physical (rc_bus rc) v) as [[pd|]| |]; cbn [bind]; try discriminate.
    destruct (addr_physical (rc_bus rc) (rc_reloc rc)) as [[h|]| |]; cbn [bind]; try discriminate.
    unfold pack_B, pack_b. destruct (byte_ok b) eqn:Hk; cbn [bind]; [|discriminate].
    destruct ((-128 <=? pd - rc_pc rc - 2) && (pd - rc_pc rc - 2 <=? 127)); cbn [bind]; [|discriminate].
    intros Hbs. assert (bs = [b; (pd - rc_pc rc - 2) mod 256]) by (cbn [app] in Hbs; congruence). subst bs.
    destruct (get_emitter_entry t m md _ _ PRel b Hg eq_refl) as (idx' & Hin & _).
    unfold table_ok in Ht. rewrite forallb_forall in Ht. specialize (Ht _ Hin).
    unfold entry_ok in Ht. cbn [e_mn e_mode e_idx e_kind e_byte] in Ht.
    apply andb_prop in Ht. destruct Ht as [Hb Ht]. apply andb_prop in Ht. destruct Ht as [Ht Hm].
    apply andb_prop in Ht. destruct Ht as [Ha _]. apply amode_eqb_eq in Ha.
    right; left. split; [exact Ha|]. exists b, ((pd - rc_pc rc - 2) mod 256).
    split; [apply isa_rel8_unique; [apply byte_ok_range; exact Hb|exact Hm]|]. split; [reflexivity|lia].
  - (* Opcode *)
    destruct ev as [ev|]; [|discriminate].
    destruct ev as [v|k|].
    2:{ cbn [emitter_emit]. destruct size as [s|]; cbn [guess_size bind]; [|discriminate].
        destruct (opcode_byte defs s); cbn [bind]; discriminate. }
    2:{ cbn [emitter_emit]. destruct size as [s|]; cbn [guess_size bind]; [|discriminate].
        destruct (opcode_byte defs s); cbn [bind]; discriminate. }
    rewrite emitter_emit_plain. cbv zeta. set (w := resolved_width size v).
    destruct (opcode_byte defs w) as [b|] eqn:Hob; [|discriminate].
    destruct (fits w v && byte_ok b) eqn:Hfk; [|discriminate]. intros Hbs.
    assert (Hb' : bs = b :: le_bytes (vsize_n w) (v mod 256 ^ Z.of_nat (vsize_n w))) by congruence.
    destruct (get_emitter_entry t m md _ _ (PWidth w) b Hg Hob) as (idx' & Hin & Hidx).
    pose proof (table_sound t Ht _ Hin) as [Hbr Hs]. cbn [e_mn e_mode e_idx e_kind e_byte] in Hbr, Hs.
    destruct Hs as (imd & l & Hsm & Hisa & Hlen).
    right; right. unfold shape_mode in Hsm.
    destruct (amode_shape md idx') as [sh|] eqn:Hsh; [|discriminate].
    exists v, sh. split; [reflexivity|]. split.
    + destruct Hidx as [-> | ->]; [|exact Hsh].
      unfold cg_index. rewrite (amode_shape_none_nonindexed _ _ Hsh). exact Hsh.
    + unfold isa_expected. fold w. rewrite Hsm.
      assert (Henc : isa_encoding (str_upper m) imd w = Some b).
      { apply isa_encoding_unique; [exact Hbr|]. unfold row_matches. rewrite Hisa.
        rewrite str_eqb_refl, Hlen. replace (isa_mode_eqb imd imd) with true
          by (symmetry; apply isa_mode_eqb_eq; reflexivity). reflexivity. }
      rewrite Henc. destruct (width_bytes_n w) as [-> ->]. rewrite Hb'. reflexivity.
Qed.

(** A mnemonic / operand shape / width combination the matrix does not define is rejected. *)
Corollary undefined_rejected t : table_ok t = true ->
  forall m md idx v size rc,
  (md = M_none -> isa_implied (str_upper m) = None) ->
  (md = M_direct -> isa_rel8 (str_upper m) = None) ->
  (forall sh, amode_shape md (cg_index md idx) = Some sh ->
              isa_expected (str_upper m) sh (resolved_width size v) v = None) ->
  is_ok (opnode_emit t m md (cg_index md idx) (Some (Ok v)) size rc) = false.
Proof.
  intros Ht m md idx v size rc Hi Hr Hs.
  destruct (opnode_emit t m md (cg_index md idx) (Some (Ok v)) size rc) as [bs| |] eqn:E; try reflexivity.
  exfalso. apply (accepted_is_isa t Ht) in E. destruct E as [[Hm (b & Hb & _)] | [[Hm (b & d & Hb & _)] | (v' & sh & Hv & Hsh & He)]].
  - rewrite (Hi Hm) in Hb. discriminate.
  - rewrite (Hr Hm) in Hb. discriminate.
  - assert (v' = v) by congruence. subst. rewrite (Hs sh Hsh) in He. discriminate.
Qed.

(** ================================================================== 7. the oracle's reading *)

(** The (mode, index) key under which the oracle looks a shape up in the supported set is the
    one the specification reads back as that shape. *)
Lemma shape_key_shape sh md idx : shape_key sh = Some (md, idx) -> amode_shape md idx = Some sh.
Proof. destruct sh; cbn; intros H; inversion H; subst; reflexivity. Qed.

Lemma bytes_eqb_eq (a b : bytes) : bytes_eqb a b = true <-> a = b.
Proof. exact (str_eqb_eq a b). Qed.

(** What a true oracle bit means for an accepted operand statement: the written block is, for
    one of the widths the property allows, exactly the specification's encoding. *)
Lemma spec_plain_accept_sound m sh suffix v blocks :
  spec_plain m sh suffix v (OOk blocks) = true ->
  exists bs w, blocks = [(0, bs)] /\ In w (widths suffix v) /\ isa_expected m sh w v = Some bs.
Proof.
  unfold spec_plain. cbv zeta.
  destruct (single_block (OOk blocks)) as [bs|] eqn:Es; [|discriminate].
  intros H. apply existsb_exists in H. destruct H as (x & Hin & Hx).
  apply bytes_eqb_eq in Hx. subst x.
  apply in_flat_map in Hin. destruct Hin as (w & Hw & Hin).
  exists bs, w. split; [|split; [exact Hw|]].
  - unfold single_block in Es. destruct blocks as [|[a b] r]; [discriminate|].
    destruct a; try discriminate. destruct r; [|discriminate]. congruence.
  - destruct (isa_expected m sh w v) as [e|]; cbn [opt_list] in Hin; [|destruct Hin].
    destruct Hin as [->|[]]. reflexivity.
Qed.

(** ... and for a rejected one: the combination is not a representable member of the pinned set. *)
Lemma spec_plain_reject_sound m sh suffix v k w :
  spec_plain m sh suffix v (OErr k) = true -> widths suffix v = [w] ->
  pinned_desc m sh (PWidth w) = true -> representable w v = false.
Proof.
  unfold spec_plain. cbv zeta. intros H Hw Hp. rewrite Hw, Hp in H. cbn [andb] in H.
  destruct (representable w v); [discriminate|reflexivity].
Qed.
