(** General little-endian packing lemmas (used by C01 for operands, reusable for the data
    directives of C07): [le_bytes]/[le_decode], the masks [v & 0xFF], [v & 0xFFFF], the
    [struct.pack("<HB", v & 0xFFFF, v >> 16)] idiom, and [Opcode.emit_value]. *)
From Coq Require Import ZArith List Lia Bool ZifyBool.
From A816 Require Import Model.Opcode Proofs.BitLemmas.
Open Scope Z_scope.
Ltac Zify.zify_post_hook ::= Z.to_euclidean_division_equations.

(** ------------------------------------------------------------------ le_bytes / le_decode *)

Lemma le_bytes_length n x : length (le_bytes n x) = n.
Proof. revert x; induction n as [|n IH]; intros x; cbn [le_bytes length]; [reflexivity|now rewrite IH]. Qed.

Lemma le_bytes_S n x : le_bytes (S n) x = (x mod 256) :: le_bytes n (x / 256).
Proof. reflexivity. Qed.

(** Every produced element is a byte. *)
Lemma le_bytes_range n x : Forall (fun b => 0 <= b < 256) (le_bytes n x).
Proof.
  revert x; induction n as [|n IH]; intros x; cbn [le_bytes]; constructor; [lia|apply IH].
Qed.

Lemma pow256_S n : 256 ^ Z.of_nat (S n) = 256 * 256 ^ Z.of_nat n.
Proof. rewrite Nat2Z.inj_succ, Z.pow_succ_r by lia. reflexivity. Qed.

Lemma pow256_pos n : 0 < 256 ^ Z.of_nat n.
Proof. apply Z.pow_pos_nonneg; lia. Qed.

(** Decoding what was packed gives back the value truncated to [n] bytes — for every
    integer, negative ones included (two's complement falls out of [Z.modulo]). *)
Lemma le_decode_le_bytes n x : le_decode (le_bytes n x) = x mod 256 ^ Z.of_nat n.
Proof.
  revert x; induction n as [|n IH]; intros x.
  - cbn [le_bytes le_decode]. rewrite Z.pow_0_r, Z.mod_1_r. reflexivity.
  - cbn [le_bytes le_decode]. rewrite IH, pow256_S.
    pose proof (pow256_pos n) as Hp.
    rewrite Z.rem_mul_r by lia. reflexivity.
Qed.

(** Only the [n] low bytes matter. *)
Lemma le_bytes_mod n x : le_bytes n (x mod 256 ^ Z.of_nat n) = le_bytes n x.
Proof.
  revert x; induction n as [|n IH]; intros x; [reflexivity|].
  cbn [le_bytes]. rewrite pow256_S. pose proof (pow256_pos n) as Hp.
  rewrite Z.rem_mul_r by lia.
  set (r := (x / 256) mod 256 ^ Z.of_nat n).
  assert (Hm : (x mod 256 + 256 * r) mod 256 = x mod 256).
  { lia. }
  assert (Hd : (x mod 256 + 256 * r) / 256 = r).
  { lia. }
  rewrite Hm, Hd. unfold r. rewrite IH. reflexivity.
Qed.

Lemma le_bytes_in_range n x : 0 <= x < 256 ^ Z.of_nat n -> le_decode (le_bytes n x) = x.
Proof. intros H. rewrite le_decode_le_bytes. apply Z.mod_small; exact H. Qed.

(** Two values pack to the same [n] bytes exactly when they agree modulo 256^n. *)
Lemma le_bytes_inj_mod n x y : le_bytes n x = le_bytes n y <-> x mod 256 ^ Z.of_nat n = y mod 256 ^ Z.of_nat n.
Proof.
  split; intros H.
  - rewrite <- !le_decode_le_bytes, H. reflexivity.
  - rewrite <- (le_bytes_mod n x), <- (le_bytes_mod n y), H. reflexivity.
Qed.

Lemma le_bytes_app n m x :
  le_bytes (n + m) x = le_bytes n x ++ le_bytes m (x / 256 ^ Z.of_nat n).
Proof.
  revert x; induction n as [|n IH]; intros x.
  - cbn [plus le_bytes app]. rewrite Z.pow_0_r, Z.div_1_r. reflexivity.
  - cbn [plus le_bytes app]. rewrite IH. f_equal. f_equal. f_equal.
    rewrite pow256_S. pose proof (pow256_pos n). rewrite Z.div_div by lia. reflexivity.
Qed.

(** ------------------------------------------------------------------ the Python idioms *)

(** struct.pack("B", v & 0xFF) *)
Lemma pack_byte_masked v : [Z.land v 255] = le_bytes 1 (v mod 256).
Proof. cbn [le_bytes]. rewrite land_255, Z.mod_mod by lia. reflexivity. Qed.
Lemma pack_byte_masked' v : [Z.land v 255] = le_bytes 1 v.
Proof. cbn [le_bytes]. rewrite land_255. reflexivity. Qed.

(** struct.pack("<H", v & 0xFFFF) *)
Lemma pack_word_masked v : le_bytes 2 (Z.land v 65535) = le_bytes 2 (v mod 65536).
Proof. rewrite land_65535. reflexivity. Qed.
Lemma pack_word_masked' v : le_bytes 2 (Z.land v 65535) = le_bytes 2 v.
Proof. rewrite land_65535. exact (le_bytes_mod 2 v). Qed.

(** struct.pack("<HB", v & 0xFFFF, (v >> 16) & 0xFF)   (LongNode, .dl) *)
Lemma pack_long_masked v :
  le_bytes 2 (Z.land v 65535) ++ [Z.land (Z.shiftr v 16) 255] = le_bytes 3 (v mod 16777216).
Proof.
  rewrite pack_word_masked', land_255, shiftr16.
  change 16777216 with (256 ^ Z.of_nat 3). rewrite le_bytes_mod.
  change 3%nat with (2 + 1)%nat. rewrite le_bytes_app. reflexivity.
Qed.

(** struct.pack("<HB", v & 0xFFFF, v >> 16) when the high part is a byte   (Opcode.emit_value "l") *)
Lemma pack_long_checked v :
  0 <= v < 16777216 -> le_bytes 2 (Z.land v 65535) ++ [Z.shiftr v 16] = le_bytes 3 v.
Proof.
  intros H. rewrite pack_word_masked', shiftr16.
  change 3%nat with (2 + 1)%nat. rewrite le_bytes_app. cbn [le_bytes].
  change (256 ^ Z.of_nat 2) with 65536. f_equal. f_equal. lia.
Qed.

Lemma high_byte_ok v : byte_ok (Z.shiftr v 16) = true <-> 0 <= v < 16777216.
Proof. rewrite shiftr16. unfold byte_ok. lia. Qed.

(** ------------------------------------------------------------------ Opcode.emit_value *)

Definition vsize_n (s : vsize) : nat := S (vsize_idx s).

(** The value fits the packing of width [s]: only the 3-byte form is range-checked. *)
Definition fits (s : vsize) (v : Z) : bool :=
  match s with SzL => (0 <=? v) && (v <? 16777216) | _ => true end.

Lemma emit_value_b v : emit_value v SzB = Ok (le_bytes 1 (v mod 256)).
Proof. unfold emit_value. rewrite pack_byte_masked. reflexivity. Qed.

Lemma emit_value_w v : emit_value v SzW = Ok (le_bytes 2 (v mod 65536)).
Proof. unfold emit_value. rewrite pack_word_masked. reflexivity. Qed.

Lemma emit_value_l v : 0 <= v < 16777216 -> emit_value v SzL = Ok (le_bytes 3 v).
Proof.
  intros H. unfold emit_value. cbv zeta.
  destruct (byte_ok (Z.shiftr v 16)) eqn:E.
  - rewrite pack_long_checked by exact H. reflexivity.
  - apply high_byte_ok in H. congruence.
Qed.

Lemma emit_value_l_err v : ~ (0 <= v < 16777216) -> emit_value v SzL = Err EStruct.
Proof.
  intros H. unfold emit_value. cbv zeta.
  destruct (byte_ok (Z.shiftr v 16)) eqn:E; [|reflexivity].
  apply high_byte_ok in E. contradiction.
Qed.

Lemma emit_value_l_iff v bs : emit_value v SzL = Ok bs <-> 0 <= v < 16777216 /\ bs = le_bytes 3 v.
Proof.
  split.
  - intros H. destruct (Z_le_dec 0 v) as [H0|H0]; [destruct (Z_lt_dec v 16777216) as [H1|H1]|].
    + rewrite emit_value_l in H by lia. inversion H. split; [lia|reflexivity].
    + rewrite emit_value_l_err in H by lia. discriminate.
    + rewrite emit_value_l_err in H by lia. discriminate.
  - intros [H ->]. apply emit_value_l; exact H.
Qed.

(** One statement for the three widths: truncation to the width, least significant byte
    first; rejected exactly when a 3-byte operand does not fit 24 bits. *)
Theorem emit_value_spec v s :
  emit_value v s =
  if fits s v then Ok (le_bytes (vsize_n s) (v mod 256 ^ Z.of_nat (vsize_n s))) else Err EStruct.
Proof.
  destruct s; unfold fits, vsize_n; cbn [vsize_idx].
  - apply emit_value_b.
  - apply emit_value_w.
  - destruct ((0 <=? v) && (v <? 16777216)) eqn:E.
    + rewrite emit_value_l by lia. change (256 ^ Z.of_nat 3) with 16777216.
      rewrite Z.mod_small by lia. reflexivity.
    + apply emit_value_l_err. lia.
Qed.

Lemma emit_value_length v s bs : emit_value v s = Ok bs -> length bs = vsize_n s.
Proof.
  rewrite emit_value_spec. destruct (fits s v); [|discriminate].
  intros H. assert (Hb : bs = le_bytes (vsize_n s) (v mod 256 ^ Z.of_nat (vsize_n s))) by congruence.
  rewrite Hb. apply le_bytes_length.
Qed.

Lemma emit_value_decode v s bs :
  emit_value v s = Ok bs -> le_decode bs = v mod 256 ^ Z.of_nat (vsize_n s).
Proof.
  rewrite emit_value_spec. destruct (fits s v); [|discriminate].
  intros H. assert (Hb : bs = le_bytes (vsize_n s) (v mod 256 ^ Z.of_nat (vsize_n s))) by congruence.
  rewrite Hb, le_decode_le_bytes. apply Z.mod_mod.
  pose proof (pow256_pos (vsize_n s)); lia.
Qed.

Lemma emit_value_no_fuel v s : emit_value v s <> OutOfFuel.
Proof. rewrite emit_value_spec. destruct (fits s v); discriminate. Qed.
