(** Where a parse error points (C17).
    [parse_program] fails with [PErr EParse (Some t)] at a definite place of the token list: [t] is
    the token at some index [i] ([t = cur ts i]: a token of the list, or the synthetic EOF beyond
    its end), every token the parser looked at before failing lies in the prefix of length [i + 1],
    and the failure depends on that prefix only: any token list with the same first [i + 1] tokens
    fails at the same token.  So the report points at the first token that cannot continue the
    program — which, for a statement left incomplete at the end of a line, is the first token of
    the NEXT statement.
    One exception, found by the proof: parse_operand_and_addressing re-parses "( e , x )" as a
    direct expression when the token after ")" is an OPERATOR; the re-parse fails at the index
    register — two tokens BEFORE the last token looked at ([quirk]).  There the failure depends
    on [i + 3] tokens.
    Errors raised while parsing an included file name a token of that file ([from_sub]). *)
From Coq Require Import Arith Lia List Bool ZArith.
From A816 Require Import Model.Parser Proofs.ParserProofs.
From A816 Require Proofs.ParserFuelProofs.
Open Scope nat_scope.

(** the first [h] tokens are the same (beyond the end: the synthetic EOF) *)
Definition agree (h : nat) (l l' : list token) : Prop := forall i, i < h -> cur l' i = cur l i.

Lemma agree_mono h h' l l' : agree h l l' -> h' <= h -> agree h' l l'.
Proof. intros H Hle i Hi. apply H. lia. Qed.
Lemma agree_refl h l : agree h l l.
Proof. intros i _. reflexivity. Qed.

Lemma peek_cur (l : list token) q : peek l q = cur l (S q).
Proof. reflexivity. Qed.

(** index register, ")" , operator *)
Definition quirk (l : list token) (i : nat) : Prop :=
  is_ty (cur l i) T_ADDRESSING_MODE_INDEX = true /\ is_ty (cur l (S i)) T_RPAREN = true /\
  is_ty (cur l (S (S i))) T_OPERATOR = true.

Section Fail.
  Variable ts : list token.
  Variable sub : str -> pres (list ast).

  (** [run] gives the same result on every list with the same first [h] tokens *)
  Definition Det {X} (h : nat) (run : list token -> X) : Prop := forall l', agree h ts l' -> run l' = run ts.
  Definition from_sub (t : token) : Prop := exists name, sub name = PErr EParse (Some t).
  (** where the error token [t] of [run] comes from *)
  Definition Src {X} (x : bool) (pos : nat) (run : list token -> X) (t : token) : Prop :=
    (x = true /\ from_sub t) \/
    exists i, pos <= i /\ t = cur ts i /\ (Det (S i) run \/ (x = true /\ quirk ts i /\ Det (i + 3) run)).
  (** a state function started at [pos]: a success ends at [p >= pos] having looked at tokens up to
      index [p] at most; a syntax error is placed *)
  Definition SP {A} (x : bool) (pos : nat) (run : list token -> R A) : Prop :=
    (forall a p, run ts = POk (a, p) -> pos <= p /\ Det (S p) run) /\
    (forall t, run ts = PErr EParse (Some t) -> Src x pos run t).

  Lemma Det_mono {X} h h' (run : list token -> X) : Det h run -> h <= h' -> Det h' run.
  Proof. intros H Hle l' Hag. apply H. eapply agree_mono; eauto. Qed.

  Lemma SP_weaken {A} x pos pos' (run : list token -> R A) : SP x pos run -> pos' <= pos -> SP x pos' run.
  Proof.
    intros [H1 H2] Hle. split.
    - intros a p E. destruct (H1 a p E). split; [lia|assumption].
    - intros t E. destruct (H2 t E) as [Hs|(i & Hi & Ht & Hd)]; [left; exact Hs|right].
      exists i. split; [lia|auto].
  Qed.
  Lemma SP_flag {A} pos (run : list token -> R A) : SP false pos run -> SP true pos run.
  Proof.
    intros [H1 H2]. split; [exact H1|].
    intros t E. destruct (H2 t E) as [[Hx _]|(i & Hi & Ht & [D|(Hx & _)])]; try discriminate.
    right. exists i. auto.
  Qed.

  (* ---------------------------------------------------------------------------------------- *)
  (** ** tactics: run forward on [ts] (in an equation), replay on [l'] (in the goal) *)
  Ltac scrut t :=
    lazymatch t with
    | pbind ?r _ => scrut r
    | (if ?c then _ else _) => c
    | match ?x with _ => _ end => scrut x
    | _ => t
    end.

  Ltac sx E :=
    repeat (unfold expect in E; rewrite ?peek_cur in E; cbn [pbind fst snd app] in E;
      lazymatch type of E with
      | ?LHS = _ =>
        let s := scrut LHS in
        lazymatch s with
        | sub _ => let H := fresh "Hsub" in destruct s as [?|?k ?o|?o|] eqn:H
        | _ =>
        lazymatch type of s with
        | pres _ => fail
        | R _ => fail
        | _ => tryif is_var s then destruct s else
               (let H := fresh "Hc" in
                first [ match s with context [is_ty ?x ?y] => destruct (is_ty x y) eqn:H end
                      | match s with context [str_eqb ?x ?y] => destruct (str_eqb x y) eqn:H end
                      | destruct s eqn:H ]; cbn [orb andb negb] in E)
        end end
      end; try discriminate E).

  (** destruct the call at the head of [E] together with its [SP] facts *)
  Ltac dcall E lem :=
    let Sok := fresh "Sok" in let Serr := fresh "Serr" in let Ec := fresh "Ec" in
    pose proof lem as [Sok Serr]; cbv beta in Sok, Serr;
    lazymatch type of E with
    | ?LHS = _ =>
      let s := scrut LHS in
      destruct s as [[?a ?p]|?k ?o|?o|] eqn:Ec; cbn [pbind fst snd app] in E; try discriminate E;
      try (specialize (Sok _ _ eq_refl); clear Serr; destruct Sok as [?Hle ?HD])
    end.

  Ltac rp l' Hag :=
    repeat (unfold expect; rewrite ?peek_cur; cbn [pbind fst snd app];
      lazymatch goal with
      | |- ?LHS = _ =>
        let s := scrut LHS in
        first
        [ match s with context [cur l' ?i] => rewrite (Hag i) by lia end
        | match s with context [is_ty ?x ?y] => match goal with E : is_ty x y = _ |- _ => rewrite E; cbn [orb andb negb] end end
        | match s with context [str_eqb ?x ?y] => match goal with E : str_eqb x y = _ |- _ => rewrite E; cbn [orb andb negb] end end
        | match goal with E : s = _ |- _ => rewrite E end
        | match s with context [l'] =>
            match eval pattern l' in s with
            | ?F _ => match goal with D : Det ?hD F |- _ =>
                        let Hag' := fresh in let X := fresh in
                        assert (Hag' : agree hD ts l') by (apply (agree_mono _ _ _ _ Hag); lia);
                        pose proof (D l' Hag') as X; cbv beta in X; rewrite X; clear X Hag' end
            end end ]
      end).

  Ltac fin l' Hag := repeat match goal with |- context [cur l' ?i] => rewrite (Hag i) by lia end; reflexivity.

  Create HintDb spdb.
  (** the [SP] fact of the call at the head of [E], from the hint base / the context *)
  Ltac acall E :=
    repeat (lazymatch type of E with
            | ?LHS = _ => let s := scrut LHS in
                          match s with context [cur ts ?i] => let tk := fresh "tk" in set (tk := cur ts i) in * end
            end);
    lazymatch type of E with
    | ?LHS = _ =>
      let s := scrut LHS in
      lazymatch eval pattern ts in s with
      | ?F _ =>
        let H := fresh "HS" in
        eassert (H : SP _ _ F) by (solve [eauto with spdb]);
        dcall E H; clear H
      end
    end;
    repeat match goal with tk := cur ts _ |- _ => subst tk end.

  Ltac ex E := repeat (sx E; try acall E).

  Ltac replay E0 unf :=
    let l' := fresh "l'" in let Hag := fresh "Hag" in
    intros l' Hag; cbv beta; rewrite E0; unf; cbv zeta; rp l' Hag; fin l' Hag.

  Ltac contra :=
    match goal with
    | H1 : t_type ?t = _, H2 : is_ty ?t _ = false |- _ => unfold is_ty in H2; rewrite H1 in H2; discriminate H2
    | H : false = true |- _ => discriminate H
    end.
  Ltac okleaf E E0 unf :=
    first [ exfalso; contra
          | cbn [pbind fst snd app] in E; injection E as <- <-; split; [lia|replay E0 unf] ].

  (** an error leaf: raised here at [cur ts q], or handed up from a call *)
  Ltac errleaf E E0 unf :=
    cbn [pbind fst snd app] in E;
    first
    [ exfalso; contra
    | lazymatch type of E with
      | PErr EParse (Some (cur ts ?q)) = _ =>
          injection E as <-; right; exists q; split; [lia|split; [reflexivity|left; replay E0 unf]]
      end
    | injection E as -> ->;
      match goal with Serr : forall t0, _ = PErr EParse (Some t0) -> Src _ _ _ t0 |- _ =>
        let i := fresh "i" in let D := fresh "D" in let Q := fresh "Q" in
        destruct (Serr _ eq_refl) as [[?Hx ?Hs]|(i & ?Hi & ?Ht & [D|(?Hx & Q & D)])]; try discriminate;
        first
        [ solve [left; split; assumption]
        | right; exists i; split; [lia|split; [assumption|]];
          first [ left; replay E0 unf | right; split; [assumption|split; [assumption|replay E0 unf]] ] ]
      end
    | injection E as -> ->; left; split; [reflexivity|eexists; eassumption] ].

  Lemma pexpr_SP f : forall pos, SP false pos (fun l => pexpr l f pos).
  Proof.
    induction f as [|f IH]; intro pos; split; cbv beta; try (intros; discriminate).
    - intros a p E0. pose proof E0 as E. rewrite pexpr_S in E. cbv zeta in E. ex E;
        okleaf E E0 ltac:(rewrite pexpr_S).
    - intros t E0. pose proof E0 as E. rewrite pexpr_S in E. cbv zeta in E. ex E;
        errleaf E E0 ltac:(rewrite pexpr_S).
  Qed.
  Hint Resolve pexpr_SP : spdb.

  (** [uE] unfolds the function in [E], [uG] in the goal *)
  Ltac sp_auto uE uG :=
    split; cbv beta;
    [ let a := fresh "a" in let p := fresh "p" in let E0 := fresh "E0" in
      intros a p E0; pose proof E0 as E; uE; cbv zeta in E; ex E; okleaf E E0 uG
    | let t := fresh "t" in let E0 := fresh "E0" in
      intros t E0; pose proof E0 as E; uE; cbv zeta in E; ex E; errleaf E E0 uG ].

  Lemma pexpression_SP f pos : SP false pos (fun l => pexpression l f pos).
  Proof. sp_auto ltac:(unfold pexpression in E) ltac:(unfold pexpression). Qed.
  Hint Resolve pexpression_SP : spdb.

  Lemma pmacro_args_loop_SP f : forall pos acc, SP true pos (fun l => pmacro_args_loop l f pos acc).
  Proof.
    induction f as [|f IH]; intros pos acc; [split; cbv beta; intros; discriminate|].
    sp_auto ltac:(cbn [pmacro_args_loop] in E; unfold backup in E) ltac:(cbn [pmacro_args_loop]; unfold backup).
  Qed.
  Hint Resolve pmacro_args_loop_SP : spdb.
  Lemma pmacro_args_SP f pos : SP true pos (fun l => pmacro_args l f pos).
  Proof. sp_auto ltac:(unfold pmacro_args, backup in E) ltac:(unfold pmacro_args, backup). Qed.
  Hint Resolve pmacro_args_SP : spdb.

  Lemma pmap_loop_SP f : forall pos args ps, SP true pos (fun l => pmap_loop l f pos args ps).
  Proof.
    induction f as [|f IH]; intros pos args ps; [split; cbv beta; intros; discriminate|].
    sp_auto ltac:(cbn [pmap_loop] in E; unfold lit_eval in E) ltac:(cbn [pmap_loop]; unfold lit_eval).
  Qed.
  Hint Resolve pmap_loop_SP : spdb.
  Lemma pmap_SP f pos : SP true pos (fun l => pmap l f pos).
  Proof. sp_auto ltac:(unfold pmap in E) ltac:(unfold pmap). Qed.

  Lemma pstruct_loop_SP f : forall pos fields, SP true pos (fun l => pstruct_loop l f pos fields).
  Proof.
    induction f as [|f IH]; intros pos fields; [split; cbv beta; intros; discriminate|].
    sp_auto ltac:(cbn [pstruct_loop] in E) ltac:(cbn [pstruct_loop]).
  Qed.
  Hint Resolve pstruct_loop_SP : spdb.
  Lemma pstruct_SP f pos : SP true pos (fun l => pstruct l f pos).
  Proof. sp_auto ltac:(unfold pstruct in E) ltac:(unfold pstruct). Qed.

  Lemma pquoted_SP pos : SP true pos (fun l => pquoted l pos).
  Proof. sp_auto ltac:(unfold pquoted in E) ltac:(unfold pquoted). Qed.
  Hint Resolve pquoted_SP : spdb.
  Lemma pinclude_ips_SP f pos : SP true pos (fun l => pinclude_ips l f pos).
  Proof. sp_auto ltac:(unfold pinclude_ips in E) ltac:(unfold pinclude_ips). Qed.
  Lemma pcode_lookup_SP pos : SP true pos (fun l => pcode_lookup l pos).
  Proof. sp_auto ltac:(unfold pcode_lookup in E) ltac:(unfold pcode_lookup). Qed.
  (** (entered after a look at the token after the symbol) *)
  Lemma psymbol_SP f pos : SP true (S pos) (fun l => psymbol l f pos).
  Proof. sp_auto ltac:(unfold psymbol in E) ltac:(unfold psymbol). Qed.
  Lemma is_ty_of_type t ty : t_type t = ty -> is_ty t ty = true.
  Proof. intros <-. unfold is_ty, ttype_eqb. apply Z.eqb_refl. Qed.
  Hint Resolve is_ty_of_type : spdb.
  Lemma pstar_eq_SP f pos : SP true pos (fun l => pstar_eq l f pos).
  Proof. sp_auto ltac:(unfold pstar_eq in E) ltac:(unfold pstar_eq). Qed.
  Lemma pat_eq_SP f pos : SP true pos (fun l => pat_eq l f pos).
  Proof. sp_auto ltac:(unfold pat_eq in E) ltac:(unfold pat_eq). Qed.
  Hint Resolve pmap_SP pstruct_SP pinclude_ips_SP pcode_lookup_SP psymbol_SP pstar_eq_SP pat_eq_SP : spdb.

  Lemma plabel_SP pos : SP true pos (fun l => plabel l pos).
  Proof. sp_auto ltac:(unfold plabel, backup in E) ltac:(unfold plabel, backup). Qed.
  Hint Resolve plabel_SP : spdb.

  Lemma is_ty_excl t a b : is_ty t a = true -> is_ty t b = true -> ttype_code a = ttype_code b.
  Proof. unfold is_ty, ttype_eqb. intros H1 H2. apply Z.eqb_eq in H1, H2. congruence. Qed.

  (** parse_operand_and_addressing re-parses "( e" from the parenthesis *)
  Lemma reparse f pos e p2 : is_ty (cur ts pos) T_LPAREN = true -> pexpression ts f (S pos) = POk (e, p2) ->
    (forall e' p', pexpression ts f pos = POk (e', p') ->
       is_ty (cur ts p2) T_RPAREN = true /\ (is_ty (cur ts (S p2)) T_OPERATOR = true -> S (S p2) <= p')) /\
    (forall t, pexpression ts f pos = PErr EParse (Some t) ->
       (is_ty (cur ts p2) T_RPAREN = false /\ t = cur ts p2 /\ Det (S p2) (fun l => pexpression l f pos)) \/
       (exists i, S (S p2) <= i /\ t = cur ts i /\ Det (S i) (fun l => pexpression l f pos))).
  Proof.
    intros HL E1. destruct f as [|f]; [discriminate E1|].
    assert (E1' : pexpr ts (S f) (S pos) = POk (e, p2)).
    { unfold pexpression in E1. destruct (pexpr ts (S f) (S pos)) as [[a q]| | |]; cbn [pbind fst] in E1; try discriminate.
      destruct a; [discriminate|]. injection E1 as <- <-. reflexivity. }
    assert (MONO : pexpr ts f (S pos) = PFuel \/ pexpr ts f (S pos) = POk (e, p2)).
    { destruct (ParserFuelProofs.pexpr_mono ts f (S f) (S pos) ltac:(lia)) as [X|X]; [left; exact X|right; congruence]. }
    split.
    - intros e' p' E0. pose proof E0 as E. unfold pexpression in E. rewrite pexpr_S in E. cbv zeta in E. ex E;
        try discriminate HL; cbn [pbind fst snd app] in E;
        (destruct MONO as [X|X]; [discriminate X|]; try discriminate X; injection X as -> ->);
        injection E as <- <-; (split; [assumption|]); intros HO; first [lia|congruence].
    - intros t E0. pose proof E0 as E. unfold pexpression in E. rewrite pexpr_S in E. cbv zeta in E. ex E;
        try discriminate HL; cbn [pbind fst snd app] in E;
        (destruct MONO as [X|X]; [discriminate X|]; try discriminate X; injection X as -> ->).
      + right. injection E as -> ->.
        match goal with Serr : forall t0, _ = PErr EParse (Some t0) -> Src _ _ _ t0 |- _ =>
          destruct (Serr _ eq_refl) as [[Hx _]|(i & Hi & Ht & [D|(Hx & _)])]; try discriminate end.
        exists i. split; [lia|]. split; [assumption|].
        replay E0 ltac:(unfold pexpression; rewrite pexpr_S).
      + left. injection E as <-. split; [assumption|]. split; [reflexivity|].
        replay E0 ltac:(unfold pexpression; rewrite pexpr_S).
  Qed.

  Lemma poperand_SP f mode0 opc pos : SP true pos (fun l => poperand l f mode0 opc pos).
  Proof.
    split; cbv beta.
    - intros a p E0; pose proof E0 as E; unfold poperand in E; cbv zeta in E; ex E.
      all: try (okleaf E E0 ltac:(unfold poperand)).
      all: match goal with
           | HL : is_ty (cur ts ?q) T_LPAREN = true, E1 : pexpression ts ?g (S ?q) = POk _,
             E2 : pexpression ts ?g ?q = POk _ |- _ =>
               destruct (proj1 (reparse g q _ _ HL E1) _ _ E2) as [RP RO]
           end.
      all: first
        [ exfalso; match goal with HI : is_ty ?t T_ADDRESSING_MODE_INDEX = true |- _ =>
                     pose proof (is_ty_excl _ _ _ HI RP) as X; discriminate X end
        | match goal with HO : is_ty _ T_OPERATOR = true |- _ => specialize (RO HO) end;
          okleaf E E0 ltac:(unfold poperand) ].
    - intros t E0; pose proof E0 as E; unfold poperand in E; cbv zeta in E; ex E.
      all: try (errleaf E E0 ltac:(unfold poperand)).
      all: injection E as -> ->; clear Sok Serr;
           match goal with
           | HL : is_ty (cur ts ?q) T_LPAREN = true, E1 : pexpression ts ?g (S ?q) = POk _,
             E2 : pexpression ts ?g ?q = PErr _ _ |- _ =>
               destruct (proj2 (reparse g q _ _ HL E1) _ E2) as [(RF & RT & RD)|(i & Ri & RT & RD)]
           end.
      all: first
        [ congruence
        | (* the re-parse fails at the index register *)
          match goal with HI : is_ty (cur ts ?j) T_ADDRESSING_MODE_INDEX = true |- _ =>
            right; exists j; split; [lia|split; [exact RT|right; split; [reflexivity|split; [repeat split; assumption|]]]] end;
          replay E0 ltac:(unfold poperand)
        | right; exists i; split; [lia|split; [exact RT|left; replay E0 ltac:(unfold poperand)]] ].
  Qed.
  Hint Resolve poperand_SP : spdb.

  Lemma popcode_SP f pos : SP true pos (fun l => popcode l f pos).
  Proof. sp_auto ltac:(unfold popcode in E) ltac:(unfold popcode). Qed.
  Hint Resolve popcode_SP : spdb.

  (* ---------------------------------------------------------------------------------------- *)
  (** ** the functions that call parse_block / parse_expression_list_inner *)
  Section OpenSP.
    Variable PB : list token -> nat -> R (list ast).
    Variable PEL : list token -> nat -> R margs.
    Hypothesis HPB : forall p, SP true p (fun l => PB l p).
    Hypothesis HPEL : forall p, SP true p (fun l => PEL l p).
    Variable f : nat.

    Lemma pscope_SP pos : SP true pos (fun l => pscope l (PB l) pos).
    Proof. sp_auto ltac:(unfold pscope in E) ltac:(unfold pscope). Qed.
    Lemma pelist_SP pos : SP true pos (fun l => pelist l (PEL l) pos).
    Proof. sp_auto ltac:(unfold pelist in E) ltac:(unfold pelist). Qed.
    Hint Resolve pscope_SP pelist_SP : spdb.
    Lemma pmacro_apply_SP pos : is_ty (cur ts pos) T_IDENTIFIER = true ->
      SP true (S pos) (fun l => pmacro_apply l (PEL l) pos).
    Proof. intros HI. sp_auto ltac:(unfold pmacro_apply in E) ltac:(unfold pmacro_apply). Qed.
    Lemma pmacro_SP pos : SP true pos (fun l => pmacro l (PB l) f pos).
    Proof. sp_auto ltac:(unfold pmacro in E) ltac:(unfold pmacro). Qed.
    Lemma pif_SP pos : SP true pos (fun l => pif l (PB l) f pos).
    Proof. sp_auto ltac:(unfold pif in E) ltac:(unfold pif). Qed.
    Lemma pfor_SP pos : SP true pos (fun l => pfor l (PB l) f pos).
    Proof. sp_auto ltac:(unfold pfor in E) ltac:(unfold pfor). Qed.
    Hint Resolve pmacro_apply_SP pmacro_SP pif_SP pfor_SP : spdb.
    Lemma pkeyword_SP pos : SP true pos (fun l => pkeyword l sub (PB l) (PEL l) f pos).
    Proof. sp_auto ltac:(unfold pkeyword in E) ltac:(unfold pkeyword). Qed.
    Hint Resolve pkeyword_SP : spdb.
    Lemma pdecl_body_SP pos : SP true pos (fun l => pdecl_body l sub (PB l) (PEL l) f pos).
    Proof. sp_auto ltac:(unfold pdecl_body, backup in E) ltac:(unfold pdecl_body, backup). Qed.
  End OpenSP.

  Lemma knot_SP fuel :
    (forall pos, SP true pos (fun l => pdecl l sub fuel pos)) /\
    (forall pos acc, SP true pos (fun l => pblock l sub fuel pos acc)) /\
    (forall pos acc, SP true pos (fun l => pel l sub fuel pos acc)).
  Proof.
    induction fuel as [|f (IH1 & IH2 & IH3)].
    { repeat split; cbv beta; intros; discriminate. }
    split; [|split].
    - intros pos.
      apply (pdecl_body_SP (fun l p => pblock l sub f p []) (fun l p => pel l sub f p [])
                           (fun p => IH2 p []) (fun p => IH3 p []) f pos).
    - intros pos acc.
      sp_auto ltac:(rewrite pblock_S in E) ltac:(rewrite pblock_S).
    - intros pos acc.
      sp_auto ltac:(rewrite pel_S in E) ltac:(rewrite pel_S).
  Qed.

  (** parse_initial *)
  Lemma pinitial_Src f : forall pos acc t, pinitial ts sub f pos acc = PErr EParse (Some t) ->
    Src true pos (fun l => pinitial l sub f pos acc) t.
  Proof.
    induction f as [|f IH]; intros pos acc t E0; [discriminate|].
    destruct (knot_SP f) as (K1 & _).
    pose proof E0 as E. cbn [pinitial] in E. ex E.
    - (* the rest of the program *)
      cbn [pbind fst snd] in E.
      destruct (IH _ _ _ E) as [[Hx Hs]|(i & Hi & Ht & [D|(Hx & Q & D)])].
      + left. split; assumption.
      + right. exists i. split; [lia|]. split; [assumption|]. left.
        replay E0 ltac:(cbn [pinitial]).
      + right. exists i. split; [lia|]. split; [assumption|]. right. split; [assumption|]. split; [assumption|].
        replay E0 ltac:(cbn [pinitial]).
    - errleaf E E0 ltac:(cbn [pinitial]).
  Qed.
End Fail.

(* ------------------------------------------------------------------------------------------ *)
(** * The theorems *)

(** the parser of an included file, as [parse_file] builds it *)
Definition inc_sub (incfuel : nat) (inc : str -> res (list token)) (name : str) : pres (list ast) :=
  match incfuel with
  | O => PErr ERecursion None
  | S i =>
      match inc name with
      | Ok toks => parse_file i inc (parse_fuel (length toks)) toks
      | Err k => PErr k None
      | OutOfFuel => PFuel
      end
  end.

Lemma parse_file_sub incfuel inc fuel ts :
  parse_file incfuel inc fuel ts = pinitial ts (inc_sub incfuel inc) fuel 0 [].
Proof. destruct incfuel; reflexivity. Qed.

(** C17: where a ParserSyntaxError points.  Either the error was raised while parsing an included
    file (and names a token of that file), or the error token is the token at an index [i] of the
    token list (beyond the end: the position-less EOF) and
    - every list with the same first [i + 1] tokens fails at the same token, or
    - (the re-parse of "( e , x )" before an operator) [i] is the index register, followed by ")"
      and an operator, and every list with the same first [i + 3] tokens fails at the same token. *)
Theorem parse_error_locus : forall fuel incfuel inc ts t,
  parse_program fuel incfuel inc ts = PErr EParse (Some t) ->
  (exists name toks j, incfuel = S j /\ inc name = Ok toks /\
                       parse_file j inc (parse_fuel (length toks)) toks = PErr EParse (Some t)) \/
  exists i, t = nth i ts eof_token /\
    ((forall ts', agree (S i) ts ts' -> parse_program fuel incfuel inc ts' = PErr EParse (Some t)) \/
     (quirk ts i /\
      forall ts', agree (i + 3) ts ts' -> parse_program fuel incfuel inc ts' = PErr EParse (Some t))).
Proof.
  intros fuel incfuel inc ts t E. unfold parse_program in *. rewrite parse_file_sub in E.
  destruct (pinitial_Src ts (inc_sub incfuel inc) fuel 0 [] t E) as [[_ (name & Hs)]|(i & _ & Ht & HD)].
  - left. unfold inc_sub in Hs. destruct incfuel as [|j]; [discriminate|].
    destruct (inc name) as [toks|k|] eqn:Ei; try discriminate. exists name, toks, j. auto.
  - right. exists i. split; [exact Ht|].
    destruct HD as [D|(_ & Q & D)]; [left|right; split; [exact Q|]];
      intros ts' Hag; rewrite parse_file_sub, (D ts' Hag); exact E.
Qed.

(** the error token is a token of the list or the synthetic EOF *)
Corollary parse_error_token : forall fuel incfuel inc ts t,
  parse_program fuel incfuel inc ts = PErr EParse (Some t) ->
  (exists name toks j, incfuel = S j /\ inc name = Ok toks /\
                       parse_file j inc (parse_fuel (length toks)) toks = PErr EParse (Some t)) \/
  In t ts \/ t = eof_token.
Proof.
  intros fuel incfuel inc ts t E.
  destruct (parse_error_locus _ _ _ _ _ E) as [H|(i & Ht & _)]; [left; exact H|right].
  destruct (Nat.lt_ge_cases i (length ts)) as [Hi|Hi].
  - left. rewrite Ht. apply nth_In. exact Hi.
  - right. rewrite Ht. apply nth_overflow. exact Hi.
Qed.

(* ------------------------------------------------------------------------------------------ *)
(** * Examples *)

Definition tk (ty : ttype) (v : str) (line col : Z) : token :=
  {| t_type := ty; t_value := v; t_pos := Some {| tp_line := line; tp_col := col; tp_file := [102%Z] |} |}.
Definition no_inc : str -> res (list token) := fun _ => Err EOther.
Definition perr (ts : list token) : option token :=
  match parse_program (parse_fuel (length ts)) 0 no_inc ts with
  | PErr EParse (Some t) => Some t
  | _ => None
  end.

Definition pok (ts : list token) : bool :=
  match parse_program (parse_fuel (length ts)) 0 no_inc ts with POk _ => true | _ => false end.

Definition t_lda := tk T_OPCODE [108;100;97]%Z 0 0.
Definition t_nop := tk T_OPCODE_NAKED [110;111;112]%Z 1 0.

(** "lda #" / "nop": the incomplete operand is reported at the first token of the next line *)
Example incomplete_immediate :
  perr [t_lda; tk T_SHARP [35%Z] 0 4; t_nop; tk T_EOF [] 1 3] = Some t_nop.
Proof. vm_compute. reflexivity. Qed.

(** "x :=" / "nop" *)
Example incomplete_assignment :
  perr [tk T_IDENTIFIER [120%Z] 0 0; tk T_ASSIGN [58;61]%Z 0 2; t_nop; tk T_EOF [] 1 3] = Some t_nop.
Proof. vm_compute. reflexivity. Qed.

(** ".db 1 +" / "nop" *)
Example incomplete_expression :
  perr [tk T_KEYWORD [100;98]%Z 0 0; tk T_NUMBER [49%Z] 0 4; tk T_OPERATOR [43%Z] 0 6; t_nop; tk T_EOF [] 1 3]
  = Some t_nop.
Proof. vm_compute. reflexivity. Qed.

(** the exception: "lda (1,x)+2" is reported at "x", although "lda (1,x)" alone is accepted — the
    failure depends on the two tokens after the index register *)
Definition t_x := tk T_ADDRESSING_MODE_INDEX [120%Z] 0 7.
Definition quirk_line (after : list token) : list token :=
  [t_lda; tk T_LPAREN [40%Z] 0 4; tk T_NUMBER [49%Z] 0 5; t_x; tk T_RPAREN [41%Z] 0 8] ++ after.
Example reparse_quirk :
  perr (quirk_line [tk T_OPERATOR [43%Z] 0 9; tk T_NUMBER [50%Z] 0 10; tk T_EOF [] 0 11]) = Some t_x /\
  quirk (quirk_line [tk T_OPERATOR [43%Z] 0 9; tk T_NUMBER [50%Z] 0 10; tk T_EOF [] 0 11]) 3 /\
  pok (quirk_line [tk T_EOF [] 0 9]) = true.
Proof. split; [vm_compute; reflexivity|]. split; [repeat split|vm_compute; reflexivity]. Qed.

Print Assumptions parse_error_locus.
Print Assumptions parse_error_token.
