(** Letter case of size suffixes and index registers (C16_case, parser part): the opcode statement
    reads the values of OPCODE_SIZE and ADDRESSING_MODE_INDEX tokens only through [lower].

    [tci t t'] : same type, same position, same value -- except that for the two token types above
    only the lower-cased values agree.  Two token lists related pointwise by [tci] give the same
    [OpcodeAstNode] (equal, not merely related: none of those tokens is stored in it), the same
    error class and [tci]-related offending tokens.

    Proved here for the opcode statement ([parse_opcode], and [parse_decl] on an OPCODE /
    OPCODE_NAKED token).  NOT proved: the lifting through the statement loops to whole programs
    (in malformed streams such a token can become the [file_info] of an incbin/table/if/for node
    before the error is found, so the lifting needs a relation on ASTs, not equality). *)
From Coq Require Import Arith Lia List Bool.
From A816 Require Import Model.Parser Proofs.ParserProofs.
Open Scope nat_scope.

Definition ci_type (ty : ttype) : bool :=
  match ty with T_OPCODE_SIZE | T_ADDRESSING_MODE_INDEX => true | _ => false end.

Definition tci (t t' : token) : Prop :=
  t_type t = t_type t' /\ t_pos t = t_pos t' /\
  (if ci_type (t_type t) then lower (t_value t) = lower (t_value t') else t_value t = t_value t').

Definition otci (o o' : option token) : Prop :=
  match o, o' with Some x, Some x' => tci x x' | None, None => True | _, _ => False end.

(** results: equal successes, same error class with related offending tokens *)
Definition rci {A} (r r' : pres A) : Prop :=
  match r, r' with
  | POk a, POk a' => a = a'
  | PErr k t, PErr k' t' => k = k' /\ otci t t'
  | PUnrep t, PUnrep t' => otci t t'
  | PFuel, PFuel => True
  | _, _ => False
  end.

Lemma tci_refl t : tci t t.
Proof. unfold tci. destruct (ci_type (t_type t)); auto. Qed.

Lemma tci_eq t t' : tci t t' -> ci_type (t_type t) = false -> t = t'.
Proof.
  intros (H1 & H2 & H3) Hc. rewrite Hc in H3. destruct t, t'; cbn in *; subst; reflexivity.
Qed.

Lemma tci_is_ty t t' ty : tci t t' -> is_ty t' ty = is_ty t ty.
Proof. intros (H1 & _). unfold is_ty. rewrite H1. reflexivity. Qed.

Lemma is_ty_true t ty : is_ty t ty = true -> t_type t = ty.
Proof. unfold is_ty. destruct (t_type t), ty; cbv; congruence. Qed.

Lemma rci_refl {A} (r : pres A) : rci r r.
Proof. destruct r as [a|k [t|]|[t|]|]; cbn; auto using tci_refl. Qed.

Lemma rci_bind {A B} (r r' : pres A) (k k' : A -> pres B) :
  rci r r' -> (forall a, rci (k a) (k' a)) -> rci (pbind r k) (pbind r' k').
Proof.
  intros H Hk. destruct r, r'; cbn in *; try contradiction; try (subst; apply Hk); auto.
Qed.

Lemma rci_expect {A} t t' ty (k k' : pres A) :
  tci t t' -> (is_ty t ty = true -> rci k k') -> rci (expect t ty k) (expect t' ty k').
Proof.
  intros H Hk. unfold expect. rewrite (tci_is_ty _ _ ty H).
  destruct (is_ty t ty); [auto|]. cbn. auto.
Qed.

Section Case.
  Variables ts ts' : list token.
  Hypothesis Hci : forall q, tci (cur ts q) (cur ts' q).

  Lemma is_ty_ci q ty : is_ty (cur ts' q) ty = is_ty (cur ts q) ty.
  Proof. apply tci_is_ty. apply Hci. Qed.
  Lemma is_ty_peek_ci q ty : is_ty (peek ts' q) ty = is_ty (peek ts q) ty.
  Proof. apply (is_ty_ci (S q)). Qed.

  Lemma cur_ci_eq q ty : is_ty (cur ts q) ty = true -> ci_type ty = false -> cur ts' q = cur ts q.
  Proof.
    intros H Hc. symmetry. apply tci_eq; [apply Hci|]. apply is_ty_true in H. rewrite H. exact Hc.
  Qed.

  Lemma lower_ci q ty : is_ty (cur ts q) ty = true -> ci_type ty = true ->
    lower (t_value (cur ts' q)) = lower (t_value (cur ts q)).
  Proof.
    intros H Hc. destruct (Hci q) as (_ & _ & H3). apply is_ty_true in H. rewrite H, Hc in H3.
    symmetry. exact H3.
  Qed.

  Lemma perr_ci {A} q : @rci A (PErr EParse (Some (cur ts q))) (PErr EParse (Some (cur ts' q))).
  Proof. cbn. split; [reflexivity | apply Hci]. Qed.

  (** rewrite every token the tests have shown to be of a case-sensitive type *)
  Ltac same :=
    repeat match goal with
      | H : is_ty (cur ts ?q) ?ty = true |- context [cur ts' ?q] =>
          rewrite (cur_ci_eq q ty H eq_refl)
      end.

  Lemma pexpr_ci f : forall pos, rci (pexpr ts f pos) (pexpr ts' f pos).
  Proof.
    induction f as [|f IH]; intro pos; [exact I|].
    rewrite !pexpr_S. cbv zeta. rewrite !is_ty_ci.
    apply rci_bind.
    - destruct (is_ty (cur ts pos) T_LPAREN) eqn:H1.
      + same. apply rci_bind; [apply IH|]. intros [e p2].
        apply rci_expect; [apply Hci|]. intro H2. same. apply rci_refl.
      + destruct (is_ty (cur ts pos) T_NUMBER) eqn:H2; [same; apply rci_refl|].
        destruct (is_ty (cur ts pos) T_BOOLEAN) eqn:H3; [same; apply rci_refl|].
        destruct (is_ty (cur ts pos) T_IDENTIFIER) eqn:H4; [same; apply rci_refl|].
        cbn [orb].
        destruct (is_ty (cur ts pos) T_OPERATOR) eqn:H5; cbn [andb]; [|apply perr_ci].
        same.
        destruct (str_eqb (t_value (cur ts pos)) k_minus || str_eqb (t_value (cur ts pos)) k_tilde).
        * apply rci_bind; [apply IH|]. intros [e p2]. apply rci_refl.
        * apply rci_refl.
    - intros [toks p3]. destruct toks as [|x toks']; [apply rci_refl|].
      rewrite is_ty_ci.
      destruct (is_ty (cur ts p3) T_OPERATOR) eqn:H1; [|apply rci_refl].
      same. apply rci_bind; [apply IH|]. intros [e p4]. apply rci_refl.
  Qed.

  Lemma pexpression_ci f pos : rci (pexpression ts f pos) (pexpression ts' f pos).
  Proof.
    unfold pexpression. apply rci_bind; [apply pexpr_ci|]. intro r. apply rci_refl.
  Qed.

  Lemma poperand_ci f mode0 opc pos :
    rci (poperand ts f mode0 opc pos) (poperand ts' f mode0 opc pos).
  Proof.
    unfold poperand. cbv zeta. rewrite !is_ty_ci.
    destruct (is_ty (cur ts pos) T_SHARP) eqn:H1.
    { destruct (is_ty (cur ts (S pos)) T_EOF) eqn:H2; [apply perr_ci|].
      apply rci_bind; [apply pexpression_ci|]. intro r. apply rci_refl. }
    destruct (is_ty (cur ts pos) T_LPAREN) eqn:H2.
    { apply rci_bind; [apply pexpression_ci|]. intros [e p2]. rewrite is_ty_ci.
      destruct (is_ty (cur ts p2) T_ADDRESSING_MODE_INDEX) eqn:H3.
      - rewrite (lower_ci p2 _ H3 eq_refl).
        apply rci_expect; [apply Hci|]. intro H4. rewrite is_ty_peek_ci.
        destruct (is_ty (peek ts (S p2)) T_OPERATOR).
        + apply rci_bind; [apply pexpression_ci|]. intro r. apply rci_refl.
        + apply rci_refl.
      - apply rci_expect; [apply Hci|]. intro H4. rewrite is_ty_peek_ci.
        destruct (is_ty (peek ts p2) T_OPERATOR).
        + apply rci_bind; [apply pexpression_ci|]. intro r. apply rci_refl.
        + apply rci_refl. }
    destruct (is_ty (cur ts pos) T_LBRAKET) eqn:H3.
    { apply rci_bind; [apply pexpression_ci|]. intros [e p2].
      apply rci_expect; [apply Hci|]. intro H4. apply rci_refl. }
    destruct (is_ty opc T_OPCODE).
    - apply rci_bind; [apply pexpression_ci|]. intro r. apply rci_refl.
    - apply rci_refl.
  Qed.

  (** parse_opcode after the optional size suffix *)
  Definition popcode_tail (tl : list token) (f : nat) (opc : token) (size : option str) (p2 : nat) : R ast :=
    dop r <- poperand tl f (if is_ty opc T_OPCODE_NAKED then M_none else M_direct) opc p2;
    let '((mode, inner, operand), p3) := r in
    let vs := match size with Some s => to_vsize s | None => None end in
    if is_ty (cur tl p3) T_ADDRESSING_MODE_INDEX then
      let it := cur tl p3 in
      let idx := lower (t_value it) in
      if match inner with
         | Some i => negb (str_eqb i k_s && str_eqb idx k_y)
         | None => false
         end
      then PErr EParse (Some it)
      else match index_map mode with
           | None => PErr EKey None
           | Some m' =>
               POk (AOpcode m' (t_value opc) vs operand
                      (match idx with [] => inner | _ => Some idx end) opc, S p3)
           end
    else POk (AOpcode mode (t_value opc) vs operand inner opc, p3).

  Lemma popcode_unfold tl f pos :
    popcode tl f pos =
    if is_ty (cur tl (S pos)) T_OPCODE_SIZE
    then popcode_tail tl f (cur tl pos) (Some (lower (t_value (cur tl (S pos))))) (S (S pos))
    else popcode_tail tl f (cur tl pos) None (S pos).
  Proof.
    unfold popcode, popcode_tail. cbv zeta.
    destruct (is_ty (cur tl (S pos)) T_OPCODE_SIZE); reflexivity.
  Qed.

  Lemma popcode_tail_ci f opc size p2 :
    rci (popcode_tail ts f opc size p2) (popcode_tail ts' f opc size p2).
  Proof.
    unfold popcode_tail. apply rci_bind; [apply poperand_ci|]. intros [[[mode inner] operand] p3].
    cbv zeta. rewrite is_ty_ci.
    destruct (is_ty (cur ts p3) T_ADDRESSING_MODE_INDEX) eqn:H1; [|apply rci_refl].
    rewrite (lower_ci p3 _ H1 eq_refl).
    destruct (match inner with Some i => negb (str_eqb i k_s && str_eqb (lower (t_value (cur ts p3))) k_y)
              | None => false end); [apply perr_ci | apply rci_refl].
  Qed.

  (** parse_opcode: [pos] holds an OPCODE / OPCODE_NAKED token (any case-sensitive type will do) *)
  Theorem parse_opcode_case_insensitive f pos :
    ci_type (t_type (cur ts pos)) = false ->
    rci (popcode ts f pos) (popcode ts' f pos).
  Proof.
    intro Hop. rewrite !popcode_unfold.
    assert (Heq : cur ts' pos = cur ts pos) by (symmetry; apply tci_eq; [apply Hci | exact Hop]).
    rewrite Heq. rewrite is_ty_ci.
    destruct (is_ty (cur ts (S pos)) T_OPCODE_SIZE) eqn:H1.
    - rewrite (lower_ci (S pos) _ H1 eq_refl). apply popcode_tail_ci.
    - apply popcode_tail_ci.
  Qed.

  (** parse_decl on an opcode token *)
  Corollary parse_decl_opcode_case_insensitive sub f pos :
    t_type (cur ts pos) = T_OPCODE \/ t_type (cur ts pos) = T_OPCODE_NAKED ->
    rci (pdecl ts sub (S f) pos) (pdecl ts' sub (S f) pos).
  Proof.
    intro Hty.
    assert (Hop : ci_type (t_type (cur ts pos)) = false) by (destruct Hty as [H|H]; rewrite H; reflexivity).
    assert (Heq : t_type (cur ts' pos) = t_type (cur ts pos)) by (symmetry; apply Hci).
    rewrite !pdecl_S. unfold pdecl_body. rewrite Heq.
    destruct Hty as [H|H]; rewrite H; cbn [backup]; cbv zeta;
      (apply rci_bind; [apply parse_opcode_case_insensitive; exact Hop | intro x; apply rci_refl]).
  Qed.
End Case.

(** pointwise-related lists are related at every position (beyond the end both read the
    synthetic EOF token) *)
Lemma forall2_tci_cur ts ts' : Forall2 tci ts ts' -> forall q, tci (cur ts q) (cur ts' q).
Proof.
  intro H. induction H as [|t t' l l' Ht _ IH]; intro q.
  - unfold cur. destruct q; cbn; apply tci_refl.
  - destruct q as [|q]; [exact Ht | apply IH].
Qed.

(** List-level statement.  [_partial]: covers the opcode statement (where size suffixes and index
    registers live); the lifting to whole programs through the statement loops is not proved. *)
Theorem parse_case_insensitive_partial ts ts' sub f pos :
  Forall2 tci ts ts' ->
  t_type (cur ts pos) = T_OPCODE \/ t_type (cur ts pos) = T_OPCODE_NAKED ->
  rci (pdecl ts sub (S f) pos) (pdecl ts' sub (S f) pos).
Proof.
  intros H Hty. apply parse_decl_opcode_case_insensitive; [apply forall2_tci_cur; exact H | exact Hty].
Qed.

Print Assumptions parse_opcode_case_insensitive.
Print Assumptions parse_case_insensitive_partial.
Print Assumptions parse_decl_opcode_case_insensitive.
