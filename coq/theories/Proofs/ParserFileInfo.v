(** C17 (parser part) — which token a statement's AST node carries as [file_info].

    [fi_of a] is the [file_info] of the node.  For a statement parsed by [pdecl] (= parse_decl)
    at position [pos] and ending at [pos'], [fi_of a = cur ts (pos + fi_offset ts pos)] where the
    offset depends only on the first token of the statement:

      offset 0 : opcode, label, IDENTIFIER statements (macro application, [=] / [:=]), compound
                 block [{], and the directives .ascii .text .db .dw .dl .pointer .include
                 (the KEYWORD token itself);
      offset 1 : [{{ name }}] (the name), [*=] / [@=] (first token of the expression), and the
                 directives .scope (the name) .macro (the name) .map (first attribute identifier)
                 .if (first token of the condition) .for (the variable) .struct (the name)
                 .include_ips (the quoted string);
      offset 2 : .incbin / .table — [p.current()] AFTER the string, i.e. the token at [pos'],
                 the first token that does NOT belong to the statement (the next statement's first
                 token, or the EOF token).

    Bounds: [pos <= pos + offset], and [pos + offset < pos'] (a token consumed by this very
    statement) for everything except .incbin / .table where [pos + offset = pos'].  So the line
    of [fi_of a] is never the line of a preceding statement; for .incbin / .table it is the line
    of the FOLLOWING token.

    No fuel hypothesis is needed: the statements hold for every successful [pdecl]. *)
From Coq Require Import Arith Lia List Bool.
From A816 Require Import Model.Parser Proofs.BusProofs Proofs.ParserProofs Proofs.ParserCaseProofs.
Open Scope nat_scope.

Definition fi_of (a : ast) : token :=
  match a with
  | ABlock _ fi | ACompound _ fi | ALabel _ fi | AText _ fi | AAscii _ fi | AScope _ _ _ fi
  | AStarEq _ fi | AAtEq _ fi | AMap _ fi | AIf _ _ _ _ fi | AMacro _ _ _ _ fi | AMacroApply _ _ fi
  | AData _ _ fi | ATable _ fi | AIncludeIps _ _ fi | AIncbin _ fi | ASymbol _ _ fi | AAssign _ _ fi
  | ACodeLookup _ fi | AStruct _ _ fi | AFor _ _ _ _ _ fi | AOpcode _ _ _ _ _ fi => fi
  end.

(** keyword directives whose node carries the KEYWORD token *)
Definition kw_self (v : str) : bool :=
  str_eqb v k_ascii || str_eqb v k_text ||
  match dkind_of v with Some _ => true | None => false end || str_eqb v k_include.
(** .incbin / .table : the token after the string *)
Definition kw_after (v : str) : bool :=
  match dkind_of v with Some _ => false | None => true end &&
  negb (str_eqb v k_scope || str_eqb v k_ascii || str_eqb v k_text || str_eqb v k_include || str_eqb v k_include_ips) &&
  (str_eqb v k_incbin || str_eqb v k_table).

Definition fi_offset (ts : list token) (pos : nat) : nat :=
  let t := cur ts pos in
  match t_type t with
  | T_DOUBLE_LBRACE | T_STAR_EQ | T_AT_EQ => 1
  | T_KEYWORD =>
      if str_eqb (t_value t) k_scope then 1
      else if kw_self (t_value t) then 0
      else if kw_after (t_value t) then 2
      else 1
  | _ => 0
  end.
(** the statement is .incbin / .table *)
Definition fi_after (ts : list token) (pos : nat) : bool :=
  match t_type (cur ts pos) with
  | T_KEYWORD => negb (str_eqb (t_value (cur ts pos)) k_scope) && negb (kw_self (t_value (cur ts pos)))
                 && kw_after (t_value (cur ts pos))
  | _ => false
  end.

(** readable characterisations: the .incbin / .table case is exactly "the keyword is incbin or table" *)
Lemma kw_after_spec v : kw_after v = (str_eqb v k_incbin || str_eqb v k_table).
Proof.
  destruct (str_eqb v k_incbin) eqn:E1; [apply str_eqb_eq in E1; subst; reflexivity|].
  destruct (str_eqb v k_table) eqn:E2; [apply str_eqb_eq in E2; subst; reflexivity|].
  unfold kw_after. rewrite E1, E2. cbn [orb]. apply andb_false_r.
Qed.
Lemma fi_after_spec ts pos :
  fi_after ts pos = true <->
  t_type (cur ts pos) = T_KEYWORD /\ (t_value (cur ts pos) = k_incbin \/ t_value (cur ts pos) = k_table).
Proof.
  unfold fi_after. split.
  - destruct (t_type (cur ts pos)); try discriminate. intro H. split; [reflexivity|].
    apply andb_prop in H. destruct H as [_ H]. rewrite kw_after_spec in H.
    apply orb_prop in H. destruct H as [H|H]; apply str_eqb_eq in H; auto.
  - intros [H1 [H2|H2]]; rewrite H1, H2; reflexivity.
Qed.

(** [adv lo r]: a success of [r] ends at a position >= [lo] *)
Definition adv {A} (lo : nat) (r : R A) : Prop := forall a p, r = POk (a, p) -> lo <= p.
(** [fia t lo r]: a success of [r] is a node whose file_info is [t], ending at a position >= [lo] *)
Definition fia (t : token) (lo : nat) (r : R ast) : Prop :=
  forall a p, r = POk (a, p) -> fi_of a = t /\ lo <= p.

Lemma adv_POk {A} lo (a : A) p : lo <= p -> adv lo (POk (a, p)).
Proof. intros H a' p' E. injection E; intros; subst; exact H. Qed.
Lemma adv_PErr {A} lo k t : @adv A lo (PErr k t).
Proof. intros a p E; discriminate E. Qed.
Lemma adv_PUnrep {A} lo t : @adv A lo (PUnrep t).
Proof. intros a p E; discriminate E. Qed.
Lemma adv_PFuel {A} lo : @adv A lo PFuel.
Proof. intros a p E; discriminate E. Qed.
Lemma adv_weaken {A} lo lo' (r : R A) : adv lo r -> lo' <= lo -> adv lo' r.
Proof. intros H Hle a p E. specialize (H a p E). lia. Qed.
Lemma adv_bind {A B} lo1 lo (r : R A) (k : A * nat -> R B) :
  adv lo1 r -> (forall a p, lo1 <= p -> adv lo (k (a, p))) -> adv lo (pbind r k).
Proof.
  intros H Hk. destruct r as [[a p]| | |]; cbn [pbind];
    [apply Hk; apply (H a p eq_refl) | apply adv_PErr | apply adv_PUnrep | apply adv_PFuel].
Qed.
Lemma adv_bind_sub {A B} lo (r : pres A) (k : A -> R B) :
  (forall a, adv lo (k a)) -> adv lo (pbind r k).
Proof.
  intros Hk. destruct r; cbn [pbind]; [apply Hk | apply adv_PErr | apply adv_PUnrep | apply adv_PFuel].
Qed.
Lemma adv_expect {A} lo t ty (k : R A) : adv lo k -> adv lo (expect t ty k).
Proof. intro H. unfold expect. destruct (is_ty t ty); [exact H | apply adv_PErr]. Qed.
Lemma adv_lit_eval {A} lo t (k : Z -> R A) : (forall v, adv lo (k v)) -> adv lo (lit_eval t k).
Proof. intro H. unfold lit_eval. destruct (py_int_literal (t_value t)); [apply H | apply adv_PErr]. Qed.

Lemma fia_POk t lo a p : fi_of a = t -> lo <= p -> fia t lo (POk (a, p)).
Proof. intros H1 H2 a' p' E. injection E; intros Hp Ha. rewrite <- Ha, <- Hp. split; assumption. Qed.
Lemma fia_PErr t lo k x : fia t lo (PErr k x).
Proof. intros a p E; discriminate E. Qed.
Lemma fia_PUnrep t lo x : fia t lo (PUnrep x).
Proof. intros a p E; discriminate E. Qed.
Lemma fia_PFuel t lo : fia t lo PFuel.
Proof. intros a p E; discriminate E. Qed.
Lemma fia_bind {A} t lo1 lo (r : R A) (k : A * nat -> R ast) :
  adv lo1 r -> (forall a p, lo1 <= p -> fia t lo (k (a, p))) -> fia t lo (pbind r k).
Proof.
  intros H Hk. destruct r as [[a p]| | |]; cbn [pbind];
    [apply Hk; apply (H a p eq_refl) | apply fia_PErr | apply fia_PUnrep | apply fia_PFuel].
Qed.
Lemma fia_bind_sub {A} t lo (r : pres A) (k : A -> R ast) :
  (forall a, fia t lo (k a)) -> fia t lo (pbind r k).
Proof.
  intros Hk. destruct r; cbn [pbind]; [apply Hk | apply fia_PErr | apply fia_PUnrep | apply fia_PFuel].
Qed.
Lemma fia_expect t lo x ty (k : R ast) : fia t lo k -> fia t lo (expect x ty k).
Proof. intro H. unfold expect. destruct (is_ty x ty); [exact H | apply fia_PErr]. Qed.
Lemma fia_adv t lo r : fia t lo r -> adv lo r.
Proof. intros H a p E. apply (H a p E). Qed.

#[global] Hint Extern 1 (_ <= _) => lia : padv.
#[global] Hint Extern 1 (_ < _) => lia : padv.

Ltac acallee := solve [eauto 3 with padv].
Ltac astep :=
  match goal with
  | |- adv _ (POk _) => apply adv_POk; cbn [fst snd]; lia
  | |- adv _ (PErr _ _) => apply adv_PErr
  | |- adv _ (PUnrep _) => apply adv_PUnrep
  | |- adv _ PFuel => apply adv_PFuel
  | |- adv _ (expect _ _ _) => apply adv_expect
  | |- adv _ (lit_eval _ _) => apply adv_lit_eval; intro
  | |- adv _ (backup (S _) _) => cbn [backup]
  | |- adv _ (pbind _ _) =>
      eapply adv_bind; [acallee | let a := fresh "a" in let p := fresh "p" in
                                  let Hp := fresh "Hp" in intros a p Hp; cbn [fst snd]]
  | |- adv _ (match (if ?c then _ else _) with _ => _ end) => destruct c
  | |- adv _ (if ?c then _ else _) => destruct c
  | |- adv _ (match ?x with _ => _ end) => destruct x
  | |- adv _ _ => eapply adv_weaken; [acallee | lia]
  end.
Ltac ago := cbv zeta; repeat astep.

Ltac fstep :=
  match goal with
  | |- fia _ _ (POk ((if ?c then _ else _), _)) => destruct c
  | |- fia _ _ (POk _) => apply fia_POk; cbn [fst snd fi_of]; [reflexivity | lia]
  | |- fia _ _ (PErr _ _) => apply fia_PErr
  | |- fia _ _ (PUnrep _) => apply fia_PUnrep
  | |- fia _ _ PFuel => apply fia_PFuel
  | |- fia _ _ (expect _ _ _) => apply fia_expect
  | |- fia _ _ (backup (S _) _) => cbn [backup]
  | |- fia _ _ (pbind _ _) =>
      eapply fia_bind; [acallee | let a := fresh "a" in let p := fresh "p" in
                                  let Hp := fresh "Hp" in intros a p Hp; cbn [fst snd]]
  | |- fia _ _ (match (if ?c then _ else _) with _ => _ end) => destruct c
  | |- fia _ _ (if ?c then _ else _) => destruct c
  | |- fia _ _ (match ?x with _ => _ end) => destruct x
  end.
Ltac fgo := cbv zeta; repeat fstep.

Section FileInfo.
  Variable ts : list token.

  (** ------------------------------------------------------------ advance of the helper functions *)
  Lemma pexpr_adv f : forall pos, adv (S pos) (pexpr ts f pos).
  Proof.
    induction f as [|f IH]; intro pos; [apply adv_PFuel|].
    rewrite pexpr_S. cbv zeta.
    eapply adv_bind with (lo1 := S pos); [ago|].
    intros toks p3 Hp3. ago.
  Qed.
  #[local] Hint Resolve pexpr_adv : padv.
  Lemma pexpression_adv f pos : adv (S pos) (pexpression ts f pos).
  Proof. unfold pexpression. ago. Qed.
  #[local] Hint Resolve pexpression_adv : padv.

  Lemma poperand_adv f m o pos : adv pos (poperand ts f m o pos).
  Proof. unfold poperand. ago. Qed.
  #[local] Hint Resolve poperand_adv : padv.

  Lemma pmacro_args_loop_adv f : forall pos acc, adv pos (pmacro_args_loop ts f pos acc).
  Proof. induction f as [|f IH]; intros pos acc; [apply adv_PFuel|]. cbn [pmacro_args_loop]. ago. Qed.
  #[local] Hint Resolve pmacro_args_loop_adv : padv.
  Lemma pmacro_args_adv f pos : adv pos (pmacro_args ts f pos).
  Proof. unfold pmacro_args. ago. Qed.
  #[local] Hint Resolve pmacro_args_adv : padv.

  Lemma pmap_loop_adv f : forall pos args ps, adv pos (pmap_loop ts f pos args ps).
  Proof. induction f as [|f IH]; intros pos args ps; [apply adv_PFuel|]. cbn [pmap_loop]. ago. Qed.
  #[local] Hint Resolve pmap_loop_adv : padv.

  Lemma pstruct_loop_adv f : forall pos fields, adv pos (pstruct_loop ts f pos fields).
  Proof. induction f as [|f IH]; intros pos fields; [apply adv_PFuel|]. cbn [pstruct_loop]. ago. Qed.
  #[local] Hint Resolve pstruct_loop_adv : padv.

  Lemma pquoted_adv pos : adv (S pos) (pquoted ts pos).
  Proof. unfold pquoted. ago. Qed.
  #[local] Hint Resolve pquoted_adv : padv.
  Lemma pquoted_exact pos s p : pquoted ts pos = POk (s, p) -> p = S pos.
  Proof.
    unfold pquoted, expect. cbv zeta. destruct (is_ty (cur ts pos) T_QUOTED_STRING); [|discriminate].
    intro E; injection E; intros; subst; reflexivity.
  Qed.

  (** ------------------------------------------------------------ file_info of the simple statements *)
  Lemma popcode_fi f pos : fia (cur ts pos) (S pos) (popcode ts f pos).
  Proof. unfold popcode. fgo. Qed.

  Lemma plabel_fi pos : fia (cur ts pos) (S pos) (plabel ts (S pos)).
  Proof. unfold plabel. fgo. Qed.

  Lemma psymbol_fi f pos : fia (cur ts pos) (S pos) (psymbol ts f pos).
  Proof. unfold psymbol. fgo. Qed.

  Lemma pcode_lookup_fi pos : fia (cur ts pos) (S pos) (pcode_lookup ts pos).
  Proof. unfold pcode_lookup. fgo. Qed.

  Lemma pstar_eq_fi f pos : fia (cur ts pos) (S pos) (pstar_eq ts f pos).
  Proof. unfold pstar_eq. fgo. Qed.
  Lemma pat_eq_fi f pos : fia (cur ts pos) (S pos) (pat_eq ts f pos).
  Proof. unfold pat_eq. fgo. Qed.

  Lemma pinclude_ips_fi f pos : fia (cur ts pos) (S pos) (pinclude_ips ts f pos).
  Proof. unfold pinclude_ips. fgo. Qed.

  (** .map: the first attribute identifier; at least that identifier is consumed *)
  Lemma pmap_fi f pos : fia (cur ts pos) (S pos) (pmap ts f pos).
  Proof.
    unfold pmap, expect. cbv zeta.
    destruct (is_ty (cur ts pos) T_IDENTIFIER) eqn:Hid; [|apply fia_PErr].
    eapply fia_bind with (lo1 := S pos).
    - destruct f as [|f']; [apply adv_PFuel|]. cbn [pmap_loop]. rewrite Hid. ago.
    - intros a p Hp. fgo.
  Qed.

  Lemma pstruct_fi f pos : fia (cur ts pos) (S pos) (pstruct ts f pos).
  Proof. unfold pstruct. fgo. Qed.

  (** ------------------------------------------------------------ statements containing blocks *)
  Variable sub : str -> pres (list ast).

  Section OpenRec.
    Variable PB : nat -> R (list ast).
    Variable PEL : nat -> R margs.
    Variable f : nat.
    Hypothesis HPB : forall q, adv (S q) (PB q).
    Hypothesis HPEL : forall q, adv q (PEL q).
    #[local] Hint Resolve HPB HPEL : padv.

    Lemma pelist_adv q : adv (S q) (pelist ts PEL q).
    Proof. unfold pelist. ago. Qed.
    #[local] Hint Resolve pelist_adv : padv.

    Lemma pscope_fi q : fia (cur ts q) (S q) (pscope ts PB q).
    Proof. unfold pscope. fgo. Qed.
    Lemma pmacro_apply_fi q : fia (cur ts q) (S q) (pmacro_apply ts PEL q).
    Proof. unfold pmacro_apply. fgo. Qed.
    Lemma pmacro_fi q : fia (cur ts q) (S q) (pmacro ts PB f q).
    Proof. unfold pmacro. fgo. Qed.
    Lemma pif_fi q : fia (cur ts q) (S q) (pif ts PB f q).
    Proof. unfold pif. fgo. Qed.
    Lemma pfor_fi q : fia (cur ts q) (S q) (pfor ts PB f q).
    Proof. unfold pfor. fgo. Qed.

    (** parse_keyword: [pos] holds the KEYWORD token *)
    Lemma pkeyword_fi pos a p :
      pkeyword ts sub PB PEL f pos = POk (a, p) ->
      let v := t_value (cur ts pos) in
      let k := if str_eqb v k_scope then 1 else if kw_self v then 0 else if kw_after v then 2 else 1 in
      fi_of a = cur ts (pos + k) /\ pos + k <= p /\
      (negb (str_eqb v k_scope) && negb (kw_self v) && kw_after v = false -> pos + k < p).
    Proof.
      unfold pkeyword, kw_self, kw_after. cbv zeta.
      set (v := t_value (cur ts pos)).
      destruct (str_eqb v k_scope) eqn:E1.
      { intro H. destruct (pscope_fi (S pos) a p H) as [H1 H2].
        replace (pos + 1) with (S pos) by lia. cbn [negb andb]. repeat split; [exact H1 | lia | intros _; lia]. }
      destruct (str_eqb v k_ascii) eqn:E2.
      { cbn [orb negb andb]. intro H.
        assert (X : fia (cur ts pos) (S (S pos)) (dop r <- pquoted ts (S pos); POk (AAscii (fst r) (cur ts pos), snd r))) by fgo.
        destruct (X a p H) as [H1 H2]. rewrite Nat.add_0_r. repeat split; [exact H1 | lia | intros _; lia]. }
      destruct (str_eqb v k_text) eqn:E3.
      { cbn [orb negb andb]. intro H.
        assert (X : fia (cur ts pos) (S (S pos)) (dop r <- pquoted ts (S pos); POk (AText (fst r) (cur ts pos), snd r))) by fgo.
        destruct (X a p H) as [H1 H2]. rewrite Nat.add_0_r. repeat split; [exact H1 | lia | intros _; lia]. }
      destruct (dkind_of v) as [dk|] eqn:E4.
      { cbn [orb negb andb]. intro H.
        assert (X : fia (cur ts pos) (S pos)
                      (dop r <- PEL (S pos);
                       match all_exprs (fst r) with
                       | Some es => POk (AData dk es (cur ts pos), snd r)
                       | None => PErr EAssert None
                       end)) by fgo.
        destruct (X a p H) as [H1 H2]. rewrite Nat.add_0_r. repeat split; [exact H1 | lia | intros _; lia]. }
      destruct (str_eqb v k_include) eqn:E5.
      { cbn [orb negb andb]. intro H.
        assert (X : fia (cur ts pos) (S (S pos))
                      (dop r <- pquoted ts (S pos); dop sub_ast <- sub (fst r); POk (ABlock sub_ast (cur ts pos), snd r))).
        { cbv zeta. eapply fia_bind; [acallee|]. intros s q Hq. cbn [fst snd]. apply fia_bind_sub. intro x. fgo. }
        destruct (X a p H) as [H1 H2]. rewrite Nat.add_0_r. repeat split; [exact H1 | lia | intros _; lia]. }
      cbn [orb negb andb].
      destruct (str_eqb v k_include_ips) eqn:E6.
      { cbn [orb negb andb]. intro H. destruct (pinclude_ips_fi f (S pos) a p H) as [H1 H2].
        replace (pos + 1) with (S pos) by lia. repeat split; [exact H1 | lia | intros _; lia]. }
      destruct (str_eqb v k_incbin) eqn:E7.
      { cbn [orb negb andb]. intro H.
        destruct (pquoted ts (S pos)) as [[s q]| | |] eqn:Eq; cbn [pbind fst snd] in H; try discriminate H.
        apply pquoted_exact in Eq. subst q. injection H; intros; subst.
        replace (pos + 2) with (S (S pos)) by lia. repeat split; [lia | intro X; discriminate X]. }
      destruct (str_eqb v k_table) eqn:E8.
      { cbn [orb negb andb]. intro H.
        destruct (pquoted ts (S pos)) as [[s q]| | |] eqn:Eq; cbn [pbind fst snd] in H; try discriminate H.
        apply pquoted_exact in Eq. subst q. injection H; intros; subst.
        replace (pos + 2) with (S (S pos)) by lia. repeat split; [lia | intro X; discriminate X]. }
      cbn [orb negb andb]. replace (pos + 1) with (S pos) by lia.
      assert (Hfin : forall r : R ast, fia (cur ts (S pos)) (S (S pos)) r -> r = POk (a, p) ->
                fi_of a = cur ts (S pos) /\ S pos <= p /\ (false = false -> S pos < p)).
      { intros r X H. destruct (X a p H) as [H1 H2]. repeat split; [exact H1 | lia | intros _; lia]. }
      destruct (str_eqb v k_macro); [apply Hfin; apply pmacro_fi|].
      destruct (str_eqb v k_map); [apply Hfin; apply pmap_fi|].
      destruct (str_eqb v k_if); [apply Hfin; apply pif_fi|].
      destruct (str_eqb v k_for); [apply Hfin; apply pfor_fi|].
      destruct (str_eqb v k_struct); [apply Hfin; apply pstruct_fi|].
      discriminate.
    Qed.

    Lemma some_inv (X : R ast) t lo a p :
      fia t lo X -> (dop x <- X; POk (Some (fst x), snd x)) = POk (Some a, p) -> fi_of a = t /\ lo <= p.
    Proof.
      intros H E. destruct X as [[a' p']| | |]; cbn [pbind fst snd] in E; try discriminate E.
      injection E; intros; subst. apply (H a p eq_refl).
    Qed.

    (** parse_decl *)
    Lemma pdecl_body_fi pos a p :
      pdecl_body ts sub PB PEL f pos = POk (Some a, p) ->
      fi_of a = cur ts (pos + fi_offset ts pos) /\
      pos + fi_offset ts pos <= p /\
      (fi_after ts pos = false -> pos + fi_offset ts pos < p).
    Proof.
      unfold pdecl_body, fi_offset, fi_after. cbv zeta.
      destruct (t_type (cur ts pos)) eqn:Hty; try discriminate; cbn [backup]; intro H.
      - (* LABEL *)
        destruct (some_inv _ _ _ _ _ (plabel_fi pos) H) as [H1 H2].
        rewrite Nat.add_0_r. repeat split; [exact H1 | lia | intros _; lia].
      - (* IDENTIFIER *)
        rewrite Nat.add_0_r.
        destruct (is_ty (peek ts pos) T_LPAREN).
        + destruct (some_inv _ _ _ _ _ (pmacro_apply_fi pos) H) as [H1 H2].
          repeat split; [exact H1 | lia | intros _; lia].
        + destruct (some_inv _ _ _ _ _ (psymbol_fi f pos) H) as [H1 H2].
          repeat split; [exact H1 | lia | intros _; lia].
      - (* LBRACE *)
        rewrite Nat.add_0_r.
        destruct (PB (S pos)) as [[b q]| | |] eqn:Eb; cbn [pbind fst snd] in H; try discriminate H.
        injection H; intros; subst. pose proof (HPB (S pos) b p Eb).
        repeat split; [lia | intros _; lia].
      - (* OPCODE_NAKED *)
        destruct (some_inv _ _ _ _ _ (popcode_fi f pos) H) as [H1 H2].
        rewrite Nat.add_0_r. repeat split; [exact H1 | lia | intros _; lia].
      - (* OPCODE *)
        destruct (some_inv _ _ _ _ _ (popcode_fi f pos) H) as [H1 H2].
        rewrite Nat.add_0_r. repeat split; [exact H1 | lia | intros _; lia].
      - (* KEYWORD *)
        destruct (pkeyword ts sub PB PEL f pos) as [[a' p']| | |] eqn:Ek; cbn [pbind fst snd] in H; try discriminate H.
        injection H; intros; subst. exact (pkeyword_fi pos a p Ek).
      - (* STAR_EQ *)
        destruct (some_inv _ _ _ _ _ (pstar_eq_fi f (S pos)) H) as [H1 H2].
        replace (pos + 1) with (S pos) by lia. repeat split; [exact H1 | lia | intros _; lia].
      - (* AT_EQ *)
        destruct (some_inv _ _ _ _ _ (pat_eq_fi f (S pos)) H) as [H1 H2].
        replace (pos + 1) with (S pos) by lia. repeat split; [exact H1 | lia | intros _; lia].
      - (* DOUBLE_LBRACE *)
        destruct (some_inv _ _ _ _ _ (pcode_lookup_fi (S pos)) H) as [H1 H2].
        replace (pos + 1) with (S pos) by lia. repeat split; [exact H1 | lia | intros _; lia].
    Qed.

    (** advance of parse_decl (also for the COMMENT case, which yields no node) *)
    Lemma pdecl_body_adv pos : adv (S pos) (pdecl_body ts sub PB PEL f pos).
    Proof.
      intros [a|] p H.
      - destruct (pdecl_body_fi pos a p H) as (_ & H2 & _). revert H H2.
        unfold pdecl_body, fi_offset. cbv zeta.
        destruct (t_type (cur ts pos)) eqn:Hty; try discriminate; cbn [backup]; intros H H2; try lia.
        (* offset-0 statements: redo the bound from the statement lemmas *)
        + destruct (some_inv _ _ _ _ _ (plabel_fi pos) H); lia.
        + destruct (is_ty (peek ts pos) T_LPAREN).
          * destruct (some_inv _ _ _ _ _ (pmacro_apply_fi pos) H); lia.
          * destruct (some_inv _ _ _ _ _ (psymbol_fi f pos) H); lia.
        + destruct (PB (S pos)) as [[b q]| | |] eqn:Eb; cbn [pbind fst snd] in H; try discriminate H.
          injection H; intros; subst. pose proof (HPB (S pos) b p Eb). lia.
        + destruct (some_inv _ _ _ _ _ (popcode_fi f pos) H); lia.
        + destruct (some_inv _ _ _ _ _ (popcode_fi f pos) H); lia.
        + destruct (pkeyword ts sub PB PEL f pos) as [[a' p']| | |] eqn:Ek; cbn [pbind fst snd] in H; try discriminate H.
          injection H; intros; subst.
          destruct (pkeyword_fi pos a p Ek) as (_ & X & Y). cbv zeta in X, Y.
          destruct (str_eqb (t_value (cur ts pos)) k_scope); [lia|].
          destruct (kw_self (t_value (cur ts pos))); [|destruct (kw_after (t_value (cur ts pos))); lia].
          cbn [negb andb] in Y. specialize (Y eq_refl). lia.
      - revert H. unfold pdecl_body. cbv zeta.
        destruct (t_type (cur ts pos)) eqn:Hty; try discriminate; cbn [backup]; intro H.
        + injection H; intros; subst; lia.
        + destruct (is_ty (peek ts pos) T_LPAREN).
          * destruct (pmacro_apply ts PEL pos) as [[? ?]| | |]; cbn [pbind fst snd] in H; discriminate H.
          * destruct (psymbol ts f pos) as [[? ?]| | |]; cbn [pbind fst snd] in H; discriminate H.
        + destruct (PB (S pos)) as [[? ?]| | |]; cbn [pbind fst snd] in H; discriminate H.
        + destruct (popcode ts f pos) as [[? ?]| | |]; cbn [pbind fst snd] in H; discriminate H.
        + destruct (popcode ts f pos) as [[? ?]| | |]; cbn [pbind fst snd] in H; discriminate H.
        + destruct (pkeyword ts sub PB PEL f pos) as [[? ?]| | |]; cbn [pbind fst snd] in H; discriminate H.
        + destruct (pstar_eq ts f (S pos)) as [[? ?]| | |]; cbn [pbind fst snd] in H; discriminate H.
        + destruct (pat_eq ts f (S pos)) as [[? ?]| | |]; cbn [pbind fst snd] in H; discriminate H.
        + destruct (pcode_lookup ts (S pos)) as [[? ?]| | |]; cbn [pbind fst snd] in H; discriminate H.
    Qed.
  End OpenRec.

  (** every success of parse_decl / parse_block / parse_expression_list_inner advances *)
  Lemma knot_adv fuel :
    (forall pos, adv (S pos) (pdecl ts sub fuel pos)) /\
    (forall pos acc, adv (S pos) (pblock ts sub fuel pos acc)) /\
    (forall pos acc, adv pos (pel ts sub fuel pos acc)).
  Proof.
    induction fuel as [|f (IHd & IHb & IHe)].
    - repeat split; intros; apply adv_PFuel.
    - repeat apply conj.
      + intro pos. rewrite pdecl_S. apply pdecl_body_adv; intro q; [apply IHb | apply IHe].
      + intros pos acc. rewrite pblock_S. ago.
      + intros pos acc. rewrite pel_S. cbv zeta.
        destruct (is_ty (cur ts pos) T_RPAREN); [ago|].
        eapply adv_bind with (lo1 := pos); [ago|]. intros item p2 Hp2. ago.
  Qed.

  (** ================================================================ the theorems *)
  Theorem pdecl_file_info f pos a pos' :
    pdecl ts sub (S f) pos = POk (Some a, pos') ->
    fi_of a = cur ts (pos + fi_offset ts pos) /\
    pos + fi_offset ts pos <= pos' /\
    (fi_after ts pos = false -> pos + fi_offset ts pos < pos').
  Proof.
    rewrite pdecl_S. destruct (knot_adv f) as (_ & Hb & He).
    apply pdecl_body_fi; intro q; [apply Hb | apply He].
  Qed.

  (** The file_info token is a token of the statement itself, [pos <= i < pos'], except for
      .incbin / .table where it is the token at [pos'] (the first token after the statement). *)
  Corollary pdecl_file_info_in_statement f pos a pos' :
    pdecl ts sub (S f) pos = POk (Some a, pos') ->
    exists i, fi_of a = cur ts i /\ pos <= i /\
              (if fi_after ts pos then i = pos' else i < pos').
  Proof.
    intro H. destruct (pdecl_file_info f pos a pos' H) as (H1 & H2 & H3).
    exists (pos + fi_offset ts pos). repeat split; [exact H1 | lia |].
    destruct (fi_after ts pos) eqn:Ea; [|apply H3; reflexivity].
    (* .incbin / .table : offset 2 and the statement is exactly KEYWORD + string *)
    revert H. rewrite pdecl_S. unfold pdecl_body, fi_after, fi_offset in *. cbv zeta.
    destruct (t_type (cur ts pos)) eqn:Hty; try discriminate Ea. cbn [backup].
    apply andb_prop in Ea. destruct Ea as [Ea Ea3]. apply andb_prop in Ea. destruct Ea as [Ea1 Ea2].
    apply negb_true_iff in Ea1, Ea2. rewrite Ea1, Ea2, Ea3.
    unfold pkeyword. cbv zeta. rewrite Ea1.
    unfold kw_self in Ea2. unfold kw_after in Ea3. rewrite Ea1 in Ea3.
    destruct (str_eqb (t_value (cur ts pos)) k_ascii); cbn [orb negb andb] in Ea2, Ea3; [discriminate Ea2|].
    destruct (str_eqb (t_value (cur ts pos)) k_text); cbn [orb negb andb] in Ea2, Ea3; [discriminate Ea2|].
    destruct (dkind_of (t_value (cur ts pos))); cbn [orb negb andb] in Ea2, Ea3; [discriminate Ea2|].
    destruct (str_eqb (t_value (cur ts pos)) k_include); cbn [orb negb andb] in Ea2, Ea3; [discriminate Ea2|].
    destruct (str_eqb (t_value (cur ts pos)) k_include_ips); cbn [orb negb andb] in Ea2, Ea3; [discriminate Ea3|].
    destruct (str_eqb (t_value (cur ts pos)) k_incbin).
    - destruct (pquoted ts (S pos)) as [[s q]| | |] eqn:Eq; cbn [pbind fst snd]; try discriminate.
      apply pquoted_exact in Eq. subst q. intro E; injection E; intros; subst. lia.
    - destruct (str_eqb (t_value (cur ts pos)) k_table); cbn [orb negb andb] in Ea3; [|discriminate Ea3].
      destruct (pquoted ts (S pos)) as [[s q]| | |] eqn:Eq; cbn [pbind fst snd]; try discriminate.
      apply pquoted_exact in Eq. subst q. intro E; injection E; intros; subst. lia.
  Qed.

  (** the line of the node is the line of a token at or after the first token of the statement:
      never a token of a preceding statement *)
  Corollary pdecl_file_info_not_before f pos a pos' :
    pdecl ts sub (S f) pos = POk (Some a, pos') ->
    exists i, pos <= i <= pos' /\ fi_of a = cur ts i.
  Proof.
    intro H. destruct (pdecl_file_info_in_statement f pos a pos' H) as (i & H1 & H2 & H3).
    exists i. split; [|exact H1]. destruct (fi_after ts pos); lia.
  Qed.
End FileInfo.

Print Assumptions pdecl_file_info.
Print Assumptions pdecl_file_info_in_statement.
Print Assumptions pdecl_file_info_not_before.

(** ---------------------------------------------------------------- non-vacuity / the exceptions, computed
    on concrete token lists ([.incbin 'a'] followed by [nop]; [*= 0x8000]; [.scope s { }]) *)
Module Examples.
  Open Scope Z_scope.
  Definition F : str := [109;97;105;110;46;115].
  Definition tk (ty : ttype) (v : str) (l c : Z) : token :=
    {| t_type := ty; t_value := v; t_pos := Some {| tp_line := l; tp_col := c; tp_file := F |} |}.
  Definition nosub : str -> pres (list ast) := fun _ => PErr EFile None.

  Definition nop := tk T_OPCODE_NAKED [110;111;112] 1 0.
  Definition ts1 : list token :=
    [tk T_KEYWORD k_incbin 0 1; tk T_QUOTED_STRING [39;97;39] 0 8; nop; tk T_EOF [] 1 3].
  (** the .incbin node of line 0 carries the [nop] token of line 1 *)
  Example incbin_points_at_next_statement :
    pdecl ts1 nosub 5 0 = POk (Some (AIncbin [97] nop), 2%nat) /\ fi_offset ts1 0 = 2%nat /\ fi_after ts1 0 = true.
  Proof. repeat split. Qed.

  Definition ts2 : list token := [tk T_STAR_EQ [42;61] 0 0; tk T_NUMBER [48;120;56;48;48;48] 0 3; tk T_EOF [] 0 9].
  Example star_eq_points_at_expression :
    option_map fi_of (match pdecl ts2 nosub 5 0 with POk (Some a, _) => Some a | _ => None end)
    = Some (tk T_NUMBER [48;120;56;48;48;48] 0 3) /\ fi_offset ts2 0 = 1%nat.
  Proof. repeat split. Qed.

  Definition ts3 : list token :=
    [tk T_KEYWORD k_scope 0 1; tk T_IDENTIFIER [115] 0 7; tk T_LBRACE [123] 0 9; tk T_RBRACE [125] 0 11; tk T_EOF [] 0 12].
  Example scope_points_at_name :
    option_map fi_of (match pdecl ts3 nosub 9 0 with POk (Some a, _) => Some a | _ => None end)
    = Some (tk T_IDENTIFIER [115] 0 7) /\ fi_offset ts3 0 = 1%nat.
  Proof. repeat split. Qed.
End Examples.
