(** Fuel irrelevance of the parser model: more fuel never changes a result that was not [PFuel].
    Together with fuel sufficiency: for every fuel at least [parse_fuel (length ts)],
    [parse_program fuel] equals [parse_program (parse_fuel (length ts))] -- consumers may pass any
    sufficient fuel. *)
From Coq Require Import Arith Lia List Bool.
From A816 Require Import Model.Parser Proofs.ParserProofs.
Open Scope nat_scope.

(** [le r r']: [r'] (computed with more fuel) refines [r] *)
Definition le {A} (r r' : pres A) : Prop := r = PFuel \/ r = r'.

Lemma le_refl {A} (r : pres A) : le r r.
Proof. right; reflexivity. Qed.
Lemma le_fuel {A} (r : pres A) : le PFuel r.
Proof. left; reflexivity. Qed.

Lemma le_bind {A B} (r r' : pres A) (k k' : A -> pres B) :
  le r r' -> (forall a, le (k a) (k' a)) -> le (pbind r k) (pbind r' k').
Proof.
  intros [H|H] Hk; subst.
  - left; reflexivity.
  - destruct r'; cbn [pbind]; [apply Hk | apply le_refl | apply le_refl | apply le_refl].
Qed.

Lemma le_expect {A} t ty (k k' : pres A) : le k k' -> le (expect t ty k) (expect t ty k').
Proof. intro H. unfold expect. destruct (is_ty t ty); [exact H | apply le_refl]. Qed.

Lemma le_lit_eval {A} t (k k' : Z -> pres A) :
  (forall v, le (k v) (k' v)) -> le (lit_eval t k) (lit_eval t k').
Proof. intro H. unfold lit_eval. destruct (py_int_literal (t_value t)); [apply H | apply le_refl]. Qed.

#[global] Hint Resolve le_refl le_fuel : pmono.
#[global] Hint Extern 1 (_ <= _) => lia : pmono.

Ltac mstep :=
  match goal with
  | |- le ?x ?x => apply le_refl
  | |- le PFuel _ => apply le_fuel
  | |- le (pbind _ _) (pbind _ _) => apply le_bind; [ | intro ]
  | |- le (expect ?t ?ty _) (expect ?t ?ty _) => apply le_expect
  | |- le (lit_eval ?t _) (lit_eval ?t _) => apply le_lit_eval; intro
  | |- le (backup (S _) _) (backup (S _) _) => cbn [backup]
  | |- le (if ?c then _ else _) (if ?c then _ else _) => destruct c
  | |- le (match ?x with _ => _ end) (match ?x with _ => _ end) => destruct x
  | |- le _ _ => solve [eauto 3 with pmono]
  end.
Ltac mgo := cbv zeta; repeat mstep.

Section Mono.
  Variable ts : list token.

  Lemma pexpr_mono f : forall f' pos, f <= f' -> le (pexpr ts f pos) (pexpr ts f' pos).
  Proof.
    induction f as [|f IH]; intros f' pos Hle; [apply le_fuel|].
    destruct f' as [|f']; [lia|]. assert (Hf : f <= f') by lia.
    rewrite !pexpr_S. mgo.
  Qed.
  #[local] Hint Resolve pexpr_mono : pmono.

  Lemma pexpression_mono f f' pos : f <= f' -> le (pexpression ts f pos) (pexpression ts f' pos).
  Proof. intro H. unfold pexpression. mgo. Qed.
  #[local] Hint Resolve pexpression_mono : pmono.

  Lemma poperand_mono f f' m o pos : f <= f' -> le (poperand ts f m o pos) (poperand ts f' m o pos).
  Proof. intro H. unfold poperand. mgo. Qed.
  #[local] Hint Resolve poperand_mono : pmono.

  Lemma popcode_mono f f' pos : f <= f' -> le (popcode ts f pos) (popcode ts f' pos).
  Proof. intro H. unfold popcode. mgo. Qed.
  #[local] Hint Resolve popcode_mono : pmono.

  Lemma pmacro_args_loop_mono f : forall f' pos acc, f <= f' ->
    le (pmacro_args_loop ts f pos acc) (pmacro_args_loop ts f' pos acc).
  Proof.
    induction f as [|f IH]; intros f' pos acc Hle; [apply le_fuel|].
    destruct f' as [|f']; [lia|]. assert (Hf : f <= f') by lia.
    cbn [pmacro_args_loop]. mgo.
  Qed.
  #[local] Hint Resolve pmacro_args_loop_mono : pmono.
  Lemma pmacro_args_mono f f' pos : f <= f' -> le (pmacro_args ts f pos) (pmacro_args ts f' pos).
  Proof. intro H. unfold pmacro_args. mgo. Qed.
  #[local] Hint Resolve pmacro_args_mono : pmono.

  Lemma pmap_loop_mono f : forall f' pos args ps, f <= f' ->
    le (pmap_loop ts f pos args ps) (pmap_loop ts f' pos args ps).
  Proof.
    induction f as [|f IH]; intros f' pos args ps Hle; [apply le_fuel|].
    destruct f' as [|f']; [lia|]. assert (Hf : f <= f') by lia.
    cbn [pmap_loop]. mgo.
  Qed.
  #[local] Hint Resolve pmap_loop_mono : pmono.
  Lemma pmap_mono f f' pos : f <= f' -> le (pmap ts f pos) (pmap ts f' pos).
  Proof. intro H. unfold pmap. mgo. Qed.
  #[local] Hint Resolve pmap_mono : pmono.

  Lemma pstruct_loop_mono f : forall f' pos fields, f <= f' ->
    le (pstruct_loop ts f pos fields) (pstruct_loop ts f' pos fields).
  Proof.
    induction f as [|f IH]; intros f' pos fields Hle; [apply le_fuel|].
    destruct f' as [|f']; [lia|]. assert (Hf : f <= f') by lia.
    cbn [pstruct_loop]. mgo.
  Qed.
  #[local] Hint Resolve pstruct_loop_mono : pmono.
  Lemma pstruct_mono f f' pos : f <= f' -> le (pstruct ts f pos) (pstruct ts f' pos).
  Proof. intro H. unfold pstruct. mgo. Qed.
  #[local] Hint Resolve pstruct_mono : pmono.

  Lemma pinclude_ips_mono f f' pos : f <= f' -> le (pinclude_ips ts f pos) (pinclude_ips ts f' pos).
  Proof. intro H. unfold pinclude_ips. mgo. Qed.
  Lemma psymbol_mono f f' pos : f <= f' -> le (psymbol ts f pos) (psymbol ts f' pos).
  Proof. intro H. unfold psymbol. mgo. Qed.
  Lemma pstar_eq_mono f f' pos : f <= f' -> le (pstar_eq ts f pos) (pstar_eq ts f' pos).
  Proof. intro H. unfold pstar_eq. mgo. Qed.
  Lemma pat_eq_mono f f' pos : f <= f' -> le (pat_eq ts f pos) (pat_eq ts f' pos).
  Proof. intro H. unfold pat_eq. mgo. Qed.
  #[local] Hint Resolve pinclude_ips_mono psymbol_mono pstar_eq_mono pat_eq_mono : pmono.

  Variable sub : str -> pres (list ast).

  Section OpenRec.
    Variables PB PB' : nat -> R (list ast).
    Variables PEL PEL' : nat -> R margs.
    Variables f f' : nat.
    Hypothesis Hf : f <= f'.
    Hypothesis HPB : forall q, le (PB q) (PB' q).
    Hypothesis HPEL : forall q, le (PEL q) (PEL' q).
    #[local] Hint Resolve HPB HPEL : pmono.

    Lemma pscope_mono q : le (pscope ts PB q) (pscope ts PB' q).
    Proof. unfold pscope. mgo. Qed.
    Lemma pelist_mono q : le (pelist ts PEL q) (pelist ts PEL' q).
    Proof. unfold pelist. mgo. Qed.
    #[local] Hint Resolve pscope_mono pelist_mono : pmono.
    Lemma pmacro_apply_mono q : le (pmacro_apply ts PEL q) (pmacro_apply ts PEL' q).
    Proof. unfold pmacro_apply. mgo. Qed.
    Lemma pmacro_mono q : le (pmacro ts PB f q) (pmacro ts PB' f' q).
    Proof. unfold pmacro. mgo. Qed.
    Lemma pif_mono q : le (pif ts PB f q) (pif ts PB' f' q).
    Proof. unfold pif. mgo. Qed.
    Lemma pfor_mono q : le (pfor ts PB f q) (pfor ts PB' f' q).
    Proof. unfold pfor. mgo. Qed.
    #[local] Hint Resolve pmacro_apply_mono pmacro_mono pif_mono pfor_mono : pmono.

    Lemma pkeyword_mono q : le (pkeyword ts sub PB PEL f q) (pkeyword ts sub PB' PEL' f' q).
    Proof. unfold pkeyword. mgo. Qed.
    #[local] Hint Resolve pkeyword_mono : pmono.

    Lemma pdecl_body_mono q : le (pdecl_body ts sub PB PEL f q) (pdecl_body ts sub PB' PEL' f' q).
    Proof. unfold pdecl_body. mgo. Qed.
  End OpenRec.

  Lemma knot_mono f : forall f', f <= f' ->
    (forall pos, le (pdecl ts sub f pos) (pdecl ts sub f' pos)) /\
    (forall pos acc, le (pblock ts sub f pos acc) (pblock ts sub f' pos acc)) /\
    (forall pos acc, le (pel ts sub f pos acc) (pel ts sub f' pos acc)).
  Proof.
    induction f as [|f IH]; intros f' Hle.
    - repeat split; intros; apply le_fuel.
    - destruct f' as [|f']; [lia|]. assert (Hf : f <= f') by lia.
      destruct (IH f' Hf) as (IHd & IHb & IHe).
      repeat apply conj.
      + intro pos. rewrite !pdecl_S. apply pdecl_body_mono; [exact Hf | intro; apply IHb | intro; apply IHe].
      + intros pos acc. rewrite !pblock_S. mgo.
      + intros pos acc. rewrite !pel_S. mgo.
  Qed.

  Lemma pinitial_mono f : forall f' pos acc, f <= f' ->
    le (pinitial ts sub f pos acc) (pinitial ts sub f' pos acc).
  Proof.
    induction f as [|f IH]; intros f' pos acc Hle; [apply le_fuel|].
    destruct f' as [|f']; [lia|]. assert (Hf : f <= f') by lia.
    destruct (knot_mono f f' Hf) as (Hd & _ & _).
    cbn [pinitial]. mgo.
  Qed.
End Mono.

Theorem parse_program_fuel_mono inc ts incfuel f f' :
  f <= f' -> le (parse_program f incfuel inc ts) (parse_program f' incfuel inc ts).
Proof. intro H. unfold parse_program. rewrite !parse_file_unfold. apply pinitial_mono. exact H. Qed.

(** Any sufficient fuel gives the result of the canonical fuel. *)
Theorem parse_fuel_irrelevant :
  forall (inc : str -> res (list token)) (ts : list token) (incfuel fuel : nat),
    (forall name, inc name <> OutOfFuel) ->
    parse_fuel (length ts) <= fuel ->
    parse_program fuel incfuel inc ts = parse_program (parse_fuel (length ts)) incfuel inc ts.
Proof.
  intros inc ts incfuel fuel Hinc Hge.
  destruct (parse_program_fuel_mono inc ts incfuel _ _ Hge) as [H|H].
  - exfalso. revert H. apply parse_fuel_sufficient. exact Hinc.
  - symmetry. exact H.
Qed.

Print Assumptions parse_fuel_irrelevant.
